//go:build verif

package crypto

import (
	"bytes"
	"encoding/hex"
	"fmt"
	"math/big"
	"runtime/debug"
	"testing"

	"github.com/ChainSafe/gossamer/lib/common"
	ged "github.com/ChainSafe/gossamer/lib/crypto/ed25519"
	gsecp "github.com/ChainSafe/gossamer/lib/crypto/secp256k1"
	gsr "github.com/ChainSafe/gossamer/lib/crypto/sr25519"
	"github.com/ChainSafe/gossamer/zz_verif/vcommon"
)

// guard runs f and converts a panic of the code under test into a string.
func guard(f func()) (panicked string) {
	defer func() {
		if p := recover(); p != nil {
			st := string(debug.Stack())
			if len(st) > 3000 {
				st = st[:3000]
			}
			panicked = fmt.Sprintf("%v\n%s", p, st)
		}
	}()
	f()
	return ""
}

func hx(b []byte) string { return hex.EncodeToString(b) }

var sampled = map[string]bool{}

// host is the environment for calling the ext_* host functions (nil: not available).
var host *HostEnv

// sampleOnce keeps one readable sample per category and process.
func sampleOnce(c *vcommon.Case, cat string, v map[string]any) {
	if sampled[cat] {
		return
	}
	sampled[cat] = true
	v["category"] = cat
	c.Sample(v)
}

// ============================================================================ hashes

func lenClass(n int) string {
	switch {
	case n == 0:
		return "len_0"
	case n < 32:
		return "len_1_31"
	case n <= 136:
		return "len_32_136"
	case n <= 300:
		return "len_137_300"
	case n < 1<<20:
		return "len_301_1MiB"
	}
	return "len_ge_1MiB"
}

func checkHashes(c *vcommon.Case, msg []byte) {
	orig := append([]byte{}, msg...)
	n := len(msg)
	w := map[string]any{"len": n}
	if n <= 400 {
		w["msg"] = hx(msg)
	} else {
		w["msg_prefix"] = hx(msg[:64])
		w["msg_blake2b256"] = hx(RefBlake2b(msg, 32))
	}
	c.Count("hash_inputs", 1)
	c.Count("hash_"+lenClass(n), 1)
	for _, blk := range []int{32, 64, 128, 136} {
		if n > 0 && (n%blk == 0 || n%blk == 1 || n%blk == blk-1) {
			c.Count(fmt.Sprintf("hash_block%d_boundary", blk), 1)
		}
	}
	c.Distinct(fmt.Sprintf("hash/%d", n))
	cmp := func(name string, got []byte, err error, want []byte) {
		c.Eval(1)
		if err != nil {
			w["err"] = err.Error()
			c.Violation("hash-error", name+" returned an error", w)
			return
		}
		if !bytes.Equal(got, want) {
			ww := map[string]any{"got": hx(got), "want": hx(want)}
			for k, v := range w {
				ww[k] = v
			}
			c.Violation("digest:"+name, fmt.Sprintf("%s(len %d) = %x, reference %x", name, n, got, want), ww)
		}
	}
	if p := guard(func() {
		b128, err := common.Blake2b128(msg)
		cmp("Blake2b128", b128, err, RefBlake2b(msg, 16))
		b256, err := common.Blake2bHash(msg)
		cmp("Blake2bHash", b256[:], err, RefBlake2b(msg, 32))
		mb := common.MustBlake2bHash(msg)
		cmp("MustBlake2bHash", mb[:], nil, RefBlake2b(msg, 32))
		kk, err := common.Keccak256(msg)
		cmp("Keccak256", kk[:], err, RefKeccak256(msg))
		t64, err := common.Twox64(msg)
		cmp("Twox64", t64, err, RefTwox(msg, 1))
		t128, err := common.Twox128Hash(msg)
		cmp("Twox128Hash", t128, err, RefTwox(msg, 2))
		t256, err := common.Twox256(msg)
		cmp("Twox256", t256[:], err, RefTwox(msg, 4))
		s := common.Sha256(msg)
		cmp("Sha256", s[:], nil, RefSha256(msg))
	}); p != "" {
		w["panic"] = p
		c.Violation("panic", "hash helper panicked", w)
	}
	if host != nil {
		if p := guard(func() {
			for _, hf := range []struct {
				name string
				want []byte
			}{
				{"blake2_128", RefBlake2b(msg, 16)}, {"blake2_256", RefBlake2b(msg, 32)}, {"keccak_256", RefKeccak256(msg)},
				{"sha2_256", RefSha256(msg)}, {"twox_64", RefTwox(msg, 1)}, {"twox_128", RefTwox(msg, 2)}, {"twox_256", RefTwox(msg, 4)},
			} {
				got := host.Hash(hf.name, msg, len(hf.want))
				c.Count("host_hash_calls", 1)
				cmp("ext_hashing_"+hf.name+"_version_1", got, nil, hf.want)
			}
		}); p != "" {
			w["panic"] = p
			c.Violation("panic", "ext_hashing_* host function panicked", w)
		}
	}
	c.Eval(1)
	if !bytes.Equal(orig, msg) {
		c.Violation("hash-mutates-input", "a hash helper modified its input", w)
	}
	if n >= 5 && n <= 64 {
		t128, _ := common.Twox128Hash(msg)
		kk, _ := common.Keccak256(msg)
		sampleOnce(c, "hash", map[string]any{"len": n, "msg": hx(msg), "twox128": hx(t128), "ref_twox128": hx(RefTwox(msg, 2)),
			"keccak256": hx(kk[:]), "ref_keccak256": hx(RefKeccak256(msg))})
	}
}

func hashLen(r *vcommon.Rand, thorough bool) int {
	switch r.Intn(10) {
	case 0, 1, 2:
		return r.Range(0, 300)
	case 3, 4, 5, 6: // around block boundaries of 32 (xxh64 stripe), 64 (sha256), 128 (blake2b), 136 (keccak rate)
		blk := vcommon.Pick(r, []int{32, 64, 128, 136})
		k := r.Range(1, 40)
		return blk*k + r.Range(-2, 2)
	case 7:
		return r.Range(301, 5000)
	case 8:
		return r.Range(5000, 70000)
	}
	if thorough && r.Chance(1, 8) {
		return (1 << 20) + r.Range(-3, 3)
	}
	return r.Range(0, 300)
}

// ============================================================================ ed25519

// C29-K1: lib/crypto/ed25519 verifies with Go's crypto/ed25519 (RFC 8032,
// cofactorless equation, R compared as bytes) instead of ZIP-215. Attribution
// is made by a DEVIATION ORACLE (DESIGN.md §2.5), not by the shape of the input:
// refVerifyRFC8032 (refed.go) is the specification with exactly that deviation
// switched on. Per (A, msg, sig) and entry point:
//
//	impl == ZIP-215                          -> ok
//	impl != ZIP-215 and impl == RFC 8032 model -> known finding C29-K1
//	impl != ZIP-215 and impl != RFC 8032 model -> VIOLATION ed25519-neither-zip215-nor-rfc8032
//
// so a change that makes gossamer reject (or accept) something that BOTH
// verifiers decide the other way - e.g. refusing the all-zero public key, a valid
// encoding of an order-4 point, which crypto/ed25519 accepts whenever k = 0 mod 4 -
// is a violation although A has small order.
const knownEd = "C29-K1"

type edImplVerdict struct {
	method, fn, vs bool
	errs           []string
}

func edImpl(pub, msg, sig []byte) (v edImplVerdict, panicked string) {
	panicked = guard(func() {
		pk, err := ged.NewPublicKey(pub)
		if err != nil {
			v.errs = append(v.errs, "NewPublicKey: "+err.Error())
		} else {
			ok, err := pk.Verify(msg, sig)
			if err != nil {
				v.errs = append(v.errs, "Verify: "+err.Error())
			}
			v.method = ok && err == nil
			ok, err = ged.Verify(pk, msg, sig)
			v.fn = ok && err == nil
		}
		v.vs = ged.VerifySignature(pub, sig, msg) == nil
	})
	return
}

// edKeyLabel names a small-order public key encoding in counters: first two and last byte.
func edKeyLabel(enc []byte) string { return fmt.Sprintf("%x_%x", enc[:2], enc[31:]) }

func checkEd(c *vcommon.Case, kind string, pub, msg, sig []byte) {
	w := map[string]any{"kind": kind, "pub": hx(pub), "sig": hx(sig), "msg": hx(msg)}
	ref := EdVerifyZIP215(pub, msg, sig)
	mod := refVerifyRFC8032(pub, msg, sig)
	impl, p := edImpl(pub, msg, sig)
	c.Count("ed_cases", 1)
	c.Count("ed_kind_"+kind, 1)
	if p != "" {
		w["panic"] = p
		c.Violation("panic", "ed25519 verification panicked", w)
		return
	}
	c.Eval(1)
	if impl.method != impl.fn || impl.method != impl.vs {
		w["impl"] = fmt.Sprintf("%+v", impl)
		c.Violation("ed-entry-points-disagree", "PublicKey.Verify, Verify and VerifySignature give different verdicts", w)
	}
	type entry struct {
		name   string
		accept bool
	}
	eps := []entry{{"PublicKey.Verify", impl.method}, {"Verify", impl.fn}, {"VerifySignature", impl.vs}}
	if host != nil && len(pub) == 32 && len(sig) == 64 {
		var hv uint32
		c.Eval(1)
		c.Count("host_ed25519_verify_calls", 1)
		if p := guard(func() { hv = host.Verify("ed25519_verify_1", sig, msg, pub) }); p != "" {
			w["panic"] = p
			c.Violation("panic", "ext_crypto_ed25519_verify_version_1 panicked", w)
		} else {
			if (hv == 1) != impl.method || hv > 1 {
				w["host"] = hv
				c.Violation("host-ed25519-verify", fmt.Sprintf("ext_crypto_ed25519_verify_version_1 = %d but PublicKey.Verify = %v", hv, impl.method), w)
			}
			eps = append(eps, entry{"ext_crypto_ed25519_verify_version_1", hv == 1})
		}
	}
	// further ed25519 entry points registered by other tests of this package (c29_core_test.go): judged by the
	// same two oracles below; nil in TestVerifC29
	for _, x := range edExtraEntries {
		if acc, ok := x.verify(c, pub, msg, sig, w); ok {
			eps = append(eps, entry{x.name, acc})
		}
	}
	if ref.Accept {
		c.Count("ed_ref_accept", 1)
	} else {
		c.Count("ed_ref_reject_"+ref.Reason, 1)
	}
	if mod.Accept {
		c.Count("ed_rfc8032_model_accept", 1)
	} else {
		c.Count("ed_rfc8032_model_reject_"+mod.Reason, 1)
	}
	if ref.ADecoded && ref.ATorsion {
		c.Count("ed_A_torsion", 1)
	}
	if ref.RDecoded && ref.RTorsion {
		c.Count("ed_R_torsion", 1)
	}
	if ref.ADecoded && !ref.ACanonical {
		c.Count("ed_A_noncanonical", 1)
	}
	if ref.RDecoded && !ref.RCanonical {
		c.Count("ed_R_noncanonical", 1)
	}
	if !ref.SCanonical {
		c.Count("ed_S_noncanonical", 1)
	}
	c.Distinct(fmt.Sprintf("ed/%s/%v/%s/%v/%s/%v%v%v%v/%d", kind, ref.Accept, ref.Reason, mod.Accept, mod.Reason, ref.ATorsion, ref.RTorsion, ref.ACanonical, ref.RCanonical, len(msg)))
	w["zip215"] = fmt.Sprintf("%+v", ref)
	w["rfc8032_model"] = fmt.Sprintf("accept=%v reason=%s R'=%x", mod.Accept, mod.Reason, mod.RPrime)
	w["impl_accept"] = impl.method
	// The model must be what it claims to be: Go's crypto/ed25519 semantics. The standard library only VETOES
	// (inconclusive) here, it never attributes; and cofactorless acceptance implies cofactored acceptance.
	if len(pub) == 32 {
		c.Eval(1)
		if std := GoStdVerify(pub, msg, sig); std != mod.Accept {
			c.Inconclusive(fmt.Sprintf("RFC 8032 model = %v but crypto/ed25519 = %v: pub %x msg %x sig %x", mod.Accept, std, pub, msg, sig))
			return
		}
		c.Count("ed_model_eq_go_stdlib", 1)
	}
	if mod.Accept && !ref.Accept {
		c.Inconclusive(fmt.Sprintf("oracles inconsistent: RFC 8032 model accepts, ZIP-215 reference rejects (%s): pub %x msg %x sig %x", ref.Reason, pub, msg, sig))
		return
	}
	// coverage classes, decided from the two oracles only (not from the implementation, not from the case kind)
	smallA := ref.ADecoded && ref.ASmallOrder
	switch {
	case ref.Accept && mod.Accept:
		c.Count("ed_both_models_accept", 1)
		if smallA {
			c.Count("ed_smallA_both_accept", 1)
			c.Count("ed_smallA_"+edKeyLabel(pub)+"_both_accept", 1)
		} else if ref.ATorsion || ref.RTorsion {
			c.Count("ed_mixed_both_accept", 1)
		}
	case ref.Accept:
		c.Count("ed_zip215_only_accept", 1)
		c.Count("ed_zip215_only_"+mod.Reason, 1)
		if smallA {
			c.Count("ed_smallA_zip215_only", 1)
			c.Count("ed_smallA_"+edKeyLabel(pub)+"_zip215_only", 1)
		}
	default:
		if smallA {
			c.Count("ed_smallA_both_reject", 1)
		}
	}
	var k1 []string
	for _, ep := range eps {
		c.Eval(1)
		switch {
		case ep.accept == ref.Accept:
		case ep.accept == mod.Accept:
			k1 = append(k1, ep.name)
		default:
			dir := "rejects what ZIP-215 and the RFC 8032 (Go crypto/ed25519) model both accept"
			if ep.accept {
				dir = "accepts what ZIP-215 (" + ref.Reason + ") and the RFC 8032 model (" + mod.Reason + ") both reject"
			}
			w["entry_point"] = ep.name
			c.Violation("ed25519-neither-zip215-nor-rfc8032", ep.name+" "+dir, w)
		}
	}
	if len(k1) > 0 {
		c.Count("ed_k1_hits", 1)
		w["entry_points"] = fmt.Sprint(k1)
		c.Known(knownEd, "ZIP-215 accepts, gossamer rejects exactly as the RFC 8032 model of Go crypto/ed25519 does ("+mod.Reason+": cofactorless equation, R compared as canonical bytes)", w)
	}
	if kind == "mixed_order" || kind == "honest" || kind == "special_A_accept" || kind == "special_A_zip215_only" {
		sampleOnce(c, "ed25519_"+kind, map[string]any{"pub": hx(pub), "sig": hx(sig), "msg": hx(msg), "zip215": ref.Accept, "rfc8032_model": mod.Accept,
			"gossamer": impl.method, "A_torsion": ref.ATorsion, "R_torsion": ref.RTorsion})
	}
}

// edSignWith builds a signature that satisfies the cofactored equation for the
// public key A' = [a]B + TA and commitment R' = [r]B + TR, each given in the
// supplied encoding: S = r + H(R'‖A'‖M)·a.
func edSignWith(a, r *big.Int, aEnc, rEnc, msg []byte) []byte {
	h := edHash(rEnc, aEnc, msg)
	S := new(big.Int).Mul(h, a)
	S.Add(S, r).Mod(S, edL)
	return append(append([]byte{}, rEnc...), leBytes(S, 32)...)
}

func randScalar(r *vcommon.Rand) *big.Int {
	v := leInt(r.Bytes(40))
	return v.Mod(v, edL)
}

func msgLen(r *vcommon.Rand) int {
	switch r.Intn(6) {
	case 0:
		return 0
	case 1:
		return vcommon.Pick(r, []int{31, 32, 33, 63, 64, 65, 111, 112, 127, 128, 129, 136})
	case 2:
		return r.Range(128, 300)
	}
	return r.Range(1, 100)
}

type edFixed struct {
	kind          string
	pub, msg, sig []byte
}

func edFixedCorpus() []edFixed {
	var out []edFixed
	// minimal witness of C29-K1 first: A = identity, R = identity encoded as y = p+1, S = 0
	ncIdent := unhex("eeffffffffffffffffffffffffffffffffffffffffffffffffffffffffffff7f")
	ident := EdIdentity().Encode()
	out = append(out, edFixed{"k1_witness", ident, []byte("Zcash"), append(append([]byte{}, ncIdent...), make([]byte, 32)...)})
	for _, v := range RFC8032Vectors {
		pub, msg, sig := unhex(v.Pub), unhex(v.Msg), unhex(v.Sig)
		out = append(out, edFixed{"rfc8032", pub, msg, sig})
		for _, bit := range []int{0, 255, 256, 511} {
			bad := append([]byte{}, sig...)
			bad[bit/8] ^= 1 << uint(bit%8)
			out = append(out, edFixed{"rfc8032_tampered", pub, msg, bad})
		}
		out = append(out, edFixed{"rfc8032_tampered", pub, append(append([]byte{}, msg...), 0), sig})
		// S + L: same residue, non-canonical scalar
		S := leInt(sig[32:])
		S.Add(S, edL)
		out = append(out, edFixed{"s_plus_L", pub, msg, append(append([]byte{}, sig[:32]...), leBytes(S, 32)...)})
		for _, n := range []int{0, 1, 63, 65, 128} {
			out = append(out, edFixed{"sig_length", pub, msg, append([]byte{}, append(sig, sig...)[:n]...)})
		}
	}
	// the 14 x 14 small-order matrix with S = 0 (ZIP-215 test vectors: all valid) and S = L (all invalid)
	var encs [][]byte
	for _, t := range EdTorsion() {
		encs = append(encs, EdEncodings(t)...)
	}
	for _, a := range encs {
		for _, r := range encs {
			out = append(out, edFixed{"small_order_S0", a, []byte("Zcash"), append(append([]byte{}, r...), make([]byte, 32)...)})
		}
	}
	for i, a := range encs {
		r := encs[(i*5+3)%len(encs)]
		out = append(out, edFixed{"small_order_SL", a, []byte("Zcash"), append(append([]byte{}, r...), leBytes(edL, 32)...)})
	}
	// every small-order key with R = identity (canonical), S = 0: valid under ZIP-215 for every message, valid under
	// RFC 8032 / crypto/ed25519 iff [k]A = 0. One message of each challenge residue class mod ord(A), found by counting
	// (seed-independent). A = 00..00 with k = 0 mod 4 is the witness of the "all-zero key is unset" regression.
	ident32 := append(append([]byte{}, ident...), make([]byte, 32)...)
	for _, a := range encs {
		A, _, _ := EdDecodeZIP215(a)
		ord := EdOrder(A)
		seen := map[int64]bool{}
		for n := 0; len(seen) < ord && n < 4096; n++ {
			m := []byte(fmt.Sprintf("C29 special key %d", n))
			res := new(big.Int).Mod(edHash(ident, a, m), big.NewInt(int64(ord))).Int64()
			if seen[res] {
				continue
			}
			seen[res] = true
			out = append(out, edFixed{"special_A_fixed", a, m, ident32})
		}
	}
	return out
}

// edSpecialA exercises one small-order ("special") public key encoding - the identity, the order-2 point, the
// all-zero key and the other order-4 encodings, the order-8 points, canonical and non-canonical - with messages
// SEARCHED so that the challenge k = H(R,A,M) falls into a chosen residue class mod ord(A):
//
//   - R' = [r]B - [m]A with k = m (mod ord A): the cofactorless equation holds, ZIP-215 and crypto/ed25519 both accept
//     -> the implementation must accept (any rejection is a violation, whatever the key looks like);
//   - k != m (mod ord A), a torsion component added to R, or R non-canonically encoded: only ZIP-215 accepts (C29-K1);
//   - S off by one: both reject.
func edSpecialA(c *vcommon.Case, aEnc []byte) {
	r := c.R
	A, _, ok := EdDecodeZIP215(aEnc)
	if !ok {
		c.Inconclusive("special key does not decode")
		return
	}
	ord := EdOrder(A)
	_, _, tor := edSmallOrderEncodings()
	// search a message (random prefix + counter) whose challenge residue mod ord satisfies want
	search := func(rEnc []byte, want func(res int) bool) []byte {
		base := r.Bytes(msgLen(r))
		for n := 0; n < 4096; n++ {
			m := append(append([]byte{}, base...), byte(n), byte(n>>8))
			if n == 0 {
				m = base
			}
			res := int(new(big.Int).Mod(edHash(rEnc, aEnc, m), big.NewInt(int64(ord))).Int64())
			if want(res) {
				c.Count("ed_special_search_steps", n+1)
				return m
			}
		}
		return nil
	}
	commit := func(m int) (rEnc, S []byte) { // R = [r]B - [m]A (r = 0 in one of three cases), canonical encoding
		rr := big.NewInt(0)
		if !r.Chance(1, 3) {
			rr = randScalar(r)
		}
		return edB.Mul(rr).Add(A.Mul(big.NewInt(int64(m))).Neg()).Encode(), leBytes(rr, 32)
	}
	cat := func(a, b []byte) []byte { return append(append([]byte{}, a...), b...) }
	// 1. both verifiers accept
	m := r.Intn(ord)
	rEnc, S := commit(m)
	if msg := search(rEnc, func(res int) bool { return res == m }); msg != nil {
		c.Count(fmt.Sprintf("ed_special_residue_%d_mod_%d_match", m, ord), 1)
		checkEd(c, "special_A_accept", aEnc, msg, cat(rEnc, S))
		// 3. the same with S + 1: both reject
		if r.Chance(1, 4) {
			S1 := leInt(S)
			S1.Add(S1, big1).Mod(S1, edL)
			checkEd(c, "special_A_bad_S", aEnc, msg, cat(rEnc, leBytes(S1, 32)))
		}
	}
	// 2. only ZIP-215 accepts
	variant := r.Intn(3)
	if ord == 1 && variant == 0 {
		variant = 1 + r.Intn(2)
	}
	switch variant {
	case 0: // challenge residue does not match
		m := r.Intn(ord)
		rEnc, S := commit(m)
		if msg := search(rEnc, func(res int) bool { return res != m }); msg != nil {
			c.Count("ed_special_residue_mismatch", 1)
			checkEd(c, "special_A_zip215_only", aEnc, msg, cat(rEnc, S))
		}
	case 1: // torsion component on R that [k]A cannot cancel for this message
		rr := randScalar(r)
		j := r.Range(1, 7)
		rEnc := edB.Mul(rr).Add(tor[j]).Encode()
		msg := search(rEnc, func(res int) bool { return !tor[j].Add(A.Mul(big.NewInt(int64(res)))).IsIdentity() })
		if msg != nil {
			c.Count("ed_special_R_torsion", 1)
			checkEd(c, "special_A_zip215_only", aEnc, msg, cat(rEnc, leBytes(rr, 32)))
		}
	case 2: // R non-canonically encoded (small-order R, S = 0): never equal to the re-encoded R'
		encs, _, _ := edSmallOrderEncodings()
		for {
			i := r.Intn(len(encs))
			if _, canon, _ := EdDecodeZIP215(encs[i]); !canon {
				c.Count("ed_special_R_noncanonical", 1)
				checkEd(c, "special_A_zip215_only", aEnc, r.Bytes(msgLen(r)), cat(encs[i], make([]byte, 32)))
				break
			}
		}
	}
}

func edRandom(c *vcommon.Case, tor []*EdPoint) {
	r := c.R
	seed := r.Bytes(32)
	msg := r.Bytes(msgLen(r))
	kp, err := ged.NewKeypairFromSeed(seed)
	if err != nil {
		c.Violation("ed-keygen", err.Error(), map[string]any{"seed": hx(seed)})
		return
	}
	pub := kp.Public().Encode()
	// the reference derives the same key from the seed (RFC 8032 §5.1.5)
	hh := edSeedScalar(seed)
	c.Eval(1)
	if refPub := edB.Mul(hh).Encode(); !bytes.Equal(refPub, pub) {
		c.Violation("ed-pubkey", "public key derived from seed differs from RFC 8032", map[string]any{"seed": hx(seed), "got": hx(pub), "want": hx(refPub)})
		return
	}
	sig, err := kp.Sign(msg)
	if err != nil {
		c.Violation("ed-sign", err.Error(), map[string]any{"seed": hx(seed)})
		return
	}
	switch r.Intn(10) {
	case 0, 1:
		checkEd(c, "honest", pub, msg, sig)
		// RFC 8032 signing is deterministic: the reference must produce the same bytes
		c.Eval(1)
		if _, rs := EdSign(seed, msg); !bytes.Equal(rs, sig) {
			c.Violation("ed-sign-differs", "Sign output differs from RFC 8032 deterministic signature", map[string]any{"seed": hx(seed), "msg": hx(msg), "got": hx(sig), "want": hx(rs)})
		}
	case 2: // one bit flipped somewhere
		p2, m2, s2 := append([]byte{}, pub...), append([]byte{}, msg...), append([]byte{}, sig...)
		switch t := r.Intn(3); {
		case t == 0 && len(m2) > 0:
			m2[r.Intn(len(m2))] ^= 1 << uint(r.Intn(8))
		case t == 1:
			p2[r.Intn(32)] ^= 1 << uint(r.Intn(8))
		default:
			s2[r.Intn(64)] ^= 1 << uint(r.Intn(8))
		}
		checkEd(c, "tampered", p2, m2, s2)
	case 3: // scalar manipulations
		s2 := append([]byte{}, sig...)
		S := leInt(sig[32:])
		switch r.Intn(4) {
		case 0:
			S.Add(S, edL)
		case 1:
			S.SetInt64(0)
		case 2:
			S = leInt(r.Bytes(32))
		case 3:
			S.Sub(edL, S)
		}
		copy(s2[32:], leBytes(S, 32))
		checkEd(c, "scalar", pub, msg, s2)
		if n := vcommon.Pick(r, []int{0, 32, 63, 65, 96}); r.Chance(1, 3) {
			checkEd(c, "sig_length", pub, msg, append(append([]byte{}, sig...), sig...)[:n])
		}
	case 4, 5: // mixed-order key and/or commitment: A' = aB + T_i, R' = rB + T_j, valid under the cofactored equation
		a, rr := randScalar(r), randScalar(r)
		i, j := r.Intn(8), r.Intn(8)
		if i == 0 && j == 0 {
			i = r.Range(1, 7)
		}
		aEnc := edB.Mul(a).Add(tor[i]).Encode()
		rEnc := edB.Mul(rr).Add(tor[j]).Encode()
		s2 := edSignWith(a, rr, aEnc, rEnc, msg)
		checkEd(c, "mixed_order", aEnc, msg, s2)
		if r.Chance(1, 3) {
			s2[r.Intn(64)] ^= 1 << uint(r.Intn(8))
			checkEd(c, "mixed_order_tampered", aEnc, msg, s2)
		}
		if r.Chance(1, 3) { // same construction, message searched so that the torsion parts cancel (T_j + [k]T_i = 0):
			// the cofactorless equation holds too, crypto/ed25519 accepts, so must the implementation
			i, m := r.Range(1, 7), r.Intn(8)
			j := (8 - (m*i)%8) % 8
			aEnc := edB.Mul(a).Add(tor[i]).Encode()
			rEnc := edB.Mul(rr).Add(tor[j]).Encode()
			for n := 0; n < 4096; n++ {
				m2 := append(append([]byte{}, msg...), byte(n), byte(n>>8))
				k8 := int(new(big.Int).Mod(edHash(rEnc, aEnc, m2), big8).Int64())
				if (j+k8*i)%8 == 0 {
					checkEd(c, "mixed_order_cofactorless", aEnc, m2, edSignWith(a, rr, aEnc, rEnc, m2))
					break
				}
			}
		}
	case 6: // small-order A (any encoding) with an honest commitment: S = r verifies for every message under ZIP-215
		encs := EdEncodings(tor[r.Intn(8)])
		aEnc := vcommon.Pick(r, encs)
		rr := randScalar(r)
		rPt := edB.Mul(rr)
		rEnc := rPt.Encode()
		if r.Chance(1, 3) {
			rEnc = vcommon.Pick(r, EdEncodings(rPt.Add(tor[r.Intn(8)])))
		}
		s2 := append(append([]byte{}, rEnc...), leBytes(rr, 32)...)
		checkEd(c, "small_order_A", aEnc, msg, s2)
	case 7: // honest key, small-order or non-canonical R, S chosen so that the cofactored equation holds
		a := edSeedScalar(seed)
		rEnc := vcommon.Pick(r, EdEncodings(tor[r.Intn(8)]))
		s2 := edSignWith(a, big.NewInt(0), pub, rEnc, msg)
		checkEd(c, "small_order_R", pub, msg, s2)
	case 8: // arbitrary strings as A or R (about half are not on the curve), y close to p
		p2, s2 := append([]byte{}, pub...), append([]byte{}, sig...)
		mk := func() []byte {
			switch r.Intn(3) {
			case 0:
				return r.Bytes(32)
			case 1: // y in [p-20, 2^255-1] with random sign
				y := new(big.Int).Add(edP, big.NewInt(int64(r.Range(-20, 18))))
				b := leBytes(y, 32)
				if r.Bool() {
					b[31] |= 0x80
				}
				return b
			}
			b := leBytes(big.NewInt(int64(r.Range(0, 40))), 32) // tiny y
			if r.Bool() {
				b[31] |= 0x80
			}
			return b
		}
		if r.Bool() {
			p2 = mk()
		} else {
			copy(s2[:32], mk())
		}
		checkEd(c, "arbitrary_point", p2, msg, s2)
	case 9: // signature by another key / for another message
		seed2 := r.Bytes(32)
		kp2, _ := ged.NewKeypairFromSeed(seed2)
		if r.Bool() {
			checkEd(c, "wrong_key", kp2.Public().Encode(), msg, sig)
		} else {
			sig2, _ := kp.Sign(append(append([]byte{}, msg...), 0))
			checkEd(c, "wrong_message", pub, msg, sig2)
		}
	}
}

// ============================================================================ secp256k1

type skImpl struct {
	vs, method, methodU bool
	notes               []string
}

// skImplVerify asks every verification entry point of lib/crypto/secp256k1.
func skImplVerify(pubC, pubU, digest, rs []byte) (v skImpl, panicked string) {
	panicked = guard(func() {
		v.vs = gsecp.VerifySignature(pubC, append([]byte{}, rs...), append([]byte{}, digest...)) == nil
		pk := new(gsecp.PublicKey)
		if err := pk.Decode(pubC); err != nil {
			v.notes = append(v.notes, "Decode: "+err.Error())
		} else {
			ok, err := pk.Verify(append([]byte{}, digest...), append([]byte{}, rs...))
			v.method = ok && err == nil
		}
		if pubU != nil {
			pk2 := new(gsecp.PublicKey)
			if err := pk2.UnmarshalPubkey(pubU); err != nil {
				v.notes = append(v.notes, "UnmarshalPubkey: "+err.Error())
			} else {
				ok, err := pk2.Verify(append([]byte{}, digest...), append([]byte{}, rs...))
				v.methodU = ok && err == nil
			}
		}
	})
	return
}

func checkSkVerify(c *vcommon.Case, kind string, q *SkPoint, digest, rs []byte) {
	w := map[string]any{"kind": kind, "pub": hx(q.Compressed()), "digest": hx(digest), "sig": hx(rs)}
	ref, why := SkVerify(q, digest, rs, true)
	impl, p := skImplVerify(q.Compressed(), q.Uncompressed(), digest, rs)
	c.Count("sk_verify_cases", 1)
	c.Count("sk_verify_kind_"+kind, 1)
	c.Eval(3)
	if p != "" {
		w["panic"] = p
		c.Violation("panic", "secp256k1 verification panicked", w)
		return
	}
	if ref {
		c.Count("sk_verify_ref_accept", 1)
	} else {
		c.Count("sk_verify_ref_reject_"+why, 1)
	}
	c.Distinct(fmt.Sprintf("skv/%s/%v/%s/%d/%d", kind, ref, why, len(digest), len(rs)))
	w["reference"] = fmt.Sprintf("%v %s", ref, why)
	w["impl"] = fmt.Sprintf("%+v", impl)
	if impl.vs != ref {
		c.Violation("secp-verify", fmt.Sprintf("VerifySignature=%v, reference=%v (%s)", impl.vs, ref, why), w)
	}
	if impl.method != ref || impl.methodU != ref {
		c.Violation("secp-verify", fmt.Sprintf("PublicKey.Verify=%v/%v, reference=%v (%s)", impl.method, impl.methodU, ref, why), w)
	}
}

// checkSkRecover compares both recovery entry points with SEC 1 §4.1.6 for one
// 65-byte r‖s‖v input. Substrate maps v>26 to v-27 and demands 0..3.
func checkSkRecover(c *vcommon.Case, kind string, digest, sig65 []byte, signer *SkPoint) {
	w := map[string]any{"kind": kind, "digest": hx(digest), "sig": hx(sig65)}
	c.Count("sk_recover_cases", 1)
	c.Count("sk_recover_kind_"+kind, 1)
	var want *SkPoint
	why := "length"
	if len(sig65) == 65 && len(digest) == 32 {
		v := int(sig65[64])
		if v > 26 {
			v -= 27
		}
		want, why = SkRecover(digest, sig65[:64], v)
		c.Count(fmt.Sprintf("sk_recover_v_%d", func() int {
			if v > 3 {
				return 4
			}
			return v
		}()), 1)
		if sig65[64] > 26 {
			c.Count("sk_recover_v_plus27", 1)
		}
	} else {
		c.Count("sk_recover_wrong_length", 1)
	}
	var gotU, gotC []byte
	var errU, errC error
	in1, in2 := append([]byte{}, sig65...), append([]byte{}, sig65...)
	p := guard(func() { gotU, errU = gsecp.RecoverPublicKey(append([]byte{}, digest...), in1) })
	if p == "" {
		p = guard(func() { gotC, errC = gsecp.RecoverPublicKeyCompressed(append([]byte{}, digest...), in2) })
	}
	c.Eval(2)
	if p != "" {
		w["panic"] = p
		c.Violation("panic", "secp256k1 recovery panicked", w)
		return
	}
	if !bytes.Equal(in1, sig65) || !bytes.Equal(in2, sig65) {
		// RecoverPublicKey* rewrite v = 27..30 to 0..3 inside the caller's buffer (the host function passes a
		// view of wasm memory). Not a verdict, so not part of C29: counted only.
		c.Count("sk_recover_caller_buffer_rewritten", 1)
	}
	c.Distinct(fmt.Sprintf("skr/%s/%v/%s/%d/%d", kind, want != nil, why, len(digest), len(sig65)))
	w["reference"] = why
	if want == nil {
		c.Count("sk_recover_ref_fail_"+why, 1)
		if errU == nil || errC == nil {
			w["got"] = hx(gotU) + " / " + hx(gotC)
			c.Violation("secp-recover-accepts", "recovery returns a key where SEC 1 recovers none ("+why+")", w)
		}
		return
	}
	c.Count("sk_recover_ref_ok", 1)
	sampleOnce(c, "secp256k1_recover_"+kind, map[string]any{"digest": hx(digest), "sig": hx(sig65), "reference": hx(want.Compressed()), "gossamer": hx(gotC)})
	w["want"] = hx(want.Uncompressed())
	if errU != nil || !bytes.Equal(gotU, want.Uncompressed()) {
		w["got"] = fmt.Sprintf("%x err=%v", gotU, errU)
		c.Violation("secp-recover", "RecoverPublicKey differs from SEC 1 recovery", w)
	}
	if errC != nil || !bytes.Equal(gotC, want.Compressed()) {
		w["got_compressed"] = fmt.Sprintf("%x err=%v", gotC, errC)
		c.Violation("secp-recover", "RecoverPublicKeyCompressed differs from SEC 1 recovery", w)
	}
	if signer != nil {
		c.Eval(1)
		if !bytes.Equal(want.Compressed(), signer.Compressed()) {
			c.Inconclusive("reference recovery does not return the signer for an honest signature")
		} else {
			c.Count("sk_recover_signer", 1)
		}
	}
}

func randModN(r *vcommon.Rand) *big.Int {
	v := new(big.Int).SetBytes(r.Bytes(40))
	v.Mod(v, new(big.Int).Sub(skN, big1))
	return v.Add(v, big1)
}

func skEdgeScalar(r *vcommon.Rand) *big.Int {
	n := SkN()
	switch r.Intn(9) {
	case 0:
		return big.NewInt(0)
	case 1:
		return big.NewInt(1)
	case 2:
		return n
	case 3:
		return n.Sub(n, big1)
	case 4:
		return n.Add(n, big.NewInt(int64(r.Range(1, 5))))
	case 5:
		return new(big.Int).Sub(new(big.Int).Lsh(big1, 256), big1)
	case 6:
		return SkP()
	case 7:
		return new(big.Int).Add(SkHalfN, big.NewInt(int64(r.Range(-1, 2))))
	}
	return new(big.Int).SetBytes(r.Bytes(32))
}

type skFixed struct {
	kind          string
	digest, sig65 []byte
}

func skFixedCorpus() []skFixed {
	kmsg := unhex("ce0677bb30baa8cf067c88db9811f4333d131bf8bcf12fe7065d211dce971008")
	ksig := unhex("90f27b8b488db00b00606796d2987f6a5f59ae62ea05effe84fef5b8b0e549984a691139ad57a3f0b906637673aa2f63d1f55cb1a69199d4009eea23ceaddc9301")
	var out []skFixed
	// wrong lengths first: the witness of the missing length check in RecoverPublicKey*
	for _, n := range []int{64, 0, 1, 32, 66, 130} {
		out = append(out, skFixed{"wrong_sig_length", kmsg, append(append([]byte{}, ksig...), ksig...)[:n]})
	}
	for _, n := range []int{0, 31, 33, 64} {
		out = append(out, skFixed{"wrong_msg_length", append(append([]byte{}, kmsg...), kmsg...)[:n], ksig})
	}
	for _, v := range []byte{0, 1, 2, 3, 4, 26, 27, 28, 29, 30, 31, 128, 255} {
		s := append([]byte{}, ksig...)
		s[64] = v
		out = append(out, skFixed{"recid", kmsg, s})
	}
	n := SkN()
	for _, r := range []*big.Int{big.NewInt(0), big.NewInt(1), n, new(big.Int).Sub(n, big1), new(big.Int).Add(n, big1), SkP()} {
		for _, s := range []*big.Int{big.NewInt(0), big.NewInt(1), n, new(big.Int).Sub(n, big1), new(big.Int).Add(SkHalfN, big1)} {
			for _, v := range []byte{0, 1, 2, 28} {
				out = append(out, skFixed{"edge_rs", kmsg, append(append(be32(r), be32(s)...), v)})
			}
		}
	}
	return out
}

func skRandom(c *vcommon.Case) {
	r := c.R
	d := randModN(r)
	digest := r.Bytes(32)
	q := SkPub(d)
	// key derivation through gossamer: private bytes -> public key encodings
	c.Eval(1)
	if p := guard(func() {
		priv, err := gsecp.NewPrivateKey(be32(d))
		if err != nil {
			c.Violation("secp-keygen", err.Error(), map[string]any{"priv": hx(be32(d))})
			return
		}
		kp, err := gsecp.NewKeypairFromPrivate(priv)
		if err != nil {
			c.Violation("secp-keygen", err.Error(), map[string]any{"priv": hx(be32(d))})
			return
		}
		if got := kp.Public().Encode(); !bytes.Equal(got, q.Compressed()) {
			c.Violation("secp-pubkey", "public key differs from d*G", map[string]any{"priv": hx(be32(d)), "got": hx(got), "want": hx(q.Compressed())})
		}
		if r.Chance(1, 3) { // gossamer's own signature must verify and recover under the reference
			sig, err := kp.Sign(digest)
			if err != nil || len(sig) != 65 {
				c.Violation("secp-sign", fmt.Sprintf("Sign: %v len %d", err, len(sig)), map[string]any{"priv": hx(be32(d))})
				return
			}
			checkSkVerify(c, "impl_signed", q, digest, sig[:64])
			checkSkRecover(c, "impl_signed", digest, sig, q)
		}
	}); p != "" {
		c.Violation("panic", "secp256k1 key handling panicked", map[string]any{"priv": hx(be32(d)), "panic": p})
		return
	}
	rs, recid, ok := SkSign(d, digest, randModN(r))
	if !ok {
		return
	}
	low := new(big.Int).SetBytes(rs[32:]).Cmp(SkHalfN) <= 0
	if !low && r.Bool() { // normalise half of the high-s signatures
		rs, recid = SkFlipS(rs, recid)
		low = true
	}
	with := func(rs []byte, v int) []byte { return append(append([]byte{}, rs...), byte(v)) }
	switch r.Intn(8) {
	case 0, 1:
		kind := "honest_low_s"
		if !low {
			kind = "honest_high_s"
		}
		checkSkVerify(c, kind, q, digest, rs)
		v := recid
		if r.Bool() {
			v += 27
		}
		checkSkRecover(c, kind, digest, with(rs, v), q)
		frs, fid := SkFlipS(rs, recid)
		checkSkVerify(c, "flipped_s", q, digest, frs)
		checkSkRecover(c, "flipped_s", digest, with(frs, fid), q)
	case 2: // every recovery id for one signature
		for _, v := range []int{0, 1, 2, 3, 27, 28, 29, 30} {
			checkSkRecover(c, "all_recids", digest, with(rs, v), nil)
		}
		checkSkRecover(c, "bad_recid", digest, with(rs, vcommon.Pick(r, []int{4, 5, 26, 31, 32, 127, 128, 255})), nil)
	case 3: // bit flips
		rs2, dg2 := append([]byte{}, rs...), append([]byte{}, digest...)
		if r.Bool() {
			rs2[r.Intn(64)] ^= 1 << uint(r.Intn(8))
		} else {
			dg2[r.Intn(32)] ^= 1 << uint(r.Intn(8))
		}
		checkSkVerify(c, "tampered", q, dg2, rs2)
		checkSkRecover(c, "tampered", dg2, with(rs2, recid), nil)
	case 4: // r / s at the range edges
		rs2 := append([]byte{}, rs...)
		if r.Bool() {
			copy(rs2[:32], be32(skEdgeScalar(r)))
		}
		if r.Bool() {
			copy(rs2[32:], be32(skEdgeScalar(r)))
		}
		checkSkVerify(c, "edge_rs", q, digest, rs2)
		checkSkRecover(c, "edge_rs", digest, with(rs2, r.Intn(4)), nil)
	case 5: // tiny r so that r+n < p: recovery ids 2 and 3 can succeed
		rr := new(big.Int).SetBytes(r.Bytes(r.Range(1, 16)))
		rs2 := append(be32(rr), rs[32:]...)
		for _, v := range []int{0, 1, 2, 3} {
			checkSkRecover(c, "small_r", digest, with(rs2, v), nil)
		}
		if rq, _ := SkRecover(digest, rs2, 2+r.Intn(2)); rq != nil {
			c.Count("sk_recover_overflow_id_ok", 1)
			checkSkVerify(c, "small_r_recovered", rq, digest, rs2)
		}
	case 6: // wrong lengths
		n := vcommon.Pick(r, []int{0, 1, 31, 32, 63, 64, 66, 96})
		long := append(append([]byte{}, rs...), rs...)
		checkSkRecover(c, "wrong_sig_length", digest, long[:n], nil)
		if n != 64 {
			checkSkVerify(c, "wrong_sig_length", q, digest, long[:n])
		}
		m := vcommon.Pick(r, []int{0, 31, 33, 64})
		checkSkRecover(c, "wrong_msg_length", append(append([]byte{}, digest...), digest...)[:m], with(rs, recid), nil)
		checkSkVerify(c, "wrong_msg_length", q, append(append([]byte{}, digest...), digest...)[:m], rs)
	case 7: // signature of another key / digest
		q2 := SkPub(randModN(r))
		checkSkVerify(c, "wrong_key", q2, digest, rs)
		c.Eval(1)
		if rq, _ := SkRecover(r.Bytes(32), rs, recid); rq != nil && bytes.Equal(rq.Compressed(), q.Compressed()) {
			c.Inconclusive("recovery over a different digest returned the signer")
		}
	}
}

// ---------------------------------------------------------------------------- secp256k1 host functions

// hostSecpRandom drives ext_crypto_ecdsa_verify_version_2 (message hashed with blake2_256 by the
// host, 33-byte key, r‖s) and the four ext_crypto_secp256k1_ecdsa_recover* functions.
func hostSecpRandom(c *vcommon.Case) {
	r := c.R
	d := randModN(r)
	q := SkPub(d)
	msg := r.Bytes(msgLen(r))
	digest := RefBlake2b(msg, 32)
	rs, recid, ok := SkSign(d, digest, randModN(r))
	if !ok {
		return
	}
	if new(big.Int).SetBytes(rs[32:]).Cmp(SkHalfN) > 0 && r.Chance(2, 3) {
		rs, recid = SkFlipS(rs, recid)
	}
	key := q.Compressed()
	kind := "honest"
	switch r.Intn(7) {
	case 0:
		rs, recid = SkFlipS(rs, recid)
		kind = "flipped_s"
	case 1:
		rs = append([]byte{}, rs...)
		rs[r.Intn(64)] ^= 1 << uint(r.Intn(8))
		kind = "tampered_sig"
	case 2:
		if len(msg) > 0 {
			msg = append([]byte{}, msg...)
			msg[r.Intn(len(msg))] ^= 1 << uint(r.Intn(8))
			digest = RefBlake2b(msg, 32)
			kind = "tampered_msg"
		}
	case 3:
		rs = append([]byte{}, rs...)
		if r.Bool() {
			copy(rs[:32], be32(skEdgeScalar(r)))
		} else {
			copy(rs[32:], be32(skEdgeScalar(r)))
		}
		kind = "edge_rs"
	case 4:
		key = append([]byte{}, key...)
		switch r.Intn(3) {
		case 0:
			key[0] ^= 1 // the other y: valid key, wrong signer
		case 1:
			key[0] = byte(r.Intn(256))
		case 2:
			key[1+r.Intn(32)] ^= 1 << uint(r.Intn(8))
		}
		kind = "other_key"
	}
	w := map[string]any{"kind": kind, "key": hx(key), "msg": hx(msg), "digest": hx(digest), "sig": hx(rs), "recid": recid}
	// --- verify
	want := false
	why := "pubkey"
	if kq, hybrid, okq := SkParsePub(key); okq && !hybrid {
		want, why = SkVerify(kq, digest, rs, true)
	}
	var hv uint32
	c.Eval(1)
	c.Count("host_ecdsa_verify_calls", 1)
	c.Count("host_ecdsa_kind_"+kind, 1)
	c.Distinct(fmt.Sprintf("hostsk/%s/%v/%s", kind, want, why))
	if want {
		c.Count("host_ecdsa_verify_ref_accept", 1)
	} else {
		c.Count("host_ecdsa_verify_ref_reject", 1)
	}
	if p := guard(func() { hv = host.Verify("ecdsa_verify_2", rs, msg, key) }); p != "" {
		w["panic"] = p
		c.Violation("panic", "ext_crypto_ecdsa_verify_version_2 panicked", w)
	} else if (hv == 1) != want || hv > 1 {
		w["host"], w["reference"] = hv, fmt.Sprintf("%v %s", want, why)
		c.Violation("host-ecdsa-verify", fmt.Sprintf("ext_crypto_ecdsa_verify_version_2 = %d, reference %v (%s)", hv, want, why), w)
	}
	// --- recover
	v := vcommon.Pick(r, []int{recid, recid, recid + 27, recid ^ 1, 2, 3, 4, 29, 31, 255})
	sig65 := append(append([]byte{}, rs...), byte(v))
	vv := v
	if vv > 26 {
		vv -= 27
	}
	wantQ, whyR := SkRecover(digest, rs, vv)
	w["sig65"], w["reference_recover"] = hx(sig65), whyR
	if wantQ != nil {
		c.Count("host_recover_ref_ok", 1)
		w["want"] = hx(wantQ.Uncompressed())
	} else {
		c.Count("host_recover_ref_fail", 1)
	}
	for _, fn := range []string{"recover_1", "recover_2", "recover_compressed_1", "recover_compressed_2"} {
		var res, after []byte
		c.Eval(1)
		c.Count("host_recover_calls", 1)
		if p := guard(func() { res, after = host.Recover(fn, sig65, digest) }); p != "" {
			w["panic"] = p
			c.Violation("panic", "ext_crypto_secp256k1_ecdsa_"+fn+" panicked", w)
			return
		}
		if !bytes.Equal(after, sig65) {
			c.Count("host_recover_rewrites_wasm_memory", 1) // v 27.. rewritten to 0.. inside the runtime's memory: observation only
		}
		w["host_result"] = hx(res)
		var wantKey []byte
		if wantQ != nil {
			wantKey = wantQ.Uncompressed()[1:]
			if fn == "recover_compressed_1" || fn == "recover_compressed_2" {
				wantKey = wantQ.Compressed()
			}
		}
		switch {
		case len(res) == 0 || res[0] > 1:
			c.Violation("host-ecdsa-recover", fn+": result is not a SCALE Result", w)
		case wantQ == nil && res[0] == 0:
			c.Violation("host-ecdsa-recover", fn+": returns Ok where SEC 1 recovers no key ("+whyR+")", w)
		case wantQ != nil && (res[0] != 0 || !bytes.Equal(res[1:], wantKey)):
			c.Violation("host-ecdsa-recover", fn+": does not return the key SEC 1 recovers", w)
		case wantQ == nil:
			c.Count(fmt.Sprintf("host_recover_err_encoded_in_%d_bytes", len(res)), 1) // Substrate: 2 bytes (0x01 ‖ EcdsaVerifyError)
		}
	}
}

// ============================================================================ sr25519 (metamorphic only)

func srVerify(pub, msg, sig []byte) (ok bool, decodeErr bool, panicked string) {
	panicked = guard(func() {
		pk, err := gsr.NewPublicKey(pub)
		if err != nil {
			decodeErr = true
			if gsr.VerifySignature(pub, sig, msg) == nil {
				panic("VerifySignature accepts with a public key that NewPublicKey rejects")
			}
			return
		}
		v, err := pk.Verify(msg, sig)
		ok = v && err == nil
		if (gsr.VerifySignature(pub, sig, msg) == nil) != ok {
			panic("VerifySignature and PublicKey.Verify disagree")
		}
	})
	return
}

func checkSr(c *vcommon.Case, kind string, pub, msg, sig []byte, want bool) {
	w := map[string]any{"kind": kind, "pub": hx(pub), "msg": hx(msg), "sig": hx(sig)}
	ok, _, p := srVerify(pub, msg, sig)
	c.Count("sr_cases", 1)
	c.Count("sr_kind_"+kind, 1)
	c.Eval(1)
	c.Distinct(fmt.Sprintf("sr/%s/%v/%d", kind, want, len(msg)))
	if p != "" {
		w["panic"] = p
		c.Violation("panic", "sr25519 verification panicked or its entry points disagree", w)
		return
	}
	if host != nil && len(pub) == 32 && len(sig) == 64 {
		checkSrHost(c, kind, pub, msg, sig, want, ok, w)
	}
	if kind == "noncanonical_scalar" || kind == "rust_vector" {
		sampleOnce(c, "sr25519_"+kind, map[string]any{"pub": hx(pub), "sig": hx(sig), "verify": ok, "expected": want})
	}
	if ok != want {
		c.Violation("sr25519-"+kind, fmt.Sprintf("sr25519 verify = %v, expected %v", ok, want), w)
	}
}

// C29-K2: ext_crypto_sr25519_verify_version_1 returns 1 ("valid") when verification fails
// (deliberate, to get past a historical block) and version_2 delegates to it for the all-zero key.
const knownSrHost = "C29-K2"

func checkSrHost(c *vcommon.Case, kind string, pub, msg, sig []byte, want, lib bool, w map[string]any) {
	var v1, v2 uint32
	c.Eval(2)
	c.Count("host_sr25519_verify_calls", 2)
	if p := guard(func() {
		v2 = host.Verify("sr25519_verify_2", sig, msg, pub)
		v1 = host.Verify("sr25519_verify_1", sig, msg, pub)
	}); p != "" {
		w["panic"] = p
		c.Violation("panic", "ext_crypto_sr25519_verify_* panicked", w)
		return
	}
	w["host_v1"], w["host_v2"] = v1, v2
	zeroKey := bytes.Equal(pub, make([]byte, 32))
	switch {
	case v2 > 1 || v1 > 1:
		c.Violation("host-sr25519-verify", "host function returned something other than 0/1", w)
	case zeroKey:
		c.Count("host_sr_zero_key", 1) // delegated to version_1, see K2
		if v2 == 1 && !lib {
			c.Known(knownSrHost, "ext_crypto_sr25519_verify_version_2 with the all-zero key returns 1 for a signature lib/crypto/sr25519 rejects", w)
		}
	case (v2 == 1) != lib:
		c.Violation("host-sr25519-verify", fmt.Sprintf("ext_crypto_sr25519_verify_version_2 = %d but PublicKey.Verify = %v", v2, lib), w)
	}
	if sig[63]&0x80 == 0 {
		// version_1 is schnorrkel's verify_deprecated, which has its own rules for unmarked signatures (also reached
		// when a bit flip hits the marker): not asserted
		c.Count("host_sr_v1_unmarked_not_asserted", 1)
		return
	}
	switch {
	case want && v1 != 1:
		c.Violation("host-sr25519-verify", "ext_crypto_sr25519_verify_version_1 rejects a signature that verifies", w)
	case !want && v1 == 1:
		var dep bool
		_ = guard(func() {
			if pk, err := gsr.NewPublicKey(pub); err == nil {
				ok, err := pk.VerifyDeprecated(msg, sig)
				dep = ok && err == nil
			}
		})
		if dep {
			c.Violation("sr25519-"+kind, "VerifyDeprecated accepts a signature that must not verify", w)
		} else {
			c.Count("host_sr_v1_accepts_invalid", 1)
			c.Known(knownSrHost, "ext_crypto_sr25519_verify_version_1 returns 1 although VerifyDeprecated rejects the signature", w)
		}
	}
}

func srRandom(c *vcommon.Case) {
	r := c.R
	seed := r.Bytes(32)
	msg := r.Bytes(msgLen(r))
	kp, err := gsr.NewKeypairFromSeed(seed)
	if err != nil {
		c.Violation("sr-keygen", err.Error(), map[string]any{"seed": hx(seed)})
		return
	}
	pub := kp.Public().Encode()
	sig, err := kp.Sign(msg)
	if err != nil || len(sig) != 64 {
		c.Violation("sr-sign", fmt.Sprintf("%v len %d", err, len(sig)), map[string]any{"seed": hx(seed)})
		return
	}
	checkSr(c, "honest", pub, msg, sig, true)
	switch r.Intn(8) {
	case 0: // message bit flip / extension
		m2 := append([]byte{}, msg...)
		if len(m2) > 0 && r.Bool() {
			m2[r.Intn(len(m2))] ^= 1 << uint(r.Intn(8))
		} else {
			m2 = append(m2, byte(r.Intn(256)))
		}
		checkSr(c, "tampered_msg", pub, m2, sig, false)
	case 1:
		s2 := append([]byte{}, sig...)
		s2[r.Intn(64)] ^= 1 << uint(r.Intn(8))
		checkSr(c, "tampered_sig", pub, msg, s2, false)
	case 2:
		p2 := append([]byte{}, pub...)
		p2[r.Intn(32)] ^= 1 << uint(r.Intn(8))
		checkSr(c, "tampered_pub", p2, msg, sig, false)
	case 3: // schnorrkel marker bit cleared
		s2 := append([]byte{}, sig...)
		s2[63] &= 0x7f
		checkSr(c, "no_marker", pub, msg, s2, false)
	case 4: // s + L: same residue, not canonical (L < 2^253 so it still fits below the marker bit)
		s2 := append([]byte{}, sig...)
		sb := append([]byte{}, sig[32:]...)
		sb[31] &= 0x7f
		S := leInt(sb)
		S.Add(S, edL)
		nb := leBytes(S, 32)
		nb[31] |= 0x80
		copy(s2[32:], nb)
		checkSr(c, "noncanonical_scalar", pub, msg, s2, false)
	case 5: // invalid ristretto encodings as R or as the key: odd ("negative") or >= p field elements
		bad := func() []byte {
			switch r.Intn(3) {
			case 0:
				b := r.Bytes(32)
				b[0] |= 1
				return b
			case 1:
				return leBytes(new(big.Int).Add(edP, big.NewInt(int64(r.Range(0, 18)))), 32)
			}
			b := r.Bytes(32)
			b[31] |= 0x80
			return b
		}
		if r.Bool() {
			s2 := append([]byte{}, sig...)
			copy(s2[:32], bad())
			checkSr(c, "invalid_R_encoding", pub, msg, s2, false)
		} else {
			checkSr(c, "invalid_pub_encoding", bad(), msg, sig, false)
		}
	case 6: // wrong key, wrong lengths, ed25519 signature offered as sr25519
		kp2, _ := gsr.NewKeypairFromSeed(r.Bytes(32))
		checkSr(c, "wrong_key", kp2.Public().Encode(), msg, sig, false)
		n := vcommon.Pick(r, []int{0, 32, 63, 65, 128})
		checkSr(c, "sig_length", pub, msg, append(append([]byte{}, sig...), sig...)[:n], false)
		ekp, _ := ged.NewKeypairFromSeed(seed)
		esig, _ := ekp.Sign(msg)
		checkSr(c, "ed25519_signature", pub, msg, esig, false)
		checkSr(c, "ed25519_key_and_signature", ekp.Public().Encode(), msg, esig, false)
	case 7: // random R / s with marker
		s2 := r.Bytes(64)
		s2[63] |= 0x80
		if r.Bool() {
			copy(s2[32:], sig[32:])
		}
		checkSr(c, "random_sig", pub, msg, s2, false)
	}
	// two signatures over the same message differ (randomised nonce) and both verify
	if r.Chance(1, 6) {
		sig2, _ := kp.Sign(msg)
		checkSr(c, "honest_resign", pub, msg, sig2, true)
		c.Eval(1)
		if bytes.Equal(sig, sig2) {
			c.Violation("sr25519-nonce-reuse", "two signatures of the same message are identical (nonce reuse)", map[string]any{"seed": hx(seed), "sig": hx(sig)})
		}
	}
}

type srFixed struct {
	kind          string
	pub, msg, sig []byte
	want          bool
}

func srFixedCorpus() []srFixed {
	// signature produced by the Rust schnorrkel implementation (Warchant/sr25519-crust test/ds.cpp),
	// signing context "substrate"
	pub := unhex("46ebddef8cd9bb167dc30878d7113b7e168e6f0646beffd77d69d39bad76b47a")
	sig := unhex("4e172314444b8f820bb54c22e95076f220ed25373e5c178234aa6c211d29271244b947e3ff3418ff6b45fd1df1140c8cbff69fc58ee6dc96df70936a2bb74b82")
	msg := []byte("this is a message")
	out := []srFixed{{"rust_vector", pub, msg, sig, true}}
	out = append(out, srFixed{"rust_vector_other_msg", pub, []byte("this is a messagf"), sig, false})
	nm := append([]byte{}, sig...)
	nm[63] &= 0x7f
	out = append(out, srFixed{"no_marker", pub, msg, nm, false})
	for _, bit := range []int{0, 255, 256, 500} {
		b := append([]byte{}, sig...)
		b[bit/8] ^= 1 << uint(bit%8)
		out = append(out, srFixed{"tampered_sig", pub, msg, b, false})
	}
	mf := append([]byte{}, sig...)
	mf[63] ^= 0x80 // the bit flip that hits the marker (found by the thorough tier as a false alarm of an earlier oracle)
	out = append(out, srFixed{"tampered_sig", pub, msg, mf, false})
	out = append(out, srFixed{"zero_sig", pub, msg, make([]byte, 64), false})
	zs := make([]byte, 64)
	zs[63] = 0x80
	out = append(out, srFixed{"identity_R_zero_s", pub, msg, zs, false})
	return out
}

// ============================================================================ the check

func TestVerifC29(t *testing.T) {
	r := vcommon.Start(t, "C29")
	defer r.Finish()
	bad := SelfTest()
	r.Fixed("selftest", r.Shards, func(c *vcommon.Case) {
		c.Eval(1)
		if bad != "" {
			c.Inconclusive("reference self-validation failed: " + bad)
			return
		}
		c.Count("selftest_ok", 1)
	})
	if bad != "" {
		return
	}
	r.Floor("selftest_ok", 1)
	r.Floor("hash_inputs", 600)
	r.Floor("hash_len_0", 1)
	r.Floor("hash_len_ge_1MiB", 1)
	r.Floor("hash_block32_boundary", 50)
	r.Floor("hash_block64_boundary", 50)
	r.Floor("hash_block128_boundary", 30)
	r.Floor("hash_block136_boundary", 30)
	r.Floor("ed_ref_accept", 200)
	r.Floor("ed_kind_honest", 40)
	r.Floor("ed_kind_tampered", 20)
	r.Floor("ed_kind_small_order_S0", 196)
	r.Floor("ed_A_torsion", 100)
	r.Floor("ed_R_torsion", 100)
	r.Floor("ed_A_noncanonical", 50)
	r.Floor("ed_R_noncanonical", 50)
	r.Floor("ed_S_noncanonical", 20)
	r.Floor("ed_ref_reject_A_not_on_curve", 5)
	r.Floor("ed_ref_reject_R_not_on_curve", 5)
	// deviation oracle: both outcome classes must occur in numbers, overall and for every special key
	r.Floor("ed_model_eq_go_stdlib", 1000)
	r.Floor("ed_model_selftest_cases", 10000)
	r.Floor("ed_model_selftest_go_accept", 1000)
	r.Floor("ed_both_models_accept", 300)
	r.Floor("ed_mixed_both_accept", 20)
	r.Floor("ed_zip215_only_accept", 300)
	r.Floor("ed_zip215_only_R_bytes_differ", 300)
	r.Floor("ed_smallA_both_accept", 14*24)
	r.Floor("ed_smallA_zip215_only", 14*24)
	r.Floor("ed_smallA_both_reject", 30)
	specialEncs, _, _ := edSmallOrderEncodings()
	for _, e := range specialEncs {
		r.Floor("ed_smallA_"+edKeyLabel(e)+"_both_accept", 24)
		r.Floor("ed_smallA_"+edKeyLabel(e)+"_zip215_only", 24)
	}
	r.Floor("sk_verify_ref_accept", 50)
	r.Floor("sk_verify_ref_reject_high_s", 20)
	r.Floor("sk_verify_ref_reject_range", 20)
	r.Floor("sk_verify_ref_reject_mismatch", 20)
	r.Floor("sk_recover_ref_ok", 100)
	r.Floor("sk_recover_signer", 50)
	r.Floor("sk_recover_v_plus27", 20)
	r.Floor("sk_recover_v_2", 20)
	r.Floor("sk_recover_v_3", 20)
	r.Floor("sk_recover_v_4", 5)
	r.Floor("sk_recover_wrong_length", 10)
	r.Floor("sr_kind_honest", 100)
	r.Floor("sr_kind_rust_vector", 1)
	r.Floor("sr_kind_no_marker", 5)
	r.Floor("sr_kind_noncanonical_scalar", 5)
	r.Floor("sr_kind_tampered_sig", 5)
	r.Floor("host_sr_v1_accepts_invalid", 1) // the K2 witness class must have been exercised

	var herr error
	host, herr = NewHostEnv()
	r.Fixed("host-setup", r.Shards, func(c *vcommon.Case) {
		c.Eval(1)
		if herr != nil {
			host = nil
			c.Inconclusive("cannot set up the host-function environment: " + herr.Error())
			return
		}
		c.Count("host_env_ok", 1)
	})
	r.Floor("host_env_ok", 1)
	r.Floor("host_hash_calls", 2000)
	r.Floor("host_ed25519_verify_calls", 500)
	r.Floor("host_sr25519_verify_calls", 500)
	r.Floor("host_ecdsa_verify_ref_accept", 30)
	r.Floor("host_ecdsa_verify_ref_reject", 60)
	r.Floor("host_recover_ref_ok", 60)
	r.Floor("host_recover_ref_fail", 40)

	// ---- hashes
	fixedLens := []int{}
	for n := 0; n <= 300; n++ {
		fixedLens = append(fixedLens, n)
	}
	fixedLens = append(fixedLens, 511, 512, 513, 1023, 1024, 1025, 4095, 4096, 4097, 65536, (1<<20)-1, 1<<20, (1<<20)+1)
	r.Fixed("hash-fixed", len(fixedLens), func(c *vcommon.Case) {
		n := fixedLens[c.Idx]
		checkHashes(c, PatternMsg(n, n%251))
		// degenerate contents: all zero and all 0xff of the same length
		if n <= 300 {
			checkHashes(c, make([]byte, n))
			checkHashes(c, bytes.Repeat([]byte{0xff}, n))
		}
	})
	r.Fixed("hash-nil", 1, func(c *vcommon.Case) { checkHashes(c, nil) })
	r.Cases("hash-rand", r.Scale(1500), func(c *vcommon.Case) {
		checkHashes(c, c.R.Bytes(hashLen(c.R, r.Thorough())))
	})

	// ---- ed25519
	tor := EdTorsion()
	edFix := edFixedCorpus()
	r.Fixed("ed-fixed", len(edFix), func(c *vcommon.Case) {
		f := edFix[c.Idx]
		checkEd(c, f.kind, f.pub, f.msg, f.sig)
		if f.kind == "small_order_S0" {
			// published expectation (ZIP-215 test vectors): every one of the 196 is valid
			c.Eval(1)
			if !EdVerifyZIP215(f.pub, f.msg, f.sig).Accept {
				c.Inconclusive("reference rejects a ZIP-215 small-order test vector")
			}
		}
	})
	r.Cases("ed-rand", r.Scale(700), func(c *vcommon.Case) { edRandom(c, tor) })
	r.Cases("ed-special", r.Scale(14*36), func(c *vcommon.Case) { edSpecialA(c, specialEncs[c.Idx%len(specialEncs)]) })
	// validation of the RFC 8032 deviation model against crypto/ed25519 on >= 10 000 edge cases per run (25 per case);
	// a disagreement makes the check inconclusive, never a violation
	r.Cases("ed-model", 400+r.Scale(40), func(c *vcommon.Case) {
		var st EdModelStats
		c.Eval(25)
		if bad := EdModelCompare(c.R, 25, &st); bad != "" {
			c.Inconclusive(bad)
			return
		}
		c.Count("ed_model_selftest_cases", st.Cases)
		c.Count("ed_model_selftest_go_accept", st.GoAccept)
		c.Count("ed_model_selftest_go_reject", st.GoReject)
		c.Count("ed_model_selftest_accept_A_y_ge_p", st.AcceptNonCanonY)
		c.Count("ed_model_selftest_accept_A_x0_sign", st.AcceptZeroXS)
		for k, n := range st.Kinds {
			c.Count("ed_model_selftest_kind_"+k, n)
		}
		c.Distinct(fmt.Sprintf("edmodel/%d/%d", st.GoAccept, len(st.Kinds)))
	})

	// ---- secp256k1
	skFix := skFixedCorpus()
	r.Fixed("secp-fixed", len(skFix), func(c *vcommon.Case) {
		f := skFix[c.Idx]
		checkSkRecover(c, f.kind, f.digest, f.sig65, nil)
		if len(f.sig65) >= 64 && len(f.digest) == 32 {
			if q, _ := SkRecover(unhex("ce0677bb30baa8cf067c88db9811f4333d131bf8bcf12fe7065d211dce971008"),
				unhex("90f27b8b488db00b00606796d2987f6a5f59ae62ea05effe84fef5b8b0e549984a691139ad57a3f0b906637673aa2f63d1f55cb1a69199d4009eea23ceaddc93"), 1); q != nil {
				checkSkVerify(c, f.kind, q, f.digest, f.sig65[:64])
			}
		}
	})
	r.Cases("secp-rand", r.Scale(500), func(c *vcommon.Case) { skRandom(c) })

	if host != nil {
		r.Cases("host-secp", r.Scale(400), func(c *vcommon.Case) { hostSecpRandom(c) })
	}

	// ---- sr25519
	srFix := srFixedCorpus()
	r.Fixed("sr-fixed", len(srFix), func(c *vcommon.Case) {
		f := srFix[c.Idx]
		checkSr(c, f.kind, f.pub, f.msg, f.sig, f.want)
	})
	r.Fixed("sr-keys", 1, func(c *vcommon.Case) {
		// well-known Substrate development key (//Alice), derived by the Rust implementation
		kp, err := gsr.NewKeypairFromSeed(unhex("e5be9a5092b81bca64be81d212e7f2f9eba183bb7a90954f7b76361f6edb5c0a"))
		c.Eval(1)
		if err != nil || hx(kp.Public().Encode()) != "d43593c715fdd31c61141abd04a99fd6822c8558854ccde39a5684e7a56da27d" {
			c.Violation("sr25519-keygen", "//Alice seed does not give the published sr25519 public key", map[string]any{"err": fmt.Sprint(err)})
		}
		c.Count("sr_alice_key", 1)
	})
	r.Cases("sr-rand", r.Scale(400), func(c *vcommon.Case) { srRandom(c) })
}
