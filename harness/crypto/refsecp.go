//go:build verif

package crypto

// secp256k1 ECDSA verification and public-key recovery written with math/big
// from SEC 1 v2 (§4.1.4 verification, §4.1.6 recovery) and SEC 2 (curve
// parameters). Affine arithmetic, no shortcuts. Independent of both
// go-ethereum's libsecp256k1 binding (what gossamer calls) and decred's Go
// implementation (used by the self-test as a second opinion).

import "math/big"

var (
	skP  = mustHex("FFFFFFFFFFFFFFFFFFFFFFFFFFFFFFFFFFFFFFFFFFFFFFFFFFFFFFFEFFFFFC2F")
	skN  = mustHex("FFFFFFFFFFFFFFFFFFFFFFFFFFFFFFFEBAAEDCE6AF48A03BBFD25E8CD0364141")
	skGx = mustHex("79BE667EF9DCBBAC55A06295CE870B07029BFCDB2DCE28D959F2815B16F81798")
	skGy = mustHex("483ADA7726A3C4655DA4FBFC0E1108A8FD17B448A68554199C47D08FFB10D4B8")
	skG  = &SkPoint{X: skGx, Y: skGy}
	// SkHalfN is floor(n/2): signatures with s > SkHalfN are "high_s".
	SkHalfN = new(big.Int).Rsh(skN, 1)
)

func mustHex(s string) *big.Int {
	v, ok := new(big.Int).SetString(s, 16)
	if !ok {
		panic("bad constant")
	}
	return v
}

// SkN returns the group order.
func SkN() *big.Int { return new(big.Int).Set(skN) }

// SkP returns the field prime.
func SkP() *big.Int { return new(big.Int).Set(skP) }

// SkPoint is an affine point; Inf marks the point at infinity.
type SkPoint struct {
	X, Y *big.Int
	Inf  bool
}

func skMod(v *big.Int) *big.Int { return v.Mod(v, skP) }

// OnCurve reports y^2 = x^3 + 7 with 0 <= x,y < p.
func (p *SkPoint) OnCurve() bool {
	if p.Inf {
		return false
	}
	if p.X.Sign() < 0 || p.X.Cmp(skP) >= 0 || p.Y.Sign() < 0 || p.Y.Cmp(skP) >= 0 {
		return false
	}
	l := new(big.Int).Mul(p.Y, p.Y)
	r := new(big.Int).Mul(p.X, p.X)
	r.Mul(r, p.X).Add(r, big.NewInt(7))
	return skMod(l).Cmp(skMod(r)) == 0
}

// Add is the affine group law with all special cases spelled out.
func (p *SkPoint) Add(q *SkPoint) *SkPoint {
	if p.Inf {
		return q
	}
	if q.Inf {
		return p
	}
	var lam *big.Int
	if p.X.Cmp(q.X) == 0 {
		if p.Y.Cmp(q.Y) != 0 || p.Y.Sign() == 0 {
			return &SkPoint{Inf: true}
		}
		num := new(big.Int).Mul(p.X, p.X)
		num.Mul(num, big.NewInt(3))
		den := new(big.Int).Lsh(p.Y, 1)
		den.ModInverse(skMod(den), skP)
		lam = skMod(num.Mul(num, den))
	} else {
		num := new(big.Int).Sub(q.Y, p.Y)
		den := new(big.Int).Sub(q.X, p.X)
		den.ModInverse(skMod(den), skP)
		lam = skMod(num.Mul(skMod(num), den))
	}
	x := new(big.Int).Mul(lam, lam)
	x.Sub(x, p.X).Sub(x, q.X)
	skMod(x)
	y := new(big.Int).Sub(p.X, x)
	y.Mul(y, lam).Sub(y, p.Y)
	skMod(y)
	return &SkPoint{X: x, Y: y}
}

// Mul is double-and-add.
func (p *SkPoint) Mul(k *big.Int) *SkPoint {
	r := &SkPoint{Inf: true}
	for i := k.BitLen() - 1; i >= 0; i-- {
		r = r.Add(r)
		if k.Bit(i) == 1 {
			r = r.Add(p)
		}
	}
	return r
}

// Neg returns -p.
func (p *SkPoint) Neg() *SkPoint {
	if p.Inf {
		return p
	}
	return &SkPoint{X: p.X, Y: skMod(new(big.Int).Neg(p.Y))}
}

// SkLift returns the curve point with abscissa x and the given y parity.
func SkLift(x *big.Int, odd uint) (*SkPoint, bool) {
	if x.Sign() < 0 || x.Cmp(skP) >= 0 {
		return nil, false
	}
	y2 := new(big.Int).Mul(x, x)
	y2.Mul(y2, x).Add(y2, big.NewInt(7))
	skMod(y2)
	e := new(big.Int).Add(skP, big.NewInt(1))
	e.Rsh(e, 2) // p = 3 mod 4
	y := new(big.Int).Exp(y2, e, skP)
	if skMod(new(big.Int).Mul(y, y)).Cmp(y2) != 0 {
		return nil, false
	}
	if y.Bit(0) != odd {
		y.Sub(skP, y)
		skMod(y)
	}
	return &SkPoint{X: x, Y: y}, true
}

func be32(v *big.Int) []byte {
	out := make([]byte, 32)
	v.FillBytes(out)
	return out
}

// Compressed returns the 33-byte SEC 1 encoding.
func (p *SkPoint) Compressed() []byte {
	return append([]byte{byte(2 + p.Y.Bit(0))}, be32(p.X)...)
}

// Uncompressed returns the 65-byte SEC 1 encoding (0x04 ‖ X ‖ Y).
func (p *SkPoint) Uncompressed() []byte {
	return append(append([]byte{4}, be32(p.X)...), be32(p.Y)...)
}

// SkParsePub parses 33-byte compressed and 65-byte uncompressed SEC 1 keys.
// hybrid (0x06/0x07) encodings are reported separately so that the caller can
// keep them out of the verdict comparison (libsecp256k1 accepts them,
// Substrate's 33-byte ecdsa::Public cannot carry them).
func SkParsePub(b []byte) (pt *SkPoint, hybrid bool, ok bool) {
	switch {
	case len(b) == 33 && (b[0] == 2 || b[0] == 3):
		pt, ok = SkLift(new(big.Int).SetBytes(b[1:]), uint(b[0]&1))
		return pt, false, ok
	case len(b) == 65 && (b[0] == 4 || b[0] == 6 || b[0] == 7):
		pt = &SkPoint{X: new(big.Int).SetBytes(b[1:33]), Y: new(big.Int).SetBytes(b[33:])}
		if !pt.OnCurve() {
			return nil, b[0] != 4, false
		}
		if b[0] != 4 && uint(b[0]&1) != pt.Y.Bit(0) {
			return nil, true, false
		}
		return pt, b[0] != 4, true
	}
	return nil, false, false
}

// SkVerify is SEC 1 §4.1.4 over a 32-byte digest and a 64-byte r‖s signature.
// lowS additionally demands s <= n/2 (libsecp256k1's secp256k1_ecdsa_verify,
// which both Substrate's ecdsa_verify and go-ethereum's VerifySignature use).
func SkVerify(q *SkPoint, digest, sig []byte, lowS bool) (bool, string) {
	if len(digest) != 32 || len(sig) != 64 {
		return false, "length"
	}
	if q == nil || q.Inf || !q.OnCurve() {
		return false, "pubkey"
	}
	r := new(big.Int).SetBytes(sig[:32])
	s := new(big.Int).SetBytes(sig[32:])
	if r.Sign() == 0 || r.Cmp(skN) >= 0 || s.Sign() == 0 || s.Cmp(skN) >= 0 {
		return false, "range"
	}
	if lowS && s.Cmp(SkHalfN) > 0 {
		return false, "high_s"
	}
	e := new(big.Int).SetBytes(digest)
	w := new(big.Int).ModInverse(s, skN)
	u1 := new(big.Int).Mul(e, w)
	u1.Mod(u1, skN)
	u2 := new(big.Int).Mul(r, w)
	u2.Mod(u2, skN)
	pt := skG.Mul(u1).Add(q.Mul(u2))
	if pt.Inf {
		return false, "infinity"
	}
	v := new(big.Int).Mod(pt.X, skN)
	if v.Cmp(r) != 0 {
		return false, "mismatch"
	}
	return true, ""
}

// SkRecover is SEC 1 §4.1.6 for one recovery id in 0..3 (bit 0 = parity of
// R.y, bit 1 = R.x overflowed n). High-s signatures are recoverable.
func SkRecover(digest, rs []byte, recid int) (*SkPoint, string) {
	if len(digest) != 32 || len(rs) != 64 {
		return nil, "length"
	}
	if recid < 0 || recid > 3 {
		return nil, "recid"
	}
	r := new(big.Int).SetBytes(rs[:32])
	s := new(big.Int).SetBytes(rs[32:])
	if r.Sign() == 0 || r.Cmp(skN) >= 0 || s.Sign() == 0 || s.Cmp(skN) >= 0 {
		return nil, "range"
	}
	x := new(big.Int).Set(r)
	if recid&2 != 0 {
		x.Add(x, skN)
	}
	if x.Cmp(skP) >= 0 {
		return nil, "x_ge_p"
	}
	R, ok := SkLift(x, uint(recid&1))
	if !ok {
		return nil, "not_on_curve"
	}
	e := new(big.Int).SetBytes(digest)
	ri := new(big.Int).ModInverse(r, skN)
	// Q = r^-1 (s R - e G)
	t := R.Mul(s).Add(skG.Mul(e.Mod(e, skN)).Neg())
	q := t.Mul(ri)
	if q.Inf {
		return nil, "infinity"
	}
	return q, ""
}

// SkSign produces (r‖s, recid) for private scalar d, digest and nonce k
// (both in [1,n-1]); ok=false when r or s would be zero.
func SkSign(d *big.Int, digest []byte, k *big.Int) (rs []byte, recid int, ok bool) {
	R := skG.Mul(k)
	if R.Inf {
		return nil, 0, false
	}
	r := new(big.Int).Mod(R.X, skN)
	if r.Sign() == 0 {
		return nil, 0, false
	}
	e := new(big.Int).SetBytes(digest)
	s := new(big.Int).Mul(r, d)
	s.Add(s, e)
	s.Mul(s, new(big.Int).ModInverse(k, skN)).Mod(s, skN)
	if s.Sign() == 0 {
		return nil, 0, false
	}
	recid = int(R.Y.Bit(0))
	if R.X.Cmp(skN) >= 0 {
		recid |= 2
	}
	return append(be32(r), be32(s)...), recid, true
}

// SkFlipS returns the other valid signature (r, n-s) and its recovery id.
func SkFlipS(rs []byte, recid int) ([]byte, int) {
	s := new(big.Int).SetBytes(rs[32:])
	s.Sub(skN, s)
	return append(append([]byte{}, rs[:32]...), be32(s)...), recid ^ 1
}

// SkPub returns d*G.
func SkPub(d *big.Int) *SkPoint { return skG.Mul(d) }
