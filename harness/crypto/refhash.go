//go:build verif

// Package crypto holds the C29 monitors: reference implementations of the
// hashing and signature primitives written from their specifications (RFC 7693,
// FIPS 180-4, FIPS 202 / Keccak submission, the XXH64 specification, RFC 8032 +
// ZIP-215, SEC 1 / SEC 2) and the tests that compare gossamer's lib/common and
// lib/crypto against them. Nothing in this file calls the libraries gossamer
// uses (x/crypto/blake2b, x/crypto/sha3, crypto/sha256, OneOfOne/xxhash).
package crypto

import (
	"encoding/binary"
	"math/bits"
)

// ---------------------------------------------------------------- BLAKE2b (RFC 7693)

var b2bIV = [8]uint64{
	0x6a09e667f3bcc908, 0xbb67ae8584caa73b, 0x3c6ef372fe94f82b, 0xa54ff53a5f1d36f1,
	0x510e527fade682d1, 0x9b05688c2b3e6c1f, 0x1f83d9abfb41bd6b, 0x5be0cd19137e2179,
}

var b2bSigma = [12][16]byte{
	{0, 1, 2, 3, 4, 5, 6, 7, 8, 9, 10, 11, 12, 13, 14, 15},
	{14, 10, 4, 8, 9, 15, 13, 6, 1, 12, 0, 2, 11, 7, 5, 3},
	{11, 8, 12, 0, 5, 2, 15, 13, 10, 14, 3, 6, 7, 1, 9, 4},
	{7, 9, 3, 1, 13, 12, 11, 14, 2, 6, 5, 10, 4, 0, 15, 8},
	{9, 0, 5, 7, 2, 4, 10, 15, 14, 1, 11, 12, 6, 8, 3, 13},
	{2, 12, 6, 10, 0, 11, 8, 3, 4, 13, 7, 5, 15, 14, 1, 9},
	{12, 5, 1, 15, 14, 13, 4, 10, 0, 7, 6, 3, 9, 2, 8, 11},
	{13, 11, 7, 14, 12, 1, 3, 9, 5, 0, 15, 4, 8, 6, 2, 10},
	{6, 15, 14, 9, 11, 3, 0, 8, 12, 2, 13, 7, 1, 4, 10, 5},
	{10, 2, 8, 4, 7, 6, 1, 5, 15, 11, 9, 14, 3, 12, 13, 0},
	{0, 1, 2, 3, 4, 5, 6, 7, 8, 9, 10, 11, 12, 13, 14, 15},
	{14, 10, 4, 8, 9, 15, 13, 6, 1, 12, 0, 2, 11, 7, 5, 3},
}

func b2bCompress(h *[8]uint64, block []byte, t uint64, last bool) {
	var m [16]uint64
	for i := range m {
		m[i] = binary.LittleEndian.Uint64(block[8*i:])
	}
	var v [16]uint64
	copy(v[:8], h[:])
	copy(v[8:], b2bIV[:])
	v[12] ^= t // low word of the 128-bit offset counter; inputs here are < 2^64 bytes
	if last {
		v[14] = ^v[14]
	}
	g := func(a, b, c, d int, x, y uint64) {
		v[a] = v[a] + v[b] + x
		v[d] = bits.RotateLeft64(v[d]^v[a], -32)
		v[c] = v[c] + v[d]
		v[b] = bits.RotateLeft64(v[b]^v[c], -24)
		v[a] = v[a] + v[b] + y
		v[d] = bits.RotateLeft64(v[d]^v[a], -16)
		v[c] = v[c] + v[d]
		v[b] = bits.RotateLeft64(v[b]^v[c], -63)
	}
	for r := 0; r < 12; r++ {
		s := &b2bSigma[r]
		g(0, 4, 8, 12, m[s[0]], m[s[1]])
		g(1, 5, 9, 13, m[s[2]], m[s[3]])
		g(2, 6, 10, 14, m[s[4]], m[s[5]])
		g(3, 7, 11, 15, m[s[6]], m[s[7]])
		g(0, 5, 10, 15, m[s[8]], m[s[9]])
		g(1, 6, 11, 12, m[s[10]], m[s[11]])
		g(2, 7, 8, 13, m[s[12]], m[s[13]])
		g(3, 4, 9, 14, m[s[14]], m[s[15]])
	}
	for i := 0; i < 8; i++ {
		h[i] ^= v[i] ^ v[i+8]
	}
}

// RefBlake2b is unkeyed BLAKE2b with an outLen-byte digest (1..64).
func RefBlake2b(in []byte, outLen int) []byte {
	h := b2bIV
	h[0] ^= 0x01010000 ^ uint64(outLen)
	var t uint64
	for len(in) > 128 {
		t += 128
		b2bCompress(&h, in[:128], t, false)
		in = in[128:]
	}
	var last [128]byte
	copy(last[:], in)
	t += uint64(len(in))
	b2bCompress(&h, last[:], t, true)
	out := make([]byte, 64)
	for i := range h {
		binary.LittleEndian.PutUint64(out[8*i:], h[i])
	}
	return out[:outLen]
}

// ---------------------------------------------------------------- SHA-256 (FIPS 180-4)

var sha256K = [64]uint32{
	0x428a2f98, 0x71374491, 0xb5c0fbcf, 0xe9b5dba5, 0x3956c25b, 0x59f111f1, 0x923f82a4, 0xab1c5ed5,
	0xd807aa98, 0x12835b01, 0x243185be, 0x550c7dc3, 0x72be5d74, 0x80deb1fe, 0x9bdc06a7, 0xc19bf174,
	0xe49b69c1, 0xefbe4786, 0x0fc19dc6, 0x240ca1cc, 0x2de92c6f, 0x4a7484aa, 0x5cb0a9dc, 0x76f988da,
	0x983e5152, 0xa831c66d, 0xb00327c8, 0xbf597fc7, 0xc6e00bf3, 0xd5a79147, 0x06ca6351, 0x14292967,
	0x27b70a85, 0x2e1b2138, 0x4d2c6dfc, 0x53380d13, 0x650a7354, 0x766a0abb, 0x81c2c92e, 0x92722c85,
	0xa2bfe8a1, 0xa81a664b, 0xc24b8b70, 0xc76c51a3, 0xd192e819, 0xd6990624, 0xf40e3585, 0x106aa070,
	0x19a4c116, 0x1e376c08, 0x2748774c, 0x34b0bcb5, 0x391c0cb3, 0x4ed8aa4a, 0x5b9cca4f, 0x682e6ff3,
	0x748f82ee, 0x78a5636f, 0x84c87814, 0x8cc70208, 0x90befffa, 0xa4506ceb, 0xbef9a3f7, 0xc67178f2,
}

// RefSha256 is SHA-256.
func RefSha256(in []byte) []byte {
	h := [8]uint32{0x6a09e667, 0xbb67ae85, 0x3c6ef372, 0xa54ff53a, 0x510e527f, 0x9b05688c, 0x1f83d9ab, 0x5be0cd19}
	msg := make([]byte, 0, len(in)+72)
	msg = append(msg, in...)
	msg = append(msg, 0x80)
	for len(msg)%64 != 56 {
		msg = append(msg, 0)
	}
	var lb [8]byte
	binary.BigEndian.PutUint64(lb[:], uint64(len(in))*8)
	msg = append(msg, lb[:]...)
	var w [64]uint32
	for off := 0; off < len(msg); off += 64 {
		for i := 0; i < 16; i++ {
			w[i] = binary.BigEndian.Uint32(msg[off+4*i:])
		}
		for i := 16; i < 64; i++ {
			s0 := bits.RotateLeft32(w[i-15], -7) ^ bits.RotateLeft32(w[i-15], -18) ^ (w[i-15] >> 3)
			s1 := bits.RotateLeft32(w[i-2], -17) ^ bits.RotateLeft32(w[i-2], -19) ^ (w[i-2] >> 10)
			w[i] = w[i-16] + s0 + w[i-7] + s1
		}
		a, b, c, d, e, f, g, hh := h[0], h[1], h[2], h[3], h[4], h[5], h[6], h[7]
		for i := 0; i < 64; i++ {
			S1 := bits.RotateLeft32(e, -6) ^ bits.RotateLeft32(e, -11) ^ bits.RotateLeft32(e, -25)
			ch := (e & f) ^ (^e & g)
			t1 := hh + S1 + ch + sha256K[i] + w[i]
			S0 := bits.RotateLeft32(a, -2) ^ bits.RotateLeft32(a, -13) ^ bits.RotateLeft32(a, -22)
			maj := (a & b) ^ (a & c) ^ (b & c)
			t2 := S0 + maj
			hh, g, f, e, d, c, b, a = g, f, e, d+t1, c, b, a, t1+t2
		}
		h[0] += a
		h[1] += b
		h[2] += c
		h[3] += d
		h[4] += e
		h[5] += f
		h[6] += g
		h[7] += hh
	}
	out := make([]byte, 32)
	for i := range h {
		binary.BigEndian.PutUint32(out[4*i:], h[i])
	}
	return out
}

// ---------------------------------------------------------------- Keccak-f[1600] sponge

var keccakRC = [24]uint64{
	0x0000000000000001, 0x0000000000008082, 0x800000000000808a, 0x8000000080008000,
	0x000000000000808b, 0x0000000080000001, 0x8000000080008081, 0x8000000000008009,
	0x000000000000008a, 0x0000000000000088, 0x0000000080008009, 0x000000008000000a,
	0x000000008000808b, 0x800000000000008b, 0x8000000000008089, 0x8000000000008003,
	0x8000000000008002, 0x8000000000000080, 0x000000000000800a, 0x800000008000000a,
	0x8000000080008081, 0x8000000000008080, 0x0000000080000001, 0x8000000080008008,
}

// rotation offsets r[x][y] of the rho step (Keccak reference, table 2)
var keccakRot = [5][5]int{
	{0, 36, 3, 41, 18},
	{1, 44, 10, 45, 2},
	{62, 6, 43, 15, 61},
	{28, 55, 25, 21, 56},
	{27, 20, 39, 8, 14},
}

func keccakF(a *[5][5]uint64) { // a[x][y]
	for rnd := 0; rnd < 24; rnd++ {
		var c, d [5]uint64
		for x := 0; x < 5; x++ {
			c[x] = a[x][0] ^ a[x][1] ^ a[x][2] ^ a[x][3] ^ a[x][4]
		}
		for x := 0; x < 5; x++ {
			d[x] = c[(x+4)%5] ^ bits.RotateLeft64(c[(x+1)%5], 1)
		}
		for x := 0; x < 5; x++ {
			for y := 0; y < 5; y++ {
				a[x][y] ^= d[x]
			}
		}
		var b [5][5]uint64
		for x := 0; x < 5; x++ {
			for y := 0; y < 5; y++ {
				b[y][(2*x+3*y)%5] = bits.RotateLeft64(a[x][y], keccakRot[x][y])
			}
		}
		for x := 0; x < 5; x++ {
			for y := 0; y < 5; y++ {
				a[x][y] = b[x][y] ^ (^b[(x+1)%5][y] & b[(x+2)%5][y])
			}
		}
		a[0][0] ^= keccakRC[rnd]
	}
}

// refSponge256 is the Keccak sponge with capacity 512 (rate 136 bytes), a
// 32-byte output and the given domain/padding byte: 0x01 = original Keccak-256
// (what Ethereum and Substrate call keccak_256), 0x06 = FIPS 202 SHA3-256.
func refSponge256(in []byte, dom byte) []byte {
	const rate = 136
	var st [5][5]uint64
	absorb := func(blk []byte) {
		for i := 0; i < rate/8; i++ {
			st[i%5][i/5] ^= binary.LittleEndian.Uint64(blk[8*i:])
		}
		keccakF(&st)
	}
	for len(in) >= rate {
		absorb(in[:rate])
		in = in[rate:]
	}
	var last [rate]byte
	copy(last[:], in)
	last[len(in)] ^= dom
	last[rate-1] ^= 0x80
	absorb(last[:])
	out := make([]byte, 32)
	for i := 0; i < 4; i++ {
		binary.LittleEndian.PutUint64(out[8*i:], st[i%5][i/5])
	}
	return out
}

// RefKeccak256 is the pre-standard Keccak-256 (padding 0x01).
func RefKeccak256(in []byte) []byte { return refSponge256(in, 0x01) }

// RefSha3_256 is FIPS 202 SHA3-256; only used to validate keccakF and the
// sponge against python's hashlib.
func RefSha3_256(in []byte) []byte { return refSponge256(in, 0x06) }

// ---------------------------------------------------------------- XXH64 (xxHash specification)

const (
	xxP1 uint64 = 0x9E3779B185EBCA87
	xxP2 uint64 = 0xC2B2AE3D27D4EB4F
	xxP3 uint64 = 0x165667B19E3779F9
	xxP4 uint64 = 0x85EBCA77C2B2AE63
	xxP5 uint64 = 0x27D4EB2F165667C5
)

func xxRound(acc, lane uint64) uint64 {
	acc += lane * xxP2
	acc = bits.RotateLeft64(acc, 31)
	return acc * xxP1
}

func xxMerge(acc, v uint64) uint64 {
	acc ^= xxRound(0, v)
	return acc*xxP1 + xxP4
}

// RefXXH64 is XXH64(in, seed).
func RefXXH64(in []byte, seed uint64) uint64 {
	n := uint64(len(in))
	var acc uint64
	if len(in) >= 32 {
		a1, a2, a3, a4 := seed+xxP1+xxP2, seed+xxP2, seed, seed-xxP1
		for len(in) >= 32 {
			a1 = xxRound(a1, binary.LittleEndian.Uint64(in[0:]))
			a2 = xxRound(a2, binary.LittleEndian.Uint64(in[8:]))
			a3 = xxRound(a3, binary.LittleEndian.Uint64(in[16:]))
			a4 = xxRound(a4, binary.LittleEndian.Uint64(in[24:]))
			in = in[32:]
		}
		acc = bits.RotateLeft64(a1, 1) + bits.RotateLeft64(a2, 7) + bits.RotateLeft64(a3, 12) + bits.RotateLeft64(a4, 18)
		acc = xxMerge(acc, a1)
		acc = xxMerge(acc, a2)
		acc = xxMerge(acc, a3)
		acc = xxMerge(acc, a4)
	} else {
		acc = seed + xxP5
	}
	acc += n
	for len(in) >= 8 {
		acc ^= xxRound(0, binary.LittleEndian.Uint64(in))
		acc = bits.RotateLeft64(acc, 27)*xxP1 + xxP4
		in = in[8:]
	}
	if len(in) >= 4 {
		acc ^= uint64(binary.LittleEndian.Uint32(in)) * xxP1
		acc = bits.RotateLeft64(acc, 23)*xxP2 + xxP3
		in = in[4:]
	}
	for _, b := range in {
		acc ^= uint64(b) * xxP5
		acc = bits.RotateLeft64(acc, 11) * xxP1
	}
	acc ^= acc >> 33
	acc *= xxP2
	acc ^= acc >> 29
	acc *= xxP3
	acc ^= acc >> 32
	return acc
}

// RefTwox is Substrate's twox_{64,128,256}: XXH64 with seeds 0..n-1, each
// written little-endian, concatenated.
func RefTwox(in []byte, n int) []byte {
	out := make([]byte, 8*n)
	for s := 0; s < n; s++ {
		binary.LittleEndian.PutUint64(out[8*s:], RefXXH64(in, uint64(s)))
	}
	return out
}

// PatternMsg is the deterministic message used by the python-generated vector
// file (pyref/gen_vectors.py uses the same formula).
func PatternMsg(n, salt int) []byte {
	b := make([]byte, n)
	for j := range b {
		b[j] = byte(j*167 + salt*29 + (j>>8)*13 + 1)
	}
	return b
}
