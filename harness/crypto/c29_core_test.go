//go:build verif

package crypto

// C29, second test of the engine: hashing / signature helpers the first test does not reach.
//   - common.Blake2b8 / MustBlake2b8 (lib/common/hasher.go): BLAKE2b with an 8-byte digest (digest length 8 in the
//     parameter block, as Substrate's blake2_64; NOT a truncated BLAKE2b-256)
//   - internal/primitives/core/hashing.BlakeTwo256
//   - internal/primitives/core/ed25519.Public.Verify: the ed25519 path of the GRANDPA justification / warp-sync
//     verification code (internal/client/consensus/grandpa), judged by the same ZIP-215 reference and the same
//     deviation oracle (C29-K1) as lib/crypto/ed25519.

import (
	"bytes"
	"fmt"
	"testing"

	coreed "github.com/ChainSafe/gossamer/internal/primitives/core/ed25519"
	"github.com/ChainSafe/gossamer/internal/primitives/core/hashing"
	"github.com/ChainSafe/gossamer/lib/common"
	"github.com/ChainSafe/gossamer/zz_verif/vcommon"
)

// edExtraEntry is one more ed25519 verification entry point judged by checkEd.
type edExtraEntry struct {
	name   string
	verify func(c *vcommon.Case, pub, msg, sig []byte, w map[string]any) (accept bool, judged bool)
}

var edExtraEntries []edExtraEntry

func coreEdVerify(c *vcommon.Case, pub, msg, sig []byte, w map[string]any) (accept bool, judged bool) {
	if len(pub) != 32 || len(sig) != 64 {
		c.Count("core_ed_not_expressible_wrong_length", 1) // Public is [32]byte, Signature [64]byte
		return false, false
	}
	var pk [32]byte
	var sg [64]byte
	copy(pk[:], pub)
	copy(sg[:], sig)
	msgCopy := append([]byte{}, msg...)
	if p := guard(func() { accept = coreed.NewPublic(pk).Verify(coreed.NewSignatureFromRaw(sg), msg) }); p != "" {
		w["panic"] = p
		c.Violation("panic", "internal/primitives/core/ed25519 Public.Verify panicked", w)
		return false, false
	}
	c.Eval(1)
	if !bytes.Equal(msg, msgCopy) {
		c.Violation("hash-mutates-input", "core ed25519 Public.Verify modified the message", w)
	}
	c.Count("core_ed_verify_calls", 1)
	if k, ok := w["kind"].(string); ok {
		c.Count("core_ed_kind_"+k, 1)
	}
	if accept {
		c.Count("core_ed_verify_accept", 1)
	} else {
		c.Count("core_ed_verify_reject", 1)
	}
	return accept, true
}

// BLAKE2b-64 digests from CPython hashlib.blake2b(msg, digest_size=8), msg[i] = (7*i + n) & 0xff; the third column is
// the head of the BLAKE2b-256 digest of the same message (what a "first 8 bytes of BLAKE2b-256" would be).
var b2b8Vectors = []struct {
	n            int
	b64, b256pre string
}{
	{0, "e4a6a0577479b2b4", "0e5751c026e543b2"},
	{1, "00e83d0a3f7519ad", "ee155ace9c402920"},
	{7, "919e519cf8d70ad5", "0281bbb939e499b5"},
	{8, "5fbe28957ad33d54", "5df9c45b8fc3df51"},
	{9, "96beefa98516ffac", "d87c4b08e0cb677d"},
	{63, "88d2ff6c9c038781", "c309be22ad3da961"},
	{64, "dc4bbf2c17a80d18", "bb447dddb2721745"},
	{65, "f68281e08f36b9da", "4fd6cb44010121ba"},
	{127, "262a6b51bea9b7cc", "f609ab2904b340cd"},
	{128, "590b0697b98dbdd4", "0702c64922fb7635"},
	{129, "42347ad15f2c6387", "490091b32bad7b33"},
	{255, "58d0948e881a8086", "b579b3e762db9a4a"},
	{256, "e87d780152aba41b", "3d0cb2693dfbac42"},
	{257, "a35a7e34072d4613", "080f7f2ee61cc8ff"},
	{1000, "e103bfe5ff249bfc", "a2ae1ecc90361e0b"},
}

func b2b8Msg(n int) []byte {
	b := make([]byte, n)
	for i := range b {
		b[i] = byte(7*i + n)
	}
	return b
}

// selfTestB2b8 validates the reference at digest length 8 (the main self-test covers 16 and 32).
func selfTestB2b8() string {
	for _, v := range b2b8Vectors {
		m := b2b8Msg(v.n)
		if got := hx(RefBlake2b(m, 8)); got != v.b64 {
			return fmt.Sprintf("RefBlake2b(len %d, 8) = %s, hashlib %s", v.n, got, v.b64)
		}
		if got := hx(RefBlake2b(m, 32)[:8]); got != v.b256pre {
			return fmt.Sprintf("RefBlake2b(len %d, 32)[:8] = %s, hashlib %s", v.n, got, v.b256pre)
		}
	}
	return ""
}

func checkCoreHashes(c *vcommon.Case, msg []byte) {
	orig := append([]byte{}, msg...)
	n := len(msg)
	w := map[string]any{"len": n}
	if n <= 400 {
		w["msg"] = hx(msg)
	} else {
		w["msg_prefix"] = hx(msg[:64])
		w["msg_blake2b256"] = hx(RefBlake2b(msg, 32))
	}
	c.Count("core_hash_inputs", 1)
	c.Count("core_hash_"+lenClass(n), 1)
	if n > 0 && (n%128 == 0 || n%128 == 1 || n%128 == 127) {
		c.Count("core_hash_block128_boundary", 1)
	}
	c.Distinct(fmt.Sprintf("corehash/%d", n))
	cmp := func(name string, got []byte, err error, want []byte) {
		c.Eval(1)
		if err != nil {
			w["err"] = err.Error()
			c.Violation("hash-error", name+" returned an error", w)
			return
		}
		if !bytes.Equal(got, want) {
			ww := map[string]any{"got": hx(got), "want": hx(want)}
			for k, v := range w {
				ww[k] = v
			}
			c.Violation("digest:"+name, fmt.Sprintf("%s(len %d) = %x, reference %x", name, n, got, want), ww)
		}
	}
	if p := guard(func() {
		want8 := RefBlake2b(msg, 8)
		d8, err := common.Blake2b8(msg)
		cmp("Blake2b8", d8[:], err, want8)
		m8 := common.MustBlake2b8(msg)
		cmp("MustBlake2b8", m8[:], nil, want8)
		b256 := hashing.BlakeTwo256(msg)
		cmp("hashing.BlakeTwo256", b256[:], nil, RefBlake2b(msg, 32))
	}); p != "" {
		w["panic"] = p
		c.Violation("panic", "hash helper panicked", w)
	}
	c.Eval(1)
	if !bytes.Equal(orig, msg) {
		c.Violation("hash-mutates-input", "a hash helper modified its input", w)
	}
	if n >= 5 && n <= 64 {
		d8, _ := common.Blake2b8(msg)
		sampleOnce(c, "core_hash", map[string]any{"len": n, "msg": hx(msg), "Blake2b8": hx(d8[:]), "ref_blake2b_64": hx(RefBlake2b(msg, 8))})
	}
}

func TestVerifC29Core(t *testing.T) {
	r := vcommon.Start(t, "C29")
	defer r.Finish()
	bad := SelfTest()
	if bad == "" {
		bad = selfTestB2b8()
	}
	r.Fixed("core-selftest", r.Shards, func(c *vcommon.Case) {
		c.Eval(1)
		if bad != "" {
			c.Inconclusive("reference self-validation failed: " + bad)
			return
		}
		c.Count("core_selftest_ok", 1)
	})
	if bad != "" {
		return
	}
	r.Floor("core_selftest_ok", 1)
	r.Floor("core_hash_inputs", 1200)
	r.Floor("core_hash_len_0", 1)
	r.Floor("core_hash_len_ge_1MiB", 1)
	r.Floor("core_hash_block128_boundary", 60)
	r.Floor("core_b2b8_published_vectors", len(b2b8Vectors))
	r.Floor("core_ed_verify_calls", 800)
	r.Floor("core_ed_verify_accept", 150)
	r.Floor("core_ed_verify_reject", 500)
	r.Floor("core_ed_zip215_only", 300)
	r.Floor("core_ed_both_accept", 150)
	r.Floor("core_ed_kind_small_order_S0", 196)
	r.Floor("core_ed_kind_honest", 20)
	r.Floor("core_ed_kind_tampered", 10)

	// ---- hashes
	fixedLens := []int{}
	for n := 0; n <= 300; n++ {
		fixedLens = append(fixedLens, n)
	}
	fixedLens = append(fixedLens, 511, 512, 513, 1023, 1024, 1025, 4095, 4096, 4097, 65536, (1<<20)-1, 1<<20, (1<<20)+1)
	r.Fixed("core-hash-fixed", len(fixedLens), func(c *vcommon.Case) {
		n := fixedLens[c.Idx]
		checkCoreHashes(c, PatternMsg(n, n%251))
		if n <= 300 {
			checkCoreHashes(c, make([]byte, n))
			checkCoreHashes(c, bytes.Repeat([]byte{0xff}, n))
		}
	})
	r.Fixed("core-hash-vectors", len(b2b8Vectors)+1, func(c *vcommon.Case) {
		if c.Idx == len(b2b8Vectors) {
			checkCoreHashes(c, nil)
			return
		}
		v := b2b8Vectors[c.Idx]
		m := b2b8Msg(v.n)
		c.Eval(1)
		got, err := common.Blake2b8(m)
		if err != nil || hx(got[:]) != v.b64 {
			c.Violation("digest:Blake2b8", fmt.Sprintf("Blake2b8(len %d) = %x (%v), hashlib.blake2b(digest_size=8) = %s", v.n, got, err, v.b64),
				map[string]any{"msg": hx(m), "got": hx(got[:]), "want": v.b64, "blake2b256_prefix": v.b256pre})
		}
		c.Count("core_b2b8_published_vectors", 1)
		checkCoreHashes(c, m)
	})
	r.Cases("core-hash-rand", r.Scale(600), func(c *vcommon.Case) {
		checkCoreHashes(c, c.R.Bytes(hashLen(c.R, r.Thorough())))
	})

	// ---- ed25519 of internal/primitives/core: same generators, same two oracles, same attribution as checkEd
	edExtraEntries = []edExtraEntry{{"core/ed25519.Public.Verify", func(c *vcommon.Case, pub, msg, sig []byte, w map[string]any) (bool, bool) {
		acc, ok := coreEdVerify(c, pub, msg, sig, w)
		if ok {
			ref, mod := EdVerifyZIP215(pub, msg, sig), refVerifyRFC8032(pub, msg, sig)
			switch {
			case ref.Accept && mod.Accept:
				c.Count("core_ed_both_accept", 1)
			case ref.Accept:
				c.Count("core_ed_zip215_only", 1)
			default:
				c.Count("core_ed_both_reject", 1)
			}
		}
		return acc, ok
	}}}
	tor := EdTorsion()
	edFix := edFixedCorpus()
	specialEncs, _, _ := edSmallOrderEncodings()
	r.Fixed("core-ed-fixed", len(edFix), func(c *vcommon.Case) {
		f := edFix[c.Idx]
		checkEd(c, f.kind, f.pub, f.msg, f.sig)
	})
	r.Cases("core-ed-rand", r.Scale(400), func(c *vcommon.Case) { edRandom(c, tor) })
	r.Cases("core-ed-special", r.Scale(14*10), func(c *vcommon.Case) { edSpecialA(c, specialEncs[c.Idx%len(specialEncs)]) })
	// completion marker: TestVerifC29Batch runs before this function in the same process and puts a floor of one per
	// shard on it, so a process-fatal error in here (which the driver cannot see once a summary exists) is not silent
	r.Count("core_run_completed", 1)
}
