//go:build verif

package crypto

// Self-validation of the reference implementations against material that does
// not come from gossamer or from the libraries it calls: python hashlib digests
// (refvectors_gen.go), published test vectors, RFC 8032 §7.1, and two
// implementations gossamer does not use for these functions (cespare/xxhash,
// decred secp256k1). One exception, at the end of this file: the MODEL of the
// known deviation C29-K1 (refVerifyRFC8032) is validated against crypto/ed25519,
// the library that defines that deviation. A failure makes the whole check
// INCONCLUSIVE: a wrong oracle must never raise an alarm.

import (
	"bytes"
	stded "crypto/ed25519"
	"encoding/hex"
	"fmt"
	"math/big"

	cespare "github.com/cespare/xxhash/v2"
	dsecp "github.com/decred/dcrd/dcrec/secp256k1/v4"
	decdsa "github.com/decred/dcrd/dcrec/secp256k1/v4/ecdsa"

	"github.com/ChainSafe/gossamer/zz_verif/vcommon"
)

func unhex(s string) []byte {
	b, err := hex.DecodeString(s)
	if err != nil {
		panic(err)
	}
	return b
}

// RFC8032Vector is one §7.1 test vector.
type RFC8032Vector struct{ Seed, Pub, Msg, Sig string }

// RFC8032Vectors are TEST 1, 2, 3 and TEST SHA(abc) of RFC 8032 §7.1.
var RFC8032Vectors = []RFC8032Vector{
	{"9d61b19deffd5a60ba844af492ec2cc44449c5697b326919703bac031cae7f60",
		"d75a980182b10ab7d54bfed3c964073a0ee172f3daa62325af021a68f707511a", "",
		"e5564300c360ac729086e2cc806e828a84877f1eb8e5d974d873e065224901555fb8821590a33bacc61e39701cf9b46bd25bf5f0595bbe24655141438e7a100b"},
	{"4ccd089b28ff96da9db6c346ec114e0f5b8a319f35aba624da8cf6ed4fb8a6fb",
		"3d4017c3e843895a92b70aa74d1b7ebc9c982ccf2ec4968cc0cd55f12af4660c", "72",
		"92a009a9f0d4cab8720e820b5f642540a2b27b5416503f8fb3762223ebdb69da085ac1e43e15996e458f3613d0f11d8c387b2eaeb4302aeeb00d291612bb0c00"},
	{"c5aa8df43f9f837bedb7442f31dcb7b166d38535076f094b85ce3a2e0b4458f7",
		"fc51cd8e6218a1a38da47ed00230f0580816ed13ba3303ac5deb911548908025", "af82",
		"6291d657deec24024827e69c3abe01a30ce548a284743a445e3680d7db5ac3ac18ff9b538d16f290ae67f760984dc6594a7c15e9716ed28dc027beceea1ec40a"},
	{"833fe62409237b9d62ec77587520911e9a759cec1d19755b7da901b96dca3d42",
		"ec172b93ad5e563bf4932c70e1245034c35467ef2efd4d64ebf819683467e2bf",
		"ddaf35a193617abacc417349ae20413112e6fa4e89a97ea20a9eeee64b55d39a2192992a274fc1a836ba3c23a3feebbd454d4423643ce80e2a9ac94fa54ca49f",
		"dc2a4459e7369633a52b1bf277839a00201009a3efbf3ecb69bea2186c26b58909351fc9ac90b3ecfdfbc7c66431e0303dca179c138ac17ad9bef1177331a704"},
}

// published Keccak-256 digests (Keccak team / Ethereum documentation)
var keccakPublished = map[string]string{
	"":                                  "c5d2460186f7233c927e7db2dcc703c0e500b653ca82273b7bfad8045d85a470",
	"abc":                               "4e03657aea45a94fc7d47ba826c8d667c0d1e6e33a64a036ec44f58fa12d6c45",
	"testing":                           "5f16f4c7f149ac4f9510d9cf8cf384038ad348b3bcdc01915f95de12df9d1b02",
	"Transfer(address,address,uint256)": "ddf252ad1be2c89b69c2b068fc378daa952ba7f163c4a11628f55a4df523b3ef",
}

// published XXH64 values (xxHash documentation, python-xxhash README) and
// Substrate storage prefixes twox_128(name) found in every chain explorer.
var xxhPublished = []struct {
	msg  string
	seed uint64
	want uint64
}{
	{"", 0, 0xef46db3751d8e999},
	{"a", 0, 0xd24ec4f1a98c6e5b},
	{"abc", 0, 0x44bc2cf5ad770999},
	{"Nobody inspects the spammish repetition", 0, 0xfbcea83c8a378bf1},
}

var twox128Published = map[string]string{
	"System":        "26aa394eea5630e07c48ae0c9558cef7",
	"Account":       "b99d880ec681799c0cf30e8886371da9",
	"Balances":      "c2261276cc9d1f8598ea4b6a74b15c2f",
	"TotalIssuance": "57c875e4cff74148e4628f264b974c80",
	"Timestamp":     "f0c365c3cf59d671eb72da0e7a4113c4",
	"Now":           "9f1f0515f462cdcf84e0f1d6045dfcbb",
}

// SelfTest returns "" when every reference reproduces its external vectors.
func SelfTest() string {
	// --- hashes against python hashlib
	for _, v := range PyVectors {
		m := PatternMsg(v.Len, v.Salt)
		if got := hex.EncodeToString(RefBlake2b(m, 16)); got != v.B2b128 {
			return fmt.Sprintf("RefBlake2b-128 len %d: %s != hashlib %s", v.Len, got, v.B2b128)
		}
		if got := hex.EncodeToString(RefBlake2b(m, 32)); got != v.B2b256 {
			return fmt.Sprintf("RefBlake2b-256 len %d: %s != hashlib %s", v.Len, got, v.B2b256)
		}
		if got := hex.EncodeToString(RefSha256(m)); got != v.Sha256 {
			return fmt.Sprintf("RefSha256 len %d: %s != hashlib %s", v.Len, got, v.Sha256)
		}
		if got := hex.EncodeToString(RefSha3_256(m)); got != v.Sha3 {
			return fmt.Sprintf("Keccak sponge (sha3 padding) len %d: %s != hashlib %s", v.Len, got, v.Sha3)
		}
	}
	for m, want := range keccakPublished {
		if got := hex.EncodeToString(RefKeccak256([]byte(m))); got != want {
			return fmt.Sprintf("RefKeccak256(%q)=%s != published %s", m, got, want)
		}
	}
	for _, v := range xxhPublished {
		if got := RefXXH64([]byte(v.msg), v.seed); got != v.want {
			return fmt.Sprintf("RefXXH64(%q,%d)=%016x != published %016x", v.msg, v.seed, got, v.want)
		}
	}
	for m, want := range twox128Published {
		if got := hex.EncodeToString(RefTwox([]byte(m), 2)); got != want {
			return fmt.Sprintf("RefTwox128(%q)=%s != published %s", m, got, want)
		}
	}
	for n := 0; n <= 300; n++ {
		m := PatternMsg(n, n)
		for seed := uint64(0); seed < 4; seed++ {
			d := cespare.NewWithSeed(seed)
			_, _ = d.Write(m)
			if got, want := RefXXH64(m, seed), d.Sum64(); got != want {
				return fmt.Sprintf("RefXXH64(len %d, seed %d)=%016x != cespare %016x", n, seed, got, want)
			}
		}
	}
	// --- ed25519 against RFC 8032 §7.1
	for i, v := range RFC8032Vectors {
		seed, pub, msg, sig := unhex(v.Seed), unhex(v.Pub), unhex(v.Msg), unhex(v.Sig)
		gp, gs := EdSign(seed, msg)
		if !bytes.Equal(gp, pub) || !bytes.Equal(gs, sig) {
			return fmt.Sprintf("EdSign RFC 8032 vector %d: pub %x sig %x", i, gp, gs)
		}
		if vd := EdVerifyZIP215(pub, msg, sig); !vd.Accept || !vd.Cofactorless || !vd.ACanonical || !vd.RCanonical || vd.ATorsion || vd.RTorsion {
			return fmt.Sprintf("EdVerifyZIP215 RFC 8032 vector %d: %+v", i, vd)
		}
		bad := append([]byte{}, sig...)
		bad[7] ^= 4
		if vd := EdVerifyZIP215(pub, msg, bad); vd.Accept {
			return fmt.Sprintf("EdVerifyZIP215 accepts tampered RFC 8032 vector %d", i)
		}
		if vd := EdVerifyZIP215(pub, append(msg, 1), sig); vd.Accept {
			return fmt.Sprintf("EdVerifyZIP215 accepts RFC 8032 vector %d on another message", i)
		}
	}
	if !edB.Mul(edL).IsIdentity() || edB.Mul(big8).IsIdentity() {
		return "edwards25519 base point order"
	}
	tor := EdTorsion()
	nenc := 0
	for i, t := range tor {
		if !t.Mul(big8).IsIdentity() || (i%8 != 0 && t.IsIdentity()) {
			return "edwards25519 torsion subgroup"
		}
		nenc += len(EdEncodings(t))
	}
	if nenc != 14 { // "8 canonical + 6 non-canonical" encodings of small-order points (ZIP-215, Chalkias et al.)
		return fmt.Sprintf("small-order encodings: %d, want 14", nenc)
	}
	// --- the RFC 8032 deviation model (known finding C29-K1) against Go's crypto/ed25519
	if bad := SelfTestEdModel(vcommon.NewRand(0xC29E), edModelSelfTestPerProcess); bad != "" {
		return bad
	}
	// --- secp256k1 against go-ethereum's published vector and decred's implementation
	kmsg := unhex("ce0677bb30baa8cf067c88db9811f4333d131bf8bcf12fe7065d211dce971008")
	ksig := unhex("90f27b8b488db00b00606796d2987f6a5f59ae62ea05effe84fef5b8b0e549984a691139ad57a3f0b906637673aa2f63d1f55cb1a69199d4009eea23ceaddc9301")
	kpub := unhex("04e32df42865e97135acfb65f3bae71bdc86f4d49150ad6a440b6f15878109880a0a2b2667f7e725ceea70c673093bf67663e0312623c8e091b13cf2c0f11ef652")
	q, why := SkRecover(kmsg, ksig[:64], int(ksig[64]))
	if q == nil || !bytes.Equal(q.Uncompressed(), kpub) {
		return "SkRecover published vector: " + why
	}
	if ok, why := SkVerify(q, kmsg, ksig[:64], true); !ok {
		return "SkVerify published vector: " + why
	}
	if !skG.OnCurve() || !skG.Mul(skN).Inf {
		return "secp256k1 generator order"
	}
	rng := vcommon.NewRand(0xC29)
	for i := 0; i < 40; i++ {
		d := new(big.Int).SetBytes(rng.Bytes(32))
		d.Mod(d, new(big.Int).Sub(skN, big1)).Add(d, big1)
		k := new(big.Int).SetBytes(rng.Bytes(32))
		k.Mod(k, new(big.Int).Sub(skN, big1)).Add(k, big1)
		digest := rng.Bytes(32)
		rs, recid, ok := SkSign(d, digest, k)
		if !ok {
			continue
		}
		if i%2 == 1 {
			rs, recid = SkFlipS(rs, recid)
		}
		pub := SkPub(d)
		dpub, err := dsecp.ParsePubKey(pub.Compressed())
		if err != nil {
			return "decred rejects reference public key"
		}
		for variant := 0; variant < 3; variant++ {
			sg := append([]byte{}, rs...)
			dg := append([]byte{}, digest...)
			switch variant {
			case 1:
				sg[rng.Intn(64)] ^= 1 << uint(rng.Intn(8))
			case 2:
				dg[rng.Intn(32)] ^= 1 << uint(rng.Intn(8))
			}
			refOK, _ := SkVerify(pub, dg, sg, false)
			var r, s dsecp.ModNScalar
			ovr := r.SetByteSlice(sg[:32])
			ovs := s.SetByteSlice(sg[32:])
			decOK := !ovr && !ovs && !r.IsZero() && !s.IsZero() && decdsa.NewSignature(&r, &s).Verify(dg, dpub)
			if refOK != decOK {
				return fmt.Sprintf("SkVerify=%v decred=%v (variant %d) sig %x", refOK, decOK, variant, sg)
			}
			for id := 0; id < 4; id++ {
				rq, _ := SkRecover(dg, sg, id)
				compact := append([]byte{byte(27 + id)}, sg...)
				dq, _, err := decdsa.RecoverCompact(compact, dg)
				if (rq != nil) != (err == nil) {
					return fmt.Sprintf("SkRecover=%v decred err=%v id %d sig %x digest %x", rq != nil, err, id, sg, dg)
				}
				if rq != nil && !bytes.Equal(rq.Uncompressed(), dq.SerializeUncompressed()) {
					return fmt.Sprintf("SkRecover key differs from decred id %d sig %x digest %x", id, sg, dg)
				}
				if variant == 0 && id == recid && (rq == nil || !bytes.Equal(rq.Compressed(), pub.Compressed())) {
					return "SkRecover does not return the signer"
				}
			}
		}
	}
	return ""
}

// ---------------------------------------------------------------------------
// Validation of the RFC 8032 deviation model (refVerifyRFC8032, known finding
// C29-K1) against Go's crypto/ed25519. crypto/ed25519 is the library gossamer
// calls today, so it is NOT used as an oracle for gossamer; it is what the known
// deviation is defined by ("gossamer verifies with RFC 8032 / Go semantics"), so
// it is the legitimate yardstick for the MODEL of that deviation. Attribution in
// checkEd is always made with the hand-written model.

// edModelSelfTestPerProcess edge cases are checked in every process before
// anything runs; the sharded group "ed-model" adds >= 10 000 more per run.
const edModelSelfTestPerProcess = 600

// GoStdVerify is crypto/ed25519.Verify (panics on a wrong key length: guarded).
func GoStdVerify(pub, msg, sig []byte) bool {
	if len(pub) != stded.PublicKeySize {
		return false
	}
	return stded.Verify(stded.PublicKey(pub), msg, sig)
}

var (
	edSmallEncs    [][]byte   // the 14 encodings of the 8 small-order points
	edSmallEncsPts []*EdPoint // the point each of them decodes to
	edTorsionPts   []*EdPoint
)

func edSmallOrderEncodings() ([][]byte, []*EdPoint, []*EdPoint) {
	if edSmallEncs == nil {
		edTorsionPts = EdTorsion()
		for _, t := range edTorsionPts {
			for _, e := range EdEncodings(t) {
				edSmallEncs = append(edSmallEncs, e)
				edSmallEncsPts = append(edSmallEncsPts, t)
			}
		}
	}
	return edSmallEncs, edSmallEncsPts, edTorsionPts
}

// edNearP returns a 32-byte string with y around p / tiny y and a random sign bit.
func edNearP(r *vcommon.Rand) []byte {
	var y *big.Int
	if r.Bool() {
		y = new(big.Int).Add(edP, big.NewInt(int64(r.Range(-20, 18))))
	} else {
		y = big.NewInt(int64(r.Range(0, 40)))
	}
	b := leBytes(y, 32)
	if r.Bool() {
		b[31] |= 0x80
	}
	return b
}

// EdModelCase generates one edge case (A, msg, sig) for the comparison of the
// RFC 8032 model with crypto/ed25519: the small-order / non-canonical matrix as
// A and as R, S = 0, S = r, mixed-order A and R built so that the cofactorless
// equation holds for some challenge residues only, honest and tampered
// signatures, S >= L, arbitrary and near-p strings as A or R.
func EdModelCase(r *vcommon.Rand) (kind string, pub, msg, sig []byte) {
	encs, _, tor := edSmallOrderEncodings()
	msg = r.Bytes(r.Range(0, 40))
	cat := func(a, b []byte) []byte { return append(append([]byte{}, a...), b...) }
	switch r.Intn(12) {
	case 0, 1, 2: // small-order A x small-order R (all 14 x 14 encodings), S = 0
		return "small_A_small_R_S0", vcommon.Pick(r, encs), msg, cat(vcommon.Pick(r, encs), make([]byte, 32))
	case 3: // small-order A, R = rB (+ torsion, any encoding), S = r
		rr := randScalarSelf(r)
		rPt := edB.Mul(rr)
		if r.Bool() {
			rPt = rPt.Add(tor[r.Intn(8)])
		}
		return "small_A_S_r", vcommon.Pick(r, encs), msg, cat(vcommon.Pick(r, EdEncodings(rPt)), leBytes(rr, 32))
	case 4, 5: // mixed-order A = aB + T_i, R = rB + T_j, S = r + k a: cofactorless iff T_j + [k]T_i = 0
		a, rr := randScalarSelf(r), randScalarSelf(r)
		aEnc := edB.Mul(a).Add(tor[r.Intn(8)]).Encode()
		rEnc := edB.Mul(rr).Add(tor[r.Intn(8)]).Encode()
		k := edHash(rEnc, aEnc, msg)
		S := new(big.Int).Mul(k, a)
		S.Add(S, rr).Mod(S, edL)
		return "mixed_order", aEnc, msg, cat(rEnc, leBytes(S, 32))
	case 6: // honest
		p, s := EdSign(r.Bytes(32), msg)
		return "honest", p, msg, s
	case 7: // honest, one bit flipped in key, message or signature
		p, s := EdSign(r.Bytes(32), msg)
		switch t := r.Intn(3); {
		case t == 0 && len(msg) > 0:
			msg[r.Intn(len(msg))] ^= 1 << uint(r.Intn(8))
		case t == 1:
			p[r.Intn(32)] ^= 1 << uint(r.Intn(8))
		default:
			s[r.Intn(64)] ^= 1 << uint(r.Intn(8))
		}
		return "tampered", p, msg, s
	case 8: // scalar edge: S + L, S with the top bits set, S = L, S = L - 1, random S
		p, s := EdSign(r.Bytes(32), msg)
		S := leInt(s[32:])
		switch r.Intn(5) {
		case 0:
			S.Add(S, edL)
		case 1:
			S.SetBit(S, 253+r.Intn(3), 1)
		case 2:
			S.Set(edL)
		case 3:
			S.Sub(edL, big1)
		case 4:
			S = leInt(r.Bytes(32))
		}
		copy(s[32:], leBytes(S, 32))
		if r.Chance(1, 3) { // ... with a small-order key and commitment, where S = 0 would verify
			return "scalar_small", vcommon.Pick(r, encs), msg, cat(vcommon.Pick(r, encs), s[32:])
		}
		return "scalar", p, msg, s
	case 9: // arbitrary / near-p string as A
		_, s := EdSign(r.Bytes(32), msg)
		p := edNearP(r)
		if r.Bool() {
			p = r.Bytes(32)
		}
		if r.Bool() {
			copy(s[32:], make([]byte, 32))
			copy(s[:32], vcommon.Pick(r, encs))
		}
		return "arbitrary_A", p, msg, s
	case 10: // arbitrary / near-p string as R
		p, s := EdSign(r.Bytes(32), msg)
		copy(s[:32], edNearP(r))
		if r.Bool() {
			p = vcommon.Pick(r, encs)
			copy(s[32:], make([]byte, 32))
		}
		return "arbitrary_R", p, msg, s
	}
	// small-order A, R = -[m]A in every encoding, S = 0: accepted iff R canonical and k = m (mod ord A)
	i := r.Intn(len(encs))
	_, pts, _ := edSmallOrderEncodings()
	rPt := pts[i].Mul(big.NewInt(int64(r.Intn(8)))).Neg()
	return "small_A_R_in_span", encs[i], msg, cat(vcommon.Pick(r, EdEncodings(rPt)), make([]byte, 32))
}

func randScalarSelf(r *vcommon.Rand) *big.Int {
	v := leInt(r.Bytes(40))
	return v.Mod(v, edL)
}

// EdModelStats counts what a run of the model validation saw.
type EdModelStats struct {
	Cases, GoAccept, GoReject     int
	AcceptNonCanonY, AcceptZeroXS int // accepted with A non-canonical by y >= p / by x = 0 with sign
	RefutedAlt                    [3]int
	Kinds                         map[string]int
}

var edAltRules = [3]EdDecodeRules{{false, false}, {true, false}, {false, true}}

// EdModelCompare runs n generated edge cases through crypto/ed25519 and the
// RFC 8032 model; "" when they agree on every one.
func EdModelCompare(r *vcommon.Rand, n int, st *EdModelStats) string {
	if st.Kinds == nil {
		st.Kinds = map[string]int{}
	}
	for i := 0; i < n; i++ {
		kind, pub, msg, sig := EdModelCase(r)
		std := GoStdVerify(pub, msg, sig)
		mod := refVerifyRFC8032(pub, msg, sig)
		st.Cases++
		st.Kinds[kind]++
		if std != mod.Accept {
			return fmt.Sprintf("RFC 8032 model = %v (%s) but crypto/ed25519 = %v on kind %s pub %x msg %x sig %x", mod.Accept, mod.Reason, std, kind, pub, msg, sig)
		}
		if zip := EdVerifyZIP215(pub, msg, sig); mod.Accept && !zip.Accept {
			return fmt.Sprintf("RFC 8032 model accepts what the ZIP-215 reference rejects (%s): pub %x msg %x sig %x", zip.Reason, pub, msg, sig)
		}
		if !std {
			st.GoReject++
			continue
		}
		st.GoAccept++
		// an accepted case with a non-canonical A refutes the decoding rules that would have rejected A
		for j, alt := range edAltRules {
			if !refVerifyRFC8032With(pub, msg, sig, alt).Accept {
				st.RefutedAlt[j]++
			}
		}
		if _, ok := edDecodeWith(pub, EdDecodeRules{false, true}); !ok {
			st.AcceptNonCanonY++
		}
		if _, ok := edDecodeWith(pub, EdDecodeRules{true, false}); !ok {
			st.AcceptZeroXS++
		}
	}
	return ""
}

// SelfTestEdModel validates the model on n edge cases and demands that the
// comparison had discriminating power: both verdicts frequent, and each of the
// three alternative decodings of A refuted by crypto/ed25519 at least once.
func SelfTestEdModel(r *vcommon.Rand, n int) string {
	// fixed part: the whole 14 x 14 matrix with S = 0 on three messages
	encs, _, _ := edSmallOrderEncodings()
	for _, m := range []string{"Zcash", "", "C29"} {
		for _, a := range encs {
			for _, rr := range encs {
				sig := append(append([]byte{}, rr...), make([]byte, 32)...)
				if std, mod := GoStdVerify(a, []byte(m), sig), refVerifyRFC8032(a, []byte(m), sig); std != mod.Accept {
					return fmt.Sprintf("RFC 8032 model = %v but crypto/ed25519 = %v on small-order matrix A %x R %x msg %q", mod.Accept, std, a, rr, m)
				}
			}
		}
	}
	var st EdModelStats
	if bad := EdModelCompare(r, n, &st); bad != "" {
		return bad
	}
	if st.GoAccept < n/20 || st.GoReject < n/4 {
		return fmt.Sprintf("RFC 8032 model validation is vacuous: %d accepted, %d rejected of %d", st.GoAccept, st.GoReject, n)
	}
	for j, c := range st.RefutedAlt {
		if c == 0 {
			return fmt.Sprintf("RFC 8032 model validation cannot tell decoding rules %+v from %+v", edAltRules[j], EdGoDecodeRules)
		}
	}
	return ""
}
