//go:build verif

package wazero_runtime

// Exports the unexported hashing / crypto host functions and the runtime
// context key to the external harness package zz_verif/crypto (C29). Nothing
// here changes behaviour: the variables alias the real functions.

import (
	"context"

	"github.com/tetratelabs/wazero/api"
)

// VerifContextKey is the key under which host functions look up *runtime.Context.
var VerifContextKey any = runtimeContextKey

// VerifHashing maps a Substrate host function name to ext_hashing_<name>_version_1.
var VerifHashing = map[string]func(context.Context, api.Module, uint64) uint32{
	"blake2_128": ext_hashing_blake2_128_version_1,
	"blake2_256": ext_hashing_blake2_256_version_1,
	"keccak_256": ext_hashing_keccak_256_version_1,
	"sha2_256":   ext_hashing_sha2_256_version_1,
	"twox_64":    ext_hashing_twox_64_version_1,
	"twox_128":   ext_hashing_twox_128_version_1,
	"twox_256":   ext_hashing_twox_256_version_1,
}

// VerifVerify maps a name to an ext_crypto_*_verify_* host function (sig ptr, msg span, key ptr).
var VerifVerify = map[string]func(context.Context, api.Module, uint32, uint64, uint32) uint32{
	"ed25519_verify_1": ext_crypto_ed25519_verify_version_1,
	"sr25519_verify_1": ext_crypto_sr25519_verify_version_1,
	"sr25519_verify_2": ext_crypto_sr25519_verify_version_2,
	"ecdsa_verify_2":   ext_crypto_ecdsa_verify_version_2,
}

// VerifRecover maps a name to an ext_crypto_secp256k1_ecdsa_recover* host function (sig ptr, msg ptr).
var VerifRecover = map[string]func(context.Context, api.Module, uint32, uint32) uint64{
	"recover_1":            ext_crypto_secp256k1_ecdsa_recover_version_1,
	"recover_2":            ext_crypto_secp256k1_ecdsa_recover_version_2,
	"recover_compressed_1": ext_crypto_secp256k1_ecdsa_recover_compressed_version_1,
	"recover_compressed_2": ext_crypto_secp256k1_ecdsa_recover_compressed_version_2,
}
