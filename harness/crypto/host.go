//go:build verif

package crypto

// Minimal environment for calling gossamer's ext_hashing_* / ext_crypto_* host
// functions directly: a wasm module that only has a memory, the real freeing
// bump allocator and a runtime.Context. The host functions are reached through
// inject/lib__runtime__wazero/zz_verif_export.go.

import (
	"context"
	"fmt"

	gcrypto "github.com/ChainSafe/gossamer/lib/crypto"
	"github.com/ChainSafe/gossamer/lib/runtime"
	"github.com/ChainSafe/gossamer/lib/runtime/allocator"
	wz "github.com/ChainSafe/gossamer/lib/runtime/wazero"
	"github.com/tetratelabs/wazero"
	"github.com/tetratelabs/wazero/api"
)

// (module (memory (export "memory") 64))
var memOnlyWasm = []byte{
	0x00, 0x61, 0x73, 0x6d, 0x01, 0x00, 0x00, 0x00,
	0x05, 0x03, 0x01, 0x00, 0x40,
	0x07, 0x0a, 0x01, 0x06, 'm', 'e', 'm', 'o', 'r', 'y', 0x02, 0x00,
}

const (
	hostSigPtr  = 0x100
	hostKeyPtr  = 0x200
	hostHashPtr = 0x300
	hostMsgPtr  = 0x1000
	hostHeap    = 0x200000
)

type nopLogger struct{}

func (nopLogger) Errorf(string, ...interface{}) {}

// HostEnv is one instantiated memory-only module.
type HostEnv struct {
	rt  wazero.Runtime
	mod api.Module
}

// NewHostEnv instantiates the module.
func NewHostEnv() (*HostEnv, error) {
	ctx := context.Background()
	rt := wazero.NewRuntimeWithConfig(ctx, wazero.NewRuntimeConfigInterpreter())
	mod, err := rt.Instantiate(ctx, memOnlyWasm)
	if err != nil {
		return nil, err
	}
	if mod.Memory() == nil || mod.Memory().Size() < hostHeap+0x10000 {
		return nil, fmt.Errorf("memory too small")
	}
	return &HostEnv{rt: rt, mod: mod}, nil
}

// ctx builds a fresh runtime context (new allocator: every call starts with an empty heap).
func (h *HostEnv) ctx() context.Context {
	rc := &runtime.Context{
		Allocator:   allocator.NewFreeingBumpHeapAllocator(hostHeap),
		SigVerifier: gcrypto.NewSignatureVerifier(nopLogger{}),
	}
	return context.WithValue(context.Background(), wz.VerifContextKey, rc)
}

func (h *HostEnv) put(ptr uint32, b []byte) {
	if !h.mod.Memory().Write(ptr, b) {
		panic("harness: host memory write out of range")
	}
}

func span(ptr uint32, n int) uint64 { return uint64(ptr) | uint64(n)<<32 }

// Hash calls ext_hashing_<name>_version_1 and returns outLen bytes at the returned pointer.
func (h *HostEnv) Hash(name string, data []byte, outLen int) []byte {
	h.put(hostMsgPtr, data)
	ptr := wz.VerifHashing[name](h.ctx(), h.mod, span(hostMsgPtr, len(data)))
	if ptr == 0 {
		return nil
	}
	out, ok := h.mod.Memory().Read(ptr, uint64(outLen))
	if !ok {
		return nil
	}
	return append([]byte{}, out...)
}

// Verify calls an ext_crypto_*_verify_* function; sig and key are written as given
// (the host function reads its fixed 64 / 32 / 33 bytes).
func (h *HostEnv) Verify(name string, sig, msg, key []byte) uint32 {
	h.put(hostSigPtr, make([]byte, 0x100))
	h.put(hostKeyPtr, make([]byte, 0x100))
	h.put(hostSigPtr, sig)
	h.put(hostKeyPtr, key)
	h.put(hostMsgPtr, msg)
	return wz.VerifVerify[name](h.ctx(), h.mod, hostSigPtr, span(hostMsgPtr, len(msg)), hostKeyPtr)
}

// Recover calls an ext_crypto_secp256k1_ecdsa_recover* function and returns the
// SCALE bytes of the Result it wrote, plus the 65 signature bytes left in wasm memory.
func (h *HostEnv) Recover(name string, sig65, digest32 []byte) (res []byte, sigAfter []byte) {
	h.put(hostSigPtr, make([]byte, 0x100))
	h.put(hostHashPtr, make([]byte, 0x100))
	h.put(hostSigPtr, sig65)
	h.put(hostHashPtr, digest32)
	ps := wz.VerifRecover[name](h.ctx(), h.mod, hostSigPtr, hostHashPtr)
	out, ok := h.mod.Memory().Read(uint32(ps), ps>>32)
	if !ok {
		return nil, nil
	}
	after, _ := h.mod.Memory().Read(hostSigPtr, 65)
	return append([]byte{}, out...), append([]byte{}, after...)
}
