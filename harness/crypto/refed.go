//go:build verif

package crypto

// ZIP-215 ed25519 verification written with math/big from RFC 8032 §5.1 and
// the ZIP-215 text (https://zips.z.cash/zip-0215):
//
//  1. A and R MUST be encodings of points on the curve; non-canonical encodings
//     (y >= p, or x = 0 with the sign bit set) MUST be accepted.
//  2. S MUST be canonical: S < L.
//  3. k = SHA-512(R_bytes ‖ A_bytes ‖ M) over the encodings as received.
//  4. accept iff [8][S]B = [8]R + [8][k]A.
//
// This is what ed25519-zebra implements, which sp_core::ed25519 / sp_io use.
// The only non-harness code used is math/big and crypto/sha512 (the RFC 8032
// vectors in the self-test pin both).

import (
	"crypto/sha512"
	"math/big"
)

var (
	edP  = new(big.Int).Sub(new(big.Int).Lsh(big.NewInt(1), 255), big.NewInt(19))
	edL  = mustBig("7237005577332262213973186563042994240857116359379907606001950938285454250989")
	edD  = new(big.Int)
	edI  = new(big.Int) // sqrt(-1)
	edB  *EdPoint
	big0 = big.NewInt(0)
	big1 = big.NewInt(1)
	big2 = big.NewInt(2)
	big3 = big.NewInt(3)
	big8 = big.NewInt(8)
)

func mustBig(s string) *big.Int {
	v, ok := new(big.Int).SetString(s, 10)
	if !ok {
		panic("bad constant")
	}
	return v
}

func init() {
	// d = -121665/121666 mod p
	inv := new(big.Int).ModInverse(big.NewInt(121666), edP)
	edD.Mul(big.NewInt(-121665), inv).Mod(edD, edP)
	// I = 2^((p-1)/4)
	e := new(big.Int).Sub(edP, big1)
	e.Rsh(e, 2)
	edI.Exp(big2, e, edP)
	// B: y = 4/5, x even
	y := new(big.Int).ModInverse(big.NewInt(5), edP)
	y.Mul(y, big.NewInt(4)).Mod(y, edP)
	x, ok := edRecoverX(y, 0)
	if !ok {
		panic("base point")
	}
	edB = edFromAffine(x, y)
}

// EdPoint is a point in extended homogeneous coordinates (X:Y:Z:T), x=X/Z, y=Y/Z, xy=T/Z.
type EdPoint struct{ X, Y, Z, T *big.Int }

func edFromAffine(x, y *big.Int) *EdPoint {
	t := new(big.Int).Mul(x, y)
	t.Mod(t, edP)
	return &EdPoint{new(big.Int).Set(x), new(big.Int).Set(y), big.NewInt(1), t}
}

// EdIdentity is the neutral element (0,1).
func EdIdentity() *EdPoint { return edFromAffine(big0, big1) }

func fmul(a, b *big.Int) *big.Int { v := new(big.Int).Mul(a, b); return v.Mod(v, edP) }
func fadd(a, b *big.Int) *big.Int { v := new(big.Int).Add(a, b); return v.Mod(v, edP) }
func fsub(a, b *big.Int) *big.Int { v := new(big.Int).Sub(a, b); return v.Mod(v, edP) }

// Add is the unified addition of RFC 8032 §5.1.4 (complete on edwards25519).
func (p *EdPoint) Add(q *EdPoint) *EdPoint {
	a := fmul(fsub(p.Y, p.X), fsub(q.Y, q.X))
	b := fmul(fadd(p.Y, p.X), fadd(q.Y, q.X))
	c := fmul(fmul(p.T, fmul(big2, edD)), q.T)
	d := fmul(fmul(p.Z, big2), q.Z)
	e := fsub(b, a)
	f := fsub(d, c)
	g := fadd(d, c)
	h := fadd(b, a)
	return &EdPoint{fmul(e, f), fmul(g, h), fmul(f, g), fmul(e, h)}
}

// Mul is double-and-add with the complete addition law (no special cases).
func (p *EdPoint) Mul(k *big.Int) *EdPoint {
	r := EdIdentity()
	for i := k.BitLen() - 1; i >= 0; i-- {
		r = r.Add(r)
		if k.Bit(i) == 1 {
			r = r.Add(p)
		}
	}
	return r
}

// Neg returns -p.
func (p *EdPoint) Neg() *EdPoint {
	return &EdPoint{fsub(big0, p.X), new(big.Int).Set(p.Y), new(big.Int).Set(p.Z), fsub(big0, p.T)}
}

// Equal compares projective points.
func (p *EdPoint) Equal(q *EdPoint) bool {
	return fmul(p.X, q.Z).Cmp(fmul(q.X, p.Z)) == 0 && fmul(p.Y, q.Z).Cmp(fmul(q.Y, p.Z)) == 0
}

// IsIdentity reports p == (0,1).
func (p *EdPoint) IsIdentity() bool { return p.Equal(EdIdentity()) }

// Affine returns (x, y).
func (p *EdPoint) Affine() (*big.Int, *big.Int) {
	zi := new(big.Int).ModInverse(p.Z, edP)
	return fmul(p.X, zi), fmul(p.Y, zi)
}

// Encode returns the canonical RFC 8032 encoding.
func (p *EdPoint) Encode() []byte {
	x, y := p.Affine()
	out := leBytes(y, 32)
	out[31] |= byte(x.Bit(0)) << 7
	return out
}

func leBytes(v *big.Int, n int) []byte {
	be := v.Bytes()
	out := make([]byte, n)
	for i := 0; i < len(be) && i < n; i++ {
		out[i] = be[len(be)-1-i]
	}
	return out
}

func leInt(b []byte) *big.Int {
	be := make([]byte, len(b))
	for i := range b {
		be[len(b)-1-i] = b[i]
	}
	return new(big.Int).SetBytes(be)
}

// edRecoverX solves x^2 = (y^2-1)/(d y^2+1) for the root with the requested
// parity (RFC 8032 §5.1.3 steps 2-4). For x = 0 any sign is accepted (ZIP-215).
func edRecoverX(y *big.Int, sign uint) (*big.Int, bool) {
	y2 := fmul(y, y)
	u := fsub(y2, big1)
	v := fadd(fmul(edD, y2), big1)
	vi := new(big.Int).ModInverse(v, edP) // v != 0 because -1/d is a non-square
	if vi == nil {
		return nil, false
	}
	x2 := fmul(u, vi)
	if x2.Sign() == 0 {
		return big.NewInt(0), true
	}
	e := new(big.Int).Add(edP, big3)
	e.Rsh(e, 3)
	x := new(big.Int).Exp(x2, e, edP)
	if fmul(x, x).Cmp(x2) != 0 {
		x = fmul(x, edI)
	}
	if fmul(x, x).Cmp(x2) != 0 {
		return nil, false
	}
	if x.Bit(0) != sign {
		x = fsub(big0, x)
	}
	return x, true
}

// EdDecodeZIP215 is the permissive point decoding of ZIP-215. canonical reports
// whether enc is the unique RFC 8032 encoding of the point.
func EdDecodeZIP215(enc []byte) (pt *EdPoint, canonical bool, ok bool) {
	if len(enc) != 32 {
		return nil, false, false
	}
	b := append([]byte{}, enc...)
	sign := uint(b[31] >> 7)
	b[31] &= 0x7f
	yRaw := leInt(b)
	y := new(big.Int).Mod(yRaw, edP)
	x, ok := edRecoverX(y, sign)
	if !ok {
		return nil, false, false
	}
	canonical = yRaw.Cmp(edP) < 0 && !(x.Sign() == 0 && sign == 1)
	return edFromAffine(x, y), canonical, true
}

// EdVerdict is the ZIP-215 verdict with the facts the known-finding predicate needs.
type EdVerdict struct {
	Accept       bool
	Reason       string // why rejected
	ADecoded     bool
	RDecoded     bool
	ACanonical   bool
	RCanonical   bool
	ATorsion     bool // A has a non-trivial 8-torsion component ([L]A != identity) or is the identity/small order
	RTorsion     bool
	ASmallOrder  bool // [8]A == identity
	RSmallOrder  bool
	SCanonical   bool
	Cofactorless bool // [S]B == R + [k]A also holds without the factor 8
}

// EdVerifyZIP215 evaluates the ZIP-215 rules on (pub, msg, sig).
func EdVerifyZIP215(pub, msg, sig []byte) EdVerdict {
	var v EdVerdict
	if len(pub) != 32 || len(sig) != 64 {
		v.Reason = "length"
		return v
	}
	A, ac, ok := EdDecodeZIP215(pub)
	if ok {
		v.ADecoded, v.ACanonical = true, ac
		v.ATorsion = !A.Mul(edL).IsIdentity()
		v.ASmallOrder = A.Mul(big8).IsIdentity()
	}
	R, rc, okR := EdDecodeZIP215(sig[:32])
	if okR {
		v.RDecoded, v.RCanonical = true, rc
		v.RTorsion = !R.Mul(edL).IsIdentity()
		v.RSmallOrder = R.Mul(big8).IsIdentity()
	}
	S := leInt(sig[32:])
	v.SCanonical = S.Cmp(edL) < 0
	if !ok {
		v.Reason = "A_not_on_curve"
		return v
	}
	if !okR {
		v.Reason = "R_not_on_curve"
		return v
	}
	if !v.SCanonical {
		v.Reason = "S_ge_L"
		return v
	}
	h := sha512.New()
	h.Write(sig[:32])
	h.Write(pub)
	h.Write(msg)
	k := leInt(h.Sum(nil))
	k.Mod(k, edL)
	lhs := edB.Mul(S)
	rhs := R.Add(A.Mul(k))
	v.Cofactorless = lhs.Equal(rhs)
	v.Accept = lhs.Mul(big8).Equal(rhs.Mul(big8))
	if !v.Accept {
		v.Reason = "equation"
	}
	return v
}

// EdSign is RFC 8032 §5.1.6 signing from a 32-byte seed (used only to build
// adversarial signatures whose A or R carry a torsion component).
func EdSign(seed, msg []byte) (pub, sig []byte) {
	hh := sha512.Sum512(seed)
	a := edClamp(hh[:32])
	A := edB.Mul(a).Encode()
	h := sha512.New()
	h.Write(hh[32:])
	h.Write(msg)
	r := leInt(h.Sum(nil))
	r.Mod(r, edL)
	R := edB.Mul(r).Encode()
	h = sha512.New()
	h.Write(R)
	h.Write(A)
	h.Write(msg)
	k := leInt(h.Sum(nil))
	k.Mod(k, edL)
	S := new(big.Int).Mul(k, a)
	S.Add(S, r).Mod(S, edL)
	return A, append(R, leBytes(S, 32)...)
}

// edHash is SHA-512(R ‖ A ‖ M) reduced mod L.
func edHash(rEnc, aEnc, msg []byte) *big.Int {
	h := sha512.New()
	h.Write(rEnc)
	h.Write(aEnc)
	h.Write(msg)
	k := leInt(h.Sum(nil))
	return k.Mod(k, edL)
}

// edSeedScalar is the clamped secret scalar of RFC 8032 §5.1.5.
func edSeedScalar(seed []byte) *big.Int {
	hh := sha512.Sum512(seed)
	return edClamp(hh[:32])
}

func edClamp(b []byte) *big.Int {
	c := append([]byte{}, b...)
	c[0] &= 248
	c[31] &= 127
	c[31] |= 64
	return leInt(c)
}

// EdTorsion returns the eight 8-torsion points T_i = [i]T for a generator T of
// the 8-torsion subgroup (found by clearing the prime-order part of an
// arbitrary curve point: [L]P).
func EdTorsion() []*EdPoint {
	for yv := int64(2); ; yv++ {
		y := big.NewInt(yv)
		x, ok := edRecoverX(y, 0)
		if !ok {
			continue
		}
		t := edFromAffine(x, y).Mul(edL)
		if t.Mul(big.NewInt(4)).IsIdentity() { // order < 8: try another point
			continue
		}
		out := make([]*EdPoint, 8)
		out[0] = EdIdentity()
		for i := 1; i < 8; i++ {
			out[i] = out[i-1].Add(t)
		}
		return out
	}
}

// EdEncodings returns every 32-byte string that ZIP-215 decodes to p: the
// canonical one, the one with y+p when y < 19 (non-canonical field element),
// and, when x = 0, both with the sign bit set.
func EdEncodings(p *EdPoint) [][]byte {
	x, y := p.Affine()
	var out [][]byte
	canon := leBytes(y, 32)
	canon[31] |= byte(x.Bit(0)) << 7
	out = append(out, canon)
	if y.Cmp(big.NewInt(19)) < 0 {
		nc := leBytes(new(big.Int).Add(y, edP), 32)
		nc[31] |= byte(x.Bit(0)) << 7
		out = append(out, nc)
	}
	if x.Sign() == 0 {
		n := len(out)
		for i := 0; i < n; i++ {
			e := append([]byte{}, out[i]...)
			e[31] |= 0x80
			out = append(out, e)
		}
	}
	return out
}

// ---------------------------------------------------------------------------
// Deviation oracle for known finding C29-K1 (DESIGN.md §2.5): a second,
// independent verdict function that models EXACTLY the deviation the finding
// describes - "verification has the semantics of Go's crypto/ed25519 (RFC 8032
// §5.1.7 as implemented there) instead of ZIP-215":
//
//  1. A is decoded the way Go's edwards25519.Point.SetBytes decodes it. Which
//     non-canonical encodings that accepts is a parameter (EdDecodeRules); the
//     setting EdGoDecodeRules is established by the self-test against
//     crypto/ed25519 itself (selftest.go: the chosen setting agrees on every
//     generated edge case, each of the three other settings is refuted).
//  2. S MUST be canonical: S < L (Go: sig[63]&224 == 0 and SetCanonicalBytes).
//  3. k = SHA-512(R_bytes ‖ A_bytes ‖ M) mod L over the bytes as received.
//  4. R is NEVER decoded. R' = [S]B - [k]A is computed, encoded canonically and
//     the 32 bytes are compared with sig[:32]: the cofactorLESS equation
//     [S]B = R + [k]A, and a non-canonically encoded R never matches.
//
// The model is written with the same math/big curve arithmetic as the ZIP-215
// reference and does not call crypto/ed25519: it stays a meaningful description
// of the known deviation when gossamer changes the library it calls.
// A verdict of the implementation that differs from ZIP-215 is attributed to
// C29-K1 iff it equals this model's verdict on the same (A, msg, sig).

// EdDecodeRules parameterises which non-canonical point encodings a decoder accepts.
type EdDecodeRules struct {
	NonCanonicalY bool // y in [p, 2^255-1] accepted and reduced mod p
	ZeroXSign     bool // x = 0 with the sign bit set accepted ("negative zero")
}

// EdGoDecodeRules is how Go's crypto/ed25519 decodes the public key A: both
// classes of non-canonical encodings are accepted (validated in SelfTest).
var EdGoDecodeRules = EdDecodeRules{NonCanonicalY: true, ZeroXSign: true}

// edDecodeWith decodes a point under the given rules (RFC 8032 §5.1.3 when both are false).
func edDecodeWith(enc []byte, rules EdDecodeRules) (*EdPoint, bool) {
	if len(enc) != 32 {
		return nil, false
	}
	b := append([]byte{}, enc...)
	sign := uint(b[31] >> 7)
	b[31] &= 0x7f
	y := leInt(b)
	if y.Cmp(edP) >= 0 {
		if !rules.NonCanonicalY {
			return nil, false
		}
		y.Sub(y, edP) // y < 2^255 < 2p
	}
	x, ok := edRecoverX(y, sign)
	if !ok {
		return nil, false
	}
	if x.Sign() == 0 && sign == 1 && !rules.ZeroXSign {
		return nil, false
	}
	return edFromAffine(x, y), true
}

// EdRFCVerdict is the verdict of the RFC 8032 / Go crypto/ed25519 model.
type EdRFCVerdict struct {
	Accept bool
	Reason string // why rejected: length, A_not_decodable, S_ge_L, R_bytes_differ
	RPrime []byte // canonical encoding of [S]B - [k]A (nil when not computed)
}

// refVerifyRFC8032 is the deviation model of C29-K1 with Go's decoding of A.
func refVerifyRFC8032(pub, msg, sig []byte) EdRFCVerdict {
	return refVerifyRFC8032With(pub, msg, sig, EdGoDecodeRules)
}

func refVerifyRFC8032With(pub, msg, sig []byte, rules EdDecodeRules) EdRFCVerdict {
	if len(pub) != 32 || len(sig) != 64 {
		return EdRFCVerdict{Reason: "length"}
	}
	A, ok := edDecodeWith(pub, rules)
	if !ok {
		return EdRFCVerdict{Reason: "A_not_decodable"}
	}
	S := leInt(sig[32:])
	if S.Cmp(edL) >= 0 {
		return EdRFCVerdict{Reason: "S_ge_L"}
	}
	k := edHash(sig[:32], pub, msg)
	rp := edB.Mul(S).Add(A.Neg().Mul(k)).Encode()
	v := EdRFCVerdict{RPrime: rp}
	for i := range rp { // bytes of the signature as received, no decoding of R
		if rp[i] != sig[i] {
			v.Reason = "R_bytes_differ"
			return v
		}
	}
	v.Accept = true
	return v
}

// EdOrder returns the order (1, 2, 4 or 8) of a small-order point, 0 otherwise.
func EdOrder(p *EdPoint) int {
	q := p
	for o := 1; o <= 8; o *= 2 {
		if q.IsIdentity() {
			return o
		}
		q = q.Add(q)
	}
	return 0
}
