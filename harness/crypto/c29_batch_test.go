//go:build verif

package crypto

// C29, third test of the engine: batch signature verification.
//   - lib/crypto.SignatureVerifier (NewSignatureVerifier, Start, Add, Finish, IsStarted, IsInvalid, Reset) driven directly
//     with the three VerifyFunc values the host functions hand to it (ed25519 / sr25519 / secp256k1 VerifySignature)
//   - the `if sigVerifier.IsStarted() { Add; return 1 }` branch of ext_crypto_ed25519_verify_version_1,
//     ext_crypto_sr25519_verify_version_1 / _2 and ext_crypto_ecdsa_verify_version_2, reached by giving the host function a
//     runtime.Context whose SigVerifier has been started
//
// Oracle: Finish() returns true iff every signature that was added is valid under the engine's references (ZIP-215
// math/big verifier for ed25519, SEC 1 math/big verifier with low-s for secp256k1, sign->verify / tampering relations for
// sr25519). Only plain honest / one-bit-tampered / wrong-key signatures are used, and an ed25519 triple on which the
// ZIP-215 reference and the RFC 8032 model disagree (the shape of known finding C29-K1) is discarded and counted.
//
// No verdict depends on time. The group that needs Finish to poll more than once (batch-slow) is sized by work
// (6000 verifications) and runs LAST, because the unrepaired Finish dies there with a process-fatal error.

import (
	"context"
	"fmt"
	"math/big"
	"sync"
	"testing"

	gcrypto "github.com/ChainSafe/gossamer/lib/crypto"
	ged "github.com/ChainSafe/gossamer/lib/crypto/ed25519"
	gsecp "github.com/ChainSafe/gossamer/lib/crypto/secp256k1"
	gsr "github.com/ChainSafe/gossamer/lib/crypto/sr25519"
	"github.com/ChainSafe/gossamer/lib/runtime"
	"github.com/ChainSafe/gossamer/lib/runtime/allocator"
	wz "github.com/ChainSafe/gossamer/lib/runtime/wazero"
	"github.com/ChainSafe/gossamer/zz_verif/vcommon"
)

var batchSchemes = []string{"ed25519", "sr25519", "secp256k1"}

// batchEntry is one signature as a host function would hand it to SignatureVerifier.Add.
type batchEntry struct {
	scheme, kind  string
	pub, msg, sig []byte // SignatureInfo fields (secp256k1: compressed key, 32-byte BLAKE2b-256 digest, r||s)
	pre           []byte // message as the runtime passes it to the host function (secp256k1: hashed by the host function)
	want          bool   // reference verdict
	fn            gcrypto.SigVerifyFunc
}

func (e *batchEntry) witness() map[string]any {
	return map[string]any{"scheme": e.scheme, "kind": e.kind, "pub": hx(e.pub), "msg": hx(e.msg), "sig": hx(e.sig), "reference_valid": e.want}
}

func flipBit(r *vcommon.Rand, b []byte) []byte {
	o := append([]byte{}, b...)
	o[r.Intn(len(o))] ^= 1 << uint(r.Intn(8))
	return o
}

func tamperMsg(r *vcommon.Rand, m []byte) []byte {
	if len(m) == 0 || r.Chance(1, 4) {
		return append(append([]byte{}, m...), byte(r.Intn(256)))
	}
	return flipBit(r, m)
}

// genBatchEntry builds an honest (valid) or a plainly broken signature and asks the reference for its verdict.
func genBatchEntry(c *vcommon.Case, r *vcommon.Rand, scheme string, valid bool) *batchEntry {
	for try := 0; try < 16; try++ {
		e := &batchEntry{scheme: scheme, kind: "honest"}
		t := r.Intn(3)
		switch scheme {
		case "ed25519":
			kp, err := ged.NewKeypairFromSeed(r.Bytes(32))
			if err != nil {
				continue
			}
			e.msg = r.Bytes(msgLen(r))
			e.pub = kp.Public().Encode()
			e.sig, err = kp.Sign(e.msg)
			if err != nil {
				continue
			}
			if !valid {
				switch t {
				case 0:
					e.kind, e.msg = "tampered_msg", tamperMsg(r, e.msg)
				case 1:
					e.kind, e.pub = "tampered_pub", flipBit(r, e.pub)
				default:
					e.kind, e.sig = "tampered_sig", flipBit(r, e.sig)
				}
			}
			z, m := EdVerifyZIP215(e.pub, e.msg, e.sig), refVerifyRFC8032(e.pub, e.msg, e.sig)
			if z.Accept != m.Accept { // C29-K1 territory: not used here
				c.Count("batch_ed_k1_shape_discarded", 1)
				continue
			}
			e.want, e.pre, e.fn = z.Accept, e.msg, ged.VerifySignature
		case "sr25519":
			kp, err := gsr.NewKeypairFromSeed(r.Bytes(32))
			if err != nil {
				continue
			}
			e.msg = r.Bytes(msgLen(r))
			e.pub = kp.Public().Encode()
			e.sig, err = kp.Sign(e.msg)
			if err != nil || len(e.sig) != 64 {
				continue
			}
			if !valid {
				switch t {
				case 0:
					e.kind, e.msg = "tampered_msg", tamperMsg(r, e.msg)
				case 1:
					e.kind, e.pub = "tampered_pub", flipBit(r, e.pub)
				default: // never the schnorrkel marker bit (legacy rules of verify_deprecated are not asserted by this engine)
					e.kind, e.sig = "tampered_sig", append([]byte{}, e.sig...)
					if i := r.Intn(64); i == 63 {
						e.sig[i] ^= 1 << uint(r.Intn(7))
					} else {
						e.sig[i] ^= 1 << uint(r.Intn(8))
					}
				}
			}
			e.want, e.pre, e.fn = valid, e.msg, gsr.VerifySignature // metamorphic expectation (no independent schnorrkel)
		case "secp256k1":
			d := randModN(r)
			e.pre = r.Bytes(msgLen(r))
			q := SkPub(d)
			rs, recid, ok := SkSign(d, RefBlake2b(e.pre, 32), randModN(r))
			if !ok {
				continue
			}
			if new(big.Int).SetBytes(rs[32:]).Cmp(SkHalfN) > 0 {
				rs, _ = SkFlipS(rs, recid)
			}
			e.sig = rs
			if !valid {
				switch t {
				case 0:
					e.kind, e.pre = "tampered_msg", tamperMsg(r, e.pre)
				case 1:
					e.kind, q = "other_key", SkPub(randModN(r))
				default:
					e.kind, e.sig = "tampered_sig", flipBit(r, e.sig)
				}
			}
			e.pub = q.Compressed()
			e.msg = RefBlake2b(e.pre, 32)
			pq, _, okp := SkParsePub(e.pub)
			if okp {
				e.want, _ = SkVerify(pq, e.msg, e.sig, true)
			}
			e.fn = gsecp.VerifySignature
		}
		c.Count("batch_entry_"+scheme, 1)
		c.Count("batch_entry_kind_"+e.kind, 1)
		if e.want {
			c.Count("batch_entry_ref_valid", 1)
		} else {
			c.Count("batch_entry_ref_invalid", 1)
		}
		if e.want != valid {
			c.Count("batch_entry_ref_differs_from_intent", 1) // e.g. a bit flip the reference does not mind; the reference decides
		}
		return e
	}
	return nil
}

// batchObs records, per batch entry, what the worker's call of the real VerifyFunc returned.
type batchObs struct {
	mu                sync.Mutex
	state             []int8 // 0 not verified, 1 verified valid, 2 verified invalid
	nValid, nInvalid  int
	calledAfterFinish bool
	finished          bool
}

func (o *batchObs) wrap(i int, f gcrypto.SigVerifyFunc) gcrypto.SigVerifyFunc {
	return func(pub, sig, msg []byte) error {
		err := f(pub, sig, msg)
		o.mu.Lock()
		defer o.mu.Unlock()
		if o.finished {
			o.calledAfterFinish = true
		}
		s := int8(1)
		if err != nil {
			s = 2
			o.nInvalid++
		} else {
			o.nValid++
		}
		if i >= 0 && i < len(o.state) {
			o.state[i] = s
		}
		return err
	}
}

func (o *batchObs) markFinished() {
	o.mu.Lock()
	o.finished = true
	o.mu.Unlock()
}

func batchInfo(e *batchEntry, f gcrypto.SigVerifyFunc) *gcrypto.SignatureInfo {
	return &gcrypto.SignatureInfo{
		PubKey: append([]byte{}, e.pub...), Sign: append([]byte{}, e.sig...), Msg: append([]byte{}, e.msg...), VerifyFunc: f,
	}
}

func batchWitness(label string, entries []*batchEntry) map[string]any {
	w := map[string]any{"steps": label}
	var l []any
	for _, e := range entries {
		l = append(l, e.witness())
	}
	w["entries"] = l
	return w
}

// judgeBatch compares Finish's result with the reference verdicts of the entries that were added.
func judgeBatch(c *vcommon.Case, label string, sv *gcrypto.SignatureVerifier, entries []*batchEntry, o *batchObs, got bool) {
	want, first, nInv := true, -1, 0
	for i, e := range entries {
		if !e.want {
			want = false
			nInv++
			if first < 0 {
				first = i
			}
		}
	}
	w := batchWitness(label, entries)
	w["finish"], w["reference_all_valid"] = got, want
	c.Eval(1)
	c.Count("batch_finish_calls", 1)
	if got != want {
		c.Violation("batch-verdict", fmt.Sprintf("SignatureVerifier.Finish() = %v, but the reference says all-valid = %v (%d of %d added signatures invalid, first at %d)", got, want, nInv, len(entries), first), w)
	}
	if want {
		c.Count("batch_all_valid", 1)
		if got {
			c.Count("batch_all_valid_finish_true", 1)
		}
	} else {
		c.Count("batch_has_invalid", 1)
		if !got {
			c.Count("batch_has_invalid_finish_false", 1)
		}
	}
	if o != nil {
		o.mu.Lock()
		st := append([]int8{}, o.state...)
		late := o.calledAfterFinish
		o.mu.Unlock()
		skipped := 0
		for i, e := range entries {
			switch st[i] {
			case 0:
				skipped++
				if got { // true was returned although this signature was never checked
					c.Violation("batch-finish-true-unverified", fmt.Sprintf("Finish() = true but entry %d of %d was never verified", i, len(entries)), w)
				}
			default:
				c.Eval(1)
				c.Count("batch_entry_verified", 1)
				if (st[i] == 1) != e.want {
					w["entry"] = i
					c.Violation("batch-entry-verdict", fmt.Sprintf("%s VerifySignature inside the batch said valid=%v for entry %d, reference %v", e.scheme, st[i] == 1, i, e.want), w)
				}
			}
		}
		if skipped > 0 {
			c.Count("batch_entries_not_verified_after_invalid", skipped) // the worker stops at the first failure: not a verdict
		}
		if late {
			c.Count("batch_verify_called_after_finish_returned", 1) // ambiguous: counted only
		}
	}
	// "Wait till start function to finish and then reset it": ready for reuse
	c.Eval(1)
	if sv.IsStarted() || sv.IsInvalid() {
		c.Violation("batch-not-reset", fmt.Sprintf("after Finish: IsStarted=%v IsInvalid=%v (Finish resets the verifier for reuse)", sv.IsStarted(), sv.IsInvalid()), w)
	}
	pos := "none"
	switch {
	case first == 0 && len(entries) == 1:
		pos = "single"
	case first == 0:
		pos = "first"
	case first == len(entries)-1:
		pos = "last"
	case first > 0:
		pos = "middle"
	}
	if nInv == 1 {
		c.Count("batch_one_invalid_"+pos, 1)
	}
	mask := map[string]bool{}
	for _, e := range entries {
		mask[e.scheme] = true
	}
	c.Distinct(fmt.Sprintf("batch/%s/n%d/inv%d/%s/schemes%d", label, len(entries), nInv, pos, len(mask)))
}

// runBatch: Start, Add every entry (wrapped VerifyFunc), Finish.
func runBatch(c *vcommon.Case, label string, sv *gcrypto.SignatureVerifier, entries []*batchEntry) {
	o := &batchObs{state: make([]int8, len(entries))}
	var got bool
	if p := guard(func() {
		sv.Start()
		if !sv.IsStarted() {
			c.Violation("batch-not-started", "IsStarted() = false after Start()", nil)
		}
		for i, e := range entries {
			sv.Add(batchInfo(e, o.wrap(i, e.fn)))
		}
		got = sv.Finish()
		o.markFinished()
	}); p != "" {
		w := batchWitness(label, entries)
		w["panic"] = p
		c.Violation("panic", "SignatureVerifier panicked", w)
		return
	}
	judgeBatch(c, label, sv, entries, o, got)
}

// batchShape returns the validity pattern of a batch of n entries.
func batchShape(r *vcommon.Rand, n int) (string, []bool) {
	v := make([]bool, n)
	for i := range v {
		v[i] = true
	}
	switch r.Intn(10) {
	case 0, 1, 2, 3:
		return "all_valid", v
	case 4:
		v[0] = false
		return "invalid_first", v
	case 5:
		v[n-1] = false
		return "invalid_last", v
	case 6:
		v[r.Intn(n)] = false
		return "invalid_one", v
	case 7:
		for i := range v {
			v[i] = false
		}
		return "all_invalid", v
	}
	for i := range v {
		v[i] = !r.Chance(1, 3)
	}
	v[r.Intn(n)] = false
	return "several_invalid", v
}

func genBatch(c *vcommon.Case, valid []bool) []*batchEntry {
	var out []*batchEntry
	for _, ok := range valid {
		e := genBatchEntry(c, c.R, vcommon.Pick(c.R, batchSchemes), ok)
		if e == nil {
			return nil
		}
		out = append(out, e)
	}
	return out
}

// hostBatchAdd calls a verify host function with a runtime context whose SigVerifier is sv. Every entry gets its own
// region of wasm memory: the host function hands VIEWS of wasm memory to the verifier (counted as a caveat, not judged).
func (h *HostEnv) hostBatchAdd(sv *gcrypto.SignatureVerifier, slot int, name string, sig, msg, key []byte) uint32 {
	base := uint32(0x10000 + slot*0x800)
	h.put(base, make([]byte, 0x800))
	h.put(base, sig)
	h.put(base+0x100, key)
	h.put(base+0x200, msg)
	rc := &runtime.Context{Allocator: allocator.NewFreeingBumpHeapAllocator(hostHeap), SigVerifier: sv}
	ctx := context.WithValue(context.Background(), wz.VerifContextKey, rc)
	return wz.VerifVerify[name](ctx, h.mod, base, span(base+0x200, len(msg)), base+0x100)
}

const (
	batchSlowN    = 6000 // verifications per slow batch: far more work than one 100 ms poll interval of Finish
	batchSlowPool = 24
)

func TestVerifC29Batch(t *testing.T) {
	r := vcommon.Start(t, "C29")
	defer r.Finish()
	defer func() { host = nil }() // TestVerifC29Core runs next in this process and expects no host environment
	// Same process, next function (file order): TestVerifC29Core. Once this function has written its summary the driver
	// cannot notice a process-fatal error in the next one; its completion marker is therefore floored here.
	r.Floor("core_run_completed", r.Shards)
	bad := SelfTest()
	r.Fixed("batch-selftest", r.Shards, func(c *vcommon.Case) {
		c.Eval(1)
		if bad != "" {
			c.Inconclusive("reference self-validation failed: " + bad)
			return
		}
		c.Count("batch_selftest_ok", 1)
	})
	if bad != "" {
		return
	}
	r.Floor("batch_selftest_ok", 1)
	r.Floor("batch_finish_calls", 250)
	r.Floor("batch_all_valid_finish_true", 80)
	r.Floor("batch_has_invalid_finish_false", 100)
	r.Floor("batch_empty_finish_true", 2)
	r.Floor("batch_one_invalid_single", 3)
	r.Floor("batch_one_invalid_first", 10)
	r.Floor("batch_one_invalid_last", 10)
	r.Floor("batch_one_invalid_middle", 5)
	r.Floor("batch_entry_ed25519", 200)
	r.Floor("batch_entry_sr25519", 200)
	r.Floor("batch_entry_secp256k1", 200)
	r.Floor("batch_entry_ref_valid", 500)
	r.Floor("batch_entry_ref_invalid", 150)
	r.Floor("batch_entry_verified", 500)
	r.Floor("batch_state_isinvalid_true", 30)
	r.Floor("batch_state_finish_false", 30)
	r.Floor("batch_reuse_after_invalid_true", 30)
	r.Floor("batch_host_added", 150)
	r.Floor("batch_host_ed25519_verify_1_added", 20)
	r.Floor("batch_host_sr25519_verify_1_added", 10)
	r.Floor("batch_host_sr25519_verify_2_added", 10)
	r.Floor("batch_host_ecdsa_verify_2_added", 20)
	r.Floor("batch_host_all_valid_true", 10)
	r.Floor("batch_host_has_invalid_false", 15)
	r.Floor("batch_slow_verified", 2*batchSlowN)
	r.Floor("batch_slow_all_valid_true", 1)
	r.Floor("batch_slow_invalid_last_false", 1)

	var herr error
	host, herr = NewHostEnv()
	r.Fixed("batch-host-setup", r.Shards, func(c *vcommon.Case) {
		c.Eval(1)
		if herr != nil {
			host = nil
			c.Inconclusive("cannot set up the host-function environment: " + herr.Error())
			return
		}
		c.Count("batch_host_env_ok", 1)
	})
	r.Floor("batch_host_env_ok", 1)

	// ---- fixed shapes: empty batch, a single signature, the invalid one first / last, all invalid
	type fixedShape struct {
		name   string
		scheme string // "" = mixed
		valid  []bool
	}
	var shapes []fixedShape
	shapes = append(shapes, fixedShape{"empty", "", nil}, fixedShape{"empty_finish_without_start", "", nil})
	for _, s := range batchSchemes {
		shapes = append(shapes,
			fixedShape{"single_valid", s, []bool{true}},
			fixedShape{"single_invalid", s, []bool{false}},
			fixedShape{"invalid_first", s, []bool{false, true, true, true, true, true}},
			fixedShape{"invalid_last", s, []bool{true, true, true, true, true, false}},
			fixedShape{"all_valid", s, []bool{true, true, true, true, true, true}},
		)
	}
	shapes = append(shapes,
		fixedShape{"invalid_first", "", []bool{false, true, true, true, true, true, true, true, true}},
		fixedShape{"invalid_last", "", []bool{true, true, true, true, true, true, true, true, false}},
		fixedShape{"invalid_middle", "", []bool{true, true, true, true, false, true, true, true, true}},
		fixedShape{"all_invalid", "", []bool{false, false, false, false, false, false}},
		fixedShape{"all_valid", "", []bool{true, true, true, true, true, true, true, true, true, true, true, true}},
	)
	r.Fixed("batch-fixed", len(shapes), func(c *vcommon.Case) {
		sh := shapes[c.Idx]
		sv := gcrypto.NewSignatureVerifier(nopLogger{})
		c.Count("batch_fixed_"+sh.name, 1)
		if sh.name == "empty_finish_without_start" { // not documented: counted, never judged
			var got bool
			if p := guard(func() { got = sv.Finish() }); p != "" {
				c.Violation("panic", "Finish() on a fresh verifier panicked", map[string]any{"panic": p})
				return
			}
			c.Eval(1)
			c.Count(fmt.Sprintf("batch_finish_without_start_%v", got), 1)
			return
		}
		var entries []*batchEntry
		for i, ok := range sh.valid {
			s := sh.scheme
			if s == "" {
				s = batchSchemes[i%3]
			}
			e := genBatchEntry(c, c.R, s, ok)
			if e == nil {
				c.Inconclusive("could not generate a signature")
				return
			}
			entries = append(entries, e)
		}
		runBatch(c, "fixed/"+sh.name, sv, entries)
		if len(entries) == 0 && !c.Failed() {
			c.Count("batch_empty_finish_true", 1)
			// an empty batch again on the same verifier
			runBatch(c, "fixed/empty_again", sv, nil)
			if !c.Failed() {
				c.Count("batch_empty_finish_true", 1)
			}
		}
	})

	// ---- random batches, fresh verifier or the same verifier for two batches
	r.Cases("batch-rand", r.Scale(140), func(c *vcommon.Case) {
		sv := gcrypto.NewSignatureVerifier(nopLogger{})
		rounds := 1
		if c.R.Chance(1, 3) {
			rounds = 2
		}
		for k := 0; k < rounds; k++ {
			name, valid := batchShape(c.R, c.R.Range(1, 12))
			entries := genBatch(c, valid)
			if entries == nil {
				c.Inconclusive("could not generate a signature")
				return
			}
			c.Count("batch_rand_shape_"+name, 1)
			if k > 0 {
				c.Count("batch_rand_second_batch_same_verifier", 1)
			}
			runBatch(c, fmt.Sprintf("rand/%s/round%d", name, k), sv, entries)
			if c.Failed() {
				return
			}
		}
		if c.Idx < 3 {
			c.Sample(map[string]any{"group": "batch-rand", "rounds": rounds})
		}
	})

	// ---- state after a failure: worker stops, IsInvalid() is set, later Adds are ignored, Finish() = false, Reset => reusable
	r.Cases("batch-state", r.Scale(48), func(c *vcommon.Case) {
		n := c.R.Range(1, 8)
		valid := make([]bool, n)
		for i := range valid {
			valid[i] = true
		}
		valid[c.R.Intn(n)] = false
		entries := genBatch(c, valid)
		extra := genBatchEntry(c, c.R, vcommon.Pick(c.R, batchSchemes), true)
		allTrue := make([]bool, c.R.Range(1, 5))
		for i := range allTrue {
			allTrue[i] = true
		}
		again := genBatch(c, allTrue)
		if entries == nil || extra == nil || again == nil {
			c.Inconclusive("could not generate a signature")
			return
		}
		for _, e := range again {
			if !e.want {
				c.Count("batch_state_skipped_no_valid_entry", 1)
				return
			}
		}
		hasInvalid := false
		for _, e := range entries {
			hasInvalid = hasInvalid || !e.want
		}
		if !hasInvalid || !extra.want {
			c.Count("batch_state_skipped_reference_says_valid", 1)
			return
		}
		sv := gcrypto.NewSignatureVerifier(nopLogger{})
		all := append(append([]*batchEntry{}, entries...), extra)
		o := &batchObs{state: make([]int8, len(all))}
		var got bool
		if p := guard(func() {
			sv.Start()
			for i, e := range entries {
				sv.Add(batchInfo(e, o.wrap(i, e.fn)))
			}
			// the worker verifies in order and returns at the first failure: wait for it through the embedded WaitGroup
			sv.Wait()
			c.Eval(1)
			if !sv.IsInvalid() {
				c.Violation("batch-invalid-flag", "the worker stopped on an invalid signature but IsInvalid() = false", batchWitness("state", entries))
			} else {
				c.Count("batch_state_isinvalid_true", 1)
			}
			sv.Add(batchInfo(extra, o.wrap(len(entries), extra.fn))) // "if sv.IsInvalid() { return }"
			got = sv.Finish()
			o.markFinished()
		}); p != "" {
			c.Violation("panic", "SignatureVerifier panicked", map[string]any{"panic": p})
			return
		}
		if o.state[len(entries)] == 0 {
			c.Count("batch_state_add_after_invalid_not_verified", 1)
		} else {
			c.Count("batch_state_add_after_invalid_verified", 1)
		}
		// the extra (valid) signature does not change the expectation
		judgeBatch(c, "state/after_invalid", sv, all, o, got)
		if c.Failed() {
			return
		}
		if !got {
			c.Count("batch_state_finish_false", 1)
		}
		runBatch(c, "state/reuse_all_valid", sv, again)
		if !c.Failed() {
			c.Count("batch_reuse_after_invalid_true", 1)
		}
	})

	// ---- the batch branch of the four verify host functions
	r.Cases("batch-host", r.Scale(60), func(c *vcommon.Case) {
		if host == nil {
			c.Inconclusive("no host environment")
			return
		}
		name, valid := batchShape(c.R, c.R.Range(1, 10))
		entries := genBatch(c, valid)
		if entries == nil {
			c.Inconclusive("could not generate a signature")
			return
		}
		sv := gcrypto.NewSignatureVerifier(nopLogger{})
		var added []*batchEntry
		var got bool
		w := batchWitness("host/"+name, entries)
		if p := guard(func() {
			sv.Start()
			for i, e := range entries {
				fn := map[string]string{"ed25519": "ed25519_verify_1", "secp256k1": "ecdsa_verify_2", "sr25519": "sr25519_verify_2"}[e.scheme]
				if e.scheme == "sr25519" && c.R.Bool() {
					fn = "sr25519_verify_1"
				}
				ret := host.hostBatchAdd(sv, i, fn, e.sig, e.pre, e.pub)
				c.Eval(1)
				switch {
				case ret == 1: // "if sigVerifier.IsStarted() { Add; return 1 }"
					added = append(added, e)
					c.Count("batch_host_added", 1)
					c.Count("batch_host_"+fn+"_added", 1)
				case ret == 0 && !e.want: // refused before the batch (key does not decode): not part of the batch
					c.Count("batch_host_refused_before_add", 1)
				default:
					w["entry"], w["host_function"], w["returned"] = i, fn, ret
					c.Violation("batch-host-add", fmt.Sprintf("ext_crypto_%s returned %d for entry %d while a batch is open (reference valid=%v)", fn, ret, i, e.want), w)
				}
			}
			got = sv.Finish()
		}); p != "" {
			w["panic"] = p
			c.Violation("panic", "host function / SignatureVerifier panicked", w)
			return
		}
		judgeBatch(c, "host/"+name, sv, added, nil, got)
		allValid := true
		for _, e := range added {
			allValid = allValid && e.want
		}
		if !c.Failed() {
			if allValid {
				c.Count("batch_host_all_valid_true", 1)
			} else {
				c.Count("batch_host_has_invalid_false", 1)
			}
		}
	})

	// ---- LAST: batches that Finish cannot see drained at its first poll (sized by work, not by a clock)
	r.Fixed("batch-slow", 2, func(c *vcommon.Case) {
		var pool []*batchEntry
		for i := 0; i < batchSlowPool; i++ {
			e := genBatchEntry(c, c.R, batchSchemes[i%3], true)
			if e == nil || !e.want {
				c.Inconclusive("could not generate a valid signature")
				return
			}
			pool = append(pool, e)
		}
		var last *batchEntry
		if c.Idx == 1 {
			last = genBatchEntry(c, c.R, batchSchemes[c.R.Intn(3)], false)
			if last == nil || last.want {
				c.Inconclusive("could not generate an invalid signature")
				return
			}
		}
		sv := gcrypto.NewSignatureVerifier(nopLogger{})
		o := &batchObs{}
		var got bool
		w := batchWitness(fmt.Sprintf("slow: Start, Add pool[i %% %d] for i < %d, then the invalid entry if any, Finish", batchSlowPool, batchSlowN), pool)
		if last != nil {
			w["invalid_last_entry"] = last.witness()
		}
		if p := guard(func() {
			sv.Start()
			for i := 0; i < batchSlowN; i++ {
				e := pool[i%len(pool)]
				sv.Add(batchInfo(e, o.wrap(-1, e.fn)))
			}
			if last != nil {
				sv.Add(batchInfo(last, o.wrap(-1, last.fn)))
			}
			got = sv.Finish()
			o.markFinished()
		}); p != "" {
			w["panic"] = p
			c.Violation("panic", "SignatureVerifier panicked", w)
			return
		}
		o.mu.Lock()
		nv, ni := o.nValid, o.nInvalid
		o.mu.Unlock()
		w["finish"], w["verified_valid"], w["verified_invalid"] = got, nv, ni
		c.Eval(2)
		c.Count("batch_slow_verified", nv+ni)
		c.Count("batch_finish_calls", 1)
		want := last == nil
		if got != want {
			c.Violation("batch-verdict", fmt.Sprintf("Finish() = %v on a batch of %d valid signatures%s", got, batchSlowN, map[bool]string{true: "", false: " followed by an invalid one"}[want]), w)
		}
		if nv != batchSlowN || (last != nil && ni != 1) || (last == nil && ni != 0) {
			c.Violation("batch-finish-true-unverified", fmt.Sprintf("Finish() returned %v after %d valid / %d invalid verifications; added: %d valid, then %d invalid", got, nv, ni, batchSlowN, map[bool]int{true: 0, false: 1}[want]), w)
		}
		c.Eval(1)
		if sv.IsStarted() || sv.IsInvalid() {
			c.Violation("batch-not-reset", "after Finish the verifier is not reset", w)
		}
		if !c.Failed() {
			if want {
				c.Count("batch_slow_all_valid_true", 1)
			} else {
				c.Count("batch_slow_invalid_last_false", 1)
			}
		}
		c.Distinct(fmt.Sprintf("batch/slow/%v", want))
		c.Sample(map[string]any{"group": "batch-slow", "added": batchSlowN, "invalid_last": last != nil, "finish": got, "verified_valid": nv, "verified_invalid": ni})
	})
}
