//go:build verif

package lrucache

// Injected by /verif (engine sync, extra run TestVerifC35Seen of property C35; same file as engine conc) through go's -overlay; never
// part of the repository tree.

import (
	"fmt"
	"math/rand/v2"
	"runtime"
	"time"
)

// verifYieldPct is written only while no worker goroutine runs (the harness
// sets it between cases), so the plain reads in verifYield are ordered by the
// go statement that starts the workers. No atomics on purpose: an atomic here
// would add happens-before edges and hide races from the detector.
var verifYieldPct int

// VerifSetYield sets the probability (percent) with which verifYield
// reschedules the calling goroutine.
func VerifSetYield(pct int) { verifYieldPct = pct }

// verifYield is inserted at build time (engine.json "instrument") in front of
// the recency-list operations of a COPY of lru_cache.go to widen the window
// between the map lookup and the list mutation.
func verifYield() {
	p := verifYieldPct
	if p <= 0 {
		return
	}
	x := int(rand.Uint32() % 100)
	switch {
	case x < p:
		runtime.Gosched()
	case x < p+p/8:
		time.Sleep(5 * time.Microsecond)
	}
}

// VerifCheck inspects the structure under the cache's own write lock and
// returns "" when list and map agree: list length == map size <= capacity,
// every list element is the map entry of its key, keys are distinct and the
// forward and backward walks see the same number of elements.
func (c *LRUCache[K, V]) VerifCheck() string {
	c.Lock()
	defer c.Unlock()
	n := c.lruList.Len()
	if n != len(c.cache) {
		return fmt.Sprintf("list length %d != map size %d", n, len(c.cache))
	}
	if uint(len(c.cache)) > c.capacity {
		return fmt.Sprintf("map size %d > capacity %d", len(c.cache), c.capacity)
	}
	seen := make(map[K]bool, n)
	fwd := 0
	for e := c.lruList.Front(); e != nil && fwd <= n+1; e = e.Next() {
		ent, ok := e.Value.(*Entry[K, V])
		if !ok || ent == nil {
			return fmt.Sprintf("list element %d holds %T", fwd, e.Value)
		}
		if seen[ent.key] {
			return fmt.Sprintf("key %v twice in the recency list", ent.key)
		}
		seen[ent.key] = true
		if c.cache[ent.key] != e {
			return fmt.Sprintf("map entry of key %v is not its list element", ent.key)
		}
		fwd++
	}
	if fwd != n {
		return fmt.Sprintf("forward walk saw %d elements, list length %d", fwd, n)
	}
	bwd := 0
	for e := c.lruList.Back(); e != nil && bwd <= n+1; e = e.Prev() {
		bwd++
	}
	if bwd != n {
		return fmt.Sprintf("backward walk saw %d elements, list length %d", bwd, n)
	}
	return ""
}

// VerifOrder returns the keys from most to least recently used (bounded walk).
func (c *LRUCache[K, V]) VerifOrder() []K {
	c.Lock()
	defer c.Unlock()
	var ks []K
	lim := len(c.cache) + 2
	for e := c.lruList.Front(); e != nil && len(ks) < lim; e = e.Next() {
		if ent, ok := e.Value.(*Entry[K, V]); ok && ent != nil {
			ks = append(ks, ent.key)
		}
	}
	return ks
}
