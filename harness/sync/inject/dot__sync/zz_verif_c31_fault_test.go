//go:build verif

package sync

// C31, fault-injection family of the serving check.
//
// The SyncService reads the chain through the BlockState interface of this
// package. c31Fault wraps the REAL state.BlockState of a world and makes the
// N-th call of one chosen method fail with a database-style error (once, or
// from the N-th call on: "history below this point is missing"). For every
// generated request the family first runs the request over a counting-only
// wrapper (which methods are called, with which arguments, how long the
// response would be) and then re-runs it once per (method, N), N chosen so that
// the fault hits the 1st, the 2nd, a middle and the last block of the would-be
// response (plus the very first and the very last call of the method).
//
// Oracle (only what the property states): a request that is SERVED (nil error)
// under a fault is judged by the same c31Judge as a fault-free one - a gap-free
// parent-linked chain of blocks of the harness tree, starting at the requested
// block, in the requested direction, no longer than min(max,128), no nil
// entries, exactly the requested fields - with one difference taken from the
// unchanged getBlockData, which ignores a failing field lookup: a requested
// field may be missing from a block exactly when the harness made that lookup
// fail for that block (counted). The response must Encode without a panic and
// decode back to itself. An error instead of a response is a legal outcome
// (counted per method); a shorter gap-free prefix would be legal too (counted).

import (
	"errors"
	"fmt"
	"sort"

	"github.com/ChainSafe/gossamer/dot/network/messages"
	"github.com/ChainSafe/gossamer/dot/types"
	"github.com/ChainSafe/gossamer/internal/database"
	"github.com/ChainSafe/gossamer/lib/common"
	"github.com/ChainSafe/gossamer/zz_verif/vcommon"
	"github.com/libp2p/go-libp2p/core/peer"
)

var errC31Injected = errors.New("verif: injected database failure (input/output error)")

// c31FaultMethods: every BlockState method the fake can fail, in a fixed order.
var c31FaultMethods = []string{"BestBlockNumber", "BestBlockHeader", "HasHeader", "GetHeader", "GetHeaderByNumber", "GetHashByNumber",
	"GetAllBlocksAtNumber", "IsDescendantOf", "Range", "RangeInMemory", "GetBlockByHash", "GetBlockBody", "GetReceipt",
	"GetMessageQueue", "GetJustification"}

// c31Call is the argument of one recorded BlockState call.
type c31Call struct {
	kind byte // 'h': a block hash, 'n': a block number, '-': neither (range / best block)
	hash common.Hash
	num  uint
}

func (a c31Call) String() string {
	switch a.kind {
	case 'h':
		return "hash " + short(a.hash)
	case 'n':
		return fmt.Sprintf("number %d", a.num)
	}
	return "-"
}

type c31Lookup struct {
	method string
	hash   common.Hash
}

// c31Fault delegates to the embedded BlockState and fails call number failAt
// (1-based) of method (every later call too when sticky). method == "" only
// counts and records.
type c31Fault struct {
	BlockState
	method   string
	failAt   int
	sticky   bool
	notFound bool // flavour of the error: database.ErrNotFound instead of an I/O error

	calls    map[string]int
	log      map[string][]c31Call // per method: arguments in call order
	fired    int
	firstHit c31Call
	failed   map[c31Lookup]bool // by-hash lookups the fake made fail
	okd      map[c31Lookup]bool // by-hash lookups that were answered by the real state without error
	omitted  map[string]int     // written by c31Judge: requested fields missing because their lookup was failed
	posClass string             // where the fault hit the would-be response (witness only)
}

func newC31Fault(bs BlockState, method string, failAt int, sticky, notFound bool) *c31Fault {
	return &c31Fault{BlockState: bs, method: method, failAt: failAt, sticky: sticky, notFound: notFound,
		calls: map[string]int{}, log: map[string][]c31Call{}, failed: map[c31Lookup]bool{}, okd: map[c31Lookup]bool{},
		omitted: map[string]int{}}
}

func (f *c31Fault) trip(method string, a c31Call) bool {
	f.calls[method]++
	f.log[method] = append(f.log[method], a)
	if method != f.method || f.failAt < 1 {
		return false
	}
	n := f.calls[method]
	if n == f.failAt || f.sticky && n > f.failAt {
		if f.fired == 0 {
			f.firstHit = a
		}
		f.fired++
		if a.kind == 'h' {
			f.failed[c31Lookup{method, a.hash}] = true
		}
		return true
	}
	return false
}

func (f *c31Fault) fail() error {
	if f.notFound {
		return fmt.Errorf("verif: injected failure: %w", database.ErrNotFound)
	}
	return errC31Injected
}

func (f *c31Fault) answered(method string, h common.Hash, err error) {
	if err == nil {
		f.okd[c31Lookup{method, h}] = true
	}
}

// nil-safe accessors used by c31Judge / c31ServeX (flt == nil: fault-free run)
func (f *c31Fault) resetOmitted() {
	if f != nil {
		f.omitted = map[string]int{}
	}
}
func (f *c31Fault) omit(field string) {
	if f != nil {
		f.omitted[field]++
	}
}
func (f *c31Fault) lookupFailed(method string, h common.Hash) bool {
	return f != nil && f.failed[c31Lookup{method, h}]
}

// onlyFailed: the dedicated lookup for this block was failed and nothing that carries the field was answered.
func (f *c31Fault) onlyFailed(method string, h common.Hash) bool {
	return f != nil && f.failed[c31Lookup{method, h}] && !f.okd[c31Lookup{method, h}] && !f.okd[c31Lookup{"GetBlockByHash", h}]
}
func (f *c31Fault) witness(w *c31World, m map[string]any) map[string]any {
	if f == nil || f.method == "" {
		return m
	}
	m["fault_method"] = f.method
	m["fault_call_N"] = f.failAt
	m["fault_sticky"] = f.sticky
	m["fault_fired"] = f.fired
	if f.fired > 0 {
		m["fault_first_hit_arg"] = f.firstHit.String()
	}
	if f.posClass != "" {
		m["fault_position_in_would_be_response"] = f.posClass
	}
	if f.notFound {
		m["fault_error"] = "database.ErrNotFound"
	} else {
		m["fault_error"] = errC31Injected.Error()
	}
	return m
}

// ---- the wrapped methods (everything else goes straight to the embedded state)

func (f *c31Fault) BestBlockNumber() (uint, error) {
	if f.trip("BestBlockNumber", c31Call{kind: '-'}) {
		return 0, f.fail()
	}
	return f.BlockState.BestBlockNumber()
}

func (f *c31Fault) BestBlockHeader() (*types.Header, error) {
	if f.trip("BestBlockHeader", c31Call{kind: '-'}) {
		return nil, f.fail()
	}
	return f.BlockState.BestBlockHeader()
}

func (f *c31Fault) HasHeader(h common.Hash) (bool, error) {
	if f.trip("HasHeader", c31Call{kind: 'h', hash: h}) {
		return false, f.fail()
	}
	return f.BlockState.HasHeader(h)
}

func (f *c31Fault) GetHeader(h common.Hash) (*types.Header, error) {
	if f.trip("GetHeader", c31Call{kind: 'h', hash: h}) {
		return nil, f.fail()
	}
	v, err := f.BlockState.GetHeader(h)
	f.answered("GetHeader", h, err)
	return v, err
}

func (f *c31Fault) GetHeaderByNumber(n uint) (*types.Header, error) {
	if f.trip("GetHeaderByNumber", c31Call{kind: 'n', num: n}) {
		return nil, f.fail()
	}
	return f.BlockState.GetHeaderByNumber(n)
}

func (f *c31Fault) GetHashByNumber(n uint) (common.Hash, error) {
	if f.trip("GetHashByNumber", c31Call{kind: 'n', num: n}) {
		return common.Hash{}, f.fail()
	}
	return f.BlockState.GetHashByNumber(n)
}

func (f *c31Fault) GetAllBlocksAtNumber(n uint) ([]common.Hash, error) {
	if f.trip("GetAllBlocksAtNumber", c31Call{kind: 'n', num: n}) {
		return nil, f.fail()
	}
	return f.BlockState.GetAllBlocksAtNumber(n)
}

func (f *c31Fault) IsDescendantOf(parent, child common.Hash) (bool, error) {
	if f.trip("IsDescendantOf", c31Call{kind: '-'}) {
		return false, f.fail()
	}
	return f.BlockState.IsDescendantOf(parent, child)
}

func (f *c31Fault) Range(a, b common.Hash) ([]common.Hash, error) {
	if f.trip("Range", c31Call{kind: '-'}) {
		return nil, f.fail()
	}
	return f.BlockState.Range(a, b)
}

func (f *c31Fault) RangeInMemory(a, b common.Hash) ([]common.Hash, error) {
	if f.trip("RangeInMemory", c31Call{kind: '-'}) {
		return nil, f.fail()
	}
	return f.BlockState.RangeInMemory(a, b)
}

func (f *c31Fault) GetBlockByHash(h common.Hash) (*types.Block, error) {
	if f.trip("GetBlockByHash", c31Call{kind: 'h', hash: h}) {
		return nil, f.fail()
	}
	v, err := f.BlockState.GetBlockByHash(h)
	f.answered("GetBlockByHash", h, err)
	return v, err
}

func (f *c31Fault) GetBlockBody(h common.Hash) (*types.Body, error) {
	if f.trip("GetBlockBody", c31Call{kind: 'h', hash: h}) {
		return nil, f.fail()
	}
	v, err := f.BlockState.GetBlockBody(h)
	f.answered("GetBlockBody", h, err)
	return v, err
}

func (f *c31Fault) GetReceipt(h common.Hash) ([]byte, error) {
	if f.trip("GetReceipt", c31Call{kind: 'h', hash: h}) {
		return nil, f.fail()
	}
	v, err := f.BlockState.GetReceipt(h)
	f.answered("GetReceipt", h, err)
	return v, err
}

func (f *c31Fault) GetMessageQueue(h common.Hash) ([]byte, error) {
	if f.trip("GetMessageQueue", c31Call{kind: 'h', hash: h}) {
		return nil, f.fail()
	}
	v, err := f.BlockState.GetMessageQueue(h)
	f.answered("GetMessageQueue", h, err)
	return v, err
}

func (f *c31Fault) GetJustification(h common.Hash) ([]byte, error) {
	if f.trip("GetJustification", c31Call{kind: 'h', hash: h}) {
		return nil, f.fail()
	}
	v, err := f.BlockState.GetJustification(h)
	f.answered("GetJustification", h, err)
	return v, err
}

// ---------------------------------------------------------------- wire round trip

// c31CheckWire: Encode of a served response must not panic, must succeed and
// must decode back to the same blocks. proto3 cannot tell an empty repeated /
// bytes field from an absent one, so an empty body (or blob) that comes back
// absent is the wire format's convention, not a refutation (counted).
func c31CheckWire(c *vcommon.Case, resp *messages.BlockResponseMessage, wit map[string]any) {
	c31CheckWireAs(c, resp, wit, "fault_family_wire_roundtrips")
}

// c31CheckWireAs is c31CheckWire counting its round trips under the given name
// (the fault-free serving groups keep their own counter and floors).
func c31CheckWireAs(c *vcommon.Case, resp *messages.BlockResponseMessage, wit map[string]any, counter string) {
	if resp == nil {
		return
	}
	c.Eval(1)
	c.Count(counter, 1)
	var (
		enc      []byte
		err      error
		panicked any
	)
	func() {
		defer func() { panicked = recover() }()
		enc, err = resp.Encode()
	}()
	if panicked != nil {
		c.Violation("encode-panic", fmt.Sprintf("BlockResponseMessage.Encode panicked on the served response: %v", panicked), wit)
		return
	}
	if err != nil {
		c.Violation("encode-error", "the served response cannot be encoded: "+err.Error(), wit)
		return
	}
	dec := &messages.BlockResponseMessage{}
	func() {
		defer func() { panicked = recover() }()
		err = dec.Decode(enc)
	}()
	if panicked != nil || err != nil {
		c.Violation("wire-roundtrip", fmt.Sprintf("the encoded served response does not decode: err=%v panic=%v", err, panicked), wit)
		return
	}
	if len(dec.BlockData) != len(resp.BlockData) {
		c.Violation("wire-roundtrip", fmt.Sprintf("served %d blocks, %d after Encode/Decode", len(resp.BlockData), len(dec.BlockData)), wit)
		return
	}
	bytesEq := func(a, b *[]byte) bool {
		la, lb := 0, 0
		if a != nil {
			la = len(*a)
		}
		if b != nil {
			lb = len(*b)
		}
		if la == 0 && lb == 0 {
			return true // absent == empty on the wire
		}
		return a != nil && b != nil && string(*a) == string(*b)
	}
	for i, a := range resp.BlockData {
		b := dec.BlockData[i]
		bad := ""
		switch {
		case a == nil || b == nil:
			bad = "nil entry"
		case a.Hash != b.Hash:
			bad = "hash"
		case (a.Header == nil) != (b.Header == nil) || a.Header != nil && vHeaderHash(a.Header) != vHeaderHash(b.Header):
			bad = "header"
		case !bytesEq(a.Receipt, b.Receipt):
			bad = "receipt"
		case !bytesEq(a.MessageQueue, b.MessageQueue):
			bad = "message queue"
		case !bytesEq(a.Justification, b.Justification):
			bad = "justification"
		default:
			var ea, eb []types.Extrinsic
			if a.Body != nil {
				ea = *a.Body
			}
			if b.Body != nil {
				eb = *b.Body
			}
			if len(ea) == 0 && len(eb) == 0 {
				if a.Body != nil && b.Body == nil {
					c.Count("wire_empty_body_decodes_as_absent", 1)
				}
			} else if fmt.Sprintf("%x", ea) != fmt.Sprintf("%x", eb) {
				bad = "body"
			}
		}
		if bad != "" {
			c.Violation("wire-roundtrip", fmt.Sprintf("block %d of the served response differs after Encode/Decode: %s", i, bad), wit)
			return
		}
	}
}

// ---------------------------------------------------------------- the family

// c31Pos maps the argument of a failed call to the position of that block in
// the would-be (fault-free) response; -1: not a block of it / not a per-block call.
func c31Pos(w *c31World, a c31Call, base []int) int {
	idx := -1
	switch a.kind {
	case 'h':
		if i, ok := w.tree.byHash[a.hash]; ok {
			idx = i
		}
	case 'n':
		if a.num <= w.best() {
			idx = w.main[a.num]
		}
	}
	if idx < 0 {
		return -1
	}
	for p, n := range base {
		if n == idx {
			return p
		}
	}
	return -1
}

func c31PosClass(p, L int) string {
	switch {
	case p < 0:
		return "nonblock"
	case p == 0:
		return "first"
	case p == 1:
		return "second"
	case p == L-1:
		return "last"
	}
	return "middle"
}

// c31FaultTargets chooses the call numbers N of one method: the first and the
// last call, the second call, and the first call that concerns the 1st, 2nd,
// middle and last block of the would-be response.
func c31FaultTargets(w *c31World, log []c31Call, base []int) []int {
	T, L := len(log), len(base)
	set := map[int]bool{1: true, T: true}
	if T >= 2 {
		set[2] = true
	}
	want := map[int]bool{0: true, 1: true, L / 2: true, L - 1: true}
	for i, a := range log {
		if p := c31Pos(w, a, base); p >= 0 && want[p] {
			set[i+1] = true
			delete(want, p)
		}
	}
	var ns []int
	for n := range set {
		if n >= 1 && n <= T {
			ns = append(ns, n)
		}
	}
	sort.Ints(ns)
	return ns
}

// c31FaultBaseline runs q over a counting-only wrapper. The outcome is judged
// like any fault-free request (the wrapper never fails anything).
func c31FaultBaseline(c *vcommon.Case, w *c31World, q c31Req) (*c31Fault, c31Result) {
	base := newC31Fault(w.bs, "", 0, false, false)
	svc, _ := c31ServiceOver(base)
	res := c31ServeX(c, w, q, svc, peer.ID("verif-peer"), base)
	c.Count("fault_family_requests", 1)
	if res.served {
		c.Count("fault_family_baseline_served", 1)
	} else {
		c.Count("fault_family_baseline_error", 1)
	}
	for _, m := range c31FaultMethods {
		if n := base.calls[m]; n > 0 {
			c.Count("calls_fault_free_"+m, n)
		}
	}
	return base, res
}

// c31FaultOne re-runs q with call N of method failing and judges the outcome.
func c31FaultOne(c *vcommon.Case, w *c31World, q c31Req, base c31Result, method string, N int, sticky, notFound bool) (fired bool) {
	flt := newC31Fault(w.bs, method, N, sticky, notFound)
	svc, _ := c31ServiceOver(flt)
	L := len(base.nodes)
	if !base.served {
		L = 0
	}
	// the position is only known after the run; the witness of a violation raised inside c31ServeX carries
	// method, N and the first failed argument, which determine it
	res := c31ServeX(c, w, q, svc, peer.ID("verif-peer"), flt)
	c.Count("fault_runs", 1)
	if flt.fired == 0 {
		c.Count("fault_not_reached", 1) // the call sequence is deterministic, so this stays 0
		return false
	}
	c.Count("fault_injected", 1)
	c.Count("fault_injected_"+method, 1)
	if sticky {
		c.Count("fault_injected_sticky", 1)
	}
	if notFound {
		c.Count("fault_injected_as_not_found", 1)
	}
	pos := -1
	if base.served {
		pos = c31Pos(w, flt.firstHit, base.nodes)
	}
	pc := c31PosClass(pos, L)
	flt.posClass = pc
	c.Count("fault_pos_"+pc, 1)
	if L >= 2 && pos == L-1 {
		c.Count("fault_hit_last_block_of_longer_response", 1)
	}
	if pos >= 1 {
		c.Count("fault_hit_nonfirst_block", 1)
		c.Count("fault_hit_nonfirst_block_"+method, 1)
	}
	dirS := "asc"
	if q.dir == messages.Descending {
		dirS = "desc"
	}
	outcome := ""
	switch {
	case !res.served:
		outcome = "refused"
		c.Count("fault_refused", 1)
		c.Count("fault_refused_"+method, 1)
		if base.served {
			c.Count("fault_refused_fault_free_was_served", 1)
			if pos >= 1 {
				c.Count("fault_refused_after_first_block", 1)
				c.Count("fault_refused_after_first_block_"+dirS, 1)
			}
		}
	case res.known:
		outcome = "k1"
		c.Count("fault_served_k1", 1)
	case !res.ok:
		outcome = "violation"
	default:
		outcome = "served"
		c.Count("fault_served", 1)
		c.Count("fault_served_"+method, 1)
		if !base.served {
			c.Count("fault_served_fault_free_was_error", 1)
		} else if len(res.nodes) < L {
			outcome = "served-shorter"
			c.Count("fault_served_shorter_gap_free_prefix", 1)
		} else {
			c.Count("fault_served_full_length", 1)
		}
		om := 0
		for _, field := range []string{"header", "body", "receipt", "message queue", "justification"} {
			if n := flt.omitted[field]; n > 0 {
				om += n
				c.Count("fault_field_omitted_"+field, n)
			}
		}
		if om > 0 {
			c.Count("fault_served_with_failed_field_omitted", 1)
		}
	}
	mx := "nil"
	if q.max != nil {
		mx = fmt.Sprint(*q.max)
		if *q.max > 140 {
			mx = "big"
		}
	}
	if outcome == "served" || outcome == "served-shorter" || outcome == "refused" && base.served {
		c.Distinct(fmt.Sprintf("fault|%s|%s|%s|f%d|%s|%s|st%v|%s|L%d", dirS, q.what, mx, q.fields&31, method, pc, sticky, outcome, L))
	}
	if outcome != "violation" {
		wit := flt.witness(w, q.witness(w))
		wit["outcome"] = outcome
		wit["fault_free_len"] = L
		if res.err != nil {
			wit["error"] = res.err.Error()
		} else {
			wit["served"] = respTags(w, res.nodes)
		}
		c.Sample(wit)
	}
	return true
}

// c31FaultFamily: baseline + one run per (method called by the baseline, chosen N).
func c31FaultFamily(c *vcommon.Case, w *c31World, q c31Req) {
	base, res := c31FaultBaseline(c, w, q)
	var nodes []int
	if res.served {
		nodes = res.nodes
	}
	for _, m := range c31FaultMethods {
		log := base.log[m]
		if len(log) == 0 {
			continue
		}
		for _, N := range c31FaultTargets(w, log, nodes) {
			c31FaultOne(c, w, q, res, m, N, c.R.Chance(1, 3), c.R.Chance(1, 3))
		}
	}
}

// c31FaultCorpusEntry: seed-independent (request, method, N) triples on the fixed world (best=140, finalised=3).
type c31FaultCorpusEntry struct {
	name   string
	mk     func(w *c31World) c31Req
	method string
	n      int
	sticky bool
}

func c31FaultCorpus() []c31FaultCorpusEntry {
	num := func(n uint, dir messages.SyncDirection, max *uint32, fields byte) func(*c31World) c31Req {
		return func(*c31World) c31Req { return c31Req{what: "num", num: n, dir: dir, max: max, fields: fields} }
	}
	canon := func(n int, dir messages.SyncDirection, max *uint32, fields byte) func(*c31World) c31Req {
		return func(w *c31World) c31Req {
			return c31Req{what: "canon", byHash: true, hash: w.tree.nodes[w.main[n]].hash, dir: dir, max: max, fields: fields}
		}
	}
	fork := func(dir messages.SyncDirection, max *uint32, fields byte) func(*c31World) c31Req {
		return func(w *c31World) c31Req {
			f := w.forks[0]
			for _, g := range w.forks {
				if len(g) > len(f) {
					f = g
				}
			}
			i := 0
			if dir == messages.Descending {
				i = len(f) - 1
			}
			return c31Req{what: "fork", byHash: true, hash: w.tree.nodes[f[i]].hash, dir: dir, max: max, fields: fields}
		}
	}
	D, A := messages.Descending, messages.Ascending
	return []c31FaultCorpusEntry{
		// descending by number, the number index fails below the start (history missing below a checkpoint)
		{"desc 2 max 2, 2nd GetHashByNumber fails (minimal: 2 blocks, fault on the 2nd)", num(2, D, u32p(2), 1), "GetHashByNumber", 2, false},
		{"desc 10 max 5, 2nd GetHashByNumber fails", num(10, D, u32p(5), 1), "GetHashByNumber", 2, false},
		{"desc 10 max 5, GetHashByNumber fails from the 3rd on", num(10, D, u32p(5), 3), "GetHashByNumber", 3, true},
		{"desc 10 max 5, last GetHashByNumber fails", num(10, D, u32p(5), 31), "GetHashByNumber", 5, false},
		{"desc 10 max 5, 1st GetHashByNumber fails", num(10, D, u32p(5), 1), "GetHashByNumber", 1, false},
		{"desc best max nil, 64th GetHashByNumber fails", num(140, D, nil, 1), "GetHashByNumber", 64, true},
		{"desc best max nil, 128th GetHashByNumber fails", num(140, D, nil, 17), "GetHashByNumber", 128, false},
		{"desc best+50 (clamped) max 3, 2nd GetHashByNumber fails", num(190, D, u32p(3), 1), "GetHashByNumber", 2, false},
		{"desc 5 max nil across finalised, 3rd GetHashByNumber fails", num(5, D, nil, 31), "GetHashByNumber", 3, true},
		{"desc 10 max 5, BestBlockNumber fails", num(10, D, u32p(5), 1), "BestBlockNumber", 1, false},
		// ascending by number
		{"asc 5 max 4, 2nd GetHashByNumber fails", num(5, A, u32p(4), 1), "GetHashByNumber", 2, false},
		{"asc 5 max 4, last GetHashByNumber fails", num(5, A, u32p(4), 31), "GetHashByNumber", 4, false},
		{"asc 13 max 2^32-1, 100th GetHashByNumber fails", num(13, A, u32p(4294967295), 1), "GetHashByNumber", 100, true},
		// field lookups
		{"desc 10 max 5, 2nd GetHeader fails", num(10, D, u32p(5), 1), "GetHeader", 2, false},
		{"asc 5 max 4, GetBlockBody fails from the 2nd on", num(5, A, u32p(4), 3), "GetBlockBody", 2, true},
		{"asc 5 max 6, every GetReceipt fails", num(5, A, u32p(6), 31), "GetReceipt", 1, true},
		{"desc 20 max 8, 4th GetMessageQueue fails", num(20, D, u32p(8), 31), "GetMessageQueue", 4, false},
		{"desc 20 max 8, last GetJustification fails", num(20, D, u32p(8), 16), "GetJustification", 8, false},
		// by hash
		{"desc by hash m10 max 4, Range fails", canon(10, D, u32p(4), 1), "Range", 1, false},
		{"desc by hash m10 max 4, GetHeaderByNumber fails", canon(10, D, u32p(4), 1), "GetHeaderByNumber", 1, false},
		{"desc by hash m10 max 4, start GetHeader fails", canon(10, D, u32p(4), 1), "GetHeader", 1, false},
		{"desc by hash m10 max 4, 2nd GetHeader fails (last block of the response)", canon(10, D, u32p(4), 1), "GetHeader", 2, false},
		{"desc by hash m10 max 4, 3rd GetHeader fails", canon(10, D, u32p(4), 3), "GetHeader", 3, true},
		{"asc by hash m2 max 6 across finalised, GetHashByNumber fails", canon(2, A, u32p(6), 31), "GetHashByNumber", 1, false},
		{"asc by hash m2 max 6, IsDescendantOf fails", canon(2, A, u32p(6), 31), "IsDescendantOf", 1, false},
		{"asc by hash m2 max 6, 3rd GetBlockBody fails", canon(2, A, u32p(6), 31), "GetBlockBody", 3, false},
		{"asc by hash m2 max 6, last GetJustification fails", canon(2, A, u32p(6), 31), "GetJustification", 6, false},
		{"asc by hash m130 max nil, Range fails", canon(130, A, nil, 1), "Range", 1, false},
		{"asc by hash fork first, GetAllBlocksAtNumber fails", fork(A, u32p(2), 1), "GetAllBlocksAtNumber", 1, false},
		{"asc by hash fork first, 2nd IsDescendantOf fails", fork(A, u32p(2), 1), "IsDescendantOf", 2, false},
		{"desc by hash fork tip max nil, 2nd GetHeader fails", fork(D, nil, 3), "GetHeader", 2, false},
	}
}
