//go:build verif

package sync

// C32, second half: FullSyncStrategy.Process over the REAL blockImporter.
//
// The recording importer of zz_verif_c32_test.go stands in for
// blockImporter.importBlock and therefore trusts its "already known => no-op"
// rule. Here that rule is inside the loop: the strategy keeps the importer
// NewFullSyncStrategy builds, and only the importer's collaborators are
// harness fakes that share one model of the node (known headers) and one event
// log:
//   block state        HasHeader/GetHeader/GetRuntime/SetFinalisedHash/SetJustification/...
//   storage state      hands out an empty trie (every block's state root is the empty root)
//   runtime instance   ExecuteBlock accepts everything and is logged
//   block import handler  HandleBlockImport is logged and makes the header known
//   finality gadget    VerifyBlockJustification accepts everything and is logged
// Oracle on the collaborator log, over the whole multi-Process history:
//   reimported / re-executed   HandleBlockImport / ExecuteBlock happens twice for one header hash
//   parent-not-imported        ... or before the parent is known to the node
//   panic                      Process panics
// A justification that arrives later for a known block may be verified/stored
// (counted) but must not import the block again.

import (
	"errors"
	"fmt"
	goruntime "runtime"
	"runtime/debug"
	"strings"
	gosync "sync"

	"github.com/ChainSafe/gossamer/dot/network/messages"
	"github.com/ChainSafe/gossamer/dot/types"
	"github.com/ChainSafe/gossamer/internal/database"
	"github.com/ChainSafe/gossamer/lib/common"
	"github.com/ChainSafe/gossamer/lib/runtime"
	rtstorage "github.com/ChainSafe/gossamer/lib/runtime/storage"
	"github.com/ChainSafe/gossamer/pkg/trie/inmemory"
	"github.com/ChainSafe/gossamer/zz_verif/vcommon"
)

type c32rProblem struct{ class, msg string }

type c32rWorld struct {
	tree      *vTree
	emptyRoot common.Hash
	headers   map[common.Hash]*types.Header // headers known to the node
	imported  map[common.Hash]int           // HandleBlockImport calls per header hash
	executed  map[common.Hash]int
	finalised *types.Header
	best      *types.Header
	log       []string
	problems  []c32rProblem
	step      int

	lateJustVerified int
	justStored       int
	finalisations    int
}

func (w *c32rWorld) tag(h common.Hash) string {
	if i, ok := w.tree.byHash[h]; ok {
		return w.tree.nodes[i].tag
	}
	return "?" + short(h)
}

func (w *c32rWorld) problem(class, f string, a ...any) {
	w.problems = append(w.problems, c32rProblem{class, fmt.Sprintf(f, a...)})
}

// ---- block state

type c32rState struct {
	c32State // panics with errC32Harness for everything not overridden below
	w        *c32rWorld
	rt       *c32rRuntime
}

func (s *c32rState) BestBlockHeader() (*types.Header, error) { return copyHeader(s.w.best), nil }
func (s *c32rState) BestBlockNumber() (uint, error)          { return s.w.best.Number, nil }
func (s *c32rState) GetHighestFinalisedHeader() (*types.Header, error) {
	return copyHeader(s.w.finalised), nil
}
func (s *c32rState) HasHeader(h common.Hash) (bool, error) {
	_, ok := s.w.headers[h]
	return ok, nil
}
func (s *c32rState) GetHeader(h common.Hash) (*types.Header, error) {
	hd, ok := s.w.headers[h]
	if !ok {
		return nil, database.ErrNotFound
	}
	return copyHeader(hd), nil
}
func (s *c32rState) GetRuntime(common.Hash) (runtime.Instance, error) { return s.rt, nil }
func (s *c32rState) StoreRuntime(common.Hash, runtime.Instance)       {}
func (s *c32rState) SetFinalisedHash(h common.Hash, _, _ uint64) error {
	hd, ok := s.w.headers[h]
	if !ok {
		return fmt.Errorf("cannot finalise unknown block %s", h)
	}
	s.w.log = append(s.w.log, "fin:"+s.w.tag(h))
	s.w.finalisations++
	if hd.Number > s.w.finalised.Number {
		s.w.finalised = hd
	}
	return nil
}
func (s *c32rState) SetJustification(h common.Hash, _ []byte) error {
	s.w.log = append(s.w.log, "just:"+s.w.tag(h))
	s.w.justStored++
	return nil
}
func (s *c32rState) CompareAndSetBlockData(bd *types.BlockData) error {
	s.w.log = append(s.w.log, "cas:"+s.w.tag(bd.Hash))
	return nil
}

var _ BlockState = (*c32rState)(nil)

// ---- storage / runtime / handler / gadget / tx / babe

type c32rStorage struct {
	gosync.Mutex
	w *c32rWorld
}

func (s *c32rStorage) TrieState(root *common.Hash) (*rtstorage.TrieState, error) {
	if root == nil || *root != s.w.emptyRoot {
		return nil, errors.New("harness storage state: unknown state root")
	}
	return rtstorage.NewTrieState(inmemory.NewEmptyTrie()), nil
}

type c32rRuntime struct {
	runtime.Instance // nil: any other call is a harness gap (=> inconclusive)
	w                *c32rWorld
}

func (rt *c32rRuntime) SetContextStorage(runtime.Storage) {}
func (rt *c32rRuntime) ExecuteBlock(b *types.Block) ([]byte, error) {
	w := rt.w
	hh := vHeaderHash(&b.Header)
	w.log = append(w.log, "exec:"+w.tag(hh))
	if w.executed[hh] > 0 {
		w.problem("re-executed", "block %s (#%d) executed a second time", w.tag(hh), b.Header.Number)
	}
	if _, ok := w.headers[b.Header.ParentHash]; !ok {
		w.problem("parent-not-imported", "block %s (#%d) executed before its parent is known", w.tag(hh), b.Header.Number)
	}
	w.executed[hh]++
	return nil, nil
}

type c32rHandler struct{ w *c32rWorld }

func (h *c32rHandler) HandleBlockImport(b *types.Block, _ *rtstorage.TrieState, _ bool) error {
	w := h.w
	hh := vHeaderHash(&b.Header)
	w.log = append(w.log, "import:"+w.tag(hh))
	if _, ok := w.headers[b.Header.ParentHash]; !ok {
		w.problem("parent-not-imported", "block %s (#%d) imported before its parent is known", w.tag(hh), b.Header.Number)
	}
	w.imported[hh]++
	if w.imported[hh] > 1 {
		w.problem("reimported", "block %s (#%d) handed to HandleBlockImport %d times", w.tag(hh), b.Header.Number, w.imported[hh])
		return errors.New("cannot add block to blocktree that already exists (harness)")
	}
	hd := copyHeader(&b.Header)
	w.headers[hh] = hd
	if hd.Number > w.best.Number {
		w.best = hd
	}
	return nil
}

type c32rGadget struct{ w *c32rWorld }

func (g *c32rGadget) VerifyBlockJustification(h common.Hash, _ uint, _ []byte) (uint64, uint64, error) {
	g.w.log = append(g.w.log, "verify:"+g.w.tag(h))
	if g.w.imported[h] > 0 {
		g.w.lateJustVerified++
	}
	return 1, 0, nil
}

type c32rTx struct{}

func (c32rTx) RemoveExtrinsic(types.Extrinsic) {}

type c32rBabe struct{}

func (c32rBabe) VerifyBlock(*types.Header) error { return nil }

// ---- scripts

type c32rScript struct {
	tree  *vTree
	steps [][]*c32Resp
}

func c32rRun(c *vcommon.Case, sc *c32rScript) {
	t := sc.tree
	w := &c32rWorld{tree: t, emptyRoot: inmemory.NewEmptyTrie().MustHash(),
		headers:  map[common.Hash]*types.Header{t.nodes[0].hash: t.nodes[0].header},
		imported: map[common.Hash]int{}, executed: map[common.Hash]int{}}
	w.finalised, w.best = t.nodes[0].header, t.nodes[0].header
	if t.nodes[0].header.StateRoot != w.emptyRoot {
		c.Inconclusive("harness: tree was not built on the empty state root")
		return
	}
	st := &c32rState{w: w, rt: &c32rRuntime{w: w}}
	st.c32State.m = &c32Model{}
	fs := NewFullSyncStrategy(&FullSyncConfig{
		BlockState: st, StorageState: &c32rStorage{w: w}, TransactionState: c32rTx{}, BabeVerifier: c32rBabe{},
		FinalityGadget: &c32rGadget{w: w}, BlockImportHandler: &c32rHandler{w: w}, Telemetry: nopTelemetry{},
	})
	if _, ok := fs.blockImporter.(*blockImporter); !ok {
		c.Inconclusive("harness: the strategy is not using the real blockImporter")
		return
	}
	var lines []string
	witness := func() map[string]any {
		lg := w.log
		if len(lg) > 120 {
			lg = append(append([]string{}, lg[:60]...), append([]string{"..."}, lg[len(lg)-50:]...)...)
		}
		return map[string]any{"script": lines, "collaborator_log": lg, "tree_blocks": len(t.nodes)}
	}
	for si, resps := range sc.steps {
		w.step = si
		w.log = append(w.log, fmt.Sprintf("|step%d|", si))
		var results []*SyncTaskResult
		var descr []string
		seenInBatch := map[common.Hash]bool{}
		for ri, rp := range resps {
			rp.who = "real-peer"
			res, err := rp.build(t)
			if err != nil {
				c.Inconclusive("harness cannot build response: " + err.Error())
				return
			}
			results = append(results, res)
			descr = append(descr, fmt.Sprintf("r%d:%s", ri, rp.String(t)))
			c.Count("real_responses", 1)
			knownN, newN := 0, 0
			for bi, b := range rp.blocks {
				if b.node < 0 {
					continue
				}
				h := t.nodes[b.node].hash
				if _, known := w.headers[h]; known {
					knownN++
					if rp.bds[bi].Justification != nil {
						c.Count("known_redelivered_with_justification", 1)
					} else {
						c.Count("known_redelivered_without_justification", 1)
					}
				} else {
					newN++
					if seenInBatch[h] {
						c.Count("duplicate_within_one_process_call", 1)
					}
					seenInBatch[h] = true
				}
			}
			if knownN > 0 && newN > 0 {
				c.Count("overlapping_ranges", 1)
			}
			if rp.dir == messages.Descending && knownN > 0 {
				c.Count("ancestor_responses_over_known_blocks", 1)
			}
		}
		lines = append(lines, fmt.Sprintf("step %d: Process{%s}", si, strings.Join(descr, "  ")))
		var perr error
		panicked := false
		func() {
			defer func() {
				if p := recover(); p != nil {
					panicked = true
					if _, isRT := p.(goruntime.Error); isRT && strings.Contains(string(debug.Stack()), "c32rRuntime).") {
						c.Inconclusive("the importer called a runtime.Instance method the harness fake does not model")
						return
					}
					c32Panic(c, p, witness(), "Process (real importer)")
				}
			}()
			_, _, _, perr = fs.Process(results)
		}()
		if panicked {
			return
		}
		c.Eval(1)
		c.Count("real_process_calls", 1)
		if perr != nil {
			c.Count("real_process_errors", 1)
		}
		for _, p := range w.problems {
			c.Violation(p.class, p.msg, witness())
		}
		if len(w.problems) > 0 {
			return
		}
	}
	// offline pass over the counters: at most once, executed iff imported
	for h, n := range w.imported {
		c.Eval(1)
		if n > 1 || w.executed[h] > 1 {
			c.Violation("reimported", fmt.Sprintf("block %s imported %d times, executed %d times", w.tag(h), n, w.executed[h]), witness())
		}
	}
	c.Count("real_blocks_imported", len(w.imported))
	c.Count("real_blocks_executed", len(w.executed))
	c.Count("late_justification_verified", w.lateJustVerified)
	c.Count("justifications_stored", w.justStored)
	c.Count("finalisations", w.finalisations)
	c.Count("real_scripts", 1)
	if len(w.imported) == len(t.nodes)-1 {
		c.Count("real_scripts_whole_tree_imported", 1)
	}
	var sig strings.Builder
	for _, st := range sc.steps {
		for _, rp := range st {
			fmt.Fprintf(&sig, "%d%v", len(rp.blocks), rp.dir)
			for _, b := range rp.blocks {
				fmt.Fprintf(&sig, "%d", b.just)
			}
			sig.WriteString(",")
		}
		sig.WriteString("|")
	}
	c.Distinct(fmt.Sprintf("real|%d|%d|%s", len(t.nodes), len(w.imported), sig.String()))
	c.Sample(map[string]any{"script": lines, "collaborator_log_len": len(w.log), "imported": len(w.imported)})
}

func c32rTree(r *vcommon.Rand, L, forks int) (*vTree, []int, [][]int) {
	root := inmemory.NewEmptyTrie().MustHash()
	t, main, fk := c32TreeOpt(r, L, forks, 3, &root, false)
	for _, i := range main[1:] {
		if r.Chance(1, 4) {
			t.nodes[i].just = r.Bytes(4)
		}
	}
	return t, main, fk
}

// withJust returns an honest response for nodes where the blocks selected by
// sel get justification mode mode.
func c32rResp(t *vTree, nodes []int, dir messages.SyncDirection, mode func(node int) int) *c32Resp {
	rp := c32Honest(t, nodes, dir)
	for i := range rp.blocks {
		rp.blocks[i].just = mode(rp.blocks[i].node)
	}
	return rp
}

func c32rRandomScript(r *vcommon.Rand) *c32rScript {
	L := r.Range(4, 20)
	t, main, forks := c32rTree(r, L, r.Intn(3))
	sc := &c32rScript{tree: t}
	delivered := map[int]bool{}
	modeFor := func() func(int) int {
		k := r.Intn(4) // how re-delivered blocks carry a justification in this response
		return func(n int) int {
			if !delivered[n] {
				return 0
			}
			switch k {
			case 0:
				return 1
			case 1:
				return 0
			default:
				return 2
			}
		}
	}
	wire := func(rp *c32Resp) *c32Resp { rp.viaWire = r.Chance(1, 4); return rp }
	var pieces [][]int // pieces delivered so far (main chain index ranges as node lists)
	cursor := 0
	for cursor < L {
		var batch []*c32Resp
		for k := 0; k < r.Range(1, 2) && cursor < L; k++ {
			from := cursor + 1
			if cursor > 0 && r.Chance(1, 2) {
				from -= r.Range(1, min(3, cursor)) // overlap with what is already there
			}
			to := min(L, cursor+r.Range(1, 6))
			nodes := append([]int{}, main[from:to+1]...)
			batch = append(batch, wire(c32rResp(t, nodes, messages.Ascending, modeFor())))
			pieces = append(pieces, nodes)
			cursor = to
		}
		if len(pieces) > 1 && r.Chance(1, 3) { // an earlier response again
			batch = append(batch, wire(c32rResp(t, vcommon.Pick(r, pieces[:len(pieces)-1]), messages.Ascending, modeFor())))
		}
		if cursor >= 2 && r.Chance(1, 3) { // ancestor (descending by hash) response over known territory
			top := r.Range(2, cursor)
			n := r.Range(1, top)
			batch = append(batch, wire(c32rResp(t, append([]int{}, main[top-n+1:top+1]...), messages.Descending, modeFor())))
		}
		for _, f := range forks {
			if int(t.nodes[t.nodes[f[0]].parent].number) <= cursor && !delivered[f[0]] && r.Chance(1, 2) {
				batch = append(batch, wire(c32rResp(t, f, messages.Ascending, modeFor())))
				pieces = append(pieces, f)
				for _, n := range f {
					delivered[n] = true
				}
			}
		}
		if r.Chance(1, 4) { // shuffle the batch
			p := r.Perm(len(batch))
			nb := make([]*c32Resp, len(batch))
			for i, j := range p {
				nb[i] = batch[j]
			}
			batch = nb
		}
		sc.steps = append(sc.steps, batch)
		for i := 1; i <= cursor; i++ {
			delivered[main[i]] = true
		}
	}
	// afterwards: known blocks come again, alone and inside larger ranges
	for k := 0; k < r.Range(1, 3); k++ {
		a := r.Range(1, L)
		b := min(L, a+r.Intn(4))
		dir := messages.Ascending
		if r.Chance(1, 3) {
			dir = messages.Descending
		}
		sc.steps = append(sc.steps, []*c32Resp{wire(c32rResp(t, append([]int{}, main[a:b+1]...), dir, modeFor()))})
	}
	return sc
}

func c32RealGroups(r *vcommon.Run) {
	r.Floor("real_scripts", 300)
	r.Floor("real_blocks_imported", 3000)
	r.Floor("known_redelivered_with_justification", 300)
	r.Floor("known_redelivered_without_justification", 300)
	r.Floor("overlapping_ranges", 150)
	r.Floor("ancestor_responses_over_known_blocks", 50)

	all := func(int) int { return 0 }
	force := func(int) int { return 2 }
	none := func(int) int { return 1 }
	type fx struct {
		name string
		mk   func(r *vcommon.Rand) *c32rScript
	}
	corpus := []fx{
		{"[1 2 3 4] then [4+J 5 6]: known block re-delivered with a justification", func(r *vcommon.Rand) *c32rScript {
			t, m, _ := c32rTree(r, 6, 0)
			return &c32rScript{tree: t, steps: [][]*c32Resp{
				{c32rResp(t, m[1:5], messages.Ascending, none)},
				{c32rResp(t, m[4:7], messages.Ascending, func(n int) int {
					if n == m[4] {
						return 2
					}
					return 1
				})}}}
		}},
		{"[1 2 3 4] then [4 5 6] without justification", func(r *vcommon.Rand) *c32rScript {
			t, m, _ := c32rTree(r, 6, 0)
			return &c32rScript{tree: t, steps: [][]*c32Resp{{c32rResp(t, m[1:5], messages.Ascending, none)}, {c32rResp(t, m[4:7], messages.Ascending, none)}}}
		}},
		{"[1 2 3] then [2+J] alone", func(r *vcommon.Rand) *c32rScript {
			t, m, _ := c32rTree(r, 3, 0)
			return &c32rScript{tree: t, steps: [][]*c32Resp{{c32rResp(t, m[1:4], messages.Ascending, none)}, {c32rResp(t, m[2:3], messages.Ascending, force)}}}
		}},
		{"[1 2 3] then the same response with justifications, same Process call and a later one", func(r *vcommon.Rand) *c32rScript {
			t, m, _ := c32rTree(r, 3, 0)
			return &c32rScript{tree: t, steps: [][]*c32Resp{
				{c32rResp(t, m[1:4], messages.Ascending, none), c32rResp(t, m[1:4], messages.Ascending, force)},
				{c32rResp(t, m[1:4], messages.Ascending, force)}}}
		}},
		{"ancestor (descending) response over known blocks with justifications", func(r *vcommon.Rand) *c32rScript {
			t, m, _ := c32rTree(r, 5, 0)
			return &c32rScript{tree: t, steps: [][]*c32Resp{{c32rResp(t, m[1:6], messages.Ascending, all)}, {c32rResp(t, m[2:5], messages.Descending, force)}}}
		}},
		{"disjoint [4 5], then ancestor response [3 2 1], then [3+J 4+J 5+J 6]", func(r *vcommon.Rand) *c32rScript {
			t, m, _ := c32rTree(r, 6, 0)
			return &c32rScript{tree: t, steps: [][]*c32Resp{
				{c32rResp(t, m[4:6], messages.Ascending, none)},
				{c32rResp(t, m[1:4], messages.Descending, none)},
				{c32rResp(t, m[3:7], messages.Ascending, func(n int) int {
					if n == m[6] {
						return 1
					}
					return 2
				})}}}
		}},
	}
	r.Fixed("real-corpus", len(corpus), func(c *vcommon.Case) {
		c.Count("real_corpus_scripts", 1)
		c32rRun(c, corpus[c.Idx].mk(c.R))
	})
	r.Cases("real", r.Scale(800), func(c *vcommon.Case) {
		c32rRun(c, c32rRandomScript(c.R))
	})
}
