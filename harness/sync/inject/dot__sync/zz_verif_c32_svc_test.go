//go:build verif

package sync

// C32 — the production loop body. The loop family (zz_verif_c32_loop_test.go)
// re-implements service.go's loop in the harness; this family calls the real
// one: a SyncService (NewSyncService + WithNetwork / WithBlockState /
// WithStrategies) whose strategy is a real FullSyncStrategy with the recording
// importer, a fake Network that records every ReportPeer, and a fake
// network.RequestMaker behind which the peers of the loop family live (views of
// one generated block tree; honest, or - while faults are on - answering with
// the dishonest kinds of the loop family, or failing the request). Peers join
// through SyncService.HandleBlockAnnounceHandshake (that is what fills the
// worker pool) and announce through SyncService.HandleBlockAnnounce; then
// SyncService.runStrategy() is called once per iteration:
//     NextActions -> syncWorkerPool.submitRequests (goroutines, worker <-> task pairing, retries of failed tasks on
//     other workers) -> Process -> Network.ReportPeer for every reputation change.
// Which worker serves which task is decided by the scheduler; a peer's behaviour
// is therefore a function of (iteration, peer, request) only, and every verdict
// is sound under any pairing.
//
// Oracles: the import-log oracles of the loop family (parent-unknown,
// imported-twice online + offline replay, bad-accepted, panic), and at the
// Network:
//   bad-no-rep            a peer sent k responses that are not a hash-linked chain in the requested direction / carry a
//                         stated hash != header hash during one runStrategy call, Process did not fail, and fewer than
//                         k negative reputation changes naming THAT peer reached Network.ReportPeer
//   rep-names-wrong-peer  a negative change names a peer that sent nothing but honest-kind responses in that call
//   announce-rep-names-wrong-peer   a change reported while HandleBlockAnnounce(from) runs names another peer
//   result-lost           (counted as violation class "result-lost") a block of an honest response to a planned range whose
//                         parent was known before the call did not reach the importer although Process did not fail
// Hang avoidance (not a verdict): submitRequests never returns when every worker has failed while tasks still wait
// for one (see NOTES); the fake RequestMaker fails at most (#workers-1) requests per call and answers empty otherwise.

import (
	"errors"
	"fmt"
	"hash/fnv"
	"strings"
	gosync "sync"
	"time"

	"github.com/ChainSafe/gossamer/dot/network"
	"github.com/ChainSafe/gossamer/dot/network/messages"
	"github.com/ChainSafe/gossamer/dot/peerset"
	"github.com/ChainSafe/gossamer/dot/types"
	"github.com/ChainSafe/gossamer/lib/common"
	"github.com/ChainSafe/gossamer/zz_verif/vcommon"
	"github.com/libp2p/go-libp2p/core/peer"
)

type c32sReport struct {
	who peer.ID
	rep peerset.ReputationChange
}

type c32sNet struct {
	mu      gosync.Mutex
	peers   []peer.ID
	reports []c32sReport
}

func (n *c32sNet) AllConnectedPeersIDs() []peer.ID { return n.peers }
func (n *c32sNet) ReportPeer(ch peerset.ReputationChange, p peer.ID) {
	n.mu.Lock()
	n.reports = append(n.reports, c32sReport{p, ch})
	n.mu.Unlock()
}
func (n *c32sNet) BlockAnnounceHandshake(*types.Header) error                   { return nil }
func (n *c32sNet) GossipMessageExcluding(network.NotificationsMessage, peer.ID) {}
func (n *c32sNet) GetRequestResponseProtocol(string, time.Duration, uint64) *network.RequestResponseProtocol {
	return nil
}

type c32sCall struct {
	who    peer.ID
	req    *messages.BlockRequestMessage
	rp     *c32Resp // nil: the request failed
	descr  string
	start  int  // first node of the honest answer (-1 unknown)
	honest bool // exactly what was asked for
}

type c32sRM struct {
	mu         gosync.Mutex
	t          *vTree
	peers      map[peer.ID]*c32lPeer
	salt       uint64
	it         int
	behaviour  map[peer.ID]string
	failBudget int
	calls      []*c32sCall
	owner      map[*types.BlockData]*c32Resp
	harnessErr string
}

var errC32sPeer = errors.New("peer does not answer (harness)")

func (m *c32sRM) Do(to peer.ID, req, res messages.P2PMessage) error {
	m.mu.Lock()
	defer m.mu.Unlock()
	q, ok1 := req.(*messages.BlockRequestMessage)
	own, ok2 := res.(*messages.BlockResponseMessage)
	p := m.peers[to]
	if !ok1 || !ok2 || q == nil || own == nil || p == nil {
		m.harnessErr = fmt.Sprintf("RequestMaker.Do(%s) with an unexpected request / response / peer", string(to))
		return errC32sPeer
	}
	t := m.t
	h := fnv.New64a()
	fmt.Fprintf(h, "%d|%d|%s|%s", m.salt, m.it, string(to), q.String())
	r := vcommon.NewRand(h.Sum64())
	call := &c32sCall{who: to, req: q, start: -1}
	m.calls = append(m.calls, call)

	var startNum uint
	var startHash *common.Hash
	switch v := q.StartingBlock.RawValue().(type) {
	case uint:
		startNum = v
	case common.Hash:
		startHash = &v
	}
	limit := messages.MaxBlocksInResponse
	if q.Max != nil && int(*q.Max) < limit {
		limit = int(*q.Max)
	}
	withGenesis := r.Bool()
	nodes, has := c32lServe(t, p, startNum, startHash, q.Direction, limit, withGenesis)
	kind := m.behaviour[to]
	if kind == "" {
		kind = "honest"
	}
	if !has || kind == "fail" {
		if m.failBudget > 0 {
			m.failBudget--
			call.descr = fmt.Sprintf("%s <- %s: failed", c32lReqString(t, q), string(to))
			return errC32sPeer
		}
		kind, nodes = "empty", nil
	}
	toAsc := func(ns []int) []int {
		if q.Direction != messages.Descending {
			return ns
		}
		out := make([]int, len(ns))
		for i := range ns {
			out[len(ns)-1-i] = ns[i]
		}
		return out
	}
	hdrReq := q.RequestField(messages.RequestedDataHeader)
	rp := c32Honest(t, toAsc(nodes), q.Direction)
	if len(nodes) > 0 {
		call.start = nodes[0]
	}
	switch kind {
	case "honest":
	case "empty":
		rp.blocks, rp.kind = nil, "empty"
	case "wrongstart":
		var alt []int
		ok := false
		if startHash == nil {
			d := vcommon.Pick(r, []int{1, 2, 5, 130, -1, -3, 129})
			if n := int(startNum) + d; n >= 1 {
				alt, ok = c32lServe(t, p, uint(n), nil, q.Direction, limit, withGenesis)
			}
		} else {
			hh := t.nodes[r.Range(1, len(t.nodes)-1)].hash
			if hh != *startHash {
				alt, ok = c32lServe(t, p, 0, &hh, q.Direction, limit, withGenesis)
			}
		}
		if ok && len(alt) > 0 && alt[0] != nodes[0] {
			rp = c32Honest(t, toAsc(alt), q.Direction)
			rp.kind = "wrongstart"
		}
	case "toolong":
		extra := vcommon.Pick(r, []int{1, 2, 20, 129})
		if alt, ok := c32lServe(t, p, startNum, startHash, q.Direction, limit+extra, true); ok && len(alt) > limit {
			rp = c32Honest(t, toAsc(alt), q.Direction)
			rp.kind = "toolong"
		}
	case "forged", "forged-linked", "gap", "swap", "foreign", "nilhdr":
		if hdrReq {
			c32Mutate(r, t, rp, kind)
		} else {
			rp.blocks[0].stated = randHash(r)
			rp.kind = "bodyonly-unknown"
		}
	default: // wrongdir, nilbody
		c32Mutate(r, t, rp, kind)
	}
	rp.fields = q.RequestedData
	rp.completed = true
	rp.viaWire = r.Chance(1, 3)
	rp.who = to
	rp.bad = false
	if hdrReq {
		rp.bad, _ = c32IsBad(rp)
	}
	built, err := rp.build(t)
	if err != nil {
		m.harnessErr = "harness cannot build response: " + err.Error()
		return errC32sPeer
	}
	own.BlockData = built.response.(*messages.BlockResponseMessage).BlockData
	for _, bd := range rp.bds {
		m.owner[bd] = rp
		if rp.bad && bd.Body == nil && q.RequestField(messages.RequestedDataBody) {
			rp.bad = false // documented gap (TODO in validateResults): nil body => skipped without a reputation change
		}
	}
	call.rp = rp
	call.honest = rp.kind == "honest"
	call.descr = fmt.Sprintf("%s <- %s:%s", c32lReqString(t, q), string(to), rp.String(t))
	return nil
}

var c32sDishonest = []string{"wrongstart", "wrongstart", "wrongdir", "wrongdir", "toolong", "toolong",
	"forged", "forged", "forged-linked", "forged-linked", "gap", "swap", "foreign", "empty", "nilhdr", "nilbody", "fail", "fail", "fail"}

func c32sRun(c *vcommon.Case, cfg c32lCfg) {
	c32Quiet()
	r := c.R
	t, main, forks := c32Tree(r, cfg.L, cfg.forks, cfg.forkLen)
	pathTo := func(tip int) []int {
		var rev []int
		for n := tip; n >= 0; n = t.nodes[n].parent {
			rev = append(rev, n)
		}
		out := make([]int, len(rev))
		for i := range rev {
			out[len(rev)-1-i] = rev[i]
		}
		return out
	}
	m := &c32Model{tree: t, known: map[common.Hash]bool{t.nodes[0].hash: true}, finOn: map[common.Hash]bool{}}
	m.finalised, m.best = t.nodes[0].header, t.nodes[0].header
	initial := main[1 : cfg.knownPrefix+1]
	for _, n := range initial {
		m.known[t.nodes[n].hash] = true
		m.best = t.nodes[n].header
	}
	if r.Chance(1, 3) {
		for i := 0; i < r.Range(1, 2); i++ {
			m.finOn[t.nodes[main[r.Range(1, cfg.L)]].hash] = true
		}
	}
	im := &c32Importer{m: m}
	rm := &c32sRM{t: t, peers: map[peer.ID]*c32lPeer{}, salt: r.Uint64(), owner: map[*types.BlockData]*c32Resp{}}
	bs := &c32State{m: m}
	fs := NewFullSyncStrategy(&FullSyncConfig{BlockState: bs, NumOfTasks: cfg.numOfTasks, RequestMaker: rm})
	fs.blockImporter = im
	nw := &c32sNet{}
	svc := NewSyncService(WithNetwork(nw), WithBlockState(bs), WithStrategies(fs, fs))

	var peers []*c32lPeer
	for i := 0; i < cfg.nPeers; i++ {
		p := &c32lPeer{name: fmt.Sprintf("p%d", i)}
		switch {
		case i == 0 || r.Chance(1, 3):
			p.chain = main
		case len(forks) > 0 && r.Chance(1, 2):
			f := vcommon.Pick(r, forks)
			tip := f[len(f)-1]
			if int(t.nodes[tip].number) >= cfg.L {
				p.chain = main
			} else {
				p.chain = pathTo(tip)
			}
		default:
			p.chain = main[:r.Range(1, cfg.L)+1]
		}
		p.cur = p.tipNumber()
		if cfg.grow && p.cur > 1 {
			p.cur = r.Range(0, p.cur)
		}
		peers = append(peers, p)
		rm.peers[peer.ID(p.name)] = p
		nw.peers = append(nw.peers, peer.ID(p.name))
	}

	var lines []string
	witness := func(extra map[string]any) map[string]any {
		l := lines
		if len(l) > 70 {
			l = append(append([]string{}, l[:15]...), append([]string{"..."}, l[len(l)-50:]...)...)
		}
		w := map[string]any{"loop": l, "main_len": cfg.L, "tree_blocks": len(t.nodes), "numOfTasks": cfg.numOfTasks,
			"known_prefix": cfg.knownPrefix, "node_best": m.best.Number, "note": "worker <-> task pairing is scheduler dependent"}
		var evs []string
		for _, e := range im.events {
			tag := "?"
			if i, ok := t.byHash[e.hdrHash]; ok {
				tag = t.nodes[i].tag
			}
			s := fmt.Sprintf("i%d:%s", e.batch, tag)
			if e.skipped {
				s += "(skip)"
			}
			if e.problem != "" {
				s += "(" + e.problem + ")"
			}
			evs = append(evs, s)
		}
		if len(evs) > 80 {
			evs = append(evs[:40], append([]string{"..."}, evs[len(evs)-30:]...)...)
		}
		w["import_calls"] = evs
		for k, v := range extra {
			w[k] = v
		}
		return w
	}
	aborted := false
	guard := func(where string, fn func()) {
		defer func() {
			if p := recover(); p != nil {
				c32Panic(c, p, witness(nil), where)
				aborted = true
			}
		}()
		fn()
	}
	// every report made while HandleBlockAnnounce(from) runs must name from
	announce := func(p *c32lPeer, n *vNode, best bool) {
		nrep := len(nw.reports)
		guard("HandleBlockAnnounce", func() {
			_ = svc.HandleBlockAnnounce(peer.ID(p.name), &network.BlockAnnounceMessage{ParentHash: n.header.ParentHash, Number: n.header.Number,
				StateRoot: n.header.StateRoot, ExtrinsicsRoot: n.header.ExtrinsicsRoot, Digest: n.header.Digest, BestBlock: best})
		})
		c.Count("svc_announces", 1)
		for _, rep := range nw.reports[nrep:] {
			c.Eval(1)
			c.Count("svc_announce_reports", 1)
			if rep.who != peer.ID(p.name) {
				c.Violation("announce-rep-names-wrong-peer", fmt.Sprintf("HandleBlockAnnounce(from %s) reported %q to peer %s", p.name, rep.rep.Reason, string(rep.who)), witness(nil))
			}
		}
	}
	tell := func(p *c32lPeer, handshake bool) {
		n := t.nodes[p.chain[p.cur]]
		if p.cur > p.said {
			p.said = p.cur
		}
		if handshake {
			lines = append(lines, fmt.Sprintf("  %s handshake best=%s", p.name, n.tag))
			guard("HandleBlockAnnounceHandshake", func() {
				_ = svc.HandleBlockAnnounceHandshake(peer.ID(p.name), &network.BlockAnnounceHandshake{Roles: 1,
					BestBlockNumber: uint32(n.number), BestBlockHash: n.hash, GenesisHash: t.nodes[0].hash})
			})
			c.Count("svc_handshakes", 1)
			return
		}
		lines = append(lines, fmt.Sprintf("  %s announces best block %s", p.name, n.tag))
		announce(p, n, true)
	}
	for _, p := range peers {
		tell(p, true)
		if aborted || c.Failed() {
			return
		}
	}
	if svc.workerPool.totalWorkers() != len(peers) {
		c.Count("svc_worker_pool_size_differs_from_handshaken_peers", 1)
	}
	target := func() uint {
		mx := 0
		for _, p := range peers {
			if p.said > mx {
				mx = p.said
			}
		}
		return uint(mx)
	}
	settledAt, reachedAt := -1, -1
	var all []*c32Resp

	for it := 0; it < cfg.iters && !aborted; it++ {
		im.batch = it
		faults := it < cfg.faultIters
		lines = append(lines, fmt.Sprintf("iteration %d (node best #%d, target #%d, faults %v)", it, m.best.Number, target(), faults))
		for _, p := range peers {
			if p.cur >= p.tipNumber() {
				continue
			}
			if !faults {
				p.cur = p.tipNumber()
				tell(p, r.Chance(1, 4))
			} else if r.Chance(1, 2) {
				p.cur = min(p.tipNumber(), p.cur+vcommon.Pick(r, []int{1, 1, 2, 5, 40, 130, 300}))
				tell(p, false)
			}
			if aborted || c.Failed() {
				return
			}
		}
		if r.Chance(1, 5) && len(forks) > 0 {
			f := vcommon.Pick(r, forks)
			n := t.nodes[vcommon.Pick(r, f)]
			p := vcommon.Pick(r, peers)
			if p.has(t, n.idx) {
				lines = append(lines, fmt.Sprintf("  %s announces fork block %s", p.name, n.tag))
				announce(p, n, false)
				c.Count("svc_fork_announces", 1)
				if aborted || c.Failed() {
					return
				}
			}
		}
		if !faults && settledAt < 0 {
			settledAt = it
		}

		// ---- behaviour of every peer in this iteration, then the production loop body
		workers := svc.workerPool.totalWorkers()
		if workers == 0 {
			c.Inconclusive("harness: no worker in the pool (runStrategy would not return)")
			return
		}
		rm.mu.Lock()
		rm.it, rm.calls, rm.failBudget = it, nil, workers-1
		rm.behaviour = map[peer.ID]string{}
		for _, p := range peers {
			if faults && cfg.faultRate > 0 && r.Chance(1, cfg.faultRate) {
				rm.behaviour[peer.ID(p.name)] = vcommon.Pick(r, c32sDishonest)
			}
		}
		rm.mu.Unlock()
		known0 := map[common.Hash]bool{}
		for h := range m.known {
			known0[h] = true
		}
		nrep, nev := len(nw.reports), len(im.events)
		qBefore := fs.requestQueue.Len()
		guard("runStrategy", func() { svc.runStrategy() })
		if aborted {
			return
		}
		c.Count("svc_run_strategy_calls", 1)
		c.Eval(1)
		rm.mu.Lock()
		calls, herr := rm.calls, rm.harnessErr
		rm.mu.Unlock()
		if herr != "" {
			c.Inconclusive(herr)
			return
		}
		if len(calls) == 0 {
			c.Count("svc_idle_iterations", 1)
			lines = append(lines, "  no tasks")
			if settledAt >= 0 && m.best.Number >= target() && qBefore == 0 {
				if reachedAt < 0 {
					reachedAt = it
				}
				break
			}
			continue
		}
		c.Count("svc_iterations_with_tasks", 1)
		// in which order Do was called is up to the scheduler: sort the descriptions for the log
		var descr []string
		for _, cl := range calls {
			descr = append(descr, cl.descr)
		}
		sortStrings(descr)
		for _, d := range descr {
			lines = append(lines, "  "+d)
		}
		events := im.events[nev:]
		processErr := false
		// Process' own error is only logged by runStrategy; it shows as: responses were delivered, nothing was reported and
		// (when something importable was delivered) nothing was imported. It is not needed for a verdict below except to
		// excuse missing reports, so it is derived conservatively: any import-call problem in this call.
		for _, e := range events {
			if e.problem != "" {
				processErr = true
			}
		}
		sent := map[peer.ID]int{}       // bad responses per peer
		suspicious := map[peer.ID]int{} // responses of a kind that may cost reputation
		usedPeers := map[peer.ID]bool{}
		for _, cl := range calls {
			c.Count("svc_request_maker_calls", 1)
			usedPeers[cl.who] = true
			if cl.rp == nil {
				c.Count("svc_requests_failed", 1)
				continue
			}
			all = append(all, cl.rp)
			c.Count("svc_responses", 1)
			c.Count("svc_resp_"+cl.rp.kind, 1)
			if cl.rp.viaWire {
				c.Count("svc_responses_via_wire", 1)
			}
			if len(cl.rp.blocks) == messages.MaxBlocksInResponse {
				c.Count("svc_responses_of_128_blocks", 1)
			}
			if cl.rp.bad {
				sent[cl.who]++
				c.Count("svc_responses_bad", 1)
			}
			if cl.rp.kind != "honest" && cl.rp.kind != "wrongstart" && cl.rp.kind != "toolong" && cl.rp.kind != "empty" {
				suspicious[cl.who]++
			}
			if cl.req.StartingBlock.RawValue() != nil {
				if _, byHash := cl.req.StartingBlock.RawValue().(common.Hash); byHash {
					if cl.req.RequestField(messages.RequestedDataHeader) {
						c.Count("svc_tasks_ancestor_search", 1)
					} else {
						c.Count("svc_tasks_announced_body", 1)
					}
				} else {
					c.Count("svc_tasks_by_number", 1)
				}
			}
		}
		if len(usedPeers) > 1 {
			c.Count("svc_iterations_served_by_several_workers", 1)
		}
		neg := map[peer.ID]int{}
		for _, rep := range nw.reports[nrep:] {
			c.Count("svc_reports", 1)
			if rep.rep.Value < 0 {
				neg[rep.who]++
				c.Count("svc_negative_reports", 1)
				c.Eval(1)
				if suspicious[rep.who] == 0 {
					c.Violation("rep-names-wrong-peer", fmt.Sprintf("runStrategy reported %q (%d) to peer %s, which sent only honest-kind responses (or none) in this call",
						rep.rep.Reason, rep.rep.Value, string(rep.who)), witness(nil))
				}
			}
		}
		for p, k := range sent {
			c.Eval(1)
			switch {
			case neg[p] >= k:
				c.Count("svc_bad_response_reported_to_network", k)
			case processErr:
				c.Count("svc_bad_response_unreported_process_failed", k)
			default:
				c.Violation("bad-no-rep", fmt.Sprintf("peer %s sent %d bad response(s) in this runStrategy call, %d negative reputation change(s) naming it reached the network",
					string(p), k, neg[p]), witness(nil))
			}
		}
		for _, e := range events {
			c.Eval(1)
			switch e.problem {
			case "parent-unknown":
				c.Violation("parent-unknown", fmt.Sprintf("block #%d handed to the importer while its parent %s is not known", e.number, short(e.bd.Header.ParentHash)),
					witness(map[string]any{"call": e.seq}))
			case "imported-twice":
				c.Violation("imported-twice", fmt.Sprintf("header %s (#%d) processed by the importer a second time (stated hash %s)", short(e.hdrHash), e.number, short(e.stated)),
					witness(map[string]any{"call": e.seq}))
			case "no-header", "nil-block":
				c.Count("svc_import_call_"+e.problem, 1)
			}
		}
		// ---- no result is lost: an honest answer to a planned range whose first block's parent was known before the
		// call reaches the importer block by block (unless Process failed, or finality moved past it)
		if !processErr {
			reached := map[*types.BlockData]bool{}
			for _, e := range events {
				reached[e.bd] = true
			}
			var ranges []*c32sCall
			for _, cl := range calls {
				if cl.rp == nil || !cl.honest || cl.req.Direction != messages.Ascending || !cl.req.RequestField(messages.RequestedDataHeader) || len(cl.rp.bds) == 0 {
					continue
				}
				if _, byNum := cl.req.StartingBlock.RawValue().(uint); !byNum || cl.rp.bds[0].Header == nil {
					continue
				}
				ranges = append(ranges, cl)
			}
			for i := 1; i < len(ranges); i++ { // by first block number
				for j := i; j > 0 && ranges[j].rp.bds[0].Header.Number < ranges[j-1].rp.bds[0].Header.Number; j-- {
					ranges[j], ranges[j-1] = ranges[j-1], ranges[j]
				}
			}
			for _, cl := range ranges {
				if !known0[cl.rp.bds[0].Header.ParentHash] {
					continue
				}
				belowFinalised := false
				for _, bd := range cl.rp.bds {
					if bd.Header.Number <= m.finalised.Number {
						belowFinalised = true
					}
				}
				if belowFinalised {
					c.Count("svc_honest_range_at_or_below_finalised_not_judged", 1)
					continue
				}
				c.Eval(1)
				// a block that Process parked in unreadyBlocks (with an ancestor search queued) is held, not lost:
				// conservation is delivered = imported + known + held
				held := map[common.Hash]bool{}
				fs.unreadyBlocks.mtx.RLock()
				for _, fr := range fs.unreadyBlocks.disjointFragments {
					for _, bd := range fr {
						held[bd.Hash] = true
					}
				}
				fs.unreadyBlocks.mtx.RUnlock()
				missing, parked := 0, 0
				for _, bd := range cl.rp.bds {
					if !reached[bd] && !m.known[bd.Hash] {
						if held[bd.Hash] {
							parked++
						} else {
							missing++
						}
					}
					known0[bd.Hash] = true // the next range of the same call hangs on this one
				}
				if parked > 0 {
					c.Count("svc_honest_range_blocks_parked_in_unready_blocks_not_lost", parked)
				}
				if missing > 0 {
					c.Violation("result-lost", fmt.Sprintf("%d block(s) of the honest response %s never reached the importer and are not known afterwards", missing, cl.descr), witness(nil))
				} else {
					c.Count("svc_honest_range_results_delivered", 1)
				}
			}
		}
		if c.Failed() {
			return
		}
		if reachedAt < 0 && settledAt >= 0 && m.best.Number >= target() {
			reachedAt = it
		}
	}
	if aborted {
		return
	}

	// ---- offline
	for _, e := range im.events {
		if rp, ok := rm.owner[e.bd]; ok && rp.bad {
			_, why := c32IsBad(rp)
			c.Violation("bad-accepted", fmt.Sprintf("a block of response %s (%s: %s) was handed to the importer", string(rp.who), rp.kind, why),
				witness(map[string]any{"response": rp.String(t), "call": e.seq}))
			break
		}
	}
	known := map[common.Hash]bool{t.nodes[0].hash: true}
	for _, n := range initial {
		known[t.nodes[n].hash] = true
	}
	seen := map[common.Hash]int{}
	processed, forkImported := 0, 0
	for _, e := range im.events {
		if !e.processed {
			continue
		}
		c.Eval(1)
		processed++
		if !known[e.bd.Header.ParentHash] {
			c.Violation("parent-unknown", "offline replay: parent unknown at import time", witness(map[string]any{"call": e.seq}))
		}
		seen[e.hdrHash]++
		if seen[e.hdrHash] > 1 {
			c.Violation("imported-twice", "offline replay: header imported twice", witness(map[string]any{"call": e.seq}))
		}
		known[e.hdrHash] = true
		if i, ok := t.byHash[e.hdrHash]; ok && t.nodes[i].tag[0] == 'f' {
			forkImported++
		}
	}
	c.Count("svc_runs", 1)
	c.Count("svc_blocks_imported", processed)
	c.Count("svc_fork_blocks_imported", forkImported)
	if settledAt >= 0 {
		c.Count("svc_runs_settled", 1)
		if reachedAt >= 0 {
			c.Count("svc_target_reached_after_faults_stopped", 1)
		} else {
			c.Count("svc_target_not_reached_within_budget", 1)
		}
	}
	if processed > 0 {
		// the set of responses (not their order) is the shape
		var kinds []string
		for _, rp := range all {
			kinds = append(kinds, fmt.Sprintf("%s%d%v", rp.kind, len(rp.blocks), rp.dir))
		}
		sortStrings(kinds)
		c.Distinct(fmt.Sprintf("svc|%d|%d|n%d|%s", len(t.nodes), processed, cfg.numOfTasks, strings.Join(kinds, ",")))
	}
	smp := lines
	if len(smp) > 40 {
		smp = append(append([]string{}, smp[:30]...), "...")
	}
	c.Sample(map[string]any{"loop": smp, "imported": processed, "reached_target_at": reachedAt, "settled_at": settledAt, "reports": len(nw.reports)})
}

func sortStrings(s []string) {
	for i := 1; i < len(s); i++ {
		for j := i; j > 0 && s[j] < s[j-1]; j-- {
			s[j], s[j-1] = s[j-1], s[j]
		}
	}
}

func c32SvcGroups(r *vcommon.Run) {
	r.Floor("svc_runs", 300)
	r.Floor("svc_run_strategy_calls", 2000)
	r.Floor("svc_iterations_with_tasks", 1000)
	r.Floor("svc_iterations_served_by_several_workers", 300)
	r.Floor("svc_request_maker_calls", 2200)
	r.Floor("svc_requests_failed", 200)
	r.Floor("svc_blocks_imported", 8000)
	r.Floor("svc_fork_blocks_imported", 100)
	r.Floor("svc_tasks_by_number", 1000)
	r.Floor("svc_tasks_ancestor_search", 80)
	r.Floor("svc_tasks_announced_body", 300)
	r.Floor("svc_responses_bad", 150)
	r.Floor("svc_bad_response_reported_to_network", 150)
	r.Floor("svc_negative_reports", 150)
	r.Floor("svc_announce_reports", 500)
	r.Floor("svc_handshakes", 500)
	r.Floor("svc_honest_range_results_delivered", 400)
	r.Floor("svc_responses_of_128_blocks", 30)
	r.Floor("svc_target_reached_after_faults_stopped", 250)

	corpus := []c32lCfg{
		{L: 5, nPeers: 1, numOfTasks: 3, iters: 4},
		{L: 130, nPeers: 1, numOfTasks: 1, iters: 6},
		{L: 400, nPeers: 3, numOfTasks: 3, iters: 6},
		{L: 12, forks: 2, forkLen: 3, nPeers: 3, numOfTasks: 2, iters: 14, faultIters: 6, faultRate: 2, grow: true},
		{L: 260, forks: 2, forkLen: 5, nPeers: 3, numOfTasks: 3, iters: 16, faultIters: 6, faultRate: 2, grow: true},
		{L: 20, forks: 3, forkLen: 4, nPeers: 4, numOfTasks: 3, iters: 16, faultIters: 8, faultRate: 2, knownPrefix: 4},
		{L: 8, forks: 2, forkLen: 3, nPeers: 2, numOfTasks: 4, iters: 20, faultIters: 12, faultRate: 1, grow: true},
		{L: 383, forks: 1, forkLen: 8, nPeers: 2, numOfTasks: 3, iters: 12, faultIters: 4, faultRate: 2, grow: true},
	}
	r.Fixed("svc-corpus", len(corpus), func(c *vcommon.Case) {
		c.Count("svc_corpus_runs", 1)
		c32sRun(c, corpus[c.Idx])
	})
	r.Cases("svc", r.Scale(520), func(c *vcommon.Case) {
		c32sRun(c, c32lRandomCfg(c.R, false))
	})
	r.Cases("svc-big", r.Scale(60), func(c *vcommon.Case) {
		c.Count("svc_big_runs", 1)
		c32sRun(c, c32lRandomCfg(c.R, true))
	})
}
