//go:build verif

package sync

// Shared model of the sync engine's checks (C31, C32): an explicit block tree
// owned by the harness. Everything the oracles decide is decided from this
// tree (parent indexes, numbers, independently computed header hashes), never
// from the state of the code under test.

import (
	"encoding/json"
	"fmt"

	"github.com/ChainSafe/gossamer/dot/types"
	"github.com/ChainSafe/gossamer/lib/common"
	"github.com/ChainSafe/gossamer/pkg/scale"
	"github.com/ChainSafe/gossamer/zz_verif/vcommon"
)

type vNode struct {
	idx      int
	parent   int // -1 for the root
	number   uint
	header   *types.Header // master copy; the code under test only ever sees copies
	hash     common.Hash   // blake2b-256(SCALE(header)), computed by the harness
	body     *types.Body
	receipt  []byte // nil = none stored
	msgq     []byte
	just     []byte
	children []int
	tag      string // "g", "m<i>" main chain, "f<k>.<i>" fork k
}

type vTree struct {
	nodes  []*vNode
	byHash map[common.Hash]int
	minExt int // minimum number of extrinsics per body (an empty body does not survive the protobuf wire format)
	// stateRoot, when set, is the state root of every block added afterwards (the real block importer insists that
	// the parent's state root is the root of the trie the storage state hands out)
	stateRoot *common.Hash
}

func vHeaderHash(h *types.Header) common.Hash {
	cp := types.Header{ParentHash: h.ParentHash, Number: h.Number, StateRoot: h.StateRoot,
		ExtrinsicsRoot: h.ExtrinsicsRoot, Digest: h.Digest}
	enc, err := scale.Marshal(cp)
	if err != nil {
		panic(err)
	}
	return common.Hash(vcommon.Blake256(enc))
}

func vBabeDigest(authority uint32, slot uint64) types.Digest {
	bd := types.NewBabeDigest()
	if err := bd.SetValue(types.BabePrimaryPreDigest{AuthorityIndex: authority, SlotNumber: slot}); err != nil {
		panic(err)
	}
	enc, err := scale.Marshal(bd)
	if err != nil {
		panic(err)
	}
	d := types.NewDigest()
	if err := d.Add(types.PreRuntimeDigest{ConsensusEngineID: types.BabeEngineID, Data: enc}); err != nil {
		panic(err)
	}
	return d
}

func newVTree(r *vcommon.Rand) *vTree { return newVTreeRoot(r, nil) }

func newVTreeRoot(r *vcommon.Rand, stateRoot *common.Hash) *vTree {
	t := &vTree{byHash: map[common.Hash]int{}, stateRoot: stateRoot}
	var sr common.Hash
	copy(sr[:], r.Bytes(32))
	if stateRoot != nil {
		sr = *stateRoot
	}
	g := &types.Header{Number: 0, StateRoot: sr, Digest: types.NewDigest()}
	t.nodes = append(t.nodes, &vNode{idx: 0, parent: -1, number: 0, header: g, hash: vHeaderHash(g),
		body: types.NewBody([]types.Extrinsic{}), tag: "g"})
	t.byHash[t.nodes[0].hash] = 0
	return t
}

// addChild appends a block on top of node parent. Each block gets a unique
// state root, a BABE primary pre-digest, a small body and (optionally) receipt,
// message queue and justification blobs.
func (t *vTree) addChild(r *vcommon.Rand, parent int, tag string, extras bool) int {
	p := t.nodes[parent]
	var sr, er common.Hash
	copy(sr[:], r.Bytes(32))
	copy(er[:], r.Bytes(32))
	if t.stateRoot != nil {
		sr = *t.stateRoot
	}
	h := &types.Header{ParentHash: p.hash, Number: p.number + 1, StateRoot: sr, ExtrinsicsRoot: er,
		Digest: vBabeDigest(uint32(r.Intn(4)), uint64(1000+len(t.nodes)))}
	n := &vNode{idx: len(t.nodes), parent: parent, number: p.number + 1, header: h, hash: vHeaderHash(h), tag: tag}
	var exts []types.Extrinsic
	for i, k := 0, r.Range(t.minExt, 2); i < k; i++ {
		exts = append(exts, types.Extrinsic(r.Bytes(r.Range(1, 6))))
	}
	if exts == nil {
		exts = []types.Extrinsic{}
	}
	n.body = types.NewBody(exts)
	if extras {
		if r.Chance(1, 2) {
			n.receipt = r.Bytes(r.Range(1, 5))
		}
		if r.Chance(1, 2) {
			n.msgq = r.Bytes(r.Range(1, 5))
		}
		if r.Chance(1, 2) {
			n.just = r.Bytes(r.Range(1, 5))
		}
	}
	if _, dup := t.byHash[n.hash]; dup {
		panic("harness: duplicate header hash generated")
	}
	t.nodes = append(t.nodes, n)
	t.byHash[n.hash] = n.idx
	p.children = append(p.children, n.idx)
	return n.idx
}

func (t *vTree) isAncestor(a, d int) bool { // a is an ancestor of d or a == d
	for d >= 0 {
		if d == a {
			return true
		}
		if t.nodes[d].number <= t.nodes[a].number {
			return false
		}
		d = t.nodes[d].parent
	}
	return false
}

// copyHeader returns a fresh header value without a cached hash (what the
// wire decoder would produce).
func copyHeader(h *types.Header) *types.Header {
	dg := make(types.Digest, len(h.Digest))
	copy(dg, h.Digest)
	return &types.Header{ParentHash: h.ParentHash, Number: h.Number, StateRoot: h.StateRoot,
		ExtrinsicsRoot: h.ExtrinsicsRoot, Digest: dg}
}

func copyBody(b *types.Body) *types.Body {
	if b == nil {
		return nil
	}
	out := make([]types.Extrinsic, len(*b))
	for i, e := range *b {
		out[i] = append(types.Extrinsic{}, e...)
	}
	return types.NewBody(out)
}

func copyBytesPtr(b []byte) *[]byte {
	if b == nil {
		return nil
	}
	c := append([]byte{}, b...)
	return &c
}

type nopTelemetry struct{}

func (nopTelemetry) SendMessage(json.Marshaler) {}

func short(h common.Hash) string { return fmt.Sprintf("%x", h[:4]) }
