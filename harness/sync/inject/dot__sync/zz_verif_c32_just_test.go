//go:build verif

package sync

// C32 / C19 at the import boundary: blockImporter.processBlockData with a REAL
// finality gadget.
//
// The real-importer groups of zz_verif_c32_real_test.go run the importer against
// a gadget that accepts everything. Here the FinalityGadget is a real
// lib/grandpa.Service (real state.GrandpaState holding 1-2 authority sets, the
// set change recorded through SetNextChange + IncrementSetID) behind a recording
// pass-through; block state, storage, runtime and import handler stay the
// recording fakes of the real groups. Responses (planned ranges with overlaps,
// forks, re-deliveries of known blocks, announced blocks completed by a body +
// justification response; a quarter through the protobuf codec) carry
// justifications generated from an abstract spec:
//   valid       >= threshold distinct authorities of the block's set sign (round, set id, precommit) on the block
//               or its descendants (fewer than threshold on descendants: the GHOST is the block), exact ancestry
//   sibling / parent / child   the same, valid for ANOTHER block, attached to this one
//   nonauth     enough signers replaced by keys outside the set that the authorities alone are below the threshold
//   lowweight   threshold-1 authority signatures
//   wrongset / wronground      every signature made over set id+1 (or by/for the other set) / round+1
//   badnumber   commit target number off by one
//   missinghdr / extrahdr      one ancestry header dropped / one unrelated header added
//   garbage / truncated        random bytes / a valid encoding cut short
// Reference verdict (c32jVerdict): decided from the spec, the harness' authority
// bookkeeping (set of block n = #{changes recorded at a block < n}) and the
// harness tree only; cases outside the unambiguous region are "undecided" and
// only counted.
// Oracles:
//   just-accepted-invalid / just-rejected-valid     the gadget's answer for (hash, number, bytes) differs from the verdict of
//                                                   the justification with these bytes attached to that block in this call
//   just-wrong-round-or-set                         accepted, but the returned (round, setID) is not (spec round, set of the block)
//   just-verified-for-other-block                   the gadget was asked about bytes that were not attached to the block it was asked about
//   finalised-without-valid-justification           SetFinalisedHash(h, round, setID) attempted while no justification attached to h in
//                                                   this Process call is valid for h with that round / set id
//   parent-not-imported / reimported / re-executed  the import oracles of the real groups
// What production does with the BLOCK of a refused justification (not imported,
// Process fails, rest of the call dropped, nobody penalised) is counted only.

import (
	"bytes"
	"fmt"
	"io"
	"os"
	"sort"
	"strings"
	gosync "sync"

	"github.com/ChainSafe/gossamer/dot/network"
	"github.com/ChainSafe/gossamer/dot/network/messages"
	"github.com/ChainSafe/gossamer/dot/state"
	"github.com/ChainSafe/gossamer/dot/types"
	"github.com/ChainSafe/gossamer/internal/database"
	"github.com/ChainSafe/gossamer/internal/log"
	primitives "github.com/ChainSafe/gossamer/internal/primitives/consensus/grandpa"
	ced25519 "github.com/ChainSafe/gossamer/internal/primitives/core/ed25519"
	"github.com/ChainSafe/gossamer/internal/primitives/core/hash"
	pruntime "github.com/ChainSafe/gossamer/internal/primitives/runtime"
	"github.com/ChainSafe/gossamer/internal/primitives/runtime/generic"
	"github.com/ChainSafe/gossamer/lib/common"
	"github.com/ChainSafe/gossamer/lib/crypto/ed25519"
	"github.com/ChainSafe/gossamer/lib/grandpa"
	fgrandpa "github.com/ChainSafe/gossamer/pkg/finality-grandpa"
	"github.com/ChainSafe/gossamer/pkg/scale"
	"github.com/ChainSafe/gossamer/pkg/trie/inmemory"
	"github.com/ChainSafe/gossamer/zz_verif/vcommon"
	"github.com/libp2p/go-libp2p/core/peer"
	"github.com/libp2p/go-libp2p/core/protocol"
)

// ---------------------------------------------------------------- keys

const (
	c32jPool    = 12 // key pool
	c32jAuthMax = 9  // keys 0..8 may be authorities, 9..11 never are
)

var c32jSeeds = func() [][32]byte {
	var out [][32]byte
	for i := 0; i < c32jPool; i++ {
		var seed [32]byte
		for j := range seed {
			seed[j] = byte(i*29 + j*5 + 3)
		}
		out = append(out, seed)
	}
	return out
}()

var c32jPairs = func() []ced25519.Pair {
	var out []ced25519.Pair
	for _, seed := range c32jSeeds {
		out = append(out, ced25519.NewPairFromSeed(seed))
	}
	return out
}()

var c32jLibKeys = func() []*ed25519.Keypair {
	var out []*ed25519.Keypair
	for _, seed := range c32jSeeds {
		kp, err := ed25519.NewKeypairFromSeed(seed[:])
		if err != nil {
			panic(err)
		}
		out = append(out, kp)
	}
	return out
}()

func c32jPub(k int) ced25519.Public { return c32jPairs[k].Public().(ced25519.Public) }

func c32jVoters(listing []int) []types.GrandpaVoter {
	var out []types.GrandpaVoter
	for i, k := range listing {
		out = append(out, types.GrandpaVoter{Key: *c32jLibKeys[k].Public().(*ed25519.PublicKey), ID: uint64(i)})
	}
	return out
}

var c32jQuietOnce gosync.Once

func c32Quiet() {
	c32jQuietOnce.Do(func() {
		if os.Getenv("VERIF_SYNC_LOGS") != "" {
			return
		}
		log.Patch(log.SetLevel(log.Critical), log.SetWriter(io.Discard))
		logger.Patch(log.SetLevel(log.Critical), log.SetWriter(io.Discard))
	})
}

// ---------------------------------------------------------------- the gadget's own network (never used)

type c32jGrandpaNet struct{}

func (c32jGrandpaNet) GossipMessage(network.NotificationsMessage)              {}
func (c32jGrandpaNet) SendMessage(peer.ID, network.NotificationsMessage) error { return nil }
func (c32jGrandpaNet) RegisterNotificationsProtocol(protocol.ID, network.MessageType, network.HandshakeGetter,
	network.HandshakeDecoder, network.HandshakeValidator, network.MessageDecoder, network.NotificationsMessageHandler,
	network.NotificationsMessageBatchHandler, uint64) error {
	return nil
}

// ---------------------------------------------------------------- world, spec, verdict

type c32jWorld struct {
	tree     *vTree
	main     []int
	forks    [][]int
	sets     [][]int // per set id: key indexes in listing order
	changeAt []uint  // changeAt[k-1] = number of the last block of set k-1
	gen      map[int]pruntime.Header[uint32, hash.H256]
}

func (w *c32jWorld) setOf(num uint) int {
	n := 0
	for _, at := range w.changeAt {
		if at < num {
			n++
		}
	}
	return n
}

func (w *c32jWorld) h256(node int) hash.H256 { return hash.H256(w.tree.nodes[node].hash.ToBytes()) }

func (w *c32jWorld) header(node int) (pruntime.Header[uint32, hash.H256], error) {
	if h, ok := w.gen[node]; ok {
		return h, nil
	}
	enc, err := scale.Marshal(*w.tree.nodes[node].header)
	if err != nil {
		return nil, err
	}
	gh := new(generic.Header[uint32, hash.H256, pruntime.BlakeTwo256])
	if err = scale.Unmarshal(enc, gh); err != nil {
		return nil, err
	}
	if gh.Hash() != w.h256(node) {
		return nil, fmt.Errorf("generic header of %s hashes differently from the harness hash", w.tree.nodes[node].tag)
	}
	w.gen[node] = gh
	return gh, nil
}

type c32jPC struct {
	Key    int `json:"key"`
	Target int `json:"target_node"`
	Sig    int `json:"sig"` // 0 good, 1 signed over round+1, 3 one bit of the signature flipped
}

type c32jSpec struct {
	Kind      string   `json:"kind"`
	ForNode   int      `json:"built_for_node"`
	Round     uint64   `json:"round"`
	SignedSet uint64   `json:"signed_set_id"`
	Target    int      `json:"commit_target_node"`
	NumOff    int      `json:"commit_number_offset"`
	PCs       []c32jPC `json:"precommits"`
	Headers   []int    `json:"ancestry_nodes"`
	Raw       []byte   `json:"raw,omitempty"`
	Cut       int      `json:"cut,omitempty"`
	enc       []byte
}

// route: nodes on the path from anc (exclusive) to d (inclusive); ok=false when anc is not an ancestor-or-self of d.
func (w *c32jWorld) route(anc, d int) ([]int, bool) {
	var out []int
	for d >= 0 && d != anc {
		if w.tree.nodes[d].number <= w.tree.nodes[anc].number {
			return nil, false
		}
		out = append(out, d)
		d = w.tree.nodes[d].parent
	}
	return out, d == anc
}

func c32jThreshold(n int) int { return n - (n-1)/3 }

// c32jVerdict is the reference verdict for spec presented with block `presented`.
func c32jVerdict(w *c32jWorld, s *c32jSpec, presented int) (valid, decided bool, why string) {
	if s.Raw != nil || s.Cut > 0 {
		return false, true, "not a decodable justification"
	}
	if s.Target != presented || s.NumOff != 0 {
		return false, true, "commit target is not the presented block"
	}
	set := w.setOf(w.tree.nodes[presented].number)
	members := map[int]bool{}
	for _, k := range w.sets[set] {
		members[k] = true
	}
	thr := c32jThreshold(len(members))
	seen := map[int]bool{}
	good, allGood, onTarget := 0, true, 0
	sub := map[int]int{} // weight per child subtree of the target
	need := map[int]bool{}
	for _, pc := range s.PCs {
		rt, desc := w.route(s.Target, pc.Target)
		ok := members[pc.Key] && pc.Sig == 0 && s.SignedSet == uint64(set) && !seen[pc.Key] && desc
		seen[pc.Key] = true
		if !ok {
			allGood = false
			continue
		}
		good++
		if len(rt) == 0 {
			onTarget++
		} else {
			sub[rt[len(rt)-1]]++
			for _, n := range rt {
				need[n] = true
			}
		}
	}
	if good < thr {
		return false, true, fmt.Sprintf("%d valid authority precommits, threshold %d", good, thr)
	}
	if !allGood || onTarget == 0 {
		return false, false, "supermajority present next to invalid precommits / no precommit on the target itself"
	}
	for _, wgt := range sub {
		if wgt >= thr {
			return false, true, "the precommit GHOST is a descendant of the target"
		}
	}
	got := map[int]bool{}
	for _, h := range s.Headers {
		got[h] = true
	}
	if len(got) != len(need) {
		return false, true, "ancestry headers are not exactly the routes of the precommits"
	}
	for n := range need {
		if !got[n] {
			return false, true, "ancestry headers are not exactly the routes of the precommits"
		}
	}
	return true, true, ""
}

func (w *c32jWorld) encode(s *c32jSpec) error {
	if s.Raw != nil {
		s.enc = s.Raw
		return nil
	}
	j := primitives.GrandpaJustification[hash.H256, uint32]{
		Round: s.Round,
		Commit: primitives.Commit[hash.H256, uint32]{
			TargetHash:   w.h256(s.Target),
			TargetNumber: uint32(int(w.tree.nodes[s.Target].number) + s.NumOff),
		},
		VoteAncestries: []pruntime.Header[uint32, hash.H256]{},
	}
	for _, pc := range s.PCs {
		p := fgrandpa.Precommit[hash.H256, uint32]{TargetHash: w.h256(pc.Target), TargetNumber: uint32(w.tree.nodes[pc.Target].number)}
		round := s.Round
		if pc.Sig == 1 {
			round++
		}
		payload := primitives.NewLocalizedPayload(primitives.RoundNumber(round), primitives.SetID(s.SignedSet), fgrandpa.NewMessage(p))
		sig := c32jPairs[pc.Key].Sign(payload)
		if pc.Sig == 3 {
			sig[21] ^= 0x10
		}
		j.Commit.Precommits = append(j.Commit.Precommits,
			fgrandpa.SignedPrecommit[hash.H256, uint32, primitives.AuthoritySignature, primitives.AuthorityID]{
				Precommit: p, Signature: sig, ID: c32jPub(pc.Key)})
	}
	for _, n := range s.Headers {
		h, err := w.header(n)
		if err != nil {
			return err
		}
		j.VoteAncestries = append(j.VoteAncestries, h)
	}
	enc, err := scale.Marshal(j)
	if err != nil {
		return err
	}
	if s.Cut > 0 {
		if s.Cut >= len(enc) {
			s.Cut = len(enc) - 1
		}
		enc = enc[:s.Cut]
	}
	s.enc = enc
	return nil
}

func (w *c32jWorld) descendants(node int) []int {
	var out []int
	var rec func(int)
	rec = func(n int) {
		for _, c := range w.tree.nodes[n].children {
			out = append(out, c)
			rec(c)
		}
	}
	rec(node)
	return out
}

// c32jBase: a justification that is valid for node x by construction (checked against the verdict by the caller).
func c32jBase(r *vcommon.Rand, w *c32jWorld, x int) *c32jSpec {
	set := w.setOf(w.tree.nodes[x].number)
	listing := w.sets[set]
	n := len(listing)
	thr := c32jThreshold(n)
	s := &c32jSpec{Kind: "valid", ForNode: x, Round: uint64(r.Range(1, 5000)), SignedSet: uint64(set), Target: x}
	signers := r.Perm(n)[:r.Range(thr, n)]
	desc := w.descendants(x)
	d := 0
	if len(desc) > 0 && thr > 1 {
		d = r.Intn(min(thr, len(signers))) // < thr and at least one signer stays on x
	}
	need := map[int]bool{}
	for i, si := range signers {
		tgt := x
		if i < d {
			tgt = vcommon.Pick(r, desc)
			rt, _ := w.route(x, tgt)
			for _, q := range rt {
				need[q] = true
			}
		}
		s.PCs = append(s.PCs, c32jPC{Key: listing[si], Target: tgt})
	}
	for q := range need {
		s.Headers = append(s.Headers, q)
	}
	sort.Ints(s.Headers)
	// order of precommits and headers is free
	p := r.Perm(len(s.PCs))
	pcs := make([]c32jPC, len(s.PCs))
	for i, j := range p {
		pcs[i] = s.PCs[j]
	}
	s.PCs = pcs
	return s
}

var c32jInvalidKinds = []string{"sibling", "sibling", "parent", "parent", "child", "nonauth", "nonauth", "lowweight", "lowweight",
	"wrongset", "wronground", "badnumber", "missinghdr", "extrahdr", "garbage", "truncated", "bitflip"}

// c32jGen builds a justification of the wanted kind to be attached to node; nil when the kind does not apply there.
func c32jGen(r *vcommon.Rand, w *c32jWorld, node int, kind string) *c32jSpec {
	t := w.tree
	nd := t.nodes[node]
	switch kind {
	case "valid":
		return c32jBase(r, w, node)
	case "sibling":
		var sib []int
		for _, o := range t.nodes {
			if o.number == nd.number && o.idx != node {
				sib = append(sib, o.idx)
			}
		}
		if len(sib) == 0 {
			return nil
		}
		s := c32jBase(r, w, vcommon.Pick(r, sib))
		s.Kind = kind
		return s
	case "parent":
		if nd.parent <= 0 {
			return nil
		}
		s := c32jBase(r, w, nd.parent)
		s.Kind = kind
		return s
	case "child":
		if len(nd.children) == 0 {
			return nil
		}
		s := c32jBase(r, w, vcommon.Pick(r, nd.children))
		s.Kind = kind
		return s
	}
	s := c32jBase(r, w, node)
	s.Kind = kind
	set := w.setOf(nd.number)
	members := map[int]bool{}
	for _, k := range w.sets[set] {
		members[k] = true
	}
	thr := c32jThreshold(len(members))
	switch kind {
	case "nonauth":
		var outs []int
		for k := 0; k < c32jPool; k++ {
			if !members[k] {
				outs = append(outs, k)
			}
		}
		repl := len(s.PCs) - thr + 1
		if r.Bool() {
			repl = len(s.PCs)
		}
		if repl > len(outs) {
			return nil
		}
		p := r.Perm(len(outs))
		for i := 0; i < repl; i++ {
			s.PCs[i].Key = outs[p[i]]
		}
	case "lowweight":
		if thr < 2 {
			return nil
		}
		// keep thr-1 precommits, one of them on the target itself
		sort.SliceStable(s.PCs, func(i, j int) bool { return s.PCs[i].Target == node && s.PCs[j].Target != node })
		s.PCs = s.PCs[:thr-1]
		need := map[int]bool{}
		for _, pc := range s.PCs {
			rt, _ := w.route(node, pc.Target)
			for _, q := range rt {
				need[q] = true
			}
		}
		s.Headers = nil
		for q := range need {
			s.Headers = append(s.Headers, q)
		}
		sort.Ints(s.Headers)
	case "wrongset":
		s.SignedSet++
		if len(w.sets) > 1 && r.Bool() { // signed by and for the other set
			other := 1 - set
			o := c32jBase(r, w, node)
			o.PCs = o.PCs[:0]
			for i, k := range w.sets[other] {
				if i < c32jThreshold(len(w.sets[other])) {
					o.PCs = append(o.PCs, c32jPC{Key: k, Target: node})
				}
			}
			o.Headers = nil
			o.SignedSet = uint64(other)
			o.Kind = kind
			return o
		}
	case "wronground":
		for i := range s.PCs {
			s.PCs[i].Sig = 1
		}
	case "bitflip":
		// enough signatures damaged that the intact ones are below the threshold
		for i := 0; i < len(s.PCs)-thr+1; i++ {
			s.PCs[i].Sig = 3
		}
	case "badnumber":
		s.NumOff = vcommon.Pick(r, []int{1, -1, 2})
		if int(nd.number)+s.NumOff < 0 {
			s.NumOff = 1
		}
	case "missinghdr":
		if len(s.Headers) == 0 {
			return nil
		}
		i := r.Intn(len(s.Headers))
		s.Headers = append(s.Headers[:i:i], s.Headers[i+1:]...)
	case "extrahdr":
		need := map[int]bool{}
		for _, h := range s.Headers {
			need[h] = true
		}
		var cands []int
		for _, o := range t.nodes {
			if o.idx != node && !need[o.idx] && o.idx != 0 {
				cands = append(cands, o.idx)
			}
		}
		if len(cands) == 0 {
			return nil
		}
		s.Headers = append(s.Headers, vcommon.Pick(r, cands))
	case "garbage":
		s.Raw = r.Bytes(r.Range(1, 80))
	case "truncated":
		s.Cut = r.Range(1, 200)
	default:
		return nil
	}
	return s
}

// ---------------------------------------------------------------- recording collaborators

type c32jFin struct {
	hash       common.Hash
	round, set uint64
}

type c32jState struct {
	c32rState
	fins []c32jFin
}

func (s *c32jState) SetFinalisedHash(h common.Hash, round, set uint64) error {
	s.fins = append(s.fins, c32jFin{h, round, set})
	return s.c32rState.SetFinalisedHash(h, round, set)
}

var _ BlockState = (*c32jState)(nil)

type c32jCall struct {
	hash       common.Hash
	number     uint
	enc        []byte
	round, set uint64
	err        error
}

type c32jGadget struct {
	inner FinalityGadget
	w     *c32rWorld
	calls []c32jCall
}

func (g *c32jGadget) VerifyBlockJustification(h common.Hash, n uint, enc []byte) (uint64, uint64, error) {
	round, set, err := g.inner.VerifyBlockJustification(h, n, enc)
	g.calls = append(g.calls, c32jCall{hash: h, number: n, enc: append([]byte{}, enc...), round: round, set: set, err: err})
	res := "ok"
	if err != nil {
		res = "refused"
	}
	g.w.log = append(g.w.log, "verify:"+g.w.tag(h)+":"+res)
	return round, set, err
}

type c32jBabe struct{ calls int }

func (b *c32jBabe) VerifyBlock(*types.Header) error { b.calls++; return nil }

// ---------------------------------------------------------------- driver

type c32jCfg struct {
	L, forks  int
	twoSets   bool
	validPct  int // per delivered block: chance (in %) of a valid justification
	badPct    int // ... of an invalid one
	forceKind string
	steps     int
}

func c32jRun(c *vcommon.Case, cfg c32jCfg) {
	c32Quiet()
	r := c.R
	root := inmemory.NewEmptyTrie().MustHash()
	t, main, forks := c32TreeOpt(r, cfg.L, cfg.forks, 3, &root, false)
	if r.Chance(2, 3) { // a sibling of a main block, so that "valid for the sibling" applies
		at := r.Range(0, cfg.L-1)
		f := t.addChild(r, main[at], fmt.Sprintf("s.%d", at+1), false)
		forks = append(forks, []int{f})
	}
	jw := &c32jWorld{tree: t, main: main, forks: forks, gen: map[int]pruntime.Header[uint32, hash.H256]{}}
	pick := func(n int) []int { return r.Perm(c32jAuthMax)[:n] }
	jw.sets = append(jw.sets, pick(vcommon.Pick(r, []int{1, 2, 3, 4, 4, 5, 6, 7})))
	if cfg.twoSets {
		jw.changeAt = append(jw.changeAt, uint(r.Range(1, max(1, cfg.L-1))))
		if r.Chance(1, 4) {
			jw.sets = append(jw.sets, append([]int{}, jw.sets[0]...))
		} else {
			jw.sets = append(jw.sets, pick(vcommon.Pick(r, []int{1, 3, 4, 5, 7})))
		}
	}
	for k := range c32jPairs {
		pub := c32jPub(k)
		if string(pub[:]) != string(c32jLibKeys[k].Public().Encode()) {
			c.Inconclusive("harness: the two ed25519 packages derive different public keys from one seed")
			return
		}
	}

	// ---- the real gadget
	db, err := database.LoadDatabase("/verif-mem-c32j", true)
	if err != nil {
		c.Inconclusive("harness: in-memory database: " + err.Error())
		return
	}
	defer db.Close()
	gbs, err := state.NewBlockStateFromGenesis(db, state.NewTries(), copyHeader(t.nodes[0].header), nopTelemetry{})
	if err != nil {
		c.Inconclusive("harness: block state of the gadget: " + err.Error())
		return
	}
	gs, err := state.NewGrandpaStateFromGenesis(db, gbs, c32jVoters(jw.sets[0]), nopTelemetry{})
	if err != nil {
		c.Inconclusive("harness: grandpa state: " + err.Error())
		return
	}
	for k, at := range jw.changeAt {
		if err = gs.SetNextChange(c32jVoters(jw.sets[k+1]), at); err == nil {
			_, err = gs.IncrementSetID()
		}
		if err != nil {
			c.Inconclusive("harness: recording the set change: " + err.Error())
			return
		}
	}
	svc, err := grandpa.NewService(&grandpa.Config{LogLvl: log.Critical, BlockState: gbs, GrandpaState: gs, Network: c32jGrandpaNet{},
		Voters: c32jVoters(jw.sets[0]), Authority: false, Telemetry: nopTelemetry{}})
	if err != nil {
		c.Inconclusive("harness: grandpa.NewService: " + err.Error())
		return
	}
	defer func() { _ = svc.Stop() }()

	// ---- the importer and its recording collaborators
	w := &c32rWorld{tree: t, emptyRoot: root,
		headers:  map[common.Hash]*types.Header{t.nodes[0].hash: t.nodes[0].header},
		imported: map[common.Hash]int{}, executed: map[common.Hash]int{}}
	w.finalised, w.best = t.nodes[0].header, t.nodes[0].header
	st := &c32jState{}
	st.w, st.rt = w, &c32rRuntime{w: w}
	st.c32State.m = &c32Model{}
	gadget := &c32jGadget{inner: svc, w: w}
	babe := &c32jBabe{}
	fs := NewFullSyncStrategy(&FullSyncConfig{
		BlockState: st, StorageState: &c32rStorage{w: w}, TransactionState: c32rTx{}, BabeVerifier: babe,
		FinalityGadget: gadget, BlockImportHandler: &c32rHandler{w: w}, Telemetry: nopTelemetry{},
	})
	if _, ok := fs.blockImporter.(*blockImporter); !ok {
		c.Inconclusive("harness: the strategy is not using the real blockImporter")
		return
	}

	var lines []string
	var specsUsed []*c32jSpec
	witness := func(extra map[string]any) map[string]any {
		lg := w.log
		if len(lg) > 120 {
			lg = append(append([]string{}, lg[:60]...), append([]string{"..."}, lg[len(lg)-50:]...)...)
		}
		var sets []string
		for i, s := range jw.sets {
			sets = append(sets, fmt.Sprintf("set %d = keys %v", i, s))
		}
		m := map[string]any{"script": lines, "collaborator_log": lg, "tree_blocks": len(t.nodes), "authority_sets": sets,
			"set_change_recorded_at": jw.changeAt, "key_seeds": "seed[i][j] = byte(i*29+j*5+3)"}
		for k, v := range extra {
			m[k] = v
		}
		return m
	}
	known := func(n int) bool { _, ok := w.headers[t.nodes[n].hash]; return ok }
	nextMain := func() int {
		for i := 1; i <= cfg.L; i++ {
			if !known(main[i]) {
				return i
			}
		}
		return cfg.L + 1
	}
	chooseKind := func(node int) *c32jSpec {
		x := r.Intn(100)
		var s *c32jSpec
		switch {
		case x < cfg.validPct:
			if t.nodes[node].tag[0] != 'm' && !r.Chance(1, 8) { // a finalised fork strands the main chain: rare
				return nil
			}
			s = c32jGen(r, jw, node, "valid")
		case x < cfg.validPct+cfg.badPct:
			k := vcommon.Pick(r, c32jInvalidKinds)
			if cfg.forceKind != "" {
				k = cfg.forceKind
			}
			s = c32jGen(r, jw, node, k)
		}
		if s == nil {
			return nil
		}
		if err := jw.encode(s); err != nil {
			c.Inconclusive("harness cannot encode a justification: " + err.Error())
			return nil
		}
		if len(s.enc) == 0 {
			return nil
		}
		// self check of the generator against the reference verdict
		if v, d, why := c32jVerdict(jw, s, s.ForNode); s.Kind == "valid" && !(v && d) || (s.Kind == "sibling" || s.Kind == "parent" || s.Kind == "child") && !(v && d) {
			c.Inconclusive(fmt.Sprintf("harness: a %s justification is not valid for the block it was built for: %s", s.Kind, why))
			return nil
		}
		return s
	}

	idle := 0
	for step := 0; step < cfg.steps && idle < 3; step++ {
		nm := nextMain()
		// ---- choose what is delivered
		var nodes []int
		dir := messages.Ascending
		bodyOnly := false
		act := r.Intn(10)
		switch {
		case act < 5 && nm <= cfg.L:
			from := nm
			if from > 1 && r.Chance(1, 2) {
				from -= r.Range(1, min(2, from-1))
			}
			to := min(cfg.L, nm+r.Intn(5))
			nodes = append(nodes, main[from:to+1]...)
		case act < 6 && nm <= cfg.L: // announced block completed by a body + justification response
			bodyOnly = true
			nodes = []int{main[nm]}
		case act < 8:
			var cands [][]int
			for _, f := range forks {
				if known(t.nodes[f[0]].parent) {
					cands = append(cands, f)
				}
			}
			if len(cands) > 0 {
				nodes = append(nodes, vcommon.Pick(r, cands)...)
			}
		default: // known territory again
			if nm > 1 {
				a := r.Range(1, nm-1)
				b := min(nm-1, a+r.Intn(3))
				nodes = append(nodes, main[a:b+1]...)
				if r.Chance(1, 3) {
					dir = messages.Descending
				}
			}
		}
		if len(nodes) == 0 {
			if nm > cfg.L {
				idle++
			}
			continue
		}
		if bodyOnly {
			n := t.nodes[nodes[0]]
			lines = append(lines, fmt.Sprintf("step %d: announce %s", step, n.tag))
			aborted := false
			func() {
				defer func() {
					if p := recover(); p != nil {
						c32Panic(c, p, witness(nil), "OnBlockAnnounce (real importer)")
						aborted = true
					}
				}()
				_, _ = fs.OnBlockAnnounce(peer.ID("just-announcer"), &network.BlockAnnounceMessage{ParentHash: n.header.ParentHash, Number: n.header.Number,
					StateRoot: n.header.StateRoot, ExtrinsicsRoot: n.header.ExtrinsicsRoot, Digest: n.header.Digest, BestBlock: true})
			}()
			if aborted {
				return
			}
			c.Count("just_announces", 1)
		}
		rp := c32Honest(t, nodes, dir)
		if bodyOnly {
			rp.fields = messages.RequestedDataBody + messages.RequestedDataJustification
			rp.kind = "bodyonly"
		}
		rp.viaWire = r.Chance(1, 4)
		rp.who = "just-peer"
		attached := map[common.Hash][]*c32jSpec{}
		newAtStart := map[common.Hash]bool{}
		badPlaced := false
		var atts []string
		for i := range rp.blocks {
			node := rp.blocks[i].node
			rp.blocks[i].just = 1
			t.nodes[node].just = nil
			if !known(node) {
				newAtStart[t.nodes[node].hash] = true
			}
			if badPlaced && !r.Chance(1, 4) { // mostly one refusal per call: what follows it is dropped anyway
				continue
			}
			if known(node) && !r.Chance(1, 4) { // importBlock skips known blocks before looking at the justification
				continue
			}
			s := chooseKind(node)
			if c.Failed() {
				return
			}
			if s == nil {
				continue
			}
			if s.Kind != "valid" {
				badPlaced = true
			}
			t.nodes[node].just = s.enc
			rp.blocks[i].just = 0
			attached[t.nodes[node].hash] = append(attached[t.nodes[node].hash], s)
			specsUsed = append(specsUsed, s)
			atts = append(atts, fmt.Sprintf("%s<-%s(for %s, round %d, set %d, %d precommits, %d headers, %d bytes)", t.nodes[node].tag, s.Kind,
				t.nodes[s.ForNode].tag, s.Round, s.SignedSet, len(s.PCs), len(s.Headers), len(s.enc)))
			c.Count("just_attached", 1)
			c.Count("just_attached_"+s.Kind, 1)
			if newAtStart[t.nodes[node].hash] {
				c.Count("just_attached_to_new_block", 1)
			} else {
				c.Count("just_attached_to_known_block", 1)
			}
		}
		res, err := rp.build(t)
		for _, n := range nodes {
			t.nodes[n].just = nil
		}
		if err != nil {
			c.Inconclusive("harness cannot build response: " + err.Error())
			return
		}
		if rp.viaWire {
			c.Count("just_responses_via_wire", 1)
		}
		lines = append(lines, fmt.Sprintf("step %d: Process{%s}  justifications: %s", step, rp.String(t), strings.Join(atts, "; ")))
		w.log = append(w.log, fmt.Sprintf("|step%d|", step))
		nCalls, nFins := len(gadget.calls), len(st.fins)
		var perr error
		var reps []Change
		panicked := false
		func() {
			defer func() {
				if p := recover(); p != nil {
					panicked = true
					c32Panic(c, p, witness(nil), "Process (real importer, real finality gadget)")
				}
			}()
			_, reps, _, perr = fs.Process([]*SyncTaskResult{res})
		}()
		if panicked {
			return
		}
		c.Eval(1)
		c.Count("just_process_calls", 1)
		if perr != nil {
			c.Count("just_process_errors", 1)
			if strings.Contains(perr.Error(), "verifying justification") {
				c.Count("just_process_failed_on_justification", 1)
				if len(reps) == 0 {
					c.Count("just_refusal_without_reputation_change", 1)
				}
			}
			lines = append(lines, "  Process error: "+perr.Error())
		}
		for _, p := range w.problems {
			c.Violation(p.class, p.msg, witness(nil))
		}
		if len(w.problems) > 0 {
			return
		}

		// ---- the gadget's answers against the reference verdict
		verified := map[*c32jSpec]bool{}
		for _, call := range gadget.calls[nCalls:] {
			c.Eval(1)
			c.Count("just_gadget_calls", 1)
			node, inTree := t.byHash[call.hash]
			var s *c32jSpec
			for _, cand := range attached[call.hash] {
				if bytes.Equal(cand.enc, call.enc) {
					s = cand
				}
			}
			if !inTree || s == nil || call.number != t.nodes[node].number {
				c.Violation("just-verified-for-other-block", fmt.Sprintf("the gadget was asked about block %s (#%d) with %d bytes that were not attached to that block in this call",
					w.tag(call.hash), call.number, len(call.enc)), witness(map[string]any{"justification_hex": vcommon.Hex(call.enc)}))
				return
			}
			verified[s] = true
			valid, decided, why := c32jVerdict(jw, s, node)
			ext := map[string]any{"block": t.nodes[node].tag, "spec": s, "justification_hex": vcommon.Hex(call.enc), "reference": why}
			if !decided {
				c.Count("just_verdict_undecided", 1)
				continue
			}
			switch {
			case valid && call.err != nil:
				c.Violation("just-rejected-valid", fmt.Sprintf("a justification valid for block %s was refused: %v", t.nodes[node].tag, call.err), witness(ext))
				return
			case !valid && call.err == nil:
				c.Violation("just-accepted-invalid", fmt.Sprintf("a %s justification (%s) was accepted for block %s", s.Kind, why, t.nodes[node].tag), witness(ext))
				return
			case valid:
				c.Count("just_accepted_valid", 1)
				c.Count(fmt.Sprintf("just_accepted_set%d", jw.setOf(call.number)), 1)
				if call.round != s.Round || call.set != uint64(jw.setOf(call.number)) {
					c.Violation("just-wrong-round-or-set", fmt.Sprintf("accepted with (round %d, set %d), expected (round %d, set %d)", call.round, call.set,
						s.Round, jw.setOf(call.number)), witness(ext))
					return
				}
			default:
				c.Count("just_refused_"+s.Kind, 1)
				c.Count("just_refused_invalid", 1)
			}
		}

		// ---- finalisation only on a justification valid for THAT block
		for _, f := range st.fins[nFins:] {
			c.Eval(1)
			node, inTree := t.byHash[f.hash]
			okc, und := false, false
			if inTree {
				for _, s := range attached[f.hash] {
					valid, decided, _ := c32jVerdict(jw, s, node)
					if !decided {
						und = true
					} else if valid && s.Round == f.round && uint64(jw.setOf(t.nodes[node].number)) == f.set {
						okc = true
					}
				}
			}
			switch {
			case okc:
				c.Count("just_finalised_on_valid_justification", 1)
				if newAtStart[f.hash] {
					c.Count("just_new_block_imported_and_finalised", 1)
				}
				if bodyOnly {
					c.Count("just_announced_block_finalised", 1)
				}
				if t.nodes[node].tag[0] != 'm' {
					c.Count("just_fork_block_finalised", 1)
				}
			case und:
				c.Count("just_finalised_on_undecided_justification", 1)
			default:
				var kinds []string
				for _, s := range attached[f.hash] {
					kinds = append(kinds, s.Kind)
				}
				c.Violation("finalised-without-valid-justification", fmt.Sprintf("SetFinalisedHash(%s, round %d, set %d) while no justification valid for that block "+
					"(with that round and set id) was attached to it in this call (attached kinds: %v)", w.tag(f.hash), f.round, f.set, kinds),
					witness(map[string]any{"attached": attached[f.hash]}))
				return
			}
		}

		// ---- what happened to the blocks (counted)
		for h, ss := range attached {
			node := t.byHash[h]
			for _, s := range ss {
				valid, decided, _ := c32jVerdict(jw, s, node)
				if !decided {
					continue
				}
				if !verified[s] {
					c.Count("just_never_reached_the_gadget", 1)
					if !newAtStart[h] {
						c.Count("just_for_known_block_skipped", 1)
					}
					continue
				}
				if !newAtStart[h] {
					continue
				}
				switch {
				case !valid && w.imported[h] == 0:
					c.Count("just_refused_block_not_imported", 1)
				case !valid:
					c.Count("just_refused_block_imported_anyway", 1)
				}
			}
		}
	}

	// offline: at most once
	for h, n := range w.imported {
		c.Eval(1)
		if n > 1 || w.executed[h] > 1 {
			c.Violation("reimported", fmt.Sprintf("block %s imported %d times, executed %d times", w.tag(h), n, w.executed[h]), witness(nil))
		}
	}
	c.Count("just_runs", 1)
	c.Count("just_blocks_imported", len(w.imported))
	c.Count("just_babe_verifier_calls", babe.calls)
	if len(jw.sets) > 1 {
		c.Count("just_runs_with_two_sets", 1)
	}
	if nextMain() > cfg.L {
		c.Count("just_runs_main_chain_imported", 1)
	}
	if w.finalised.Number > 0 {
		c.Count("just_runs_with_finalisation", 1)
	}
	var sig strings.Builder
	for _, s := range specsUsed {
		fmt.Fprintf(&sig, "%s%d.%d,", s.Kind, len(s.PCs), len(s.Headers))
	}
	if len(w.imported) > 0 && len(specsUsed) > 0 {
		c.Distinct(fmt.Sprintf("just|%d|%d|%d|%s", len(t.nodes), len(w.imported), len(jw.sets), sig.String()))
	}
	smp := lines
	if len(smp) > 14 {
		smp = append(append([]string{}, smp[:14]...), "...")
	}
	c.Sample(map[string]any{"script": smp, "imported": len(w.imported), "finalised_number": w.finalised.Number, "gadget_calls": len(gadget.calls)})
}

func c32JustGroups(r *vcommon.Run) {
	r.Floor("just_runs", 250)
	r.Floor("just_gadget_calls", 1000)
	r.Floor("just_accepted_valid", 500)
	r.Floor("just_finalised_on_valid_justification", 500)
	r.Floor("just_new_block_imported_and_finalised", 400)
	r.Floor("just_announced_block_finalised", 10)
	r.Floor("just_accepted_set0", 200)
	r.Floor("just_accepted_set1", 80)
	r.Floor("just_refused_invalid", 500)
	for _, k := range []string{"sibling", "parent", "child", "nonauth", "lowweight", "wrongset", "wronground", "bitflip", "badnumber",
		"missinghdr", "extrahdr", "garbage", "truncated"} {
		need := 12
		if k == "missinghdr" { // applies only to justifications with precommits on descendants
			need = 6
		}
		r.Floor("just_refused_"+k, need)
	}
	r.Floor("just_refused_block_not_imported", 300)
	r.Floor("just_process_failed_on_justification", 300)
	r.Floor("just_responses_via_wire", 300)
	r.Floor("just_runs_with_two_sets", 80)

	kinds := append([]string{"valid"}, "sibling", "parent", "child", "nonauth", "lowweight", "wrongset", "wronground", "bitflip", "badnumber",
		"missinghdr", "extrahdr", "garbage", "truncated")
	r.Fixed("just-corpus", len(kinds)*2, func(c *vcommon.Case) {
		k := kinds[c.Idx%len(kinds)]
		cfg := c32jCfg{L: 6, forks: 2, twoSets: c.Idx >= len(kinds), validPct: 25, badPct: 35, forceKind: k, steps: 30}
		if k == "valid" {
			cfg.validPct, cfg.badPct = 60, 0
		}
		c.Count("just_corpus_runs", 1)
		c32jRun(c, cfg)
	})
	r.Cases("just", r.Scale(300), func(c *vcommon.Case) {
		cfg := c32jCfg{L: c.R.Range(3, 14), forks: c.R.Intn(3), twoSets: c.R.Chance(1, 2), validPct: vcommon.Pick(c.R, []int{15, 25, 40}),
			badPct: vcommon.Pick(c.R, []int{10, 20, 30})}
		cfg.steps = cfg.L*3 + 10
		c32jRun(c, cfg)
	})
}
