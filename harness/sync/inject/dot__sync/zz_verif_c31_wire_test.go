//go:build verif

package sync

// C31 — a served response is what goes on the wire. The fault family already
// round-trips the responses it obtains under an injected fault; this file does
// the same for every FAULT-FREE served response of the serving groups
// (serve-corpus, serve-corpus-genesis-only, serve incl. the plan/serve round
// trip, repeat): BlockResponseMessage.Encode must not panic and must succeed,
// and Decode(Encode(resp)) must be resp block by block (hash, header by its
// hash, body, receipt, message queue, justification) under proto3's
// equivalences (an empty bytes / repeated field is the same as an absent one —
// c31CheckWireAs in zz_verif_c31_fault_test.go).

import (
	"github.com/ChainSafe/gossamer/dot/network/messages"
	"github.com/ChainSafe/gossamer/zz_verif/vcommon"
)

func c31CheckWireFaultFree(c *vcommon.Case, q c31Req, resp *messages.BlockResponseMessage, wit map[string]any) {
	if resp == nil {
		return
	}
	c31CheckWireAs(c, resp, wit, "wire_ff_roundtrips")
	// what went over the wire
	if len(resp.BlockData) == 0 {
		c.Count("wire_ff_empty_response", 1)
		return
	}
	if len(resp.BlockData) == messages.MaxBlocksInResponse {
		c.Count("wire_ff_len_128", 1)
	}
	if q.dir == messages.Descending {
		c.Count("wire_ff_descending", 1)
	}
	c.Count("wire_ff_blocks", len(resp.BlockData))
	var hdr, body, emptyBody, rcpt, msgq, just bool
	for _, bd := range resp.BlockData {
		if bd == nil {
			continue
		}
		hdr = hdr || bd.Header != nil
		if bd.Body != nil {
			body = true
			emptyBody = emptyBody || len(*bd.Body) == 0
		}
		rcpt = rcpt || bd.Receipt != nil
		msgq = msgq || bd.MessageQueue != nil
		just = just || bd.Justification != nil
	}
	for name, seen := range map[string]bool{"header": hdr, "body": body, "empty_body": emptyBody, "receipt": rcpt,
		"message_queue": msgq, "justification": just, "hash_only": !hdr && !body && !rcpt && !msgq && !just} {
		if seen {
			c.Count("wire_ff_with_"+name, 1)
		}
	}
}

func c31WireFloors(r *vcommon.Run) {
	r.Floor("wire_ff_roundtrips", 3000)
	r.Floor("wire_ff_blocks", 30000)
	r.Floor("wire_ff_len_128", 50)
	r.Floor("wire_ff_descending", 500)
	r.Floor("wire_ff_with_header", 1000)
	r.Floor("wire_ff_with_body", 1000)
	r.Floor("wire_ff_with_receipt", 300)
	r.Floor("wire_ff_with_message_queue", 300)
	r.Floor("wire_ff_with_justification", 300)
}
