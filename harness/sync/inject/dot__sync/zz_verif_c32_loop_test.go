//go:build verif

package sync

// C32 — the closed loop. The script families hand Process results whose REQUEST
// the harness fabricates to fit the response, and never look at what the
// strategy itself asks for next (range requests, ancestor searches after a
// disjoint fragment, body requests after a block announce). This family runs
// the loop of service.go in process, without networking:
//
//     peers report / announce their best blocks        (OnBlockAnnounceHandshake, OnBlockAnnounce)
//     tasks   := NextActions()                          (real requests: planned ranges + the strategy's own queue)
//     results := every task's request answered by a peer of the harness (the unchanged request object is
//                what Process sees; the response object is the task's own)
//     Process(results)
//
// A peer is a view (tip, current height) of one generated block tree; an honest
// peer serves exactly what the request asks (start, direction, min(max,128),
// requested fields) from the harness' own model of the tree, or fails when it
// does not have the start block (the task is retried on another peer, like the
// worker pool does, or comes back incomplete). While faults are on, a response
// may instead not answer the request: wrong start (another consistent chain),
// wrong direction, more blocks than asked for, or one of the broken kinds of
// the script families (forged stated hash, forged + fabricated child, gap, swap,
// foreign block, nil header/body, empty), or the task fails.
//
// Oracles: the import-log oracles of zz_verif_c32_test.go on the recording
// importer — parent-unknown, imported-twice (online and in an offline replay),
// bad-accepted (a block object of a response that is not a hash-linked chain in
// the REQUESTED direction or has a stated hash != header hash reaches the
// importer), bad-no-rep (such a response costs its sender nothing), panic.
// A consistent chain that merely does not answer the request (wrong start, too
// long) is not constrained by the property text: what the code does with it is
// counted (loop_*_blocks_imported). Liveness is counted, never judged: after the
// faults stop and every peer has reported its final best block, the number of
// iterations until the node's best block reaches the target.

import (
	"fmt"
	"strings"

	"github.com/ChainSafe/gossamer/dot/network"
	"github.com/ChainSafe/gossamer/dot/network/messages"
	"github.com/ChainSafe/gossamer/dot/types"
	"github.com/ChainSafe/gossamer/lib/common"
	"github.com/ChainSafe/gossamer/zz_verif/vcommon"
	"github.com/libp2p/go-libp2p/core/peer"
)

type c32lPeer struct {
	name  string
	chain []int // chain[n] = the peer's canonical block number n (path genesis .. tip)
	cur   int   // the peer currently has blocks up to this number
	said  int   // highest number it told the node about
}

func (p *c32lPeer) tipNumber() int { return len(p.chain) - 1 }

// has: a peer knows every block of the tree up to its current height (forks included).
func (p *c32lPeer) has(t *vTree, node int) bool { return int(t.nodes[node].number) <= p.cur }

// c32lServe is the harness' model of an honest answer: the nodes in wire order.
// limit is the number of blocks served at most (an honest peer uses
// min(max,128); the "too long" peer a larger one). ok=false: the peer does not
// have the start block.
func c32lServe(t *vTree, p *c32lPeer, startNum uint, startHash *common.Hash, dir messages.SyncDirection, limit int, withGenesis bool) (nodes []int, ok bool) {
	var start int
	if startHash != nil {
		i, known := t.byHash[*startHash]
		if !known || !p.has(t, i) {
			return nil, false
		}
		start = i
	} else {
		if int(startNum) > p.cur || startNum >= uint(len(p.chain)) {
			return nil, false
		}
		start = p.chain[startNum]
	}
	n := start
	for len(nodes) < limit {
		nodes = append(nodes, n)
		nd := t.nodes[n]
		if dir == messages.Descending {
			if nd.parent < 0 || (nd.number == 1 && !withGenesis) {
				break
			}
			n = nd.parent
			continue
		}
		// ascending: along the peer's own chain when the block is on it, else along the first child
		nxt := -1
		if int(nd.number) < len(p.chain) && p.chain[nd.number] == n && int(nd.number)+1 < len(p.chain) {
			nxt = p.chain[nd.number+1]
		} else if len(nd.children) > 0 {
			nxt = nd.children[0]
		}
		if nxt < 0 || !p.has(t, nxt) {
			break
		}
		n = nxt
	}
	return nodes, true
}

func c32lReqString(t *vTree, q *messages.BlockRequestMessage) string {
	mx := "nil"
	if q.Max != nil {
		mx = fmt.Sprint(*q.Max)
	}
	d := "asc"
	if q.Direction == messages.Descending {
		d = "desc"
	}
	switch v := q.StartingBlock.RawValue().(type) {
	case uint:
		return fmt.Sprintf("#%d+%s/%s/f%d", v, mx, d, q.RequestedData)
	case common.Hash:
		tag := short(v)
		if i, ok := t.byHash[v]; ok {
			tag = t.nodes[i].tag
		}
		return fmt.Sprintf("%s+%s/%s/f%d", tag, mx, d, q.RequestedData)
	}
	return "?"
}

type c32lCfg struct {
	L, forks, forkLen int
	nPeers            int
	numOfTasks        int
	iters, faultIters int
	knownPrefix       int
	faultRate         int  // a response is dishonest with probability 1/faultRate while faults are on (0: never)
	grow              bool // peers start behind their tip and announce new blocks
}

var c32lDishonest = []string{"wrongstart", "wrongstart", "wrongstart", "wrongdir", "wrongdir", "wrongdir", "toolong", "toolong", "toolong",
	"forged", "forged", "forged-linked", "forged-linked", "gap", "swap", "foreign", "empty", "nilhdr", "nilbody", "fail", "fail", "fail"}

func c32lRun(c *vcommon.Case, cfg c32lCfg) {
	r := c.R
	t, main, forks := c32Tree(r, cfg.L, cfg.forks, cfg.forkLen)
	// keep the main chain strictly the longest
	pathTo := func(tip int) []int {
		var rev []int
		for n := tip; n >= 0; n = t.nodes[n].parent {
			rev = append(rev, n)
		}
		out := make([]int, len(rev))
		for i := range rev {
			out[len(rev)-1-i] = rev[i]
		}
		return out
	}
	m := &c32Model{tree: t, known: map[common.Hash]bool{t.nodes[0].hash: true}, finOn: map[common.Hash]bool{}}
	m.finalised, m.best = t.nodes[0].header, t.nodes[0].header
	initial := main[1 : cfg.knownPrefix+1]
	for _, n := range initial {
		m.known[t.nodes[n].hash] = true
		m.best = t.nodes[n].header
	}
	if r.Chance(1, 3) {
		for i := 0; i < r.Range(1, 2); i++ {
			m.finOn[t.nodes[main[r.Range(1, cfg.L)]].hash] = true
		}
	}
	im := &c32Importer{m: m}
	fs := NewFullSyncStrategy(&FullSyncConfig{BlockState: &c32State{m: m}, NumOfTasks: cfg.numOfTasks})
	fs.blockImporter = im

	var peers []*c32lPeer
	for i := 0; i < cfg.nPeers; i++ {
		p := &c32lPeer{name: fmt.Sprintf("p%d", i)}
		switch {
		case i == 0 || r.Chance(1, 3):
			p.chain = main
		case len(forks) > 0 && r.Chance(1, 2):
			f := vcommon.Pick(r, forks)
			tip := f[len(f)-1]
			if int(t.nodes[tip].number) >= cfg.L { // never longer than the main chain
				p.chain = main
			} else {
				p.chain = pathTo(tip)
			}
		default:
			p.chain = main[:r.Range(1, cfg.L)+1] // a peer that is behind
		}
		p.cur = p.tipNumber()
		if cfg.grow && p.cur > 1 {
			p.cur = r.Range(0, p.cur)
		}
		peers = append(peers, p)
	}

	var lines []string
	owner := map[*types.BlockData]*c32Resp{}
	var all []*c32Resp
	witness := func(extra map[string]any) map[string]any {
		l := lines
		if len(l) > 70 {
			l = append(append([]string{}, l[:15]...), append([]string{"..."}, l[len(l)-50:]...)...)
		}
		w := map[string]any{"loop": l, "main_len": cfg.L, "tree_blocks": len(t.nodes), "numOfTasks": cfg.numOfTasks,
			"known_prefix": cfg.knownPrefix, "node_best": m.best.Number}
		var evs []string
		for _, e := range im.events {
			tag := "?"
			if i, ok := t.byHash[e.hdrHash]; ok {
				tag = t.nodes[i].tag
			}
			s := fmt.Sprintf("i%d:%s", e.batch, tag)
			if e.skipped {
				s += "(skip)"
			}
			if e.problem != "" {
				s += "(" + e.problem + ")"
			}
			evs = append(evs, s)
		}
		if len(evs) > 80 {
			evs = append(evs[:40], append([]string{"..."}, evs[len(evs)-30:]...)...)
		}
		w["import_calls"] = evs
		for k, v := range extra {
			w[k] = v
		}
		return w
	}
	aborted := false
	guard := func(where string, fn func()) {
		defer func() {
			if p := recover(); p != nil {
				c32Panic(c, p, witness(nil), where)
				aborted = true
			}
		}()
		fn()
	}
	tell := func(p *c32lPeer, handshake bool) {
		n := t.nodes[p.chain[p.cur]]
		if p.cur > p.said {
			p.said = p.cur
		}
		if handshake {
			lines = append(lines, fmt.Sprintf("  %s handshake best=%s", p.name, n.tag))
			guard("OnBlockAnnounceHandshake", func() {
				_ = fs.OnBlockAnnounceHandshake(peer.ID(p.name), &network.BlockAnnounceHandshake{Roles: 1,
					BestBlockNumber: uint32(n.number), BestBlockHash: n.hash, GenesisHash: t.nodes[0].hash})
			})
			c.Count("loop_handshakes", 1)
			return
		}
		lines = append(lines, fmt.Sprintf("  %s announces best block %s", p.name, n.tag))
		guard("OnBlockAnnounce", func() {
			_, _ = fs.OnBlockAnnounce(peer.ID(p.name), &network.BlockAnnounceMessage{ParentHash: n.header.ParentHash, Number: n.header.Number,
				StateRoot: n.header.StateRoot, ExtrinsicsRoot: n.header.ExtrinsicsRoot, Digest: n.header.Digest, BestBlock: true})
		})
		c.Count("loop_announces", 1)
	}
	for _, p := range peers {
		tell(p, true)
		if aborted {
			return
		}
	}

	target := func() uint {
		mx := 0
		for _, p := range peers {
			if p.said > mx {
				mx = p.said
			}
		}
		return uint(mx)
	}
	settledAt, reachedAt := -1, -1
	queueServed, ancestorServed, bodyServed := 0, 0, 0

	for it := 0; it < cfg.iters && !aborted; it++ {
		im.batch = it
		faults := it < cfg.faultIters
		lines = append(lines, fmt.Sprintf("iteration %d (node best #%d, target #%d, faults %v)", it, m.best.Number, target(), faults))
		// ---- peers grow and announce; once the faults stop every peer reports its final best block
		for _, p := range peers {
			if p.cur >= p.tipNumber() {
				continue
			}
			if !faults {
				p.cur = p.tipNumber()
				tell(p, r.Chance(1, 4))
			} else if r.Chance(1, 2) {
				p.cur = min(p.tipNumber(), p.cur+vcommon.Pick(r, []int{1, 1, 2, 5, 40, 130, 300}))
				tell(p, false)
			}
			if aborted {
				return
			}
		}
		if r.Chance(1, 5) && len(forks) > 0 { // a fork block is announced (not as a best block)
			f := vcommon.Pick(r, forks)
			n := t.nodes[vcommon.Pick(r, f)]
			p := vcommon.Pick(r, peers)
			if p.has(t, n.idx) {
				lines = append(lines, fmt.Sprintf("  %s announces fork block %s", p.name, n.tag))
				guard("OnBlockAnnounce", func() {
					_, _ = fs.OnBlockAnnounce(peer.ID(p.name), &network.BlockAnnounceMessage{ParentHash: n.header.ParentHash, Number: n.header.Number,
						StateRoot: n.header.StateRoot, ExtrinsicsRoot: n.header.ExtrinsicsRoot, Digest: n.header.Digest, BestBlock: false})
				})
				c.Count("loop_announces", 1)
				c.Count("loop_fork_announces", 1)
				if aborted {
					return
				}
			}
		}
		if !faults && settledAt < 0 {
			settledAt = it
		}

		// ---- what does the strategy want?
		var tasks []*SyncTask
		var nerr error
		guard("NextActions", func() { tasks, nerr = fs.NextActions() })
		if aborted {
			return
		}
		c.Count("loop_next_actions", 1)
		if nerr != nil {
			c.Count("loop_next_actions_errors", 1)
			continue
		}
		if len(tasks) == 0 {
			c.Count("loop_idle_iterations", 1)
			lines = append(lines, "  no tasks")
			if settledAt >= 0 && m.best.Number >= target() {
				if reachedAt < 0 {
					reachedAt = it
				}
				break // synced, nothing queued, nobody will say anything new
			}
		}

		// ---- answer every task
		var results []*SyncTaskResult
		var batch []*c32Resp
		var descr []string
		for ti, tk := range tasks {
			req, ok := tk.request.(*messages.BlockRequestMessage)
			if !ok || req == nil {
				c.Inconclusive("harness: a task without a block request")
				return
			}
			c.Count("loop_tasks", 1)
			var startNum uint
			var startHash *common.Hash
			switch v := req.StartingBlock.RawValue().(type) {
			case uint:
				startNum = v
				c.Count("loop_tasks_by_number", 1)
			case common.Hash:
				startHash = &v
				queueServed++
				if req.RequestField(messages.RequestedDataHeader) {
					c.Count("loop_tasks_ancestor_search", 1)
				} else {
					c.Count("loop_tasks_announced_body", 1)
				}
			}
			limit := messages.MaxBlocksInResponse
			if req.Max != nil && int(*req.Max) < limit {
				limit = int(*req.Max)
			}
			withGenesis := r.Bool()
			// pick a peer; one that does not have the start block fails the task, which is retried elsewhere
			var srv *c32lPeer
			var nodes []int
			order := r.Perm(len(peers))
			for _, pi := range order {
				if ns, ok := c32lServe(t, peers[pi], startNum, startHash, req.Direction, limit, withGenesis); ok {
					srv, nodes = peers[pi], ns
					break
				}
				c.Count("loop_task_retried_on_another_peer", 1)
			}
			who := peer.ID(fmt.Sprintf("%s/i%d.t%d", "nobody", it, ti))
			if srv != nil {
				who = peer.ID(fmt.Sprintf("%s/i%d.t%d", srv.name, it, ti))
			}
			kind := "honest"
			if srv == nil {
				kind = "fail"
			} else if faults && cfg.faultRate > 0 && r.Chance(1, cfg.faultRate) {
				kind = vcommon.Pick(r, c32lDishonest)
				if startHash != nil && !req.RequestField(messages.RequestedDataHeader) && r.Bool() {
					kind = "toolong" // a body request answered with the bodies of the following blocks as well
				}
			}
			if kind == "fail" {
				results = append(results, &SyncTaskResult{completed: false, request: tk.request, response: nil})
				descr = append(descr, fmt.Sprintf("%s <- failed", c32lReqString(t, req)))
				c.Count("loop_tasks_failed", 1)
				continue
			}
			toAsc := func(ns []int) []int {
				if req.Direction != messages.Descending {
					return ns
				}
				out := make([]int, len(ns))
				for i := range ns {
					out[len(ns)-1-i] = ns[i]
				}
				return out
			}
			hdrReq := req.RequestField(messages.RequestedDataHeader)
			rp := c32Honest(t, toAsc(nodes), req.Direction)
			switch kind {
			case "honest":
			case "wrongstart": // a consistent chain that starts somewhere else
				var alt []int
				ok := false
				if startHash == nil {
					d := vcommon.Pick(r, []int{1, 2, 5, 130, -1, -3, 129})
					if n := int(startNum) + d; n >= 1 {
						alt, ok = c32lServe(t, srv, uint(n), nil, req.Direction, limit, withGenesis)
					}
				} else {
					h := t.nodes[r.Range(1, len(t.nodes)-1)].hash
					if h != *startHash {
						alt, ok = c32lServe(t, srv, 0, &h, req.Direction, limit, withGenesis)
					}
				}
				if ok && len(alt) > 0 && alt[0] != nodes[0] {
					rp = c32Honest(t, toAsc(alt), req.Direction)
					rp.kind = "wrongstart"
				}
			case "toolong": // the right start and direction, but more blocks than asked for
				extra := vcommon.Pick(r, []int{1, 2, 20, 129})
				if alt, ok := c32lServe(t, srv, startNum, startHash, req.Direction, limit+extra, true); ok && len(alt) > limit {
					rp = c32Honest(t, toAsc(alt), req.Direction)
					rp.kind = "toolong"
				}
			case "forged", "forged-linked", "gap", "swap", "foreign", "nilhdr":
				if hdrReq {
					c32Mutate(r, t, rp, kind)
				} else { // body-only request: a block nobody asked for
					rp.blocks[0].stated = randHash(r)
					rp.kind = "bodyonly-unknown"
				}
			default: // wrongdir, empty, nilbody
				c32Mutate(r, t, rp, kind)
			}
			rp.fields = req.RequestedData
			rp.completed = true
			rp.viaWire = r.Chance(1, 3)
			rp.who = who
			rp.bad = false
			if hdrReq {
				rp.bad, _ = c32IsBad(rp)
			}
			res, err := rp.build(t)
			if err != nil {
				c.Inconclusive("harness cannot build response: " + err.Error())
				return
			}
			// Process sees the strategy's own request and the task's own response object
			res.request = tk.request
			if own, ok := tk.response.(*messages.BlockResponseMessage); ok && own != nil {
				own.BlockData = res.response.(*messages.BlockResponseMessage).BlockData
				res.response = own
			}
			for _, bd := range rp.bds {
				owner[bd] = rp
				// documented gap of the code (TODO in validateResults), an assumption of the script families too: a
				// response with a missing requested body is skipped without a reputation change, whatever else is
				// wrong with it (an empty body, e.g. the genesis body, is absent after the wire codec)
				if rp.bad && bd.Body == nil && req.RequestField(messages.RequestedDataBody) {
					rp.bad = false
					c.Count("loop_bad_response_with_nil_body_not_judged", 1)
				}
			}
			all = append(all, rp)
			batch = append(batch, rp)
			results = append(results, res)
			descr = append(descr, fmt.Sprintf("%s <- %s:%s", c32lReqString(t, req), string(who), rp.String(t)))
			c.Count("loop_responses", 1)
			c.Count("loop_resp_"+rp.kind, 1)
			if rp.bad {
				c.Count("loop_responses_bad", 1)
			}
			if rp.viaWire {
				c.Count("loop_responses_via_wire", 1)
			}
			if startHash != nil && rp.kind == "honest" {
				if hdrReq {
					ancestorServed++
				} else {
					bodyServed++
				}
			}
			if len(rp.blocks) == messages.MaxBlocksInResponse {
				c.Count("loop_responses_of_128_blocks", 1)
			}
			if !hdrReq { // how many announced (incomplete) blocks does this one body response complete?
				completes := 0
				for _, b := range rp.blocks {
					if fs.unreadyBlocks.isIncomplete(b.stated) {
						completes++
					}
				}
				if completes >= 2 {
					c.Count("loop_body_response_completing_several_announced_blocks", 1)
				}
			}
		}
		for _, d := range descr {
			lines = append(lines, "  "+d)
		}
		if len(results) == 0 {
			if reachedAt < 0 && settledAt >= 0 && m.best.Number >= target() {
				reachedAt = it
			}
			continue
		}

		// ---- Process and judge
		var reps []Change
		var perr error
		nev := len(im.events)
		guard("Process", func() { _, reps, _, perr = fs.Process(results) })
		if aborted {
			return
		}
		c.Count("loop_process_calls", 1)
		c.Eval(1)
		if perr != nil {
			c.Count("loop_process_errors", 1)
			msg := perr.Error()
			if len(msg) > 70 {
				msg = msg[:70]
			}
			c.Count("loop_process_error: "+msg, 1)
			lines = append(lines, "  Process error: "+perr.Error())
		}
		for _, rp := range batch {
			penalised := false
			for _, ch := range reps {
				if ch.who == rp.who && ch.rep.Value < 0 {
					penalised = true
				}
			}
			if !rp.bad {
				if penalised {
					c.Count("loop_"+rp.kind+"_response_penalised", 1)
				}
				continue
			}
			c.Eval(1)
			if penalised {
				c.Count("loop_bad_response_penalised", 1)
			} else if perr == nil {
				_, why := c32IsBad(rp)
				c.Violation("bad-no-rep", fmt.Sprintf("response %s (%s: %s) produced no reputation change for its sender", string(rp.who), rp.kind, why),
					witness(map[string]any{"response": rp.String(t)}))
			}
		}
		for _, e := range im.events[nev:] {
			c.Eval(1)
			switch e.problem {
			case "parent-unknown":
				c.Violation("parent-unknown", fmt.Sprintf("block #%d handed to the importer while its parent %s is not known", e.number, short(e.bd.Header.ParentHash)),
					witness(map[string]any{"call": e.seq}))
			case "imported-twice":
				c.Violation("imported-twice", fmt.Sprintf("header %s (#%d) processed by the importer a second time (stated hash %s)", short(e.hdrHash), e.number, short(e.stated)),
					witness(map[string]any{"call": e.seq}))
			case "no-header", "nil-block":
				c.Count("loop_import_call_"+e.problem, 1)
			}
		}
		if c.Failed() {
			return
		}
		if reachedAt < 0 && settledAt >= 0 && m.best.Number >= target() {
			reachedAt = it
		}
	}
	if aborted {
		return
	}

	// ---- offline: nothing of a bad response ever reached the importer; replay of the log
	for _, e := range im.events {
		if rp, ok := owner[e.bd]; ok && rp.bad {
			_, why := c32IsBad(rp)
			c.Violation("bad-accepted", fmt.Sprintf("a block of response %s (%s: %s) was handed to the importer", string(rp.who), rp.kind, why),
				witness(map[string]any{"response": rp.String(t), "call": e.seq}))
			break
		}
	}
	known := map[common.Hash]bool{t.nodes[0].hash: true}
	for _, n := range initial {
		known[t.nodes[n].hash] = true
	}
	seen := map[common.Hash]int{}
	processed, skipped, forkImported := 0, 0, 0
	for _, e := range im.events {
		if e.skipped {
			skipped++
		}
		if !e.processed {
			continue
		}
		c.Eval(1)
		processed++
		if !known[e.bd.Header.ParentHash] {
			c.Violation("parent-unknown", "offline replay: parent unknown at import time", witness(map[string]any{"call": e.seq}))
		}
		seen[e.hdrHash]++
		if seen[e.hdrHash] > 1 {
			c.Violation("imported-twice", "offline replay: header imported twice", witness(map[string]any{"call": e.seq}))
		}
		known[e.hdrHash] = true
		if i, ok := t.byHash[e.hdrHash]; ok && t.nodes[i].tag[0] == 'f' {
			forkImported++
		}
		if rp, ok := owner[e.bd]; ok && (rp.kind == "wrongstart" || rp.kind == "toolong") {
			c.Count("loop_"+rp.kind+"_blocks_imported", 1)
		}
	}

	// ---- observations (liveness is a counter, never a verdict)
	c.Count("loop_runs", 1)
	c.Count("loop_blocks_imported", processed)
	c.Count("loop_fork_blocks_imported", forkImported)
	c.Count("loop_import_calls_skipped_known_hash", skipped)
	c.Count("loop_queue_requests_popped", queueServed)
	c.Count("loop_ancestor_searches_answered_honestly", ancestorServed)
	c.Count("loop_announced_bodies_answered_honestly", bodyServed)
	c.Count("loop_disjoint_fragments_left", len(fs.unreadyBlocks.disjointFragments))
	c.Count("loop_incomplete_blocks_left", len(fs.unreadyBlocks.incompleteBlocks))
	c.Count("loop_queue_left", fs.requestQueue.Len())
	if m.finalised.Number > 0 {
		c.Count("loop_runs_with_finalisation_advance", 1)
	}
	if cfg.L > 128 {
		c.Count("loop_runs_longer_than_128", 1)
	}
	if cfg.L > 1+cfg.numOfTasks*127 {
		c.Count("loop_runs_longer_than_one_window", 1)
	}
	if settledAt >= 0 {
		c.Count("loop_runs_settled", 1)
		if reachedAt >= 0 {
			c.Count("loop_target_reached_after_faults_stopped", 1)
			c.Count("loop_iterations_from_settled_to_target", reachedAt-settledAt+1)
		} else {
			c.Count("loop_target_not_reached_within_budget", 1)
		}
	}
	if processed == len(t.nodes)-1-len(initial) {
		c.Count("loop_whole_tree_imported", 1)
	}
	if processed > 0 {
		var sig strings.Builder
		for _, rp := range all {
			fmt.Fprintf(&sig, "%s%d%v,", rp.kind, len(rp.blocks), rp.dir)
		}
		c.Distinct(fmt.Sprintf("loop|%d|%d|n%d|%s", len(t.nodes), processed, cfg.numOfTasks, sig.String()))
	}
	smp := lines
	if len(smp) > 40 {
		smp = append(append([]string{}, smp[:30]...), "...")
	}
	c.Sample(map[string]any{"loop": smp, "imported": processed, "skipped_calls": skipped, "reached_target_at": reachedAt, "settled_at": settledAt})
}

func c32lRandomCfg(r *vcommon.Rand, big bool) c32lCfg {
	cfg := c32lCfg{L: r.Range(2, 40), forks: r.Intn(4), forkLen: r.Range(1, 6), nPeers: r.Range(1, 4),
		numOfTasks: vcommon.Pick(r, []int{1, 2, 3, 3, 4}), faultRate: vcommon.Pick(r, []int{0, 1, 2, 2, 3, 4}), grow: r.Chance(3, 4)}
	if big {
		cfg.L = vcommon.Pick(r, []int{127, 128, 129, 130, 255, 256, 257, 382, 383, 384, 385, r.Range(129, 520)})
		cfg.numOfTasks = vcommon.Pick(r, []int{1, 2, 3, 3})
		cfg.forkLen = r.Range(1, 10)
	}
	if r.Chance(1, 3) {
		cfg.knownPrefix = r.Intn(cfg.L/2 + 1)
	}
	window := 1 + cfg.numOfTasks*127
	need := cfg.L/window + 3
	cfg.faultIters = r.Range(0, 12)
	cfg.iters = cfg.faultIters + need + r.Range(3, 8)
	return cfg
}

func c32LoopGroups(r *vcommon.Run) {
	r.Floor("loop_runs", 600)
	r.Floor("loop_process_calls", 2000)
	r.Floor("loop_blocks_imported", 20000)
	r.Floor("loop_fork_blocks_imported", 300)
	r.Floor("loop_tasks_by_number", 1500)
	r.Floor("loop_tasks_ancestor_search", 300)
	r.Floor("loop_tasks_announced_body", 1000)
	r.Floor("loop_ancestor_searches_answered_honestly", 200)
	r.Floor("loop_announced_bodies_answered_honestly", 600)
	r.Floor("loop_responses_bad", 300)
	r.Floor("loop_bad_response_penalised", 300)
	r.Floor("loop_resp_wrongstart", 100)
	r.Floor("loop_resp_wrongdir", 100)
	r.Floor("loop_resp_toolong", 60)
	r.Floor("loop_body_response_completing_several_announced_blocks", 10)
	r.Floor("loop_resp_forged", 60)
	r.Floor("loop_resp_forged-linked", 60)
	r.Floor("loop_tasks_failed", 150)
	r.Floor("loop_responses_via_wire", 800)
	r.Floor("loop_responses_of_128_blocks", 80)
	r.Floor("loop_runs_longer_than_one_window", 20)
	r.Floor("loop_runs_settled", 600)
	r.Floor("loop_target_reached_after_faults_stopped", 300)
	r.Floor("loop_witness_scripts", 3)

	// ---- minimal witnesses of the defect this family found (script form, judged by c32Run): ONE body-only response
	// that completes several announced blocks which are not linked to each other was treated as a chain and handed
	// to the importer as a whole (parent unknown)
	type wfx struct {
		name string
		mk   func(r *vcommon.Rand) *c32Script
	}
	bodyOnly := func(t *vTree, nodes []int) *c32Resp {
		bo := c32Honest(t, nodes, messages.Ascending)
		bo.fields = messages.RequestedDataBody + messages.RequestedDataJustification
		bo.kind = "bodyonly-multi"
		return bo
	}
	witnesses := []wfx{
		{"announce m1 and m3, one body-only response completes both", func(r *vcommon.Rand) *c32Script {
			t, m, _ := c32Tree(r, 3, 0, 1)
			return &c32Script{tree: t, mainLen: 3, steps: []c32Step{{announce: m[1]}, {announce: m[3]},
				{announce: -1, resps: []*c32Resp{bodyOnly(t, []int{m[1], m[2], m[3]})}}}}
		}},
		{"the same with both parents unknown: the pair waits as a disjoint fragment, then the ancestors arrive", func(r *vcommon.Rand) *c32Script {
			t, m, _ := c32Tree(r, 6, 0, 1)
			return &c32Script{tree: t, mainLen: 6, steps: []c32Step{{announce: m[3]}, {announce: m[6]},
				{announce: -1, resps: []*c32Resp{bodyOnly(t, []int{m[3], m[4], m[5], m[6]})}},
				{announce: -1, resps: []*c32Resp{c32Honest(t, m[1:3], messages.Descending)}}}}
		}},
		{"announced main block and announced fork block completed by one response", func(r *vcommon.Rand) *c32Script {
			t, m, _ := c32Tree(r, 4, 0, 1)
			f1 := t.addChild(r, m[1], "f0.2", true)
			f2 := t.addChild(r, f1, "f0.3", true)
			return &c32Script{tree: t, mainLen: 4, steps: []c32Step{{announce: m[1]}, {announce: f2},
				{announce: -1, resps: []*c32Resp{bodyOnly(t, []int{m[1], f2})}},
				{announce: -1, resps: []*c32Resp{c32Honest(t, m[2:5], messages.Ascending)}}}}
		}},
	}
	r.Fixed("loop-witness", len(witnesses), func(c *vcommon.Case) {
		c.Count("loop_witness_scripts", 1)
		c32Run(c, witnesses[c.Idx].mk(c.R))
	})

	// fixed corpus: small deterministic shapes of the loop
	corpus := []c32lCfg{
		{L: 5, nPeers: 1, numOfTasks: 3, iters: 4},                                                                          // honest, one peer, one window
		{L: 130, nPeers: 1, numOfTasks: 1, iters: 6},                                                                        // 128 + 2 over two iterations
		{L: 400, nPeers: 2, numOfTasks: 3, iters: 6},                                                                        // more than one window
		{L: 12, forks: 2, forkLen: 3, nPeers: 3, numOfTasks: 2, iters: 14, faultIters: 6, faultRate: 2, grow: true},         // faults, growth, forks
		{L: 260, forks: 2, forkLen: 5, nPeers: 3, numOfTasks: 3, iters: 16, faultIters: 6, faultRate: 2, grow: true},        // the same with full responses
		{L: 20, forks: 3, forkLen: 4, nPeers: 4, numOfTasks: 3, iters: 16, faultIters: 8, faultRate: 2, knownPrefix: 4},     // known prefix
		{L: 129, forks: 1, forkLen: 2, nPeers: 2, numOfTasks: 2, iters: 14, faultIters: 5, faultRate: 3, grow: true},        // boundary 128/129
		{L: 40, forks: 3, forkLen: 6, nPeers: 4, numOfTasks: 1, iters: 30, faultIters: 12, faultRate: 2, grow: true},        // one task per call
		{L: 383, forks: 1, forkLen: 8, nPeers: 2, numOfTasks: 3, iters: 12, faultIters: 4, faultRate: 2, grow: true},        // exactly one window + 1
		{L: 8, forks: 2, forkLen: 3, nPeers: 2, numOfTasks: 4, iters: 20, faultIters: 12, faultRate: 1, grow: true},         // every response dishonest while faults are on
		{L: 300, forks: 3, forkLen: 9, nPeers: 4, numOfTasks: 2, iters: 20, faultIters: 10, faultRate: 2, knownPrefix: 100}, // long + prefix
		{L: 64, forks: 3, forkLen: 6, nPeers: 3, numOfTasks: 3, iters: 20, faultIters: 10, faultRate: 3, grow: true, knownPrefix: 1},
	}
	r.Fixed("loop-corpus", len(corpus), func(c *vcommon.Case) {
		c.Count("loop_corpus_runs", 1)
		c32lRun(c, corpus[c.Idx])
	})
	r.Cases("loop", r.Scale(1200), func(c *vcommon.Case) {
		c32lRun(c, c32lRandomCfg(c.R, false))
	})
	r.Cases("loop-big", r.Scale(120), func(c *vcommon.Case) {
		c.Count("loop_big_runs", 1)
		c32lRun(c, c32lRandomCfg(c.R, true))
	})
}
