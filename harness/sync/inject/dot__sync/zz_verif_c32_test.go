//go:build verif

package sync

// C32 — full sync imports only consistent chains, parents first.
//
// A real FullSyncStrategy is driven with scripts of block responses cut from a
// generated block tree (every partition x every order for a small tree; random
// partitions, permutations, duplicates, overlaps, forks, disconnected pieces,
// empty responses, forged stated hashes, broken links, announces for larger
// ones). Its two collaborators are harness fakes over ONE model set of known
// header hashes:
//   - c32State (BlockState): HasHeader / best / highest finalised header;
//   - c32Importer (importer): records every importBlock call and, like the real
//     blockImporter, answers imported=false for a stated hash that is already
//     known (documented idempotence of importBlock, honoured as a convention).
// Offline/online decisions:
//   parent-unknown   a block is processed by the importer while its parent hash is not known
//   imported-twice   a header hash is processed (imported=true path) twice
//   bad-accepted     a block object of a response that is not a hash-linked chain, or that
//                    contains a block whose stated hash != hash of its header, reaches the importer
//   bad-no-rep       such a response yields no reputation change for its sender
//   panic            Process / OnBlockAnnounce panics

import (
	"errors"
	"fmt"
	"runtime/debug"
	"strings"
	"testing"

	"github.com/ChainSafe/gossamer/dot/network"
	"github.com/ChainSafe/gossamer/dot/network/messages"
	"github.com/ChainSafe/gossamer/dot/types"
	"github.com/ChainSafe/gossamer/lib/common"
	"github.com/ChainSafe/gossamer/lib/runtime"
	"github.com/ChainSafe/gossamer/zz_verif/vcommon"
	"github.com/libp2p/go-libp2p/core/peer"
)

// ---------------------------------------------------------------- fakes

type c32Model struct {
	tree      *vTree
	known     map[common.Hash]bool // header hashes known to the node
	finalised *types.Header
	best      *types.Header
	finOn     map[common.Hash]bool // importing this block finalises it
}

type c32State struct{ m *c32Model }

var errC32Harness = errors.New("harness: unexpected BlockState call")

func (s *c32State) BestBlockHeader() (*types.Header, error) { return copyHeader(s.m.best), nil }
func (s *c32State) BestBlockNumber() (uint, error)          { return s.m.best.Number, nil }
func (s *c32State) HasHeader(h common.Hash) (bool, error)   { return s.m.known[h], nil }
func (s *c32State) IsPaused() bool                          { return false }
func (s *c32State) Pause() error                            { return nil }
func (s *c32State) GetHighestFinalisedHeader() (*types.Header, error) {
	return copyHeader(s.m.finalised), nil
}
func (s *c32State) CompareAndSetBlockData(*types.BlockData) error { panic(errC32Harness) }
func (s *c32State) GetBlockBody(common.Hash) (*types.Body, error) { panic(errC32Harness) }
func (s *c32State) GetHeader(common.Hash) (*types.Header, error)  { panic(errC32Harness) }
func (s *c32State) Range(_, _ common.Hash) ([]common.Hash, error) { panic(errC32Harness) }
func (s *c32State) RangeInMemory(_, _ common.Hash) ([]common.Hash, error) {
	panic(errC32Harness)
}
func (s *c32State) GetReceipt(common.Hash) ([]byte, error)             { panic(errC32Harness) }
func (s *c32State) GetMessageQueue(common.Hash) ([]byte, error)        { panic(errC32Harness) }
func (s *c32State) GetJustification(common.Hash) ([]byte, error)       { panic(errC32Harness) }
func (s *c32State) SetFinalisedHash(common.Hash, uint64, uint64) error { panic(errC32Harness) }
func (s *c32State) SetJustification(common.Hash, []byte) error         { panic(errC32Harness) }
func (s *c32State) GetHashByNumber(uint) (common.Hash, error)          { panic(errC32Harness) }
func (s *c32State) GetBlockByHash(common.Hash) (*types.Block, error)   { panic(errC32Harness) }
func (s *c32State) GetRuntime(common.Hash) (runtime.Instance, error)   { panic(errC32Harness) }
func (s *c32State) StoreRuntime(common.Hash, runtime.Instance)         { panic(errC32Harness) }
func (s *c32State) GetFinalisedNotifierChannel() chan *types.FinalisationInfo {
	panic(errC32Harness)
}
func (s *c32State) GetHeaderByNumber(uint) (*types.Header, error)    { panic(errC32Harness) }
func (s *c32State) GetAllBlocksAtNumber(uint) ([]common.Hash, error) { panic(errC32Harness) }
func (s *c32State) IsDescendantOf(_, _ common.Hash) (bool, error)    { panic(errC32Harness) }

var _ BlockState = (*c32State)(nil)

type c32Event struct {
	seq       int
	batch     int
	bd        *types.BlockData
	stated    common.Hash
	hdrHash   common.Hash
	number    uint
	skipped   bool // stated hash already known: idempotent no-op
	processed bool
	problem   string
}

type c32Importer struct {
	m      *c32Model
	events []c32Event
	batch  int
}

var errC32ParentUnknown = errors.New("failed to get parent header (harness importer)")

func (im *c32Importer) importBlock(bd *types.BlockData, _ BlockOrigin) (bool, error) {
	ev := c32Event{seq: len(im.events), batch: im.batch, bd: bd}
	if bd == nil {
		ev.problem = "nil-block"
		im.events = append(im.events, ev)
		return false, errors.New("nil block data (harness importer)")
	}
	ev.stated = bd.Hash
	if im.m.known[bd.Hash] { // same convention as blockImporter.importBlock
		ev.skipped = true
		if bd.Header != nil {
			ev.hdrHash = vHeaderHash(bd.Header)
			ev.number = bd.Header.Number
		}
		im.events = append(im.events, ev)
		return false, nil
	}
	if bd.Header == nil {
		ev.problem = "no-header"
		im.events = append(im.events, ev)
		return false, errors.New("block without header (harness importer)")
	}
	ev.hdrHash = vHeaderHash(bd.Header)
	ev.number = bd.Header.Number
	if im.m.known[ev.hdrHash] {
		ev.problem = "imported-twice"
		im.events = append(im.events, ev)
		return false, errors.New("block already exists (harness importer)")
	}
	if !im.m.known[bd.Header.ParentHash] {
		ev.problem = "parent-unknown"
		im.events = append(im.events, ev)
		return false, errC32ParentUnknown
	}
	ev.processed = true
	im.m.known[ev.hdrHash] = true
	if bd.Header.Number > im.m.best.Number {
		im.m.best = copyHeader(bd.Header)
	}
	if im.m.finOn[ev.hdrHash] && bd.Header.Number > im.m.finalised.Number {
		im.m.finalised = copyHeader(bd.Header)
	}
	im.events = append(im.events, ev)
	return true, nil
}

// ---------------------------------------------------------------- script

type c32Block struct {
	node   int // tree node, -1 for a fabricated header
	header *types.Header
	stated common.Hash
	note   string
	noBody bool
	noHdr  bool
	just   int // justification sent when requested: 0 = what the tree node has, 1 = none, 2 = always (fabricated if needed)
}

type c32Resp struct {
	who       peer.ID
	dir       messages.SyncDirection
	fields    byte
	completed bool
	blocks    []c32Block // in the order sent on the wire
	kind      string     // "honest", "forged", "forged-linked", "gap", "swap", "foreign", "wrongdir", "empty", "nilhdr", "nilbody", "incomplete", "bodyonly"
	bad       bool       // decided by c32IsBad from the data, not from kind
	viaWire   bool
	// filled when built
	bds []*types.BlockData
}

type c32Step struct {
	announce int // >=0: announce this tree node instead of processing a batch
	resps    []*c32Resp
}

func (rp *c32Resp) String(t *vTree) string {
	var sb strings.Builder
	if rp.dir == messages.Descending {
		sb.WriteString("desc")
	} else {
		sb.WriteString("asc")
	}
	fmt.Fprintf(&sb, "/f%d/%s", rp.fields, rp.kind)
	if !rp.completed {
		sb.WriteString("/incomplete")
	}
	sb.WriteString("[")
	for i, b := range rp.blocks {
		if i > 0 {
			sb.WriteString(" ")
		}
		if len(rp.blocks) > 14 && i >= 5 && i < len(rp.blocks)-5 {
			if i == 5 {
				sb.WriteString("...")
			}
			continue
		}
		if b.node >= 0 {
			sb.WriteString(t.nodes[b.node].tag)
		} else {
			fmt.Fprintf(&sb, "fab#%d", b.header.Number)
		}
		if b.note != "" {
			sb.WriteString("!" + b.note)
		}
		if b.just == 2 {
			sb.WriteString("+J")
		} else if b.just == 1 {
			sb.WriteString("-J")
		}
	}
	sb.WriteString("]")
	return sb.String()
}

// c32IsBad: the response (normalised to ascending order) is not a chain linked
// by the real header hashes, or some stated hash differs from the header hash.
// Only meaningful when every block carries a header.
func c32IsBad(rp *c32Resp) (bad bool, why string) {
	bl := rp.blocks
	if rp.dir == messages.Descending {
		bl = make([]c32Block, len(rp.blocks))
		for i := range rp.blocks {
			bl[len(bl)-1-i] = rp.blocks[i]
		}
	}
	for i, b := range bl {
		if b.noHdr || b.header == nil {
			return false, ""
		}
		if vHeaderHash(b.header) != b.stated {
			return true, fmt.Sprintf("block %d: stated hash != header hash", i)
		}
		if i > 0 && bl[i-1].header != nil && vHeaderHash(bl[i-1].header) != b.header.ParentHash {
			return true, fmt.Sprintf("block %d is not hash-linked to block %d", i, i-1)
		}
	}
	return false, ""
}

func (rp *c32Resp) build(t *vTree) (*SyncTaskResult, error) {
	rp.bds = nil
	for _, b := range rp.blocks {
		bd := &types.BlockData{Hash: b.stated}
		if !b.noHdr && (rp.fields&messages.RequestedDataHeader != 0 || rp.kind == "extrahdr") {
			bd.Header = copyHeader(b.header)
		}
		if !b.noBody && rp.fields&messages.RequestedDataBody != 0 {
			if b.node >= 0 {
				bd.Body = copyBody(t.nodes[b.node].body)
			} else {
				bd.Body = types.NewBody([]types.Extrinsic{{0xfa, 0xb0}}) // non-empty: an empty body does not survive the wire format
			}
		}
		if rp.fields&messages.RequestedDataJustification != 0 && b.node >= 0 && b.just != 1 {
			bd.Justification = copyBytesPtr(t.nodes[b.node].just)
			if bd.Justification == nil && b.just == 2 {
				bd.Justification = copyBytesPtr([]byte{0x6a, 0x75, 0x73, 0x74})
			}
		}
		rp.bds = append(rp.bds, bd)
	}
	msg := &messages.BlockResponseMessage{BlockData: rp.bds}
	if rp.viaWire {
		enc, err := msg.Encode()
		if err != nil {
			return nil, fmt.Errorf("encode: %w", err)
		}
		dec := &messages.BlockResponseMessage{}
		if err := dec.Decode(enc); err != nil {
			return nil, fmt.Errorf("decode: %w", err)
		}
		if len(dec.BlockData) != len(rp.bds) {
			return nil, fmt.Errorf("wire round trip changed the number of blocks")
		}
		rp.bds = append([]*types.BlockData{}, dec.BlockData...)
		msg = dec
	} else {
		msg = &messages.BlockResponseMessage{BlockData: append([]*types.BlockData{}, rp.bds...)}
	}
	var start messages.FromBlock
	n := uint32(len(rp.blocks))
	if n == 0 {
		n = 1
	}
	if rp.dir == messages.Descending && len(rp.blocks) > 0 {
		start = *messages.NewFromBlock(rp.blocks[0].stated)
	} else if len(rp.blocks) > 0 && rp.blocks[0].header != nil {
		start = *messages.NewFromBlock(rp.blocks[0].header.Number)
	} else {
		start = *messages.NewFromBlock(uint(1))
	}
	req := messages.NewBlockRequest(start, n, rp.fields, rp.dir)
	return &SyncTaskResult{who: rp.who, completed: rp.completed, request: req, response: msg}, nil
}

func c32Honest(t *vTree, nodes []int, dir messages.SyncDirection) *c32Resp {
	rp := &c32Resp{dir: dir, fields: messages.BootstrapRequestData, completed: true, kind: "honest"}
	for _, n := range nodes {
		rp.blocks = append(rp.blocks, c32Block{node: n, header: t.nodes[n].header, stated: t.nodes[n].hash})
	}
	if dir == messages.Descending {
		for i, j := 0, len(rp.blocks)-1; i < j; i, j = i+1, j-1 {
			rp.blocks[i], rp.blocks[j] = rp.blocks[j], rp.blocks[i]
		}
	}
	return rp
}

// ascending view helpers for the mutators (they work on the ascending order)
func (rp *c32Resp) asc() []c32Block {
	if rp.dir != messages.Descending {
		return rp.blocks
	}
	out := make([]c32Block, len(rp.blocks))
	for i := range rp.blocks {
		out[len(out)-1-i] = rp.blocks[i]
	}
	return out
}

func (rp *c32Resp) setAsc(bl []c32Block) {
	if rp.dir != messages.Descending {
		rp.blocks = bl
		return
	}
	rp.blocks = make([]c32Block, len(bl))
	for i := range bl {
		rp.blocks[len(bl)-1-i] = bl[i]
	}
}

func randHash(r *vcommon.Rand) (h common.Hash) {
	copy(h[:], r.Bytes(32))
	return
}

// c32Mutate turns an honest response into the given kind. Returns false when
// the kind does not apply to this response.
func c32Mutate(r *vcommon.Rand, t *vTree, rp *c32Resp, kind string) bool {
	bl := append([]c32Block{}, rp.asc()...)
	switch kind {
	case "forged": // one stated hash is not the header hash
		i := r.Intn(len(bl))
		switch r.Intn(3) {
		case 0:
			bl[i].stated = randHash(r)
		case 1:
			bl[i].stated = t.nodes[r.Intn(len(t.nodes))].hash
			if bl[i].stated == vHeaderHash(bl[i].header) {
				bl[i].stated = randHash(r)
			}
		default:
			bl[i].stated[31] ^= 1
		}
		bl[i].note = "forged"
	case "forged-linked": // forged stated hash X and a fabricated child whose parent hash is X
		i := r.Intn(len(bl))
		x := randHash(r)
		bl[i].stated = x
		bl[i].note = "forged"
		bl = bl[:i+1]
		parent := x
		for k := 0; k < r.Range(1, 3); k++ {
			h := &types.Header{ParentHash: parent, Number: bl[len(bl)-1].header.Number + 1, StateRoot: randHash(r),
				Digest: vBabeDigest(0, uint64(5000+k))}
			hh := vHeaderHash(h)
			bl = append(bl, c32Block{node: -1, header: h, stated: hh, note: "child-of-forged"})
			parent = hh
		}
	case "gap": // a middle block is missing
		if len(bl) < 3 {
			return false
		}
		i := r.Range(1, len(bl)-2)
		bl = append(bl[:i:i], bl[i+1:]...)
		bl[i].note = "after-gap"
	case "swap":
		if len(bl) < 2 {
			return false
		}
		i := r.Intn(len(bl) - 1)
		bl[i], bl[i+1] = bl[i+1], bl[i]
		bl[i].note = "swapped"
	case "foreign": // one block replaced by / followed by a block that is not its child
		if len(bl) < 2 {
			return false
		}
		i := r.Range(1, len(bl)-1)
		var cands []int
		for _, n := range t.nodes {
			if n.number == bl[i].header.Number && n.idx != bl[i].node {
				cands = append(cands, n.idx)
			}
		}
		if len(cands) > 0 {
			n := t.nodes[vcommon.Pick(r, cands)]
			if n.parent == bl[i-1].node {
				return false // a sibling with the same parent keeps the prefix linked; rest breaks only if i is not last
			}
			bl[i] = c32Block{node: n.idx, header: n.header, stated: n.hash, note: "foreign"}
		} else {
			h := &types.Header{ParentHash: randHash(r), Number: bl[i].header.Number, StateRoot: randHash(r), Digest: vBabeDigest(1, 7000)}
			bl[i] = c32Block{node: -1, header: h, stated: vHeaderHash(h), note: "foreign"}
		}
	case "wrongdir": // blocks sent in the opposite order of the requested direction
		if len(bl) < 2 {
			return false
		}
		for i, j := 0, len(bl)-1; i < j; i, j = i+1, j-1 {
			bl[i], bl[j] = bl[j], bl[i]
		}
		bl[0].note = "reversed"
	case "nilhdr":
		bl[r.Intn(len(bl))].noHdr = true
	case "nilbody":
		bl[r.Intn(len(bl))].noBody = true
	case "empty":
		bl = nil
	case "incomplete":
		rp.completed = false
	default:
		return false
	}
	rp.kind = kind
	rp.setAsc(bl)
	return true
}

type c32Script struct {
	tree     *vTree
	mainLen  int
	initial  []int // nodes known before the first step (besides genesis)
	finOn    []int
	steps    []c32Step
	describe func() []string
}

// c32Run executes a script on a fresh FullSyncStrategy and judges it.
func c32Run(c *vcommon.Case, sc *c32Script) {
	t := sc.tree
	m := &c32Model{tree: t, known: map[common.Hash]bool{t.nodes[0].hash: true}, finOn: map[common.Hash]bool{}}
	m.finalised, m.best = t.nodes[0].header, t.nodes[0].header
	for _, n := range sc.initial {
		m.known[t.nodes[n].hash] = true
		if t.nodes[n].number > m.best.Number {
			m.best = t.nodes[n].header
		}
	}
	for _, n := range sc.finOn {
		m.finOn[t.nodes[n].hash] = true
	}
	im := &c32Importer{m: m}
	fs := NewFullSyncStrategy(&FullSyncConfig{BlockState: &c32State{m: m}})
	fs.blockImporter = im

	var lines []string
	owner := map[*types.BlockData]*c32Resp{}
	var all []*c32Resp
	witness := func(extra map[string]any) map[string]any {
		w := map[string]any{"script": lines, "main_len": sc.mainLen, "tree_blocks": len(t.nodes)}
		var evs []string
		for _, e := range im.events {
			tag := "?"
			if i, ok := t.byHash[e.hdrHash]; ok {
				tag = t.nodes[i].tag
			}
			s := fmt.Sprintf("b%d:%s", e.batch, tag)
			if e.skipped {
				s += "(skip)"
			}
			if e.problem != "" {
				s += "(" + e.problem + ")"
			}
			evs = append(evs, s)
		}
		if len(evs) > 80 {
			evs = append(evs[:40], append([]string{"..."}, evs[len(evs)-30:]...)...)
		}
		w["import_calls"] = evs
		for k, v := range extra {
			w[k] = v
		}
		return w
	}

	aborted := false
	for bi, st := range sc.steps {
		im.batch = bi
		if st.announce >= 0 {
			n := t.nodes[st.announce]
			lines = append(lines, fmt.Sprintf("step %d: announce %s", bi, n.tag))
			msg := &network.BlockAnnounceMessage{ParentHash: n.header.ParentHash, Number: n.header.Number,
				StateRoot: n.header.StateRoot, ExtrinsicsRoot: n.header.ExtrinsicsRoot, Digest: n.header.Digest, BestBlock: true}
			func() {
				defer func() {
					if p := recover(); p != nil {
						c32Panic(c, p, witness(nil), "OnBlockAnnounce")
						aborted = true
					}
				}()
				_, _ = fs.OnBlockAnnounce(peer.ID("announcer"), msg)
				c.Count("announces", 1)
			}()
			if aborted {
				return
			}
			continue
		}
		var results []*SyncTaskResult
		var descr []string
		for ri, rp := range st.resps {
			rp.who = peer.ID(fmt.Sprintf("p%d.%d", bi, ri))
			hdr := rp.fields&messages.RequestedDataHeader != 0
			rp.bad = false
			if hdr && rp.completed {
				rp.bad, _ = c32IsBad(rp)
			}
			res, err := rp.build(t)
			if err != nil {
				c.Inconclusive("harness cannot build response: " + err.Error())
				return
			}
			for _, bd := range rp.bds {
				owner[bd] = rp
			}
			all = append(all, rp)
			results = append(results, res)
			descr = append(descr, string(rp.who)+":"+rp.String(t))
			c.Count("responses", 1)
			c.Count("resp_"+rp.kind, 1)
			if rp.bad {
				c.Count("responses_bad", 1)
			}
			if rp.viaWire {
				c.Count("responses_via_wire", 1)
			}
		}
		lines = append(lines, fmt.Sprintf("step %d: Process{%s}", bi, strings.Join(descr, "  ")))
		var reps []Change
		var perr error
		nev := len(im.events)
		func() {
			defer func() {
				if p := recover(); p != nil {
					c32Panic(c, p, witness(nil), "Process")
					aborted = true
				}
			}()
			_, reps, _, perr = fs.Process(results)
		}()
		if aborted {
			return
		}
		c.Count("process_calls", 1)
		c.Eval(1)
		if perr != nil {
			c.Count("process_errors", 1)
		}
		// every bad response must cost its sender reputation
		for _, rp := range st.resps {
			if !rp.bad {
				if rp.kind == "honest" {
					for _, ch := range reps {
						if ch.who == rp.who {
							c.Count("honest_response_penalised", 1)
						}
					}
				}
				continue
			}
			c.Eval(1)
			found := false
			for _, ch := range reps {
				if ch.who == rp.who && ch.rep.Value < 0 {
					found = true
				}
			}
			if found {
				c.Count("bad_response_penalised", 1)
			} else if perr == nil {
				_, why := c32IsBad(rp)
				c.Violation("bad-no-rep", fmt.Sprintf("response %s (%s: %s) produced no reputation change for its sender", string(rp.who), rp.kind, why),
					witness(map[string]any{"response": rp.String(t)}))
			}
		}
		// online checks on the calls made during this batch
		for _, e := range im.events[nev:] {
			c.Eval(1)
			switch e.problem {
			case "parent-unknown":
				c.Violation("parent-unknown", fmt.Sprintf("block #%d handed to the importer while its parent %s is not known", e.number, short(e.bd.Header.ParentHash)),
					witness(map[string]any{"call": e.seq}))
			case "imported-twice":
				c.Violation("imported-twice", fmt.Sprintf("header %s (#%d) processed by the importer a second time (stated hash %s)", short(e.hdrHash), e.number, short(e.stated)),
					witness(map[string]any{"call": e.seq}))
			case "no-header", "nil-block":
				c.Count("import_call_"+e.problem, 1)
			}
		}
		if c.Failed() {
			return
		}
	}
	// offline: no block object of a bad response ever reached the importer
	for _, e := range im.events {
		if rp, ok := owner[e.bd]; ok && rp.bad {
			_, why := c32IsBad(rp)
			c.Violation("bad-accepted", fmt.Sprintf("a block of response %s (%s: %s) was handed to the importer", string(rp.who), rp.kind, why),
				witness(map[string]any{"response": rp.String(t), "call": e.seq}))
			break
		}
	}
	// offline re-check of the whole log against a replayed known-set
	known := map[common.Hash]bool{t.nodes[0].hash: true}
	for _, n := range sc.initial {
		known[t.nodes[n].hash] = true
	}
	seen := map[common.Hash]int{}
	for _, e := range im.events {
		if e.processed {
			if !known[e.bd.Header.ParentHash] {
				c.Violation("parent-unknown", "offline replay: parent unknown at import time", witness(map[string]any{"call": e.seq}))
			}
			seen[e.hdrHash]++
			if seen[e.hdrHash] > 1 {
				c.Violation("imported-twice", "offline replay: header imported twice", witness(map[string]any{"call": e.seq}))
			}
			known[e.hdrHash] = true
		}
	}
	// observations
	processed, skipped, forkImported := 0, 0, 0
	for _, e := range im.events {
		if e.processed {
			processed++
			if i, ok := t.byHash[e.hdrHash]; ok && t.nodes[i].tag[0] == 'f' {
				forkImported++
			}
		}
		if e.skipped {
			skipped++
		}
	}
	c.Count("blocks_imported", processed)
	c.Count("fork_blocks_imported", forkImported)
	c.Count("import_calls_skipped_known_hash", skipped)
	c.Count("disjoint_fragments_left", len(fs.unreadyBlocks.disjointFragments))
	c.Count("ancestor_requests_queued", fs.requestQueue.Len())
	if m.finalised.Number > 0 {
		c.Count("scripts_with_finalisation_advance", 1)
	}
	if processed == len(t.nodes)-1-len(sc.initial) {
		c.Count("scripts_whole_tree_imported", 1)
	}
	c.Count("scripts", 1)
	if processed > 0 {
		var sig strings.Builder
		for _, rp := range all {
			fmt.Fprintf(&sig, "%s%d%v,", rp.kind, len(rp.blocks), rp.dir)
		}
		c.Distinct(fmt.Sprintf("%d|%d|%s", len(t.nodes), processed, sig.String()))
	}
	c.Sample(map[string]any{"script": lines, "imported": processed, "skipped_calls": skipped})
}

func c32Panic(c *vcommon.Case, p any, w map[string]any, where string) {
	if e, ok := p.(error); ok && errors.Is(e, errC32Harness) {
		c.Inconclusive("the code under test called a BlockState method the harness fake does not model")
		return
	}
	st := string(debug.Stack())
	if len(st) > 5000 {
		st = st[:5000]
	}
	w["stack"] = st
	c.Violation("panic", fmt.Sprintf("%s panicked: %v", where, p), w)
}

// ---------------------------------------------------------------- generators

// c32Tree builds main chain m1..mL plus forks.
func c32Tree(r *vcommon.Rand, L int, forks int, forkLen int) (t *vTree, main []int, fk [][]int) {
	return c32TreeOpt(r, L, forks, forkLen, nil, true)
}

func c32TreeOpt(r *vcommon.Rand, L int, forks int, forkLen int, stateRoot *common.Hash, extras bool) (t *vTree, main []int, fk [][]int) {
	t = newVTreeRoot(r, stateRoot)
	t.minExt = 1
	main = []int{0}
	for i := 1; i <= L; i++ {
		main = append(main, t.addChild(r, main[i-1], fmt.Sprintf("m%d", i), extras))
	}
	for k := 0; k < forks; k++ {
		at := r.Intn(L) // parent on main: 0..L-1
		p := main[at]
		if len(fk) > 0 && r.Chance(1, 4) { // fork of a fork
			f := vcommon.Pick(r, fk)
			p = vcommon.Pick(r, f)
			at = int(t.nodes[p].number)
		}
		var f []int
		for j := 0; j < r.Range(1, forkLen); j++ {
			p = t.addChild(r, p, fmt.Sprintf("f%d.%d", k, at+1+j), extras)
			f = append(f, p)
		}
		fk = append(fk, f)
	}
	return
}

func cutRandom(r *vcommon.Rand, nodes []int, maxPiece int) [][]int {
	var out [][]int
	for len(nodes) > 0 {
		n := r.Range(1, maxPiece)
		if n > len(nodes) {
			n = len(nodes)
		}
		out = append(out, nodes[:n:n])
		nodes = nodes[n:]
	}
	return out
}

var c32BadKinds = []string{"forged", "forged", "forged-linked", "forged-linked", "gap", "swap", "foreign", "wrongdir"}
var c32OddKinds = []string{"nilhdr", "nilbody", "empty", "empty", "incomplete"}

func c32RandomScript(r *vcommon.Rand, big bool) *c32Script {
	L := r.Range(3, 22)
	maxPiece := r.Range(1, 7)
	if big {
		L = r.Range(129, 150)
		maxPiece = 128
	}
	t, main, forks := c32Tree(r, L, r.Intn(4), 4)
	sc := &c32Script{tree: t, mainLen: L}
	K := 0
	if r.Chance(1, 3) {
		K = r.Intn(L/2 + 1)
	}
	sc.initial = append(sc.initial, main[1:K+1]...)
	if r.Chance(1, 3) {
		for i := 0; i < r.Range(1, 2); i++ {
			sc.finOn = append(sc.finOn, main[r.Range(1, L)])
		}
	}
	var pieces []*c32Resp
	mk := func(nodes []int) *c32Resp {
		dir := messages.Ascending
		if r.Chance(1, 4) {
			dir = messages.Descending
		}
		rp := c32Honest(t, nodes, dir)
		rp.viaWire = r.Chance(1, 3)
		return rp
	}
	for _, p := range cutRandom(r, main[K+1:], maxPiece) {
		pieces = append(pieces, mk(p))
	}
	for _, f := range forks {
		for _, p := range cutRandom(r, f, maxPiece) {
			pieces = append(pieces, mk(p))
		}
	}
	// drop some pieces (disconnected), duplicate some, add overlapping sub-paths
	if r.Chance(1, 3) && len(pieces) > 1 {
		i := r.Intn(len(pieces))
		pieces = append(pieces[:i:i], pieces[i+1:]...)
	}
	nd := 0
	if r.Chance(1, 2) {
		nd = r.Range(1, 3)
	}
	for i := 0; i < nd; i++ {
		src := vcommon.Pick(r, pieces)
		var nodes []int
		for _, b := range src.asc() {
			nodes = append(nodes, b.node)
		}
		pieces = append(pieces, mk(nodes))
	}
	if r.Chance(1, 2) {
		a := r.Range(1, L)
		b := a + r.Intn(min(maxPiece, L-a+1))
		if b > L {
			b = L
		}
		pieces = append(pieces, mk(main[a:b+1]))
	}
	// mutations
	for _, rp := range pieces {
		switch {
		case r.Chance(1, 5):
			cp := *rp
			if c32Mutate(r, t, &cp, vcommon.Pick(r, c32BadKinds)) {
				if r.Bool() { // keep the honest one as well
					*rp = cp
				} else {
					x := cp
					pieces = append(pieces, &x)
				}
			}
		case r.Chance(1, 12):
			c32Mutate(r, t, rp, vcommon.Pick(r, c32OddKinds))
		}
	}
	// order
	switch r.Intn(3) {
	case 0: // full permutation
		p := r.Perm(len(pieces))
		np := make([]*c32Resp, len(pieces))
		for i, j := range p {
			np[i] = pieces[j]
		}
		pieces = np
	case 1: // a few swaps
		for i := 0; i < r.Range(0, 3) && len(pieces) > 1; i++ {
			a, b := r.Intn(len(pieces)), r.Intn(len(pieces))
			pieces[a], pieces[b] = pieces[b], pieces[a]
		}
	}
	// batches, with occasional announce + body-only completion
	maxBatch := r.Range(1, 4)
	for len(pieces) > 0 {
		n := r.Range(1, maxBatch)
		if n > len(pieces) {
			n = len(pieces)
		}
		sc.steps = append(sc.steps, c32Step{announce: -1, resps: pieces[:n:n]})
		pieces = pieces[n:]
		if r.Chance(1, 6) {
			n := r.Range(1, len(t.nodes)-1)
			sc.steps = append(sc.steps, c32Step{announce: n})
			bo := c32Honest(t, []int{n}, messages.Ascending)
			bo.fields = messages.RequestedDataBody + messages.RequestedDataJustification
			bo.kind = "bodyonly"
			if r.Chance(1, 4) {
				bo.blocks = nil // empty body-only response
				bo.kind = "bodyonly-empty"
			} else if r.Chance(1, 5) {
				bo.blocks[0].stated = randHash(r) // completes nothing
				bo.kind = "bodyonly-unknown"
			}
			sc.steps = append(sc.steps, c32Step{announce: -1, resps: []*c32Resp{bo}})
		}
	}
	return sc
}

// all compositions of n into ordered parts x all orders of the parts
func c32Enumerate(n int) (out [][][2]int) { // each element: ordered list of [from,to] (1-based block numbers)
	for mask := 0; mask < 1<<(n-1); mask++ {
		var parts [][2]int
		from := 1
		for i := 1; i <= n; i++ {
			if i == n || mask&(1<<(i-1)) != 0 {
				parts = append(parts, [2]int{from, i})
				from = i + 1
			}
		}
		var rec func(cur [][2]int, used []bool)
		rec = func(cur [][2]int, used []bool) {
			if len(cur) == len(parts) {
				out = append(out, append([][2]int{}, cur...))
				return
			}
			for i := range parts {
				if !used[i] {
					used[i] = true
					rec(append(cur, parts[i]), used)
					used[i] = false
				}
			}
		}
		rec(nil, make([]bool, len(parts)))
	}
	return
}

func TestVerifC32(t *testing.T) {
	r := vcommon.Start(t, "C32")
	defer r.Finish()
	r.Floor("scripts", 1500)
	r.Floor("blocks_imported", 10000)
	r.Floor("fork_blocks_imported", 300)
	r.Floor("responses_bad", 300)
	r.Floor("bad_response_penalised", 300)
	r.Floor("resp_forged", 60)
	r.Floor("resp_forged-linked", 60)
	r.Floor("resp_gap", 20)
	r.Floor("resp_empty", 40)
	r.Floor("import_calls_skipped_known_hash", 200)
	r.Floor("responses_via_wire", 300)
	r.Floor("announces", 50)

	// ---- fixed corpus: minimal witnesses of the defects found
	type fx struct {
		name string
		mk   func(r *vcommon.Rand) *c32Script
	}
	chain := func(r *vcommon.Rand, L int) (*vTree, []int) {
		t, main, _ := c32Tree(r, L, 0, 1)
		return t, main
	}
	one := func(rps ...*c32Resp) []c32Step { return []c32Step{{announce: -1, resps: rps}} }
	corpus := []fx{
		{"forged stated hash on a single block", func(r *vcommon.Rand) *c32Script {
			t, m := chain(r, 2)
			rp := c32Honest(t, m[1:2], messages.Ascending)
			rp.blocks[0].stated = randHash(r)
			rp.blocks[0].note = "forged"
			rp.kind = "forged"
			return &c32Script{tree: t, mainLen: 2, steps: one(rp)}
		}},
		{"forged stated hash with a fabricated child linked to it", func(r *vcommon.Rand) *c32Script {
			t, m := chain(r, 2)
			rp := c32Honest(t, m[1:2], messages.Ascending)
			c32Mutate(r, t, rp, "forged-linked")
			return &c32Script{tree: t, mainLen: 2, steps: one(rp)}
		}},
		{"honest block then the same header under a forged stated hash", func(r *vcommon.Rand) *c32Script {
			t, m := chain(r, 1)
			a := c32Honest(t, m[1:2], messages.Ascending)
			b := c32Honest(t, m[1:2], messages.Ascending)
			b.blocks[0].stated = randHash(r)
			b.blocks[0].note = "forged"
			b.kind = "forged"
			return &c32Script{tree: t, mainLen: 1, steps: []c32Step{{announce: -1, resps: []*c32Resp{a}}, {announce: -1, resps: []*c32Resp{b}}}}
		}},
		{"single empty response", func(r *vcommon.Rand) *c32Script {
			t, m := chain(r, 1)
			rp := c32Honest(t, m[1:2], messages.Ascending)
			c32Mutate(r, t, rp, "empty")
			return &c32Script{tree: t, mainLen: 1, steps: one(rp)}
		}},
		{"empty response next to an honest one", func(r *vcommon.Rand) *c32Script {
			t, m := chain(r, 3)
			e := c32Honest(t, m[1:2], messages.Ascending)
			c32Mutate(r, t, e, "empty")
			return &c32Script{tree: t, mainLen: 3, steps: one(c32Honest(t, m[1:4], messages.Ascending), e)}
		}},
		{"empty response while a disjoint fragment is waiting", func(r *vcommon.Rand) *c32Script {
			t, m := chain(r, 6)
			e := c32Honest(t, m[1:2], messages.Ascending)
			c32Mutate(r, t, e, "empty")
			return &c32Script{tree: t, mainLen: 6, steps: []c32Step{
				{announce: -1, resps: []*c32Resp{c32Honest(t, m[4:7], messages.Ascending)}},
				{announce: -1, resps: []*c32Resp{e}},
				{announce: -1, resps: []*c32Resp{c32Honest(t, m[1:4], messages.Descending)}}}}
		}},
		{"body-only response completing nothing", func(r *vcommon.Rand) *c32Script {
			t, m := chain(r, 2)
			bo := c32Honest(t, m[1:2], messages.Ascending)
			bo.fields = messages.RequestedDataBody + messages.RequestedDataJustification
			bo.kind = "bodyonly-unknown"
			return &c32Script{tree: t, mainLen: 2, steps: one(bo)}
		}},
		{"duplicated response in one batch", func(r *vcommon.Rand) *c32Script {
			t, m := chain(r, 3)
			return &c32Script{tree: t, mainLen: 3, steps: one(c32Honest(t, m[1:4], messages.Ascending), c32Honest(t, m[1:4], messages.Ascending))}
		}},
		{"gap in the middle", func(r *vcommon.Rand) *c32Script {
			t, m := chain(r, 4)
			rp := c32Honest(t, m[1:5], messages.Ascending)
			c32Mutate(r, t, rp, "gap")
			return &c32Script{tree: t, mainLen: 4, steps: one(rp)}
		}},
		{"descending request answered in ascending order", func(r *vcommon.Rand) *c32Script {
			t, m := chain(r, 3)
			rp := c32Honest(t, m[1:4], messages.Descending)
			c32Mutate(r, t, rp, "wrongdir")
			return &c32Script{tree: t, mainLen: 3, steps: one(rp)}
		}},
		{"announce, then body-only completion, parent unknown", func(r *vcommon.Rand) *c32Script {
			t, m := chain(r, 3)
			bo := c32Honest(t, m[3:4], messages.Ascending)
			bo.fields = messages.RequestedDataBody + messages.RequestedDataJustification
			bo.kind = "bodyonly"
			return &c32Script{tree: t, mainLen: 3, steps: []c32Step{{announce: m[3]}, {announce: -1, resps: []*c32Resp{bo}},
				{announce: -1, resps: []*c32Resp{c32Honest(t, m[1:3], messages.Ascending)}}}}
		}},
	}
	r.Fixed("corpus", len(corpus), func(c *vcommon.Case) {
		c.Count("corpus_scripts", 1)
		c32Run(c, corpus[c.Idx].mk(c.R))
	})

	// ---- every partition x every order of a 5-block chain with a 2-block fork,
	// as one batch and as one batch per response, ascending and descending
	enum := c32Enumerate(5)
	r.Fixed("partitions", len(enum)*4, func(c *vcommon.Case) {
		e := enum[c.Idx/4]
		mode := c.Idx % 4
		t, main, _ := c32Tree(c.R, 5, 0, 1)
		f1 := t.addChild(c.R, main[2], "f0.3", true)
		f2 := t.addChild(c.R, f1, "f0.4", true)
		dir := messages.Ascending
		if mode >= 2 {
			dir = messages.Descending
		}
		var rps []*c32Resp
		for i, p := range e {
			rps = append(rps, c32Honest(t, main[p[0]:p[1]+1], dir))
			if i == len(e)/2 {
				rps = append(rps, c32Honest(t, []int{f1, f2}, dir))
			}
		}
		sc := &c32Script{tree: t, mainLen: 5}
		if mode%2 == 0 {
			sc.steps = []c32Step{{announce: -1, resps: rps}}
		} else {
			for _, rp := range rps {
				sc.steps = append(sc.steps, c32Step{announce: -1, resps: []*c32Resp{rp}})
			}
		}
		c.Count("partition_scripts", 1)
		c32Run(c, sc)
	})

	r.Cases("rand", r.Scale(2500), func(c *vcommon.Case) {
		c32Run(c, c32RandomScript(c.R, false))
	})
	r.Cases("big", r.Scale(60), func(c *vcommon.Case) {
		c.Count("big_scripts", 1)
		c32Run(c, c32RandomScript(c.R, true))
	})

	// ---- the same strategy over the REAL blockImporter (zz_verif_c32_real_test.go)
	c32RealGroups(r)

	// ---- the closed loop: NextActions -> answers to the strategy's own requests -> Process (zz_verif_c32_loop_test.go)
	c32LoopGroups(r)

	// ---- the real blockImporter with a REAL finality gadget: justified blocks (zz_verif_c32_just_test.go)
	c32JustGroups(r)

	// ---- the production loop body SyncService.runStrategy over a fake Network / RequestMaker (zz_verif_c32_svc_test.go)
	c32SvcGroups(r)
}
