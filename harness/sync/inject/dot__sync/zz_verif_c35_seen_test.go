//go:build verif

package sync

// C35 through its request de-duplication user: SyncService.CreateBlockResponse does
//
//	n := seenBlockSyncRequests.Get(h); if n > 2 { rate-limit error }; seenBlockSyncRequests.Put(h, n+1)
//
// on a shared LRUCache[common.Hash, uint] (dot/sync/message.go). Here the REAL function is called from G
// goroutines with a few distinct (peer, request) pairs over a small real state.BlockState.
//
// Oracles (the property is about the cache: each Get and each Put is atomic; the get-then-put of the caller is not
// and may lose increments - lost updates are COUNTED, never raised):
//   - no panic (recovered per goroutine) / no process-fatal error (driver class crash);
//   - (the driver can build this binary with -race - add "race": true to the extra_runs entry in conc/engine.json - and then
//     judges reports on lib/utils/lru-cache and dot/sync/message.go; it is registered without, see conc/NOTES.md: build time);
//   - every outcome is the response the same request gets from a fresh service (same blocks; judged by c31Judge),
//     or the documented rate-limit error, or - for a request that is refused sequentially - the same refusal;
//   - a call is rate-limited only if at least 3 calls of the same key were let through (the value 3 can only have
//     been put by the third of them): otherwise the cache answered with a count that was never put under that key;
//   - afterwards the count stored under a key is <= min(calls of that key, 3); with no more keys than capacity
//     (no eviction possible) every called key is still present (count >= 1);
//   - structure (VerifCheck, injected into lib/utils/lru-cache): list length == map size <= capacity, walks agree;
//     every key in the cache is one of the keys the calls used.
// Build-time yields in front of the recency-list operations (engine.json "instrument") widen the windows inside Get/Put.
// Half of the workloads are clock-free (nothing shared between the goroutines), the other half stamp
// every call with one atomic counter so that really overlapping calls on one key can be counted (coverage only).

import (
	"bytes"
	"errors"
	"fmt"
	"runtime"
	"runtime/debug"
	"sort"
	"strings"
	gosync "sync"
	"sync/atomic"
	"testing"
	"time"

	"github.com/ChainSafe/gossamer/dot/network"
	"github.com/ChainSafe/gossamer/dot/network/messages"
	"github.com/ChainSafe/gossamer/dot/peerset"
	"github.com/ChainSafe/gossamer/dot/types"
	"github.com/ChainSafe/gossamer/lib/common"
	lrucache "github.com/ChainSafe/gossamer/lib/utils/lru-cache"
	"github.com/ChainSafe/gossamer/zz_verif/vcommon"
	"github.com/libp2p/go-libp2p/core/peer"
)

type c35Net struct{ reports atomic.Int64 }

func (n *c35Net) AllConnectedPeersIDs() []peer.ID                              { return nil }
func (n *c35Net) ReportPeer(_ peerset.ReputationChange, _ peer.ID)             { n.reports.Add(1) }
func (n *c35Net) BlockAnnounceHandshake(*types.Header) error                   { return nil }
func (n *c35Net) GossipMessageExcluding(network.NotificationsMessage, peer.ID) {}
func (n *c35Net) GetRequestResponseProtocol(string, time.Duration, uint64) *network.RequestResponseProtocol {
	return nil
}

// c35Pair is one (peer, request) pair = one key of the cache.
type c35Pair struct {
	who      peer.ID
	q        c31Req
	key      common.Hash
	startIdx int
	baseErr  string   // "" = served sequentially
	baseTags []string // blocks of the sequential response
	descr    string
}

func c35Key(who peer.ID, q c31Req) (common.Hash, error) {
	enc, err := q.msg().Encode()
	if err != nil {
		return common.Hash{}, err
	}
	return common.Blake2bHash(bytes.Join([][]byte{[]byte(who.String()), enc}, nil))
}

func c35StartIdx(w *c31World, q c31Req) int {
	switch {
	case q.byHash:
		if i, known := w.tree.byHash[q.hash]; known {
			return i
		}
	case q.num <= w.best():
		return w.main[q.num]
	case q.dir == messages.Descending: // documented clamping to the best block
		return w.main[w.best()]
	}
	return -1
}

func c35Hashes(resp *messages.BlockResponseMessage) []string {
	var s []string
	if resp == nil {
		return nil
	}
	for _, bd := range resp.BlockData {
		if bd == nil {
			s = append(s, "nil")
		} else {
			s = append(s, short(bd.Hash))
		}
	}
	return s
}

// c35MakePair fixes a request for peer who and records what a fresh service answers sequentially. ok=false: the
// request is not usable here (C31-K1 territory, or the sequential answer is not clean - C31 judges that).
func c35MakePair(c *vcommon.Case, w *c31World, who peer.ID, q c31Req) (p c35Pair, ok bool) {
	q.wire = false
	effNum := q.num
	if q.dir == messages.Descending && effNum > w.best() {
		effNum = w.best()
	}
	if !q.byHash && effNum == 0 {
		return p, false // by-number start 0: known finding C31-K1, not this property
	}
	key, err := c35Key(who, q)
	if err != nil {
		return p, false
	}
	p = c35Pair{who: who, q: q, key: key, startIdx: c35StartIdx(w, q)}
	svc := &SyncService{blockState: w.bs, network: &c35Net{}, seenBlockSyncRequests: lrucache.NewLRUCache[common.Hash, uint](4)}
	resp, err := svc.CreateBlockResponse(who, q.msg())
	if got := svc.seenBlockSyncRequests.Get(key); got != 1 {
		c.Inconclusive(fmt.Sprintf("harness: the cache key computed for %v is not the one CreateBlockResponse used (count %d after one call)", q.witness(w), got))
		return p, false
	}
	if err != nil {
		p.baseErr = err.Error()
	} else {
		if fails, _ := c31Judge(w, q, p.startIdx, resp, nil); len(fails) > 0 {
			c.Count("seen_baseline_not_clean_skipped", 1)
			return p, false
		}
		p.baseTags = c35Hashes(resp)
	}
	mx := "nil"
	if q.max != nil {
		mx = fmt.Sprint(*q.max)
	}
	st := fmt.Sprintf("#%d", q.num)
	if q.byHash {
		st = q.what + ":" + short(q.hash)
	}
	p.descr = fmt.Sprintf("peer %s %s %s max %s fields %d", string(who), q.dir.String(), st, mx, q.fields)
	return p, true
}

type c35Call struct {
	pair      int
	resp      *messages.BlockResponseMessage
	err       error
	call, ret int64
}

type c35Plan struct {
	capacity uint
	pairs    []c35Pair
	progs    [][]int // goroutine -> pair index per call
	timed    bool
	procs    int
	yield    int // percent: build-time yields in front of the cache's recency-list operations (engine.json "instrument")
	// warm: every key is first brought to the limit sequentially (3 calls let through), so that every concurrent
	// call is a pure reader of the cache (Get, rate-limit error, no Put): the readers-only workload on a full cache
	// through the real function. keys <= capacity is required (nothing can be evicted without a Put).
	warm bool
}

func c35Run(c *vcommon.Case, w *c31World, p c35Plan) {
	nw := &c35Net{}
	svc := &SyncService{blockState: w.bs, network: nw, seenBlockSyncRequests: lrucache.NewLRUCache[common.Hash, uint](p.capacity)}
	res := make([][]c35Call, len(p.progs))
	pan := make([]string, len(p.progs))
	var clk atomic.Int64
	start := make(chan struct{})
	var wg gosync.WaitGroup
	if p.procs > 0 {
		defer runtime.GOMAXPROCS(runtime.GOMAXPROCS(p.procs))
	}
	for g := range p.progs {
		wg.Add(1)
		go func(g int) {
			defer wg.Done()
			out := make([]c35Call, 0, len(p.progs[g]))
			defer func() { res[g] = out }()
			defer func() {
				if r := recover(); r != nil {
					st := string(debug.Stack())
					if len(st) > 3000 {
						st = st[:3000]
					}
					pan[g] = fmt.Sprintf("goroutine %d: %v\n%s", g, r, st)
				}
			}()
			msgs := make([]*messages.BlockRequestMessage, len(p.pairs))
			for i := range p.pairs {
				msgs[i] = p.pairs[i].q.msg() // every goroutine owns its request messages
			}
			<-start
			for _, pi := range p.progs[g] {
				cl := c35Call{pair: pi}
				if p.timed {
					cl.call = clk.Add(1)
				}
				cl.resp, cl.err = svc.CreateBlockResponse(p.pairs[pi].who, msgs[pi])
				if p.timed {
					cl.ret = clk.Add(1)
				}
				out = append(out, cl)
			}
		}(g)
	}
	var warmCalls []c35Call
	if p.warm {
		for pi := range p.pairs {
			for i := 0; i < int(maxNumberOfSameRequestPerPeer)+1; i++ {
				cl := c35Call{pair: pi}
				cl.resp, cl.err = svc.CreateBlockResponse(p.pairs[pi].who, p.pairs[pi].q.msg())
				warmCalls = append(warmCalls, cl)
			}
		}
	}
	lrucache.VerifSetYield(p.yield) // plain variable, written while every worker waits for start
	close(start)
	done := make(chan struct{})
	go func() { wg.Wait(); close(done) }()
	select {
	case <-done:
		lrucache.VerifSetYield(0)
	case <-time.After(180 * time.Second):
		c.Inconclusive("concurrent CreateBlockResponse calls still running after 180 s")
		return
	}
	wit := func() map[string]any {
		var ps []string
		for i, pr := range p.pairs {
			ps = append(ps, fmt.Sprintf("key %d = %s", i, pr.descr))
		}
		var progs any = p.progs
		if p.warm {
			progs = fmt.Sprintf("every key called 3 times sequentially, then %d goroutines x %d calls on random keys", len(p.progs), len(p.progs[0]))
		}
		return map[string]any{"world": w.descr, "capacity": p.capacity, "yield_pct": p.yield, "gomaxprocs": p.procs, "pairs": ps, "programs(goroutine -> key per call)": progs, "timed": p.timed}
	}
	bad := false
	for _, pm := range pan {
		if pm != "" {
			wi := wit()
			wi["stack"] = pm
			c.Violation("panic", "CreateBlockResponse panicked under concurrent calls: "+strings.SplitN(pm, "\n", 2)[0], wi)
			bad = true
		}
	}
	if bad {
		return
	}
	K := len(p.pairs)
	calls, served, limited := make([]int, K), make([]int, K), make([]int, K)
	callers := make([]map[int]bool, K)
	if p.warm {
		for g := range res {
			for _, cl := range res[g] {
				c.Count("seen_readers_only_calls", 1)
				if cl.err == nil || !errors.Is(cl.err, errMaxNumberOfSameRequest) {
					wi := wit()
					wi["key"], wi["outcome"] = cl.pair, fmt.Sprint(cl.err)
					c.Violation("seen-count-regressed", fmt.Sprintf("key %d (%s): a call was let through although the key held count 3 before the concurrent part "+
						"and nothing but Gets ran since (no Put, no eviction possible): Get answered less than what was stored", cl.pair, p.pairs[cl.pair].descr), wi)
					return
				}
			}
		}
		res = append(res, warmCalls) // accounted like the calls of one more goroutine
	}
	for g := range res {
		for _, cl := range res[g] {
			pr := &p.pairs[cl.pair]
			calls[cl.pair]++
			if callers[cl.pair] == nil {
				callers[cl.pair] = map[int]bool{}
			}
			callers[cl.pair][g] = true
			c.Eval(1)
			switch {
			case cl.err != nil && errors.Is(cl.err, errMaxNumberOfSameRequest):
				limited[cl.pair]++
				c.Count("seen_rate_limited", 1)
				if cl.resp != nil {
					c.Violation("seen-response-and-error", "rate-limit error together with a response", wit())
					bad = true
				}
			case cl.err != nil:
				served[cl.pair]++ // it passed the cache (the count was incremented) and was refused by the serving code
				if pr.baseErr == "" || cl.err.Error() != pr.baseErr {
					wi := wit()
					wi["key"], wi["error"], wi["sequential_outcome"] = cl.pair, cl.err.Error(), pr.baseErr
					c.Violation("seen-unexpected-error", fmt.Sprintf("key %d (%s): error %q, but the same request on a fresh service gives %s",
						cl.pair, pr.descr, cl.err.Error(), map[bool]string{true: "a response", false: "error " + pr.baseErr}[pr.baseErr == ""]), wi)
					bad = true
				} else {
					c.Count("seen_sequential_refusal_repeated", 1)
				}
			default:
				served[cl.pair]++
				fails, _ := c31Judge(w, pr.q, pr.startIdx, cl.resp, nil)
				got := c35Hashes(cl.resp)
				if len(fails) == 0 && (pr.baseErr != "" || strings.Join(got, ",") != strings.Join(pr.baseTags, ",")) {
					fails = append(fails, c31Fail{"differs", fmt.Sprintf("response %v differs from the one a fresh service gives (%v %s)", got, pr.baseTags, pr.baseErr)})
				}
				for _, f := range fails {
					wi := wit()
					wi["key"], wi["served"] = cl.pair, got
					c.Violation("seen-response-"+f.class, fmt.Sprintf("key %d (%s): %s", cl.pair, pr.descr, f.msg), wi)
					bad = true
				}
				if len(fails) == 0 {
					c.Count("seen_served_ok", 1)
				}
			}
		}
	}
	if bad {
		return
	}
	// the cache afterwards
	if msg := svc.seenBlockSyncRequests.VerifCheck(); msg != "" {
		c.Violation("structure", "seenBlockSyncRequests after concurrent CreateBlockResponse calls: "+msg, wit())
		return
	}
	isKey := map[common.Hash]int{}
	for i, pr := range p.pairs {
		isKey[pr.key] = i
	}
	for _, k := range svc.seenBlockSyncRequests.VerifOrder() {
		if _, ok := isKey[k]; !ok {
			c.Violation("seen-foreign-key", fmt.Sprintf("the cache holds key %s which no call used", k), wit())
			return
		}
	}
	noEvict := uint(K) <= p.capacity
	totalLimited := 0
	for i, pr := range p.pairs {
		if calls[i] == 0 {
			continue
		}
		c.Eval(1)
		totalLimited += limited[i]
		cnt := svc.seenBlockSyncRequests.Get(pr.key)
		lim := uint(calls[i])
		if lim > maxNumberOfSameRequestPerPeer+1 {
			lim = maxNumberOfSameRequestPerPeer + 1
		}
		wi := func() map[string]any {
			m := wit()
			m["key"], m["calls"], m["let_through"], m["rate_limited"], m["stored_count"] = i, calls[i], served[i], limited[i], cnt
			return m
		}
		if cnt > lim {
			c.Violation("seen-count", fmt.Sprintf("key %d: stored count %d > min(calls=%d, %d): a value that no call can have put", i, cnt, calls[i], maxNumberOfSameRequestPerPeer+1), wi())
			return
		}
		if limited[i] > 0 && served[i] < int(maxNumberOfSameRequestPerPeer)+1 {
			c.Violation("seen-phantom-limit", fmt.Sprintf("key %d: %d call(s) rate-limited although only %d call(s) of this key were let through (count 3 was never put)", i, limited[i], served[i]), wi())
			return
		}
		if noEvict && cnt == 0 {
			c.Violation("seen-entry-lost", fmt.Sprintf("key %d: no entry although %d call(s) put one and only %d keys share capacity %d", i, served[i], K, p.capacity), wi())
			return
		}
		if len(callers[i]) >= 2 {
			c.Count("seen_calls_on_key_shared_by_goroutines", calls[i])
			c.Count("seen_keys_shared_by_goroutines", 1)
		}
		if noEvict {
			// sequentially exactly min(calls,3) calls pass and the count ends at min(calls,3)
			if extra := served[i] - int(lim); extra > 0 {
				c.Count("seen_lost_updates_extra_calls_let_through", extra)
			}
			if cnt < lim {
				c.Count("seen_lost_updates_final_count_below_sequential", 1)
			}
			if limited[i] > 0 {
				c.Count("seen_keys_reaching_the_limit", 1)
			}
		} else {
			c.Count("seen_keys_in_evicting_cache", 1)
			if cnt == 0 {
				c.Count("seen_keys_evicted_at_the_end", 1)
			}
		}
	}
	if int(nw.reports.Load()) != totalLimited {
		c.Count("seen_reportpeer_calls_differ_from_rate_limited", 1)
	}
	if p.timed {
		ov := 0
		var all []c35Call
		for g := range res {
			all = append(all, res[g]...)
		}
		for i := range all {
			for j := i + 1; j < len(all); j++ {
				if all[i].pair == all[j].pair && all[i].call < all[j].ret && all[j].call < all[i].ret {
					ov++
				}
			}
		}
		c.Count("seen_overlapping_call_pairs_same_key", ov)
		if ov > 0 {
			c.Count("seen_timed_workloads_with_same_key_overlap", 1)
		}
		c.Count("seen_timed_workloads", 1)
	} else {
		c.Count("seen_clockfree_workloads", 1)
	}
	c.Count("seen_workloads", 1)
	c.Count("seen_calls", func() int {
		n := 0
		for _, x := range calls {
			n += x
		}
		return n
	}())
	if !noEvict {
		c.Count("seen_workloads_more_keys_than_capacity", 1)
	}
	var sig []string
	for i := range p.pairs {
		sig = append(sig, fmt.Sprintf("%d/%d/%d", calls[i], served[i], limited[i]))
	}
	sort.Strings(sig)
	if p.warm {
		c.Count("seen_readers_only_workloads", 1)
	}
	c.Distinct(fmt.Sprintf("seen|cap%d|g%d|%v|%v|%s", p.capacity, len(p.progs), p.timed, p.warm, strings.Join(sig, ",")))
	c.Sample(map[string]any{"engine": "sync", "world": w.descr, "capacity": p.capacity, "goroutines": len(p.progs), "timed": p.timed,
		"keys": func() []string {
			var s []string
			for i, pr := range p.pairs {
				s = append(s, fmt.Sprintf("%s: calls %d let through %d rate-limited %d", pr.descr, calls[i], served[i], limited[i]))
			}
			return s
		}()})
}

func c35GenPlan(c *vcommon.Case, w *c31World) (c35Plan, bool) {
	r := c.R
	p := c35Plan{timed: c.Idx%2 == 0, procs: vcommon.Pick(r, []int{0, 0, 2, 4, 8}), yield: vcommon.Pick(r, []int{0, 20, 50, 80})}
	peers := []peer.ID{"verif-peer-a", "verif-peer-b"}
	nk := r.Range(1, 4)
	var reqs []c31Req
	for tries := 0; len(p.pairs) < nk && tries < 40; tries++ {
		var q c31Req
		if len(reqs) > 0 && r.Chance(1, 3) {
			q = vcommon.Pick(r, reqs) // the same request from the other peer is another key
		} else {
			q = c31GenReq(r, w)
			if r.Chance(2, 3) && q.what == "unknown" {
				continue // keep refused requests rare
			}
		}
		who := vcommon.Pick(r, peers)
		dup := false
		key, _ := c35Key(who, q)
		for _, pr := range p.pairs {
			dup = dup || pr.key == key
		}
		if dup {
			continue
		}
		pr, ok := c35MakePair(c, w, who, q)
		if !ok {
			continue
		}
		reqs = append(reqs, q)
		p.pairs = append(p.pairs, pr)
	}
	if len(p.pairs) == 0 {
		return p, false
	}
	K := len(p.pairs)
	p.capacity = uint(vcommon.Pick(r, []int{100, 100, K, K + 1, 1, 2}))
	G := r.Range(3, 8)
	per := r.Range(3, 10)
	hot := r.Chance(1, 3)
	for g := 0; g < G; g++ {
		var prog []int
		for i := 0; i < per; i++ {
			if hot {
				prog = append(prog, 0)
			} else {
				prog = append(prog, r.Intn(K))
			}
		}
		p.progs = append(p.progs, prog)
	}
	return p, true
}

func TestVerifC35Seen(t *testing.T) {
	r := vcommon.Start(t, "C35")
	defer r.Finish()
	r.Floor("seen_workloads", 40)
	r.Floor("seen_clockfree_workloads", 15)
	r.Floor("seen_calls_on_key_shared_by_goroutines", 1500)
	r.Floor("seen_overlapping_call_pairs_same_key", 100)
	r.Floor("seen_served_ok", 500)
	r.Floor("seen_rate_limited", 200)
	r.Floor("seen_keys_reaching_the_limit", 30)
	r.Floor("seen_workloads_more_keys_than_capacity", 5)
	r.Floor("seen_readers_only_workloads", 20)
	r.Floor("seen_readers_only_calls", 50000)

	worlds := map[int]*c31World{}
	getWorld := func(c *vcommon.Case, k int) *c31World {
		if w, ok := worlds[k]; ok {
			return w
		}
		wr := vcommon.NewRand(3500 + uint64(k))
		n := []int{6, 12, 20}[k%3]
		w, err := c31BuildWorld(t, wr, c31Spec{n: n, fin: n / 3, prForks: 1, lvForks: 2, extras: true, forkSpan: 3})
		if err != nil {
			worlds[k] = nil
			c.Inconclusive("cannot build world: " + err.Error())
			return nil
		}
		worlds[k] = w
		return w
	}

	// fixed corpus: one key hammered by every goroutine (the production pattern of a peer repeating itself), two
	// peers with the same request, more keys than capacity; alternating timed / clock-free
	r.Fixed("seen-corpus", 12, func(c *vcommon.Case) {
		w := getWorld(c, c.Idx%3)
		if w == nil {
			return
		}
		one := uint32(1)
		qa := c31Req{what: "num", num: 1, dir: messages.Ascending, max: u32p(3), fields: 1}
		qb := c31Req{what: "num", num: 2, dir: messages.Descending, max: &one, fields: 3}
		qc := c31Req{what: "canon", byHash: true, hash: w.tree.nodes[w.main[1]].hash, dir: messages.Ascending, fields: 19}
		type pk struct {
			who peer.ID
			q   c31Req
		}
		shapes := [][]pk{
			{{"pA", qa}},
			{{"pA", qa}, {"pB", qa}},
			{{"pA", qa}, {"pA", qb}, {"pB", qc}},
		}
		p := c35Plan{timed: c.Idx%2 == 0, procs: []int{0, 4, 2, 8}[c.Idx%4], yield: []int{50, 50, 0, 80}[(c.Idx/2)%4]}
		for _, s := range shapes[(c.Idx/2)%3] {
			pr, ok := c35MakePair(c, w, s.who, s.q)
			if !ok {
				c.Inconclusive("corpus request not usable")
				return
			}
			p.pairs = append(p.pairs, pr)
		}
		K := len(p.pairs)
		p.capacity = []uint{100, uint(K), 1}[(c.Idx/6)%3]
		if c.Idx >= 6 && K > 1 {
			p.capacity = uint(K - 1)
		}
		for g := 0; g < 6; g++ {
			var prog []int
			for i := 0; i < 8; i++ {
				prog = append(prog, (g+i)%K)
			}
			p.progs = append(p.progs, prog)
		}
		c35Run(c, w, p)
	})

	// readers only: 2-4 keys at the limit, 4-8 goroutines x 300-600 rate-limited calls = concurrent Gets of
	// non-front elements (each Get refreshes recency) and nothing else
	r.Cases("seen-readers", r.Scale(48), func(c *vcommon.Case) {
		w := getWorld(c, c.R.Intn(3))
		if w == nil {
			return
		}
		p := c35Plan{timed: false, warm: true, procs: vcommon.Pick(c.R, []int{0, 0, 4, 8}), yield: vcommon.Pick(c.R, []int{20, 50, 80, 80})}
		peers := []peer.ID{"verif-peer-a", "verif-peer-b", "verif-peer-c", "verif-peer-d"}
		one := uint32(1)
		q := c31Req{what: "num", num: uint(c.R.Range(1, int(w.best()))), dir: messages.Ascending, max: &one, fields: 1}
		for i, nk := 0, c.R.Range(2, 4); i < nk; i++ {
			pr, ok := c35MakePair(c, w, peers[i], q)
			if !ok {
				c.Inconclusive("readers request not usable")
				return
			}
			p.pairs = append(p.pairs, pr)
		}
		K := len(p.pairs)
		p.capacity = uint(vcommon.Pick(c.R, []int{K, K, K + 1, 100}))
		G, per := c.R.Range(4, 8), c.R.Range(300, 600)
		for g := 0; g < G; g++ {
			prog := make([]int, per)
			for i := range prog {
				prog[i] = c.R.Intn(K)
			}
			p.progs = append(p.progs, prog)
		}
		c35Run(c, w, p)
	})

	r.Cases("seen", r.Scale(120), func(c *vcommon.Case) {
		w := getWorld(c, c.R.Intn(3))
		if w == nil {
			return
		}
		p, ok := c35GenPlan(c, w)
		if !ok {
			c.Count("seen_no_usable_request_generated", 1)
			return
		}
		c35Run(c, w, p)
	})
}
