//go:build verif

package sync

// C31 — the PRODUCTION planner: FullSyncStrategy.NextActions / createTasks.
//
// messages.NewAscendingBlockRequests is only a helper; the (a,b) it is given in
// production are computed by NextActions from the best block of the block state
// and from the target the strategy learnt through OnBlockAnnounceHandshake /
// OnBlockAnnounce. This family drives exactly that path: a real
// FullSyncStrategy over the harness' fake block state (zz_verif_c32_test.go:
// c32State over c32Model) or over a real state.BlockState (c31World), peers
// report their best blocks, NextActions is called, and the returned tasks are
// judged against the harness' own model (B = best number the block state
// reports, T = highest best-block number any peer reported so far):
//
//   by-number tasks   ascending, 1 <= max <= 128, first start = B+1 (nothing <= B),
//                     start_{i+1} = start_i + max_i (every height exactly once, ascending),
//                     last height E <= T (nothing above the target), at least one task when B < T,
//                     and E == T whenever T lies inside the planning window documented by the
//                     code (B+1 + numOfTasks*127); beyond the window the end is only counted;
//                     B >= T  =>  no by-number task at all
//   queued requests   every request the strategy queued itself for a relevant block announce
//                     (by hash, decided from OnBlockAnnounce's return value and the model's set of
//                     known headers) is handed out by a NextActions call exactly once: never twice,
//                     and none is left after enough calls to drain the queue
//
// Counted, not judged: heights requested again by a later NextActions call while
// the best block did not move (the planner is stateless by design: the service
// loop in service.go runs NextActions -> submitRequests (blocking) -> Process,
// so no task is outstanding when NextActions runs again), the window end when
// the target is beyond the window, a height requested both by number and by
// hash (announced block inside the planned range), more queued tasks than
// numOfTasks in one call.

import (
	"fmt"
	"math"
	"strings"
	"testing"

	"github.com/ChainSafe/gossamer/dot/network"
	"github.com/ChainSafe/gossamer/dot/network/messages"
	"github.com/ChainSafe/gossamer/dot/peerset"
	"github.com/ChainSafe/gossamer/dot/types"
	"github.com/ChainSafe/gossamer/lib/common"
	"github.com/ChainSafe/gossamer/zz_verif/vcommon"
	"github.com/libp2p/go-libp2p/core/peer"
)

// c31Planner is one FullSyncStrategy under observation plus the harness' model
// of what it was told.
type c31Planner struct {
	c          *vcommon.Case
	fs         *FullSyncStrategy
	numOfTasks int // effective (0 => the documented default 3)
	best       func() uint
	known      func(common.Hash) bool
	target     uint                // model: highest best-block number reported by any peer
	pending    map[common.Hash]int // requests the strategy queued for announces and has not handed out yet
	issued     map[common.Hash]int
	numberOf   map[common.Hash]uint
	requested  map[uint]int // heights requested by earlier NextActions calls (never answered in this family)
	lines      []string
	calls      int
	stop       bool
}

func (p *c31Planner) witness(extra map[string]any) map[string]any {
	l := p.lines
	if len(l) > 60 {
		l = append(append([]string{}, l[:20]...), append([]string{"..."}, l[len(l)-35:]...)...)
	}
	w := map[string]any{"history": l, "numOfTasks": p.numOfTasks, "best": p.best(), "target_model": p.target}
	for k, v := range extra {
		w[k] = v
	}
	return w
}

func (p *c31Planner) handshake(who peer.ID, n uint32) {
	var h common.Hash
	copy(h[:], p.c.R.Bytes(32))
	p.lines = append(p.lines, fmt.Sprintf("handshake %s best=#%d", who, n))
	if err := p.fs.OnBlockAnnounceHandshake(who, &network.BlockAnnounceHandshake{Roles: 1, BestBlockNumber: n, BestBlockHash: h}); err != nil {
		p.c.Count("planner_handshake_errors", 1)
		return
	}
	p.c.Count("planner_handshakes", 1)
	if uint(n) > p.target {
		p.target = uint(n)
	}
}

// announce sends a block announce for header hd. A request is expected in the
// strategy's queue when the announce was accepted as relevant gossip and the
// header is not known to the node (decided from the return value, not from the
// queue).
func (p *c31Planner) announce(who peer.ID, hd *types.Header, bestBlock bool) {
	hh := vHeaderHash(hd)
	msg := &network.BlockAnnounceMessage{ParentHash: hd.ParentHash, Number: hd.Number, StateRoot: hd.StateRoot,
		ExtrinsicsRoot: hd.ExtrinsicsRoot, Digest: hd.Digest, BestBlock: bestBlock}
	rep, err := p.fs.OnBlockAnnounce(who, msg)
	p.c.Count("planner_announces", 1)
	outcome := "ignored-far"
	switch {
	case err != nil:
		outcome = "error"
	case rep != nil && rep.rep.Value == peerset.GossipSuccessValue:
		if p.known(hh) {
			outcome = "known"
		} else {
			outcome = "queued"
			p.pending[hh]++
			p.numberOf[hh] = hd.Number
			p.c.Count("planner_announce_requests_expected", 1)
		}
	case rep != nil:
		outcome = "not-relevant"
	}
	p.c.Count("planner_announce_"+outcome, 1)
	if bestBlock && err == nil && hd.Number <= math.MaxUint32 && hd.Number > p.target {
		p.target = hd.Number
		p.c.Count("planner_target_raised_by_announce", 1)
	}
	p.lines = append(p.lines, fmt.Sprintf("announce %s #%d %s best=%v -> %s", who, hd.Number, short(hh), bestBlock, outcome))
}

func c31pDescribe(tasks []*SyncTask) []string {
	var s []string
	for _, tk := range tasks {
		q, ok := tk.request.(*messages.BlockRequestMessage)
		if !ok || q == nil {
			s = append(s, fmt.Sprintf("%T", tk.request))
			continue
		}
		mx := "nil"
		if q.Max != nil {
			mx = fmt.Sprint(*q.Max)
		}
		switch v := q.StartingBlock.RawValue().(type) {
		case uint:
			s = append(s, fmt.Sprintf("#%d+%s/%s/f%d", v, mx, q.Direction, q.RequestedData))
		case common.Hash:
			s = append(s, fmt.Sprintf("%s+%s/%s/f%d", short(v), mx, q.Direction, q.RequestedData))
		}
	}
	return s
}

// next calls NextActions once and judges the returned tasks.
func (p *c31Planner) next() (rangeTasks, queueTasks int) {
	c := p.c
	B, T := p.best(), p.target
	var tasks []*SyncTask
	var err error
	var panicked any
	func() {
		defer func() { panicked = recover() }()
		tasks, err = p.fs.NextActions()
	}()
	c.Eval(1)
	c.Count("planner_next_actions", 1)
	p.calls++
	descr := c31pDescribe(tasks)
	p.lines = append(p.lines, fmt.Sprintf("NextActions (best=#%d target=#%d) -> [%s]", B, T, strings.Join(descr, " ")))
	fail := func(class, msg string) {
		p.stop = true
		c.Violation(class, msg, p.witness(map[string]any{"tasks": descr}))
	}
	if panicked != nil {
		fail("panic", fmt.Sprintf("NextActions panicked: %v", panicked))
		return
	}
	if err != nil {
		c.Count("planner_next_actions_errors", 1)
		return
	}
	next := B + 1
	first := true
	seenHash := map[common.Hash]bool{}
	var byHashHeights []uint
	for i, tk := range tasks {
		q, ok := tk.request.(*messages.BlockRequestMessage)
		if tk == nil || !ok || q == nil {
			fail("plan-shape", fmt.Sprintf("task %d carries no block request", i))
			return
		}
		if tk.response == nil {
			c.Count("planner_task_without_response_object", 1)
		}
		switch st := q.StartingBlock.RawValue().(type) {
		case common.Hash:
			queueTasks++
			switch {
			case p.pending[st] > 0:
				p.pending[st]--
				p.issued[st]++
				c.Count("planner_queued_request_handed_out", 1)
				byHashHeights = append(byHashHeights, p.numberOf[st])
			case p.issued[st] > 0 || seenHash[st]:
				fail("queued-request-twice", fmt.Sprintf("task %d: the request queued for announced block %s was handed out a second time", i, short(st)))
				return
			default:
				c.Count("planner_unexplained_by_hash_task", 1)
			}
			seenHash[st] = true
		case uint:
			rangeTasks++
			if q.Direction != messages.Ascending || q.Max == nil {
				fail("plan-shape", fmt.Sprintf("task %d is not an ascending by-number request with a max", i))
				return
			}
			mx := uint(*q.Max)
			if mx == 0 || mx > messages.MaxBlocksInResponse {
				fail("plan-max", fmt.Sprintf("task %d has max %d (protocol maximum 128)", i, mx))
				return
			}
			if st <= B {
				fail("plan-below-best", fmt.Sprintf("task %d starts at #%d, the best block is #%d (already synced heights requested)", i, st, B))
				return
			}
			if st != next {
				what := "gap or disorder"
				if st < next {
					what = "overlap: heights requested twice"
				}
				if first {
					what = "heights above the best block skipped"
				}
				fail("plan-cover", fmt.Sprintf("task %d starts at #%d, expected #%d (%s)", i, st, next, what))
				return
			}
			first = false
			next = st + mx
			if next-1 > T {
				fail("plan-beyond-target", fmt.Sprintf("task %d requests up to #%d, the highest block any peer reported is #%d", i, next-1, T))
				return
			}
			if q.RequestedData != messages.BootstrapRequestData {
				c.Count("planner_range_task_other_fields", 1)
			}
		default:
			fail("plan-shape", fmt.Sprintf("task %d has a starting block of type %T", i, st))
			return
		}
	}
	E := next - 1 // last planned height (== B when nothing was planned)
	window := B + 1 + uint(p.numOfTasks)*127
	cls := "le0"
	if T > B {
		switch d := T - B; {
		case T == window:
			cls = "window"
		case T == window+1:
			cls = "window+1"
		case T+1 == window:
			cls = "window-1"
		case T > window:
			cls = "beyond"
		case d%128 == 0:
			cls = "k128"
		case d%128 == 1:
			cls = "k128+1"
		case d%128 == 127:
			cls = "k128-1"
		default:
			cls = "inside"
		}
	}
	switch {
	case B >= T:
		// nothing above the best block is at or below the target: any by-number task was refuted above
		// (start <= B or end > T), so rangeTasks == 0 here
		c.Count("planner_best_at_or_above_target", 1)
		if B == T {
			c.Count("planner_best_equals_target", 1)
		}
	case rangeTasks == 0:
		fail("plan-short-of-target", fmt.Sprintf("best #%d, target #%d, but no height was requested", B, T))
		return
	case T <= window:
		if E != T {
			fail("plan-short-of-target", fmt.Sprintf("best #%d, target #%d (inside the planning window of %d tasks): planned heights end at #%d", B, T, p.numOfTasks, E))
			return
		}
		c.Count("planner_plan_reaches_target", 1)
		if T == B+1 {
			c.Count("planner_target_is_best_plus_1", 1)
		}
		if T%128 == 0 || (T-B)%128 == 0 {
			c.Count("planner_target_or_span_multiple_of_128", 1)
		}
	default:
		if E == window {
			c.Count("planner_window_end_as_documented", 1)
		} else {
			c.Count("planner_window_end_other", 1)
		}
	}
	if B == 0 && rangeTasks > 0 {
		c.Count("planner_plans_from_genesis", 1)
	}
	if rangeTasks > 0 {
		c.Count("planner_calls_with_range_tasks", 1)
		c.Count("planner_range_tasks", rangeTasks)
		re := 0
		for h := B + 1; h <= E; h++ {
			if p.requested[h] > 0 {
				re++
			}
			p.requested[h]++
		}
		if re > 0 {
			// by design: NextActions keeps no record of what it handed out (see the header comment)
			c.Count("planner_calls_rerequesting_unanswered_heights", 1)
			c.Count("planner_heights_rerequested", re)
		}
		for _, h := range byHashHeights {
			if h > B && h <= E {
				c.Count("planner_height_requested_by_number_and_by_hash", 1)
			}
		}
	}
	if queueTasks > p.numOfTasks {
		c.Count("planner_more_queue_tasks_than_numOfTasks", 1)
	}
	if queueTasks > 0 {
		c.Count("planner_calls_with_queue_tasks", 1)
	}
	c.Distinct(fmt.Sprintf("planner|n%d|%s|r%d|q%d|b0=%v", p.numOfTasks, cls, rangeTasks, queueTasks, B == 0))
	return
}

// drain: enough further calls to hand out everything that is still queued; a
// request that never comes out is a hole in the plan.
func (p *c31Planner) drain() {
	left := 0
	for _, n := range p.pending {
		left += n
	}
	for i := 0; !p.stop && i < left/p.numOfTasks+2; i++ {
		p.next()
	}
	if p.stop {
		return
	}
	p.c.Eval(1)
	for h, n := range p.pending {
		if n > 0 {
			p.stop = true
			p.c.Violation("queued-request-lost", fmt.Sprintf("the request queued for announced block #%d %s was never handed out by NextActions (%d calls)",
				p.numberOf[h], short(h), p.calls), p.witness(nil))
			return
		}
	}
}

// ---- fake block state: c32State over a model whose best/finalised headers are fabricated

type c31pFake struct {
	m *c32Model
	r *vcommon.Rand
}

func c31pHeader(r *vcommon.Rand, number uint, parent common.Hash) *types.Header {
	return &types.Header{ParentHash: parent, Number: number, StateRoot: randHash(r), ExtrinsicsRoot: randHash(r),
		Digest: vBabeDigest(uint32(r.Intn(4)), uint64(9000+r.Intn(1000)))}
}

func newC31pFake(r *vcommon.Rand, best, fin uint) *c31pFake {
	f := &c31pFake{r: r, m: &c32Model{known: map[common.Hash]bool{}, finOn: map[common.Hash]bool{}}}
	f.m.finalised = c31pHeader(r, fin, randHash(r))
	f.m.best = f.m.finalised
	f.m.known[vHeaderHash(f.m.finalised)] = true
	f.setBest(best)
	return f
}

func (f *c31pFake) setBest(n uint) {
	if n == f.m.best.Number {
		return
	}
	f.m.best = c31pHeader(f.r, n, randHash(f.r))
	f.m.known[vHeaderHash(f.m.best)] = true
}

func newC31Planner(c *vcommon.Case, bs BlockState, cfgTasks int, best func() uint, known func(common.Hash) bool) *c31Planner {
	p := &c31Planner{c: c, numOfTasks: cfgTasks, best: best, known: known, pending: map[common.Hash]int{},
		issued: map[common.Hash]int{}, numberOf: map[common.Hash]uint{}, requested: map[uint]int{}}
	if cfgTasks == 0 {
		p.numOfTasks = defaultNumOfTasks // documented default of NewFullSyncStrategy
		p.lines = append(p.lines, "NumOfTasks: 0 (default)")
	}
	p.fs = NewFullSyncStrategy(&FullSyncConfig{BlockState: bs, NumOfTasks: cfgTasks})
	return p
}

func c31pPeers(n int) []peer.ID {
	var ps []peer.ID
	for i := 0; i < n; i++ {
		ps = append(ps, peer.ID(fmt.Sprintf("peer%c", 'A'+i)))
	}
	return ps
}

// c31pDeltas: target - best values worth a case of their own for a strategy with n tasks.
func c31pDeltas(n int) []int {
	w := 1 + n*127 // documented window: best+1+n*127
	ds := []int{-300, -5, -1, 0, 1, 2, 3, 64, 126, 127, 128, 129, 130, 254, 255, 256, 257, 258, 383, 384, 385, 511, 512, 513, 1000, 5000}
	for _, k := range []int{w - 2, w - 1, w, w + 1, w + 2, n * 128, n*128 - 1, n*128 + 1} {
		ds = append(ds, k)
	}
	return ds
}

func c31PlannerGroups(t *testing.T, r *vcommon.Run) {
	r.Floor("planner_next_actions", 4000)
	r.Floor("planner_plan_reaches_target", 1500)
	r.Floor("planner_best_at_or_above_target", 300)
	r.Floor("planner_best_equals_target", 60)
	r.Floor("planner_target_is_best_plus_1", 60)
	r.Floor("planner_target_or_span_multiple_of_128", 100)
	r.Floor("planner_plans_from_genesis", 100)
	r.Floor("planner_window_end_as_documented", 300)
	r.Floor("planner_queued_request_handed_out", 300)
	r.Floor("planner_calls_with_queue_tasks", 200)
	r.Floor("planner_target_raised_by_announce", 100)
	r.Floor("planner_several_peers_different_targets", 200)
	r.Floor("planner_calls_rerequesting_unanswered_heights", 100)
	r.Floor("planner_real_state_next_actions", 100)

	// ---- grid: (numOfTasks, best) x every interesting target - best, one peer, one handshake, one call
	// (+ a second call with nothing answered, + a call after the best block moved into the planned range)
	nTasks := []int{0, 1, 2, 3, 4, 7}
	bests := []uint{0, 1, 2, 126, 127, 128, 129, 255, 256, 381, 382, 383, 1000, math.MaxUint32 - 6000}
	r.Fixed("planner-grid", len(nTasks)*len(bests), func(c *vcommon.Case) {
		n := nTasks[c.Idx/len(bests)]
		B := bests[c.Idx%len(bests)]
		eff := n
		if eff == 0 {
			eff = defaultNumOfTasks
		}
		for _, d := range c31pDeltas(eff) {
			if int(B)+d < 0 {
				continue
			}
			T := uint(int(B) + d)
			fin := uint(0)
			if B > 10 {
				fin = B - 3
			}
			f := newC31pFake(c.R, B, fin)
			p := newC31Planner(c, &c32State{m: f.m}, n, func() uint { return f.m.best.Number }, func(h common.Hash) bool { return f.m.known[h] })
			p.handshake("peerA", uint32(T))
			rt, _ := p.next()
			if p.stop {
				return
			}
			p.next() // nothing answered, nothing imported: the same plan again (counted)
			if p.stop {
				return
			}
			if rt > 0 && T > B+1 {
				// part of the plan was imported: the next plan must start above the new best block
				f.setBest(B + 1 + uint(c.R.Intn(int(min(T-B-1, 300)))))
				p.next()
				if p.stop {
					return
				}
			}
		}
	})

	// ---- generated histories: several peers with different (and growing) views, announces around the best
	// block (queue), imports moving the best block, NextActions in between
	r.Cases("planner", r.Scale(400), func(c *vcommon.Case) {
		rd := c.R
		n := vcommon.Pick(rd, []int{0, 1, 2, 3, 3, 4, 5, 8})
		B := uint(vcommon.Pick(rd, []int{0, 0, 1, 2, 5, 127, 128, 129, 200, 256, 383, 384, 1000, 70000, rd.Intn(3000)}))
		fin := uint(0)
		if B > 0 && rd.Bool() {
			fin = uint(rd.Intn(int(B) + 1))
		}
		f := newC31pFake(rd, B, fin)
		p := newC31Planner(c, &c32State{m: f.m}, n, func() uint { return f.m.best.Number }, func(h common.Hash) bool { return f.m.known[h] })
		peers := c31pPeers(rd.Range(1, 5))
		reported := map[peer.ID]uint{}
		aheadOf := func(b uint) uint32 {
			w := uint(1 + p.numOfTasks*127)
			cands := []uint{b, b + 1, b + 2, b + 127, b + 128, b + 129, b + w - 1, b + w, b + w + 1, b + uint(rd.Intn(int(w)+200)),
				(b/128 + 1) * 128, (b/128 + 2) * 128, (b/128+3)*128 + 1, (b/128+1)*128 - 1, b + uint(rd.Intn(2000))}
			if b > 3 {
				cands = append(cands, b-1, b-3, uint(rd.Intn(int(b))))
			}
			return uint32(vcommon.Pick(rd, cands))
		}
		for step, steps := 0, rd.Range(4, 14); step < steps && !p.stop; step++ {
			b := f.m.best.Number
			switch k := rd.Intn(10); {
			case k < 3: // a peer (re)reports its best block; a lower number than before is ignored by the strategy
				who := vcommon.Pick(rd, peers)
				v := aheadOf(b)
				p.handshake(who, v)
				if uint(v) > reported[who] {
					reported[who] = uint(v)
				}
				distinct := map[uint]bool{}
				for _, x := range reported {
					distinct[x] = true
				}
				if len(distinct) >= 2 {
					c.Count("planner_several_peers_different_targets", 1)
				}
			case k < 5: // block announce near the best block (queues a body request when relevant and unknown)
				who := vcommon.Pick(rd, peers)
				num := b + 1
				switch rd.Intn(6) {
				case 0:
					num = b + uint(rd.Range(1, 128))
				case 1:
					num = b + 128
				case 2:
					num = b + 129 + uint(rd.Intn(500)) // too far: ignored
				case 3:
					if b > f.m.finalised.Number+1 {
						num = b - 1 // a fork block below the best block
					}
				case 4:
					num = f.m.finalised.Number // not relevant
				}
				hd := c31pHeader(rd, num, randHash(rd))
				if rd.Chance(1, 8) {
					hd = copyHeader(f.m.best) // already known
				}
				best := rd.Chance(1, 2)
				p.announce(who, hd, best)
				if rd.Chance(1, 5) {
					p.announce(vcommon.Pick(rd, peers), hd, false) // the same block again: already tracked
				}
			case k < 7 && p.target > b: // blocks were imported
				nb := b + uint(rd.Range(1, 400))
				if rd.Chance(1, 3) {
					nb = p.target
				} else if rd.Chance(1, 6) {
					nb = p.target + uint(rd.Intn(3))
				}
				f.setBest(nb)
				p.lines = append(p.lines, fmt.Sprintf("best block is now #%d", nb))
			default:
				p.next()
			}
		}
		if !p.stop {
			p.next()
		}
		if !p.stop {
			p.drain()
		}
		c.Sample(map[string]any{"history": p.lines})
	})

	// ---- the same over a REAL state.BlockState (best block and known headers come from the block tree / database)
	worlds := map[int]*c31World{}
	r.Cases("planner-real", r.Scale(48), func(c *vcommon.Case) {
		k := []int{1, 2, 3, 0}[c.Idx%4]
		w, ok := worlds[k]
		if !ok {
			wr := vcommon.NewRand(r.Seed*7919 + uint64(k))
			var err error
			w, err = c31BuildWorld(t, wr, c31Specs(wr, k))
			if err != nil {
				w = nil
				c.Inconclusive("cannot build world: " + err.Error())
			}
			worlds[k] = w
		}
		if w == nil {
			return
		}
		rd := c.R
		B := w.best()
		for rep := 0; rep < 6; rep++ {
			n := vcommon.Pick(rd, []int{0, 1, 2, 3, 4})
			p := newC31Planner(c, w.bs, n, func() uint { return B }, func(h common.Hash) bool { _, ok := w.tree.byHash[h]; return ok })
			p.lines = append(p.lines, "real block state: "+w.descr)
			peers := c31pPeers(rd.Range(1, 3))
			for step, steps := 0, rd.Range(2, 7); step < steps && !p.stop; step++ {
				switch rd.Intn(4) {
				case 0, 1:
					win := uint(1 + p.numOfTasks*127)
					v := vcommon.Pick(rd, []uint{B, B + 1, B + 2, B + 128, B + win - 1, B + win, B + win + 1, (B/128 + 1) * 128, (B/128 + 2) * 128,
						B + uint(rd.Intn(900)), uint(rd.Intn(int(B) + 1))})
					p.handshake(vcommon.Pick(rd, peers), uint32(v))
				case 2:
					var hd *types.Header
					switch rd.Intn(4) {
					case 0: // a block of the node's own tree: known, nothing to request
						hd = copyHeader(w.tree.nodes[rd.Intn(len(w.tree.nodes))].header)
					case 1: // unknown child of the best block
						hd = c31pHeader(rd, B+1, w.tree.nodes[w.main[B]].hash)
					default:
						hd = c31pHeader(rd, w.finalised+uint(rd.Range(1, 140)), randHash(rd))
					}
					p.announce(vcommon.Pick(rd, peers), hd, rd.Bool())
				default:
					p.next()
					c.Count("planner_real_state_next_actions", 1)
				}
			}
			if !p.stop {
				p.next()
				c.Count("planner_real_state_next_actions", 1)
			}
			if !p.stop {
				p.drain()
			}
			if p.stop {
				return
			}
		}
	})
}
