//go:build verif

package sync

// C31 — block request planning and serving cover exactly the requested range.
//
// Planning oracle: NewAscendingBlockRequests(a,b) must be a list of ascending
// by-number requests whose [start, start+max) intervals tile [a,b] exactly,
// each 1 <= max <= 128.
//
// Serving oracle: SyncService.CreateBlockResponse over a REAL state.BlockState
// (in-memory pebble) holding a generated tree (finalised prefix in the DB,
// rest in the block tree, forks, forks pruned by finalisation). A served
// (err == nil) response must be a parent-linked chain of blocks of the
// harness' tree, starting at the requested block, in the requested direction,
// no longer than min(req.Max,128), each block carrying exactly the requested
// fields with the contents the harness stored.

import (
	"errors"
	"fmt"
	"math"
	"os"
	"testing"
	"time"

	"github.com/ChainSafe/gossamer/dot/network"
	"github.com/ChainSafe/gossamer/dot/network/messages"
	"github.com/ChainSafe/gossamer/dot/peerset"
	"github.com/ChainSafe/gossamer/dot/state"
	"github.com/ChainSafe/gossamer/dot/types"
	"github.com/ChainSafe/gossamer/internal/database"
	"github.com/ChainSafe/gossamer/lib/common"
	lrucache "github.com/ChainSafe/gossamer/lib/utils/lru-cache"
	"github.com/ChainSafe/gossamer/zz_verif/vcommon"
	"github.com/libp2p/go-libp2p/core/peer"
)

// ---------------------------------------------------------------- planning

func c31CheckPlan(c *vcommon.Case, a, b uint, data byte) {
	reqs := messages.NewAscendingBlockRequests(a, b, data)
	c.Eval(1)
	c.Count("plans", 1)
	w := map[string]any{"a": a, "b": b}
	descr := func() []string {
		var s []string
		for _, q := range reqs {
			mx := "nil"
			if q.Max != nil {
				mx = fmt.Sprint(*q.Max)
			}
			s = append(s, fmt.Sprintf("%v+%s", q.StartingBlock.RawValue(), mx))
		}
		return s
	}
	if a > b {
		c.Count("plans_empty_range", 1)
		if len(reqs) != 0 {
			w["reqs"] = descr()
			c.Violation("plan-empty-range", fmt.Sprintf("a=%d > b=%d but %d requests planned", a, b, len(reqs)), w)
		}
		return
	}
	next := a
	for i, q := range reqs {
		st, ok := q.StartingBlock.RawValue().(uint)
		if !ok || q.Direction != messages.Ascending || q.Max == nil || q.RequestedData != data {
			w["reqs"] = descr()
			c.Violation("plan-shape", fmt.Sprintf("request %d is not an ascending by-number request with a max and the given fields", i), w)
			return
		}
		mx := uint(*q.Max)
		if mx == 0 || mx > messages.MaxBlocksInResponse {
			w["reqs"] = descr()
			c.Violation("plan-max", fmt.Sprintf("request %d has max %d (protocol maximum 128)", i, mx), w)
			return
		}
		if st != next {
			w["reqs"] = descr()
			c.Violation("plan-cover", fmt.Sprintf("request %d starts at %d, expected %d (gap, overlap or disorder)", i, st, next), w)
			return
		}
		next = st + mx
		if mx == messages.MaxBlocksInResponse {
			c.Count("plan_full_requests", 1)
		}
	}
	if next != b+1 {
		w["reqs"] = descr()
		c.Violation("plan-cover", fmt.Sprintf("requests cover [%d,%d) but [%d,%d] was asked", a, next, a, b), w)
		return
	}
	if a == 0 {
		c.Count("plans_from_zero", 1)
	}
	n := b - a + 1
	if n%128 == 0 {
		c.Count("plans_len_multiple_of_128", 1)
	}
	if n%128 == 1 || n%128 == 127 {
		c.Count("plans_len_multiple_pm1", 1)
	}
}

// ---------------------------------------------------------------- world

type c31World struct {
	tree      *vTree
	main      []int // main[n] = node of the canonical block number n
	finalised uint
	forks     [][]int // live forks (ascending node lists, first element's parent is on main)
	pruned    []int   // nodes of forks abandoned by finalisation
	bs        *state.BlockState
	descr     string
}

func (w *c31World) best() uint { return uint(len(w.main) - 1) }

type c31Spec struct {
	n, fin   int // main chain length (best number), finalised number
	prForks  int // forks created below the finalised block (pruned)
	lvForks  int // forks branching at or above the finalised block
	extras   bool
	forkSpan int
}

func c31BuildWorld(t *testing.T, r *vcommon.Rand, sp c31Spec) (*c31World, error) {
	w := &c31World{tree: newVTree(r)}
	dir, err := os.MkdirTemp(os.Getenv("VERIF_TMP"), "c31db")
	if err != nil {
		return nil, err
	}
	t.Cleanup(func() { os.RemoveAll(dir) })
	db, err := database.LoadDatabase(dir, true)
	if err != nil {
		return nil, err
	}
	t.Cleanup(func() { _ = db.Close() })
	bs, err := state.NewBlockStateFromGenesis(db, state.NewTries(), copyHeader(w.tree.nodes[0].header), nopTelemetry{})
	if err != nil {
		return nil, fmt.Errorf("NewBlockStateFromGenesis: %w", err)
	}
	w.bs = bs
	add := func(i int) error {
		n := w.tree.nodes[i]
		blk := &types.Block{Header: *copyHeader(n.header), Body: *copyBody(n.body)}
		if err := bs.AddBlock(blk); err != nil {
			return fmt.Errorf("AddBlock %s: %w", n.tag, err)
		}
		if n.receipt != nil {
			if err := bs.SetReceipt(n.hash, n.receipt); err != nil {
				return err
			}
		}
		if n.msgq != nil {
			if err := bs.SetMessageQueue(n.hash, n.msgq); err != nil {
				return err
			}
		}
		if n.just != nil {
			if err := bs.SetJustification(n.hash, n.just); err != nil {
				return err
			}
		}
		return nil
	}
	w.main = []int{0}
	grow := func(upto int) error {
		for len(w.main)-1 < upto {
			i := w.tree.addChild(r, w.main[len(w.main)-1], fmt.Sprintf("m%d", len(w.main)), sp.extras)
			w.main = append(w.main, i)
			if err := add(i); err != nil {
				return err
			}
		}
		return nil
	}
	mkFork := func(k int, at int, length int, into *[][]int) error {
		var f []int
		p := w.main[at]
		for j := 0; j < length; j++ {
			i := w.tree.addChild(r, p, fmt.Sprintf("f%d.%d", k, at+1+j), sp.extras)
			if err := add(i); err != nil {
				return err
			}
			f = append(f, i)
			p = i
		}
		*into = append(*into, f)
		return nil
	}
	span := sp.forkSpan
	if span < 1 {
		span = 4
	}
	// 1. main chain up to the block that will be finalised, forks below it
	if err := grow(sp.fin); err != nil {
		return nil, err
	}
	var prunedForks [][]int
	for k := 0; k < sp.prForks && sp.fin >= 1; k++ {
		at := r.Intn(sp.fin) // parent number < fin  => fork is not a descendant of the finalised block
		length := r.Range(1, span)
		if at+length > sp.fin { // keep the main chain strictly the longest at every moment
			length = sp.fin - at
		}
		if length < 1 {
			continue
		}
		if err := mkFork(100+k, at, length, &prunedForks); err != nil {
			return nil, err
		}
	}
	if sp.fin >= 1 {
		if err := bs.SetFinalisedHash(w.tree.nodes[w.main[sp.fin]].hash, 1, 0); err != nil {
			return nil, fmt.Errorf("SetFinalisedHash: %w", err)
		}
	}
	w.finalised = uint(sp.fin)
	for _, f := range prunedForks {
		w.pruned = append(w.pruned, f...)
	}
	// 2. rest of the main chain, then live forks (always strictly shorter than main)
	if err := grow(sp.n); err != nil {
		return nil, err
	}
	for k := 0; k < sp.lvForks && sp.n-sp.fin >= 2; k++ {
		at := r.Range(sp.fin, sp.n-2)
		length := r.Range(1, span)
		if k == 0 && sp.n-sp.fin > 140 { // one long fork (> 128 blocks) when there is room
			at = sp.fin + r.Intn(3)
			length = 131 + r.Intn(4)
		}
		if at+length > sp.n-1 {
			length = sp.n - 1 - at
		}
		if length < 1 {
			continue
		}
		if err := mkFork(k, at, length, &w.forks); err != nil {
			return nil, err
		}
	}
	// let the asynchronous import notifications of AddBlock drain
	time.Sleep(time.Millisecond)
	// self-check of the world against the real state (a failure is a harness
	// problem => inconclusive, decided by the caller)
	bn, err := bs.BestBlockNumber()
	if err != nil || bn != uint(sp.n) {
		return nil, fmt.Errorf("world self-check: best number %d err %v, want %d", bn, err, sp.n)
	}
	bh := bs.BestBlockHash()
	if bh != w.tree.nodes[w.main[sp.n]].hash {
		return nil, fmt.Errorf("world self-check: best hash is not the main chain tip")
	}
	fh, err := bs.GetHighestFinalisedHeader()
	if err != nil || fh.Number != uint(sp.fin) {
		return nil, fmt.Errorf("world self-check: finalised header %v err %v", fh, err)
	}
	w.descr = fmt.Sprintf("best=%d finalised=%d liveForks=%d prunedForkBlocks=%d", sp.n, sp.fin, len(w.forks), len(w.pruned))
	return w, nil
}

// ---------------------------------------------------------------- requests

type c31Req struct {
	byHash bool
	num    uint
	hash   common.Hash
	what   string // "num", "canon", "fork", "pruned", "unknown", "genesis"
	dir    messages.SyncDirection
	max    *uint32
	fields byte
	wire   bool // the request goes through BlockRequestMessage.Encode/Decode first (max 0 then means "no limit")
}

func (q c31Req) msg() *messages.BlockRequestMessage {
	m := &messages.BlockRequestMessage{RequestedData: q.fields, Direction: q.dir}
	if q.max != nil {
		v := *q.max
		m.Max = &v
	}
	if q.byHash {
		m.StartingBlock = *messages.NewFromBlock(q.hash)
	} else {
		m.StartingBlock = *messages.NewFromBlock(q.num)
	}
	return m
}

func (q c31Req) witness(w *c31World) map[string]any {
	m := map[string]any{"world": w.descr, "direction": q.dir.String(), "fields": q.fields, "start_kind": q.what}
	if q.byHash {
		m["start_hash"] = q.hash.String()
		if i, ok := w.tree.byHash[q.hash]; ok {
			m["start_block"] = fmt.Sprintf("%s #%d", w.tree.nodes[i].tag, w.tree.nodes[i].number)
		}
	} else {
		m["start_number"] = q.num
	}
	if q.max == nil {
		m["max"] = "nil"
	} else {
		m["max"] = *q.max
	}
	if q.wire {
		m["via_wire"] = true
	}
	return m
}

func u32p(v uint32) *uint32 { return &v }

var c31Maxes = []*uint32{nil, u32p(0), u32p(1), u32p(2), u32p(3), u32p(127), u32p(128), u32p(129), u32p(math.MaxUint32)}

func c31GenReq(r *vcommon.Rand, w *c31World) c31Req {
	q := c31Req{}
	N := w.best()
	if r.Chance(1, 2) {
		q.what = "num"
		cands := []uint{0, 1, 2, 3, w.finalised, w.finalised + 1, N, N + 1, N + 50, 127, 128, 129, 130, 256, 257,
			math.MaxUint32, uint(r.Intn(int(N) + 1)), uint(r.Intn(int(N) + 1)), uint(r.Intn(int(N) + 1))}
		if w.finalised > 0 {
			cands = append(cands, w.finalised-1)
		}
		if N > 0 {
			cands = append(cands, N-1)
		}
		q.num = vcommon.Pick(r, cands)
	} else {
		q.byHash = true
		switch k := r.Intn(10); {
		case k < 4:
			q.what = "canon"
			q.hash = w.tree.nodes[w.main[r.Intn(len(w.main))]].hash
		case k < 7 && len(w.forks) > 0:
			q.what = "fork"
			f := vcommon.Pick(r, w.forks)
			q.hash = w.tree.nodes[vcommon.Pick(r, f)].hash
		case k < 8 && len(w.pruned) > 0:
			q.what = "pruned"
			q.hash = w.tree.nodes[vcommon.Pick(r, w.pruned)].hash
		case k < 9:
			q.what = "genesis"
			q.hash = w.tree.nodes[0].hash
		default:
			q.what = "unknown"
			copy(q.hash[:], r.Bytes(32))
		}
		if q.what == "" {
			q.what = "canon"
			q.hash = w.tree.nodes[w.main[r.Intn(len(w.main))]].hash
		}
	}
	q.dir = messages.Ascending
	if r.Bool() {
		q.dir = messages.Descending
	}
	if r.Chance(2, 3) {
		q.max = vcommon.Pick(r, c31Maxes)
	} else {
		q.max = u32p(uint32(r.Range(1, 140)))
	}
	q.fields = byte(r.Range(1, 31))
	if r.Chance(1, 40) {
		q.fields |= byte(r.Intn(8)) << 5 // undefined high bits must not add anything
	}
	q.wire = r.Chance(1, 4)
	return q
}

type c31Fail struct{ class, msg string }

// c31Judge decides a served response against the tree. startIdx is the node
// the response must start at (-1: no such block exists => any non-empty
// response is wrong). flt is nil for a fault-free run; under an injected fault
// (zz_verif_c31_fault_test.go) a requested field may be missing from a block
// exactly when the harness made the lookup of that field for that block fail
// (the unchanged getBlockData logs/ignores a failing field lookup and omits the
// field) - counted in flt.omitted, everything else is judged as without a fault.
func c31Judge(w *c31World, q c31Req, startIdx int, resp *messages.BlockResponseMessage, flt *c31Fault) (fails []c31Fail, nodes []int) {
	failf := func(class, f string, a ...any) { fails = append(fails, c31Fail{class, fmt.Sprintf(f, a...)}) }
	flt.resetOmitted()
	effMax := uint64(messages.MaxBlocksInResponse)
	if q.max != nil && uint64(*q.max) < effMax {
		effMax = uint64(*q.max)
	}
	if resp == nil {
		failf("nil-response", "nil response with nil error")
		return
	}
	R := resp.BlockData
	if uint64(len(R)) > effMax {
		failf("too-long", "%d blocks served, limit min(max,128)=%d", len(R), effMax)
	}
	if len(R) == 0 {
		if effMax >= 1 && startIdx >= 0 {
			failf("empty", "empty response although the requested block %s exists and max>=1", w.tree.nodes[startIdx].tag)
		}
		return
	}
	for i, bd := range R {
		if bd == nil {
			failf("nil-block", "block %d of the response is nil", i)
			return
		}
		idx, ok := w.tree.byHash[bd.Hash]
		if !ok {
			failf("unknown-block", "block %d has hash %s which is not a block of the chain", i, bd.Hash)
			return
		}
		nodes = append(nodes, idx)
	}
	if startIdx < 0 {
		failf("start", "a response was served although the requested block does not exist (first block %s)", w.tree.nodes[nodes[0]].tag)
	} else if nodes[0] != startIdx {
		failf("start", "first block is %s #%d, requested block is %s #%d", w.tree.nodes[nodes[0]].tag, w.tree.nodes[nodes[0]].number,
			w.tree.nodes[startIdx].tag, w.tree.nodes[startIdx].number)
	}
	for i := 1; i < len(nodes); i++ {
		prev, cur := w.tree.nodes[nodes[i-1]], w.tree.nodes[nodes[i]]
		if q.dir == messages.Ascending {
			if cur.parent != prev.idx {
				failf("gap", "ascending: block %d (%s #%d) is not a child of block %d (%s #%d)", i, cur.tag, cur.number, i-1, prev.tag, prev.number)
				break
			}
		} else if prev.parent != cur.idx {
			failf("gap", "descending: block %d (%s #%d) is not the parent of block %d (%s #%d)", i, cur.tag, cur.number, i-1, prev.tag, prev.number)
			break
		}
	}
	for i, bd := range R {
		n := w.tree.nodes[nodes[i]]
		// a field whose lookup the harness made fail must not be presented as data
		fromFailed := func(name, method string, present bool) {
			if present && flt.onlyFailed(method, bd.Hash) {
				failf("failed-lookup-presented", "block %d (%s): %s is presented although every %s lookup for this block was made to fail", i, n.tag, name, method)
			}
		}
		wantH := q.fields&messages.RequestedDataHeader != 0
		if (bd.Header != nil) != wantH {
			if wantH && flt.lookupFailed("GetHeader", bd.Hash) {
				flt.omit("header")
			} else {
				failf("fields", "block %d (%s): header present=%v requested=%v", i, n.tag, bd.Header != nil, wantH)
			}
		} else if bd.Header != nil && vHeaderHash(bd.Header) != n.hash {
			failf("content", "block %d (%s): header does not hash to the block hash", i, n.tag)
		}
		fromFailed("header", "GetHeader", bd.Header != nil)
		wantB := q.fields&messages.RequestedDataBody != 0
		if (bd.Body != nil) != wantB {
			if wantB && flt.lookupFailed("GetBlockBody", bd.Hash) {
				flt.omit("body")
			} else {
				failf("fields", "block %d (%s): body present=%v requested=%v", i, n.tag, bd.Body != nil, wantB)
			}
		} else if bd.Body != nil && fmt.Sprintf("%x", []types.Extrinsic(*bd.Body)) != fmt.Sprintf("%x", []types.Extrinsic(*n.body)) {
			failf("content", "block %d (%s): body differs from the stored body", i, n.tag)
		}
		fromFailed("body", "GetBlockBody", bd.Body != nil)
		blob := func(name, method string, got *[]byte, bit byte, stored []byte) {
			want := q.fields&bit != 0 && stored != nil
			if (got != nil) != want {
				if want && flt.lookupFailed(method, bd.Hash) {
					flt.omit(name)
				} else {
					failf("fields", "block %d (%s): %s present=%v, requested=%v stored=%v", i, n.tag, name, got != nil, q.fields&bit != 0, stored != nil)
				}
			} else if got != nil && string(*got) != string(stored) {
				failf("content", "block %d (%s): %s differs from the stored one", i, n.tag, name)
			}
			fromFailed(name, method, got != nil)
		}
		blob("receipt", "GetReceipt", bd.Receipt, messages.RequestedDataReceipt, n.receipt)
		blob("message queue", "GetMessageQueue", bd.MessageQueue, messages.RequestedDataMessageQueue, n.msgq)
		blob("justification", "GetJustification", bd.Justification, messages.RequestedDataJustification, n.just)
	}
	return
}

type c31Net struct{ reports int }

func (n *c31Net) AllConnectedPeersIDs() []peer.ID                              { return nil }
func (n *c31Net) ReportPeer(_ peerset.ReputationChange, _ peer.ID)             { n.reports++ }
func (n *c31Net) BlockAnnounceHandshake(*types.Header) error                   { return nil }
func (n *c31Net) GossipMessageExcluding(network.NotificationsMessage, peer.ID) {}
func (n *c31Net) GetRequestResponseProtocol(string, time.Duration, uint64) *network.RequestResponseProtocol {
	return nil
}

func c31Service(w *c31World) (*SyncService, *c31Net) { return c31ServiceOver(w.bs) }

func c31ServiceOver(bs BlockState) (*SyncService, *c31Net) {
	nw := &c31Net{}
	return &SyncService{blockState: bs, network: nw,
		seenBlockSyncRequests: lrucache.NewLRUCache[common.Hash, uint](100)}, nw
}

func respTags(w *c31World, nodes []int) []string {
	var s []string
	for i, n := range nodes {
		if i >= 6 && i < len(nodes)-3 {
			if i == 6 {
				s = append(s, "...")
			}
			continue
		}
		s = append(s, fmt.Sprintf("%s#%d", w.tree.nodes[n].tag, w.tree.nodes[n].number))
	}
	return s
}

// c31Serve sends one request to a fresh service (no rate-limit history) and
// judges the outcome. It returns the served node list (nil on error).
func c31Serve(c *vcommon.Case, w *c31World, q c31Req) (served []int, ok bool) {
	svc, _ := c31Service(w)
	return c31ServeOn(c, w, q, svc, peer.ID("verif-peer"))
}

func c31ServeOn(c *vcommon.Case, w *c31World, q c31Req, svc *SyncService, who peer.ID) (served []int, ok bool) {
	res := c31ServeX(c, w, q, svc, who, nil)
	return res.nodes, res.ok
}

// c31Result is the judged outcome of one request.
type c31Result struct {
	nodes  []int // blocks of the response (as far as they are blocks of the tree)
	ok     bool  // served and accepted by the oracle
	served bool  // err == nil
	known  bool  // refuted, attributed to C31-K1
	err    error
	resp   *messages.BlockResponseMessage
}

// c31ServeX sends one request and judges the outcome. flt != nil: svc runs over
// the fault-injecting BlockState flt (zz_verif_c31_fault_test.go); the outcome
// is judged by the same oracle (see c31Judge for the one difference), the wire
// round trip of the response is checked too, and the fault-free coverage
// counters are left alone (the fault family keeps its own).
func c31ServeX(c *vcommon.Case, w *c31World, q c31Req, svc *SyncService, who peer.ID, flt *c31Fault) (res c31Result) {
	m := q.msg()
	if q.wire {
		enc, err := m.Encode()
		dec := &messages.BlockRequestMessage{}
		if err == nil {
			err = dec.Decode(enc)
		}
		if err != nil {
			c.Inconclusive("request does not survive the wire format: " + err.Error())
			return res
		}
		// the oracle judges the request the server was actually given
		if q.max != nil && dec.Max == nil && flt == nil {
			c.Count("wire_max0_means_unlimited", 1)
		}
		q.max, q.fields, q.dir = dec.Max, dec.RequestedData, dec.Direction
		if n, isNum := dec.StartingBlock.RawValue().(uint); isNum {
			q.num = n
		}
		m = dec
		if flt == nil {
			c.Count("requests_via_wire", 1)
		}
	}
	resp, err := svc.CreateBlockResponse(who, m)
	c.Eval(1)
	res.err, res.resp, res.served = err, resp, err == nil
	dirS := "asc"
	if q.dir == messages.Descending {
		dirS = "desc"
	}
	if flt == nil {
		c.Count("requests", 1)
	}
	if err != nil {
		if flt == nil {
			c.Count("err_"+dirS+"_"+q.what, 1)
			if errors.Is(err, errMaxNumberOfSameRequest) {
				c.Count("err_rate_limited", 1)
			}
		}
		if resp != nil {
			c.Violation("response-and-error", fmt.Sprintf("both a response and an error (%v) were returned", err), flt.witness(w, q.witness(w)))
		}
		return res
	}
	// which block must the response start at?
	startIdx := -1
	N := w.best()
	if q.byHash {
		if i, known := w.tree.byHash[q.hash]; known {
			startIdx = i
		}
	} else if q.num <= N {
		startIdx = w.main[q.num]
	} else if q.dir == messages.Descending {
		// documented convention (message.go): "if request start is higher than our
		// best block, only return blocks from our best block and below"
		startIdx = w.main[N]
		if flt == nil {
			c.Count("desc_start_clamped_to_best", 1)
		}
	}
	fails, nodes := c31Judge(w, q, startIdx, resp, flt)
	res.nodes = nodes
	wit := flt.witness(w, q.witness(w))
	wit["served"] = respTags(w, nodes)
	wit["served_len"] = len(resp.BlockData)
	if flt != nil {
		// the served response must survive its own wire format
		c31CheckWire(c, resp, wit)
	} else {
		// ... and so must every fault-free served response (zz_verif_c31_wire_test.go)
		c31CheckWireFaultFree(c, q, resp, wit)
	}

	effNum := q.num // by-number start after the documented clamping of a descending start to the best block
	if q.dir == messages.Descending && effNum > N {
		effNum = N
	}
	if len(fails) > 0 && !q.byHash && effNum == 0 {
		// C31-K1: a by-number request for block 0 never serves genesis. Ascending:
		// the start is silently rewritten to 1 (pinned by TestService_CreateBlockResponse
		// "ascending_request_nil_startHash"); descending: an empty response
		// ("descending_request_nil_startHash"). Predicate: the response is exactly
		// what the oracle accepts for the same request with start 1 (ascending), or
		// is empty (descending).
		explained := false
		if q.dir == messages.Ascending && N >= 1 {
			q1 := q
			q1.num = 1
			f1, _ := c31Judge(w, q1, w.main[1], resp, flt)
			explained = len(f1) == 0
		} else if q.dir == messages.Descending {
			explained = len(resp.BlockData) == 0
		}
		if explained {
			c.Count("k1_genesis_by_number_not_served", 1)
			c.Known("C31-K1", "by-number request for block 0 does not serve genesis: "+fails[0].msg, wit)
			res.known = true
			return res
		}
	}
	for _, f := range fails {
		c.Violation(f.class, f.msg, wit)
	}
	if len(fails) > 0 {
		return res
	}
	res.ok = true
	if flt != nil {
		return res
	}
	// what was observed
	c.Count("served_ok", 1)
	c.Count("served_"+dirS+"_"+q.what, 1)
	effMax := uint64(messages.MaxBlocksInResponse)
	if q.max != nil && uint64(*q.max) < effMax {
		effMax = uint64(*q.max)
	}
	switch {
	case len(nodes) == 0:
		c.Count("served_empty", 1)
	case uint64(len(nodes)) == effMax:
		c.Count("served_len_eq_limit", 1)
		if effMax == 128 {
			c.Count("served_len_128", 1)
		}
	}
	if len(nodes) > 0 {
		last := w.tree.nodes[nodes[len(nodes)-1]]
		if q.dir == messages.Descending && uint64(len(nodes)) == effMax && last.number == 1 {
			c.Count("desc_exactly_reaches_block_1", 1) // start == max: boundary next to the start==max+1 defect
		}
		if q.dir == messages.Descending && last.number == 0 {
			c.Count("desc_reaches_genesis", 1)
		}
		crossed := false
		for _, n := range nodes {
			if w.tree.nodes[n].number <= w.finalised {
				crossed = true
			}
		}
		if crossed && w.tree.nodes[nodes[0]].number > w.finalised || crossed && last.number > w.finalised {
			c.Count("served_across_finalised_boundary", 1)
		}
		onFork := false
		for _, n := range nodes {
			if w.tree.nodes[n].tag[0] == 'f' {
				onFork = true
			}
		}
		if onFork {
			c.Count("served_contains_fork_block", 1)
		}
		if !q.byHash {
			for i, n := range nodes {
				if w.main[w.tree.nodes[n].number] != n {
					c.Count("by_number_non_canonical_block", 1)
					_ = i
					break
				}
			}
		}
	}
	mx := "nil"
	if q.max != nil {
		mx = fmt.Sprint(*q.max)
		if *q.max > 140 {
			mx = "big"
		}
	}
	c.Distinct(fmt.Sprintf("%s|%s|%s|f%d|len%d|w%s", dirS, q.what, mx, q.fields&31, len(nodes), w.descr))
	c.Sample(wit)
	return res
}

// ---------------------------------------------------------------- test

func c31Specs(r *vcommon.Rand, k int) c31Spec {
	switch k % 8 {
	case 0:
		return c31Spec{n: r.Range(0, 3), fin: 0, lvForks: 1, extras: true}
	case 1:
		n := r.Range(4, 14)
		return c31Spec{n: n, fin: r.Range(0, n-1), prForks: 2, lvForks: 3, extras: true}
	case 2:
		n := r.Range(126, 131)
		return c31Spec{n: n, fin: r.Range(0, 4), prForks: 1, lvForks: 4, extras: true, forkSpan: 6}
	case 3:
		n := r.Range(255, 260)
		return c31Spec{n: n, fin: r.Range(100, 131), prForks: 3, lvForks: 4, extras: false, forkSpan: 8}
	case 4:
		n := r.Range(15, 40)
		return c31Spec{n: n, fin: n, prForks: 4, extras: true} // everything finalised
	case 5:
		n := r.Range(140, 150)
		return c31Spec{n: n, fin: r.Range(0, 2), lvForks: 3, extras: false, forkSpan: 5} // long fork (>128)
	case 6:
		n := r.Range(20, 60)
		return c31Spec{n: n, fin: r.Range(1, n-2), prForks: 5, lvForks: 6, extras: true, forkSpan: 10}
	default:
		n := r.Range(129, 135)
		return c31Spec{n: n, fin: r.Range(125, 129), prForks: 2, lvForks: 2, extras: true}
	}
}

func TestVerifC31(t *testing.T) {
	r := vcommon.Start(t, "C31")
	defer r.Finish()
	r.Floor("plans", 100000)
	r.Floor("plans_from_zero", 300)
	r.Floor("plans_len_multiple_of_128", 500)
	r.Floor("served_ok", 3000)
	r.Floor("served_len_128", 50)
	r.Floor("served_asc_fork", 20)
	r.Floor("served_desc_fork", 20)
	r.Floor("served_asc_num", 200)
	r.Floor("served_desc_num", 200)
	r.Floor("served_asc_canon", 100)
	r.Floor("served_desc_canon", 100)
	r.Floor("desc_exactly_reaches_block_1", 5)
	r.Floor("served_across_finalised_boundary", 50)
	r.Floor("plan_serve_roundtrips", 50)
	// fault-injection family (zz_verif_c31_fault_test.go)
	for _, m := range []string{"BestBlockNumber", "GetHeader", "GetHeaderByNumber", "GetHashByNumber", "GetAllBlocksAtNumber",
		"IsDescendantOf", "Range", "GetBlockBody", "GetReceipt", "GetMessageQueue", "GetJustification"} {
		need := 100
		if m == "GetAllBlocksAtNumber" { // only reached by ascending by-hash requests that start on a fork
			need = 40
		}
		r.Floor("fault_injected_"+m, need)
	}
	r.Floor("fault_hit_nonfirst_block", 2000)
	r.Floor("fault_hit_nonfirst_block_GetHashByNumber", 300)
	r.Floor("fault_pos_second", 500)
	r.Floor("fault_pos_middle", 500)
	r.Floor("fault_hit_last_block_of_longer_response", 500)
	r.Floor("fault_served", 1000)
	r.Floor("fault_served_with_failed_field_omitted", 500)
	r.Floor("fault_refused_fault_free_was_served", 1000)
	r.Floor("fault_refused_after_first_block_asc", 100)
	r.Floor("fault_refused_after_first_block_desc", 100)

	// ---- planning: every (a,b), a<=300, b<=400 (one case per a), seed independent
	r.Fixed("plan", 301, func(c *vcommon.Case) {
		a := uint(c.Idx)
		for b := uint(0); b <= 400; b++ {
			c31CheckPlan(c, a, b, messages.BootstrapRequestData)
		}
		c.Distinct(fmt.Sprintf("plan-a%d", a))
	})
	special := [][2]uint{}
	for _, k := range []uint{1, 2, 3, 10, 1000} {
		for _, d := range []int{-1, 0, 1} {
			b := uint(int(k*128) + d)
			special = append(special, [2]uint{0, b}, [2]uint{1, b}, [2]uint{127, b}, [2]uint{128, b}, [2]uint{129, b})
			special = append(special, [2]uint{b, b}, [2]uint{b, b + 127}, [2]uint{b, b + 128}, [2]uint{b, b + 129})
		}
	}
	special = append(special, [2]uint{math.MaxUint32 - 200, math.MaxUint32}, [2]uint{0, 0}, [2]uint{5, 4}, [2]uint{1, 0})
	r.Fixed("plan-special", len(special), func(c *vcommon.Case) {
		for _, data := range []byte{messages.BootstrapRequestData, messages.RequestedDataHeader, 31} {
			c31CheckPlan(c, special[c.Idx][0], special[c.Idx][1], data)
		}
		c.Distinct(fmt.Sprintf("plan-s%d-%d", special[c.Idx][0], special[c.Idx][1]))
	})
	r.Cases("plan-rand", r.Scale(200), func(c *vcommon.Case) {
		for i := 0; i < 50; i++ {
			a := uint(c.R.Intn(5000))
			b := a + uint(c.R.Intn(1500))
			if c.R.Chance(1, 10) {
				b = uint(c.R.Intn(5000))
			}
			c31CheckPlan(c, a, b, byte(c.R.Range(1, 31)))
		}
	})

	// ---- serving
	worlds := map[string]*c31World{}
	getWorld := func(c *vcommon.Case, key string, seed uint64, k int) *c31World {
		if w, ok := worlds[key]; ok {
			return w
		}
		wr := vcommon.NewRand(seed)
		w, err := c31BuildWorld(t, wr, c31Specs(wr, k))
		if err != nil {
			worlds[key] = nil
			c.Inconclusive("cannot build world " + key + ": " + err.Error())
			return nil
		}
		worlds[key] = w
		return w
	}

	// fixed corpus: one fixed world, the minimal witnesses of every defect found
	fixedWorld := func(c *vcommon.Case) *c31World {
		if w, ok := worlds["fixed"]; ok {
			return w
		}
		wr := vcommon.NewRand(31)
		w, err := c31BuildWorld(t, wr, c31Spec{n: 140, fin: 3, prForks: 2, lvForks: 3, extras: true, forkSpan: 6})
		if err != nil {
			worlds["fixed"] = nil
			c.Inconclusive("cannot build fixed world: " + err.Error())
			return nil
		}
		worlds["fixed"] = w
		return w
	}
	type fx struct {
		name string
		mk   func(w *c31World) c31Req
	}
	genesisOnly := func(c *vcommon.Case) *c31World {
		if w, ok := worlds["fixed0"]; ok {
			return w
		}
		w, err := c31BuildWorld(t, vcommon.NewRand(32), c31Spec{n: 0})
		if err != nil {
			worlds["fixed0"] = nil
			c.Inconclusive("cannot build genesis-only world: " + err.Error())
			return nil
		}
		worlds["fixed0"] = w
		return w
	}
	num := func(n uint, dir messages.SyncDirection, max *uint32, fields byte) func(*c31World) c31Req {
		return func(*c31World) c31Req { return c31Req{what: "num", num: n, dir: dir, max: max, fields: fields} }
	}
	forkReq := func(dir messages.SyncDirection, pos int, max *uint32) func(*c31World) c31Req {
		return func(w *c31World) c31Req {
			// the longest live fork
			best := w.forks[0]
			for _, f := range w.forks {
				if len(f) > len(best) {
					best = f
				}
			}
			i := pos
			if i < 0 {
				i = len(best) + pos
			}
			if i < 0 || i >= len(best) {
				i = len(best) - 1
			}
			return c31Req{what: "fork", byHash: true, hash: w.tree.nodes[best[i]].hash, dir: dir, max: max, fields: 1}
		}
	}
	corpus := []fx{
		{"desc start 129 max 128 (start==max+1)", num(129, messages.Descending, u32p(128), 1)},
		{"desc start 129 max nil", num(129, messages.Descending, nil, 3)},
		{"desc start 3 max 2 (start==max+1)", num(3, messages.Descending, u32p(2), 1)},
		{"desc start 2 max 1", num(2, messages.Descending, u32p(1), 1)},
		{"desc start 1 max 0", num(1, messages.Descending, u32p(0), 1)},
		{"desc start 128 max 128 (start==max)", num(128, messages.Descending, u32p(128), 1)},
		{"desc start 130 max 128", num(130, messages.Descending, u32p(128), 1)},
		{"desc start 2 max 2", num(2, messages.Descending, u32p(2), 19)},
		{"asc start 0 (K1)", num(0, messages.Ascending, u32p(4), 1)},
		{"desc start 0 (K1)", num(0, messages.Descending, u32p(4), 1)},
		{"asc start 0 max nil (K1)", num(0, messages.Ascending, nil, 31)},
		{"asc start 1 max 129", num(1, messages.Ascending, u32p(129), 1)},
		{"asc start 13 max 2^32-1", num(13, messages.Ascending, u32p(math.MaxUint32), 2)},
		{"asc start best", num(140, messages.Ascending, nil, 31)},
		{"asc start best+1", num(141, messages.Ascending, nil, 31)},
		{"desc start best+50", num(190, messages.Descending, u32p(3), 31)},
		{"asc max 0", num(5, messages.Ascending, u32p(0), 1)},
		{"desc by hash fork tip max 1", forkReq(messages.Descending, -1, u32p(1))},
		{"desc by hash fork tip max 2", forkReq(messages.Descending, -1, u32p(2))},
		{"desc by hash fork tip max nil", forkReq(messages.Descending, -1, nil)},
		{"desc by hash fork first max 1", forkReq(messages.Descending, 0, u32p(1))},
		{"desc by hash fork first max 3", forkReq(messages.Descending, 0, u32p(3))},
		{"asc by hash fork first max nil", forkReq(messages.Ascending, 0, nil)},
		{"asc by hash fork first max 2", forkReq(messages.Ascending, 0, u32p(2))},
		{"asc by hash fork tip", forkReq(messages.Ascending, -1, u32p(5))},
		{"asc by hash genesis", func(w *c31World) c31Req {
			return c31Req{what: "genesis", byHash: true, hash: w.tree.nodes[0].hash, dir: messages.Ascending, max: u32p(3), fields: 31}
		}},
		{"desc by hash genesis", func(w *c31World) c31Req {
			return c31Req{what: "genesis", byHash: true, hash: w.tree.nodes[0].hash, dir: messages.Descending, max: u32p(3), fields: 31}
		}},
		{"desc by hash canonical 129 max 128", func(w *c31World) c31Req {
			return c31Req{what: "canon", byHash: true, hash: w.tree.nodes[w.main[129]].hash, dir: messages.Descending, max: u32p(128), fields: 1}
		}},
		{"desc by hash canonical 5 across finalised", func(w *c31World) c31Req {
			return c31Req{what: "canon", byHash: true, hash: w.tree.nodes[w.main[5]].hash, dir: messages.Descending, max: nil, fields: 31}
		}},
		{"asc by hash canonical 2 across finalised", func(w *c31World) c31Req {
			return c31Req{what: "canon", byHash: true, hash: w.tree.nodes[w.main[2]].hash, dir: messages.Ascending, max: u32p(6), fields: 31}
		}},
	}
	r.Fixed("serve-corpus", len(corpus), func(c *vcommon.Case) {
		w := fixedWorld(c)
		if w == nil {
			return
		}
		q := corpus[c.Idx].mk(w)
		c.Count("corpus_requests", 1)
		c31Serve(c, w, q)
	})
	// a node that only has genesis: every by-number request ends up at block 0 (K1)
	corpus0 := []c31Req{
		{what: "num", num: 5, dir: messages.Descending, max: u32p(3), fields: 1},
		{what: "num", num: 0, dir: messages.Descending, max: nil, fields: 31},
		{what: "num", num: 0, dir: messages.Ascending, max: nil, fields: 31},
		{what: "num", num: 1, dir: messages.Ascending, max: u32p(1), fields: 1},
	}
	r.Fixed("serve-corpus-genesis-only", len(corpus0)+2, func(c *vcommon.Case) {
		w := genesisOnly(c)
		if w == nil {
			return
		}
		c.Count("corpus_requests", 1)
		if c.Idx < len(corpus0) {
			c31Serve(c, w, corpus0[c.Idx])
			return
		}
		dir := messages.Ascending
		if c.Idx == len(corpus0)+1 {
			dir = messages.Descending
		}
		c31Serve(c, w, c31Req{what: "genesis", byHash: true, hash: w.tree.nodes[0].hash, dir: dir, max: u32p(2), fields: 31})
	})

	// fault injection: fixed (request, method, N) triples, the first one is the minimal witness of the seeded
	// "descending by-number lookup failure => break" change (2 blocks requested, the 2nd lookup fails)
	faultCorpus := c31FaultCorpus()
	r.Fixed("fault-corpus", len(faultCorpus), func(c *vcommon.Case) {
		w := fixedWorld(c)
		if w == nil {
			return
		}
		e := faultCorpus[c.Idx]
		q := e.mk(w)
		c.Count("fault_corpus_entries", 1)
		_, base := c31FaultBaseline(c, w, q)
		if !c31FaultOne(c, w, q, base, e.method, e.n, e.sticky, c.Idx%2 == 1) {
			c.Inconclusive("fault corpus entry never reached its fault: " + e.name)
		}
	})

	nWorlds := 8
	if r.Thorough() {
		nWorlds = 32
	}
	r.Cases("serve", r.Scale(640), func(c *vcommon.Case) {
		k := c.Idx % nWorlds
		w := getWorld(c, fmt.Sprintf("w%d", k), r.Seed*1000003+uint64(k), k)
		if w == nil {
			return
		}
		for i := 0; i < 30; i++ {
			c31Serve(c, w, c31GenReq(c.R, w))
		}
		// plan + serve round trip: the planned requests for [a,b], served one by
		// one, must deliver exactly the canonical blocks a..b in order.
		N := w.best()
		if N >= 2 {
			a := uint(c.R.Range(1, int(N)))
			if c.R.Chance(1, 8) {
				a = 0
			}
			b := a + uint(c.R.Intn(int(N-a)+1))
			var got []int
			okAll := true
			for _, m := range messages.NewAscendingBlockRequests(a, b, messages.BootstrapRequestData) {
				q := c31Req{what: "num", num: m.StartingBlock.RawValue().(uint), dir: m.Direction, max: m.Max, fields: m.RequestedData}
				nodes, ok := c31Serve(c, w, q)
				if !ok {
					okAll = false
					break
				}
				got = append(got, nodes...)
			}
			if okAll {
				c.Eval(1)
				c.Count("plan_serve_roundtrips", 1)
				want := w.main[a : b+1]
				same := len(got) == len(want)
				for i := 0; same && i < len(got); i++ {
					same = got[i] == want[i]
				}
				if !same {
					c.Violation("plan-serve", fmt.Sprintf("serving the planned requests for [%d,%d] delivered %d blocks, not exactly the canonical blocks %d..%d",
						a, b, len(got), a, b), map[string]any{"world": w.descr, "a": a, "b": b, "served": respTags(w, got)})
				}
			}
		}
	})

	// ---- fault injection: every generated request is re-run with the N-th call of each BlockState method it uses
	// failing, N aimed at the 1st / 2nd / middle / last block of the would-be response
	r.Cases("fault", r.Scale(320), func(c *vcommon.Case) {
		k := c.Idx % nWorlds
		w := getWorld(c, fmt.Sprintf("w%d", k), r.Seed*1000003+uint64(k), k)
		if w == nil {
			return
		}
		for i := 0; i < 10; i++ {
			c31FaultFamily(c, w, c31GenReq(c.R, w))
		}
	})

	// ---- repeated identical requests: the rate limit may only turn responses
	// into errors; whatever is served still has to satisfy the oracle.
	r.Cases("repeat", r.Scale(40), func(c *vcommon.Case) {
		k := c.Idx % nWorlds
		w := getWorld(c, fmt.Sprintf("w%d", k), r.Seed*1000003+uint64(k), k)
		if w == nil {
			return
		}
		svc, nw := c31Service(w)
		for i := 0; i < 6; i++ {
			q := c31GenReq(c.R, w)
			peers := []peer.ID{"pA", "pB"}
			servedBy := map[peer.ID]int{}
			for j := 0; j < 9; j++ {
				who := peers[j%2]
				if j >= 6 {
					who = peers[0]
				}
				before := c.Run
				_ = before
				_, ok := c31ServeOn(c, w, q, svc, who)
				if ok {
					servedBy[who]++
				}
			}
			c.Count("repeat_sequences", 1)
			if servedBy["pA"] > 0 || servedBy["pB"] > 0 {
				c.Count("repeat_served_total", servedBy["pA"]+servedBy["pB"])
			}
		}
		c.Count("rate_limit_reports", nw.reports)
	})

	// ---- the production planner: FullSyncStrategy.NextActions (zz_verif_c31_planner_test.go)
	c31PlannerGroups(t, r)
	// ---- floors of the fault-free wire round trip (zz_verif_c31_wire_test.go)
	c31WireFloors(r)
}
