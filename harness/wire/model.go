//go:build verif

// Package wire holds the neutral models of the chain / network data
// structures of properties C14 and C33 and their hand-written reference
// encoders. Nothing in this file imports gossamer: the byte layouts are
// written from the Polkadot Host specification tables (SCALE codec appendix,
// "Block header", "Digest", BABE pre-runtime digest / consensus messages,
// GRANDPA consensus messages, GRANDPA gossip messages) and, for the two
// protobuf messages, from the api.v1 schema (field numbers / wire types).
package wire

import (
	"encoding/binary"
	"encoding/hex"
	"fmt"
)

// ---------------------------------------------------------------- SCALE primitives

// Compact is the SCALE compact integer encoding of n (general integers).
func Compact(n uint64) []byte {
	switch {
	case n < 1<<6:
		return []byte{byte(n << 2)}
	case n < 1<<14:
		v := uint16(n<<2) | 1
		return []byte{byte(v), byte(v >> 8)}
	case n < 1<<30:
		v := uint32(n<<2) | 2
		return []byte{byte(v), byte(v >> 8), byte(v >> 16), byte(v >> 24)}
	}
	var le []byte
	for x := n; x > 0; x >>= 8 {
		le = append(le, byte(x))
	}
	return append([]byte{byte((len(le)-4)<<2) | 3}, le...)
}

func U16(v uint16) []byte { return []byte{byte(v), byte(v >> 8)} }
func U32(v uint32) []byte { b := make([]byte, 4); binary.LittleEndian.PutUint32(b, v); return b }
func U64(v uint64) []byte { b := make([]byte, 8); binary.LittleEndian.PutUint64(b, v); return b }

// Bytes is a SCALE byte vector: compact length then the bytes.
func Bytes(b []byte) []byte { return append(Compact(uint64(len(b))), b...) }

func Bool(b bool) []byte {
	if b {
		return []byte{1}
	}
	return []byte{0}
}

func cat(parts ...[]byte) []byte {
	var out []byte
	for _, p := range parts {
		out = append(out, p...)
	}
	if out == nil {
		out = []byte{}
	}
	return out
}

// Hx renders bytes for witnesses.
func Hx(b []byte) string { return "0x" + hex.EncodeToString(b) }

// ---------------------------------------------------------------- header / digest / body

// Digest item kinds (sp_runtime::generic::DigestItem discriminants).
const (
	KindOther      = 0
	KindConsensus  = 4
	KindSeal       = 5
	KindPreRuntime = 6
	KindRuntimeEnv = 8
)

// DigestItem models one header digest item.
type DigestItem struct {
	Kind   int
	Engine [4]byte // kinds 4, 5, 6
	Data   []byte  // kinds 0, 4, 5, 6
}

func (d DigestItem) Ref() []byte {
	switch d.Kind {
	case KindOther:
		return cat([]byte{0}, Bytes(d.Data))
	case KindConsensus, KindSeal, KindPreRuntime:
		return cat([]byte{byte(d.Kind)}, d.Engine[:], Bytes(d.Data))
	case KindRuntimeEnv:
		return []byte{8}
	}
	panic(fmt.Sprintf("model: digest kind %d", d.Kind))
}

// Header models a block header; Number is compact-encoded.
type Header struct {
	Parent    [32]byte
	Number    uint64
	StateRoot [32]byte
	ExtRoot   [32]byte
	Digest    []DigestItem
}

func (h Header) Ref() []byte {
	out := cat(h.Parent[:], Compact(h.Number), h.StateRoot[:], h.ExtRoot[:], Compact(uint64(len(h.Digest))))
	for _, d := range h.Digest {
		out = append(out, d.Ref()...)
	}
	return out
}

// Shape is a structural fingerprint (digest kinds, data length classes, number width).
func (h Header) Shape() string {
	s := fmt.Sprintf("n%d|", len(Compact(h.Number)))
	for _, d := range h.Digest {
		s += fmt.Sprintf("%d:%d,", d.Kind, len(Compact(uint64(len(d.Data)))))
	}
	return s
}

// Body models a block body: a vector of opaque extrinsics.
type Body [][]byte

func (b Body) Ref() []byte {
	out := Compact(uint64(len(b)))
	for _, e := range b {
		out = append(out, Bytes(e)...)
	}
	return out
}

// ---------------------------------------------------------------- BABE

// BabePre models a BABE pre-runtime digest payload (kinds 1 primary, 2 secondary plain, 3 secondary VRF).
type BabePre struct {
	Kind      int
	AuthIndex uint32
	Slot      uint64
	VRFOut    [32]byte
	VRFProof  [64]byte
}

func (p BabePre) Ref() []byte {
	out := cat([]byte{byte(p.Kind)}, U32(p.AuthIndex), U64(p.Slot))
	if p.Kind == 1 || p.Kind == 3 {
		out = cat(out, p.VRFOut[:], p.VRFProof[:])
	}
	return out
}

// Auth is an (authority id, weight) pair.
type Auth struct {
	Key    [32]byte
	Weight uint64
}

func authsRef(as []Auth) []byte {
	out := Compact(uint64(len(as)))
	for _, a := range as {
		out = cat(out, a.Key[:], U64(a.Weight))
	}
	return out
}

// BabeCons models a BABE consensus message: 1 NextEpochData, 2 OnDisabled, 3 NextConfigData(V1).
type BabeCons struct {
	Kind       int
	Auths      []Auth
	Randomness [32]byte
	Disabled   uint32
	C1, C2     uint64
	Secondary  byte
}

func (b BabeCons) Ref() []byte {
	switch b.Kind {
	case 1:
		return cat([]byte{1}, authsRef(b.Auths), b.Randomness[:])
	case 2:
		return cat([]byte{2}, U32(b.Disabled))
	case 3:
		return cat([]byte{3, 1}, U64(b.C1), U64(b.C2), []byte{b.Secondary})
	}
	panic("model: babe consensus kind")
}

// ---------------------------------------------------------------- GRANDPA consensus digests

// GrandpaCons models a GRANDPA consensus message:
// 1 ScheduledChange, 2 ForcedChange, 3 OnDisabled, 4 Pause, 5 Resume.
type GrandpaCons struct {
	Kind     int
	Auths    []Auth
	Delay    uint32
	Best     uint32 // forced change: delay start
	Disabled uint64
}

func (g GrandpaCons) Ref() []byte {
	switch g.Kind {
	case 1:
		return cat([]byte{1}, authsRef(g.Auths), U32(g.Delay))
	case 2:
		return cat([]byte{2}, U32(g.Best), authsRef(g.Auths), U32(g.Delay))
	case 3:
		return cat([]byte{3}, U64(g.Disabled))
	case 4, 5:
		return cat([]byte{byte(g.Kind)}, U32(g.Delay))
	}
	panic("model: grandpa consensus kind")
}

// ---------------------------------------------------------------- GRANDPA votes / commits / justifications

// Vote is (block hash, block number); Wide selects a u64 number (u32 otherwise).
type Vote struct {
	Hash   [32]byte
	Number uint64
}

func num(n uint64, wide bool) []byte {
	if wide {
		return U64(n)
	}
	return U32(uint32(n))
}

func (v Vote) Ref(wide bool) []byte { return cat(v.Hash[:], num(v.Number, wide)) }

// SignedVote is a vote with signature and authority id.
type SignedVote struct {
	Vote Vote
	Sig  [64]byte
	ID   [32]byte
}

func (s SignedVote) Ref(wide bool) []byte { return cat(s.Vote.Ref(wide), s.Sig[:], s.ID[:]) }

func signedVotesRef(vs []SignedVote, wide bool) []byte {
	out := Compact(uint64(len(vs)))
	for _, v := range vs {
		out = append(out, v.Ref(wide)...)
	}
	return out
}

// Commit is (target hash, target number, signed precommits).
type Commit struct {
	Target     Vote
	Precommits []SignedVote
}

func (c Commit) Ref(wide bool) []byte {
	return cat(c.Target.Ref(wide), signedVotesRef(c.Precommits, wide))
}

// Justification is (round, commit [, vote ancestry headers]).
type Justification struct {
	Round      uint64
	Commit     Commit
	Ancestries []Header // only in the Substrate-format justification
}

// RefShort is the layout of lib/grandpa.Justification: round, commit.
func (j Justification) RefShort() []byte { return cat(U64(j.Round), j.Commit.Ref(false)) }

// RefFull is the layout of sp_consensus_grandpa::GrandpaJustification: round, commit, votes_ancestries.
func (j Justification) RefFull(wide bool) []byte {
	out := cat(U64(j.Round), j.Commit.Ref(wide), Compact(uint64(len(j.Ancestries))))
	for _, h := range j.Ancestries {
		out = append(out, h.Ref()...) // header numbers are compact whatever the width of N is
	}
	return out
}

// ---------------------------------------------------------------- GRANDPA gossip messages

// GossipKind: 0 vote, 1 commit, 2 neighbour, 3 catch-up request, 4 catch-up response.
type Gossip struct {
	Kind       int
	Round      uint64
	SetID      uint64
	Stage      byte // vote: 0 prevote, 1 precommit, 2 primary proposal
	Vote       Vote
	Sig        [64]byte
	ID         [32]byte
	Precommits []Vote       // commit (compact form)
	AuthData   []SignedVote // commit: only Sig and ID are used
	Number     uint32       // neighbour: finalized height
	Prevotes   []SignedVote // catch-up response
	PCs        []SignedVote // catch-up response
}

func (g Gossip) Ref() []byte {
	switch g.Kind {
	case 0:
		return cat([]byte{0}, U64(g.Round), U64(g.SetID), []byte{g.Stage}, g.Vote.Ref(false), g.Sig[:], g.ID[:])
	case 1:
		out := cat([]byte{1}, U64(g.Round), U64(g.SetID), g.Vote.Ref(false), Compact(uint64(len(g.Precommits))))
		for _, v := range g.Precommits {
			out = append(out, v.Ref(false)...)
		}
		out = append(out, Compact(uint64(len(g.AuthData)))...)
		for _, a := range g.AuthData {
			out = cat(out, a.Sig[:], a.ID[:])
		}
		return out
	case 2:
		return cat([]byte{2, 1}, U64(g.Round), U64(g.SetID), U32(g.Number))
	case 3:
		return cat([]byte{3}, U64(g.Round), U64(g.SetID))
	case 4:
		return cat([]byte{4}, U64(g.SetID), U64(g.Round), signedVotesRef(g.Prevotes, false), signedVotesRef(g.PCs, false),
			g.Vote.Ref(false))
	}
	panic("model: gossip kind")
}

// ---------------------------------------------------------------- notification messages

// Announce is a block announcement: header fields followed by the best-block flag.
type Announce struct {
	Header Header
	Best   bool
}

func (a Announce) Ref() []byte { return cat(a.Header.Ref(), Bool(a.Best)) }

// Handshake is the block-announces handshake.
type Handshake struct {
	Roles      byte
	BestNumber uint32
	BestHash   [32]byte
	Genesis    [32]byte
}

func (h Handshake) Ref() []byte {
	return cat([]byte{h.Roles}, U32(h.BestNumber), h.BestHash[:], h.Genesis[:])
}

// ---------------------------------------------------------------- protobuf (api.v1)

func pbVarint(v uint64) []byte {
	var out []byte
	for v >= 0x80 {
		out = append(out, byte(v)|0x80)
		v >>= 7
	}
	return append(out, byte(v))
}

func pbTag(field, wt int) []byte { return pbVarint(uint64(field)<<3 | uint64(wt)) }

// PbBytes is a length-delimited field (always emitted, even when empty).
func PbBytes(field int, b []byte) []byte { return cat(pbTag(field, 2), pbVarint(uint64(len(b))), b) }

// PbUint is a varint field.
func PbUint(field int, v uint64) []byte { return cat(pbTag(field, 0), pbVarint(v)) }

// BlockRequest models api.v1.BlockRequest.
type BlockRequest struct {
	Fields    byte // attribute bits; the wire value is Fields<<24
	FromHash  bool
	Hash      []byte // when FromHash
	Number    uint32 // otherwise (4 bytes little endian)
	Direction byte
	Max       uint32 // 0 = absent
}

// Ref is the canonical proto3 serialisation (fields in number order, zero scalars omitted,
// the oneof member always emitted).
func (r BlockRequest) Ref() []byte {
	var out []byte
	if r.Fields != 0 {
		out = append(out, PbUint(1, uint64(r.Fields)<<24)...)
	}
	if r.FromHash {
		out = append(out, PbBytes(2, r.Hash)...)
	} else {
		out = append(out, PbBytes(3, U32(r.Number))...)
	}
	if r.Direction != 0 {
		out = append(out, PbUint(5, uint64(r.Direction))...)
	}
	if r.Max != 0 {
		out = append(out, PbUint(6, uint64(r.Max))...)
	}
	return cat(out)
}

// BlockData models api.v1.BlockData; nil optional parts are absent.
type BlockData struct {
	Hash          [32]byte
	Header        *Header
	Body          *Body
	Receipt       *[]byte
	MessageQueue  *[]byte
	Justification *[]byte
}

func (b BlockData) Ref() []byte {
	out := PbBytes(1, b.Hash[:])
	if b.Header != nil {
		out = append(out, PbBytes(2, b.Header.Ref())...)
	}
	if b.Body != nil {
		for _, e := range *b.Body {
			out = append(out, PbBytes(3, Bytes(e))...)
		}
	}
	if b.Receipt != nil && len(*b.Receipt) > 0 {
		out = append(out, PbBytes(4, *b.Receipt)...)
	}
	if b.MessageQueue != nil && len(*b.MessageQueue) > 0 {
		out = append(out, PbBytes(5, *b.MessageQueue)...)
	}
	if b.Justification != nil {
		if len(*b.Justification) > 0 {
			out = append(out, PbBytes(6, *b.Justification)...)
		} else {
			out = append(out, PbUint(7, 1)...)
		}
	}
	return out
}

// BlockResponse models api.v1.BlockResponse.
type BlockResponse []BlockData

func (r BlockResponse) Ref() []byte {
	var out []byte
	for _, b := range r {
		out = append(out, PbBytes(1, b.Ref())...)
	}
	return cat(out)
}

// PbField is one parsed protobuf field.
type PbField struct {
	Num  int
	Wt   int
	Val  uint64 // varint / fixed
	Data []byte // length-delimited
}

// PbParse is a minimal protobuf wire parser (varint, fixed64, length-delimited, fixed32).
func PbParse(b []byte) ([]PbField, error) {
	var fs []PbField
	rd := func() (uint64, error) {
		var v uint64
		for s := uint(0); ; s += 7 {
			if len(b) == 0 || s > 63 {
				return 0, fmt.Errorf("bad varint")
			}
			c := b[0]
			b = b[1:]
			v |= uint64(c&0x7f) << s
			if c < 0x80 {
				return v, nil
			}
		}
	}
	for len(b) > 0 {
		t, err := rd()
		if err != nil {
			return nil, err
		}
		f := PbField{Num: int(t >> 3), Wt: int(t & 7)}
		switch f.Wt {
		case 0:
			if f.Val, err = rd(); err != nil {
				return nil, err
			}
		case 1:
			if len(b) < 8 {
				return nil, fmt.Errorf("short fixed64")
			}
			f.Val = binary.LittleEndian.Uint64(b)
			b = b[8:]
		case 2:
			n, err := rd()
			if err != nil {
				return nil, err
			}
			if n > uint64(len(b)) {
				return nil, fmt.Errorf("short bytes")
			}
			f.Data = append([]byte{}, b[:n]...)
			b = b[n:]
		case 5:
			if len(b) < 4 {
				return nil, fmt.Errorf("short fixed32")
			}
			f.Val = uint64(binary.LittleEndian.Uint32(b))
			b = b[4:]
		default:
			return nil, fmt.Errorf("wire type %d", f.Wt)
		}
		fs = append(fs, f)
	}
	return fs, nil
}

// PbSerialize re-serialises parsed fields in their order.
func PbSerialize(fs []PbField) []byte {
	out := []byte{}
	for _, f := range fs {
		switch f.Wt {
		case 0:
			out = append(out, PbUint(f.Num, f.Val)...)
		case 1:
			out = append(out, cat(pbTag(f.Num, 1), U64(f.Val))...)
		case 2:
			out = append(out, PbBytes(f.Num, f.Data)...)
		case 5:
			out = append(out, cat(pbTag(f.Num, 5), U32(uint32(f.Val)))...)
		}
	}
	return out
}

// PbCanon re-serialises parsed fields sorted by field number (stable), so two
// serialisations that differ only in field order compare equal.
func PbCanon(fs []PbField) string {
	idx := make([]int, len(fs))
	for i := range idx {
		idx[i] = i
	}
	for i := 1; i < len(idx); i++ {
		for j := i; j > 0 && fs[idx[j]].Num < fs[idx[j-1]].Num; j-- {
			idx[j], idx[j-1] = idx[j-1], idx[j]
		}
	}
	s := ""
	for _, i := range idx {
		f := fs[i]
		s += fmt.Sprintf("%d/%d:%d:%x;", f.Num, f.Wt, f.Val, f.Data)
	}
	return s
}

// SelfCheck validates the reference encoders against worked examples of the
// specification and a public constant (the Polkadot genesis header hash).
func SelfCheck(blake func([]byte) [32]byte) error {
	type ce struct {
		n   uint64
		hex string
	}
	for _, e := range []ce{{0, "00"}, {1, "04"}, {42, "a8"}, {63, "fc"}, {64, "0101"}, {69, "1501"}, {16383, "fdff"},
		{16384, "02000100"}, {65535, "feff0300"}, {1<<30 - 1, "feffffff"}, {1 << 30, "0300000040"},
		{1<<32 - 1, "03ffffffff"}, {1 << 32, "070000000001"}, {100000000000000, "0b00407a10f35a"},
		{1<<64 - 1, "13ffffffffffffffff"}} {
		if got := hex.EncodeToString(Compact(e.n)); got != e.hex {
			return fmt.Errorf("Compact(%d)=%s want %s", e.n, got, e.hex)
		}
	}
	if got := hex.EncodeToString(Bytes([]byte{1, 2, 3})); got != "0c010203" {
		return fmt.Errorf("Bytes=%s", got)
	}
	var h Header
	sr, _ := hex.DecodeString("29d0d972cd27cbc511e9589fcb7a4506d5eb6a9e8df205f00472e5ab354a4e17")
	er, _ := hex.DecodeString("03170a2e7597b7b7e3d84c05391d139a62b157e78786d8c082f29dcf4c111314")
	copy(h.StateRoot[:], sr)
	copy(h.ExtRoot[:], er)
	hh := blake(h.Ref())
	if got := hex.EncodeToString(hh[:]); got != "91b171bb158e2d3848fa23a9f1c25182fb8e20313b2c1eb49219da7a70ce90c3" {
		return fmt.Errorf("polkadot genesis header hash = %s", got)
	}
	// protobuf: field 1 varint 150 is 08 96 01 (protobuf encoding guide)
	if got := hex.EncodeToString(PbUint(1, 150)); got != "089601" {
		return fmt.Errorf("PbUint=%s", got)
	}
	if got := hex.EncodeToString(PbBytes(2, []byte("testing"))); got != "120774657374696e67" {
		return fmt.Errorf("PbBytes=%s", got)
	}
	return nil
}
