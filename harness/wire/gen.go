//go:build verif

package wire

import (
	"github.com/ChainSafe/gossamer/zz_verif/vcommon"
)

// Generators of models, biased to the corner cases C14 names: every digest
// kind, empty digests / bodies / vectors, compact-width boundaries.

func h32(r *vcommon.Rand) (h [32]byte) {
	switch r.Intn(8) {
	case 0: // zero
	case 1:
		for i := range h {
			h[i] = 0xff
		}
	default:
		copy(h[:], r.Bytes(32))
	}
	return
}

func b64(r *vcommon.Rand) (h [64]byte) { copy(h[:], r.Bytes(64)); return }

var boundaryNumbers = []uint64{0, 1, 63, 64, 255, 256, 16383, 16384, 65535, 65536, 1<<30 - 1, 1 << 30, 1<<31 - 1, 1 << 31, 1<<32 - 1}

// GenNumber32 returns a block number <= 2^32-1 concentrated on compact boundaries.
func GenNumber32(r *vcommon.Rand) uint64 {
	if r.Chance(1, 2) {
		return vcommon.Pick(r, boundaryNumbers)
	}
	return r.Uint64() >> uint(32+r.Intn(32))
}

func genU32(r *vcommon.Rand) uint32 { return uint32(GenNumber32(r)) }

func genU64(r *vcommon.Rand) uint64 {
	switch r.Intn(4) {
	case 0:
		return vcommon.Pick(r, []uint64{0, 1, 1<<32 - 1, 1 << 32, 1<<63 - 1, 1 << 63, 1<<64 - 1})
	case 1:
		return GenNumber32(r)
	}
	return r.Uint64() >> uint(r.Intn(64))
}

// GenData returns a byte string whose length straddles the compact widths.
func GenData(r *vcommon.Rand, big bool) []byte {
	var n int
	switch r.Intn(10) {
	case 0:
		n = 0
	case 1:
		n = 1
	case 2:
		n = 63
	case 3:
		n = 64
	case 4:
		if big {
			n = vcommon.Pick(r, []int{16383, 16384, 16385})
		} else {
			n = 65
		}
	default:
		n = r.Range(0, 100)
	}
	return r.Bytes(n)
}

var engines = [][4]byte{{'B', 'A', 'B', 'E'}, {'F', 'R', 'N', 'K'}, {'B', 'E', 'E', 'F'}, {0, 0, 0, 0}, {0xff, 0xfe, 0xfd, 0xfc}}

var digestKinds = []int{KindOther, KindConsensus, KindSeal, KindPreRuntime, KindRuntimeEnv}

// GenDigestItem returns an item of the given kind; payloads are sometimes real BABE / GRANDPA encodings.
func GenDigestItem(r *vcommon.Rand, kind int, big bool) DigestItem {
	d := DigestItem{Kind: kind}
	if kind == KindRuntimeEnv {
		return d
	}
	if kind != KindOther {
		d.Engine = vcommon.Pick(r, engines)
	}
	switch {
	case kind == KindPreRuntime && r.Chance(1, 2):
		d.Engine = engines[0]
		d.Data = GenBabePre(r).Ref()
	case kind == KindConsensus && r.Chance(1, 3):
		d.Engine = engines[0]
		d.Data = GenBabeCons(r).Ref()
	case kind == KindConsensus && r.Chance(1, 2):
		d.Engine = engines[1]
		d.Data = GenGrandpaCons(r).Ref()
	case kind == KindSeal && r.Chance(1, 2):
		d.Engine = engines[0]
		d.Data = r.Bytes(64)
	default:
		d.Data = GenData(r, big)
	}
	return d
}

// GenHeader returns a header; with allowOther=false no Other item is generated.
func GenHeader(r *vcommon.Rand, allowOther bool) Header {
	h := Header{Parent: h32(r), Number: GenNumber32(r), StateRoot: h32(r), ExtRoot: h32(r)}
	var n int
	switch r.Intn(8) {
	case 0:
		n = 0
	case 1:
		n = 1
	case 2:
		n = r.Range(60, 70) // digest count crosses the 1-byte compact boundary
	default:
		n = r.Range(1, 6)
	}
	big := r.Chance(1, 20)
	for i := 0; i < n; i++ {
		k := vcommon.Pick(r, digestKinds)
		if k == KindOther && !allowOther {
			k = KindSeal
		}
		h.Digest = append(h.Digest, GenDigestItem(r, k, big && i == 0))
	}
	return h
}

// GenBody returns a body (possibly empty, possibly with empty extrinsics).
func GenBody(r *vcommon.Rand) Body {
	var n int
	switch r.Intn(6) {
	case 0:
		n = 0
	case 1:
		n = 1
	case 2:
		n = r.Range(63, 66)
	default:
		n = r.Range(1, 8)
	}
	b := Body{}
	for i := 0; i < n; i++ {
		b = append(b, GenData(r, r.Chance(1, 30)))
	}
	return b
}

func GenBabePre(r *vcommon.Rand) BabePre {
	p := BabePre{Kind: r.Range(1, 3), AuthIndex: genU32(r), Slot: genU64(r)}
	if p.Kind != 2 {
		p.VRFOut = h32(r)
		p.VRFProof = b64(r)
	}
	return p
}

func genAuths(r *vcommon.Rand) []Auth {
	var n int
	switch r.Intn(5) {
	case 0:
		n = 0
	case 1:
		n = r.Range(63, 65)
	default:
		n = r.Range(1, 5)
	}
	as := []Auth{}
	for i := 0; i < n; i++ {
		as = append(as, Auth{Key: h32(r), Weight: genU64(r)})
	}
	return as
}

func GenBabeCons(r *vcommon.Rand) BabeCons {
	b := BabeCons{Kind: r.Range(1, 3)}
	switch b.Kind {
	case 1:
		b.Auths = genAuths(r)
		b.Randomness = h32(r)
	case 2:
		b.Disabled = genU32(r)
	case 3:
		b.C1, b.C2, b.Secondary = genU64(r), genU64(r), byte(r.Intn(4))
	}
	return b
}

func GenGrandpaCons(r *vcommon.Rand) GrandpaCons {
	g := GrandpaCons{Kind: r.Range(1, 5)}
	switch g.Kind {
	case 1:
		g.Auths, g.Delay = genAuths(r), genU32(r)
	case 2:
		g.Best, g.Auths, g.Delay = genU32(r), genAuths(r), genU32(r)
	case 3:
		g.Disabled = genU64(r)
	default:
		g.Delay = genU32(r)
	}
	return g
}

func GenVote(r *vcommon.Rand, wide bool) Vote {
	v := Vote{Hash: h32(r)}
	if wide {
		v.Number = genU64(r)
	} else {
		v.Number = uint64(genU32(r))
	}
	return v
}

func GenSignedVote(r *vcommon.Rand, wide bool) SignedVote {
	return SignedVote{Vote: GenVote(r, wide), Sig: b64(r), ID: h32(r)}
}

func genSignedVotes(r *vcommon.Rand, wide bool) []SignedVote {
	var n int
	switch r.Intn(5) {
	case 0:
		n = 0
	case 1:
		n = r.Range(63, 65)
	default:
		n = r.Range(1, 4)
	}
	vs := []SignedVote{}
	for i := 0; i < n; i++ {
		vs = append(vs, GenSignedVote(r, wide))
	}
	return vs
}

func GenCommit(r *vcommon.Rand, wide bool) Commit {
	return Commit{Target: GenVote(r, wide), Precommits: genSignedVotes(r, wide)}
}

// GenJustification returns a justification with 0..3 vote-ancestry headers (any digest).
func GenJustification(r *vcommon.Rand, wide bool) Justification {
	j := Justification{Round: genU64(r), Commit: GenCommit(r, wide)}
	for i, n := 0, r.Intn(4); i < n; i++ {
		j.Ancestries = append(j.Ancestries, GenHeader(r, true))
	}
	return j
}

func GenGossip(r *vcommon.Rand, kind int) Gossip {
	g := Gossip{Kind: kind, Round: genU64(r), SetID: genU64(r)}
	switch kind {
	case 0:
		g.Stage, g.Vote, g.Sig, g.ID = byte(r.Intn(3)), GenVote(r, false), b64(r), h32(r)
	case 1:
		g.Vote = GenVote(r, false)
		svs := genSignedVotes(r, false)
		g.Precommits, g.AuthData = []Vote{}, []SignedVote{}
		for _, s := range svs {
			g.Precommits = append(g.Precommits, s.Vote)
			g.AuthData = append(g.AuthData, s)
		}
		if r.Chance(1, 6) && len(g.AuthData) > 0 { // mismatching vector lengths are still encodable
			g.AuthData = g.AuthData[:len(g.AuthData)-1]
		}
	case 2:
		g.Number = genU32(r)
	case 4:
		g.Prevotes, g.PCs, g.Vote = genSignedVotes(r, false), genSignedVotes(r, false), GenVote(r, false)
	}
	return g
}

func GenAnnounce(r *vcommon.Rand, allowOther bool) Announce {
	return Announce{Header: GenHeader(r, allowOther), Best: r.Bool()}
}

func GenHandshake(r *vcommon.Rand) Handshake {
	return Handshake{Roles: vcommon.Pick(r, []byte{0, 1, 2, 4, 0xff}), BestNumber: genU32(r), BestHash: h32(r), Genesis: h32(r)}
}

func GenBlockRequest(r *vcommon.Rand) BlockRequest {
	q := BlockRequest{Fields: vcommon.Pick(r, []byte{0, 1, 2, 3, 16, 19, 31, 0x80, 0xff}), FromHash: r.Bool(),
		Direction: byte(r.Intn(2))}
	if q.FromHash {
		hh := h32(r)
		q.Hash = hh[:]
	} else {
		q.Number = genU32(r)
	}
	if r.Chance(3, 4) {
		q.Max = vcommon.Pick(r, []uint32{1, 64, 127, 128, 129, 1 << 16, 1<<32 - 1})
	}
	return q
}

func optBytes(r *vcommon.Rand) *[]byte {
	switch r.Intn(4) {
	case 0:
		return nil
	case 1:
		e := []byte{}
		return &e
	}
	b := GenData(r, false)
	return &b
}

func GenBlockData(r *vcommon.Rand, allowOther bool) BlockData {
	b := BlockData{Hash: h32(r)}
	if r.Chance(3, 4) {
		h := GenHeader(r, allowOther)
		b.Header = &h
	}
	if r.Chance(3, 4) {
		bd := GenBody(r)
		b.Body = &bd
	}
	b.Receipt, b.MessageQueue, b.Justification = optBytes(r), optBytes(r), optBytes(r)
	return b
}

func GenBlockResponse(r *vcommon.Rand, allowOther bool) BlockResponse {
	var n int
	switch r.Intn(5) {
	case 0:
		n = 0
	case 1:
		n = 1
	default:
		n = r.Range(1, 5)
	}
	out := BlockResponse{}
	for i := 0; i < n; i++ {
		out = append(out, GenBlockData(r, allowOther))
	}
	return out
}

// ---------------------------------------------------------------- "other" values for destination-reuse round trips
//
// GenXxxOther(r, x) draws a value y of the same type as x that differs from x
// in the optional / absent / variable-length parts: a decoder that does not
// overwrite its destination completely leaves a trace of y behind when x is
// decoded over it.

// GenHeaderOther: another header whose digest list has another length (empty, shorter, longer) or other kinds.
func GenHeaderOther(r *vcommon.Rand, x Header) Header {
	y := GenHeader(r, true)
	if len(y.Digest) > 12 {
		y.Digest = y.Digest[:12]
	}
	switch r.Intn(4) {
	case 0: // longer than x
		for len(y.Digest) <= len(x.Digest) && len(y.Digest) < 80 {
			y.Digest = append(y.Digest, GenDigestItem(r, vcommon.Pick(r, digestKinds), false))
		}
	case 1: // shorter than x (when x has items)
		if len(x.Digest) > 0 && len(y.Digest) >= len(x.Digest) {
			y.Digest = y.Digest[:r.Intn(len(x.Digest))]
		}
	case 2: // same length, other kinds
		y.Digest = nil
		for range x.Digest {
			y.Digest = append(y.Digest, GenDigestItem(r, vcommon.Pick(r, digestKinds), false))
		}
	}
	if y.Number == x.Number {
		y.Number ^= 1
	}
	return y
}

// GenBodyOther: another body with another number of extrinsics.
func GenBodyOther(r *vcommon.Rand, x Body) Body {
	y := GenBody(r)
	if len(y) == len(x) {
		if len(y) > 0 && r.Bool() {
			y = y[:r.Intn(len(y))]
		} else {
			y = append(y, GenData(r, false), GenData(r, false))
		}
	}
	return y
}

// GenBabePreOther: mostly another variant.
func GenBabePreOther(r *vcommon.Rand, x BabePre) BabePre {
	y := GenBabePre(r)
	for i := 0; i < 4 && y.Kind == x.Kind && r.Chance(3, 4); i++ {
		y = GenBabePre(r)
	}
	return y
}

func otherAuths(r *vcommon.Rand, x []Auth) []Auth {
	y := genAuths(r)
	if len(y) == len(x) {
		y = append(y, Auth{Key: h32(r), Weight: genU64(r)})
	}
	return y
}

// GenBabeConsOther: another variant, or the same variant with another number of authorities.
func GenBabeConsOther(r *vcommon.Rand, x BabeCons) BabeCons {
	y := GenBabeCons(r)
	same := r.Chance(1, 3)
	for i := 0; i < 30 && (y.Kind == x.Kind) != same; i++ {
		y = GenBabeCons(r)
	}
	if y.Kind == 1 && x.Kind == 1 {
		y.Auths = otherAuths(r, x.Auths)
	}
	return y
}

// GenGrandpaConsOther: another variant, or the same variant with another number of authorities.
func GenGrandpaConsOther(r *vcommon.Rand, x GrandpaCons) GrandpaCons {
	y := GenGrandpaCons(r)
	same := r.Chance(1, 3)
	for i := 0; i < 30 && (y.Kind == x.Kind) != same; i++ {
		y = GenGrandpaCons(r)
	}
	if y.Kind == x.Kind && (y.Kind == 1 || y.Kind == 2) {
		y.Auths = otherAuths(r, x.Auths)
	}
	return y
}

func otherSignedVotes(r *vcommon.Rand, x []SignedVote, wide bool) []SignedVote {
	y := genSignedVotes(r, wide)
	if len(y) == len(x) {
		if len(y) > 0 && r.Bool() {
			y = y[:r.Intn(len(y))]
		} else {
			y = append(y, GenSignedVote(r, wide))
		}
	}
	return y
}

// GenJustificationOther: another number of precommits and of ancestry headers.
func GenJustificationOther(r *vcommon.Rand, x Justification, wide bool) Justification {
	y := GenJustification(r, wide)
	y.Commit.Precommits = otherSignedVotes(r, x.Commit.Precommits, wide)
	if len(y.Ancestries) == len(x.Ancestries) {
		if len(y.Ancestries) > 0 && r.Bool() {
			y.Ancestries = y.Ancestries[1:]
		} else {
			y.Ancestries = append(y.Ancestries, GenHeader(r, true))
		}
	}
	return y
}

// GenGossipOther: a message of the given kind whose vectors have other lengths than x's (when x is of that kind).
func GenGossipOther(r *vcommon.Rand, x Gossip, kind int) Gossip {
	y := GenGossip(r, kind)
	if kind != x.Kind {
		return y
	}
	switch kind {
	case 1:
		if len(y.Precommits) == len(x.Precommits) {
			s := GenSignedVote(r, false)
			y.Precommits, y.AuthData = append(y.Precommits, s.Vote), append(y.AuthData, s)
		}
	case 4:
		y.Prevotes, y.PCs = otherSignedVotes(r, x.Prevotes, false), otherSignedVotes(r, x.PCs, false)
	}
	return y
}

// GenBlockRequestOther: max_blocks present where x has none and (mostly) absent where x has one; the
// other oneof member / direction half of the time.
func GenBlockRequestOther(r *vcommon.Rand, x BlockRequest) BlockRequest {
	y := GenBlockRequest(r)
	if x.Max == 0 || r.Chance(1, 4) {
		for y.Max == 0 || y.Max == x.Max {
			y.Max = vcommon.Pick(r, []uint32{1, 2, 64, 127, 128, 129, 1 << 16, 1<<32 - 1})
		}
	} else {
		y.Max = 0
	}
	if r.Bool() && y.FromHash == x.FromHash {
		y.FromHash = !x.FromHash
		if y.FromHash {
			hh := h32(r)
			y.Hash, y.Number = hh[:], 0
		} else {
			y.Hash, y.Number = nil, genU32(r)
		}
	}
	if y.Fields == x.Fields {
		y.Fields ^= 0x1f
	}
	return y
}

func flipOpt(r *vcommon.Rand, x *[]byte) *[]byte {
	if x == nil || len(*x) == 0 {
		b := r.Bytes(r.Range(1, 40))
		return &b
	}
	if r.Bool() {
		return nil
	}
	e := []byte{}
	return &e
}

// GenBlockDataOther: every optional part present where x's is absent / empty and absent / empty where x's is present.
func GenBlockDataOther(r *vcommon.Rand, x BlockData, allowOther bool) BlockData {
	y := BlockData{Hash: h32(r)}
	if x.Header == nil || r.Chance(1, 4) {
		h := GenHeader(r, allowOther)
		if x.Header != nil {
			h = GenHeaderOther(r, *x.Header)
		}
		y.Header = &h
	}
	if x.Body == nil || len(*x.Body) == 0 || r.Chance(1, 4) {
		bd := GenBody(r)
		if len(bd) == 0 {
			bd = Body{GenData(r, false)}
		}
		y.Body = &bd
	} else if r.Bool() {
		y.Body = &Body{}
	}
	y.Receipt, y.MessageQueue, y.Justification = flipOpt(r, x.Receipt), flipOpt(r, x.MessageQueue), flipOpt(r, x.Justification)
	return y
}

// GenBlockResponseOther: another number of blocks (fewer, more, none); the blocks at common positions are complements.
func GenBlockResponseOther(r *vcommon.Rand, x BlockResponse, allowOther bool) BlockResponse {
	var n int
	switch r.Intn(4) {
	case 0:
		n = len(x) + r.Range(1, 3)
	case 1:
		n = len(x)
	case 2:
		n = r.Intn(len(x) + 1)
	default:
		n = r.Range(0, 5)
	}
	y := BlockResponse{}
	for i := 0; i < n; i++ {
		if i < len(x) {
			y = append(y, GenBlockDataOther(r, x[i], allowOther))
		} else {
			y = append(y, GenBlockData(r, allowOther))
		}
	}
	return y
}
