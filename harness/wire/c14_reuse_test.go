//go:build verif

package wire

// Destination-reuse round trips for C14: "decoding overwrites the destination
// completely". The fresh-destination round trips of c14_test.go cannot see a
// decoder that only writes the parts present on the wire (e.g. a
// BlockRequestMessage.Decode that leaves Max alone when max_blocks is absent):
// such a decoder needs a destination that already holds ANOTHER value.
//
// Every scenario is a chain v0, v1 .. vk (k = 1..3) of generated values of one
// type, each drawn to differ from its predecessor in the optional / absent /
// variable-length parts. The destination is built holding v0; then the wire
// encoding of v1 .. vk is decoded, one after another, into that same
// destination. After every decode the destination must equal vi under the same
// equality rule the fresh round trip uses (structural; proto3 empty == absent
// for the block response), and its re-encoding must equal Ref(vi) (protobuf:
// the same fields, order free).
//
// Conventions honoured (see NOTES.md "Destination reuse"): entry points that
// allocate their own destination (DecodeJustification, decodeMessage,
// DecodeBabePreDigest, NewBodyFromBytes, NewBodyFromEncodedBytes) cannot be
// handed a used destination: they are only counted (reuse_excluded_fresh_api:*).
// The SCALE encoding of types.BlockData (Option fields) is no wire format of
// this tree (block responses are protobuf; no production code marshals
// BlockData): it is probed and a stale field is counted, never refuting.

import (
	"bytes"
	"fmt"
	"reflect"

	"github.com/ChainSafe/gossamer/dot/network/messages"
	"github.com/ChainSafe/gossamer/dot/types"
	pgrandpa "github.com/ChainSafe/gossamer/internal/primitives/consensus/grandpa"
	"github.com/ChainSafe/gossamer/internal/primitives/core/hash"
	pruntime "github.com/ChainSafe/gossamer/internal/primitives/runtime"
	"github.com/ChainSafe/gossamer/internal/primitives/runtime/generic"
	"github.com/ChainSafe/gossamer/lib/common"
	"github.com/ChainSafe/gossamer/lib/grandpa"
	"github.com/ChainSafe/gossamer/pkg/scale"
	"github.com/ChainSafe/gossamer/zz_verif/vcommon"
)

// reuseSpec says how values of model type M are put into, decoded over and read back from a destination.
type reuseSpec[M any] struct {
	what    string
	build   func(M) (any, error)      // pointer to a fresh gossamer value holding M (the destination-to-be)
	inputs  func(M) ([][]byte, error) // serialisations of M that a peer may send (reference; protobuf also Encode())
	decode  func(dst any, in []byte) error
	same    func(dst any, x M) (bool, string) // destination == x (fresh round trip's equality rule); string = what differs
	reenc   func(dst any) ([]byte, error)
	sameEnc func(got []byte, x M) bool
	shape   func(M) string
	classes func(prev, x M) []string // interesting transitions (counted; floors)
	// excuse (optional) decides from a failed observation alone whether it is a class that is only counted
	// (no production call site reuses such a destination, or the encoding is outside the property): it returns
	// the counter name, or "" when the failure refutes the property.
	excuse func(dst any, x M) string
}

func scaleDecode(dst any, in []byte) error { return scale.Unmarshal(in, dst) }

func scaleReenc(dst any) ([]byte, error) {
	return scale.Marshal(reflect.ValueOf(dst).Elem().Interface())
}

func deref(p any) any { return reflect.ValueOf(p).Elem().Interface() }

// runReuse decodes vals[1:] one after another over a destination that holds vals[0].
func runReuse[M any](c *vcommon.Case, s reuseSpec[M], vals []M) {
	dst, err := s.build(vals[0])
	c.Eval(1)
	if err != nil {
		c.Violation("represent:"+s.what, "a spec-valid value cannot be represented: "+err.Error(), map[string]any{"type": s.what})
		return
	}
	held := "built: " + s.shape(vals[0])
	if ins, err := s.inputs(vals[0]); err == nil && len(ins) > 0 {
		held += " = " + Hx(ins[0])
	}
	trace := []string{held}
	sig := "RU|" + s.what + "|" + s.shape(vals[0])
	for i := 1; i < len(vals); i++ {
		x := vals[i]
		ins, err := s.inputs(x)
		if err != nil || len(ins) == 0 {
			c.Inconclusive(fmt.Sprintf("reuse %s: no serialisation of the value (%v)", s.what, err))
			return
		}
		in := ins[(c.Idx+i)%len(ins)]
		trace = append(trace, "decode "+Hx(in))
		sig += ">" + s.shape(x)
		c.Count("reuse_rt:"+s.what, 1)
		for _, cl := range s.classes(vals[i-1], x) {
			c.Count("reuse_"+cl, 1)
		}
		w := map[string]any{"type": s.what, "steps_into_one_destination": append([]string{}, trace...), "expected": s.shape(x),
			"expected_ref": Hx(ins[0])}
		bad := func(msg string) {
			w["destination_now"] = fmt.Sprintf("%+v", deref(dst))
			if s.excuse != nil {
				if name := s.excuse(dst, x); name != "" {
					c.Count(name, 1)
					c.Sample(map[string]any{"type": s.what, "note": "counted as " + name + ", not refuting: " + msg, "witness": w})
					return
				}
			}
			c.Violation("reuse:"+s.what, msg, w)
		}
		c.Eval(3)
		if err := s.decode(dst, in); err != nil {
			bad(fmt.Sprintf("decoding a valid %s over a destination that holds another value failed: %v", s.what, err))
			return
		}
		if ok, diff := s.same(dst, x); !ok {
			bad(fmt.Sprintf("Decode(Encode(x)) != x when the destination of %s held another value before: %s", s.what, diff))
			return
		}
		enc, err := s.reenc(dst)
		if err != nil || !s.sameEnc(enc, x) {
			w["reencoding"] = Hx(enc)
			bad(fmt.Sprintf("re-encoding of the reused %s destination != reference encoding of the decoded message (err=%v)", s.what, err))
			return
		}
	}
	c.Distinct(sig)
}

// chain draws v1 (gen), v0 = other(v1) and v2.. = other(previous): k decodes over one destination.
func chain[M any](r *vcommon.Rand, gen func() M, other func(M) M) []M {
	k := r.Range(1, 3)
	x := gen()
	vals := []M{other(x), x}
	for len(vals) < k+1 {
		vals = append(vals, other(vals[len(vals)-1]))
	}
	return vals
}

func lenClass(prev, x int, name string) []string {
	switch {
	case x == 0 && prev > 0:
		return []string{name + "_empty_over_nonempty", name + "_shorter_over_longer"}
	case x < prev:
		return []string{name + "_shorter_over_longer"}
	case x > prev:
		return []string{name + "_longer_over_shorter"}
	}
	return nil
}

// ---------------------------------------------------------------- SCALE types

func headerSpec(r *vcommon.Rand) reuseSpec[Header] {
	return reuseSpec[Header]{
		what: "Header",
		build: func(h Header) (any, error) {
			g, err := toHeader(h)
			if err == nil && r.Bool() {
				g.Hash() // the destination has a cached hash of the OLD fields
			}
			return g, err
		},
		inputs: func(h Header) ([][]byte, error) { return [][]byte{h.Ref()}, nil },
		decode: scaleDecode,
		same: func(dst any, x Header) (bool, string) {
			want, err := toHeader(x)
			if err != nil {
				return false, err.Error()
			}
			got := dst.(*types.Header)
			if !equal(*got, *want) {
				return false, "fields differ"
			}
			if hw := common.Hash(vcommon.Blake256(x.Ref())); got.Hash() != hw {
				return false, "Hash() = " + got.Hash().String() + " want " + hw.String()
			}
			return true, ""
		},
		reenc:   scaleReenc,
		sameEnc: func(got []byte, x Header) bool { return bytes.Equal(got, x.Ref()) },
		shape:   func(h Header) string { return "Header{" + h.Shape() + "}" },
		classes: func(p, x Header) []string { return lenClass(len(p.Digest), len(x.Digest), "header_digest") },
	}
}

func bodySpec() reuseSpec[Body] {
	return reuseSpec[Body]{
		what:   "Body",
		build:  func(b Body) (any, error) { g := toBody(b); return &g, nil },
		inputs: func(b Body) ([][]byte, error) { return [][]byte{b.Ref()}, nil },
		decode: scaleDecode,
		same: func(dst any, x Body) (bool, string) {
			return equal(*dst.(*types.Body), toBody(x)), "extrinsics differ"
		},
		reenc:   scaleReenc,
		sameEnc: func(got []byte, x Body) bool { return bytes.Equal(got, x.Ref()) },
		shape:   func(b Body) string { return fmt.Sprintf("Body{%d extrinsics}", len(b)) },
		classes: func(p, x Body) []string { return lenClass(len(p), len(x), "body") },
	}
}

// vdtSpec: a SCALE varying data type value (types.BabeDigest, BabeConsensusDigest, GrandpaConsensusDigest):
// the destination holds (mostly) another variant.
func vdtSpec[M any, V any](what string, newV func() V, set func(*V, any) error, val func(M) any, ref func(M) []byte, kind func(M) int,
	nAuth func(M) int) reuseSpec[M] {
	mk := func(m M) (*V, error) {
		v := newV()
		if err := set(&v, val(m)); err != nil {
			return nil, err
		}
		return &v, nil
	}
	return reuseSpec[M]{
		what:   what,
		build:  func(m M) (any, error) { return mk(m) },
		inputs: func(m M) ([][]byte, error) { return [][]byte{ref(m)}, nil },
		decode: scaleDecode,
		same: func(dst any, x M) (bool, string) {
			want, err := mk(x)
			if err != nil {
				return false, err.Error()
			}
			return equal(*dst.(*V), *want), "variant or fields differ"
		},
		reenc:   scaleReenc,
		sameEnc: func(got []byte, x M) bool { return bytes.Equal(got, ref(x)) },
		shape:   func(m M) string { return fmt.Sprintf("%s{variant %d, %d authorities}", what, kind(m), nAuth(m)) },
		classes: func(p, x M) []string {
			if kind(p) != kind(x) {
				return []string{"vdt_other_variant_in_destination"}
			}
			return lenClass(nAuth(p), nAuth(x), "vdt_authorities")
		},
	}
}

func babePreSpec() reuseSpec[BabePre] {
	return vdtSpec[BabePre, types.BabeDigest]("BabePreDigest", types.NewBabeDigest,
		func(v *types.BabeDigest, x any) error { return v.SetValue(x) }, func(p BabePre) any { return toBabePre(p) },
		BabePre.Ref, func(p BabePre) int { return p.Kind }, func(BabePre) int { return 0 })
}

func babeConsSpec() reuseSpec[BabeCons] {
	return vdtSpec[BabeCons, types.BabeConsensusDigest]("BabeConsensusDigest", types.NewBabeConsensusDigest,
		func(v *types.BabeConsensusDigest, x any) error { return v.SetValue(x) }, func(b BabeCons) any { return toBabeCons(b) },
		BabeCons.Ref, func(b BabeCons) int { return b.Kind }, func(b BabeCons) int { return len(b.Auths) })
}

func grandpaConsSpec() reuseSpec[GrandpaCons] {
	return vdtSpec[GrandpaCons, types.GrandpaConsensusDigest]("GrandpaConsensusDigest", types.NewGrandpaConsensusDigest,
		func(v *types.GrandpaConsensusDigest, x any) error { return v.SetValue(x) }, func(g GrandpaCons) any { return toGrandpaCons(g) },
		GrandpaCons.Ref, func(g GrandpaCons) int { return g.Kind }, func(g GrandpaCons) int { return len(g.Auths) })
}

// plainSpec: a plain SCALE struct built from a justification model (lib/grandpa Vote, SignedVote, Commit, Justification).
func plainSpec[G any](what string, mk func(Justification) G, ref func(Justification) []byte) reuseSpec[Justification] {
	return reuseSpec[Justification]{
		what:   what,
		build:  func(j Justification) (any, error) { g := mk(j); return &g, nil },
		inputs: func(j Justification) ([][]byte, error) { return [][]byte{ref(j)}, nil },
		decode: scaleDecode,
		same: func(dst any, x Justification) (bool, string) {
			return equal(*dst.(*G), mk(x)), "fields differ"
		},
		reenc:   scaleReenc,
		sameEnc: func(got []byte, x Justification) bool { return bytes.Equal(got, ref(x)) },
		shape:   func(j Justification) string { return fmt.Sprintf("%s{%d precommits}", what, len(j.Commit.Precommits)) },
		classes: func(p, x Justification) []string {
			return lenClass(len(p.Commit.Precommits), len(x.Commit.Precommits), "precommits")
		},
	}
}

func libCommit(j Justification) grandpa.Commit {
	return grandpa.Commit{Hash: j.Commit.Target.Hash, Number: uint32(j.Commit.Target.Number), Precommits: toSignedVotes(j.Commit.Precommits)}
}

func firstSigned(j Justification) SignedVote {
	if len(j.Commit.Precommits) > 0 {
		return j.Commit.Precommits[0]
	}
	return SignedVote{Vote: j.Commit.Target}
}

func primCommitSpec[N pruntime.Number](wide bool, label string) reuseSpec[Justification] {
	s := plainSpec("primitives.Commit["+label+"]", func(j Justification) pgrandpa.Commit[hash.H256, N] { return toPCommit[N](j.Commit) },
		func(j Justification) []byte { return j.Commit.Ref(wide) })
	// H256 decodes the zero hash as "": compare through the model like the fresh round trip does
	s.same = func(dst any, x Justification) (bool, string) {
		return commitEq(fromPCommit(*dst.(*pgrandpa.Commit[hash.H256, N])), x.Commit), "commit differs"
	}
	// Observed on the unchanged tree: H256.UnmarshalSCALE assigns only when the wire hash is non-zero ("" stands
	// for the zero hash), and pkg/scale's decodeStruct seeds every field with the destination's old value, so a
	// reused Commit keeps its old TargetHash when the message's target hash is 32 zero bytes. Production decodes
	// primitives.Commit only inside fresh values (DecodeJustification's private struct, the warp-sync proof):
	// counted. The predicate is narrow: the message's target hash is zero AND the destination equals the message
	// once its TargetHash is cleared; any other stale part still refutes.
	s.excuse = func(dst any, x Justification) string {
		got := *dst.(*pgrandpa.Commit[hash.H256, N])
		if x.Commit.Target.Hash != ([32]byte{}) || got.TargetHash == "" {
			return ""
		}
		got.TargetHash = ""
		if !commitEq(fromPCommit(got), x.Commit) {
			return ""
		}
		return "reuse_stale_primitives.Commit_zero_target_hash"
	}
	return s
}

// pHeaderEq compares a decoded internal/primitives header with its model (as checkPrimitive does).
func pHeaderEq[N pruntime.Number](a pruntime.Header[N, hash.H256], hm Header) (bool, string) {
	dg, err := fromPDigest(a.Digest())
	if err != nil {
		return false, err.Error()
	}
	if uint64(a.Number()) != hm.Number || back32(a.ParentHash()) != hm.Parent || back32(a.StateRoot()) != hm.StateRoot ||
		back32(a.ExtrinsicsRoot()) != hm.ExtRoot || !digestEq(dg, hm.Digest) {
		return false, "fields differ"
	}
	if want := vcommon.Blake256(hm.Ref()); back32(a.Hash()) != want {
		return false, "Hash() != BLAKE2b-256(reference encoding)"
	}
	return true, ""
}

// genericHeaderSpec: the vote-ancestry header type of internal/primitives (custom UnmarshalSCALE, unexported
// fields): the destination is a header that already decoded another header.
func genericHeaderSpec[N pruntime.Number](label string) reuseSpec[Header] {
	return reuseSpec[Header]{
		what: "generic.Header[" + label + "]",
		build: func(h Header) (any, error) {
			g := new(generic.Header[N, hash.H256, pruntime.BlakeTwo256])
			return g, scale.Unmarshal(h.Ref(), g)
		},
		inputs: func(h Header) ([][]byte, error) { return [][]byte{h.Ref()}, nil },
		decode: scaleDecode,
		same: func(dst any, x Header) (bool, string) {
			return pHeaderEq[N](dst.(*generic.Header[N, hash.H256, pruntime.BlakeTwo256]), x)
		},
		reenc:   scaleReenc,
		sameEnc: func(got []byte, x Header) bool { return bytes.Equal(got, x.Ref()) },
		shape:   func(h Header) string { return "generic.Header{" + h.Shape() + "}" },
		classes: func(p, x Header) []string { return lenClass(len(p.Digest), len(x.Digest), "pheader_digest") },
	}
}

// ---------------------------------------------------------------- GRANDPA gossip

func gossipShape(g Gossip) string {
	return fmt.Sprintf("gossip{kind %d, %d precommits, %d auth data, %d/%d catch-up votes}", g.Kind, len(g.Precommits), len(g.AuthData),
		len(g.Prevotes), len(g.PCs))
}

func gossipClasses(p, x Gossip) []string {
	if p.Kind != x.Kind {
		return []string{"gossip_other_kind_in_destination"}
	}
	return append(lenClass(len(p.Precommits), len(x.Precommits), "gossip_precommits"),
		lenClass(len(p.Prevotes)+len(p.PCs), len(x.Prevotes)+len(x.PCs), "gossip_catchup_votes")...)
}

// gossipStructSpec decodes the body of a gossip message (the bytes after the variant index; neighbour: after index
// and version) over the exported message struct of the same kind.
func gossipStructSpec() reuseSpec[Gossip] {
	body := func(g Gossip) []byte {
		if g.Kind == 2 {
			return g.Ref()[2:]
		}
		return g.Ref()[1:]
	}
	return reuseSpec[Gossip]{
		what:   "gossip message struct",
		build:  func(g Gossip) (any, error) { return toGossip(g), nil }, // already a pointer to a fresh struct
		inputs: func(g Gossip) ([][]byte, error) { return [][]byte{body(g)}, nil },
		decode: scaleDecode,
		same: func(dst any, x Gossip) (bool, string) {
			return equal(dst, any(toGossip(x))), "fields differ"
		},
		reenc: func(dst any) ([]byte, error) {
			cm, err := dst.(grandpa.GrandpaMessage).ToConsensusMessage()
			if err != nil {
				return nil, err
			}
			return cm.Data, nil
		},
		sameEnc: func(got []byte, x Gossip) bool { return bytes.Equal(got, x.Ref()) },
		shape:   gossipShape,
		classes: gossipClasses,
	}
}

// gossipVDTSpec decodes whole gossip messages over ONE value of the (unexported) message union that
// decodeMessage decodes into: the destination holds a message of any kind.
func gossipVDTSpec() reuseSpec[Gossip] {
	value := func(dst any) (any, error) {
		v, err := dst.(scale.VaryingDataType).Value()
		if err != nil {
			return nil, err
		}
		if np, ok := v.(grandpa.VersionedNeighbourPacket); ok {
			return np.Value()
		}
		return v, nil
	}
	return reuseSpec[Gossip]{
		what: "gossip message union",
		build: func(g Gossip) (any, error) {
			d := grandpa.VerifNewGrandpaMessage()
			return d, scale.Unmarshal(g.Ref(), d)
		},
		inputs: func(g Gossip) ([][]byte, error) { return [][]byte{g.Ref()}, nil },
		decode: scaleDecode,
		same: func(dst any, x Gossip) (bool, string) {
			v, err := value(dst)
			if err != nil {
				return false, err.Error()
			}
			return equal(v, deref(toGossip(x))), fmt.Sprintf("holds %+v", v)
		},
		reenc:   scaleReenc,
		sameEnc: func(got []byte, x Gossip) bool { return bytes.Equal(got, x.Ref()) },
		shape:   gossipShape,
		classes: gossipClasses,
	}
}

// ---------------------------------------------------------------- protobuf request / response

func pbSameFields(a, b []byte) bool {
	fa, ea := PbParse(a)
	fb, eb := PbParse(b)
	return ea == nil && eb == nil && PbCanon(fa) == PbCanon(fb)
}

// pbSameBlocks: the same sequence of blocks, every block with the same fields (field order free).
func pbSameBlocks(a, b []byte) bool {
	fa, ea := PbParse(a)
	fb, eb := PbParse(b)
	if ea != nil || eb != nil || len(fa) != len(fb) {
		return false
	}
	for i := range fa {
		if fa[i].Num != 1 || fa[i].Wt != 2 || fb[i].Num != 1 || fb[i].Wt != 2 || !pbSameFields(fa[i].Data, fb[i].Data) {
			return false
		}
	}
	return true
}

func blockRequestSpec() reuseSpec[BlockRequest] {
	return reuseSpec[BlockRequest]{
		what:  "BlockRequestMessage",
		build: func(q BlockRequest) (any, error) { return toBlockRequest(q), nil },
		inputs: func(q BlockRequest) ([][]byte, error) {
			enc, err := toBlockRequest(q).Encode()
			return [][]byte{q.Ref(), enc}, err
		},
		decode: func(dst any, in []byte) error { return dst.(*messages.BlockRequestMessage).Decode(in) },
		same: func(dst any, x BlockRequest) (bool, string) {
			got, want := dst.(*messages.BlockRequestMessage), toBlockRequest(x)
			if (got.Max == nil) != (want.Max == nil) {
				if got.Max != nil {
					return false, fmt.Sprintf("Max = %d although the message carries no max_blocks", *got.Max)
				}
				return false, "Max is nil although the message carries max_blocks"
			}
			return equal(got, want), "fields differ: " + got.String() + " want " + want.String()
		},
		reenc:   func(dst any) ([]byte, error) { return dst.(*messages.BlockRequestMessage).Encode() },
		sameEnc: func(got []byte, x BlockRequest) bool { return pbSameFields(got, x.Ref()) },
		shape: func(q BlockRequest) string {
			return fmt.Sprintf("BlockRequest{fromHash %v, direction %d, max %d, fields %d}", q.FromHash, q.Direction, q.Max, q.Fields)
		},
		classes: func(p, x BlockRequest) []string {
			var out []string
			switch {
			case p.Max != 0 && x.Max == 0:
				out = append(out, "blockreq_nomax_over_max")
			case p.Max == 0 && x.Max != 0:
				out = append(out, "blockreq_max_over_nomax")
			}
			if p.FromHash != x.FromHash {
				out = append(out, "blockreq_other_oneof_member")
			}
			if p.Direction != 0 && x.Direction == 0 {
				out = append(out, "blockreq_default_direction_over_descending")
			}
			return out
		},
	}
}

func toBlockResponse(r BlockResponse) (in, out *messages.BlockResponseMessage, err error) {
	in, out = &messages.BlockResponseMessage{BlockData: []*types.BlockData{}}, &messages.BlockResponseMessage{BlockData: []*types.BlockData{}}
	for _, b := range r {
		i, o, err := toBlockData(b)
		if err != nil {
			return nil, nil, err
		}
		in.BlockData, out.BlockData = append(in.BlockData, i), append(out.BlockData, o)
	}
	return in, out, nil
}

func present(p *[]byte) int {
	switch {
	case p == nil:
		return 0
	case len(*p) == 0:
		return 1
	}
	return 2
}

func blockResponseSpec() reuseSpec[BlockResponse] {
	return reuseSpec[BlockResponse]{
		what:  "BlockResponseMessage",
		build: func(r BlockResponse) (any, error) { in, _, err := toBlockResponse(r); return in, err },
		inputs: func(r BlockResponse) ([][]byte, error) {
			in, _, err := toBlockResponse(r)
			if err != nil {
				return nil, err
			}
			enc, err := in.Encode()
			return [][]byte{r.Ref(), enc}, err
		},
		decode: func(dst any, in []byte) error { return dst.(*messages.BlockResponseMessage).Decode(in) },
		same: func(dst any, x BlockResponse) (bool, string) {
			_, want, err := toBlockResponse(x)
			if err != nil {
				return false, err.Error()
			}
			return equal(dst.(*messages.BlockResponseMessage), want), "block data differ (modulo proto3 empty/absent)"
		},
		reenc:   func(dst any) ([]byte, error) { return dst.(*messages.BlockResponseMessage).Encode() },
		sameEnc: func(got []byte, x BlockResponse) bool { return pbSameBlocks(got, x.Ref()) },
		shape: func(r BlockResponse) string {
			s := fmt.Sprintf("BlockResponse{%d blocks:", len(r))
			for _, b := range r {
				nb := -1
				if b.Body != nil {
					nb = len(*b.Body)
				}
				s += fmt.Sprintf(" [header %v body %d r%d m%d j%d]", b.Header != nil, nb, present(b.Receipt), present(b.MessageQueue),
					present(b.Justification))
			}
			return s + "}"
		},
		classes: func(p, x BlockResponse) []string {
			out := lenClass(len(p), len(x), "blockresp_blocks")
			for i := 0; i < len(p) && i < len(x); i++ {
				if p[i].Justification != nil && x[i].Justification == nil {
					out = append(out, "blockresp_no_justification_over_justification")
				}
				if present(p[i].Justification) == 2 && present(x[i].Justification) == 1 {
					out = append(out, "blockresp_empty_justification_over_justification")
				}
				if p[i].Header != nil && x[i].Header == nil {
					out = append(out, "blockresp_no_header_over_header")
				}
				if p[i].Body != nil && len(*p[i].Body) > 0 && (x[i].Body == nil || len(*x[i].Body) == 0) {
					out = append(out, "blockresp_no_body_over_body")
				}
				if present(p[i].Receipt) == 2 && present(x[i].Receipt) < 2 {
					out = append(out, "blockresp_no_receipt_over_receipt")
				}
			}
			return out
		},
	}
}

// scaleBlockDataSpec: types.BlockData through pkg/scale (Option fields). No production code marshals BlockData
// (block responses are protobuf), so this is an observation of pkg/scale's in-place Option decoding only.
func scaleBlockDataSpec() reuseSpec[BlockData] {
	mk := func(b BlockData) (*types.BlockData, error) { in, _, err := toBlockData(b); return in, err }
	ref := func(b BlockData) []byte {
		opt := func(p *[]byte) []byte {
			if p == nil {
				return []byte{0}
			}
			return cat([]byte{1}, Bytes(*p))
		}
		out := cat(b.Hash[:])
		if b.Header == nil {
			out = append(out, 0)
		} else {
			out = cat(out, []byte{1}, b.Header.Ref())
		}
		if b.Body == nil {
			out = append(out, 0)
		} else {
			out = cat(out, []byte{1}, b.Body.Ref())
		}
		return cat(out, opt(b.Receipt), opt(b.MessageQueue), opt(b.Justification))
	}
	return reuseSpec[BlockData]{
		what:    "types.BlockData (SCALE)",
		build:   func(b BlockData) (any, error) { return mk(b) },
		inputs:  func(b BlockData) ([][]byte, error) { return [][]byte{ref(b)}, nil },
		decode:  scaleDecode,
		reenc:   scaleReenc,
		sameEnc: func(got []byte, x BlockData) bool { return bytes.Equal(got, ref(x)) },
		same: func(dst any, x BlockData) (bool, string) {
			want, err := mk(x)
			if err != nil {
				return false, err.Error()
			}
			return equal(dst.(*types.BlockData), want), "an Option field keeps the old value"
		},
		shape: func(b BlockData) string {
			return fmt.Sprintf("BlockData{header %v body %v r%d m%d j%d}", b.Header != nil, b.Body != nil, present(b.Receipt), present(b.MessageQueue),
				present(b.Justification))
		},
		classes: func(p, x BlockData) []string {
			if (p.Header != nil && x.Header == nil) || (p.Body != nil && x.Body == nil) || (p.Justification != nil && x.Justification == nil) {
				return []string{"scale_blockdata_none_over_some"}
			}
			return nil
		},
		excuse: func(any, BlockData) string { return "reuse_stale_BlockData_scale" },
	}
}

// ---------------------------------------------------------------- corpus + driver

type fixedReuse struct {
	name string
	run  func(c *vcommon.Case)
}

func fixedReuses() []fixedReuse {
	num := func(n, max uint32) BlockRequest { return BlockRequest{Fields: 1, Number: n, Max: max} }
	e, j, rc := []byte{}, []byte{1, 2, 3}, []byte{9}
	h := Header{Number: 7, Digest: []DigestItem{{Kind: KindSeal, Engine: engines[0], Data: make([]byte, 64)}}}
	bd := Body{{1, 2}}
	full := BlockData{Hash: [32]byte{1}, Header: &h, Body: &bd, Receipt: &rc, MessageQueue: &rc, Justification: &j}
	bare := BlockData{Hash: [32]byte{2}}
	emptyJ := BlockData{Hash: [32]byte{3}, Justification: &e}
	h3 := Header{Number: 9, Digest: []DigestItem{{Kind: KindPreRuntime, Engine: engines[0], Data: []byte{1}}, {Kind: KindRuntimeEnv},
		{Kind: KindOther, Data: []byte{2}}}}
	return []fixedReuse{
		// the minimal witness of the missed seeded change: a request with max_blocks, then one without, into one value
		{"request without max over request with max", func(c *vcommon.Case) {
			runReuse(c, blockRequestSpec(), []BlockRequest{num(1, 1), num(1, 0)})
		}},
		{"request max / no max / max / no max", func(c *vcommon.Case) {
			runReuse(c, blockRequestSpec(), []BlockRequest{num(1, 0), num(2, 128), num(3, 0), num(4, 64), num(5, 0)})
		}},
		{"request by number (ascending, no max) over request by hash (descending, max)", func(c *vcommon.Case) {
			runReuse(c, blockRequestSpec(), []BlockRequest{{Fields: 19, FromHash: true, Hash: make([]byte, 32), Direction: 1, Max: 5}, {Number: 0}})
		}},
		{"bare block over full block", func(c *vcommon.Case) {
			runReuse(c, blockResponseSpec(), []BlockResponse{{full}, {bare}, {full}, {emptyJ}})
		}},
		{"empty response over two blocks", func(c *vcommon.Case) {
			runReuse(c, blockResponseSpec(), []BlockResponse{{full, full}, {}, {bare}})
		}},
		{"header with empty digest over header with three items", func(c *vcommon.Case) {
			runReuse(c, headerSpec(c.R), []Header{h3, {Number: 1}, h, h3})
		}},
		{"empty body over body", func(c *vcommon.Case) { runReuse(c, bodySpec(), []Body{{{1}, {2, 3}}, {}, {{}}}) }},
		{"generic header with empty digest over header with three items", func(c *vcommon.Case) {
			runReuse(c, genericHeaderSpec[uint32]("u32"), []Header{h3, {Number: 1}, h3})
		}},
		{"commit without precommits over commit with precommits", func(c *vcommon.Case) {
			with := Justification{Round: 1, Commit: Commit{Target: Vote{Number: 4}, Precommits: []SignedVote{{}, {}}}}
			none := Justification{Round: 2, Commit: Commit{Target: Vote{Number: 5}, Precommits: []SignedVote{}}}
			runReuse(c, plainSpec("Commit", libCommit, func(j Justification) []byte { return j.Commit.Ref(false) }), []Justification{with, none, with})
			runReuse(c, primCommitSpec[uint32](false, "u32"), []Justification{with, none, with})
		}},
		{"SCALE BlockData: all None over all Some (observation)", func(c *vcommon.Case) {
			runReuse(c, scaleBlockDataSpec(), []BlockData{full, bare})
		}},
	}
}

func checkReuse(r *vcommon.Run, n int) {
	// every type is reused at least 100 times; every "less over more" transition the class is about at least 10 times
	for _, f := range []string{"Header", "Body", "BabePreDigest", "BabeConsensusDigest", "GrandpaConsensusDigest", "Vote", "SignedVote", "Commit",
		"Justification", "primitives.Commit[u32]", "primitives.Commit[u64]", "generic.Header[u32]", "generic.Header[u64]", "gossip message struct",
		"gossip message union", "BlockRequestMessage", "BlockResponseMessage"} {
		r.Floor("reuse_rt:"+f, 100)
	}
	for _, f := range []string{"blockreq_nomax_over_max", "blockreq_max_over_nomax", "blockreq_other_oneof_member",
		"blockreq_default_direction_over_descending", "blockresp_blocks_shorter_over_longer", "blockresp_blocks_empty_over_nonempty",
		"blockresp_no_justification_over_justification", "blockresp_empty_justification_over_justification",
		"blockresp_no_header_over_header", "blockresp_no_body_over_body", "blockresp_no_receipt_over_receipt",
		"header_digest_shorter_over_longer", "header_digest_empty_over_nonempty", "body_empty_over_nonempty",
		"vdt_other_variant_in_destination", "vdt_authorities_shorter_over_longer", "precommits_empty_over_nonempty",
		"gossip_other_kind_in_destination", "gossip_precommits_shorter_over_longer", "gossip_catchup_votes_shorter_over_longer",
		"pheader_digest_shorter_over_longer"} {
		r.Floor("reuse_"+f, 10)
	}
	fr := fixedReuses()
	r.Fixed("reuse", len(fr), func(c *vcommon.Case) {
		c.Sample(map[string]any{"type": "reuse", "scenario": fr[c.Idx].name})
		fr[c.Idx].run(c)
	})

	r.Cases("reuse_header", n, func(c *vcommon.Case) {
		runReuse(c, headerSpec(c.R), chain(c.R, func() Header { return GenHeader(c.R, true) }, func(x Header) Header { return GenHeaderOther(c.R, x) }))
	})
	r.Cases("reuse_body", n/2, func(c *vcommon.Case) {
		runReuse(c, bodySpec(), chain(c.R, func() Body { return GenBody(c.R) }, func(x Body) Body { return GenBodyOther(c.R, x) }))
		// entry points that allocate the destination themselves cannot be reused
		c.Count("reuse_excluded_fresh_api:NewBodyFromBytes,NewBodyFromEncodedBytes", 1)
	})
	r.Cases("reuse_digests", n, func(c *vcommon.Case) {
		runReuse(c, babePreSpec(), chain(c.R, func() BabePre { return GenBabePre(c.R) }, func(x BabePre) BabePre { return GenBabePreOther(c.R, x) }))
		runReuse(c, babeConsSpec(), chain(c.R, func() BabeCons { return GenBabeCons(c.R) }, func(x BabeCons) BabeCons { return GenBabeConsOther(c.R, x) }))
		runReuse(c, grandpaConsSpec(), chain(c.R, func() GrandpaCons { return GenGrandpaCons(c.R) },
			func(x GrandpaCons) GrandpaCons { return GenGrandpaConsOther(c.R, x) }))
		c.Count("reuse_excluded_fresh_api:DecodeBabePreDigest", 1)
	})
	r.Cases("reuse_votes", n, func(c *vcommon.Case) {
		js := chain(c.R, func() Justification { return GenJustification(c.R, false) },
			func(x Justification) Justification { return GenJustificationOther(c.R, x, false) })
		runReuse(c, plainSpec("Vote", func(j Justification) grandpa.Vote { return toVote(j.Commit.Target) },
			func(j Justification) []byte { return j.Commit.Target.Ref(false) }), js)
		runReuse(c, plainSpec("SignedVote", func(j Justification) grandpa.SignedVote { return toSignedVote(firstSigned(j)) },
			func(j Justification) []byte { return firstSigned(j).Ref(false) }), js)
		runReuse(c, plainSpec("Commit", libCommit, func(j Justification) []byte { return j.Commit.Ref(false) }), js)
		runReuse(c, plainSpec("Justification", func(j Justification) grandpa.Justification {
			return grandpa.Justification{Round: j.Round, Commit: libCommit(j)}
		}, Justification.RefShort), js)
		runReuse(c, primCommitSpec[uint32](false, "u32"), js)
		wide := chain(c.R, func() Justification { return GenJustification(c.R, true) },
			func(x Justification) Justification { return GenJustificationOther(c.R, x, true) })
		runReuse(c, primCommitSpec[uint64](true, "u64"), wide)
		// the vote-ancestry headers of the Substrate-format justification
		hs := chain(c.R, func() Header { return GenHeader(c.R, true) }, func(x Header) Header { return GenHeaderOther(c.R, x) })
		if c.Idx%2 == 0 {
			runReuse(c, genericHeaderSpec[uint32]("u32"), hs)
		} else {
			runReuse(c, genericHeaderSpec[uint64]("u64"), hs)
		}
		// DecodeJustification allocates its destination (a private decode type) on every call
		c.Count("reuse_excluded_fresh_api:DecodeJustification", 1)
	})
	r.Cases("reuse_gossip", n, func(c *vcommon.Case) {
		kind := c.Idx % 5
		runReuse(c, gossipStructSpec(), chain(c.R, func() Gossip { return GenGossip(c.R, kind) },
			func(x Gossip) Gossip { return GenGossipOther(c.R, x, kind) }))
		runReuse(c, gossipVDTSpec(), chain(c.R, func() Gossip { return GenGossip(c.R, kind) }, func(x Gossip) Gossip {
			k := x.Kind
			if c.R.Chance(2, 3) {
				k = c.R.Intn(5)
			}
			return GenGossipOther(c.R, x, k)
		}))
		c.Count("reuse_excluded_fresh_api:decodeMessage", 1)
	})
	r.Cases("reuse_blockreq", n, func(c *vcommon.Case) {
		runReuse(c, blockRequestSpec(), chain(c.R, func() BlockRequest { return GenBlockRequest(c.R) },
			func(x BlockRequest) BlockRequest { return GenBlockRequestOther(c.R, x) }))
	})
	r.Cases("reuse_blockresp", n, func(c *vcommon.Case) {
		runReuse(c, blockResponseSpec(), chain(c.R, func() BlockResponse { return GenBlockResponse(c.R, true) },
			func(x BlockResponse) BlockResponse { return GenBlockResponseOther(c.R, x, true) }))
		if c.Idx%4 == 0 {
			runReuse(c, scaleBlockDataSpec(), chain(c.R, func() BlockData { return GenBlockData(c.R, true) },
				func(x BlockData) BlockData { return GenBlockDataOther(c.R, x, true) }))
		}
	})
}
