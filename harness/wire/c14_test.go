//go:build verif

package wire

import (
	"bytes"
	"fmt"
	"reflect"
	"testing"

	"github.com/ChainSafe/gossamer/dot/network/messages"
	"github.com/ChainSafe/gossamer/dot/types"
	cgrandpa "github.com/ChainSafe/gossamer/internal/client/consensus/grandpa"
	pgrandpa "github.com/ChainSafe/gossamer/internal/primitives/consensus/grandpa"
	"github.com/ChainSafe/gossamer/internal/primitives/core/hash"
	pruntime "github.com/ChainSafe/gossamer/internal/primitives/runtime"
	"github.com/ChainSafe/gossamer/lib/common"
	"github.com/ChainSafe/gossamer/lib/crypto/ed25519"
	"github.com/ChainSafe/gossamer/lib/grandpa"
	fg "github.com/ChainSafe/gossamer/pkg/finality-grandpa"
	"github.com/ChainSafe/gossamer/pkg/scale"
	"github.com/ChainSafe/gossamer/zz_verif/vcommon"
)

// ---------------------------------------------------------------- structural equality (nil slice == empty slice)

// eqv compares two values structurally. Nil and empty slices are equal (SCALE
// and proto3 cannot tell them apart); the unexported hash cache of
// types.Header is ignored.
func eqv(a, b reflect.Value) bool {
	if a.IsValid() != b.IsValid() {
		return false
	}
	if !a.IsValid() {
		return true
	}
	if a.Type() != b.Type() {
		return false
	}
	switch a.Kind() {
	case reflect.Slice:
		if a.Len() != b.Len() {
			return false
		}
		for i := 0; i < a.Len(); i++ {
			if !eqv(a.Index(i), b.Index(i)) {
				return false
			}
		}
		return true
	case reflect.Array:
		for i := 0; i < a.Len(); i++ {
			if !eqv(a.Index(i), b.Index(i)) {
				return false
			}
		}
		return true
	case reflect.Struct:
		for i := 0; i < a.NumField(); i++ {
			f := a.Type().Field(i)
			if f.Name == "hash" && a.Type() == reflect.TypeOf(types.Header{}) {
				continue
			}
			if !eqv(a.Field(i), b.Field(i)) {
				return false
			}
		}
		return true
	case reflect.Ptr, reflect.Interface:
		if a.IsNil() || b.IsNil() {
			return a.IsNil() == b.IsNil()
		}
		return eqv(a.Elem(), b.Elem())
	case reflect.Bool:
		return a.Bool() == b.Bool()
	case reflect.Int, reflect.Int8, reflect.Int16, reflect.Int32, reflect.Int64:
		return a.Int() == b.Int()
	case reflect.Uint, reflect.Uint8, reflect.Uint16, reflect.Uint32, reflect.Uint64, reflect.Uintptr:
		return a.Uint() == b.Uint()
	case reflect.String:
		return a.String() == b.String()
	}
	panic("eqv: unsupported kind " + a.Kind().String())
}

func equal(a, b any) bool { return eqv(reflect.ValueOf(a), reflect.ValueOf(b)) }

// ---------------------------------------------------------------- model -> gossamer values

// otherDigest builds the value of DigestItem variant 0 without naming its type,
// so that the harness also compiles (and reports the defect) on a tree that has no such variant.
func otherDigest(data []byte) (any, error) {
	z, err := types.DigestItem{}.ValueAt(0)
	if err != nil {
		return nil, fmt.Errorf("DigestItem.ValueAt(0): %w", err)
	}
	v := reflect.New(reflect.TypeOf(z)).Elem()
	switch v.Kind() {
	case reflect.Slice:
		v.SetBytes(append([]byte{}, data...))
	case reflect.Struct:
		if v.NumField() != 1 || v.Field(0).Kind() != reflect.Slice {
			return nil, fmt.Errorf("unexpected shape of variant 0: %s", v.Type())
		}
		v.Field(0).SetBytes(append([]byte{}, data...))
	default:
		return nil, fmt.Errorf("unexpected kind of variant 0: %s", v.Type())
	}
	return v.Interface(), nil
}

func toDigest(items []DigestItem) (types.Digest, error) {
	d := types.NewDigest()
	for _, it := range items {
		var v any
		switch it.Kind {
		case KindPreRuntime:
			v = types.PreRuntimeDigest{ConsensusEngineID: it.Engine, Data: it.Data}
		case KindConsensus:
			v = types.ConsensusDigest{ConsensusEngineID: it.Engine, Data: it.Data}
		case KindSeal:
			v = types.SealDigest{ConsensusEngineID: it.Engine, Data: it.Data}
		case KindRuntimeEnv:
			v = types.RuntimeEnvironmentUpdated{}
		case KindOther:
			o, err := otherDigest(it.Data)
			if err != nil {
				return nil, err
			}
			v = o
		}
		if err := d.Add(v); err != nil {
			return nil, fmt.Errorf("Digest.Add(%T): %w", v, err)
		}
	}
	return d, nil
}

func toHeader(h Header) (*types.Header, error) {
	d, err := toDigest(h.Digest)
	if err != nil {
		return nil, err
	}
	return &types.Header{ParentHash: h.Parent, Number: uint(h.Number), StateRoot: h.StateRoot, ExtrinsicsRoot: h.ExtRoot, Digest: d}, nil
}

func toBody(b Body) types.Body {
	out := types.Body{}
	for _, e := range b {
		out = append(out, types.Extrinsic(e))
	}
	return out
}

func toBabePre(p BabePre) any {
	switch p.Kind {
	case 1:
		return types.BabePrimaryPreDigest{AuthorityIndex: p.AuthIndex, SlotNumber: p.Slot, VRFOutput: p.VRFOut, VRFProof: p.VRFProof}
	case 2:
		return types.BabeSecondaryPlainPreDigest{AuthorityIndex: p.AuthIndex, SlotNumber: p.Slot}
	}
	return types.BabeSecondaryVRFPreDigest{AuthorityIndex: p.AuthIndex, SlotNumber: p.Slot, VrfOutput: p.VRFOut, VrfProof: p.VRFProof}
}

func toBabeCons(b BabeCons) any {
	switch b.Kind {
	case 1:
		as := []types.AuthorityRaw{}
		for _, a := range b.Auths {
			as = append(as, types.AuthorityRaw{Key: a.Key, Weight: a.Weight})
		}
		return types.NextEpochData{Authorities: as, Randomness: b.Randomness}
	case 2:
		return types.BABEOnDisabled{ID: b.Disabled}
	}
	v := types.NewVersionedNextConfigData()
	_ = v.SetValue(types.NextConfigDataV1{C1: b.C1, C2: b.C2, SecondarySlots: b.Secondary})
	return v
}

func toGrandpaCons(g GrandpaCons) any {
	as := []types.GrandpaAuthoritiesRaw{}
	for _, a := range g.Auths {
		as = append(as, types.GrandpaAuthoritiesRaw{Key: a.Key, ID: a.Weight})
	}
	switch g.Kind {
	case 1:
		return types.GrandpaScheduledChange{Auths: as, Delay: g.Delay}
	case 2:
		return types.GrandpaForcedChange{BestFinalizedBlock: g.Best, Auths: as, Delay: g.Delay}
	case 3:
		return types.GrandpaOnDisabled{ID: g.Disabled}
	case 4:
		return types.GrandpaPause{Delay: g.Delay}
	}
	return types.GrandpaResume{Delay: g.Delay}
}

func toVote(v Vote) grandpa.Vote { return grandpa.Vote{Hash: v.Hash, Number: uint32(v.Number)} }

func toSignedVote(s SignedVote) grandpa.SignedVote {
	return grandpa.SignedVote{Vote: toVote(s.Vote), Signature: s.Sig, AuthorityID: ed25519.PublicKeyBytes(s.ID)}
}

func toSignedVotes(vs []SignedVote) []grandpa.SignedVote {
	out := []grandpa.SignedVote{}
	for _, v := range vs {
		out = append(out, toSignedVote(v))
	}
	return out
}

func toGossip(g Gossip) grandpa.GrandpaMessage {
	switch g.Kind {
	case 0:
		return &grandpa.VoteMessage{Round: g.Round, SetID: g.SetID, Message: grandpa.SignedMessage{
			Stage: grandpa.Subround(g.Stage), BlockHash: g.Vote.Hash, Number: uint32(g.Vote.Number), Signature: g.Sig,
			AuthorityID: ed25519.PublicKeyBytes(g.ID)}}
	case 1:
		m := &grandpa.CommitMessage{Round: g.Round, SetID: g.SetID, Vote: toVote(g.Vote), Precommits: []grandpa.Vote{},
			AuthData: []grandpa.AuthData{}}
		for _, v := range g.Precommits {
			m.Precommits = append(m.Precommits, toVote(v))
		}
		for _, a := range g.AuthData {
			m.AuthData = append(m.AuthData, grandpa.AuthData{Signature: a.Sig, AuthorityID: ed25519.PublicKeyBytes(a.ID)})
		}
		return m
	case 2:
		return &grandpa.NeighbourPacketV1{Round: g.Round, SetID: g.SetID, Number: g.Number}
	case 3:
		return &grandpa.CatchUpRequest{Round: g.Round, SetID: g.SetID}
	}
	return &grandpa.CatchUpResponse{SetID: g.SetID, Round: g.Round, PreVoteJustification: toSignedVotes(g.Prevotes),
		PreCommitJustification: toSignedVotes(g.PCs), Hash: g.Vote.Hash, Number: uint32(g.Vote.Number)}
}

func h256(b [32]byte) hash.H256 { return hash.H256(string(b[:])) }

// back32 pads the H256 convention "zero hash decodes to the empty string" back to 32 bytes.
func back32(h hash.H256) (out [32]byte) { copy(out[:], h.Bytes()); return }

func toPCommit[N pruntime.Number](c Commit) pgrandpa.Commit[hash.H256, N] {
	out := pgrandpa.Commit[hash.H256, N]{TargetHash: h256(c.Target.Hash), TargetNumber: N(c.Target.Number)}
	for _, p := range c.Precommits {
		out.Precommits = append(out.Precommits, fg.SignedPrecommit[hash.H256, N, pgrandpa.AuthoritySignature, pgrandpa.AuthorityID]{
			Precommit: fg.Precommit[hash.H256, N]{TargetHash: h256(p.Vote.Hash), TargetNumber: N(p.Vote.Number)},
			Signature: pgrandpa.AuthoritySignature(p.Sig), ID: pgrandpa.AuthorityID(p.ID)})
	}
	return out
}

func fromPCommit[N pruntime.Number](c pgrandpa.Commit[hash.H256, N]) Commit {
	out := Commit{Target: Vote{Hash: back32(c.TargetHash), Number: uint64(c.TargetNumber)}, Precommits: []SignedVote{}}
	for _, p := range c.Precommits {
		out.Precommits = append(out.Precommits, SignedVote{Vote: Vote{Hash: back32(p.Precommit.TargetHash),
			Number: uint64(p.Precommit.TargetNumber)}, Sig: [64]byte(p.Signature), ID: [32]byte(p.ID)})
	}
	return out
}

// fromPDigest maps a decoded internal/primitives digest back to the model.
func fromPDigest(d pruntime.Digest) ([]DigestItem, error) {
	out := []DigestItem{}
	for _, it := range d.Logs {
		switch v := it.(type) {
		case pruntime.PreRuntime:
			out = append(out, DigestItem{Kind: KindPreRuntime, Engine: v.ConsensusEngineID, Data: v.Bytes})
		case pruntime.Consensus:
			out = append(out, DigestItem{Kind: KindConsensus, Engine: v.ConsensusEngineID, Data: v.Bytes})
		case pruntime.Seal:
			out = append(out, DigestItem{Kind: KindSeal, Engine: v.ConsensusEngineID, Data: v.Bytes})
		case pruntime.Other:
			out = append(out, DigestItem{Kind: KindOther, Data: v})
		case pruntime.RuntimeEnvironmentUpdated:
			out = append(out, DigestItem{Kind: KindRuntimeEnv})
		default:
			return nil, fmt.Errorf("digest item of type %T", it)
		}
	}
	return out, nil
}

func digestEq(a, b []DigestItem) bool {
	if len(a) != len(b) {
		return false
	}
	for i := range a {
		if a[i].Kind != b[i].Kind || a[i].Engine != b[i].Engine || !bytes.Equal(a[i].Data, b[i].Data) {
			return false
		}
	}
	return true
}

func commitEq(a, b Commit) bool {
	if a.Target != b.Target || len(a.Precommits) != len(b.Precommits) {
		return false
	}
	for i := range a.Precommits {
		if a.Precommits[i] != b.Precommits[i] {
			return false
		}
	}
	return true
}

// ---------------------------------------------------------------- the monitor

type mon struct{ c *vcommon.Case }

// enc checks Marshal(x) == ref.
func (m mon) enc(what string, x any, ref []byte, w map[string]any) bool {
	m.c.Eval(1)
	got, err := scale.Marshal(x)
	if err != nil || !bytes.Equal(got, ref) {
		w["got"], w["ref"] = Hx(got), Hx(ref)
		m.c.Violation("encode:"+what, fmt.Sprintf("Marshal(%s) != reference encoding (err=%v)", what, err), w)
		return false
	}
	return true
}

// dec checks Unmarshal(ref) into dst (a pointer) == want.
func (m mon) dec(what string, dst any, want any, ref []byte, w map[string]any) bool {
	m.c.Eval(1)
	err := scale.Unmarshal(ref, dst)
	if err != nil {
		w["ref"] = Hx(ref)
		m.c.Violation("decode:"+what, fmt.Sprintf("Unmarshal(reference encoding of %s) failed: %v", what, err), w)
		return false
	}
	got := reflect.ValueOf(dst).Elem().Interface()
	if !equal(got, want) {
		w["ref"], w["got"], w["want"] = Hx(ref), fmt.Sprintf("%+v", got), fmt.Sprintf("%+v", want)
		m.c.Violation("decode:"+what, fmt.Sprintf("Unmarshal(reference encoding of %s) != value", what), w)
		return false
	}
	return true
}

func checkHeader(c *vcommon.Case, h Header) {
	m := mon{c}
	ref := h.Ref()
	w := map[string]any{"type": "Header", "ref": Hx(ref), "shape": h.Shape()}
	kinds := map[int]bool{}
	for _, d := range h.Digest {
		kinds[d.Kind] = true
		c.Count(fmt.Sprintf("digest_kind_%d", d.Kind), 1)
	}
	if len(h.Digest) == 0 {
		c.Count("header_empty_digest", 1)
	}
	c.Count("headers", 1)
	c.Distinct("H|" + h.Shape())
	gh, err := toHeader(h)
	c.Eval(1)
	if err != nil {
		c.Violation("represent:Header", "a spec-valid header cannot be represented: "+err.Error(), w)
		// the decoder is still exercised on the reference bytes
		var back types.Header
		c.Eval(1)
		if err := scale.Unmarshal(ref, &back); err != nil {
			c.Violation("decode:Header", "Unmarshal(reference encoding of Header) failed: "+err.Error(), w)
		}
		return
	}
	if !m.enc("Header", *gh, ref, w) {
		return
	}
	back := types.NewEmptyHeader()
	if !m.dec("Header", back, *gh, ref, w) {
		return
	}
	want := vcommon.Blake256(ref)
	c.Eval(3)
	if got := gh.Hash(); got != common.Hash(want) {
		w["hash"], w["want"] = got.String(), Hx(want[:])
		c.Violation("hash:Header", "Header.Hash() != BLAKE2b-256(reference encoding)", w)
	}
	if got := back.Hash(); got != common.Hash(want) {
		w["hash"], w["want"] = got.String(), Hx(want[:])
		c.Violation("hash:Header", "decoded Header.Hash() != BLAKE2b-256(reference encoding)", w)
	}
	// decoding into a header that already cached another hash must not keep the stale hash
	stale := types.NewHeader(common.Hash{1}, common.Hash{2}, common.Hash{3}, 77, types.NewDigest())
	if err := scale.Unmarshal(ref, stale); err != nil || stale.Hash() != common.Hash(want) {
		w["hash"], w["want"] = stale.Hash().String(), Hx(want[:])
		c.Violation("hash:Header", fmt.Sprintf("Hash() after decoding into a previously hashed header is stale (err=%v)", err), w)
	}
	if cp, err := gh.DeepCopy(); err == nil {
		c.Eval(1)
		if cp.Hash() != common.Hash(want) || !equal(*cp, *gh) {
			c.Violation("hash:Header", "DeepCopy changes the header or its hash", w)
		}
	}
	if len(kinds) >= 3 {
		c.Count("header_3plus_kinds", 1)
	}
	c.Sample(map[string]any{"type": "Header", "shape": h.Shape(), "ref_len": len(ref), "hash": gh.Hash().String()})
}

func checkBody(c *vcommon.Case, b Body) {
	m := mon{c}
	ref := b.Ref()
	w := map[string]any{"type": "Body", "ref": Hx(ref)}
	c.Count("bodies", 1)
	if len(b) == 0 {
		c.Count("body_empty", 1)
	}
	c.Distinct(fmt.Sprintf("B|%d|%d", len(Compact(uint64(len(b)))), len(ref)%7))
	gb := toBody(b)
	if !m.enc("Body", gb, ref, w) {
		return
	}
	var back types.Body
	m.dec("Body", &back, gb, ref, w)
	c.Eval(1)
	nb, err := types.NewBodyFromBytes(ref)
	if err != nil || !equal(*nb, gb) {
		c.Violation("decode:Body", fmt.Sprintf("NewBodyFromBytes(reference encoding) != body (err=%v)", err), w)
	}
	// the block-response path: each extrinsic individually SCALE-encoded
	c.Eval(1)
	encs, err := gb.AsEncodedExtrinsics()
	ok := err == nil && len(encs) == len(b)
	for i := 0; ok && i < len(b); i++ {
		ok = bytes.Equal(encs[i], Bytes(b[i]))
	}
	if !ok {
		c.Violation("encode:Body", fmt.Sprintf("AsEncodedExtrinsics != per-extrinsic reference encodings (err=%v)", err), w)
	} else if len(b) > 0 {
		raw := [][]byte{}
		for _, e := range encs {
			raw = append(raw, e)
		}
		nb2, err := types.NewBodyFromEncodedBytes(raw)
		c.Eval(1)
		if err != nil || !equal(*nb2, gb) {
			c.Violation("decode:Body", fmt.Sprintf("NewBodyFromEncodedBytes(AsEncodedExtrinsics) != body (err=%v)", err), w)
		}
	}
}

func checkBabePre(c *vcommon.Case, p BabePre) {
	m := mon{c}
	ref := p.Ref()
	w := map[string]any{"type": "BabePreDigest", "kind": p.Kind, "ref": Hx(ref)}
	c.Count(fmt.Sprintf("babe_pre_%d", p.Kind), 1)
	c.Distinct(fmt.Sprintf("BP|%d", p.Kind))
	v := toBabePre(p)
	d := types.NewBabeDigest()
	if err := d.SetValue(v); err != nil {
		c.Violation("represent:BabePreDigest", err.Error(), w)
		return
	}
	if !m.enc("BabePreDigest", d, ref, w) {
		return
	}
	back := types.NewBabeDigest()
	m.dec("BabePreDigest", &back, d, ref, w)
	c.Eval(2)
	got, err := types.DecodeBabePreDigest(ref)
	if err != nil || !equal(got, v) {
		c.Violation("decode:BabePreDigest", fmt.Sprintf("DecodeBabePreDigest(reference) != value (err=%v)", err), w)
	}
	var pr *types.PreRuntimeDigest
	switch x := v.(type) {
	case types.BabePrimaryPreDigest:
		pr, err = x.ToPreRuntimeDigest()
	case types.BabeSecondaryPlainPreDigest:
		pr, err = x.ToPreRuntimeDigest()
	case types.BabeSecondaryVRFPreDigest:
		pr, err = x.ToPreRuntimeDigest()
	}
	if err != nil || pr == nil || pr.ConsensusEngineID != types.BabeEngineID || !bytes.Equal(pr.Data, ref) {
		c.Violation("encode:BabePreDigest", fmt.Sprintf("ToPreRuntimeDigest != (BABE, reference) (err=%v)", err), w)
	}
}

func checkBabeCons(c *vcommon.Case, b BabeCons) {
	m := mon{c}
	ref := b.Ref()
	w := map[string]any{"type": "BabeConsensusDigest", "kind": b.Kind, "ref": Hx(ref)}
	c.Count(fmt.Sprintf("babe_cons_%d", b.Kind), 1)
	c.Distinct(fmt.Sprintf("BC|%d|%d", b.Kind, len(Compact(uint64(len(b.Auths))))))
	d := types.NewBabeConsensusDigest()
	if err := d.SetValue(toBabeCons(b)); err != nil {
		c.Violation("represent:BabeConsensusDigest", err.Error(), w)
		return
	}
	if !m.enc("BabeConsensusDigest", d, ref, w) {
		return
	}
	back := types.NewBabeConsensusDigest()
	m.dec("BabeConsensusDigest", &back, d, ref, w)
}

func checkGrandpaCons(c *vcommon.Case, g GrandpaCons) {
	m := mon{c}
	ref := g.Ref()
	w := map[string]any{"type": "GrandpaConsensusDigest", "kind": g.Kind, "ref": Hx(ref)}
	c.Count(fmt.Sprintf("grandpa_cons_%d", g.Kind), 1)
	c.Distinct(fmt.Sprintf("GC|%d|%d", g.Kind, len(Compact(uint64(len(g.Auths))))))
	d := types.NewGrandpaConsensusDigest()
	if err := d.SetValue(toGrandpaCons(g)); err != nil {
		c.Violation("represent:GrandpaConsensusDigest", err.Error(), w)
		return
	}
	if !m.enc("GrandpaConsensusDigest", d, ref, w) {
		return
	}
	back := types.NewGrandpaConsensusDigest()
	m.dec("GrandpaConsensusDigest", &back, d, ref, w)
}

func checkVotes(c *vcommon.Case, j Justification) {
	m := mon{c}
	c.Count("lib_justifications", 1)
	c.Distinct(fmt.Sprintf("LJ|%d", len(Compact(uint64(len(j.Commit.Precommits))))))
	v := toVote(j.Commit.Target)
	ref := j.Commit.Target.Ref(false)
	w := map[string]any{"type": "Vote", "ref": Hx(ref)}
	if m.enc("Vote", v, ref, w) {
		var back grandpa.Vote
		m.dec("Vote", &back, v, ref, w)
	}
	if len(j.Commit.Precommits) > 0 {
		sv := toSignedVote(j.Commit.Precommits[0])
		ref := j.Commit.Precommits[0].Ref(false)
		w := map[string]any{"type": "SignedVote", "ref": Hx(ref)}
		if m.enc("SignedVote", sv, ref, w) {
			var back grandpa.SignedVote
			m.dec("SignedVote", &back, sv, ref, w)
		}
		c.Count("signed_votes", 1)
	} else {
		c.Count("commit_no_precommits", 1)
	}
	cm := grandpa.Commit{Hash: j.Commit.Target.Hash, Number: uint32(j.Commit.Target.Number), Precommits: toSignedVotes(j.Commit.Precommits)}
	ref = j.Commit.Ref(false)
	w = map[string]any{"type": "Commit", "ref": Hx(ref)}
	if m.enc("Commit", cm, ref, w) {
		var back grandpa.Commit
		m.dec("Commit", &back, cm, ref, w)
	}
	ju := grandpa.Justification{Round: j.Round, Commit: cm}
	ref = j.RefShort()
	w = map[string]any{"type": "Justification", "ref": Hx(ref)}
	if m.enc("Justification", ju, ref, w) {
		var back grandpa.Justification
		m.dec("Justification", &back, ju, ref, w)
	}
}

func checkPrimitive[N pruntime.Number](c *vcommon.Case, j Justification, wide bool, label string) {
	m := mon{c}
	c.Count("prim_justifications_"+label, 1)
	c.Distinct(fmt.Sprintf("PJ|%s|%d|%d", label, len(Compact(uint64(len(j.Commit.Precommits)))), len(j.Ancestries)))
	pc := toPCommit[N](j.Commit)
	ref := j.Commit.Ref(wide)
	w := map[string]any{"type": "primitives.Commit[" + label + "]", "ref": Hx(ref)}
	if m.enc("primitives.Commit", pc, ref, w) {
		var back pgrandpa.Commit[hash.H256, N]
		c.Eval(1)
		if err := scale.Unmarshal(ref, &back); err != nil || !commitEq(fromPCommit(back), j.Commit) {
			c.Violation("decode:primitives.Commit", fmt.Sprintf("Unmarshal(reference) != commit (err=%v)", err), w)
		}
	}
	// justification: round, commit, vote ancestries (headers)
	ref = j.RefFull(wide)
	w = map[string]any{"type": "primitives.GrandpaJustification[" + label + "]", "ref": Hx(ref)}
	c.Eval(1)
	dj, err := cgrandpa.DecodeJustification[hash.H256, N, pruntime.BlakeTwo256](ref)
	if err != nil {
		c.Violation("decode:GrandpaJustification", "DecodeJustification(reference) failed: "+err.Error(), w)
		return
	}
	ok := dj.Justification.Round == j.Round && commitEq(fromPCommit(dj.Justification.Commit), j.Commit) &&
		len(dj.Justification.VoteAncestries) == len(j.Ancestries)
	for i := 0; ok && i < len(j.Ancestries); i++ {
		a, hm := dj.Justification.VoteAncestries[i], j.Ancestries[i]
		dg, derr := fromPDigest(a.Digest())
		ok = derr == nil && uint64(a.Number()) == hm.Number && back32(a.ParentHash()) == hm.Parent && back32(a.StateRoot()) == hm.StateRoot &&
			back32(a.ExtrinsicsRoot()) == hm.ExtRoot && digestEq(dg, hm.Digest)
		if len(hm.Digest) > 0 {
			c.Count("ancestry_header_with_digest", 1)
		}
		// header hash = BLAKE2b-256 of the header encoding
		c.Eval(1)
		if want := vcommon.Blake256(hm.Ref()); ok && back32(a.Hash()) != want {
			w["header"] = Hx(hm.Ref())
			c.Violation("hash:generic.Header", "generic.Header.Hash() != BLAKE2b-256(reference encoding)", w)
		}
	}
	if !ok {
		w["got"] = fmt.Sprintf("%+v", dj.Justification)
		c.Violation("decode:GrandpaJustification", "DecodeJustification(reference) != justification", w)
		return
	}
	// re-encoding of the decoded justification
	c.Eval(1)
	enc, err := scale.Marshal(dj.Justification)
	if err != nil || !bytes.Equal(enc, ref) {
		w["got"] = Hx(enc)
		c.Violation("encode:GrandpaJustification", fmt.Sprintf("Marshal(decoded justification) != reference (err=%v)", err), w)
	}
}

func checkGossip(c *vcommon.Case, g Gossip) {
	ref := g.Ref()
	w := map[string]any{"type": "grandpa gossip", "kind": g.Kind, "ref": Hx(ref)}
	c.Count(fmt.Sprintf("gossip_kind_%d", g.Kind), 1)
	c.Distinct(fmt.Sprintf("G|%d|%d|%d|%d", g.Kind, len(g.Precommits), len(g.Prevotes), len(g.PCs)))
	msg := toGossip(g)
	c.Eval(1)
	cm, err := msg.ToConsensusMessage()
	if err != nil || !bytes.Equal(cm.Data, ref) {
		if cm != nil {
			w["got"] = Hx(cm.Data)
		}
		c.Violation("encode:gossip", fmt.Sprintf("ToConsensusMessage().Data != reference (err=%v)", err), w)
		return
	}
	c.Eval(1)
	back, err := grandpa.VerifDecodeMessage(&grandpa.ConsensusMessage{Data: ref})
	if err != nil || !equal(back, msg) {
		w["got"] = fmt.Sprintf("%+v", back)
		c.Violation("decode:gossip", fmt.Sprintf("decodeMessage(reference) != message (err=%v)", err), w)
	}
}

// ---- protobuf

func toBlockRequest(q BlockRequest) *messages.BlockRequestMessage {
	m := &messages.BlockRequestMessage{RequestedData: q.Fields, Direction: messages.SyncDirection(q.Direction)}
	if q.FromHash {
		m.StartingBlock = *messages.NewFromBlock(common.BytesToHash(q.Hash))
	} else {
		m.StartingBlock = *messages.NewFromBlock(uint(q.Number))
	}
	if q.Max != 0 {
		mx := q.Max
		m.Max = &mx
	}
	return m
}

func checkBlockRequest(c *vcommon.Case, q BlockRequest) {
	ref := q.Ref()
	w := map[string]any{"type": "BlockRequestMessage", "ref": Hx(ref), "model": fmt.Sprintf("%+v", q)}
	c.Count("block_requests", 1)
	if q.Max == 0 {
		c.Count("block_request_no_max", 1)
	}
	c.Distinct(fmt.Sprintf("Q|%v|%d|%v|%d", q.FromHash, q.Direction, q.Max == 0, q.Fields))
	m := toBlockRequest(q)
	c.Eval(3)
	enc, err := m.Encode()
	if err != nil {
		c.Violation("encode:BlockRequest", err.Error(), w)
		return
	}
	fa, ea := PbParse(enc)
	fb, _ := PbParse(ref)
	if ea != nil || PbCanon(fa) != PbCanon(fb) {
		w["got"] = Hx(enc)
		c.Violation("encode:BlockRequest", fmt.Sprintf("Encode() carries other fields than the reference serialisation (parse err=%v)", ea), w)
		return
	}
	if bytes.Equal(enc, ref) {
		c.Count("pb_byte_identical", 1)
	} else {
		c.Count("pb_field_order_differs", 1)
		c.Count("pb_field_order_differs_request", 1)
		c.Sample(map[string]any{"type": "BlockRequest", "note": "same fields, other order", "encode": Hx(enc), "reference": Hx(ref)})
	}
	for _, in := range [][]byte{ref, enc} {
		back := new(messages.BlockRequestMessage)
		if err := back.Decode(in); err != nil || !equal(back, m) {
			w["got"] = fmt.Sprintf("%+v", back)
			c.Violation("decode:BlockRequest", fmt.Sprintf("Decode(serialisation) != message (err=%v)", err), w)
			return
		}
	}
}

// toBlockData returns the gossamer value and the value expected back after a
// proto3 round trip (documented equivalence: an empty optional bytes field and
// an empty repeated field are absent on the wire, so they come back as nil;
// an empty justification is preserved through is_empty_justification).
func toBlockData(b BlockData) (in, out *types.BlockData, err error) {
	in = &types.BlockData{Hash: b.Hash}
	out = &types.BlockData{Hash: b.Hash}
	if b.Header != nil {
		h, err := toHeader(*b.Header)
		if err != nil {
			return nil, nil, err
		}
		in.Header, out.Header = h, h
	}
	if b.Body != nil {
		bd := toBody(*b.Body)
		in.Body = &bd
		if len(bd) > 0 {
			out.Body = &bd
		}
	}
	opt := func(p *[]byte, keepEmpty bool) (i, o *[]byte) {
		if p == nil {
			return nil, nil
		}
		v := append([]byte{}, *p...)
		if len(v) == 0 && !keepEmpty {
			return &v, nil
		}
		return &v, &v
	}
	in.Receipt, out.Receipt = opt(b.Receipt, false)
	in.MessageQueue, out.MessageQueue = opt(b.MessageQueue, false)
	in.Justification, out.Justification = opt(b.Justification, true)
	return in, out, nil
}

func checkBlockResponse(c *vcommon.Case, r BlockResponse) {
	ref := r.Ref()
	w := map[string]any{"type": "BlockResponseMessage", "ref": Hx(ref)}
	c.Count("block_responses", 1)
	sh := fmt.Sprintf("R|%d|", len(r))
	in, out := &messages.BlockResponseMessage{BlockData: []*types.BlockData{}}, &messages.BlockResponseMessage{BlockData: []*types.BlockData{}}
	for _, b := range r {
		i, o, err := toBlockData(b)
		if err != nil {
			c.Eval(1)
			c.Violation("represent:BlockData", "a spec-valid block cannot be represented: "+err.Error(), w)
			return
		}
		in.BlockData, out.BlockData = append(in.BlockData, i), append(out.BlockData, o)
		sh += fmt.Sprintf("%v%v%v%v%v,", b.Header != nil, b.Body != nil, b.Receipt != nil, b.MessageQueue != nil, b.Justification != nil)
		if b.Justification != nil && len(*b.Justification) == 0 {
			c.Count("empty_justification", 1)
		}
		if b.Body != nil && len(*b.Body) == 0 {
			c.Count("proto3_empty_body_equiv", 1)
		}
		if (b.Receipt != nil && len(*b.Receipt) == 0) || (b.MessageQueue != nil && len(*b.MessageQueue) == 0) {
			c.Count("proto3_empty_bytes_equiv", 1)
		}
		if b.Header == nil {
			c.Count("blockdata_no_header", 1)
		}
	}
	c.Distinct(sh)
	c.Eval(3)
	enc, err := in.Encode()
	if err != nil {
		c.Violation("encode:BlockResponse", err.Error(), w)
		return
	}
	// compare block by block, field-order independent
	fa, ea := PbParse(enc)
	fb, _ := PbParse(ref)
	same := ea == nil && len(fa) == len(fb)
	for i := 0; same && i < len(fa); i++ {
		if fa[i].Num != 1 || fa[i].Wt != 2 {
			same = false
			break
		}
		ia, e1 := PbParse(fa[i].Data)
		ib, _ := PbParse(fb[i].Data)
		same = e1 == nil && PbCanon(ia) == PbCanon(ib)
	}
	if !same {
		w["got"] = Hx(enc)
		c.Violation("encode:BlockResponse", fmt.Sprintf("Encode() carries other fields than the reference serialisation (parse err=%v)", ea), w)
		return
	}
	if bytes.Equal(enc, ref) {
		c.Count("pb_byte_identical", 1)
	} else {
		c.Count("pb_field_order_differs", 1)
	}
	for _, inb := range [][]byte{ref, enc} {
		back := new(messages.BlockResponseMessage)
		if err := back.Decode(inb); err != nil || !equal(back, out) {
			w["got"] = fmt.Sprintf("%+v", back)
			c.Violation("decode:BlockResponse", fmt.Sprintf("Decode(serialisation) != message modulo proto3 empty/absent (err=%v)", err), w)
			return
		}
	}
}

// ---------------------------------------------------------------- corpus + driver

func otherHeader(data []byte, extra ...DigestItem) Header {
	h := Header{Number: 5, Digest: []DigestItem{{Kind: KindOther, Data: data}}}
	h.Parent[0], h.StateRoot[0], h.ExtRoot[0] = 1, 2, 3
	h.Digest = append(h.Digest, extra...)
	return h
}

func fixedHeaders() []Header {
	babe, frnk := [4]byte{'B', 'A', 'B', 'E'}, [4]byte{'F', 'R', 'N', 'K'}
	hs := []Header{
		{},                              // all zero, empty digest
		otherHeader([]byte{0xde, 0xad}), // minimal witness of the missing Other variant
		otherHeader(nil),
		otherHeader(bytes.Repeat([]byte{7}, 64)),
		otherHeader([]byte{1}, DigestItem{Kind: KindRuntimeEnv}, DigestItem{Kind: KindSeal, Engine: babe, Data: bytes.Repeat([]byte{9}, 64)}),
		{Number: 1<<32 - 1, Digest: []DigestItem{{Kind: KindRuntimeEnv}}},
		{Number: 1 << 30, Digest: []DigestItem{{Kind: KindPreRuntime, Engine: babe, Data: BabePre{Kind: 2, AuthIndex: 3, Slot: 99}.Ref()},
			{Kind: KindConsensus, Engine: frnk, Data: GrandpaCons{Kind: 4, Delay: 7}.Ref()},
			{Kind: KindConsensus, Engine: babe, Data: BabeCons{Kind: 2, Disabled: 1}.Ref()},
			{Kind: KindSeal, Engine: babe, Data: make([]byte, 64)}}},
	}
	for _, n := range boundaryNumbers {
		hs = append(hs, Header{Number: n})
	}
	for _, k := range digestKinds {
		hs = append(hs, Header{Number: 64, Digest: []DigestItem{{Kind: k}}})
	}
	return hs
}

func TestVerifC14(t *testing.T) {
	r := vcommon.Start(t, "C14")
	defer r.Finish()
	for _, k := range digestKinds {
		r.Floor(fmt.Sprintf("digest_kind_%d", k), 40)
	}
	for _, f := range []string{"header_empty_digest", "body_empty", "babe_pre_1", "babe_pre_2", "babe_pre_3", "babe_cons_1", "babe_cons_2",
		"babe_cons_3", "grandpa_cons_1", "grandpa_cons_2", "grandpa_cons_3", "grandpa_cons_4", "grandpa_cons_5", "lib_justifications",
		"prim_justifications_u32", "prim_justifications_u64", "gossip_kind_0", "gossip_kind_1", "gossip_kind_2", "gossip_kind_3", "gossip_kind_4",
		"block_requests", "block_request_no_max", "block_responses", "empty_justification", "proto3_empty_body_equiv", "blockdata_no_header",
		"commit_no_precommits", "ancestry_header_with_digest"} {
		r.Floor(f, 10)
	}
	if err := SelfCheck(vcommon.Blake256); err != nil {
		// the reference model is wrong: never alarm
		r.Cases("selfcheck", 1, func(c *vcommon.Case) { c.Inconclusive("reference encoder self-check failed: " + err.Error()) })
		return
	}

	fh := fixedHeaders()
	r.Fixed("header", len(fh), func(c *vcommon.Case) { checkHeader(c, fh[c.Idx]) })
	fb := []Body{{}, {{}}, {{}, {1}}, {bytes.Repeat([]byte{1}, 63), bytes.Repeat([]byte{2}, 64)}, {bytes.Repeat([]byte{3}, 16384)}}
	r.Fixed("body", len(fb), func(c *vcommon.Case) { checkBody(c, fb[c.Idx]) })
	r.Fixed("blockresp", 2, func(c *vcommon.Case) {
		e := []byte{}
		h := otherHeader([]byte{1, 2, 3})
		bd := Body{}
		resp := BlockResponse{{Hash: [32]byte{1}, Header: &h, Body: &bd, Justification: &e, Receipt: &e}}
		if c.Idx == 1 {
			resp = BlockResponse{}
		}
		checkBlockResponse(c, resp)
	})

	n := r.Scale(600)
	r.Cases("header", 3*n, func(c *vcommon.Case) { checkHeader(c, GenHeader(c.R, true)) })
	checkHeaderSeqs(r, 2*n)
	r.Cases("body", n, func(c *vcommon.Case) { checkBody(c, GenBody(c.R)) })
	r.Cases("babe", n, func(c *vcommon.Case) {
		checkBabePre(c, GenBabePre(c.R))
		checkBabeCons(c, GenBabeCons(c.R))
		checkGrandpaCons(c, GenGrandpaCons(c.R))
	})
	r.Cases("votes", n, func(c *vcommon.Case) {
		j := GenJustification(c.R, false)
		checkVotes(c, j)
		checkPrimitive[uint32](c, j, false, "u32")
		checkPrimitive[uint64](c, GenJustification(c.R, true), true, "u64")
	})
	r.Cases("gossip", n, func(c *vcommon.Case) { checkGossip(c, GenGossip(c.R, c.Idx%5)) })
	r.Cases("blockreq", n, func(c *vcommon.Case) { checkBlockRequest(c, GenBlockRequest(c.R)) })
	r.Cases("blockresp", n, func(c *vcommon.Case) { checkBlockResponse(c, GenBlockResponse(c.R, true)) })
	checkReuse(r, r.Scale(300))
	// compact commit (justificationToCompact / compactToJustification) and Block.Encode (c14_compact_test.go)
	checkCompactAndBlock(r, r.Scale(500))
}
