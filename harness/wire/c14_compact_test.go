//go:build verif

package wire

// C14 extension: two encoders that had no byte oracle.
//
//  1. The compact commit. A GRANDPA commit is held as (target, signed
//     precommits); what goes on the wire (CommitMessage, gossip index 1) is the
//     compact form of the Polkadot spec: the vector of precommit votes and the
//     vector of (signature, authority id) pairs, pairwise aligned: precommit i
//     belongs to auth data i. lib/grandpa converts with justificationToCompact
//     (sending: newCommitMessage) and compactToJustification (receiving:
//     handleCommitMessage, before the precommits are stored); both are
//     exported to the harness by inject/lib__grandpa/zz_verif_export.go.
//     Reference: CompactCommitRef, written from the model Commit.
//  2. types.Block.Encode / MustEncode: the argument of Core_execute_block
//     (lib/runtime/wazero ExecuteBlock) is the header encoding followed by the
//     body encoding. Reference: Ref(header) ++ Ref(body).

import (
	"bytes"
	"fmt"

	"github.com/ChainSafe/gossamer/dot/types"
	"github.com/ChainSafe/gossamer/lib/common"
	"github.com/ChainSafe/gossamer/lib/grandpa"
	"github.com/ChainSafe/gossamer/pkg/scale"
	"github.com/ChainSafe/gossamer/zz_verif/vcommon"
)

// CompactCommitRef is the gossip commit message of (round, set id, commit) in
// the compact form: 01 ‖ round u64 ‖ set id u64 ‖ target (hash, number u32) ‖
// Vec<(hash, number u32)> ‖ Vec<(signature 64, authority id 32)>.
func CompactCommitRef(round, setID uint64, cm Commit) []byte {
	out := cat([]byte{1}, U64(round), U64(setID), cm.Target.Ref(false), Compact(uint64(len(cm.Precommits))))
	for _, p := range cm.Precommits {
		out = append(out, p.Vote.Ref(false)...)
	}
	out = append(out, Compact(uint64(len(cm.Precommits)))...)
	for _, p := range cm.Precommits {
		out = cat(out, p.Sig[:], p.ID[:])
	}
	return out
}

func votesRef(cm Commit) []byte {
	out := Compact(uint64(len(cm.Precommits)))
	for _, p := range cm.Precommits {
		out = append(out, p.Vote.Ref(false)...)
	}
	return out
}

func authDataRef(cm Commit) []byte {
	out := Compact(uint64(len(cm.Precommits)))
	for _, p := range cm.Precommits {
		out = cat(out, p.Sig[:], p.ID[:])
	}
	return out
}

// genCompactCommit: commits whose precommits make a wrong pairing visible
// (distinct signatures and ids, also the same vote signed by several
// authorities and one authority signing two votes).
func genCompactCommit(r *vcommon.Rand) Commit {
	cm := GenCommit(r, false)
	switch r.Intn(6) {
	case 0: // every authority votes for the same block: only the auth data tells the entries apart
		for i := range cm.Precommits {
			cm.Precommits[i].Vote = cm.Target
		}
	case 1: // an equivocating authority: same id, two votes
		if len(cm.Precommits) >= 2 {
			cm.Precommits[1].ID = cm.Precommits[0].ID
		}
	case 2: // exactly two
		cm.Precommits = []SignedVote{GenSignedVote(r, false), GenSignedVote(r, false)}
	}
	return cm
}

func checkCompactCommit(c *vcommon.Case, round, setID uint64, cm Commit) {
	n := len(cm.Precommits)
	ref := CompactCommitRef(round, setID, cm)
	w := map[string]any{"type": "CommitMessage (compact commit)", "precommits": n, "ref": Hx(ref)}
	c.Count("compact_commits", 1)
	switch {
	case n == 0:
		c.Count("compact_commit_no_precommits", 1)
	case n >= 2:
		c.Count("compact_commit_2plus_precommits", 1)
	}
	if n >= 64 {
		c.Count("compact_commit_64plus_precommits", 1)
	}
	c.Distinct(fmt.Sprintf("CC|%d|%d", len(Compact(uint64(n))), n%5))

	signed := toSignedVotes(cm.Precommits)
	keep := toSignedVotes(cm.Precommits)

	// ---- sending: commit -> compact form -> wire
	c.Eval(3)
	pcs, ads := grandpa.VerifJustificationToCompact(signed)
	encV, errV := scale.Marshal(pcs)
	encA, errA := scale.Marshal(ads)
	if len(pcs) != n || len(ads) != n || errV != nil || errA != nil || !bytes.Equal(encV, votesRef(cm)) || !bytes.Equal(encA, authDataRef(cm)) {
		w["precommits_vector"], w["auth_data_vector"] = Hx(encV), Hx(encA)
		w["want_precommits_vector"], w["want_auth_data_vector"] = Hx(votesRef(cm)), Hx(authDataRef(cm))
		c.Violation("encode:compact-commit", fmt.Sprintf("justificationToCompact: the two vectors are not the precommit votes and their (signature, id) pairs in order (%d/%d of %d, err=%v/%v)",
			len(pcs), len(ads), n, errV, errA), w)
		return
	}
	if !equal(signed, keep) {
		c.Violation("encode:compact-commit", "justificationToCompact changed its argument", w)
		return
	}
	msg := &grandpa.CommitMessage{Round: round, SetID: setID, Vote: toVote(cm.Target), Precommits: pcs, AuthData: ads}
	cmsg, err := msg.ToConsensusMessage()
	if err != nil || !bytes.Equal(cmsg.Data, ref) {
		if cmsg != nil {
			w["got"] = Hx(cmsg.Data)
		}
		c.Violation("encode:compact-commit", fmt.Sprintf("CommitMessage built from justificationToCompact: ToConsensusMessage().Data != reference compact commit (err=%v)", err), w)
		return
	}

	// ---- receiving: wire -> compact form -> commit
	c.Eval(3)
	back, err := grandpa.VerifDecodeMessage(&grandpa.ConsensusMessage{Data: ref})
	got, isCommit := back.(*grandpa.CommitMessage)
	if err != nil || !isCommit {
		c.Violation("decode:compact-commit", fmt.Sprintf("decodeMessage(reference compact commit) = %T err=%v", back, err), w)
		return
	}
	sv, err := grandpa.VerifCompactToJustification(got.Precommits, got.AuthData)
	if err != nil || len(sv) != n {
		c.Violation("decode:compact-commit", fmt.Sprintf("compactToJustification of a received commit with %d precommits gave %d (err=%v)", n, len(sv), err), w)
		return
	}
	for i := range sv {
		if !equal(sv[i], keep[i]) {
			w["index"], w["got"], w["want"] = i, fmt.Sprintf("%+v", sv[i]), fmt.Sprintf("%+v", keep[i])
			j := -1
			for k := range keep {
				if sv[i].Signature == keep[k].Signature && sv[i].AuthorityID == keep[k].AuthorityID {
					j = k
				}
			}
			c.Violation("decode:compact-commit", fmt.Sprintf("compactToJustification: precommit %d is paired with auth data %d (precommit i belongs to auth data i)", i, j), w)
			return
		}
	}
	// the full form of what was received is the commit that was sent
	full := grandpa.Commit{Hash: got.Vote.Hash, Number: got.Vote.Number, Precommits: sv}
	enc, err := scale.Marshal(full)
	if err != nil || !bytes.Equal(enc, cm.Ref(false)) {
		w["got"], w["want"] = Hx(enc), Hx(cm.Ref(false))
		c.Violation("decode:compact-commit", fmt.Sprintf("Commit rebuilt from the received compact form != reference encoding of the commit (err=%v)", err), w)
		return
	}
	c.Count("compact_commit_roundtrips", 1)

	// vectors of different lengths cannot be paired: counted, the property says nothing about them
	if n >= 1 {
		func() {
			defer func() {
				if p := recover(); p != nil {
					c.Count("compact_length_mismatch_panics", 1)
				}
			}()
			if _, err := grandpa.VerifCompactToJustification(got.Precommits, got.AuthData[:n-1]); err != nil {
				c.Count("compact_length_mismatch_rejected", 1)
			} else {
				c.Count("compact_length_mismatch_accepted", 1)
			}
		}()
	}
	c.Sample(map[string]any{"type": "compact commit", "precommits": n, "ref_len": len(ref)})
}

// ---------------------------------------------------------------- Block.Encode

func checkBlock(c *vcommon.Case, h Header, b Body) {
	href, bref := h.Ref(), b.Ref()
	ref := cat(href, bref)
	w := map[string]any{"type": "Block", "header_ref": Hx(href), "body_ref": Hx(bref), "shape": h.Shape()}
	c.Count("blocks", 1)
	if len(b) == 0 {
		c.Count("block_empty_body", 1)
	}
	if len(h.Digest) == 0 {
		c.Count("block_empty_digest", 1)
	}
	if !bytes.Equal(cat(bref, href), ref) {
		c.Count("block_order_visible", 1) // header ‖ body differs from body ‖ header
	}
	c.Distinct(fmt.Sprintf("BLK|%s|%d", h.Shape(), len(Compact(uint64(len(b))))))
	gh, err := toHeader(h)
	c.Eval(1)
	if err != nil {
		c.Violation("represent:Block", "a spec-valid header cannot be represented: "+err.Error(), w)
		return
	}
	blk := types.NewBlock(*gh, toBody(b))
	if c.R.Bool() {
		_ = blk.Header.Hash() // a cached hash must not change the encoding
	}
	encode := func(what string, bl *types.Block) bool {
		c.Eval(2)
		enc, err := bl.Encode()
		if err != nil || !bytes.Equal(enc, ref) {
			w["got"] = Hx(enc)
			c.Violation("encode:Block", fmt.Sprintf("%s.Encode() != Ref(header) ++ Ref(body) (err=%v)", what, err), w)
			return false
		}
		var must []byte
		func() {
			defer func() {
				if p := recover(); p != nil {
					err = fmt.Errorf("panic: %v", p)
				}
			}()
			must = bl.MustEncode()
		}()
		if err != nil || !bytes.Equal(must, ref) {
			w["got"] = Hx(must)
			c.Violation("encode:Block", fmt.Sprintf("%s.MustEncode() != Ref(header) ++ Ref(body) (%v)", what, err), w)
			return false
		}
		return true
	}
	if !encode("Block", &blk) {
		return
	}
	// round trip: the encoding decodes back to the block (header, then body), with nothing left over
	c.Eval(2)
	back := types.NewEmptyBlock()
	if err := scale.Unmarshal(ref, &back); err != nil || !equal(back, blk) {
		w["got"] = fmt.Sprintf("%+v", back)
		c.Violation("decode:Block", fmt.Sprintf("Unmarshal(Ref(header) ++ Ref(body)) != block (err=%v)", err), w)
		return
	}
	if got := back.Header.Hash(); got != common.Hash(vcommon.Blake256(href)) {
		c.Violation("hash:Block", "Hash() of the header of a decoded block != BLAKE2b-256(Ref(header))", w)
		return
	}
	if !encode("decoded Block", &back) {
		return
	}
	// the copy handed to the runtime
	cp, err := blk.DeepCopy()
	c.Eval(1)
	if err != nil {
		c.Violation("encode:Block", "DeepCopy failed: "+err.Error(), w)
		return
	}
	if !encode("Block.DeepCopy()", &cp) {
		return
	}
	// ExecuteBlock: copy, drop the seal items, encode
	var noSeal Header
	noSeal = h
	noSeal.Digest = nil
	seals := 0
	for _, d := range h.Digest {
		if d.Kind == KindSeal {
			seals++
			continue
		}
		noSeal.Digest = append(noSeal.Digest, d)
	}
	if seals > 0 {
		c.Count("block_seal_stripped", 1)
		ex, _ := blk.DeepCopy()
		ex.Header.Digest = types.NewDigest()
		for _, d := range blk.Header.Digest {
			v, err := d.Value()
			if err != nil {
				c.Inconclusive("digest item value: " + err.Error())
				return
			}
			if _, isSeal := v.(types.SealDigest); isSeal {
				continue
			}
			if err := ex.Header.Digest.Add(v); err != nil {
				c.Inconclusive("Digest.Add: " + err.Error())
				return
			}
		}
		c.Eval(1)
		want := cat(noSeal.Ref(), bref)
		if enc, err := ex.Encode(); err != nil || !bytes.Equal(enc, want) {
			w["got"], w["want"] = Hx(enc), Hx(want)
			c.Violation("encode:Block", fmt.Sprintf("Encode() of the block without its seal (what ExecuteBlock hands to the runtime) != Ref(header without seal) ++ Ref(body) (err=%v)", err), w)
			return
		}
		// stripping the seal from the copy leaves the original untouched
		if !encode("Block after its copy was stripped", &blk) {
			return
		}
	}
	c.Count("block_roundtrips", 1)
	c.Sample(map[string]any{"type": "Block", "shape": h.Shape(), "extrinsics": len(b), "ref_len": len(ref)})
}

// checkCompactAndBlock registers the groups of this file.
func checkCompactAndBlock(r *vcommon.Run, n int) {
	r.Floor("compact_commits", 300)
	r.Floor("compact_commit_roundtrips", 300)
	r.Floor("compact_commit_2plus_precommits", 150)
	r.Floor("compact_commit_no_precommits", 20)
	r.Floor("compact_commit_64plus_precommits", 20)
	r.Floor("blocks", 300)
	r.Floor("block_roundtrips", 300)
	r.Floor("block_order_visible", 250)
	r.Floor("block_empty_body", 20)
	r.Floor("block_empty_digest", 20)
	r.Floor("block_seal_stripped", 50)

	sv := func(b byte) SignedVote {
		s := SignedVote{Vote: Vote{Number: uint64(b)}}
		s.Vote.Hash[0], s.Sig[0], s.Sig[63], s.ID[0] = b, b, b, b
		return s
	}
	fixedCommits := []Commit{
		{},                                       // no precommits
		{Precommits: []SignedVote{sv(1)}},        // one
		{Precommits: []SignedVote{sv(1), sv(2)}}, // minimal witness of a wrong pairing
		{Target: Vote{Number: 1<<32 - 1}, Precommits: []SignedVote{sv(3), sv(2), sv(1)}},
	}
	many := Commit{}
	for i := 0; i < 65; i++ {
		many.Precommits = append(many.Precommits, sv(byte(i+1)))
	}
	fixedCommits = append(fixedCommits, many)
	r.Fixed("compact-commit", len(fixedCommits), func(c *vcommon.Case) {
		checkCompactCommit(c, uint64(c.Idx), 1<<40+uint64(c.Idx), fixedCommits[c.Idx])
	})
	seal := DigestItem{Kind: KindSeal, Engine: [4]byte{'B', 'A', 'B', 'E'}, Data: bytes.Repeat([]byte{5}, 64)}
	pre := DigestItem{Kind: KindPreRuntime, Engine: [4]byte{'B', 'A', 'B', 'E'}, Data: BabePre{Kind: 2, AuthIndex: 1, Slot: 2}.Ref()}
	type hb struct {
		h Header
		b Body
	}
	fixedBlocks := []hb{
		{Header{}, Body{}},                   // the empty block
		{Header{Number: 1}, Body{{1, 2, 3}}}, // minimal witness of a swapped order
		{Header{Number: 7, Digest: []DigestItem{pre, seal}}, Body{{}, {9}}}, // what ExecuteBlock strips
		{Header{Number: 1 << 30, Digest: []DigestItem{seal, {Kind: KindOther, Data: []byte{1}}, seal}}, Body{bytes.Repeat([]byte{7}, 64)}},
	}
	r.Fixed("block", len(fixedBlocks), func(c *vcommon.Case) { checkBlock(c, fixedBlocks[c.Idx].h, fixedBlocks[c.Idx].b) })

	r.Cases("compact-commit", n, func(c *vcommon.Case) { checkCompactCommit(c, genU64(c.R), genU64(c.R), genCompactCommit(c.R)) })
	r.Cases("block", n, func(c *vcommon.Case) {
		h := GenHeader(c.R, true)
		if c.R.Chance(1, 3) { // a sealed block as imported from the network
			h.Digest = append(h.Digest, GenDigestItem(c.R, KindSeal, false))
		}
		checkBlock(c, h, GenBody(c.R))
	})
}
