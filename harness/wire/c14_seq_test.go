//go:build verif

package wire

// Stateful header scenarios for C14: "a header's hash is BLAKE2b-256 of its
// CURRENT encoding, whatever sequence of construct / Hash / DeepCopy /
// Block.DeepCopy / field mutation / Digest.Add / seal removal / encode-decode
// produced it".
//
// Convention honoured: Header.Hash() is documented as cached ("if the internal
// hash field is nil, it hashes the block and sets the hash field"), and
// production code that changes a header it has already hashed (lib/babe
// verify.go removes the seal in place) hashes the *encoding* instead of calling
// Hash() again. So mutating an object in place after Hash() was called ON THAT
// OBJECT makes its cache legitimately stale ("tainted"): such states are only
// counted. Every other object must hash to its current fields: freshly
// constructed, filled before its first Hash(), decoded, and in particular a
// DeepCopy / Block.DeepCopy that is modified afterwards — a copy must not
// inherit the source's cache.

import (
	"bytes"
	"fmt"

	"github.com/ChainSafe/gossamer/dot/types"
	"github.com/ChainSafe/gossamer/lib/common"
	"github.com/ChainSafe/gossamer/pkg/scale"
	"github.com/ChainSafe/gossamer/zz_verif/vcommon"
)

func itemValue(it DigestItem) (any, error) {
	switch it.Kind {
	case KindPreRuntime:
		return types.PreRuntimeDigest{ConsensusEngineID: it.Engine, Data: it.Data}, nil
	case KindConsensus:
		return types.ConsensusDigest{ConsensusEngineID: it.Engine, Data: it.Data}, nil
	case KindSeal:
		return types.SealDigest{ConsensusEngineID: it.Engine, Data: it.Data}, nil
	case KindRuntimeEnv:
		return types.RuntimeEnvironmentUpdated{}, nil
	}
	return otherDigest(it.Data)
}

// hstate is one live header object together with the model of its current fields.
type hstate struct {
	obj     *types.Header
	model   Header
	hashed  bool // Hash() has been called on this very object (directly or by NewHeader)
	tainted bool // mutated in place after that: the cache is stale by convention
}

func cloneModel(h Header) Header {
	out := h
	out.Digest = append([]DigestItem{}, h.Digest...)
	return out
}

// Step kinds of a scenario.
const (
	stNew = iota
	stEmptyFill
	stHash
	stDeepCopy
	stBlockDeepCopy
	stSetNumber
	stSetParent
	stSetStateRoot
	stSetExtRoot
	stAddDigest
	stDropLastDigest
	stEncodeDecode
	nSteps
)

var stepNames = [nSteps]string{"NewHeader", "NewEmptyHeader+fill", "Hash", "DeepCopy", "Block.DeepCopy", "set Number",
	"set ParentHash", "set StateRoot", "set ExtrinsicsRoot", "Digest.Add", "drop last digest item", "Encode->Decode"}

// peekHash is what obj.Hash() would return now, without touching obj's cache
// (a struct copy carries the cache state along).
func peekHash(h *types.Header) common.Hash {
	tmp := *h
	return tmp.Hash()
}

func runHeaderSeq(c *vcommon.Case, r *vcommon.Rand, steps []int) {
	var cur, src *hstate // src: the object the current one was copied from (isolation check)
	trace := []string{}
	fail := func(class, msg string, s *hstate) {
		ref := s.model.Ref()
		want := vcommon.Blake256(ref)
		c.Violation(class, msg, map[string]any{"steps": trace, "fields_now": Hx(ref), "want_hash": Hx(want[:]),
			"got_hash": peekHash(s.obj).String()})
	}
	// observe asserts the invariant on one state (or counts when the cache is stale by convention).
	observe := func(s *hstate, who string) bool {
		ref := s.model.Ref()
		want := common.Hash(vcommon.Blake256(ref))
		c.Eval(2)
		enc, err := scale.Marshal(*s.obj)
		if err != nil || !bytes.Equal(enc, ref) {
			fail("seq:encode", fmt.Sprintf("%s: Marshal(header) != reference encoding of its current fields (err=%v)", who, err), s)
			return false
		}
		got := peekHash(s.obj)
		if s.tainted {
			if got != want {
				c.Count("seq_stale_inplace_after_hash", 1) // documented caching convention: not a violation
			} else {
				c.Count("seq_tainted_but_fresh", 1)
			}
			return true
		}
		if got != want {
			fail("seq:hash", fmt.Sprintf("%s: Hash() != BLAKE2b-256(encoding of the header's current fields) after %q",
				who, trace[len(trace)-1]), s)
			return false
		}
		return true
	}
	mutate := func(f func(), m func()) {
		f()
		m()
		if cur.hashed {
			cur.tainted = true
		}
	}
	for i, st := range steps {
		if cur == nil && st != stNew && st != stEmptyFill {
			st = stNew + i%2
		}
		trace = append(trace, stepNames[st])
		c.Count("seq_step:"+stepNames[st], 1)
		switch st {
		case stNew:
			m := GenHeader(r, true)
			if len(m.Digest) > 8 {
				m.Digest = m.Digest[:8]
			}
			d, err := toDigest(m.Digest)
			if err != nil {
				c.Violation("represent:Header", err.Error(), map[string]any{"steps": trace})
				return
			}
			cur = &hstate{obj: types.NewHeader(m.Parent, m.StateRoot, m.ExtRoot, uint(m.Number), d), model: m, hashed: true}
			src = nil
		case stEmptyFill:
			m := GenHeader(r, true)
			if len(m.Digest) > 8 {
				m.Digest = m.Digest[:8]
			}
			d, err := toDigest(m.Digest)
			if err != nil {
				c.Violation("represent:Header", err.Error(), map[string]any{"steps": trace})
				return
			}
			h := types.NewEmptyHeader()
			h.ParentHash, h.Number, h.StateRoot, h.ExtrinsicsRoot, h.Digest = m.Parent, uint(m.Number), m.StateRoot, m.ExtRoot, d
			cur = &hstate{obj: h, model: m}
			src = nil
		case stHash:
			got := cur.obj.Hash()
			cur.hashed = true
			c.Eval(1)
			if want := common.Hash(vcommon.Blake256(cur.model.Ref())); !cur.tainted && got != want {
				fail("seq:hash", "Hash() != BLAKE2b-256(encoding of the header's current fields)", cur)
				return
			}
		case stDeepCopy:
			cp, err := cur.obj.DeepCopy()
			if err != nil {
				c.Violation("seq:deepcopy", err.Error(), map[string]any{"steps": trace})
				return
			}
			if cur.hashed && !cur.tainted {
				c.Count("seq_copy_of_hashed_header", 1)
			}
			src, cur = cur, &hstate{obj: cp, model: cloneModel(cur.model)}
		case stBlockDeepCopy:
			blk := types.Block{Header: *cur.obj, Body: types.Body{}}
			nb, err := blk.DeepCopy()
			if err != nil {
				c.Violation("seq:deepcopy", err.Error(), map[string]any{"steps": trace})
				return
			}
			if cur.hashed && !cur.tainted {
				c.Count("seq_copy_of_hashed_header", 1)
			}
			src, cur = cur, &hstate{obj: &nb.Header, model: cloneModel(cur.model)}
		case stSetNumber:
			n := GenNumber32(r)
			mutate(func() { cur.obj.Number = uint(n) }, func() { cur.model.Number = n })
		case stSetParent:
			v := h32(r)
			v[31] ^= 0x5a
			mutate(func() { cur.obj.ParentHash = v }, func() { cur.model.Parent = v })
		case stSetStateRoot:
			v := h32(r)
			v[0] ^= 0xa5
			mutate(func() { cur.obj.StateRoot = v }, func() { cur.model.StateRoot = v })
		case stSetExtRoot:
			v := h32(r)
			v[7] ^= 0x3c
			mutate(func() { cur.obj.ExtrinsicsRoot = v }, func() { cur.model.ExtRoot = v })
		case stAddDigest:
			it := GenDigestItem(r, vcommon.Pick(r, digestKinds), false)
			v, err := itemValue(it)
			if err == nil {
				err = cur.obj.Digest.Add(v)
			}
			if err != nil {
				c.Violation("represent:Header", err.Error(), map[string]any{"steps": trace})
				return
			}
			mutate(func() {}, func() { cur.model.Digest = append(cur.model.Digest, it) })
		case stDropLastDigest:
			if len(cur.model.Digest) == 0 {
				continue
			}
			// the way lib/babe removes the seal: rebuild the digest from the item values
			nd := types.NewDigest()
			for _, it := range cur.obj.Digest[:len(cur.obj.Digest)-1] {
				v, err := it.Value()
				if err == nil {
					err = nd.Add(v)
				}
				if err != nil {
					c.Violation("represent:Header", err.Error(), map[string]any{"steps": trace})
					return
				}
			}
			mutate(func() { cur.obj.Digest = nd }, func() { cur.model.Digest = cur.model.Digest[:len(cur.model.Digest)-1] })
		case stEncodeDecode:
			enc, err := scale.Marshal(*cur.obj)
			back := types.NewEmptyHeader()
			if err == nil {
				err = scale.Unmarshal(enc, back)
			}
			if err != nil {
				c.Violation("seq:encode", "Encode->Decode failed: "+err.Error(), map[string]any{"steps": trace})
				return
			}
			src, cur = nil, &hstate{obj: back, model: cloneModel(cur.model)}
		}
		if !observe(cur, "current header") {
			return
		}
		if !cur.tainted && cur.hashed == false && src != nil {
			c.Count("seq_unhashed_copy_observed", 1)
		}
		// the decoded header of the current encoding hashes to the same value
		c.Eval(1)
		back := types.NewEmptyHeader()
		if err := scale.Unmarshal(cur.model.Ref(), back); err != nil || back.Hash() != common.Hash(vcommon.Blake256(cur.model.Ref())) {
			fail("seq:hash", fmt.Sprintf("decoded header of the current encoding hashes differently (err=%v)", err), cur)
			return
		}
		// isolation: whatever happened to the copy, the source still encodes / hashes as before
		if src != nil && !observe(src, "source of the copy") {
			return
		}
	}
	// fingerprint: the sequence of step kinds
	c.Distinct("SEQ|" + fmt.Sprint(steps))
}

// fixedSeqs are the minimal witnesses of the class "copy inherits the source's hash cache".
func fixedSeqs() [][]int {
	var out [][]int
	for _, cp := range []int{stDeepCopy, stBlockDeepCopy} {
		for _, mut := range []int{stSetNumber, stSetParent, stSetStateRoot, stSetExtRoot, stAddDigest, stDropLastDigest} {
			out = append(out, []int{stNew, cp, mut, stHash})               // NewHeader caches the hash
			out = append(out, []int{stEmptyFill, stHash, cp, mut, stHash}) // Hash() called explicitly
		}
	}
	out = append(out,
		[]int{stEmptyFill, stSetNumber, stAddDigest, stHash},                    // fill, mutate, first Hash
		[]int{stNew, stDeepCopy, stDeepCopy, stSetNumber, stHash},               // copy of a copy
		[]int{stNew, stSetNumber, stDeepCopy, stHash},                           // copy of a header with a stale cache
		[]int{stNew, stEncodeDecode, stAddDigest, stHash, stDeepCopy, stHash},   // decode resets the cache
		[]int{stNew, stBlockDeepCopy, stDropLastDigest, stEncodeDecode, stHash}, // ExecuteBlock-like: copy, strip seal, encode
		[]int{stNew, stDeepCopy, stHash, stSetNumber, stHash})                   // tainted: counted only
	return out
}

func checkHeaderSeqs(r *vcommon.Run, n int) {
	r.Floor("seq_copy_of_hashed_header", 100)
	r.Floor("seq_unhashed_copy_observed", 100)
	r.Floor("seq_step:drop last digest item", 50)
	r.Floor("seq_step:Block.DeepCopy", 50)
	fs := fixedSeqs()
	r.Fixed("headerseq", len(fs), func(c *vcommon.Case) { runHeaderSeq(c, c.R, fs[c.Idx]) })
	r.Cases("headerseq", n, func(c *vcommon.Case) {
		k := c.R.Range(4, 14)
		steps := make([]int, k)
		for i := range steps {
			switch c.R.Intn(10) {
			case 0, 1:
				steps[i] = vcommon.Pick(c.R, []int{stDeepCopy, stBlockDeepCopy})
			case 2, 3:
				steps[i] = stHash
			default:
				steps[i] = c.R.Intn(nSteps)
			}
		}
		runHeaderSeq(c, c.R, steps)
	})
}
