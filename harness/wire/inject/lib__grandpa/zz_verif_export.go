//go:build verif

package grandpa

import (
	"github.com/ChainSafe/gossamer/dot/network"
	"github.com/ChainSafe/gossamer/pkg/scale"
)

// VerifDecodeMessage exposes the unexported gossip decoder (network.go decodeMessage)
// to the external verification harness. Compiled only with -tags verif.
func VerifDecodeMessage(cm *network.ConsensusMessage) (GrandpaMessage, error) {
	return decodeMessage(cm)
}

// VerifNewGrandpaMessage returns a pointer to a new value of the unexported message union
// decodeMessage decodes into, so the harness can decode several messages over ONE such value.
func VerifNewGrandpaMessage() scale.VaryingDataType {
	m := newGrandpaMessage()
	return &m
}

// VerifJustificationToCompact exposes justificationToCompact (message.go): the signed precommits of a
// commit split into the two pairwise aligned vectors of the CommitMessage that goes on the wire.
func VerifJustificationToCompact(just []SignedVote) ([]Vote, []AuthData) {
	return justificationToCompact(just)
}

// VerifCompactToJustification exposes compactToJustification (message.go): the inverse, applied to a
// received CommitMessage before its precommits are stored (grandpa.go handleCommitMessage).
func VerifCompactToJustification(vs []Vote, auths []AuthData) ([]SignedVote, error) {
	return compactToJustification(vs, auths)
}
