//go:build verif

package grandpa

import (
	"github.com/ChainSafe/gossamer/dot/network"
	"github.com/ChainSafe/gossamer/pkg/scale"
)

// VerifDecodeMessage exposes the unexported gossip decoder (network.go decodeMessage)
// to the external verification harness. Compiled only with -tags verif.
func VerifDecodeMessage(cm *network.ConsensusMessage) (GrandpaMessage, error) {
	return decodeMessage(cm)
}

// VerifNewGrandpaMessage returns a pointer to a new value of the unexported message union
// decodeMessage decodes into, so the harness can decode several messages over ONE such value.
func VerifNewGrandpaMessage() scale.VaryingDataType {
	m := newGrandpaMessage()
	return &m
}
