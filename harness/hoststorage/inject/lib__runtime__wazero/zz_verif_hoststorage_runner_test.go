//go:build verif

package wazero_runtime

// Differential runner of engine hoststorage: the op language, alphabet, observation
// plan, limited-clear classification and known-finding predicates (C08-K1/K2/K3) are
// COPIED from /verif/harness/rtstorage/runner.go; what differs is that every operation
// and every observation goes through the ext_storage_* / ext_default_child_storage_*
// host functions (arguments and results in guest memory) instead of TrieState methods.

import (
	"bytes"
	"fmt"
	"math"
	"os"
	"runtime/debug"
	"strings"

	"github.com/ChainSafe/gossamer/zz_verif/vcommon"
)

// ---- operations -----------------------------------------------------------

type hsOpKind int

const (
	hsPut hsOpKind = iota
	hsDel
	hsClr      // ext_storage_clear_prefix_version_1
	hsClrLim   // ext_storage_clear_prefix_version_2 (Lim < 0: None)
	hsCSet     // ext_default_child_storage_set_version_1
	hsCDel     // ext_default_child_storage_clear_version_1
	hsCClr     // ext_default_child_storage_clear_prefix_version_1
	hsCClrLim  // ext_default_child_storage_clear_prefix_version_2 (Lim < 0: None)
	hsCKill    // ext_default_child_storage_storage_kill_version_1
	hsCKillLim // ext_default_child_storage_storage_kill_version_2 (Var 0) / _3 (Var 1); Lim < 0: None
	hsStart
	hsCommit // Lim == 1 at depth 1: through ext_storage_root_version_1 (Var 0) / _2 (Var 1)
	hsRollback
)

var hsOpNames = []string{"put", "del", "clr", "clrlim", "cset", "cdel", "cclr", "cclrlim", "ckill", "ckilllim", "start", "commit", "rollback"}

// hsOp is one concrete storage operation (fully determined; no PRNG at run time).
type hsOp struct {
	K   hsOpKind
	C   string // child storage key (bare)
	Key string // key or prefix
	Val string
	Lim int
	Var int // which version of the host function
}

func (o hsOp) String() string {
	switch o.K {
	case hsCommit:
		if o.Lim == 1 {
			return fmt.Sprintf("commit(root_v%d)", o.Var+1)
		}
	case hsPut:
		return fmt.Sprintf("put %q=%q", o.Key, o.Val)
	case hsDel:
		return fmt.Sprintf("del %q", o.Key)
	case hsClr:
		return fmt.Sprintf("clr %q", o.Key)
	case hsClrLim:
		return fmt.Sprintf("clrlim %q %d", o.Key, o.Lim)
	case hsCSet:
		return fmt.Sprintf("cset %q/%q=%q", o.C, o.Key, o.Val)
	case hsCDel:
		return fmt.Sprintf("cdel %q/%q", o.C, o.Key)
	case hsCClr:
		return fmt.Sprintf("cclr %q/%q", o.C, o.Key)
	case hsCClrLim:
		return fmt.Sprintf("cclrlim %q/%q %d", o.C, o.Key, o.Lim)
	case hsCKill:
		return fmt.Sprintf("ckill %q", o.C)
	case hsCKillLim:
		return fmt.Sprintf("ckilllim_v%d %q %d", o.Var+2, o.C, o.Lim)
	}
	return hsOpNames[o.K]
}

func hsOpsStrings(ops []hsOp) []string {
	out := make([]string, len(ops))
	for i, o := range ops {
		out[i] = o.String()
	}
	return out
}

// ---- alphabet (collisions by construction; same as rtstorage) ----------------------

var (
	hsMainKeys      = []string{"a", "ab", "abc", "abd", "b", "ba", "c"}
	hsChildNames    = []string{"a", "ab", "c"}
	hsChildKeys     = []string{"a", "ab", "abc", "b"}
	hsMainPrefixes  = []string{"a", "ab", "abc", "b", "c", "d"}
	hsChildPrefixes = []string{"", "a", "ab", "abc", "b", "c"}
	// prefixes the host layer must refuse (`:child_storage` guard of ext_storage_clear_prefix_*)
	hsGuardedPrefixes = []string{":child_storage:", hsChildRootPrefix, hsChildRootPrefix + "a", hsChildRootPrefix + "c"}
)

func hsMainGetProbe() []string {
	p := append([]string{}, hsMainKeys...)
	p = append(p, "d", "aa")
	for _, c := range hsChildNames {
		p = append(p, hsChildRootPrefix+c)
	}
	return p
}

func hsMainNextProbe() []string {
	p := append([]string{""}, hsMainKeys...)
	p = append(p, "aa", "abb", "d", ":", hsChildRootPrefix, "zz")
	for _, c := range hsChildNames {
		p = append(p, hsChildRootPrefix+c)
	}
	return p
}

func hsChildNextProbe() []string { return append([]string{"", "aa", "c"}, hsChildKeys...) }

// ---- failures ---------------------------------------------------------------

type hsFailure struct {
	Class string
	Msg   string
	Step  int
}

type hsKnownHit struct {
	ID   string
	Msg  string
	Step int
}

type hsResult struct {
	AliasPossible bool
	Fail          *hsFailure
	Known         []hsKnownHit
	Counters      map[string]int
	Evals         int
	Shape         string
	Trouble       string
}

type hsRunner struct {
	vc         *hsCall
	m          *hsModel
	version    int
	res        *hsResult
	step       int
	fps        []string
	roots      map[string][]byte
	rootsDirty bool
	shape      strings.Builder
	rot        int // rotates (offset, buffer length) plans and function versions of the observations
}

func (r *hsRunner) count(name string) { r.res.Counters[name]++ }

func (r *hsRunner) fail(class, format string, a ...any) {
	if r.res.Fail == nil {
		r.res.Fail = &hsFailure{Class: class, Msg: fmt.Sprintf(format, a...), Step: r.step}
	}
}

func (r *hsRunner) known(id, format string, a ...any) {
	r.res.Known = append(r.res.Known, hsKnownHit{ID: id, Msg: fmt.Sprintf(format, a...), Step: r.step})
}

// wireCheck turns a wire-format refutation recorded by the host wrappers into a failure.
func (r *hsRunner) wireCheck() bool {
	if w := r.vc.wire; w != nil {
		r.fail("host-wire:"+w.Fn, "%s: %s", w.Fn, w.Msg)
		return false
	}
	return r.res.Fail == nil
}

func hsQ(b []byte, some bool) string {
	if !some {
		return "None"
	}
	return fmt.Sprintf("Some(%q)", b)
}

var hsTrace = os.Getenv("HS_TRACE") != ""

// hsRun executes ops through the host functions on a fresh TrieState over an empty
// in-memory trie and compares every observable with the model after every step.
func hsRun(ops []hsOp, version int) (res *hsResult) {
	res = &hsResult{Counters: map[string]int{}}
	h, err := hsGetHost()
	if err != nil {
		res.Trouble = err.Error()
		return res
	}
	vc := h.newCall(version)
	r := &hsRunner{vc: vc, m: hsNewModel(), version: version, res: res, rootsDirty: true, step: -1}
	written := map[string]string{}
	for _, o := range ops {
		if o.K == hsCSet {
			if c, ok := written[o.Key+"\x00"+o.Val]; ok && c != o.C {
				res.AliasPossible = true
			}
			written[o.Key+"\x00"+o.Val] = o.C
		}
	}
	defer func() {
		if p := recover(); p != nil {
			st := string(debug.Stack())
			if i := strings.Index(st, "panic("); i > 0 {
				st = st[i:]
			}
			if len(st) > 3000 {
				st = st[:3000]
			}
			res.Fail = &hsFailure{Class: "panic", Msg: fmt.Sprintf("%v\n%s", p, st), Step: r.step}
		}
		res.Shape = r.shape.String()
		res.Trouble = vc.trouble
		for fn, n := range vc.calls {
			res.Counters["host_call_"+fn] += n
		}
	}()
	r.observe()
	for i, o := range ops {
		if res.Fail != nil {
			break
		}
		r.step = i
		if hsTrace {
			fmt.Fprintf(os.Stderr, "step %d: %s\n", i, o)
		}
		r.apply(o)
		if !r.wireCheck() {
			break
		}
		r.observe()
	}
	return res
}

func (r *hsRunner) mark(s string) {
	if r.shape.Len() < 400 {
		r.shape.WriteString(s)
	}
}

// ---- applying one op to both sides -------------------------------------------

func hsGuarded(prefix string) bool { return strings.HasPrefix(prefix, ":child_storage:") }

func (r *hsRunner) apply(o hsOp) {
	vc, m := r.vc, r.m
	depth := m.Depth()
	if depth == 0 {
		r.rootsDirty = true
	}
	inTx := "tx"
	if depth == 0 {
		inTx = "d0"
	}
	switch o.K {
	case hsStart:
		if depth >= 4 {
			return
		}
		r.fps = append(r.fps, r.fingerprint())
		vc.hStart()
		m.Start()
		r.count("host_start")
		r.mark("S")
	case hsCommit:
		if depth == 0 {
			return
		}
		r.fps = r.fps[:len(r.fps)-1]
		var viaRoot []byte
		if depth == 1 && o.Lim == 1 {
			// ext_storage_root commits the outermost transaction and hashes
			viaRoot = vc.hRoot(o.Var+1, r.version)
			if viaRoot == nil {
				return
			}
			r.count("host_commit_via_root")
		} else {
			vc.hCommit()
		}
		m.Commit()
		if m.Depth() == 0 {
			r.rootsDirty = true
			r.count("host_commit_outermost")
			r.mark("K")
			if viaRoot != nil {
				want := vcommon.SpecRoot(r.expectedMainFull(), r.version)
				r.res.Evals++
				if !bytes.Equal(viaRoot, want[:]) {
					r.fail("root", "ext_storage_root_version_%d = %x want %x (contents %s)", o.Var+1, viaRoot, want, hsDumpShort(r.expectedMainFull()))
				}
			}
		} else {
			r.count("host_commit_nested")
			r.mark("k")
		}
	case hsRollback:
		if depth == 0 {
			return
		}
		want := r.fps[len(r.fps)-1]
		r.fps = r.fps[:len(r.fps)-1]
		vc.hRollback()
		m.Rollback()
		r.count("host_rollback")
		if depth > 1 {
			r.count("host_rollback_nested")
		}
		r.mark("R")
		got := r.fingerprint()
		r.res.Evals++
		if got != want {
			r.fail("rollback-inexact", "host-level observables after rollback differ from those at the matching start:\n at start: %s\n after   : %s", want, got)
		}
	case hsPut:
		vc.hSet([]byte(o.Key), []byte(o.Val))
		m.Put(o.Key, o.Val)
		r.count("host_put_" + inTx)
		r.mark("p")
	case hsDel:
		if m.ChildExists(o.Key) && depth > 0 {
			r.count("host_main_delete_of_live_child_name_tx")
		}
		vc.hClear([]byte(o.Key))
		m.Delete(o.Key)
		r.count("host_del_" + inTx)
		r.mark("d")
	case hsClr:
		vc.hClearPrefixV1([]byte(o.Key))
		if hsGuarded(o.Key) {
			// refused by the host layer: nothing may change (observe() decides)
			r.count("host_guard_clear_prefix_v1")
			if len(r.backendRoots()) > 0 {
				r.count("host_guard_with_live_child_root")
			}
			r.mark("g")
			return
		}
		if _, ok := m.top().main.Get([]byte(o.Key)); ok {
			r.count("host_clear_prefix_key_equals_prefix")
		}
		m.ApplyMain(m.ClearMain(o.Key, -1, hsSubstrate))
		r.count("host_clr_" + inTx)
		r.mark("c")
	case hsClrLim:
		r.limitedMain(o)
	case hsCSet:
		if depth > 0 && !m.ChildExists(o.C) && m.backendChild(o.C).Len() > 0 {
			r.count("host_child_recreated_after_kill_tx")
		}
		vc.hCSet([]byte(o.C), []byte(o.Key), []byte(o.Val))
		m.SetChild(o.C, o.Key, o.Val)
		r.count("host_cset_" + inTx)
		r.mark("s")
	case hsCDel:
		vc.hCClear([]byte(o.C), []byte(o.Key))
		m.ClearChild(o.C, o.Key)
		r.count("host_cdel_" + inTx)
		r.mark("e")
	case hsCClr:
		vc.hCClearPrefixV1([]byte(o.C), []byte(o.Key))
		if _, ok := m.top().childMap(o.C).Get([]byte(o.Key)); ok {
			r.count("host_child_clear_prefix_key_equals_prefix")
		}
		m.ApplyChild(o.C, m.ClearChildNS(o.C, o.Key, -1, hsSubstrate))
		r.count("host_cclr_" + inTx)
		r.mark("f")
	case hsCClrLim:
		r.limitedChild(o, false)
	case hsCKill:
		if m.ChildExists(o.C) {
			r.count("host_child_kill_live_" + inTx)
		} else {
			r.count("host_child_kill_v1_missing_child")
		}
		vc.hCKillV1([]byte(o.C))
		m.ApplyChild(o.C, m.ClearChildNS(o.C, "", -1, hsSubstrate))
		r.mark("x")
	case hsCKillLim:
		r.limitedChild(o, true)
	}
}

func hsSameKeys(a, b *vcommon.OrdMap) bool {
	ka, va := a.Entries()
	kb, vb := b.Entries()
	if len(ka) != len(kb) {
		return false
	}
	for i := range ka {
		if !bytes.Equal(ka[i], kb[i]) || !bytes.Equal(va[i], vb[i]) {
			return false
		}
	}
	return true
}

// alternative charging readings that are NOT treated as violations (copied from rtstorage).
var hsAltReadings = []hsReading{{false, false}, {false, true}, {true, false}}

// modelLimit: a None limit reaches TrieState as u32::MAX inside a transaction (the limited code
// path with a limit nothing reaches) and as "no limit" in the model.
func hsModelLimit(l int) int {
	if l < 0 {
		return math.MaxUint32
	}
	return l
}

func (r *hsRunner) limitedMain(o hsOp) {
	vc, m := r.vc, r.m
	depth := m.Depth()
	tag := "tx"
	if depth == 0 {
		tag = "d0"
	}
	if hsGuarded(o.Key) {
		all, n := vc.hClearPrefixV2([]byte(o.Key), int64(o.Lim))
		if !r.wireCheck() {
			return
		}
		r.count("host_guard_clear_prefix_v2")
		if len(r.backendRoots()) > 0 {
			r.count("host_guard_with_live_child_root")
		}
		r.mark("G")
		r.res.Evals++
		switch {
		case n != 0:
			r.fail("guard-result", "%s: the host layer must refuse a prefix under :child_storage: but reports %d keys removed", o, n)
		case all:
			r.count("host_guard_result_all_removed_0") // current Substrate: AllRemoved(0)
		default:
			r.count("host_guard_result_some_remaining_0") // Substrate before MultiRemovalResults: SomeRemaining(0)
		}
		return
	}
	lim := hsModelLimit(o.Lim)
	if o.Lim < 0 {
		r.count("host_clear_prefix_v2_limit_none_" + tag)
	}
	r.count("host_clrlim_" + tag)
	r.mark(fmt.Sprintf("L%d", min(lim, 5)))
	spec := m.ClearMain(o.Key, lim, hsSubstrate)
	var dev hsClearResult
	var devFlag bool
	if depth > 0 {
		dev, devFlag, _ = m.DevMain(o.Key, lim)
	}
	alts := make([]hsClearResult, len(hsAltReadings))
	for i, rd := range hsAltReadings {
		alts[i] = m.ClearMain(o.Key, lim, rd)
	}
	all, del := vc.hClearPrefixV2([]byte(o.Key), int64(o.Lim))
	if !r.wireCheck() {
		return
	}
	obs := vcommon.NewOrdMap()
	for _, k := range hsMainKeys {
		if v, some := vc.hGet([]byte(k)); some {
			obs.Put([]byte(k), v)
		}
	}
	if !r.wireCheck() {
		return
	}
	r.classifyLimited("main", o, lim, depth, obs, spec, dev, devFlag, alts, int(del), all, true, func(res hsClearResult) { m.ApplyMain(res) })
}

func (r *hsRunner) limitedChild(o hsOp, kill bool) {
	vc, m := r.vc, r.m
	depth := m.Depth()
	tag := "tx"
	if depth == 0 {
		tag = "d0"
	}
	prefix := o.Key
	name := "host_cclrlim_"
	if kill {
		prefix = ""
		name = fmt.Sprintf("host_ckilllim_v%d_", o.Var+2)
	}
	r.count(name + tag)
	if o.Lim < 0 {
		r.count(name + "limit_none")
	}
	lim := hsModelLimit(o.Lim)
	if kill && o.Lim < 0 {
		lim = -1 // DeleteChildLimit(nil) is the unlimited path of TrieState
	}
	r.mark(fmt.Sprintf("M%d", min(max(lim, 0), 5)))
	existed := m.ChildExists(o.C)
	spec := m.ClearChildNS(o.C, prefix, lim, hsSubstrate)
	var dev hsClearResult
	var devFlag bool
	if depth > 0 {
		dev, devFlag, _ = m.DevChild(o.C, prefix, lim, kill)
	}
	alts := make([]hsClearResult, len(hsAltReadings))
	for i, rd := range hsAltReadings {
		alts[i] = m.ClearChildNS(o.C, prefix, lim, rd)
	}
	var del uint32
	var all bool
	present, haveCount := true, true
	switch {
	case !kill:
		all, del = vc.hCClearPrefixV2([]byte(o.C), []byte(o.Key), int64(o.Lim))
	case o.Var == 0:
		all = vc.hCKillV2([]byte(o.C), int64(o.Lim))
		haveCount = false
	default:
		present, all, del = vc.hCKillV3([]byte(o.C), int64(o.Lim))
	}
	if !r.wireCheck() {
		return
	}
	// wire conventions of the code that differ from the Polkadot host API: honoured, counted (see host file)
	switch {
	case !kill && o.Lim >= 0:
		r.count("host_wire_convention_child_clear_prefix_v2_limit_is_vec_u8")
	case kill && o.Lim >= 0:
		r.count("host_wire_convention_child_kill_limit_is_option_vec_u8")
	}
	if !kill || o.Var == 1 {
		r.count("host_wire_convention_child_kill_result_wrapped_in_option_vec_u8")
	}
	obs := r.readChild(o.C)
	if !r.wireCheck() {
		return
	}
	// convention of the code (rtstorage: "an error means the child trie does not exist"): at the host boundary the
	// swallowed error is None (kill_version_3) or (all=false, 0 removed); legal only if there was nothing to do
	if !present || (!existed && !all && (del == 0 || !haveCount)) {
		r.count(name + "reports_missing_child")
		if existed {
			r.count(name + "reports_missing_child_on_live_child")
		}
		r.res.Evals++
		if !hsSameKeys(obs, spec.After) {
			r.fail("limited-clear-error", "%s reported a missing child trie but the model expects a change: observed %s want %s", o, hsDump(obs), hsDump(spec.After))
			return
		}
		m.ApplyChild(o.C, spec)
		return
	}
	if lim < 0 {
		// unlimited kill: plain contents comparison happens in observe(); the flag is only counted (as in rtstorage)
		r.res.Evals++
		if !all {
			r.count("host_flag_unlimited_kill_false")
		}
		m.ApplyChild(o.C, spec)
		return
	}
	r.classifyLimited("child:"+o.C, o, lim, depth, obs, spec, dev, devFlag, alts, int(del), all, haveCount, func(res hsClearResult) { m.ApplyChild(o.C, res) })
}

// readChild reconstructs the visible contents of a child through ext_default_child_storage_get.
func (r *hsRunner) readChild(c string) *vcommon.OrdMap {
	obs := vcommon.NewOrdMap()
	for _, k := range hsChildKeys {
		if v, some := r.vc.hCGet([]byte(c), []byte(k)); some {
			obs.Put([]byte(k), v)
		}
	}
	return obs
}

func hsDump(m *vcommon.OrdMap) string {
	ks, vs := m.Entries()
	var sb strings.Builder
	sb.WriteString("{")
	for i := range ks {
		if i > 0 {
			sb.WriteString(" ")
		}
		fmt.Fprintf(&sb, "%s=%s", ks[i], vs[i])
	}
	sb.WriteString("}")
	return sb.String()
}

const (
	hsK3 = "C08-K3" // pkg/trie/inmemory keeps child tries in a map keyed by root hash: identical children alias
	hsK1 = "C08-K1" // limited clear in a transaction: one sorted pass, overlay upserts beyond the cut survive / are uncharged
	hsK2 = "C08-K2" // limited clear in a transaction: allDeleted compared against every overlay upsert of the namespace
)

// classifyLimited: copied from rtstorage (same predicates, same counted-only classes; counters prefixed host_).
func (r *hsRunner) classifyLimited(ns string, o hsOp, lim, depth int, obs *vcommon.OrdMap, spec, dev hsClearResult, devFlag bool,
	alts []hsClearResult, del int, all, haveCount bool, install func(hsClearResult)) {
	r.res.Evals++
	if len(spec.Deleted) > 0 && !spec.All {
		r.count("host_limited_clear_cut_short")
	}
	if spec.Overlay > 0 && spec.Backend > 0 {
		r.count("host_limited_clear_overlay_and_backend")
	}
	if lim == 0 {
		r.count("host_limited_clear_limit0")
	}
	chosen := spec
	switch {
	case hsSameKeys(obs, spec.After):
		r.count("host_limited_contents_eq_substrate")
	default:
		matched := false
		for i, a := range alts {
			if hsSameKeys(obs, a.After) {
				r.count(fmt.Sprintf("host_limit_charging_ambiguous_reading_%d", i))
				chosen, matched = a, true
				break
			}
		}
		if !matched && depth > 0 && hsSameKeys(obs, dev.After) {
			matched = true
			chosen = dev
			r.known(hsK1, "%s on %s: observed %s, Substrate %s (overlay keys %d, backend charged %d)", o, ns, hsDump(obs), hsDump(spec.After), spec.Overlay, spec.Loops)
			r.count("host_known_K1")
		}
		if !matched {
			r.fail("limited-clear-contents", "%s on %s: observed %s, Substrate semantics give %s", o, ns, hsDump(obs), hsDump(spec.After))
			return
		}
	}
	install(chosen)
	r.res.Evals++
	wantAll := spec.All
	switch {
	case all == wantAll:
		r.count("host_limited_flag_eq")
	case spec.ShadowedLeft:
		r.count("host_limited_flag_ambiguous_shadowed")
	case depth > 0 && all == devFlag:
		r.known(hsK2, "%s on %s: allDeleted=%v, Substrate says %v (contents after: %s)", o, ns, all, wantAll, hsDump(obs))
		r.count("host_known_K2")
	case depth == 0:
		r.count("host_limited_flag_differs_depth0")
	default:
		r.fail("limited-clear-flag", "%s on %s: allDeleted=%v want %v (not explained by C08-K2)", o, ns, all, wantAll)
	}
	if !haveCount {
		return
	}
	switch del {
	case spec.Backend:
		r.count("host_limited_count_eq_backend_deleted")
	case spec.Loops:
		r.count("host_limited_count_eq_backend_loops")
	case spec.Overlay + spec.Backend:
		r.count("host_limited_count_eq_unique")
	default:
		r.count("host_limited_count_other")
	}
}

// ---- observing ---------------------------------------------------------------

func (r *hsRunner) backendRoots() map[string][]byte {
	if r.rootsDirty {
		r.roots = map[string][]byte{}
		b := r.m.backend()
		for c, x := range b.child {
			if x.Len() > 0 {
				h := vcommon.SpecRoot(x, r.version)
				r.roots[c] = h[:]
			}
		}
		r.rootsDirty = false
	}
	return r.roots
}

func (r *hsRunner) expectedMainFull() *vcommon.OrdMap {
	full := r.m.top().main.Clone()
	for c, h := range r.backendRoots() {
		full.Put([]byte(hsChildRootPrefix+c), h)
	}
	return full
}

// readPlan picks (offset, buffer length) for a value of length n: offsets 0, inside, n-1, n, n+1, far
// beyond; buffers empty, shorter than / equal to / longer than what is left.
func (r *hsRunner) readPlan(n int) (offset uint32, bufLen int) {
	r.rot++
	offs := []int{0, 1, n / 2, n - 1, n, n + 1, n + 40}
	off := offs[r.rot%len(offs)]
	if off < 0 {
		off = 0
	}
	left := n - off
	if left < 0 {
		left = 0
	}
	bufs := []int{0, 1, left - 1, left, left + 3, 64}
	bl := bufs[(r.rot/len(offs))%len(bufs)]
	if bl < 0 {
		bl = 0
	}
	return uint32(off), bl
}

// checkRead: Substrate's read: None for a missing key; otherwise Some(len(value[min(offset,len):])) with
// min(that, buffer length) bytes copied to the start of the buffer and nothing else written.
func (r *hsRunner) checkRead(fn, what string, out hsReadOut, want []byte, present bool, offset uint32, bufLen int) bool {
	if !present {
		if out.Some {
			r.fail("read:"+fn, "%s offset %d: Some(%d) for a key without value", what, offset, out.Remaining)
			return false
		}
		if !bytes.Equal(out.Buf, bytes.Repeat([]byte{hsCanary}, bufLen)) || !out.GuardOK {
			r.fail("read:"+fn, "%s: output buffer written although the key has no value", what)
			return false
		}
		return true
	}
	off := int(offset)
	if off > len(want) {
		off = len(want)
		r.count("host_read_offset_beyond_value")
	}
	data := want[off:]
	if !out.Some || int(out.Remaining) != len(data) {
		got := "None"
		if out.Some {
			got = fmt.Sprintf("Some(%d)", out.Remaining)
		}
		r.fail("read:"+fn, "%s offset %d (value of %d bytes): returned %s want Some(%d)", what, offset, len(want), got, len(data))
		return false
	}
	written := min(len(data), bufLen)
	if written < len(data) {
		r.count("host_read_buffer_shorter_than_rest")
	}
	if off > 0 && off < len(want) {
		r.count("host_read_offset_inside_value")
	}
	wantBuf := append(append([]byte{}, data[:written]...), bytes.Repeat([]byte{hsCanary}, bufLen-written)...)
	if !bytes.Equal(out.Buf, wantBuf) {
		r.fail("read:"+fn, "%s offset %d buffer %d (value %q): buffer holds %q want %q", what, offset, bufLen, want, out.Buf, wantBuf)
		return false
	}
	if !out.GuardOK {
		r.fail("read:"+fn, "%s offset %d buffer %d (value of %d bytes): bytes BEHIND the output buffer were overwritten", what, offset, bufLen, len(want))
		return false
	}
	return true
}

func (r *hsRunner) observe() {
	if r.res.Fail != nil {
		return
	}
	vc, m := r.vc, r.m
	top := m.top()
	full := r.expectedMainFull()
	ev := 0
	for _, k := range hsMainGetProbe() {
		got, some := vc.hGet([]byte(k))
		want, ok := full.Get([]byte(k))
		ev += 3
		if !r.wireCheck() {
			return
		}
		if some != ok || (ok && !bytes.Equal(got, want)) {
			class := "main-get"
			if strings.HasPrefix(k, hsChildRootPrefix) {
				class = "child-root-entry"
			}
			r.fail(class, "ext_storage_get(%q)=%s want %s", k, hsQ(got, some), hsQ(want, ok))
			return
		}
		if ex := vc.hExists([]byte(k)); ex != ok {
			r.fail("main-exists", "ext_storage_exists(%q)=%v want %v", k, ex, ok)
			return
		}
		off, bl := r.readPlan(len(want))
		out := vc.hRead([]byte(k), off, bl)
		if !r.wireCheck() {
			return
		}
		if !r.checkRead("ext_storage_read_version_1", fmt.Sprintf("read(%q)", k), out, want, ok, off, bl) {
			return
		}
	}
	for _, k := range hsMainNextProbe() {
		got, some := vc.hNextKey([]byte(k))
		want, ok := full.NextKey([]byte(k))
		ev++
		if !r.wireCheck() {
			return
		}
		if some != ok || (ok && !bytes.Equal(got, want)) {
			r.fail("main-nextkey", "ext_storage_next_key(%q)=%s want %s", k, hsQ(got, some), hsQ(want, ok))
			return
		}
		if !ok {
			r.count("host_next_key_none")
		}
	}
	for _, c := range hsChildNames {
		cm := top.child[c]
		if cm == nil {
			cm = vcommon.NewOrdMap()
		}
		for _, k := range hsChildKeys {
			got, some := vc.hCGet([]byte(c), []byte(k))
			want, ok := cm.Get([]byte(k))
			ev += 3
			if !r.wireCheck() {
				return
			}
			if some != ok || (ok && !bytes.Equal(got, want)) {
				r.fail("child-get", "ext_default_child_storage_get(%q,%q)=%s want %s", c, k, hsQ(got, some), hsQ(want, ok))
				return
			}
			if ex := vc.hCExists([]byte(c), []byte(k)); ex != ok {
				r.fail("child-exists", "ext_default_child_storage_exists(%q,%q)=%v want %v", c, k, ex, ok)
				return
			}
			off, bl := r.readPlan(len(want))
			out := vc.hCRead([]byte(c), []byte(k), off, bl)
			if !r.wireCheck() {
				return
			}
			if !ok {
				if cm.Len() > 0 {
					r.count("host_child_read_missing_key_in_live_child")
				} else {
					r.count("host_child_read_missing_child")
				}
			}
			if !r.checkRead("ext_default_child_storage_read_version_1", fmt.Sprintf("read(%q,%q)", c, k), out, want, ok, off, bl) {
				return
			}
		}
		for _, k := range hsChildNextProbe() {
			got, some := vc.hCNextKey([]byte(c), []byte(k))
			want, ok := cm.NextKey([]byte(k))
			ev++
			if !r.wireCheck() {
				return
			}
			if some != ok || (ok && !bytes.Equal(got, want)) {
				r.fail("child-nextkey", "ext_default_child_storage_next_key(%q,%q)=%s want %s", c, k, hsQ(got, some), hsQ(want, ok))
				return
			}
		}
	}
	if m.Depth() == 0 {
		// ext_storage_root needs a transaction to commit (block execution always runs inside one): an empty
		// transaction is opened for it; the root it returns is the root of the committed contents
		r.rot++
		which := 1 + r.rot%2
		vc.hStart()
		h := vc.hRoot(which, r.version)
		want := vcommon.SpecRoot(full, r.version)
		ev++
		if !r.wireCheck() {
			return
		}
		if !bytes.Equal(h, want[:]) {
			r.fail("root", "ext_storage_root_version_%d at depth 0 = %x want %x (contents %s)", which, h, want, hsDumpShort(full))
			return
		}
		r.count("host_root_compared")
		for i, c := range hsChildNames {
			cw := 1 + (r.rot+i)%2
			ch, exists := vc.hCRoot([]byte(c), cw, r.version)
			want, wantExists := r.backendRoots()[c]
			ev++
			if !r.wireCheck() {
				return
			}
			switch {
			case !exists && wantExists:
				r.fail("child-root", "ext_default_child_storage_root_version_%d(%q) reports no child trie, want %x", cw, c, want)
				return
			case exists && !wantExists:
				r.fail("child-root", "ext_default_child_storage_root_version_%d(%q)=%x but the child trie has no key", cw, c, ch)
				return
			case exists && !bytes.Equal(ch, want):
				r.fail("child-root", "ext_default_child_storage_root_version_%d(%q)=%x want %x", cw, c, ch, want)
				return
			}
			if exists {
				r.count("host_wire_convention_child_root_wrapped_in_option")
				r.count("host_child_root_compared")
			} else {
				r.count("host_child_root_missing_child")
			}
		}
		if len(r.backendRoots()) > 0 {
			r.count("host_root_compared_with_children")
		}
	}
	r.res.Evals += ev
}

func hsShortVal(v []byte) string {
	if len(v) == 32 && !hsPrintable(v) {
		return fmt.Sprintf("#%x", v[:4])
	}
	return string(v)
}

func hsPrintable(v []byte) bool {
	for _, b := range v {
		if b < 0x20 || b > 0x7e {
			return false
		}
	}
	return true
}

func hsDumpShort(m *vcommon.OrdMap) string {
	ks, vs := m.Entries()
	var sb strings.Builder
	sb.WriteString("{")
	for i := range ks {
		if i > 0 {
			sb.WriteString(" ")
		}
		fmt.Fprintf(&sb, "%s=%s", ks[i], hsShortVal(vs[i]))
	}
	sb.WriteString("}")
	return sb.String()
}

// fingerprint renders every host-level observable of the real state (no model involved).
func (r *hsRunner) fingerprint() string {
	vc := r.vc
	var sb strings.Builder
	for _, k := range hsMainGetProbe() {
		v, some := vc.hGet([]byte(k))
		fmt.Fprintf(&sb, "G(%s)=%v,%s;", k, some, hsShortVal(v))
	}
	for _, k := range hsMainNextProbe() {
		v, some := vc.hNextKey([]byte(k))
		fmt.Fprintf(&sb, "N(%s)=%v,%s;", k, some, v)
	}
	for _, c := range hsChildNames {
		for _, k := range hsChildKeys {
			v, some := vc.hCGet([]byte(c), []byte(k))
			fmt.Fprintf(&sb, "CG(%s/%s)=%v,%s;", c, k, some, v)
		}
		for _, k := range hsChildNextProbe() {
			v, some := vc.hCNextKey([]byte(c), []byte(k))
			fmt.Fprintf(&sb, "CN(%s/%s)=%v,%s;", c, k, some, v)
		}
	}
	return sb.String()
}
