//go:build verif

package wazero_runtime

// Host scaffolding of engine hoststorage (own copy of the idea used by engine
// wazero, different identifiers: two engines never share a binary). One wazero
// runtime + one memory-only guest per process; per history a fresh real
// FreeingBumpHeapAllocator, a real storage.TrieState over an empty in-memory
// trie and the context value the ext_* host functions look up. Every argument
// is copied into guest memory through the allocator, every result is read back
// from guest memory, decoded STRICTLY (the whole returned span must be exactly
// one value of the expected type) and freed; argument buffers are overwritten
// with 0xEE before they are freed (a runtime reuses its memory), so a host
// function that keeps a view into guest memory shows up as a corrupted value.

import (
	"bytes"
	"context"
	"encoding/binary"
	"fmt"
	"io"
	"sync"

	"github.com/ChainSafe/gossamer/internal/log"
	"github.com/ChainSafe/gossamer/lib/runtime"
	"github.com/ChainSafe/gossamer/lib/runtime/allocator"
	"github.com/ChainSafe/gossamer/lib/runtime/storage"
	"github.com/ChainSafe/gossamer/pkg/trie"
	inmemory_trie "github.com/ChainSafe/gossamer/pkg/trie/inmemory"
	"github.com/tetratelabs/wazero"
	"github.com/tetratelabs/wazero/api"
)

// hsWasm = (module (memory (export "memory") 20)), hand assembled.
var hsWasm = []byte{
	0x00, 0x61, 0x73, 0x6d, 0x01, 0x00, 0x00, 0x00,
	0x05, 0x03, 0x01, 0x00, 0x14,
	0x07, 0x0a, 0x01, 0x06, 'm', 'e', 'm', 'o', 'r', 'y', 0x02, 0x00,
}

const hsHeapBase = 4096

type hsHost struct {
	rt  wazero.Runtime
	mod api.Module
}

var (
	hsHostOnce sync.Once
	hsHostVal  *hsHost
	hsHostErr  error
)

func hsGetHost() (*hsHost, error) {
	hsHostOnce.Do(func() {
		// the host functions log every None / swallowed error: keep the shard logs small
		logger.Patch(log.SetLevel(log.Critical), log.SetWriter(io.Discard))
		ctx := context.Background()
		rt := wazero.NewRuntimeWithConfig(ctx, wazero.NewRuntimeConfigInterpreter())
		mod, err := rt.Instantiate(ctx, hsWasm)
		if err != nil {
			hsHostErr = fmt.Errorf("instantiating the memory-only guest: %w", err)
			return
		}
		if mod.Memory() == nil {
			hsHostErr = fmt.Errorf("guest exports no memory")
			return
		}
		hsHostVal = &hsHost{rt: rt, mod: mod}
	})
	return hsHostVal, hsHostErr
}

// hsCall is the calling environment of one history.
type hsCall struct {
	h    *hsHost
	mem  api.Memory
	ctx  context.Context
	rc   *runtime.Context
	ts   *storage.TrieState
	wire *hsWire // first wire-format refutation (nil: none)
	// harness trouble (allocator refused, guest memory out of range): inconclusive, not a verdict
	trouble string
	calls   map[string]int
	args    []uint32 // argument allocations of the call being prepared
	empty   uint32   // 1-byte allocation whose address stands for empty byte strings
}

type hsWire struct{ Fn, Msg string }

func (h *hsHost) newCall(version int) *hsCall {
	ts := storage.NewTrieState(inmemory_trie.NewEmptyTrie())
	if version == 1 {
		ts.SetVersion(trie.V1)
	}
	rc := &runtime.Context{Storage: ts, Allocator: allocator.NewFreeingBumpHeapAllocator(hsHeapBase)}
	vc := &hsCall{h: h, mem: h.mod.Memory(), rc: rc, ts: ts, calls: map[string]int{},
		ctx: context.WithValue(context.Background(), runtimeContextKey, rc)}
	p, err := rc.Allocator.Allocate(vc.mem, 1)
	if err != nil {
		vc.trouble = "allocating the empty-string anchor: " + err.Error()
	}
	vc.empty = p
	return vc
}

func (vc *hsCall) wireFail(fn, format string, a ...any) {
	if vc.wire == nil {
		vc.wire = &hsWire{Fn: fn, Msg: fmt.Sprintf(format, a...)}
	}
}

// arg copies data into freshly allocated guest memory (as the runtime would) and
// returns the pointer-size span; the allocation is released by done().
func (vc *hsCall) arg(data []byte) uint64 {
	if len(data) == 0 {
		return newPointerSize(vc.empty, 0)
	}
	ptr, err := vc.rc.Allocator.Allocate(vc.mem, uint32(len(data)))
	if err != nil {
		if vc.trouble == "" {
			vc.trouble = fmt.Sprintf("allocating %d guest bytes: %v", len(data), err)
		}
		return newPointerSize(vc.empty, 0)
	}
	if !vc.mem.Write(ptr, data) {
		if vc.trouble == "" {
			vc.trouble = fmt.Sprintf("guest write of %d bytes at %d out of range", len(data), ptr)
		}
	}
	vc.args = append(vc.args, ptr, uint32(len(data)))
	return newPointerSize(ptr, uint32(len(data)))
}

// done overwrites and frees the argument buffers of the finished call.
func (vc *hsCall) done(fn string) {
	vc.calls[fn]++
	for i := 0; i+1 < len(vc.args); i += 2 {
		ptr, n := vc.args[i], vc.args[i+1]
		vc.mem.Write(ptr, bytes.Repeat([]byte{0xEE}, int(n)))
		if err := vc.rc.Allocator.Deallocate(vc.mem, ptr); err != nil && vc.trouble == "" {
			vc.trouble = fmt.Sprintf("freeing argument buffer %d: %v", ptr, err)
		}
	}
	vc.args = vc.args[:0]
}

// result copies the bytes of a returned span out of guest memory and frees them.
func (vc *hsCall) result(fn string, span uint64) ([]byte, bool) {
	ptr, size := splitPointerSize(span)
	if span == 0 {
		return nil, false
	}
	b, ok := vc.mem.Read(ptr, size)
	if !ok {
		vc.wireFail(fn, "returned span ptr=%d size=%d lies outside guest memory", ptr, size)
		return nil, false
	}
	out := append([]byte{}, b...)
	if err := vc.rc.Allocator.Deallocate(vc.mem, ptr); err != nil {
		vc.wireFail(fn, "returned pointer %d was not handed out by the runtime allocator: %v", ptr, err)
	}
	return out, true
}

// ---- strict SCALE decoders of the return types ----------------------------------

// hsCompact decodes a canonical Compact<u32> (modes 0..2 are enough for the lengths used here).
func hsCompact(b []byte) (n uint32, used int, ok bool) {
	if len(b) == 0 {
		return 0, 0, false
	}
	switch b[0] & 3 {
	case 0:
		return uint32(b[0] >> 2), 1, true
	case 1:
		if len(b) < 2 {
			return 0, 0, false
		}
		v := uint32(binary.LittleEndian.Uint16(b)) >> 2
		return v, 2, v >= 64
	case 2:
		if len(b) < 4 {
			return 0, 0, false
		}
		v := binary.LittleEndian.Uint32(b) >> 2
		return v, 4, v >= 1<<14
	}
	return 0, 0, false
}

// hsOptBytes: Option<Vec<u8>> = 00 | 01 compact(len) bytes, nothing else.
func hsOptBytes(b []byte) (some bool, val []byte, err error) {
	switch {
	case len(b) == 1 && b[0] == 0:
		return false, nil, nil
	case len(b) >= 2 && b[0] == 1:
		n, used, ok := hsCompact(b[1:])
		if !ok || 1+used+int(n) != len(b) {
			return false, nil, fmt.Errorf("not an Option<Vec<u8>>: % x", b)
		}
		return true, b[1+used:], nil
	}
	return false, nil, fmt.Errorf("not an Option<Vec<u8>>: % x", b)
}

// hsOptU32: Option<u32> = 00 | 01 le32.
func hsOptU32(b []byte) (some bool, v uint32, err error) {
	switch {
	case len(b) == 1 && b[0] == 0:
		return false, 0, nil
	case len(b) == 5 && b[0] == 1:
		return true, binary.LittleEndian.Uint32(b[1:]), nil
	}
	return false, 0, fmt.Errorf("not an Option<u32>: % x", b)
}

// hsKillResult: KillStorageResult = 00 le32 (AllRemoved) | 01 le32 (SomeRemaining).
func hsKillResult(b []byte) (all bool, n uint32, err error) {
	if len(b) == 5 && b[0] <= 1 {
		return b[0] == 0, binary.LittleEndian.Uint32(b[1:]), nil
	}
	return false, 0, fmt.Errorf("not a KillStorageResult: % x", b)
}

func hsLE32(v uint32) []byte {
	b := make([]byte, 4)
	binary.LittleEndian.PutUint32(b, v)
	return b
}

// ---- main storage ------------------------------------------------------------------

func (vc *hsCall) hSet(k, v []byte) {
	ext_storage_set_version_1(vc.ctx, vc.h.mod, vc.arg(k), vc.arg(v))
	vc.done("ext_storage_set_version_1")
}

func (vc *hsCall) hClear(k []byte) {
	ext_storage_clear_version_1(vc.ctx, vc.h.mod, vc.arg(k))
	vc.done("ext_storage_clear_version_1")
}

func (vc *hsCall) hGet(k []byte) ([]byte, bool) {
	const fn = "ext_storage_get_version_1"
	span := ext_storage_get_version_1(vc.ctx, vc.h.mod, vc.arg(k))
	vc.done(fn)
	b, ok := vc.result(fn, span)
	if !ok {
		vc.wireFail(fn, "null result")
		return nil, false
	}
	some, val, err := hsOptBytes(b)
	if err != nil {
		vc.wireFail(fn, "%v", err)
	}
	return val, some
}

func (vc *hsCall) hExists(k []byte) bool {
	const fn = "ext_storage_exists_version_1"
	x := ext_storage_exists_version_1(vc.ctx, vc.h.mod, vc.arg(k))
	vc.done(fn)
	if x > 1 {
		vc.wireFail(fn, "bool result %d", x)
	}
	return x == 1
}

func (vc *hsCall) hNextKey(k []byte) ([]byte, bool) {
	const fn = "ext_storage_next_key_version_1"
	span := ext_storage_next_key_version_1(vc.ctx, vc.h.mod, vc.arg(k))
	vc.done(fn)
	b, ok := vc.result(fn, span)
	if !ok {
		vc.wireFail(fn, "null result")
		return nil, false
	}
	some, val, err := hsOptBytes(b)
	if err != nil {
		vc.wireFail(fn, "%v", err)
	}
	return val, some
}

// hsReadOut is what one ext_*_read call left behind.
type hsReadOut struct {
	Some      bool
	Remaining uint32
	Buf       []byte // the bufLen bytes of the output buffer after the call
	GuardOK   bool   // the 8 bytes behind the buffer still hold the canary
}

const hsCanary = 0xC5

// readBuf allocates bufLen+8 canary bytes; the host function is told bufLen.
func (vc *hsCall) readBuf(bufLen int) (ptr uint32, span uint64) {
	ptr, err := vc.rc.Allocator.Allocate(vc.mem, uint32(bufLen+8))
	if err != nil {
		if vc.trouble == "" {
			vc.trouble = "allocating a read buffer: " + err.Error()
		}
		return vc.empty, newPointerSize(vc.empty, 0)
	}
	vc.mem.Write(ptr, bytes.Repeat([]byte{hsCanary}, bufLen+8))
	return ptr, newPointerSize(ptr, uint32(bufLen))
}

func (vc *hsCall) readFinish(fn string, ptr uint32, bufLen int, span uint64) (out hsReadOut) {
	vc.done(fn)
	if b, ok := vc.mem.Read(ptr, uint64(bufLen+8)); ok {
		out.Buf = append([]byte{}, b[:bufLen]...)
		out.GuardOK = bytes.Equal(b[bufLen:], bytes.Repeat([]byte{hsCanary}, 8))
	}
	if ptr != vc.empty {
		_ = vc.rc.Allocator.Deallocate(vc.mem, ptr)
	}
	b, ok := vc.result(fn, span)
	if !ok {
		vc.wireFail(fn, "null result")
		return out
	}
	some, n, err := hsOptU32(b)
	if err != nil {
		vc.wireFail(fn, "%v", err)
	}
	out.Some, out.Remaining = some, n
	return out
}

func (vc *hsCall) hRead(k []byte, offset uint32, bufLen int) hsReadOut {
	const fn = "ext_storage_read_version_1"
	ptr, bspan := vc.readBuf(bufLen)
	span := ext_storage_read_version_1(vc.ctx, vc.h.mod, vc.arg(k), bspan, offset)
	return vc.readFinish(fn, ptr, bufLen, span)
}

func (vc *hsCall) hClearPrefixV1(p []byte) {
	ext_storage_clear_prefix_version_1(vc.ctx, vc.h.mod, vc.arg(p))
	vc.done("ext_storage_clear_prefix_version_1")
}

// hClearPrefixV2: limit < 0 = None. Argument Option<u32>, result KillStorageResult (both as in the host API).
func (vc *hsCall) hClearPrefixV2(p []byte, limit int64) (all bool, n uint32) {
	const fn = "ext_storage_clear_prefix_version_2"
	lim := []byte{0}
	if limit >= 0 {
		lim = append([]byte{1}, hsLE32(uint32(limit))...)
	}
	span := ext_storage_clear_prefix_version_2(vc.ctx, vc.h.mod, vc.arg(p), vc.arg(lim))
	vc.done(fn)
	b, ok := vc.result(fn, span)
	if !ok {
		vc.wireFail(fn, "null result")
		return false, 0
	}
	all, n, err := hsKillResult(b)
	if err != nil {
		vc.wireFail(fn, "%v", err)
	}
	return all, n
}

// hRoot: ext_storage_root_version_1 (which=1) / _2 (which=2): 32 raw bytes.
func (vc *hsCall) hRoot(which, version int) (root []byte) {
	fn := "ext_storage_root_version_1"
	var span uint64
	if which == 2 {
		fn = "ext_storage_root_version_2"
		span = ext_storage_root_version_2(vc.ctx, vc.h.mod, uint32(version))
	} else {
		span = ext_storage_root_version_1(vc.ctx, vc.h.mod)
	}
	vc.done(fn)
	b, ok := vc.result(fn, span)
	if !ok || len(b) != 32 {
		vc.wireFail(fn, "result is not 32 bytes: % x", b)
		return nil
	}
	return b
}

func (vc *hsCall) hStart() {
	ext_storage_start_transaction_version_1(vc.ctx, vc.h.mod)
	vc.done("ext_storage_start_transaction_version_1")
}
func (vc *hsCall) hCommit() {
	ext_storage_commit_transaction_version_1(vc.ctx, vc.h.mod)
	vc.done("ext_storage_commit_transaction_version_1")
}
func (vc *hsCall) hRollback() {
	ext_storage_rollback_transaction_version_1(vc.ctx, vc.h.mod)
	vc.done("ext_storage_rollback_transaction_version_1")
}

// ---- default child storage -----------------------------------------------------------
//
// Wire conventions of the code that differ from the Polkadot host API are HONOURED here
// (C08 is about storage semantics, not about the wire format) and counted by the runner
// under host_wire_convention_*:
//   - ext_default_child_storage_clear_prefix_version_2 decodes its limit as Vec<u8>
//     (00 = None, 10 le32 = Some) and returns Option<Vec<u8>> around the KillStorageResult;
//   - ext_default_child_storage_storage_kill_version_2/3 decode the limit as Option<Vec<u8>>
//     (00 | 01 10 le32); version_3 returns Option<Vec<u8>> around the KillStorageResult,
//     None when the child trie does not exist;
//   - ext_default_child_storage_root_version_1/2 return Option<Vec<u8>> around the root
//     (version_1: null pointer-size, version_2: empty Vec when there is no such child trie).

func (vc *hsCall) hCSet(c, k, v []byte) {
	ext_default_child_storage_set_version_1(vc.ctx, vc.h.mod, vc.arg(c), vc.arg(k), vc.arg(v))
	vc.done("ext_default_child_storage_set_version_1")
}

func (vc *hsCall) hCClear(c, k []byte) {
	ext_default_child_storage_clear_version_1(vc.ctx, vc.h.mod, vc.arg(c), vc.arg(k))
	vc.done("ext_default_child_storage_clear_version_1")
}

func (vc *hsCall) hCGet(c, k []byte) ([]byte, bool) {
	const fn = "ext_default_child_storage_get_version_1"
	span := ext_default_child_storage_get_version_1(vc.ctx, vc.h.mod, vc.arg(c), vc.arg(k))
	vc.done(fn)
	b, ok := vc.result(fn, span)
	if !ok {
		vc.wireFail(fn, "null result")
		return nil, false
	}
	some, val, err := hsOptBytes(b)
	if err != nil {
		vc.wireFail(fn, "%v", err)
	}
	return val, some
}

func (vc *hsCall) hCExists(c, k []byte) bool {
	const fn = "ext_default_child_storage_exists_version_1"
	x := ext_default_child_storage_exists_version_1(vc.ctx, vc.h.mod, vc.arg(c), vc.arg(k))
	vc.done(fn)
	if x > 1 {
		vc.wireFail(fn, "bool result %d", x)
	}
	return x == 1
}

func (vc *hsCall) hCNextKey(c, k []byte) ([]byte, bool) {
	const fn = "ext_default_child_storage_next_key_version_1"
	span := ext_default_child_storage_next_key_version_1(vc.ctx, vc.h.mod, vc.arg(c), vc.arg(k))
	vc.done(fn)
	b, ok := vc.result(fn, span)
	if !ok {
		vc.wireFail(fn, "null result")
		return nil, false
	}
	some, val, err := hsOptBytes(b)
	if err != nil {
		vc.wireFail(fn, "%v", err)
	}
	return val, some
}

func (vc *hsCall) hCRead(c, k []byte, offset uint32, bufLen int) hsReadOut {
	const fn = "ext_default_child_storage_read_version_1"
	ptr, bspan := vc.readBuf(bufLen)
	span := ext_default_child_storage_read_version_1(vc.ctx, vc.h.mod, vc.arg(c), vc.arg(k), bspan, offset)
	return vc.readFinish(fn, ptr, bufLen, span)
}

func (vc *hsCall) hCClearPrefixV1(c, p []byte) {
	ext_default_child_storage_clear_prefix_version_1(vc.ctx, vc.h.mod, vc.arg(c), vc.arg(p))
	vc.done("ext_default_child_storage_clear_prefix_version_1")
}

// hsWrappedKill decodes Option<Vec<u8>>(KillStorageResult), the code's convention for the child functions.
func (vc *hsCall) hsWrappedKill(fn string, span uint64) (present, all bool, n uint32) {
	b, ok := vc.result(fn, span)
	if !ok {
		vc.wireFail(fn, "null result")
		return false, false, 0
	}
	some, inner, err := hsOptBytes(b)
	if err != nil {
		vc.wireFail(fn, "%v", err)
		return false, false, 0
	}
	if !some {
		return false, false, 0
	}
	all, n, err = hsKillResult(inner)
	if err != nil {
		vc.wireFail(fn, "inside the Option<Vec<u8>>: %v", err)
	}
	return true, all, n
}

func (vc *hsCall) hCClearPrefixV2(c, p []byte, limit int64) (all bool, n uint32) {
	const fn = "ext_default_child_storage_clear_prefix_version_2"
	lim := []byte{0}
	if limit >= 0 {
		lim = append([]byte{0x10}, hsLE32(uint32(limit))...)
	}
	span := ext_default_child_storage_clear_prefix_version_2(vc.ctx, vc.h.mod, vc.arg(c), vc.arg(p), vc.arg(lim))
	vc.done(fn)
	present, all, n := vc.hsWrappedKill(fn, span)
	if !present && vc.wire == nil {
		vc.wireFail(fn, "returned None")
	}
	return all, n
}

func (vc *hsCall) hCKillV1(c []byte) {
	ext_default_child_storage_storage_kill_version_1(vc.ctx, vc.h.mod, vc.arg(c))
	vc.done("ext_default_child_storage_storage_kill_version_1")
}

func hsOptVecLimit(limit int64) []byte {
	if limit < 0 {
		return []byte{0}
	}
	return append([]byte{1, 0x10}, hsLE32(uint32(limit))...)
}

func (vc *hsCall) hCKillV2(c []byte, limit int64) (all bool) {
	const fn = "ext_default_child_storage_storage_kill_version_2"
	x := ext_default_child_storage_storage_kill_version_2(vc.ctx, vc.h.mod, vc.arg(c), vc.arg(hsOptVecLimit(limit)))
	vc.done(fn)
	if x > 1 {
		vc.wireFail(fn, "bool result %d", x)
	}
	return x == 1
}

func (vc *hsCall) hCKillV3(c []byte, limit int64) (present, all bool, n uint32) {
	const fn = "ext_default_child_storage_storage_kill_version_3"
	span := ext_default_child_storage_storage_kill_version_3(vc.ctx, vc.h.mod, vc.arg(c), vc.arg(hsOptVecLimit(limit)))
	vc.done(fn)
	return vc.hsWrappedKill(fn, span)
}

// hCRoot: which = 1 / 2. exists=false: the function reported "no such child trie".
func (vc *hsCall) hCRoot(c []byte, which, version int) (root []byte, exists bool) {
	fn := "ext_default_child_storage_root_version_1"
	var span uint64
	if which == 2 {
		fn = "ext_default_child_storage_root_version_2"
		span = ext_default_child_storage_root_version_2(vc.ctx, vc.h.mod, vc.arg(c), uint32(version))
	} else {
		span = ext_default_child_storage_root_version_1(vc.ctx, vc.h.mod, vc.arg(c))
	}
	vc.done(fn)
	if span == 0 && which == 1 {
		return nil, false
	}
	b, ok := vc.result(fn, span)
	if !ok {
		vc.wireFail(fn, "null result")
		return nil, false
	}
	if which == 2 && len(b) == 1 && b[0] == 0 {
		return nil, false
	}
	some, val, err := hsOptBytes(b)
	if err != nil || !some || len(val) != 32 {
		vc.wireFail(fn, "result is not Option<Vec<u8>> of a 32-byte root: % x", b)
		return nil, false
	}
	return val, true
}
