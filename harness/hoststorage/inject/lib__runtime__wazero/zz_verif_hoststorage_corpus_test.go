//go:build verif

package wazero_runtime

// Regression histories COPIED from /verif/harness/rtstorage/corpus.go (identifiers prefixed); engine hoststorage
// replays them through the host functions, once per host-function version (Var 0 / 1).

type hsCorpusEntry struct {
	name    string
	version int
	ops     []hsOp
}

func hcPut(k, v string) hsOp            { return hsOp{K: hsPut, Key: k, Val: v} }
func hcDel(k string) hsOp               { return hsOp{K: hsDel, Key: k} }
func hcClr(p string) hsOp               { return hsOp{K: hsClr, Key: p} }
func hcClrlim(p string, l int) hsOp     { return hsOp{K: hsClrLim, Key: p, Lim: l} }
func hcCset(c, k, v string) hsOp        { return hsOp{K: hsCSet, C: c, Key: k, Val: v} }
func hcCdel(c, k string) hsOp           { return hsOp{K: hsCDel, C: c, Key: k} }
func hcCclr(c, p string) hsOp           { return hsOp{K: hsCClr, C: c, Key: p} }
func hcCclrlim(c, p string, l int) hsOp { return hsOp{K: hsCClrLim, C: c, Key: p, Lim: l} }
func hcCkill(c string) hsOp             { return hsOp{K: hsCKill, C: c} }
func hcCkilllim(c string, l int) hsOp   { return hsOp{K: hsCKillLim, C: c, Lim: l} }

var (
	hcStart    = hsOp{K: hsStart}
	hcCommit   = hsOp{K: hsCommit}
	hcRollback = hsOp{K: hsRollback}
)

// hsCorpus: seed-independent regression histories: the minimal witness of every
// defect this engine found (fixed on branch fix-rtstorage, or known finding).
var hsCorpus = []hsCorpusEntry{
	{"smoke", 0, []hsOp{hcPut("a", "1"), hcStart, hcPut("ab", "2"), hcCset("a", "a", "ca1"), hcCommit}},
	// fixed a1de0986f: empty prefix inside a transaction never terminated
	{"hang-empty-prefix-child-limit", 0, []hsOp{hcCset("c", "b", "1"), hcStart, hcCclrlim("c", "", 4)}},
	{"hang-empty-prefix-child", 0, []hsOp{hcCset("c", "b", "1"), hcStart, hcCclr("c", "")}},
	// fixed c5756dd65: main / child namespace collision in storageDiff
	{"ns-main-delete-wipes-child-overlay", 0, []hsOp{hcStart, hcCset("a", "b", "1"), hcDel("a")}},
	{"ns-main-delete-hides-child-nextkey", 0, []hsOp{hcCset("ab", "b", "1"), hcStart, hcDel("ab")}},
	{"ns-child-kill-hides-main-key", 0, []hsOp{hcCset("ab", "abc", "1"), hcPut("ab", "2"), hcStart, hcCkill("ab")}},
	{"ns-child-kill-nolimit-hides-main-key", 0, []hsOp{hcCset("ab", "abc", "1"), hcPut("ab", "2"), hcStart, hcCkilllim("ab", -1)}},
	{"ns-child-write-undoes-main-delete", 0, []hsOp{hcPut("ab", "1"), hcStart, hcDel("ab"), hcCset("ab", "abc", "2")}},
	{"ns-hcCommit-main-delete-removes-child", 0, []hsOp{hcPut("a", "1"), hcCset("a", "a", "2"), hcStart, hcDel("a"), hcCommit}},
	{"ns-hcCommit-child-kill-removes-main-key", 0, []hsOp{hcPut("a", "1"), hcCset("a", "a", "2"), hcStart, hcCkill("a"), hcPut("a", "3"), hcCommit}},
	{"child-killed-still-served-from-state", 0, []hsOp{hcCset("c", "a", "1"), hcStart, hcCkill("c")}},
	{"child-recreated-after-kill", 0, []hsOp{hcCset("c", "a", "1"), hcStart, hcCkill("c"), hcCset("c", "b", "2"), hcCommit}},
	{"child-recreated-after-kill-hcRollback", 0, []hsOp{hcCset("c", "a", "1"), hcStart, hcStart, hcCkill("c"), hcCset("c", "b", "2"), hcRollback, hcCommit}},
	// fixed b139a951b: key equal to the cleared prefix
	{"prefix-equals-key-main", 0, []hsOp{hcPut("abc", "1"), hcStart, hcClr("abc")}},
	{"prefix-equals-key-main-limit", 0, []hsOp{hcPut("abc", "1"), hcStart, hcClrlim("abc", 3)}},
	{"prefix-equals-key-child", 0, []hsOp{hcCset("a", "ab", "1"), hcStart, hcCclr("a", "ab")}},
	// fixed 6aa2c70a1: child key listing ignores the overlay
	{"listing-ignores-overlay-delete", 0, []hsOp{hcCset("c", "b", "1"), hcStart, hcCdel("c", "b")}},
	{"listing-ignores-overlay-upsert", 0, []hsOp{hcCset("ab", "ab", "1"), hcStart, hcCset("ab", "abc", "2")}},
	// fixed 1c6d6c974: child key deleted then written in one transaction is lost on hcCommit
	{"child-delete-then-write", 0, []hsOp{hcStart, hcCdel("c", "ab"), hcCset("c", "ab", "1"), hcCommit}},
	{"child-delete-then-write-on-state", 0, []hsOp{hcCset("c", "ab", "0"), hcCset("c", "a", "0"), hcStart, hcCdel("c", "ab"), hcCset("c", "ab", "1"), hcCommit}},
	// fixed a31a04fdd: child clears outside a transaction leave the child root entry stale
	{"depth0-child-clear-limit-stale-root", 0, []hsOp{hcCset("ab", "abc", "1"), hcCclrlim("ab", "abc", 4)}},
	{"depth0-child-clear-stale-root", 0, []hsOp{hcCset("ab", "abc", "1"), hcCset("ab", "b", "2"), hcCclr("ab", "a")}},
	{"depth0-child-kill-limit-stale-root", 0, []hsOp{hcCset("c", "a", "1"), hcCset("c", "ab", "2"), hcCkilllim("c", 1)}},
	{"depth0-child-kill-limit0-deletes-all", 0, []hsOp{hcCset("c", "a", "1"), hcCset("c", "ab", "2"), hcCkilllim("c", 0)}},
	// known finding C08-K1: limited clear inside a transaction
	{"K1-overlay-key-beyond-cut-survives", 0, []hsOp{hcPut("a", "1"), hcStart, hcPut("ab", "2"), hcClrlim("a", 1)}},
	{"K1-limit0-deletes-no-overlay-key", 0, []hsOp{hcStart, hcPut("b", "1"), hcClrlim("b", 0)}},
	{"K1-child-kill-limit", 0, []hsOp{hcCset("c", "a", "1"), hcStart, hcCset("c", "b", "2"), hcCkilllim("c", 1), hcCommit}},
	{"K1-child-clear-limit", 0, []hsOp{hcCset("c", "a", "1"), hcStart, hcCset("c", "ab", "2"), hcCclrlim("c", "a", 1), hcCommit}},
	// known finding C08-K2: allDeleted flag
	{"K2-unrelated-overlay-key", 0, []hsOp{hcStart, hcPut("b", "1"), hcPut("a", "2"), hcClrlim("a", 3)}},
	{"K2-child", 0, []hsOp{hcStart, hcCset("c", "b", "1"), hcCset("c", "a", "2"), hcCclrlim("c", "a", 3)}},
	// two child tries with identical content (pkg/trie/inmemory keeps child tries in a map keyed by root hash)
	{"alias-identical-children-d0", 0, []hsOp{hcCset("a", "a", "x"), hcCset("c", "a", "x"), hcCset("a", "b", "y")}},
	{"alias-identical-children-tx", 0, []hsOp{hcStart, hcCset("a", "a", "x"), hcCset("c", "a", "x"), hcCommit, hcStart, hcCset("a", "b", "y"), hcCommit}},
	{"alias-identical-children-kill", 0, []hsOp{hcCset("a", "a", "x"), hcCset("c", "a", "x"), hcStart, hcCkill("a"), hcCommit}},
	// hcRollback exactness and V1 roots with long values
	{"hcRollback-nested", 1, []hsOp{hcPut("a", "0123456789012345678901234567890123456789"), hcCset("a", "a", "x"), hcStart, hcPut("a", "1"), hcStart, hcCkill("a"), hcDel("a"), hcRollback, hcCset("a", "b", "y"), hcRollback, hcStart, hcClr("a"), hcCommit}},
}
