//go:build verif

// FAITHFUL COPY of /verif/harness/rtstorage/model.go (the C08 reference model of
// Substrate's Ext + OverlayedChanges, written from the Substrate semantics and
// sharing no code with gossamer). Only the identifiers were prefixed with hs so
// that the copy can live inside package wazero_runtime (engine hoststorage drives
// the same model through the ext_storage_* / ext_default_child_storage_* host
// functions). Keep in sync with the original; do not change semantics here.
package wazero_runtime

import (
	"sort"

	"github.com/ChainSafe/gossamer/zz_verif/vcommon"
)

// hsChildRootPrefix is the main-trie key prefix under which the root of a
// default child trie is stored (Polkadot spec, child storage).
const hsChildRootPrefix = ":child_storage:default:"

// hsView is the merged (backend + overlay) contents seen at one nesting level,
// plus the set of keys the overlay has touched (written or deleted) since the
// backend was last committed. Substrate needs the touched set only for
// limited clears: overlay keys are all removed, only backend keys are charged.
type hsView struct {
	main    *vcommon.OrdMap
	child   map[string]*vcommon.OrdMap // absent or empty map = child trie does not exist
	tMain   map[string]bool
	tChild  map[string]map[string]bool
	version int
}

func hsNewView() *hsView {
	return &hsView{main: vcommon.NewOrdMap(), child: map[string]*vcommon.OrdMap{},
		tMain: map[string]bool{}, tChild: map[string]map[string]bool{}}
}

func (v *hsView) clone() *hsView {
	n := &hsView{main: v.main.Clone(), child: map[string]*vcommon.OrdMap{},
		tMain: map[string]bool{}, tChild: map[string]map[string]bool{}}
	for c, m := range v.child {
		n.child[c] = m.Clone()
	}
	for k := range v.tMain {
		n.tMain[k] = true
	}
	for c, s := range v.tChild {
		n.tChild[c] = map[string]bool{}
		for k := range s {
			n.tChild[c][k] = true
		}
	}
	return n
}

func (v *hsView) childMap(c string) *vcommon.OrdMap {
	m := v.child[c]
	if m == nil {
		m = vcommon.NewOrdMap()
		v.child[c] = m
	}
	return m
}

func (v *hsView) childTouched(c string) map[string]bool {
	s := v.tChild[c]
	if s == nil {
		s = map[string]bool{}
		v.tChild[c] = s
	}
	return s
}

// hsModel: frames[0] is the committed backend, frames[len-1] the current hsView.
type hsModel struct {
	frames []*hsView
}

// hsNewModel returns an empty model at depth 0.
func hsNewModel() *hsModel { return &hsModel{frames: []*hsView{hsNewView()}} }

func (m *hsModel) Depth() int       { return len(m.frames) - 1 }
func (m *hsModel) top() *hsView     { return m.frames[len(m.frames)-1] }
func (m *hsModel) backend() *hsView { return m.frames[0] }

// Start pushes a nested transaction.
func (m *hsModel) Start() { m.frames = append(m.frames, m.top().clone()) }

// Rollback discards the innermost transaction.
func (m *hsModel) Rollback() { m.frames = m.frames[:len(m.frames)-1] }

// Commit merges the innermost transaction into its parent; the outermost
// commit makes the hsView the new backend (nothing is "overlay" any more).
func (m *hsModel) Commit() {
	t := m.top()
	m.frames = m.frames[:len(m.frames)-1]
	m.frames[len(m.frames)-1] = t
	if len(m.frames) == 1 {
		t.tMain = map[string]bool{}
		t.tChild = map[string]map[string]bool{}
	}
}

func (m *hsModel) touchMain(k string) {
	if m.Depth() > 0 {
		m.top().tMain[k] = true
	}
}

func (m *hsModel) touchChild(c, k string) {
	if m.Depth() > 0 {
		m.top().childTouched(c)[k] = true
	}
}

// Put / Delete on the main namespace.
func (m *hsModel) Put(k, val string) { m.top().main.Put([]byte(k), []byte(val)); m.touchMain(k) }
func (m *hsModel) Delete(k string)   { m.top().main.Delete([]byte(k)); m.touchMain(k) }

// SetChild / ClearChild on a child namespace (disjoint from main).
func (m *hsModel) SetChild(c, k, val string) {
	m.top().childMap(c).Put([]byte(k), []byte(val))
	m.touchChild(c, k)
}
func (m *hsModel) ClearChild(c, k string) {
	m.top().childMap(c).Delete([]byte(k))
	m.touchChild(c, k)
}

// hsReading selects how backend keys are charged against the limit of a limited
// clear. Substrate (sp-io docs of clear_prefix v2 / Ext::limit_remove_from_backend):
// "keys in the overlay are not taken into account when deleting keys in the
// backend", i.e. every backend key with the prefix is charged, smallest first,
// whether or not the overlay already shadows it  => {true,true}.
type hsReading struct {
	ChargeOverwritten bool // charge backend keys the overlay had overwritten
	ChargeDeleted     bool // charge backend keys the overlay had already deleted
}

// Substrate is the reading the oracle treats as the specification.
var hsSubstrate = hsReading{true, true}

// hsClearResult describes one (possibly limited) clear.
type hsClearResult struct {
	After        *vcommon.OrdMap // contents of the namespace afterwards
	Deleted      []string        // keys removed from the hsView or re-deleted in the backend pass
	All          bool            // no backend key with the prefix was left un-iterated
	Overlay      int             // overlay keys with a value removed in pass 1
	Backend      int             // backend keys newly deleted in pass 2
	Loops        int             // backend keys charged
	ShadowedLeft bool            // every backend key beyond the cut is already invisible (flag ambiguous)
}

func hsHasPrefix(k, p string) bool { return len(k) >= len(p) && k[:len(p)] == p }

// hsLimitedClear is Substrate's clear_prefix / kill_child_storage on one
// namespace: (1) every overlay key with the prefix is deleted, uncharged;
// (2) backend keys with the prefix are visited in ascending order and deleted
// until `limit` of them have been charged (limit < 0: no limit).
func hsLimitedClear(cur, backend *vcommon.OrdMap, touched map[string]bool, prefix string, limit int, rd hsReading) hsClearResult {
	res := hsClearResult{After: cur.Clone(), All: true, ShadowedLeft: true}
	wasOver := map[string]bool{}
	for _, kb := range cur.KeysWithPrefix([]byte(prefix)) {
		k := string(kb)
		if touched[k] {
			wasOver[k] = true
			res.After.Delete(kb)
			res.Deleted = append(res.Deleted, k)
			res.Overlay++
		}
	}
	cut := false
	for _, kb := range backend.KeysWithPrefix([]byte(prefix)) {
		k := string(kb)
		charged := !touched[k] || (wasOver[k] && rd.ChargeOverwritten) || (!wasOver[k] && rd.ChargeDeleted)
		if cut {
			if _, visible := res.After.Get(kb); visible {
				res.ShadowedLeft = false
			}
			continue
		}
		if charged {
			if limit >= 0 && res.Loops == limit {
				cut = true
				res.All = false
				if _, visible := res.After.Get(kb); visible {
					res.ShadowedLeft = false
				}
				continue
			}
			res.Loops++
		}
		if res.After.Delete(kb) {
			res.Backend++
		}
		res.Deleted = append(res.Deleted, k)
	}
	if res.All {
		res.ShadowedLeft = false
	}
	return res
}

// hsDevClear is the DEVIATION model of known finding C08-K1 (gossamer's
// storageDiff.clearPrefix / deleteChildLimit with a limit): overlay upserts and
// backend keys are walked in ONE ascending pass that stops when the limit is
// exhausted; overlay upserts are not charged. Overlay upserts beyond the cut
// therefore survive. allOverlayUpserts is the number of overlay upserts of the
// whole namespace (the code compares the deleted count against all of them).
func hsDevClear(cur, backend *vcommon.OrdMap, touched map[string]bool, prefix string, limit int, dupBackendInCount bool) (res hsClearResult, flag bool, count int) {
	res = hsClearResult{After: cur.Clone()}
	ups := map[string]bool{}
	nUps := 0
	for _, kb := range cur.Keys() {
		if touched[string(kb)] {
			nUps++
			if hsHasPrefix(string(kb), prefix) {
				ups[string(kb)] = true
			}
		}
	}
	set := map[string]bool{}
	for k := range ups {
		set[k] = true
	}
	nBackendOnly := 0
	nDup := 0
	for _, kb := range backend.KeysWithPrefix([]byte(prefix)) {
		if !ups[string(kb)] {
			nBackendOnly++
		} else {
			nDup++
		}
		set[string(kb)] = true
	}
	keys := make([]string, 0, len(set))
	for k := range set {
		keys = append(keys, k)
	}
	sort.Strings(keys)
	for _, k := range keys {
		if limit == 0 {
			break
		}
		res.After.Delete([]byte(k))
		res.Deleted = append(res.Deleted, k)
		count++
		if ups[k] {
			if dupBackendInCount {
				if _, inB := backend.Get([]byte(k)); inB {
					count++
				}
			}
		} else {
			limit--
		}
	}
	total := nUps + nBackendOnly
	if dupBackendInCount {
		total += nDup
	}
	return res, count == total, count
}

// ClearMain applies clear_prefix on the main namespace under reading rd.
func (m *hsModel) ClearMain(prefix string, limit int, rd hsReading) hsClearResult {
	t := m.top()
	var res hsClearResult
	if m.Depth() == 0 {
		res = hsLimitedClear(t.main, t.main, map[string]bool{}, prefix, limit, rd)
	} else {
		res = hsLimitedClear(t.main, m.backend().main, t.tMain, prefix, limit, rd)
	}
	return res
}

// ApplyMain installs the result of a main clear.
func (m *hsModel) ApplyMain(res hsClearResult) {
	m.top().main = res.After
	for _, k := range res.Deleted {
		m.touchMain(k)
	}
}

func (m *hsModel) backendChild(c string) *vcommon.OrdMap {
	if b := m.backend().child[c]; b != nil {
		return b
	}
	return vcommon.NewOrdMap()
}

// ClearChildNS applies clear_prefix / kill (prefix "") on child c.
func (m *hsModel) ClearChildNS(c, prefix string, limit int, rd hsReading) hsClearResult {
	t := m.top()
	cur := t.childMap(c)
	if m.Depth() == 0 {
		return hsLimitedClear(cur, cur, map[string]bool{}, prefix, limit, rd)
	}
	return hsLimitedClear(cur, m.backendChild(c), t.childTouched(c), prefix, limit, rd)
}

// ApplyChild installs the result of a child clear.
func (m *hsModel) ApplyChild(c string, res hsClearResult) {
	m.top().child[c] = res.After
	for _, k := range res.Deleted {
		m.touchChild(c, k)
	}
}

// DevMain / DevChild evaluate the C08-K1 deviation model (only meaningful at depth > 0).
func (m *hsModel) DevMain(prefix string, limit int) (hsClearResult, bool, int) {
	t := m.top()
	return hsDevClear(t.main, m.backend().main, t.tMain, prefix, limit, false)
}
func (m *hsModel) DevChild(c, prefix string, limit int, kill bool) (hsClearResult, bool, int) {
	t := m.top()
	return hsDevClear(t.childMap(c), m.backendChild(c), t.childTouched(c), prefix, limit, kill)
}

// ChildExists reports whether child c has at least one key in the current hsView.
func (m *hsModel) ChildExists(c string) bool {
	x := m.top().child[c]
	return x != nil && x.Len() > 0
}

// ChildNames returns every child name that ever appeared in any frame.
func (m *hsModel) childNamesOf(v *hsView) []string {
	var out []string
	for c, x := range v.child {
		if x.Len() > 0 {
			out = append(out, c)
		}
	}
	sort.Strings(out)
	return out
}

// hsFullMain returns the main trie contents implied by hsView v: its main keys plus
// one entry per non-empty child trie holding that child's spec root.
func hsFullMain(v *hsView, version int) *vcommon.OrdMap {
	full := v.main.Clone()
	for c, x := range v.child {
		if x.Len() == 0 {
			continue
		}
		r := vcommon.SpecRoot(x, version)
		full.Put([]byte(hsChildRootPrefix+c), r[:])
	}
	return full
}
