//go:build verif

package wazero_runtime

// TestVerifC08Host: the C08 oracle of engine rtstorage (Substrate overlay model, copied) driven through the
// storage host functions of lib/runtime/wazero/imports.go. Generator, shrinker and reporting are copied from
// /verif/harness/rtstorage/c08_test.go; the generator additionally picks the host-function version, None
// limits and prefixes under `:child_storage:`.

import (
	"fmt"
	"strings"
	"testing"

	"github.com/ChainSafe/gossamer/zz_verif/vcommon"
)

type hsGen struct {
	r     *vcommon.Rand
	n     int
	long  bool
	depth int
	ops   []hsOp
}

func (g *hsGen) val(ns, k string) string {
	g.n++
	v := fmt.Sprintf("%s.%s.%d", ns, k, g.n)
	if g.long && g.r.Chance(1, 4) {
		v += strings.Repeat("~", 40-len(v)%8)
	}
	return v
}

func (g *hsGen) lim() int {
	switch g.r.Intn(8) {
	case 0:
		return 0
	case 1:
		return 100
	case 2:
		return -1 // None
	default:
		return g.r.Range(1, 4)
	}
}

func (g *hsGen) mainPrefix() string {
	if g.r.Chance(1, 7) {
		return vcommon.Pick(g.r, hsGuardedPrefixes)
	}
	return vcommon.Pick(g.r, hsMainPrefixes)
}

func (g *hsGen) dataOp() hsOp {
	r := g.r
	c := vcommon.Pick(r, hsChildNames)
	switch x := r.Intn(100); {
	case x < 22:
		k := vcommon.Pick(r, hsMainKeys)
		return hsOp{K: hsPut, Key: k, Val: g.val("m", k)}
	case x < 32:
		return hsOp{K: hsDel, Key: vcommon.Pick(r, hsMainKeys)}
	case x < 38:
		return hsOp{K: hsClr, Key: g.mainPrefix()}
	case x < 48:
		return hsOp{K: hsClrLim, Key: g.mainPrefix(), Lim: g.lim()}
	case x < 68:
		k := vcommon.Pick(r, hsChildKeys)
		return hsOp{K: hsCSet, C: c, Key: k, Val: g.val("c"+c, k)}
	case x < 75:
		return hsOp{K: hsCDel, C: c, Key: vcommon.Pick(r, hsChildKeys)}
	case x < 80:
		return hsOp{K: hsCClr, C: c, Key: vcommon.Pick(r, hsChildPrefixes)}
	case x < 87:
		return hsOp{K: hsCClrLim, C: c, Key: vcommon.Pick(r, hsChildPrefixes), Lim: g.lim()}
	case x < 91:
		return hsOp{K: hsCKill, C: c}
	default:
		l := g.lim()
		if r.Chance(1, 4) {
			l = -1
		}
		return hsOp{K: hsCKillLim, C: c, Lim: l, Var: r.Intn(2)}
	}
}

// hsGenOps: a populated backend (direct writes at depth 0, or a committed transaction), then a block-like
// history of nested transactions (same shape as rtstorage's genOps).
func hsGenOps(r *vcommon.Rand, maxOps int) (ops []hsOp, long bool) {
	g := &hsGen{r: r, long: r.Chance(1, 3)}
	npop := r.Range(0, 10)
	viaTx := r.Bool()
	if viaTx && npop > 0 {
		g.ops = append(g.ops, hsOp{K: hsStart})
	}
	for i := 0; i < npop; i++ {
		if r.Chance(3, 5) {
			k := vcommon.Pick(r, hsMainKeys)
			g.ops = append(g.ops, hsOp{K: hsPut, Key: k, Val: g.val("m", k)})
		} else {
			c, k := vcommon.Pick(r, hsChildNames), vcommon.Pick(r, hsChildKeys)
			g.ops = append(g.ops, hsOp{K: hsCSet, C: c, Key: k, Val: g.val("c"+c, k)})
		}
	}
	if viaTx && npop > 0 {
		g.ops = append(g.ops, hsOp{K: hsCommit, Lim: r.Intn(2), Var: r.Intn(2)})
	}
	n := r.Range(4, maxOps)
	for len(g.ops) < n {
		x := r.Intn(100)
		switch {
		case g.depth == 0 && x < 70:
			g.ops = append(g.ops, hsOp{K: hsStart})
			g.depth++
		case g.depth > 0 && g.depth < 4 && x < 10:
			g.ops = append(g.ops, hsOp{K: hsStart})
			g.depth++
		case g.depth > 0 && x < 17:
			g.ops = append(g.ops, hsOp{K: hsCommit, Lim: r.Intn(2), Var: r.Intn(2)})
			g.depth--
		case g.depth > 0 && x < 24:
			g.ops = append(g.ops, hsOp{K: hsRollback})
			g.depth--
		default:
			o := g.dataOp()
			if g.depth == 0 && o.K == hsClrLim && !hsGuarded(o.Key) {
				// outside a transaction a limit that cuts is pkg/trie's business (C02/C38); the None limit (nothing
				// is cut) stays: it is the host layer that turns it into u32::MAX
				if r.Bool() {
					o.Lim = -1
				} else {
					o.K = hsClr
				}
			}
			g.ops = append(g.ops, o)
		}
	}
	for g.depth > 0 {
		if r.Chance(4, 5) {
			g.ops = append(g.ops, hsOp{K: hsCommit, Lim: r.Intn(2), Var: r.Intn(2)})
		} else {
			g.ops = append(g.ops, hsOp{K: hsRollback})
		}
		g.depth--
	}
	return g.ops, g.long
}

// ---- shrinking (delta debugging on the concrete op list) -----------------------

func hsSameFailure(a *hsResult, class string) bool { return a.Fail != nil && a.Fail.Class == class }

func hsShrink(ops []hsOp, version int, class string) []hsOp {
	cur := append([]hsOp{}, ops...)
	budget := 600
	for changed := true; changed && budget > 0; {
		changed = false
		for i := len(cur) - 1; i >= 0 && budget > 0; i-- {
			cand := append(append([]hsOp{}, cur[:i]...), cur[i+1:]...)
			budget--
			if hsSameFailure(hsRun(cand, version), class) {
				cur = cand
				changed = true
			}
		}
	}
	if res := hsRun(cur, version); res.Fail != nil && res.Fail.Step+1 < len(cur) {
		cur = cur[:res.Fail.Step+1]
	}
	return cur
}

var hsShrunk = map[string]int{}

func hsReport(c *vcommon.Case, ops []hsOp, version int, shrinkIt bool) *hsResult {
	res := hsRun(ops, version)
	c.Eval(res.Evals)
	for k, n := range res.Counters {
		c.Count(k, n)
	}
	c.Count("host_ops", len(ops))
	c.Count(fmt.Sprintf("host_histories_v%d", version), 1)
	if res.Trouble != "" {
		c.Inconclusive("harness trouble: " + res.Trouble)
		return res
	}
	if len(ops) >= 8 {
		c.Distinct("host:" + res.Shape)
	}
	seen := map[string]bool{}
	for _, k := range res.Known {
		if seen[k.ID] {
			continue
		}
		seen[k.ID] = true
		c.Known(k.ID, k.Msg, map[string]any{"entry": "host functions", "version": version, "step": k.Step, "ops": hsOpsStrings(ops[:k.Step+1])})
	}
	if res.Fail != nil && res.AliasPossible {
		// only reachable in corpus entries: generated histories tag every child value with the child name
		c.Count("host_known_K3", 1)
		c.Known(hsK3, res.Fail.Class+": "+res.Fail.Msg, map[string]any{"entry": "host functions", "version": version, "step": res.Fail.Step, "ops": hsOpsStrings(ops[:min(res.Fail.Step+1, len(ops))])})
		return res
	}
	if res.Fail != nil {
		w := map[string]any{"entry": "host functions", "version": version, "step": res.Fail.Step, "ops": hsOpsStrings(ops[:min(max(res.Fail.Step+1, 0), len(ops))])}
		if shrinkIt && hsShrunk[res.Fail.Class] < 2 {
			hsShrunk[res.Fail.Class]++
			small := hsShrink(ops, version, res.Fail.Class)
			w["minimal_ops"] = hsOpsStrings(small)
			if r2 := hsRun(small, version); r2.Fail != nil {
				w["minimal_msg"] = r2.Fail.Msg
			}
		}
		c.Violation(res.Fail.Class, res.Fail.Msg, w)
	}
	return res
}

// host-specific regression histories (in addition to the copied rtstorage corpus)
var hsHostCorpus = []hsCorpusEntry{
	// the :child_storage guard of ext_storage_clear_prefix_version_1/2, outside and inside a transaction
	{"guard-v1-d0", 0, []hsOp{hcCset("a", "a", "1"), hcPut("a", "2"), hcClr(":child_storage:")}},
	{"guard-v2-d0", 0, []hsOp{hcCset("a", "a", "1"), hcPut("a", "2"), hcClrlim(hsChildRootPrefix+"a", 3)}},
	{"guard-v1-tx", 0, []hsOp{hcCset("c", "a", "1"), hcStart, hcClr(hsChildRootPrefix), hcCommit}},
	{"guard-v2-tx-none", 0, []hsOp{hcCset("c", "a", "1"), hcStart, hcClrlim(":child_storage:", -1), hcCommit}},
	// None limits: the host layer turns them into u32::MAX (main, child clear_prefix) / nil (kill)
	{"none-main-d0", 0, []hsOp{hcPut("a", "1"), hcPut("ab", "2"), hcPut("b", "3"), hcClrlim("a", -1)}},
	{"none-main-tx", 0, []hsOp{hcPut("a", "1"), hcPut("ab", "2"), hcStart, hcPut("abc", "3"), hcClrlim("a", -1), hcCommit}},
	{"none-child-d0", 0, []hsOp{hcCset("c", "a", "1"), hcCset("c", "ab", "2"), hcCset("c", "b", "3"), hcCclrlim("c", "a", -1)}},
	{"none-child-tx", 0, []hsOp{hcCset("c", "a", "1"), hcStart, hcCset("c", "ab", "2"), hcCclrlim("c", "a", -1), hcCommit}},
	{"none-kill-d0", 0, []hsOp{hcCset("c", "a", "1"), hcCset("c", "ab", "2"), hcCkilllim("c", -1)}},
	{"none-kill-tx", 0, []hsOp{hcCset("c", "a", "1"), hcStart, hcCset("c", "ab", "2"), hcCkilllim("c", -1), hcCommit}},
	// (removed, all-removed) of limited clears at depth 0 and in a transaction
	{"kill-result-cut-d0", 0, []hsOp{hcCset("c", "a", "1"), hcCset("c", "ab", "2"), hcCset("c", "b", "3"), hcCkilllim("c", 2)}},
	{"kill-result-all-d0", 0, []hsOp{hcCset("c", "a", "1"), hcCset("c", "ab", "2"), hcCkilllim("c", 2)}},
	{"clear-result-cut-tx", 0, []hsOp{hcPut("a", "1"), hcPut("ab", "2"), hcPut("abc", "3"), hcStart, hcClrlim("a", 2), hcCommit}},
	{"clear-result-all-tx", 0, []hsOp{hcPut("a", "1"), hcPut("ab", "2"), hcStart, hcClrlim("a", 2), hcCommit}},
	// child kill of a child trie that does not exist
	{"kill-missing-child", 0, []hsOp{hcCkill("c"), hcCkilllim("c", 1), hcStart, hcCkill("a"), hcCkilllim("a", 2), hcCommit}},
	// reads of a key missing from a live child trie, long values (offsets inside / beyond the value)
	{"child-read-missing-key", 1, []hsOp{hcCset("a", "a", "0123456789012345678901234567890123456789"), hcPut("a", "0123456789012345678901234567890123456789x"), hcStart, hcCdel("a", "ab"), hcRollback}},
}

func hsWithVar(ops []hsOp, v int) []hsOp {
	out := append([]hsOp{}, ops...)
	for i := range out {
		out[i].Var = v
		if out[i].K == hsCommit && v == 1 {
			out[i].Lim = 1 // commit through ext_storage_root where possible
		}
	}
	return out
}

func TestVerifC08Host(t *testing.T) {
	r := vcommon.Start(t, "C08")
	defer r.Finish()
	if err := vcommon.SpecSelfCheck(); err != nil {
		r.Cases("host_selfcheck", 1, func(c *vcommon.Case) { c.Inconclusive(err.Error()) })
		return
	}
	if _, err := hsGetHost(); err != nil {
		r.Cases("host_selfcheck", 1, func(c *vcommon.Case) { c.Inconclusive(err.Error()) })
		return
	}
	// every storage host function is driven
	for fn, n := range map[string]int{
		"ext_storage_set_version_1": 5000, "ext_storage_get_version_1": 100000, "ext_storage_read_version_1": 100000,
		"ext_storage_exists_version_1": 100000, "ext_storage_clear_version_1": 2000, "ext_storage_next_key_version_1": 100000,
		"ext_storage_clear_prefix_version_1": 1000, "ext_storage_clear_prefix_version_2": 1000,
		"ext_storage_start_transaction_version_1": 3000, "ext_storage_commit_transaction_version_1": 300,
		"ext_storage_rollback_transaction_version_1": 300, "ext_storage_root_version_1": 3000, "ext_storage_root_version_2": 3000,
		"ext_default_child_storage_set_version_1": 4000, "ext_default_child_storage_get_version_1": 100000,
		"ext_default_child_storage_read_version_1": 100000, "ext_default_child_storage_exists_version_1": 100000,
		"ext_default_child_storage_clear_version_1": 1000, "ext_default_child_storage_clear_prefix_version_1": 700,
		"ext_default_child_storage_clear_prefix_version_2": 1000, "ext_default_child_storage_next_key_version_1": 100000,
		"ext_default_child_storage_root_version_1": 5000, "ext_default_child_storage_root_version_2": 5000,
		"ext_default_child_storage_storage_kill_version_1": 500, "ext_default_child_storage_storage_kill_version_2": 500,
		"ext_default_child_storage_storage_kill_version_3": 500,
	} {
		r.Floor("host_call_"+fn, n)
	}
	// corner cases of the host layer and of the property
	r.Floor("host_rollback", 600)
	r.Floor("host_rollback_nested", 250)
	r.Floor("host_commit_outermost", 600)
	r.Floor("host_commit_nested", 400)
	r.Floor("host_commit_via_root", 300)
	r.Floor("host_root_compared_with_children", 2500)
	r.Floor("host_child_root_compared", 4000)
	r.Floor("host_child_root_missing_child", 5000)
	r.Floor("host_guard_clear_prefix_v1", 60)
	r.Floor("host_guard_clear_prefix_v2", 100)
	r.Floor("host_guard_with_live_child_root", 120)
	r.Floor("host_clear_prefix_v2_limit_none_tx", 80)
	r.Floor("host_clear_prefix_v2_limit_none_d0", 30)
	r.Floor("host_cclrlim_limit_none", 60)
	r.Floor("host_limited_clear_cut_short", 50)
	r.Floor("host_limited_clear_overlay_and_backend", 60)
	r.Floor("host_limited_clear_limit0", 150)
	r.Floor("host_main_delete_of_live_child_name_tx", 120)
	r.Floor("host_child_recreated_after_kill_tx", 100)
	r.Floor("host_read_offset_beyond_value", 20000)
	r.Floor("host_read_offset_inside_value", 30000)
	r.Floor("host_read_buffer_shorter_than_rest", 20000)
	r.Floor("host_child_read_missing_key_in_live_child", 40000)
	r.Floor("host_child_read_missing_child", 50000)
	r.Floor("host_next_key_none", 60000)
	r.Floor("host_child_kill_v1_missing_child", 100)
	r.Floor("host_ckilllim_v2_limit_none", 80)
	r.Floor("host_ckilllim_v3_limit_none", 80)
	r.Floor("host_ckilllim_v3_reports_missing_child", 80)

	all := append(append([]hsCorpusEntry{}, hsCorpus...), hsHostCorpus...)
	r.Fixed("host_corpus", 2*len(all), func(c *vcommon.Case) {
		e := all[c.Idx/2]
		ops := hsWithVar(e.ops, c.Idx%2)
		res := hsReport(c, ops, e.version, false)
		c.Sample(map[string]any{"corpus": e.name, "var": c.Idx % 2, "ops": hsOpsStrings(ops), "failed": res.Fail != nil, "known": len(res.Known)})
	})

	r.Cases("host_hist", r.Scale(1200), func(c *vcommon.Case) {
		ops, long := hsGenOps(c.R, 70)
		version := 0
		if long {
			version = 1
		}
		res := hsReport(c, ops, version, true)
		if c.Idx < 2 {
			c.Sample(map[string]any{"ops": hsOpsStrings(ops), "version": version, "evals": res.Evals})
		}
	})
}
