//go:build verif

package babe

import (
	"time"

	"github.com/ChainSafe/gossamer/dot/types"
)

// Exports for the `state` verification engine (property C27): a thin wrapper around the verifier's
// equivocation step so that an external test package can drive the PRODUCTION caller of
// SlotState.CheckEquivocation. Nothing here changes behaviour.

// VerifVerifier wraps an epoch verifier.
type VerifVerifier struct{ v *verifier }

// VerifNewVerifier builds a verifier that accepts secondary plain slots for the given authorities.
func VerifNewVerifier(bs BlockState, ss SlotState, authorities []types.AuthorityRaw, randomness Randomness,
	slotDuration time.Duration) *VerifVerifier {
	return &VerifVerifier{v: &verifier{
		blockState:     bs,
		slotState:      ss,
		authorities:    authorities,
		randomness:     randomness,
		secondarySlots: true,
		allowedSlots:   types.PrimaryAndSecondaryPlainSlots,
		slotDuration:   slotDuration,
	}}
}

// VerifyBlockEquivocation is verifier.verifyBlockEquivocation.
func (x *VerifVerifier) VerifyBlockEquivocation(h *types.Header) (bool, error) {
	return x.v.verifyBlockEquivocation(h)
}

// VerifyAuthorshipRight is verifier.verifyAuthorshipRight.
func (x *VerifVerifier) VerifyAuthorshipRight(h *types.Header) error {
	return x.v.verifyAuthorshipRight(h)
}

// VerifCurrentSlot is getCurrentSlot, the wall-clock slot source of the verifier.
func VerifCurrentSlot(slotDuration time.Duration) uint64 { return getCurrentSlot(slotDuration) }

// VerifSecondarySlotAuthor is getSecondarySlotAuthor.
func VerifSecondarySlotAuthor(slot uint64, numAuths int, randomness Randomness) (uint32, error) {
	return getSecondarySlotAuthor(slot, numAuths, randomness)
}
