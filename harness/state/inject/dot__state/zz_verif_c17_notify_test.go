//go:build verif

package state

// C17, finalisation notifications (BlockState.notifyFinalized / GetFinalisedNotifierChannel): consumers (grandpa,
// digest handler, RPC subscriptions, sync) learn about finality through these channels, so "any other finalisation
// attempt fails and changes nothing" includes: a refused SetFinalisedHash notifies nobody, and an accepted one
// notifies every subscriber exactly once, with the target's header and the request's round / set id.
//
// The monitor rides on the C17 histories (same generator, same model, all C17 checks still run): subscribers are
// registered on the fresh BlockState; after EVERY operation (imports too) the monitor waits until no goroutine of the
// process has a frame of notifyFinalized (the senders are goroutines doing a non-blocking send), then drains the
// channels without blocking and compares with the model. The wait is decided from goroutine dumps, never from
// elapsed time; if senders are still present after the poll budget the case is inconclusive.
// Service.Rewind is out of scope (it moves the head backwards by design).

import (
	"bytes"
	"fmt"
	"runtime"
	"time"

	"github.com/ChainSafe/gossamer/dot/types"
	"github.com/ChainSafe/gossamer/zz_verif/vcommon"
)

var c17NotifierFrame = []byte("(*BlockState).notifyFinalized")

// c17NotifiersQuiet reports whether no goroutine is inside / was spawned by notifyFinalized.
func c17NotifiersQuiet() bool {
	buf := make([]byte, 1<<16)
	for {
		n := runtime.Stack(buf, true)
		if n < len(buf) {
			return !bytes.Contains(buf[:n], c17NotifierFrame)
		}
		buf = make([]byte, 2*len(buf))
	}
}

func c17AwaitNotifiers() bool {
	for i := 0; i < 4000; i++ {
		if c17NotifiersQuiet() {
			return true
		}
		if i < 50 {
			runtime.Gosched()
		} else {
			time.Sleep(time.Millisecond) // pacing of the polls only
		}
	}
	return false
}

type c17NotifyMon struct {
	c     *vcommon.Case
	subs  []chan *types.FinalisationInfo
	since []int // number of accepted finalisations at subscription time (diagnostics)
	freed chan *types.FinalisationInfo
	fins  int
	acc   int
}

func (m *c17NotifyMon) setup(w *c17World) {
	for i := 0; i < 2; i++ {
		m.subs = append(m.subs, w.bs.GetFinalisedNotifierChannel())
		m.since = append(m.since, 0)
	}
	// a subscriber that left again: what it receives is not part of the property, only counted
	m.freed = w.bs.GetFinalisedNotifierChannel()
	w.bs.FreeFinalisedNotifierChannel(m.freed)
}

func (m *c17NotifyMon) after(w *c17World, fin bool) bool {
	c := m.c
	if !c17AwaitNotifiers() {
		c.Inconclusive("notifyFinalized sender goroutines still present after the poll budget")
		return false
	}
	accepted := fin && w.lastErr == nil
	kind := "import"
	if fin {
		m.fins++
		kind = "refused"
		if accepted {
			kind = "accepted"
			m.acc++
		}
	}
	for i, ch := range m.subs {
		var got []*types.FinalisationInfo
	drain:
		for {
			select {
			case info := <-ch:
				got = append(got, info)
			default:
				break drain
			}
		}
		c.Eval(1)
		c.Count("notify_checks_"+kind, 1)
		desc := func() []string {
			out := make([]string, len(got))
			for j, g := range got {
				h := g.Header.Hash()
				name := "?" + h.Short()
				if x, ok := w.tree.byHash[h]; ok {
					name = fmt.Sprintf("b%d", x)
				}
				out[j] = fmt.Sprintf("%s round=%d set=%d", name, g.Round, g.SetID)
			}
			return out
		}
		switch {
		case !accepted:
			if len(got) != 0 {
				class := "notification_without_finalisation"
				msg := fmt.Sprintf("subscriber %d received %v after a block import", i, desc())
				if fin {
					class = "refused_finalisation_notified"
					msg = fmt.Sprintf("SetFinalisedHash(%s) returned %v, yet subscriber %d was notified: %v", w.lastHash.Short(), w.lastErr, i, desc())
				}
				c.Violation(class, msg, w.witness(map[string]any{"subscriber": i, "received": desc()}))
				return false
			}
			if fin {
				c.Count("notify_refused_silent", 1)
				if x, ok := w.tree.byHash[w.lastHash]; ok && w.status[x] == stFinalised && x != w.head {
					c.Count("notify_refused_stale_silent", 1) // the header is in the database: only the validation stops it
				}
			}
		default:
			if len(got) != 1 {
				c.Violation("accepted_finalisation_notification_count", fmt.Sprintf("SetFinalisedHash(%s, round %d, set %d) succeeded; subscriber %d received %d notifications %v, want exactly one",
					w.lastHash.Short(), w.lastRound, w.lastSetID, i, len(got), desc()), w.witness(map[string]any{"subscriber": i, "received": desc()}))
				return false
			}
			g := got[0]
			if g.Header.Hash() != w.lastHash || g.Round != w.lastRound || g.SetID != w.lastSetID || g.Header.Number != w.tree.blocks[w.head].number {
				c.Violation("accepted_finalisation_notification_content", fmt.Sprintf("SetFinalisedHash(%s, round %d, set %d) succeeded; subscriber %d was told %v",
					w.lastHash.Short(), w.lastRound, w.lastSetID, i, desc()), w.witness(map[string]any{"subscriber": i, "received": desc()}))
				return false
			}
			c.Count("notify_accepted_exactly_one", 1)
		}
	}
	select {
	case <-m.freed:
		c.Count("notify_freed_channel_received", 1)
	default:
	}
	// a late subscriber joins after the second accepted finalisation: it must see later ones only (it starts empty)
	if accepted && m.acc == 2 && len(m.subs) == 2 {
		m.subs = append(m.subs, w.bs.GetFinalisedNotifierChannel())
		m.since = append(m.since, m.acc)
		c.Count("notify_late_subscribers", 1)
	}
	return true
}

func c17NotifyHooks(c *vcommon.Case) *c17Hooks {
	m := &c17NotifyMon{c: c}
	return &c17Hooks{prefix: "notify:", setup: m.setup, after: m.after}
}

func c17NotifyGroups(r *vcommon.Run, corpus [][]c17Op) {
	r.Floor("notify_accepted_exactly_one", 400)
	r.Floor("notify_refused_silent", 300)
	r.Floor("notify_refused_stale_silent", 60)
	r.Floor("notify_checks_import", 1000)
	r.Fixed("notify_corpus", len(corpus), func(c *vcommon.Case) { runC17ScriptHooked(c, corpus[c.Idx], c17NotifyHooks(c)) })
	r.Cases("notify_tree", r.Scale(120), func(c *vcommon.Case) { runC17RandomHooked(c, c17NotifyHooks(c)) })
}
