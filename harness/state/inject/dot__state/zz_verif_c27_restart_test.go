//go:build verif

package state

import (
	"github.com/ChainSafe/gossamer/dot/types"
	"github.com/ChainSafe/gossamer/zz_verif/vcommon"
)

// ---------------------------------------------------------------------------
// C27, restarts mid-sequence (groups restart_corpus / restart_seq).
//
// SlotState keeps everything in its database table (slot_header_map‖slot, slot_header_start); state.Service.Start and
// Initialise build it with NewSlotState(db) on every start of the node. The same sequences as groups corpus / seq run
// through a driver that, between checks, replaces the SlotState by a FRESH NewSlotState over the same database (a
// restart). The model is NOT restarted: "within the retained window" is about what was recorded, not about which
// SlotState object recorded it, so proofs / no proofs and the pruning window must be exactly what the uninterrupted
// model says (runEqSequence compares every call and runs the probe sweep, in which the reopens go on: retained and
// forgotten entries are probed through instances that never saw them being recorded).
// The driver follows the sequence with its own copy of the model only to COUNT what the restarts exercised (proofs
// and duplicates decided by an entry recorded before the latest reopen, prunes executed by a reopened instance).
// ---------------------------------------------------------------------------

type c27Recorded struct {
	slot   uint64
	signer types.AuthorityID
}

func newStateRestartEqDriver(c *vcommon.Case, every int) (*vEqDriver, error) {
	db, err := vNewDB()
	if err != nil {
		return nil, err
	}
	ss := NewSlotState(db)
	// own PRNG: the case's generator must produce the same sequences whatever the driver does
	rnd := vcommon.NewRand(0xC27<<20 ^ uint64(c.Idx)*0x9E3779B97F4A7C15)
	shadow := newVEqModel()
	gen := 0                            // number of reopens so far
	recordedAt := map[c27Recorded]int{} // (slot, signer) -> gen in which the retained entry was recorded
	startMovedAt := -1                  // gen in which slot_header_start was last written
	sinceReopen := 0                    // checks since the latest reopen
	reopen := func() {
		ss = NewSlotState(db)
		gen++
		sinceReopen = 0
		c.Count("restart_slotstate_reopens", 1)
	}
	return &vEqDriver{
		name: "restart", signers: vEqSigners(),
		mk: func(slot uint64, _ int, tag uint64) *types.Header { return vEqHeader(slot, tag) },
		call: func(op vEqOp, signer types.AuthorityID) (*types.BabeEquivocationProof, uint64, bool, error) {
			// every > 0: reopen after that many checks; every == 0: at random points (1 check in 6)
			if sinceReopen > 0 && (every > 0 && sinceReopen >= every || every == 0 && rnd.Chance(1, 6)) {
				reopen()
			}
			sinceReopen++
			prunesBefore := shadow.prunes
			_, reason := shadow.check(op.now, op.slot, op.hdr, signer)
			k := c27Recorded{op.slot, signer}
			switch reason {
			case "recorded":
				recordedAt[k] = gen
				if startMovedAt >= 0 && startMovedAt < gen {
					c.Count("restart_recorded_against_start_written_before_reopen", 1)
				}
				if shadow.prunes > prunesBefore {
					c.Count("restart_prunes", 1)
					if startMovedAt < gen {
						c.Count("restart_prunes_by_reopened_instance", 1)
					}
					startMovedAt = gen
				} else if startMovedAt < 0 {
					startMovedAt = gen
				}
			case "equivocation":
				if recordedAt[k] < gen {
					c.Count("restart_proofs_for_entry_recorded_before_reopen", 1)
				}
			case "duplicate":
				if recordedAt[k] < gen {
					c.Count("restart_duplicates_of_entry_recorded_before_reopen", 1)
				}
			case "now_before_first":
				if startMovedAt >= 0 && startMovedAt < gen {
					c.Count("restart_now_before_first_saved_before_reopen", 1)
				}
			}
			proof, err := ss.CheckEquivocation(op.now, op.slot, op.hdr, signer)
			return proof, op.now, false, err
		},
		close: func() { _ = db.Close() },
	}, nil
}

func registerC27Restart(r *vcommon.Run, nCorpus int) {
	r.Floor("restart_checks", 20000)
	r.Floor("restart_proofs", 300)
	r.Floor("restart_slotstate_reopens", 3000)
	r.Floor("restart_proofs_for_entry_recorded_before_reopen", 200)
	r.Floor("restart_duplicates_of_entry_recorded_before_reopen", 100)
	r.Floor("restart_prunes_by_reopened_instance", 30)
	r.Floor("restart_now_before_first_saved_before_reopen", 20)
	r.Floor("restart_recorded_against_start_written_before_reopen", 1000)

	// the hand-written sequences with a fresh SlotState before EVERY check
	r.Fixed("restart_corpus", nCorpus, func(c *vcommon.Case) {
		d, err := newStateRestartEqDriver(c, 1)
		if err != nil {
			runEqSequence(c, nil, err, nil, false)
			return
		}
		runEqSequence(c, d, nil, eqFixedCorpus(d)[c.Idx], true)
	})
	r.Cases("restart_seq", r.Scale(300), func(c *vcommon.Case) {
		every := 0 // random points (1 in 6 checks)
		switch c.Idx % 4 {
		case 1:
			every = 1 // before every check
		case 2:
			every = 7
		}
		d, err := newStateRestartEqDriver(c, every)
		if err != nil {
			runEqSequence(c, nil, err, nil, false)
			return
		}
		runEqSequence(c, d, nil, genEqSequence(c, d), true)
	})
}
