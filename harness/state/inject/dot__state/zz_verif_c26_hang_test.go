//go:build verif

package state

import (
	"errors"
	"fmt"
	"runtime"
	"runtime/debug"
	"strings"
	"sync"
	"time"

	"github.com/ChainSafe/gossamer/zz_verif/vcommon"
)

// ---------------------------------------------------------------------------
// C26 hang monitor ("... fails promptly instead of ... hanging"), decided from goroutine STATES, not from a clock.
//
// Every operation of a C26 case that can take a lock of the state package (lookups, announcement imports,
// SetFinalisedHash, Finalize*) runs in its own goroutine (c26Guard.do). The harness goroutine waits for it; when
// the operation has not returned after a short grace wait the harness samples all goroutine stacks:
//
//	deadlock  <=>  on two consecutive samples (scheduler yields + a pause apart)
//	               (a) the operation's goroutine is parked in sync.(*RWMutex).Lock/RLock or sync.(*Mutex).Lock,
//	                   called from a function of package dot/state that is not harness code (same call site both times), and
//	               (b) no other goroutine of the process has a frame of dot/state (or lib/blocktree) while being in a
//	                   state in which it could still run and release something (anything but parked on a sync lock);
//	                   the harness goroutine itself and goroutines abandoned by earlier deadlock verdicts (parked for
//	                   ever on the locks of an abandoned EpochState) are not counted.
//
// The harness is the only user of the EpochState/BlockState of a case, so under (a)+(b) nobody exists that could
// ever release the lock. Time only paces the sampling: an operation that is slow (busy machine) is seen running or
// runnable and is simply waited for; expiry of the generous wait without the evidence above is INCONCLUSIVE.
// After a deadlock verdict the case's state is abandoned (the parked goroutine leaks), the next case builds fresh state.
// ---------------------------------------------------------------------------

const (
	vC26GraceWait  = 150 * time.Millisecond // an operation normally returns within microseconds
	vC26SampleGap  = 40 * time.Millisecond  // pause between stack samples (plus vC26Yields scheduler yields)
	vC26Yields     = 64
	vC26MaxSamples = 750 // x vC26SampleGap = 30 s; expiry without lock evidence => inconclusive
	vC26LogKeep    = 40  // operation log: first and last vC26LogKeep entries are kept
)

var (
	vC26LeakMu  sync.Mutex
	vC26Leaked  = map[string]bool{} // goroutine ids abandoned after a deadlock verdict
	vC26PkgPath = "github.com/ChainSafe/gossamer/dot/state."
	vC26BtPath  = "github.com/ChainSafe/gossamer/lib/blocktree."
)

func c26GoID() string {
	buf := make([]byte, 64)
	n := runtime.Stack(buf, false)
	f := strings.Fields(string(buf[:n]))
	if len(f) > 1 {
		return f[1]
	}
	return "?"
}

type c26Guard struct {
	c    *vcommon.Case
	self string // goroutine id of the harness goroutine running the case
	base func() map[string]any
	dead bool // an operation of this case never returned: the case's state is abandoned

	logHead []string
	logTail []string
	nops    int
	elided  int
	lastOp  string
	lastRep int

	failedLookups int // lookups of this case that returned an error so far
	writers       int // announcement imports / Finalize* calls executed after a failed lookup
}

func newC26Guard(c *vcommon.Case, spec *c26Spec) *c26Guard {
	return &c26Guard{c: c, self: c26GoID(), base: func() map[string]any { return map[string]any{"spec": spec} }}
}

func (g *c26Guard) logOp(s string) {
	g.nops++
	if s == g.lastOp {
		g.lastRep++
		return
	}
	g.flushRep()
	g.lastOp, g.lastRep = s, 1
}

func (g *c26Guard) flushRep() {
	if g.lastRep == 0 {
		return
	}
	s := g.lastOp
	if g.lastRep > 1 {
		s = fmt.Sprintf("%s  (x%d)", s, g.lastRep)
	}
	g.lastRep = 0
	if len(g.logHead) < vC26LogKeep {
		g.logHead = append(g.logHead, s)
		return
	}
	g.logTail = append(g.logTail, s)
	if len(g.logTail) > vC26LogKeep {
		g.logTail = g.logTail[1:]
		g.elided++
	}
}

// opLog returns the operation sequence of the case (collapsed repetitions; the middle is elided when long).
func (g *c26Guard) opLog(pending string) []string {
	g.flushRep()
	out := append([]string{}, g.logHead...)
	if g.elided > 0 {
		out = append(out, fmt.Sprintf("... (%d log entries elided) ...", g.elided))
	}
	out = append(out, g.logTail...)
	if pending != "" {
		out = append(out, pending+" -> NEVER RETURNED")
	}
	return out
}

type c26StackSample struct {
	parked   bool     // (a) holds for the operation's goroutine
	lockSite string   // "sync.(*RWMutex).Lock <- github.com/.../state.(*EpochState).storeBABENextEpochData"
	opState  string   // scheduler state of the operation's goroutine
	opStack  string   // its stack
	others   []string // goroutines violating (b): "id [state] function"
}

func c26IsLockWaitState(st string) bool {
	return strings.HasPrefix(st, "sync.Mutex.Lock") || strings.HasPrefix(st, "sync.RWMutex.") || strings.HasPrefix(st, "semacquire")
}

// c26SampleStacks takes one sample of all goroutine stacks and evaluates (a) and (b).
func c26SampleStacks(opGid, selfGid string) c26StackSample {
	buf := make([]byte, 1<<20)
	for {
		n := runtime.Stack(buf, true)
		if n < len(buf) {
			buf = buf[:n]
			break
		}
		buf = make([]byte, 2*len(buf))
	}
	var s c26StackSample
	vC26LeakMu.Lock()
	defer vC26LeakMu.Unlock()
	for _, blk := range strings.Split(string(buf), "\n\n") {
		if !strings.HasPrefix(blk, "goroutine ") {
			continue
		}
		lines := strings.Split(blk, "\n")
		f := strings.Fields(lines[0])
		if len(f) < 3 {
			continue
		}
		id := f[1]
		state := lines[0]
		if i := strings.IndexByte(state, '['); i >= 0 {
			state = state[i+1:]
		}
		if i := strings.IndexAny(state, ",]"); i >= 0 {
			state = state[:i]
		}
		// frames: function line followed by a "\tfile:line" line; "created by" ends the goroutine's own frames
		type frame struct{ fn, file string }
		var frames []frame
		for i := 1; i+1 < len(lines); i += 2 {
			if strings.HasPrefix(lines[i], "created by ") {
				break
			}
			frames = append(frames, frame{fn: lines[i], file: strings.TrimSpace(lines[i+1])})
		}
		if id == opGid {
			s.opState, s.opStack = state, blk
			if !c26IsLockWaitState(state) {
				continue
			}
			for i, fr := range frames {
				isLock := strings.HasPrefix(fr.fn, "sync.(*RWMutex).Lock(") || strings.HasPrefix(fr.fn, "sync.(*RWMutex).RLock(") ||
					strings.HasPrefix(fr.fn, "sync.(*Mutex).Lock(")
				if !isLock {
					continue
				}
				if i+1 < len(frames) {
					caller := frames[i+1]
					if strings.HasPrefix(caller.fn, vC26PkgPath) && !strings.Contains(caller.file, "zz_verif_") {
						s.parked = true
						fn := caller.fn
						if j := strings.LastIndexByte(fn, '('); j > 0 {
							fn = fn[:j]
						}
						lk := fr.fn[:strings.LastIndexByte(fr.fn, '(')]
						s.lockSite = lk + " <- " + fn + " (" + caller.file + ")"
					}
				}
				break
			}
			continue
		}
		if id == selfGid || vC26Leaked[id] {
			continue
		}
		inPkg := ""
		for _, fr := range frames {
			if (strings.HasPrefix(fr.fn, vC26PkgPath) || strings.HasPrefix(fr.fn, vC26BtPath)) && inPkg == "" {
				inPkg = fr.fn
			}
		}
		if inPkg != "" && !c26IsLockWaitState(state) {
			s.others = append(s.others, fmt.Sprintf("goroutine %s [%s] in %s", id, state, inPkg))
		}
	}
	return s
}

// do runs one operation of the case in its own goroutine and waits for it. It returns false when the operation
// did not return (verdict recorded, case state abandoned) - the caller must stop the case. fn returns a short
// outcome string for the operation log. A panic of the operation is re-raised in the harness goroutine (class panic).
func (g *c26Guard) do(name string, fn func() string) bool {
	if g.dead {
		return false
	}
	type res struct {
		out      string
		panicked any
		stack    string
	}
	done := make(chan res, 1)
	gidCh := make(chan string, 1)
	go func() {
		gidCh <- c26GoID()
		var r res
		defer func() {
			if p := recover(); p != nil {
				r.panicked = p
				r.stack = string(debug.Stack())
			}
			done <- r
		}()
		r.out = fn()
	}()
	finish := func(r res) bool {
		if r.panicked != nil {
			g.logOp(name + " -> panic")
			st := r.stack
			if len(st) > 3000 {
				st = st[:3000]
			}
			panic(fmt.Sprintf("%s panicked: %v\n%s", name, r.panicked, st))
		}
		g.logOp(name + " -> " + r.out)
		return true
	}
	gid := <-gidCh
	t := time.NewTimer(vC26GraceWait)
	select {
	case r := <-done:
		t.Stop()
		return finish(r)
	case <-t.C:
	}
	g.c.Count("hangmon_operations_sampled", 1)
	streak, lastSite := 0, ""
	var last c26StackSample
	for i := 0; i < vC26MaxSamples; i++ {
		for y := 0; y < vC26Yields; y++ {
			runtime.Gosched()
		}
		select {
		case r := <-done:
			g.c.Count("hangmon_slow_operations_completed", 1)
			return finish(r)
		case <-time.After(vC26SampleGap):
		}
		last = c26SampleStacks(gid, g.self)
		if last.parked && len(last.others) == 0 && (streak == 0 || last.lockSite == lastSite) {
			streak++
		} else if last.parked && len(last.others) == 0 {
			streak = 1
		} else {
			streak = 0
		}
		lastSite = last.lockSite
		if streak < 2 {
			continue
		}
		select {
		case r := <-done:
			return finish(r)
		default:
		}
		vC26LeakMu.Lock()
		vC26Leaked[gid] = true
		vC26LeakMu.Unlock()
		g.dead = true
		st := last.opStack
		if len(st) > 2500 {
			st = st[:2500]
		}
		w := g.base()
		w["operations"] = g.opLog(name)
		w["operations_total"] = g.nops + 1
		w["blocked_operation"] = name
		w["lock_site"] = last.lockSite
		w["goroutine_state"] = last.opState
		w["stack"] = st
		w["failed_lookups_before"] = g.failedLookups
		g.c.Count("hangmon_deadlocks", 1)
		g.c.Violation("deadlock", fmt.Sprintf("%s never returns: its goroutine is parked in %s on two consecutive stack samples and no other goroutine "+
			"is active inside dot/state (the harness is the only user of this state: nobody can release the lock); %d lookups of this case had failed before, operation %d of the case",
			name, last.lockSite, g.failedLookups, g.nops+1), w)
		return false
	}
	g.dead = true
	st := last.opStack
	if len(st) > 1500 {
		st = st[:1500]
	}
	g.c.Count("hangmon_stuck_without_lock_evidence", 1)
	g.c.Inconclusive(fmt.Sprintf("%s did not return within the wait of %v and is not (stably) parked on a dot/state lock: state=%q parked=%v others=%v stack=%s",
		name, time.Duration(vC26MaxSamples)*vC26SampleGap, last.opState, last.parked, last.others, st))
	return false
}

func c26Outcome(err error) string {
	if err == nil {
		return "ok"
	}
	s := err.Error()
	if len(s) > 70 {
		s = s[:70] + "…"
	}
	return "err: " + s
}

// lookedUp records the outcome of a GetEpochDataRaw call of the case.
func (g *c26Guard) lookedUp(err error) {
	if err == nil {
		return
	}
	g.failedLookups++
	g.c.Count("failed_lookups", 1)
	if errors.Is(err, errHashNotInMemory) {
		g.c.Count("failed_lookups_other_fork_only", 1)
	} else if errors.Is(err, ErrEpochNotInMemory) {
		g.c.Count("failed_lookups_epoch_announced_nowhere", 1)
	}
	if g.writers > 0 {
		g.c.Count("failed_lookups_after_writer_after_failed_lookup", 1)
	}
}
