//go:build verif

package state

import (
	"fmt"
	"reflect"
	"sort"
	"strings"
	"sync"
	"time"

	"github.com/ChainSafe/gossamer/dot/types"
	"github.com/ChainSafe/gossamer/zz_verif/vcommon"
)

// ---------------------------------------------------------------------------
// C26, skipped epochs (groups "skipped-corpus" / "skipped").
//
// A block S whose epoch c is more than one ahead of its parent's epoch p "skips" the epochs p+1 .. c-1. What the
// node does with the announcements (read from the code comments of dot/state/epoch.go, dot/core/service.go
// HandleBlockImport, lib/babe/epoch.go initiateEpoch, lib/babe/verify.go VerifyBlock; same rule as Substrate):
// the data announced for epoch k = p+1 (by the first block of epoch p on S's chain) is the data of epoch c; the
// stored definition is RE-KEYED from k to c:
//
//	import flow (flow 0)    VerifyBlock looks up (k, S) on the not yet imported header; HandleBlockImport calls
//	                        UpdateSkippedEpochDefinitions(k, c, S) -> updateSkippedEpochDataRaw / updateSkippedConfigData
//	                        -> nextEpochMap.RetrieveAndUpdate; then AddBlock and HandleBABEDigest for S's own announcements
//	authoring flow (flow 1) initiateEpoch on the best block B (parent of S) calls GetSkippedEpochDataRaw(k, c, B) and
//	                        GetSkippedConfigData(k, c, B) (same re-keying, and the data is returned); the authored block S
//	                        is then added without a further update (HandleBlockProduced)
//
// Oracle (model = the explicit-parent tree of zz_verif_c26_test.go, nominal announcement epoch = epochOf(block)+1):
//   - the data looked up for an epoch e that EXISTS on H's chain is what the blocks of the previous existing epoch of
//     that chain announced (after a skip: announced for k, now served for c); for e = epochOf(H)+1 the nominal announcement
//   - config: the latest announcement on H's chain with nominal epoch <= e, else genesis
//   - GetSkippedEpochDataRaw returns the data announced for k on B's own chain, an error when B's chain announced nothing
//   - UpdateSkippedEpochDefinitions succeeds iff S's chain announced epoch data for k (config data is optional)
//   - after the re-keying a lookup of the skipped epoch k from S's subtree finds nothing (documented convention: the key is
//     MOVED: "just remove the HASH -> Next Epoch Data from the old epoch and introduce [it] into the new epoch")
//   - every call returns (hang monitor c26Guard.do); ordinary writers and lookups after a skipped-epoch update complete
//   - while a reader holds the read lock of a map, the re-keying must not change that map (reader-held probe: the
//     harness holds RLock like a lookup in its critical section; the update must wait - decided from its goroutine
//     state - and complete once the reader is gone)
//
// Known deviation C26-K1: the re-keying is global (one map keyed by epoch -> announcing block / one database key per
// epoch) while the skip belongs to one fork. Attribution is decided by a DEVIATION MODEL (c26Dev below): next to the
// spec model (per-fork ground truth) the harness simulates what the global re-keying does to the two maps
// epoch -> {announcer} and to the database definitions (moves on every re-keying event, deletions / persists on every
// finalisation, inserts on every announcement). A result that differs from the spec is attributed to C26-K1 iff it equals
// what the deviation model predicts for that call (same error-ness, same announcer's data) AND a re-keying event touched
// a map / database key the call reads; everything else stays a violation.
// ---------------------------------------------------------------------------

type c26SkipFin struct {
	After int `json:"after"` // after spec block After has been processed ...
	Block int `json:"block"` // ... finalise this spec block (>= 0), or
	Pick  int `json:"pick"`  // (Block < 0) the Pick-th live imported proper descendant of the finalised head
}

type c26SkipSpec struct {
	Tree c26Spec      `json:"tree"`
	Flow []int        `json:"flow"` // per block: 0 import flow, 1 authoring flow (only relevant for skipping blocks)
	Hold []int        `json:"hold"` // per block: reader-held probe during the re-keying: 0 none, 1 nextEpochDataLock, 2 nextConfigDataLock
	Fin  []c26SkipFin `json:"finalise"`
}

type c26Rekey struct {
	k, c  uint64
	owner int // tree index of the block that entered epoch c (-1: it was not imported)
	aED   int // tree index of the announcer whose epoch data is expected to be moved, -1 none
	aCD   int
	flow  int
}

type c26SkipRun struct {
	c    *vcommon.Case
	g    *c26Guard
	w    *c26World
	sp   *c26SkipSpec
	idx  []int // spec index -> tree index, -1 = not imported
	head int   // tree index of the finalised head
	ops  []c26Rekey
	dev  *c26Dev
	log  []string

	rekeys       int // re-keyings executed so far in this case
	fins         int // finalisations so far
	writersAfter int // writers (announcement imports, Finalize*) executed after a re-keying
}

func (s *c26SkipRun) wit(extra map[string]any) map[string]any {
	m := map[string]any{"spec": s.sp, "tree": s.w.tree.describe(), "events": s.log}
	for k, v := range extra {
		m[k] = v
	}
	return m
}

func (s *c26SkipRun) logf(f string, a ...any) { s.log = append(s.log, fmt.Sprintf(f, a...)) }

// epochOfChild: model epoch of a (not yet added) child of tree block pt with the given slot.
func (w *c26World) epochOfChild(pt int, slot uint64) uint64 {
	if w.tree.blocks[pt].number == 0 {
		return 0
	}
	ch := w.tree.chain(pt)
	return (slot - w.tree.blocks[ch[1]].slot) / w.L
}

// expectedED: announcers whose epoch data a lookup (e, chain of tree block h) must return.
// kind: "existing" (a block of the chain is in epoch e), "next" (e = epoch of h + 1), "absent" (e does not exist on the chain).
func (w *c26World) expectedED(h int, e uint64) (ann []int, kind string) {
	ch := w.tree.chain(h)
	for _, x := range ch[1:] {
		if w.epochOf(x) == e && w.tree.blocks[x].number > 1 {
			p := w.epochOf(w.tree.blocks[x].parent)
			return w.announcers(h, p+1, true), "existing"
		}
	}
	if e == w.epochOf(h)+1 {
		return w.announcers(h, e, true), "next"
	}
	return nil, "absent"
}

func (w *c26World) expectedCD(h int, e uint64) []int {
	for t := e; t >= 1; t-- {
		if st := w.announcers(h, t, false); len(st) > 0 {
			return st
		}
	}
	return nil
}

// ---------------------------------------------------------------------------
// Deviation model of C26-K1: a simulation of the two in-memory maps (epoch -> set of announcing blocks) and of the
// persisted definitions (epochdata<e> / configdata<e>), identified by announcer tree index. Written from the
// documented behaviour of dot/state/epoch.go, not copied from it:
//
//	announcement of block x (nominal epoch n)   mem[n] += x
//	re-keying k -> c for a header on chain H    database definition of k present: it becomes the definition of c (the one
//	                                            of k is removed, an existing one of c is overwritten); else ONE entry of mem[k]
//	                                            that is H or an ancestor of H moves to mem[c] (merged with what mem[c] holds;
//	                                            which one, when several qualify, is Go map order: resolved from the observed map);
//	                                            no such entry: error (epoch data) / nothing happens (config data)
//	lookup (e, H)                               database definition of e, else any entry of mem[e] that is H or an ancestor
//	                                            of H, else error; config: the same for e, e-1, .. 1, then genesis
//	finalisation of F (n = epochOf(F)+1)        epoch data: nothing when the database defines n; error (nothing happens) when no
//	                                            finalised block is in mem[n]; else it is persisted, every mem[e], e <= n, is
//	                                            dropped (for e < n after persisting a finalised announcer when the database does
//	                                            not define e). config: nothing when the database holds EPOCH data for n (the
//	                                            code probes epochDataKey); nothing when mem[n] is absent or holds no finalised
//	                                            block; else persisted and every mem[e], e <= n, dropped
//
// Without a re-keying event the model never departs from the spec: mem[n] then holds exactly the announcers with
// nominal epoch n, and a finalised announcer is on the chain of every live block. touchedE / touchedC record the keys
// a re-keying event wrote (k and c): only calls that read such a key can be attributed.
// ---------------------------------------------------------------------------

type c26Dev struct {
	t                  *vTree
	memE, memC         map[uint64]map[int]bool
	dbE, dbC           map[uint64][]int // persisted definition of an epoch: the announcer(s) it may stem from
	touchedE, touchedC map[uint64]bool
	events             int // re-keying events that changed the simulated state
	cfgDrops           int // config announcements dropped by a finalisation without being persisted
}

func newC26Dev(t *vTree) *c26Dev {
	return &c26Dev{t: t, memE: map[uint64]map[int]bool{}, memC: map[uint64]map[int]bool{}, dbE: map[uint64][]int{}, dbC: map[uint64][]int{},
		touchedE: map[uint64]bool{}, touchedC: map[uint64]bool{}}
}

func (d *c26Dev) announce(x int, e uint64, epochData bool) {
	m := d.memC
	if epochData {
		m = d.memE
	}
	if m[e] == nil {
		m[e] = map[int]bool{}
	}
	m[e][x] = true
}

// cands: the entries of m[e] that are h or an ancestor of h (sorted); nil = the search fails.
func (d *c26Dev) cands(m map[uint64]map[int]bool, e uint64, h int) (out []int) {
	for a := range m[e] {
		if d.t.isAncestorOrEq(a, h) {
			out = append(out, a)
		}
	}
	sort.Ints(out)
	return out
}

// lookupED: announcers whose data GetEpochDataRaw(e, header on the chain of h) may return; nil = error.
func (d *c26Dev) lookupED(h int, e uint64) []int {
	if v, ok := d.dbE[e]; ok {
		return v
	}
	return d.cands(d.memE, e, h)
}

// lookupCD: announcers whose config GetConfigData(e, ..) may return; nil = the genesis configuration.
func (d *c26Dev) lookupCD(h int, e uint64) []int {
	for t := e; t >= 1; t-- {
		if v, ok := d.dbC[t]; ok {
			return v
		}
		if cs := d.cands(d.memC, t, h); len(cs) > 0 {
			return cs
		}
	}
	return nil
}

func (d *c26Dev) touchedCfgUpTo(e uint64) bool {
	for k := range d.touchedC {
		if k <= e {
			return true
		}
	}
	return false
}

// moveDB: the persisted definition of k becomes the definition of c.
func (d *c26Dev) moveDB(db map[uint64][]int, touched map[uint64]bool, k, c uint64) {
	db[c] = db[k]
	delete(db, k)
	touched[k], touched[c] = true, true
	d.events++
}

// moveMem: announcer x moves from mem[k] to mem[c].
func (d *c26Dev) moveMem(m map[uint64]map[int]bool, touched map[uint64]bool, k, c uint64, x int) {
	delete(m[k], x) // the (possibly empty) entry of k stays, as in the code
	if m[c] == nil {
		m[c] = map[int]bool{}
	}
	m[c][x] = true
	touched[k], touched[c] = true, true
	d.events++
}

// pick resolves Go map order: the candidate that left key k of the observed map; the first one when undecidable.
func (d *c26Dev) pick(cs []int, goneFromK func(x int) bool) (x int, resolved bool) {
	if len(cs) == 1 {
		return cs[0], true
	}
	var gone []int
	for _, a := range cs {
		if goneFromK(a) {
			gone = append(gone, a)
		}
	}
	if len(gone) == 1 {
		return gone[0], true
	}
	return cs[0], false
}

// finalise applies Finalize* for the finalised block f of nominal next epoch n.
func (d *c26Dev) finalise(f int, n uint64) {
	persisted := func(m map[uint64]map[int]bool, e uint64) (out []int) {
		for a := range m[e] {
			if d.t.isAncestorOrEq(a, f) {
				out = append(out, a)
			}
		}
		sort.Ints(out)
		return out
	}
	if _, ok := d.dbE[n]; !ok {
		if ps := persisted(d.memE, n); len(ps) > 0 {
			d.dbE[n] = ps
			for e := range d.memE {
				if e > n {
					continue
				}
				if _, ok := d.dbE[e]; !ok {
					if ps := persisted(d.memE, e); len(ps) > 0 {
						d.dbE[e] = ps
					}
				}
				delete(d.memE, e)
			}
		}
	}
	if _, ok := d.dbE[n]; ok {
		return // FinalizeBABENextConfigData probes the epoch-data key
	}
	if ps := persisted(d.memC, n); len(ps) > 0 {
		d.dbC[n] = ps
		for e := range d.memC {
			if e > n {
				continue
			}
			if e < n {
				d.cfgDrops += len(d.memC[e])
			}
			delete(d.memC, e)
		}
	}
}

// describe: the simulated maps and database definitions (witness of an attributed hit).
func (d *c26Dev) describe() map[string]any {
	mm := func(m map[uint64]map[int]bool) map[string][]int {
		out := map[string][]int{}
		for e, xs := range m {
			l := []int{}
			for x := range xs {
				l = append(l, x)
			}
			sort.Ints(l)
			out[fmt.Sprint(e)] = l
		}
		return out
	}
	dd := func(m map[uint64][]int) map[string][]int {
		out := map[string][]int{}
		for e, xs := range m {
			out[fmt.Sprint(e)] = xs
		}
		return out
	}
	return map[string]any{"mem_epoch_data": mm(d.memE), "mem_config": mm(d.memC), "db_epoch_data": dd(d.dbE), "db_config": dd(d.dbC), "rekeying_events": d.events}
}

// edIn / cdIn: the returned value is the announcement of one of the blocks in cs.
func (s *c26SkipRun) edIn(got *types.EpochDataRaw, cs []int) bool {
	for _, a := range cs {
		if b := s.w.tree.blocks[a]; got != nil && b.epochData != nil && reflect.DeepEqual(got, b.epochData.ToEpochDataRaw()) {
			return true
		}
	}
	return false
}

// devED: does the observed result of an epoch-data call equal the deviation model's prediction `pred`?
func (s *c26SkipRun) devED(got *types.EpochDataRaw, gerr error, pred []int) bool {
	if len(pred) == 0 {
		return gerr != nil
	}
	return gerr == nil && s.edIn(got, pred)
}

func (s *c26SkipRun) devCD(got *types.ConfigData, gerr error, pred []int) bool {
	return s.cfgOK(got, gerr, pred)
}

// goneE / goneC: announcer x is no longer under key k of the real map (read after the operation returned; the harness
// is the only user of the state; TryRLock so that the harness can never park).
func (s *c26SkipRun) goneE(k uint64) func(int) bool {
	return func(x int) bool {
		es := s.w.es
		if !es.nextEpochDataLock.TryRLock() {
			return false
		}
		defer es.nextEpochDataLock.RUnlock()
		_, has := es.nextEpochData[k][s.w.tree.blocks[x].hash]
		return !has
	}
}

func (s *c26SkipRun) goneC(k uint64) func(int) bool {
	return func(x int) bool {
		es := s.w.es
		if !es.nextConfigDataLock.TryRLock() {
			return false
		}
		defer es.nextConfigDataLock.RUnlock()
		_, has := es.nextConfigData[k][s.w.tree.blocks[x].hash]
		return !has
	}
}

// devRekeyED / devRekeyCD apply the re-keying k -> c requested for a header on the chain of tree block h to the
// deviation model and return its prediction for the call: the announcers whose data may be returned (nil = the
// memory search fails: an error for epoch data).
func (s *c26SkipRun) devRekeyED(h int, k, c uint64) (pred []int) {
	d := s.dev
	if v, ok := d.dbE[k]; ok {
		d.moveDB(d.dbE, d.touchedE, k, c)
		return v
	}
	cs := d.cands(d.memE, k, h)
	if len(cs) == 0 {
		return nil
	}
	x, ok := d.pick(cs, s.goneE(k))
	if !ok {
		s.c.Count("deviation_model_map_order_unresolved", 1)
	}
	if len(cs) > 1 {
		s.c.Count("deviation_model_rekey_with_several_candidates", 1)
	}
	d.moveMem(d.memE, d.touchedE, k, c, x)
	return cs
}

func (s *c26SkipRun) devRekeyCD(h int, k, c uint64) (pred []int, found bool) {
	d := s.dev
	if v, ok := d.dbC[k]; ok {
		d.moveDB(d.dbC, d.touchedC, k, c)
		return v, true
	}
	cs := d.cands(d.memC, k, h)
	if len(cs) == 0 {
		return nil, false
	}
	x, ok := d.pick(cs, s.goneC(k))
	if !ok {
		s.c.Count("deviation_model_map_order_unresolved", 1)
	}
	if len(cs) > 1 {
		s.c.Count("deviation_model_rekey_with_several_candidates", 1)
	}
	d.moveMem(d.memC, d.touchedC, k, c, x)
	return cs, true
}

// guarded runs fn under the hang monitor and the findAncestor step budget.
func (s *c26SkipRun) guarded(name string, fn func() error) (cont bool, err error) {
	verifFindAncestorSteps.Store(0)
	verifFindAncestorBudget.Store(vC26StepBudget)
	var exceeded bool
	var steps int64
	ok := s.g.do(name, func() string {
		exceeded, steps = vRecoverBudget(func() { err = fn() })
		return c26Outcome(err)
	})
	verifFindAncestorBudget.Store(0)
	if !ok {
		return false, nil
	}
	if exceeded {
		s.c.Violation("nontermination", fmt.Sprintf("%s: findAncestor made %d iterations on a tree of depth %d (budget %d)", name, steps, s.w.tree.depth(), vC26StepBudget),
			s.wit(map[string]any{"operation": name}))
		return false, nil
	}
	return true, err
}

func (s *c26SkipRun) known(msg string, ex map[string]any) {
	s.c.Count("k1_global_rekey_hits", 1)
	if s.dev.cfgDrops > 0 && ex["query"] == "GetConfigData" {
		// the re-keyed DATABASE definition made a later FinalizeBABENextEpochData fail, which let FinalizeBABENextConfigData drop
		// earlier config announcements without persisting them (see NOTES.md): shown separately
		s.c.Count("k1_hits_config_after_unpersisted_config_drop", 1)
	}
	ex["deviation_model"] = s.dev.describe()
	s.c.Known("C26-K1", msg, s.wit(ex))
}

// checkED: one GetEpochDataRaw lookup for a header on the chain of tree block h, judged against the announcers ann
// (empty: the lookup must fail). correct: the result is the spec's.
func (s *c26SkipRun) checkED(e uint64, hdr *types.Header, name string, ann []int, kind string, h int) (cont, correct bool) {
	hd := *hdr
	var got *types.EpochDataRaw
	cont, gerr := s.guarded(fmt.Sprintf("GetEpochDataRaw(%d, %s)", e, name), func() (err error) {
		got, err = s.w.es.GetEpochDataRaw(e, &hd)
		return err
	})
	if !cont {
		return false, false
	}
	s.c.Eval(1)
	s.c.Count("skipped_groups_epoch_data_lookups", 1)
	if s.writersAfter > 0 {
		s.c.Count("lookups_after_writer_after_skipped_update", 1)
	}
	ok := false
	if len(ann) == 0 {
		ok = gerr != nil
	}
	for _, a := range ann {
		if gerr == nil && reflect.DeepEqual(got, s.w.tree.blocks[a].epochData.ToEpochDataRaw()) {
			ok = true
		}
	}
	pred := s.dev.lookupED(h, e)
	asDev := s.devED(got, gerr, pred)
	if ok {
		if !asDev {
			s.c.Count("deviation_model_differs_from_correct_result", 1)
		}
		return true, true
	}
	ex := map[string]any{"query": "GetEpochDataRaw", "epoch": e, "deviation_model_predicts_announcers": pred, "header": name, "epoch_kind": kind, "expected_announcers": ann, "err": fmt.Sprint(gerr)}
	cls := "own_fork_data_not_found"
	if gerr == nil {
		ex["returned_announced_by"] = s.w.whoAnnouncedED(got)
		cls = "foreign_fork_data"
		if kind == "absent" {
			cls = "stale_skipped_epoch_key"
		}
	}
	msg := fmt.Sprintf("GetEpochDataRaw(%d, %s) [%s epoch]: expected the data announced by b%v (empty = an error), got err=%v data-of=%v", e, name, kind, ann, gerr, ex["returned_announced_by"])
	if asDev && s.dev.touchedE[e] {
		s.known(msg, ex)
		return true, false
	}
	s.c.Violation(cls, msg, s.wit(ex))
	return false, false
}

func (s *c26SkipRun) cfgOK(got *types.ConfigData, gerr error, want []int) bool {
	if gerr != nil || got == nil {
		return false
	}
	if len(want) == 0 {
		g := s.w.gen
		return got.C1 == g.C1 && got.C2 == g.C2 && got.SecondarySlots == g.SecondarySlots
	}
	for _, a := range want {
		if reflect.DeepEqual(got, s.w.tree.blocks[a].configData.ToConfigData()) {
			return true
		}
	}
	return false
}

func (s *c26SkipRun) checkCD(e uint64, hdr *types.Header, name string, want []int, h int) (cont, correct bool) {
	hd := *hdr
	var got *types.ConfigData
	cont, gerr := s.guarded(fmt.Sprintf("GetConfigData(%d, %s)", e, name), func() (err error) {
		got, err = s.w.es.GetConfigData(e, &hd)
		return err
	})
	if !cont {
		return false, false
	}
	s.c.Eval(1)
	s.c.Count("skipped_groups_config_lookups", 1)
	pred := s.dev.lookupCD(h, e)
	asDev := s.devCD(got, gerr, pred)
	if s.cfgOK(got, gerr, want) {
		if !asDev {
			s.c.Count("deviation_model_differs_from_correct_result", 1)
		}
		return true, true
	}
	ex := map[string]any{"query": "GetConfigData", "epoch": e, "deviation_model_predicts_announcers": pred, "header": name, "expected_announcers": want, "err": fmt.Sprint(gerr)}
	cls := "config_lookup_failed"
	if gerr == nil {
		ex["returned_announced_by"] = s.w.whoAnnouncedCD(got)
		cls = "foreign_fork_config"
	}
	msg := fmt.Sprintf("GetConfigData(%d, %s): expected the config of b%v (empty = genesis), got err=%v config-of=%v", e, name, want, gerr, ex["returned_announced_by"])
	if asDev && s.dev.touchedCfgUpTo(e) {
		s.known(msg, ex)
		return true, false
	}
	s.c.Violation(cls, msg, s.wit(ex))
	return false, false
}

// mapFingerprint of an in-memory announcement map (caller holds the read lock or is the only user).
func c26MapFingerprint[T types.NextEpochData | types.NextConfigDataV1](m nextEpochMap[T]) string {
	var parts []string
	for e, hs := range m {
		for h := range hs {
			parts = append(parts, fmt.Sprintf("%d:%s", e, h.Short()))
		}
	}
	sort.Strings(parts)
	return strings.Join(parts, ",")
}

// heldProbe runs op (a re-keying call) while the harness holds the READ lock `lock` - as a lookup does inside its
// critical section. A correct update either does not touch the map guarded by `lock` or waits for the reader:
//   - op returns while the read lock is still held and the map changed  => violation map_mutated_under_reader
//   - op's goroutine is seen parked in sync.(*RWMutex).Lock called from dot/state => the reader is released and op
//     must complete (hang monitor as for every other operation)
//
// No verdict depends on time: completion and the parked state are positive evidence; neither within the bounded
// number of samples => the read lock is released and the probe is only counted.
func (s *c26SkipRun) heldProbe(name, lockName string, lock *sync.RWMutex, snap func() string, op func() error) (cont bool, err error) {
	if !lock.TryRLock() {
		s.c.Count("reader_held_probe_lock_busy", 1)
		return s.guarded(name, op)
	}
	before := snap()
	gidCh := make(chan string, 1)
	opDone := make(chan struct{})
	type probeRes struct {
		underReader, mutated, waited, gaveUp bool
		site, after                          string
	}
	resCh := make(chan probeRes, 1)
	stopCh := make(chan struct{}) // closed when the hang monitor gave a verdict: the watcher must not linger
	go func() {
		var gid string
		select {
		case gid = <-gidCh:
		case <-stopCh:
			lock.RUnlock()
			return
		}
		for i := 0; i < 6000; i++ {
			select {
			case <-stopCh:
				lock.RUnlock()
				return
			case <-opDone:
				after := snap()
				lock.RUnlock()
				resCh <- probeRes{underReader: true, mutated: after != before, after: after}
				return
			default:
			}
			smp := c26SampleStacks(gid, "")
			if smp.parked && strings.HasPrefix(smp.lockSite, "sync.(*RWMutex).Lock <-") {
				lock.RUnlock()
				resCh <- probeRes{waited: true, site: smp.lockSite}
				return
			}
			if i < 50 {
				for y := 0; y < 8; y++ {
					time.Sleep(20 * time.Microsecond)
				}
			} else {
				time.Sleep(time.Millisecond)
			}
		}
		lock.RUnlock()
		resCh <- probeRes{gaveUp: true}
	}()
	cont, err = s.guarded(name+" [reader holds "+lockName+"]", func() error {
		gidCh <- c26GoID()
		defer close(opDone)
		return op()
	})
	if !cont {
		close(stopCh)
		return false, nil
	}
	res := <-resCh
	s.c.Eval(1)
	switch {
	case res.gaveUp:
		s.c.Count("reader_held_probe_undecided", 1)
	case res.waited:
		s.c.Count("reader_held_probe_writer_waited", 1)
	case res.mutated:
		s.c.Violation("map_mutated_under_reader", fmt.Sprintf("%s returned while the harness held %s.RLock() (as a lookup does in its critical section) and changed the map guarded by that lock: "+
			"a concurrent lookup reads the map while it is written (Go: fatal error: concurrent map read and map write / concurrent map iteration and map write)", name, lockName),
			s.wit(map[string]any{"operation": name, "lock": lockName, "map_before": before, "map_after": res.after, "err": fmt.Sprint(err)}))
		return false, nil
	default:
		s.c.Count("reader_held_probe_map_untouched", 1)
	}
	return true, err
}

// rekey executes the re-keying for the skipping block (spec i, parent tree index pt, header h): flow 0
// UpdateSkippedEpochDefinitions(k, c, h), flow 1 GetSkippedEpochDataRaw/GetSkippedConfigData(k, c, parent header).
// accept=false: the node would not import / author the block.
func (s *c26SkipRun) rekey(i, pt int, h *types.Header, k, c uint64) (cont, accept bool) {
	w := s.w
	flow, hold := s.sp.Flow[i], s.sp.Hold[i]
	annED := w.announcers(pt, k, true)
	annCD := w.announcers(pt, k, false)
	// (the ancestry of the not yet imported header h is its parent's: h itself announces for later epochs only)
	op := c26Rekey{k: k, c: c, owner: -1, aED: -1, aCD: -1, flow: flow}
	// attribution needs a re-keying event EARLIER in the history that wrote a key this call reads
	touchedE, touchedC := s.dev.touchedE[k], s.dev.touchedCfgUpTo(k)
	if len(annED) > 0 {
		op.aED = annED[0]
	}
	if len(annCD) > 0 {
		op.aCD = annCD[0]
	}
	inDB := false
	if v, err := w.es.db.Get(epochDataKey(k)); err == nil && v != nil {
		inDB = true
	}
	if w.otherForkAnnounces(pt, k, true) {
		s.c.Count("rekey_with_competing_fork_announcer_for_skipped_epoch", 1)
	}
	if c > k+1 {
		s.c.Count("rekey_over_two_or_more_epochs", 1)
	}
	var lock *sync.RWMutex
	var snap func() string
	lockName := ""
	switch hold {
	case 1:
		lock, lockName, snap = &w.es.nextEpochDataLock, "nextEpochDataLock", func() string { return c26MapFingerprint(w.es.nextEpochData) }
	case 2:
		lock, lockName, snap = &w.es.nextConfigDataLock, "nextConfigDataLock", func() string { return c26MapFingerprint(w.es.nextConfigData) }
	}
	run := func(name string, fn func() error) (bool, error) {
		if lock != nil {
			return s.heldProbe(name, lockName, lock, snap, fn)
		}
		return s.guarded(name, fn)
	}
	pname := fmt.Sprintf("b%d", pt)

	if flow == 0 {
		hd := *h
		name := fmt.Sprintf("UpdateSkippedEpochDefinitions(%d, %d, child of %s)", k, c, pname)
		cont, err := run(name, func() error { return w.es.UpdateSkippedEpochDefinitions(k, c, &hd) })
		if !cont {
			return false, false
		}
		s.c.Eval(1)
		s.logf("%s -> %s (epoch data of %d in database before: %v; announcers on the chain: data b%v config b%v)", name, c26Outcome(err), k, inDB, annED, annCD)
		// deviation model: the epoch data first; the config data only when that succeeded
		predE := s.devRekeyED(pt, k, c)
		if len(predE) > 0 {
			s.devRekeyCD(pt, k, c)
		}
		if (err == nil) != (len(predE) > 0) {
			s.c.Count("deviation_model_differs_on_update_outcome", 1)
		}
		switch {
		case err == nil && len(annED) > 0:
			s.c.Count("skipped_updates_executed", 1)
			if inDB {
				s.c.Count("skipped_updates_db_path", 1)
			} else {
				s.c.Count("skipped_updates_memory_path", 1)
			}
			if len(annCD) > 0 {
				s.c.Count("skipped_updates_with_config_rekeyed", 1)
			}
		case err == nil:
			// nothing announced on the chain for k, yet the update reports success: the lookups of epoch c that follow
			// (expected to fail) decide whether foreign data was re-keyed
			s.c.Count("skipped_update_succeeded_without_own_announcement", 1)
		case len(annED) == 0:
			s.c.Count("skipped_update_without_own_announcement_failed", 1)
			return true, false
		default:
			ex := map[string]any{"operation": name, "err": err.Error(), "expected_announcers_epoch_data": annED, "expected_announcers_config": annCD}
			msg := fmt.Sprintf("%s failed (%v) although b%v on the block's own chain announced the data of epoch %d (config announcers on the chain: b%v)", name, err, annED, k, annCD)
			if len(predE) == 0 && touchedE {
				// an earlier re-keying took the chain's announcer away from key k: the deviation model fails as well
				s.known(msg, ex)
				s.ops = append(s.ops, op)
				return true, false
			}
			s.ops = append(s.ops, op)
			s.c.Violation("skipped_update_failed", msg, s.wit(ex))
			return false, false
		}
	} else {
		ph := *w.tree.blocks[pt].header
		var gotE *types.EpochDataRaw
		name := fmt.Sprintf("GetSkippedEpochDataRaw(%d, %d, %s)", k, c, pname)
		cont, err := run(name, func() (err error) {
			gotE, err = w.es.GetSkippedEpochDataRaw(k, c, &ph)
			return err
		})
		if !cont {
			return false, false
		}
		s.c.Eval(1)
		s.logf("%s -> %s (in database before: %v; announcers on the chain: b%v)", name, c26Outcome(err), inDB, annED)
		predE := s.devRekeyED(pt, k, c)
		ok := false
		if len(annED) == 0 {
			ok = err != nil
		}
		for _, a := range annED {
			if err == nil && reflect.DeepEqual(gotE, w.tree.blocks[a].epochData.ToEpochDataRaw()) {
				ok = true
			}
		}
		if !ok {
			ex := map[string]any{"operation": name, "err": fmt.Sprint(err), "expected_announcers": annED, "deviation_model_predicts_announcers": predE}
			cls := "own_fork_data_not_found"
			if err == nil {
				ex["returned_announced_by"] = w.whoAnnouncedED(gotE)
				cls = "foreign_fork_data"
			}
			msg := fmt.Sprintf("%s: expected the data announced by b%v (empty = an error), got err=%v data-of=%v", name, annED, err, ex["returned_announced_by"])
			if touchedE && s.devED(gotE, err, predE) {
				s.known(msg, ex)
				s.ops = append(s.ops, op)
				return true, false
			}
			s.c.Violation(cls, msg, s.wit(ex))
			return false, false
		}
		if !s.devED(gotE, err, predE) {
			s.c.Count("deviation_model_differs_from_correct_result", 1)
		}
		if err != nil {
			s.c.Count("skipped_getter_without_own_announcement_failed", 1)
			return true, false
		}
		s.c.Count("skipped_getters_executed", 1)
		if inDB {
			s.c.Count("skipped_getters_db_path", 1)
		}
		// config: announced for k on the chain, else the latest earlier configuration
		want := w.expectedCD(pt, k)
		var gotC *types.ConfigData
		name = fmt.Sprintf("GetSkippedConfigData(%d, %d, %s)", k, c, pname)
		cont, err = run(name, func() (err error) {
			gotC, err = w.es.GetSkippedConfigData(k, c, &ph)
			return err
		})
		if !cont {
			return false, false
		}
		s.c.Eval(1)
		s.logf("%s -> %s (expected config of b%v)", name, c26Outcome(err), want)
		predC, found := s.devRekeyCD(pt, k, c)
		if !found {
			predC = s.dev.lookupCD(pt, k-1) // nothing for the skipped epoch: the latest earlier configuration
		}
		if !s.cfgOK(gotC, err, want) {
			ex := map[string]any{"operation": name, "err": fmt.Sprint(err), "expected_announcers": want, "deviation_model_predicts_announcers": predC}
			cls := "config_lookup_failed"
			if err == nil {
				ex["returned_announced_by"] = w.whoAnnouncedCD(gotC)
				cls = "foreign_fork_config"
			}
			msg := fmt.Sprintf("%s: expected the config of b%v (empty = genesis), got err=%v config-of=%v", name, want, err, ex["returned_announced_by"])
			if touchedC && s.devCD(gotC, err, predC) {
				s.known(msg, ex)
			} else {
				s.ops = append(s.ops, op)
				s.c.Violation(cls, msg, s.wit(ex))
				return false, false
			}
		} else {
			if !s.devCD(gotC, err, predC) {
				s.c.Count("deviation_model_differs_from_correct_result", 1)
			}
			s.c.Count("skipped_config_getters_correct", 1)
			if len(annCD) == 0 {
				s.c.Count("skipped_config_getter_fell_back_to_earlier_config", 1)
			}
		}
	}
	s.ops = append(s.ops, op)
	s.rekeys++
	return true, true
}

// importBlock processes spec block i the way the node does. cont=false: stop the case.
func (s *c26SkipRun) importBlock(i int) (cont bool) {
	w, spec := s.w, &s.sp.Tree
	sb := spec.Blocks[i]
	pt := 0
	if sb.Parent >= 0 {
		pt = s.idx[sb.Parent]
	}
	if pt < 0 || (pt != s.head && !w.tree.isAncestorOrEq(s.head, pt)) {
		s.c.Count("blocks_not_imported_parent_missing_or_abandoned", 1)
		return true
	}
	p := w.tree.blocks[pt]
	var ed *types.NextEpochData
	var cd *types.NextConfigDataV1
	if sb.ED {
		ed = c26EpochData(i + 1)
	}
	if sb.CD {
		cd = c26ConfigData(i + 1)
	}
	h, cds, err := vHeader(p.hash, p.number+1, sb.Slot, vHashOf("c26-root", uint64(i)), vHashOf("c26-ext", uint64(i)), sb.Primary, ed, cd)
	if err != nil {
		s.c.Inconclusive("header: " + err.Error())
		return false
	}
	pe := w.epochOf(pt)
	ce := w.epochOfChild(pt, sb.Slot)
	skipping := pt != 0 && ce > pe+1
	name := fmt.Sprintf("child of b%d (spec %d, slot %d)", pt, i, sb.Slot)

	if pt != 0 {
		// HandleBlockImport: epochs of the parent and of the not yet imported block
		var gotP, gotC uint64
		cont, err := s.guarded(fmt.Sprintf("GetEpochForBlock(b%d)", pt), func() (err error) { gotP, err = w.es.GetEpochForBlock(p.header); return err })
		if !cont {
			return false
		}
		cont, err2 := s.guarded(fmt.Sprintf("GetEpochForBlock(%s)", name), func() (err error) { gotC, err = w.es.GetEpochForBlock(h); return err })
		if !cont {
			return false
		}
		s.c.Eval(2)
		if err != nil || err2 != nil || gotP != pe || gotC != ce {
			s.c.Violation("epoch_for_block", fmt.Sprintf("GetEpochForBlock(parent b%d)=%d err=%v, GetEpochForBlock(%s)=%d err=%v; own chain gives %d and %d", pt, gotP, err, name, gotC, err2, pe, ce),
				s.wit(map[string]any{"spec_block": i}))
			return false
		}
		// VerifyBlock: the epoch descriptor is looked up on the not yet imported header
		d := ce
		if skipping {
			d = pe + 1
		}
		if d >= 1 {
			// the header's ancestry is its parent's (it announces for LATER epochs only)
			ann, kind := w.expectedED(pt, d)
			if skipping || kind == "absent" {
				ann, kind = w.announcers(pt, d, true), "next"
			}
			if cont, _ := s.checkED(d, h, name, ann, kind+"/verify-time", pt); !cont {
				return false
			}
			if cont, _ := s.checkCD(d, h, name, w.expectedCD(pt, d), pt); !cont {
				return false
			}
			s.c.Count("verify_time_lookups_on_unimported_header", 1)
		}
	}
	if skipping {
		s.c.Count("skipping_blocks", 1)
		cont, accept := s.rekey(i, pt, h, pe+1, ce)
		if !cont {
			return false
		}
		if !accept {
			s.c.Count("skipping_blocks_not_imported", 1)
			return true
		}
	}
	blk := &types.Block{Header: *h, Body: types.Body{}}
	cont, err = s.guarded(fmt.Sprintf("AddBlock(spec %d)", i), func() error {
		return w.bs.AddBlockWithArrivalTime(blk, vBaseTime.Add(time.Duration(i+1)*time.Second))
	})
	if !cont {
		return false
	}
	if err != nil {
		s.c.Inconclusive(fmt.Sprintf("AddBlock spec block %d: %v", i, err))
		return false
	}
	x := w.tree.add(&vBlock{parent: pt, number: p.number + 1, slot: sb.Slot, header: h, hash: h.Hash(), added: true, epochData: ed, configData: cd})
	s.idx[i] = x
	if skipping {
		s.ops[len(s.ops)-1].owner = x
		s.logf("b%d = spec %d imported: enters epoch %d from epoch %d (flow %d)", x, i, ce, pe, s.sp.Flow[i])
	}
	for _, d := range cds {
		kind := "NextEpochData"
		if _, isED := mustDigestValue(d).(types.NextEpochData); !isED {
			kind = "NextConfigData"
		}
		d := d
		cont, err = s.guarded(fmt.Sprintf("HandleBABEDigest(b%d, %s)", x, kind), func() error { return w.es.HandleBABEDigest(h, d) })
		if !cont {
			return false
		}
		if err != nil {
			s.c.Inconclusive(fmt.Sprintf("HandleBABEDigest spec block %d: %v", i, err))
			return false
		}
		s.dev.announce(x, w.epochOf(x)+1, kind == "NextEpochData")
		if s.rekeys > 0 {
			s.writersAfter++
			s.c.Count("writers_after_skipped_update", 1)
		}
	}
	return true
}

func (s *c26SkipRun) finalise(f int) (cont bool) {
	w := s.w
	fb := w.tree.blocks[f]
	s.fins++
	cont, err := s.guarded(fmt.Sprintf("SetFinalisedHash(b%d)", f), func() error { return w.bs.SetFinalisedHash(fb.hash, uint64(s.fins), 0) })
	if !cont {
		return false
	}
	if err != nil {
		s.c.Inconclusive(fmt.Sprintf("SetFinalisedHash(b%d) failed: %v", f, err))
		return false
	}
	cont, e1 := s.guarded(fmt.Sprintf("FinalizeBABENextEpochData(b%d)", f), func() error { return w.es.FinalizeBABENextEpochData(fb.header) })
	if !cont {
		return false
	}
	cont, e2 := s.guarded(fmt.Sprintf("FinalizeBABENextConfigData(b%d)", f), func() error { return w.es.FinalizeBABENextConfigData(fb.header) })
	if !cont {
		return false
	}
	s.logf("finalised b%d (#%d, epoch %d): FinalizeBABENextEpochData err=%v FinalizeBABENextConfigData err=%v", f, fb.number, w.epochOf(f), e1, e2)
	s.c.Count("skipped_groups_finalisations", 1)
	if e1 != nil {
		s.c.Count("skipped_groups_finalize_next_epoch_data_errors", 1)
	}
	if s.rekeys > 0 {
		s.writersAfter++
		s.c.Count("finalisations_after_skipped_update", 1)
	}
	s.head = f
	s.dev.finalise(f, w.epochOf(f)+1)
	return true
}

// sweep: every live block, every epoch that exists on its chain, the next one, and the skipped ones.
func (s *c26SkipRun) sweep() (cont bool) {
	w := s.w
	for x, b := range w.tree.blocks {
		if x == 0 || !w.tree.isAncestorOrEq(s.head, x) {
			continue
		}
		name := fmt.Sprintf("b%d", x)
		es := map[uint64]bool{w.epochOf(x) + 1: true}
		for _, y := range w.tree.chain(x)[1:] {
			if e := w.epochOf(y); e >= 1 {
				es[e] = true
			}
		}
		skippedHere := map[uint64]bool{}
		for _, r := range s.ops {
			if r.owner >= 0 && w.tree.isAncestorOrEq(r.owner, x) {
				es[r.k] = true
				skippedHere[r.k] = true
				es[r.c] = true
			}
		}
		var order []uint64
		for e := range es {
			order = append(order, e)
		}
		sort.Slice(order, func(i, j int) bool { return order[i] < order[j] })
		for _, e := range order {
			ann, kind := w.expectedED(x, e)
			if kind == "absent" && !skippedHere[e] {
				continue
			}
			rekeyed := false
			for _, r := range s.ops {
				if r.owner >= 0 && w.tree.isAncestorOrEq(r.owner, x) && r.c == e && r.aED >= 0 {
					rekeyed = true
				}
			}
			cont, correct := s.checkED(e, b.header, name, ann, kind, x)
			if !cont {
				return false
			}
			switch {
			case rekeyed && correct:
				s.c.Count("rekeyed_epoch_data_lookups_correct", 1)
				if w.otherForkAnnounces(x, ann0(ann, w), true) {
					s.c.Count("rekeyed_epoch_data_correct_with_competing_fork_announcer", 1)
				}
			case kind == "absent" && correct:
				s.c.Count("skipped_epoch_key_gone_after_rekey", 1)
			}
			if kind == "absent" {
				continue // config of an epoch that does not exist on the chain: not defined by the property
			}
			want := w.expectedCD(x, e)
			cont, correct = s.checkCD(e, b.header, name, want, x)
			if !cont {
				return false
			}
			if correct && len(want) > 0 {
				for _, r := range s.ops {
					if r.owner >= 0 && w.tree.isAncestorOrEq(r.owner, x) && r.aCD == want[0] && e >= r.c {
						s.c.Count("rekeyed_config_lookups_correct", 1)
						break
					}
				}
			}
		}
	}
	return true
}

// ann0: nominal epoch of the first expected announcer (0 when there is none).
func ann0(ann []int, w *c26World) uint64 {
	if len(ann) == 0 {
		return 0
	}
	return w.epochOf(ann[0]) + 1
}

func runC26Skipped(c *vcommon.Case, sp *c26SkipSpec) {
	g := newC26Guard(c, &sp.Tree)
	w, closeFn, err := newC26World(&sp.Tree)
	if err != nil {
		c.Inconclusive("cannot build world: " + err.Error())
		return
	}
	defer closeFn()
	defer verifFindAncestorBudget.Store(0)
	s := &c26SkipRun{c: c, g: g, w: w, sp: sp, idx: make([]int, len(sp.Tree.Blocks)), dev: newC26Dev(w.tree)}
	for i := range s.idx {
		s.idx[i] = -1
	}
	g.base = func() map[string]any { return s.wit(nil) }
	for i := range sp.Tree.Blocks {
		before := s.rekeys
		if !s.importBlock(i) {
			return
		}
		if s.rekeys > before {
			// right after a re-keying: everything is looked up again
			if !s.sweep() {
				return
			}
		}
		for _, fs := range sp.Fin {
			if fs.After != i {
				continue
			}
			f := -1
			if fs.Block >= 0 {
				f = s.idx[fs.Block]
				if f >= 0 && (f == s.head || !w.tree.isAncestorOrEq(s.head, f)) {
					f = -1
				}
			} else {
				var cands []int
				for x := range w.tree.blocks {
					if x != s.head && w.tree.isAncestorOrEq(s.head, x) {
						cands = append(cands, x)
					}
				}
				if len(cands) > 0 {
					f = cands[fs.Pick%len(cands)]
				}
			}
			if f < 0 {
				continue
			}
			if !s.finalise(f) {
				return
			}
			if !s.sweep() {
				return
			}
		}
	}
	if !s.sweep() {
		return
	}
	c.Count("skipped_cases_completed", 1)
	if s.rekeys > 0 {
		var fl []string
		for _, r := range s.ops {
			fl = append(fl, fmt.Sprintf("%d>%d@%d/%d", r.k, r.c, r.owner, r.flow))
		}
		c.Distinct(fmt.Sprint("skip|", w.tree.shape(), "|", w.annPattern(), "|", fl, sp.Fin))
	}
	c.Sample(map[string]any{"tree": w.tree.describe(), "epoch_length": w.L, "events": s.log, "operations": g.nops})
}

// ---------------------------------------------------------------------------
// generators
// ---------------------------------------------------------------------------

type c26SkipGen struct {
	r      *vcommon.Rand
	sp     *c26SkipSpec
	number []uint
	slot   []uint64
	first  []uint64 // slot of the #1 block of the chain
	epoch  []uint64
}

func (gn *c26SkipGen) add(parent int, slot uint64, edP, cdP [2]int) int {
	r := gn.r
	var number uint = 1
	first := slot
	var epoch, pEpoch uint64
	if parent >= 0 {
		number = gn.number[parent] + 1
		first = gn.first[parent]
		pEpoch = gn.epoch[parent]
		epoch = (slot - first) / gn.sp.Tree.L
	}
	firstOfEpoch := parent < 0 || epoch != pEpoch
	bs := c26BlockSpec{Parent: parent, Slot: slot, Primary: r.Chance(3, 4)}
	if firstOfEpoch {
		bs.ED = r.Chance(edP[0], edP[1])
		bs.CD = r.Chance(cdP[0], cdP[1])
	}
	gn.sp.Tree.Blocks = append(gn.sp.Tree.Blocks, bs)
	gn.number, gn.slot, gn.first, gn.epoch = append(gn.number, number), append(gn.slot, slot), append(gn.first, first), append(gn.epoch, epoch)
	flow, hold := 0, 0
	if r.Chance(1, 4) {
		flow = 1
	}
	if r.Chance(2, 5) {
		hold = 1 + r.Intn(2)
	}
	gn.sp.Flow = append(gn.sp.Flow, flow)
	gn.sp.Hold = append(gn.sp.Hold, hold)
	return len(gn.sp.Tree.Blocks) - 1
}

// slotIn: a slot of epoch e on the chain of block parent, later than the parent's slot.
func (gn *c26SkipGen) slotIn(parent int, e uint64) uint64 {
	L := gn.sp.Tree.L
	lo := gn.first[parent] + e*L
	if lo <= gn.slot[parent] {
		lo = gn.slot[parent] + 1
	}
	hi := gn.first[parent] + e*L + L - 1
	if hi < lo {
		return lo
	}
	return lo + uint64(gn.r.Intn(int(hi-lo)+1))
}

// genC26SkipFan: a trunk in epoch 0 and 2-4 competing forks, each with its own first block of epoch 1 (announcing
// epoch 2); most forks then skip epoch 2 (and sometimes 3), some do not. Imported level by level, so that every
// fork's announcer for the skipped epoch is in memory when the first skip is processed.
func genC26SkipFan(c *vcommon.Case) *c26SkipSpec {
	r := c.R
	sp := &c26SkipSpec{Tree: c26Spec{L: uint64(r.Range(2, 3))}}
	gn := &c26SkipGen{r: r, sp: sp}
	L := sp.Tree.L
	S := uint64(r.Range(50, 5000))
	// finalisation only on BABE-conformant trees (the first block of every epoch announces the next epoch's data),
	// as in the groups *_finalised; chains that announce nothing for the skipped epoch only without finalisation
	withFin := r.Chance(3, 5)
	ed, cd := [2]int{9, 10}, [2]int{1, 2}
	if withFin {
		ed = [2]int{1, 1}
	}
	tip := gn.add(-1, S, ed, cd)
	if r.Bool() {
		tip = gn.add(tip, S+1, ed, cd)
	}
	k := r.Range(2, 4)
	tips := make([]int, k)
	for i := range tips {
		tips[i] = gn.add(tip, S+L+uint64(i)%L, ed, cd) // first block of epoch 1 on fork i
	}
	for i := range tips {
		if r.Chance(1, 3) && gn.slot[tips[i]]+1 < S+2*L {
			tips[i] = gn.add(tips[i], gn.slot[tips[i]]+1, ed, cd) // second block of epoch 1
		}
	}
	for i := range tips {
		target := uint64(2) // no skip
		if r.Chance(3, 4) {
			target = uint64(3 + r.Intn(2))
		}
		base := tips[i]
		tips[i] = gn.add(base, gn.slotIn(base, target), ed, cd)
		if r.Chance(1, 6) { // a competing sibling that enters another (or the same) epoch: C26-K1 territory
			gn.add(base, gn.slotIn(base, uint64(2+r.Intn(3))), ed, cd)
		}
	}
	for i := range tips {
		if r.Chance(2, 3) {
			e := gn.epoch[tips[i]]
			switch r.Intn(3) {
			case 0: // same epoch
				if gn.slot[tips[i]]+1 < gn.first[tips[i]]+(e+1)*L {
					tips[i] = gn.add(tips[i], gn.slot[tips[i]]+1, ed, cd)
				}
			case 1:
				tips[i] = gn.add(tips[i], gn.slotIn(tips[i], e+1), ed, cd)
			default: // a second skip
				tips[i] = gn.add(tips[i], gn.slotIn(tips[i], e+2+uint64(r.Intn(2))), ed, cd)
			}
		}
	}
	n := len(sp.Tree.Blocks)
	if withFin {
		sp.Fin = append(sp.Fin, c26SkipFin{After: r.Range(0, n-1), Block: -1, Pick: r.Intn(1000)})
		if r.Chance(1, 2) {
			sp.Fin = append(sp.Fin, c26SkipFin{After: n - 1, Block: -1, Pick: r.Intn(1000)})
		}
	}
	return sp
}

// genC26SkipTree: random tree; about a third of the non-first blocks jump over 1-3 epochs.
func genC26SkipTree(c *vcommon.Case) *c26SkipSpec {
	r := c.R
	sp := &c26SkipSpec{Tree: c26Spec{L: uint64(r.Range(2, 4))}}
	gn := &c26SkipGen{r: r, sp: sp}
	L := sp.Tree.L
	n := r.Range(4, 11)
	base := uint64(r.Range(50, 5000))
	used := map[uint64]bool{}
	withFin := r.Chance(3, 5)
	ed, cd := [2]int{17, 20}, [2]int{2, 5}
	if withFin {
		ed = [2]int{1, 1}
	}
	for i := 0; i < n; i++ {
		parent := -1
		if i > 0 {
			switch {
			case r.Chance(12, 20):
				parent = i - 1
			case r.Chance(1, 8):
				parent = -1
			default:
				parent = r.Intn(i)
			}
		}
		if parent < 0 {
			sl := base + uint64(r.Intn(6))
			for used[sl] {
				sl++
			}
			used[sl] = true
			gn.add(-1, sl, ed, cd)
			continue
		}
		if r.Chance(7, 20) {
			gn.add(parent, gn.slotIn(parent, gn.epoch[parent]+2+uint64(r.Intn(3))), ed, cd)
		} else {
			gn.add(parent, gn.slot[parent]+uint64(r.Range(1, int(L))), ed, cd)
		}
	}
	if withFin {
		sp.Fin = append(sp.Fin, c26SkipFin{After: r.Range(0, n-1), Block: -1, Pick: r.Intn(1000)})
		if r.Chance(1, 2) {
			sp.Fin = append(sp.Fin, c26SkipFin{After: n - 1, Block: -1, Pick: r.Intn(1000)})
		}
	}
	return sp
}

func c26SkipCorpus() []*c26SkipSpec {
	mk := func(L uint64, bl []c26BlockSpec, flow, hold []int, fin []c26SkipFin) *c26SkipSpec {
		if flow == nil {
			flow = make([]int, len(bl))
		}
		if hold == nil {
			hold = make([]int, len(bl))
		}
		return &c26SkipSpec{Tree: c26Spec{L: L, Blocks: bl}, Flow: flow, Hold: hold, Fin: fin}
	}
	P := true
	return []*c26SkipSpec{
		// 0: minimal witness of the wrong-lock defect: b1 (epoch 0, announces epoch 1) - b2 (slot 104: epoch 2, epoch 1 skipped).
		// UpdateSkippedEpochDefinitions(1, 2, b2) re-keys b1's announcement in memory; then b2's own announcement (writer), b3, finalisation of b2.
		mk(2, []c26BlockSpec{{Parent: -1, Slot: 100, ED: true, CD: true, Primary: P}, {Parent: 0, Slot: 104, ED: true, Primary: P}, {Parent: 1, Slot: 105, Primary: P}},
			nil, nil, []c26SkipFin{{After: 2, Block: 1}}),
		// 1: the same through the authoring flow (GetSkippedEpochDataRaw / GetSkippedConfigData on the best block b1), config announced
		mk(2, []c26BlockSpec{{Parent: -1, Slot: 100, ED: true, CD: true, Primary: P}, {Parent: 0, Slot: 104, ED: true, Primary: P}, {Parent: 1, Slot: 106, ED: true, Primary: P}},
			[]int{0, 1, 0}, nil, nil),
		// 2: two competing forks announce for epoch 2 (b2 and b3, both first of epoch 1); fork b2 skips to epoch 4 (b4), fork b3
		// skips to epoch 3 (b5): each must get its own fork's data; children b6, b7 look it up.
		mk(2, []c26BlockSpec{{Parent: -1, Slot: 200, ED: true, Primary: P}, {Parent: 0, Slot: 202, ED: true, CD: true, Primary: P}, {Parent: 0, Slot: 203, ED: true, CD: true, Primary: P},
			{Parent: 1, Slot: 208, ED: true, Primary: P}, {Parent: 2, Slot: 206, ED: true, CD: true, Primary: P}, {Parent: 3, Slot: 209, Primary: P}, {Parent: 4, Slot: 207, Primary: P}},
			nil, nil, []c26SkipFin{{After: 6, Block: 3}}),
		// 3: database path: b1 - b2 (first of epoch 1, announces epoch 2); b2 is finalised (epoch 2 persisted, memory dropped);
		// b3 skips from epoch 1 to epoch 3: the database key is moved; b4 in epoch 3 looks it up; b3 is finalised.
		mk(2, []c26BlockSpec{{Parent: -1, Slot: 300, ED: true, Primary: P}, {Parent: 0, Slot: 302, ED: true, CD: true, Primary: P}, {Parent: 1, Slot: 306, ED: true, Primary: P},
			{Parent: 2, Slot: 307, Primary: P}}, nil, nil, []c26SkipFin{{After: 1, Block: 1}, {After: 3, Block: 2}}),
		// 4: reader-held probes: the skip of case 0 while a reader holds nextEpochDataLock, then a second skip (epoch 2 -> 5) while a
		// reader holds nextConfigDataLock, then the authoring flow (epoch 5 -> 7) under a reader of nextEpochDataLock.
		mk(2, []c26BlockSpec{{Parent: -1, Slot: 100, ED: true, CD: true, Primary: P}, {Parent: 0, Slot: 104, ED: true, CD: true, Primary: P},
			{Parent: 1, Slot: 110, ED: true, CD: true, Primary: P}, {Parent: 2, Slot: 114, ED: true, Primary: P}, {Parent: 3, Slot: 115, Primary: P}},
			[]int{0, 0, 0, 1, 0}, []int{0, 1, 2, 1, 0}, nil),
		// 5: the chain of the skipping block announced nothing for the skipped epoch, a competing fork did (b2 announces epoch 2,
		// b3 - first of epoch 1 on the other fork - does not): the update for b4 (child of b3, epoch 3) must fail, nothing of b2 may be served.
		mk(2, []c26BlockSpec{{Parent: -1, Slot: 400, ED: true, Primary: P}, {Parent: 0, Slot: 402, ED: true, CD: true, Primary: P}, {Parent: 0, Slot: 403, Primary: P},
			{Parent: 2, Slot: 406, ED: true, Primary: P}, {Parent: 1, Slot: 407, ED: true, Primary: P}, {Parent: 4, Slot: 408, Primary: P}}, nil, nil, nil),
		// 6: config data for the skipped epoch announced only on the competing fork (b2), epoch data on both: the update for b4
		// (fork b3) must succeed and b4's config is the earlier one (b1's).
		mk(2, []c26BlockSpec{{Parent: -1, Slot: 500, ED: true, CD: true, Primary: P}, {Parent: 0, Slot: 502, ED: true, CD: true, Primary: P}, {Parent: 0, Slot: 503, ED: true, Primary: P},
			{Parent: 2, Slot: 506, ED: true, Primary: P}, {Parent: 3, Slot: 507, Primary: P}, {Parent: 1, Slot: 504, ED: true, Primary: P}},
			[]int{0, 0, 0, 0, 0, 0}, nil, nil),
		// 7: as 6 through the authoring flow (GetSkippedConfigData must fall back to the earlier configuration)
		mk(2, []c26BlockSpec{{Parent: -1, Slot: 500, ED: true, CD: true, Primary: P}, {Parent: 0, Slot: 502, ED: true, CD: true, Primary: P}, {Parent: 0, Slot: 503, ED: true, Primary: P},
			{Parent: 2, Slot: 506, ED: true, Primary: P}, {Parent: 3, Slot: 507, Primary: P}},
			[]int{0, 0, 0, 1, 0}, nil, nil),
	}
}

func registerC26Skipped(r *vcommon.Run) {
	r.Floor("skipped_updates_executed", 150)
	r.Floor("skipped_updates_memory_path", 100)
	r.Floor("skipped_updates_db_path", 10)
	r.Floor("skipped_getters_executed", 50)
	r.Floor("skipped_config_getters_correct", 40)
	r.Floor("rekeyed_epoch_data_lookups_correct", 500)
	r.Floor("rekeyed_config_lookups_correct", 100)
	r.Floor("rekey_with_competing_fork_announcer_for_skipped_epoch", 80)
	r.Floor("rekeyed_epoch_data_correct_with_competing_fork_announcer", 100)
	r.Floor("skipped_epoch_key_gone_after_rekey", 200)
	r.Floor("skipped_update_without_own_announcement_failed", 5)
	r.Floor("writers_after_skipped_update", 150)
	r.Floor("finalisations_after_skipped_update", 30)
	r.Floor("lookups_after_writer_after_skipped_update", 1000)
	r.Floor("reader_held_probe_writer_waited", 40)

	corpus := c26SkipCorpus()
	r.Fixed("skipped-corpus", len(corpus), func(c *vcommon.Case) { runC26Skipped(c, corpus[c.Idx]) })
	r.Cases("skipped", r.Scale(240), func(c *vcommon.Case) {
		if c.Idx%2 == 0 {
			runC26Skipped(c, genC26SkipFan(c))
		} else {
			runC26Skipped(c, genC26SkipTree(c))
		}
	})
}
