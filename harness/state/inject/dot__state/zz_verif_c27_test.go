//go:build verif

package state

import (
	"bytes"
	"fmt"
	"testing"

	"github.com/ChainSafe/gossamer/dot/types"
	"github.com/ChainSafe/gossamer/lib/common"
	"github.com/ChainSafe/gossamer/pkg/scale"
	"github.com/ChainSafe/gossamer/zz_verif/vcommon"
)

// ---------------------------------------------------------------------------
// C27 reference model: Substrate's sc-consensus-slots `check_equivocation`
// (client/consensus/slots/src/aux_schema.rs), which dot/state/slot.go mirrors:
//
//	MAX_SLOT_CAPACITY = 1000, PRUNING_BOUND = 2 * MAX_SLOT_CAPACITY
//	1. if slot_now.saturating_sub(slot) > MAX_SLOT_CAPACITY  => None (too old, nothing recorded)
//	2. first_saved_slot = stored start, or `slot` when nothing was ever stored
//	3. if slot_now < first_saved_slot                         => None (nothing recorded)
//	4. for (prev_header, prev_signer) recorded at `slot`: if prev_signer == signer:
//	     different hash => Some(proof{slot, offender, first: prev_header, second: header}); same hash => None
//	   (in both cases nothing is recorded)
//	5. if slot_now - first_saved_slot >= PRUNING_BOUND: new_first = slot_now.saturating_sub(MAX_SLOT_CAPACITY),
//	     slots [first_saved_slot, new_first) are forgotten
//	6. (header, signer) is appended to `slot`; start := new_first                          => None
//
// The model is an abstract map; it shares no code with slot.go.
// ---------------------------------------------------------------------------

const (
	vEqCapacity = 1000
	vEqPruning  = 2000
)

type vEqEntry struct {
	hdr    *types.Header
	signer types.AuthorityID
}

type vEqModel struct {
	slots    map[uint64][]vEqEntry
	first    uint64
	hasFirst bool
	prunes   int
}

func newVEqModel() *vEqModel { return &vEqModel{slots: map[uint64][]vEqEntry{}} }

func vSatSub(a, b uint64) uint64 {
	if a < b {
		return 0
	}
	return a - b
}

// check returns the first header of the expected proof (nil = no proof) and a reason label.
func (m *vEqModel) check(slotNow, slot uint64, hdr *types.Header, signer types.AuthorityID) (*types.Header, string) {
	if vSatSub(slotNow, slot) > vEqCapacity {
		return nil, "too_old"
	}
	first := slot
	if m.hasFirst {
		first = m.first
	}
	if slotNow < first {
		return nil, "now_before_first"
	}
	for _, e := range m.slots[slot] {
		if e.signer == signer {
			if e.hdr.Hash() != hdr.Hash() {
				return e.hdr, "equivocation"
			}
			return nil, "duplicate"
		}
	}
	newFirst := first
	if slotNow-first >= vEqPruning {
		newFirst = vSatSub(slotNow, vEqCapacity)
		for s := range m.slots {
			if s >= first && s < newFirst {
				delete(m.slots, s)
			}
		}
		m.prunes++
	}
	m.slots[slot] = append(m.slots[slot], vEqEntry{hdr: hdr, signer: signer})
	m.first, m.hasFirst = newFirst, true
	return nil, "recorded"
}

type vEqOp struct {
	now, slot uint64
	signer    int
	hdr       *types.Header
	// wantProof is used by the fixed corpus only (self-check of the model): -1 unknown, 0 none, 1 proof
	wantProof int
}

func vEqHeader(slot uint64, tag uint64) *types.Header {
	h, _, err := vHeader(vHashOf("eq-parent", slot), uint(slot%100000)+1, slot, vHashOf("eq-sr", tag), vHashOf("eq-er", tag),
		tag%2 == 0, nil, nil)
	if err != nil {
		panic(err)
	}
	return h
}

// vEqBabeHeader: header as the lib/babe call site needs it: the pre-runtime digest carries the authority
// index (= signer) and the slot.
func vEqBabeHeader(authIdx uint32, slot uint64, tag uint64) *types.Header {
	digest := types.NewDigest()
	var pre *types.PreRuntimeDigest
	var err error
	if tag%2 == 0 {
		pre, err = types.NewBabeSecondaryPlainPreDigest(authIdx, slot).ToPreRuntimeDigest()
	} else {
		pre, err = types.NewBabePrimaryPreDigest(authIdx, slot, [32]byte{}, [64]byte{}).ToPreRuntimeDigest()
	}
	if err == nil {
		err = digest.Add(*pre)
	}
	if err != nil {
		panic(err)
	}
	return types.NewHeader(vHashOf("eq-parent", slot), vHashOf("eq-sr", tag), vHashOf("eq-er", tag), uint(slot%100000)+1, digest)
}

// VerifBabeChecker is implemented by the external test package (zz_verif_c27_babe_test.go, package state_test,
// which may import lib/babe): it drives the PRODUCTION caller of CheckEquivocation, lib/babe
// verifier.verifyBlockEquivocation / verifyAuthorshipRight, on a real SlotState + BlockState. The current slot
// there is wall-clock based (getCurrentSlot(slotDuration) = now / slotDuration): the checker steers it to
// targetNow by choosing the verifier's slot duration, reads the slot actually in force before and after the call
// (stable = both equal) and reports the equivocation proof handed to the runtime, if any.
type VerifBabeChecker interface {
	Signers() [3]types.AuthorityID
	CheckEquivocation(targetNow uint64, header *types.Header) (now uint64, stable, equivocated bool,
		proof *types.BabeEquivocationProof, err error)
	// SealedHeader builds a sealed secondary-plain header for the slot, signed by the authority that owns the slot.
	SealedHeader(slot uint64, tag uint64) (header *types.Header, authIdx int, err error)
	VerifyAuthorshipRight(targetNow uint64, header *types.Header) (now uint64, stable bool,
		proof *types.BabeEquivocationProof, err error)
	Close()
}

// VerifNewBabeChecker is set by the init() of the external test package.
var VerifNewBabeChecker func() (VerifBabeChecker, error)

// vEqDriver abstracts the call site under test.
type vEqDriver struct {
	name    string
	signers [3]types.AuthorityID
	mk      func(slot uint64, signer int, tag uint64) *types.Header
	// call returns the proof (nil = none), the slot_now actually used, skip = the clock ticked (abandon the case)
	call  func(op vEqOp, signer types.AuthorityID) (proof *types.BabeEquivocationProof, now uint64, skip bool, err error)
	close func()
}

func newStateEqDriver() (*vEqDriver, error) {
	db, err := vNewDB()
	if err != nil {
		return nil, err
	}
	ss := NewSlotState(db)
	return &vEqDriver{
		name: "state", signers: vEqSigners(),
		mk: func(slot uint64, _ int, tag uint64) *types.Header { return vEqHeader(slot, tag) },
		call: func(op vEqOp, signer types.AuthorityID) (*types.BabeEquivocationProof, uint64, bool, error) {
			proof, err := ss.CheckEquivocation(op.now, op.slot, op.hdr, signer)
			return proof, op.now, false, err
		},
		close: func() { _ = db.Close() },
	}, nil
}

func newBabeEqDriver() (*vEqDriver, error) {
	if VerifNewBabeChecker == nil {
		return nil, fmt.Errorf("external test package did not register the lib/babe checker")
	}
	ck, err := VerifNewBabeChecker()
	if err != nil {
		return nil, err
	}
	return &vEqDriver{
		name: "babe", signers: ck.Signers(),
		mk: func(slot uint64, signer int, tag uint64) *types.Header {
			return vEqBabeHeader(uint32(signer), slot, tag)
		},
		call: func(op vEqOp, _ types.AuthorityID) (*types.BabeEquivocationProof, uint64, bool, error) {
			now, stable, equivocated, proof, err := ck.CheckEquivocation(op.now, op.hdr)
			if err == nil && equivocated != (proof != nil) {
				err = fmt.Errorf("verifyBlockEquivocation returned equivocated=%v but a proof was reported to the runtime=%v",
					equivocated, proof != nil)
			}
			return proof, now, !stable || now != op.now, err
		},
		close: ck.Close,
	}, nil
}

func vEqSigners() [3]types.AuthorityID {
	var s [3]types.AuthorityID
	for i := range s {
		h := vHashOf("signer", uint64(i))
		copy(s[i][:], h[:])
	}
	return s
}

func vHeaderEq(a, b *types.Header) bool {
	ea, err1 := scale.Marshal(*a)
	eb, err2 := scale.Marshal(*b)
	return err1 == nil && err2 == nil && bytes.Equal(ea, eb)
}

type vEqHist struct {
	slot   uint64
	signer int
}

// runEqSequence replays ops on a fresh SlotState and the model and compares every answer.
func runEqSequence(c *vcommon.Case, d *vEqDriver, derr error, ops []vEqOp, sweep bool) {
	if derr != nil {
		c.Inconclusive("cannot build the call site under test: " + derr.Error())
		return
	}
	defer d.close()
	m := newVEqModel()
	signers := d.signers
	everFirst := map[vEqHist]common.Hash{} // first header ever submitted per (slot, signer), pruned or not
	var trace []string
	touched := map[uint64]bool{}
	nextTag := uint64(1 << 40)
	var reasons []byte // sequence of model outcomes = structural fingerprint of the history

	step := func(op vEqOp, phase string) bool {
		signer := signers[op.signer]
		proof, usedNow, skip, err := d.call(op, signer)
		if skip {
			c.Count("abandoned_clock_ticked", 1)
			return false
		}
		_ = usedNow
		wantFirst, reason := m.check(op.now, op.slot, op.hdr, signer)
		trace = append(trace, fmt.Sprintf("%s now=%d slot=%d signer=%d hdr=%s -> model:%s impl:proof=%v err=%v",
			phase, op.now, op.slot, op.signer, op.hdr.Hash().Short(), reason, proof != nil, err))
		if len(trace) > 260 {
			trace = trace[len(trace)-260:]
		}
		c.Eval(1)
		c.Count("checks", 1)
		c.Count(d.name+"_checks", 1)
		c.Count("model_"+reason, 1)
		if d.name == "babe" {
			c.Count("babe_model_"+reason, 1)
		}
		reasons = append(reasons, reason[0])
		touched[op.slot] = true
		w := func() map[string]any {
			return map[string]any{"call_site": d.name, "trace_tail": trace, "slot_now": op.now, "slot": op.slot, "signer": op.signer,
				"header": op.hdr.Hash().String(), "model": reason, "model_first_saved": m.first}
		}
		if op.wantProof >= 0 && (op.wantProof == 1) != (wantFirst != nil) {
			c.Inconclusive(fmt.Sprintf("model self-check failed: hand-written expectation proof=%d, model says %s", op.wantProof, reason))
			return false
		}
		if err != nil {
			c.Violation("error", fmt.Sprintf("CheckEquivocation returned error %v", err), w())
			return false
		}
		diff := vSatSub(op.now, op.slot)
		switch {
		case diff == vEqCapacity:
			c.Count("boundary_now_minus_1000", 1)
		case diff == vEqCapacity+1:
			c.Count("boundary_now_minus_1001", 1)
		}
		if op.slot > op.now {
			c.Count("future_slot", 1)
		}
		k := vEqHist{op.slot, op.signer}
		if prev, ok := everFirst[k]; ok && prev != op.hdr.Hash() && wantFirst == nil {
			// a conflicting header existed in the full history but is outside the retained window
			c.Count("conflict_outside_retained_window_"+reason, 1)
		}
		if _, ok := everFirst[k]; !ok {
			everFirst[k] = op.hdr.Hash()
		}
		if proof != nil && proof.FirstHeader.Hash() == proof.SecondHeader.Hash() {
			c.Violation("proof_for_identical_header", "proof whose two headers are identical", w())
			return false
		}
		if (proof != nil) != (wantFirst != nil) {
			cls := "missed_equivocation"
			if proof != nil {
				cls = "spurious_proof"
			}
			c.Violation(cls, fmt.Sprintf("model: %s, implementation returned proof=%v", reason, proof != nil), w())
			return false
		}
		if proof != nil {
			c.Count("proofs", 1)
			c.Count(d.name+"_proofs", 1)
			c.Eval(4)
			if proof.Slot != op.slot || proof.Offender != signer {
				c.Violation("proof_fields", fmt.Sprintf("proof slot=%d offender=%x, want slot=%d offender=%x",
					proof.Slot, proof.Offender[:4], op.slot, signer[:4]), w())
				return false
			}
			if proof.FirstHeader.Hash() != wantFirst.Hash() || !vHeaderEq(&proof.FirstHeader, wantFirst) {
				c.Violation("proof_first_header", fmt.Sprintf("first header %s, want the recorded %s",
					proof.FirstHeader.Hash().Short(), wantFirst.Hash().Short()), w())
				return false
			}
			if proof.SecondHeader.Hash() != op.hdr.Hash() || !vHeaderEq(&proof.SecondHeader, op.hdr) {
				c.Violation("proof_second_header", fmt.Sprintf("second header %s, want the checked %s",
					proof.SecondHeader.Hash().Short(), op.hdr.Hash().Short()), w())
				return false
			}
		}
		return true
	}

	maxNow := uint64(0)
	nonMono := 0
	prevNow := uint64(0)
	for i, op := range ops {
		if i > 0 && op.now < prevNow {
			nonMono++
		}
		prevNow = op.now
		if op.now > maxNow {
			maxNow = op.now
		}
		if !step(op, "op") {
			return
		}
	}
	c.Count("non_monotone_now_steps", nonMono)
	c.Count("model_prunes", m.prunes)

	if sweep && m.hasFirst {
		// Probe sweep: make what was retained / forgotten observable through proofs. For every slot
		// ever touched and every signer, submit a brand-new header at a slot_now that is inside the
		// window and not before the first saved slot.
		slots := make([]uint64, 0, len(touched))
		for s := range touched {
			slots = append(slots, s)
		}
		sortU64(slots)
		for _, s := range slots {
			now := s
			if m.first > now {
				now = m.first
			}
			if now-s > vEqCapacity {
				continue
			}
			for sg := 0; sg < 3; sg++ {
				nextTag++
				_, pruned := everFirst[vEqHist{s, sg}]
				has := false
				for _, e := range m.slots[s] {
					if e.signer == signers[sg] {
						has = true
					}
				}
				if pruned && !has {
					c.Count("sweep_forgotten_entry_probed", 1)
				}
				if has {
					c.Count("sweep_retained_entry_probed", 1)
				}
				if !step(vEqOp{now: now, slot: s, signer: sg, hdr: d.mk(s, sg, nextTag), wantProof: -1}, "sweep") {
					return
				}
			}
		}
	}
	if m.prunes > 0 || nonMono > 0 {
		c.Distinct(d.name + ":" + string(reasons))
	}
	if len(trace) > 6 {
		c.Sample(map[string]any{"ops": len(ops), "prunes": m.prunes, "last_steps": trace[len(trace)-6:]})
	}
}

func sortU64(a []uint64) {
	for i := 1; i < len(a); i++ {
		for j := i; j > 0 && a[j] < a[j-1]; j-- {
			a[j], a[j-1] = a[j-1], a[j]
		}
	}
}

// eqFixedCorpus builds the hand-written sequences for a call site; headers are identified by a key and
// built by the driver's factory (memoised per (slot, signer, key) so that "the same header again" is the same header).
func eqFixedCorpus(d *vEqDriver) [][]vEqOp {
	type hk struct {
		slot   uint64
		signer int
		key    uint64
	}
	memo := map[hk]*types.Header{}
	op := func(now, slot uint64, signer int, key uint64, want int) vEqOp {
		k := hk{slot, signer, key}
		if memo[k] == nil {
			memo[k] = d.mk(slot, signer, key)
		}
		return vEqOp{now: now, slot: slot, signer: signer, hdr: memo[k], wantProof: want}
	}
	const A, B, C = 1, 2, 3
	var out [][]vEqOp
	// 0: basic: record, duplicate, conflict, other signer, other signer conflict
	out = append(out, []vEqOp{
		op(5000, 5000, 0, A, 0), op(5000, 5000, 0, A, 0), op(5000, 5000, 0, B, 1), op(5001, 5000, 0, C, 1),
		op(5001, 5000, 1, A, 0), op(5001, 5000, 1, B, 1), op(5002, 5000, 2, B, 0), op(5002, 5000, 0, A, 0),
	})
	// 1: window boundary: now-slot == 1000 is still checked, 1001 is not (and is not recorded)
	out = append(out, []vEqOp{
		op(5000, 5000, 0, A, 0), op(6000, 5000, 0, B, 1), op(6001, 5000, 0, B, 0), op(6000, 5000, 0, A, 0),
	})
	// 2: header older than the window is NOT recorded: a later conflicting check inside the window finds nothing
	out = append(out, []vEqOp{
		op(7000, 7000, 1, 9, 0), // establishes first saved slot 7000
		op(8001, 7000, 0, A, 0), // too old: ignored
		op(8000, 7000, 0, B, 0), // first record for signer 0 at 7000
		op(8000, 7000, 0, A, 1),
	})
	// 3: pruning at exactly first+2000; non-monotone slot_now afterwards
	out = append(out, []vEqOp{
		op(10, 10, 0, 11, 0), op(500, 500, 0, 13, 0), op(1009, 1009, 0, 15, 0), op(1010, 1010, 0, 17, 0),
		op(2009, 1009, 0, 16, 1), // 1999 after first: no pruning yet, still detected
		op(2009, 2009, 1, 19, 0), // no pruning (2009-10 = 1999)
		op(2010, 2010, 1, 20, 0), // prunes [10,1010), first := 1010
		op(1500, 500, 0, 14, 0),  // forgotten
		op(1500, 1009, 0, 16, 0), // forgotten (1009 < 1010); this records header 16 again
		op(1500, 1010, 0, 18, 1), // retained
		op(1009, 10, 0, 12, 0),   // slot_now < first saved slot
		op(1010, 10, 0, 12, 0),   // forgotten, recorded anew below the start
		op(1010, 10, 0, 11, 1),   // conflicts with the new record
		op(2010, 1010, 0, 18, 1), op(2011, 1010, 0, 18, 0),
	})
	// 4: small slots: saturating subtraction near zero
	out = append(out, []vEqOp{
		op(0, 0, 0, 30, 0), op(0, 0, 0, 31, 1), op(3, 5, 0, 32, 0),
		op(0, 5, 0, 33, 1), op(1000, 0, 0, 34, 1), op(1001, 0, 0, 35, 0),
		op(1999, 999, 2, 36, 0), op(2000, 1000, 2, 37, 0), // prune: first := 1000
		op(1000, 0, 0, 38, 0), op(1000, 5, 0, 39, 0),
	})
	// 5: slot_now before the first saved slot, future slots
	out = append(out, []vEqOp{
		op(9000, 9000, 0, 40, 0), op(8999, 8999, 0, 41, 0), op(9000, 8999, 0, 42, 0),
		op(9000, 8999, 0, 43, 1), op(9000, 9500, 1, 44, 0), op(9000, 9500, 1, 45, 1),
	})
	// 6: a header for a slot BELOW the first recorded slot, still inside the window of the current slot, is
	// recorded and a conflicting second header is reported (a caller that passes the header's own slot as the
	// current slot returns early here: slot < first saved slot)
	out = append(out, []vEqOp{
		op(20000, 20000, 0, 50, 0), op(20000, 19995, 0, 51, 0), op(20000, 19995, 0, 52, 1), op(20001, 19001, 1, 53, 0),
		op(20001, 19001, 1, 54, 1),
	})
	// 7: headers more than 1000 slots behind the current slot are neither recorded nor reported
	out = append(out, []vEqOp{
		op(30000, 30000, 0, 60, 0), op(31500, 30000, 1, 61, 0), op(31500, 30000, 1, 62, 0), op(31001, 30000, 0, 63, 0),
		op(31000, 30000, 0, 63, 1),
	})
	return out
}

func genEqSequence(c *vcommon.Case, d *vEqDriver) []vEqOp {
	r := c.R
	n := r.Range(20, 200)
	var now uint64
	switch r.Intn(4) {
	case 0:
		now = uint64(r.Intn(40))
	case 1:
		now = uint64(r.Range(900, 2100))
	default:
		now = uint64(r.Range(3000, 2_000_000))
	}
	m := newVEqModel() // shadow model used only to aim the generator at the bounds (first saved slot)
	signers := d.signers
	type key struct {
		slot   uint64
		signer int
	}
	used := map[key][]*types.Header{}
	bySlot := map[uint64][]*types.Header{}
	var usedSlots []uint64
	tag := uint64(c.Idx) << 20
	jumps := []uint64{999, 1000, 1001, 1999, 2000, 2001, 2500}
	backs := []uint64{1, 2, 7, 500, 999, 1000, 1001, 1500, 2000}
	ops := make([]vEqOp, 0, n)
	for i := 0; i < n; i++ {
		switch r.Intn(12) {
		case 0, 1, 2, 3, 4:
			now += uint64(r.Intn(3))
		case 5:
			now += vcommon.Pick(r, jumps)
		case 6, 7:
			now = vSatSub(now, vcommon.Pick(r, backs))
		case 8:
			now += uint64(r.Intn(300))
		case 9, 10:
			if m.hasFirst {
				now = m.first + vcommon.Pick(r, []uint64{0, 1, 999, 1000, 1001, 1998, 1999, 2000, 2001})
			}
		case 11:
			if m.hasFirst {
				now = vSatSub(m.first, uint64(r.Intn(3)))
			}
		}
		var slot uint64
		switch r.Intn(12) {
		case 0, 1:
			slot = now
		case 2:
			slot = vSatSub(now, uint64(r.Intn(4)))
		case 3:
			slot = vSatSub(now, 1000)
		case 4:
			slot = vSatSub(now, 1001)
		case 5:
			slot = vSatSub(now, 999)
		case 6, 7, 8:
			if len(usedSlots) > 0 {
				slot = vcommon.Pick(r, usedSlots)
			} else {
				slot = now
			}
		case 9:
			slot = now + uint64(r.Range(1, 40))
		case 10:
			if m.hasFirst {
				slot = vSatSub(m.first, uint64(r.Intn(2)))
			} else {
				slot = now
			}
		case 11:
			slot = vSatSub(now, uint64(r.Range(0, 1200)))
		}
		sg := r.Intn(3)
		k := key{slot, sg}
		var h *types.Header
		switch {
		case len(used[k]) > 0 && r.Chance(2, 5): // duplicate of something this signer already submitted
			h = vcommon.Pick(r, used[k])
		case d.name == "state" && len(bySlot[slot]) > 0 && r.Chance(1, 4): // a header another signer submitted for this slot
			h = vcommon.Pick(r, bySlot[slot])
		default:
			tag++
			h = d.mk(slot, sg, tag)
		}
		if len(bySlot[slot]) == 0 {
			usedSlots = append(usedSlots, slot)
		}
		used[k] = append(used[k], h)
		bySlot[slot] = append(bySlot[slot], h)
		m.check(now, slot, h, signers[sg])
		ops = append(ops, vEqOp{now: now, slot: slot, signer: sg, hdr: h, wantProof: -1})
	}
	return ops
}

// runEqSealed drives the full production path lib/babe verifier.verifyAuthorshipRight with SEALED headers
// (secondary-plain claims signed by the slot's owner): seal verification, then the equivocation step as the
// node runs it. Same model; the header identity is the sealed header's hash. script == nil: random sequence.
// script entries: header key (same key = identical header), negative key = SCALE re-decoded copy of header -key.
func runEqSealed(c *vcommon.Case, script []int) {
	if VerifNewBabeChecker == nil {
		c.Inconclusive("external test package did not register the lib/babe checker")
		return
	}
	ck, err := VerifNewBabeChecker()
	if err != nil {
		c.Inconclusive("cannot build lib/babe checker: " + err.Error())
		return
	}
	defer ck.Close()
	r := c.R
	m := newVEqModel()
	signers := ck.Signers()
	base := uint64(40000 + r.Intn(1_000_000))
	slots := []uint64{base, base - 1, base - uint64(r.Range(2, 900)), base - 1000}
	type sealed struct {
		hdr   *types.Header
		slot  uint64
		owner int
	}
	var made []sealed
	byKey := map[int]sealed{}
	var trace []string
	now := base
	n := len(script)
	if script == nil {
		n = r.Range(8, 24)
	}
	for i := 0; i < n; i++ {
		var h sealed
		kind := "new"
		mkNew := func(slot uint64) bool {
			hd, owner, err := ck.SealedHeader(slot, uint64(c.Idx)<<16+uint64(len(made))+1)
			if err != nil {
				c.Inconclusive("cannot seal header: " + err.Error())
				return false
			}
			h = sealed{hd, slot, owner}
			made = append(made, h)
			return true
		}
		redecode := func(src sealed) bool {
			enc, err := scale.Marshal(*src.hdr)
			cp := types.NewEmptyHeader()
			if err == nil {
				err = scale.Unmarshal(enc, cp)
			}
			if err != nil {
				c.Inconclusive("cannot re-decode header: " + err.Error())
				return false
			}
			h = sealed{cp, src.slot, src.owner}
			return true
		}
		if script != nil {
			k := script[i]
			switch {
			case k < 0:
				kind = "identical(re-decoded)"
				if !redecode(byKey[-k]) {
					return
				}
			case byKey[k].hdr != nil:
				kind = "identical"
				h = byKey[k]
			default:
				if !mkNew(slots[0]) {
					return
				}
				byKey[k] = h
			}
		} else {
			now += uint64(r.Intn(2))
			switch {
			case len(made) > 0 && r.Chance(1, 4):
				kind = "identical"
				h = vcommon.Pick(r, made)
			case len(made) > 0 && r.Chance(1, 3):
				kind = "identical(re-decoded)"
				if !redecode(vcommon.Pick(r, made)) {
					return
				}
			default:
				if !mkNew(vcommon.Pick(r, slots)) {
					return
				}
			}
		}
		usedNow, stable, proof, verr := ck.VerifyAuthorshipRight(now, h.hdr)
		if !stable || usedNow != now {
			c.Count("abandoned_clock_ticked", 1)
			return
		}
		wantFirst, reason := m.check(now, h.slot, h.hdr, signers[h.owner])
		trace = append(trace, fmt.Sprintf("now=%d slot=%d owner=%d %s hdr=%s -> model:%s impl: err=%v proof=%v",
			now, h.slot, h.owner, kind, h.hdr.Hash().Short(), reason, verr, proof != nil))
		c.Eval(1)
		c.Count("sealed_checks", 1)
		c.Count("sealed_model_"+reason, 1)
		if kind != "new" {
			c.Count("sealed_identical_header_rechecked", 1)
		}
		w := map[string]any{"call_site": "lib/babe verifyAuthorshipRight", "trace": trace, "model": reason}
		if wantFirst == nil {
			if proof != nil || verr != nil {
				cls := "spurious_proof"
				if reason == "duplicate" {
					cls = "proof_for_identical_header"
				}
				c.Violation(cls, fmt.Sprintf("verifyAuthorshipRight(%s header, model: %s) returned err=%v, proof reported=%v",
					kind, reason, verr, proof != nil), w)
				return
			}
			continue
		}
		c.Count("sealed_proofs_expected", 1)
		if proof == nil || verr == nil {
			c.Violation("missed_equivocation", fmt.Sprintf("verifyAuthorshipRight: model %s, err=%v proof reported=%v", reason, verr, proof != nil), w)
			return
		}
		c.Eval(3)
		if proof.Slot != h.slot || proof.Offender != signers[h.owner] {
			c.Violation("proof_fields", fmt.Sprintf("proof slot=%d offender=%x", proof.Slot, proof.Offender[:4]), w)
			return
		}
		if proof.FirstHeader.Hash() != wantFirst.Hash() || !vHeaderEq(&proof.FirstHeader, wantFirst) {
			c.Violation("proof_first_header", fmt.Sprintf("first header of the proof is %s (%d digest items), the header verified first was %s (%d digest items)",
				proof.FirstHeader.Hash().Short(), len(proof.FirstHeader.Digest), wantFirst.Hash().Short(), len(wantFirst.Digest)), w)
			return
		}
		if !vHeaderEq(&proof.SecondHeader, h.hdr) {
			c.Violation("proof_second_header", fmt.Sprintf("second header of the proof has %d digest items, the verified header %d",
				len(proof.SecondHeader.Digest), len(h.hdr.Digest)), w)
			return
		}
		c.Count("sealed_proofs", 1)
	}
	c.Distinct(fmt.Sprintf("sealed:%d:%d", len(made), n))
	if len(trace) > 3 {
		c.Sample(map[string]any{"call_site": "lib/babe verifyAuthorshipRight", "last_steps": trace[len(trace)-3:]})
	}
}

func TestVerifC27(t *testing.T) {
	r := vcommon.Start(t, "C27")
	defer r.Finish()
	r.Floor("proofs", 200)
	r.Floor("model_duplicate", 100)
	r.Floor("model_too_old", 50)
	r.Floor("model_now_before_first", 20)
	r.Floor("boundary_now_minus_1000", 30)
	r.Floor("boundary_now_minus_1001", 30)
	r.Floor("model_prunes", 30)
	r.Floor("non_monotone_now_steps", 100)
	r.Floor("sweep_forgotten_entry_probed", 20)
	r.Floor("sweep_retained_entry_probed", 100)

	r.Floor("babe_checks", 3000)
	r.Floor("babe_model_equivocation", 100)
	r.Floor("babe_model_too_old", 100)
	r.Floor("babe_model_now_before_first", 50)
	r.Floor("babe_model_duplicate", 30)
	r.Floor("sealed_identical_header_rechecked", 100)
	r.Floor("sealed_proofs", 50)

	nCorpus := 8
	r.Fixed("corpus", nCorpus, func(c *vcommon.Case) {
		d, err := newStateEqDriver()
		if err != nil {
			runEqSequence(c, nil, err, nil, false)
			return
		}
		runEqSequence(c, d, nil, eqFixedCorpus(d)[c.Idx], true)
	})
	r.Cases("seq", r.Scale(400), func(c *vcommon.Case) {
		d, err := newStateEqDriver()
		if err != nil {
			runEqSequence(c, nil, err, nil, false)
			return
		}
		runEqSequence(c, d, nil, genEqSequence(c, d), true)
	})
	// the production caller: lib/babe verifier.verifyBlockEquivocation (current slot from the wall clock)
	r.Fixed("babe_corpus", nCorpus, func(c *vcommon.Case) {
		d, err := newBabeEqDriver()
		if err != nil {
			runEqSequence(c, nil, err, nil, false)
			return
		}
		runEqSequence(c, d, nil, eqFixedCorpus(d)[c.Idx], true)
	})
	r.Cases("babe_seq", r.Scale(120), func(c *vcommon.Case) {
		d, err := newBabeEqDriver()
		if err != nil {
			runEqSequence(c, nil, err, nil, false)
			return
		}
		runEqSequence(c, d, nil, genEqSequence(c, d), true)
	})
	// full verifyAuthorshipRight with sealed headers
	sealedCorpus := [][]int{
		{1, 1},           // the same header verified twice
		{1, -1},          // ... the second time freshly decoded
		{1, 2, 1, -1, 3}, // conflict, then the first header again, then another conflict
	}
	r.Fixed("babe_sealed_corpus", len(sealedCorpus), func(c *vcommon.Case) { runEqSealed(c, sealedCorpus[c.Idx]) })
	r.Cases("babe_sealed", r.Scale(60), func(c *vcommon.Case) { runEqSealed(c, nil) })
	// restarts mid-sequence: a fresh NewSlotState over the same database between checks (zz_verif_c27_restart_test.go)
	registerC27Restart(r, nCorpus)
}
