//go:build verif

package state

import (
	"bytes"
	"fmt"
	"testing"

	"github.com/ChainSafe/gossamer/dot/types"
	"github.com/ChainSafe/gossamer/lib/common"
	"github.com/ChainSafe/gossamer/pkg/scale"
	"github.com/ChainSafe/gossamer/zz_verif/vcommon"
)

// ---------------------------------------------------------------------------
// C27 reference model: Substrate's sc-consensus-slots `check_equivocation`
// (client/consensus/slots/src/aux_schema.rs), which dot/state/slot.go mirrors:
//
//	MAX_SLOT_CAPACITY = 1000, PRUNING_BOUND = 2 * MAX_SLOT_CAPACITY
//	1. if slot_now.saturating_sub(slot) > MAX_SLOT_CAPACITY  => None (too old, nothing recorded)
//	2. first_saved_slot = stored start, or `slot` when nothing was ever stored
//	3. if slot_now < first_saved_slot                         => None (nothing recorded)
//	4. for (prev_header, prev_signer) recorded at `slot`: if prev_signer == signer:
//	     different hash => Some(proof{slot, offender, first: prev_header, second: header}); same hash => None
//	   (in both cases nothing is recorded)
//	5. if slot_now - first_saved_slot >= PRUNING_BOUND: new_first = slot_now.saturating_sub(MAX_SLOT_CAPACITY),
//	     slots [first_saved_slot, new_first) are forgotten
//	6. (header, signer) is appended to `slot`; start := new_first                          => None
//
// The model is an abstract map; it shares no code with slot.go.
// ---------------------------------------------------------------------------

const (
	vEqCapacity = 1000
	vEqPruning  = 2000
)

type vEqEntry struct {
	hdr    *types.Header
	signer types.AuthorityID
}

type vEqModel struct {
	slots    map[uint64][]vEqEntry
	first    uint64
	hasFirst bool
	prunes   int
}

func newVEqModel() *vEqModel { return &vEqModel{slots: map[uint64][]vEqEntry{}} }

func vSatSub(a, b uint64) uint64 {
	if a < b {
		return 0
	}
	return a - b
}

// check returns the first header of the expected proof (nil = no proof) and a reason label.
func (m *vEqModel) check(slotNow, slot uint64, hdr *types.Header, signer types.AuthorityID) (*types.Header, string) {
	if vSatSub(slotNow, slot) > vEqCapacity {
		return nil, "too_old"
	}
	first := slot
	if m.hasFirst {
		first = m.first
	}
	if slotNow < first {
		return nil, "now_before_first"
	}
	for _, e := range m.slots[slot] {
		if e.signer == signer {
			if e.hdr.Hash() != hdr.Hash() {
				return e.hdr, "equivocation"
			}
			return nil, "duplicate"
		}
	}
	newFirst := first
	if slotNow-first >= vEqPruning {
		newFirst = vSatSub(slotNow, vEqCapacity)
		for s := range m.slots {
			if s >= first && s < newFirst {
				delete(m.slots, s)
			}
		}
		m.prunes++
	}
	m.slots[slot] = append(m.slots[slot], vEqEntry{hdr: hdr, signer: signer})
	m.first, m.hasFirst = newFirst, true
	return nil, "recorded"
}

type vEqOp struct {
	now, slot uint64
	signer    int
	hdr       *types.Header
	// wantProof is used by the fixed corpus only (self-check of the model): -1 unknown, 0 none, 1 proof
	wantProof int
}

func vEqHeader(slot uint64, tag uint64) *types.Header {
	h, _, err := vHeader(vHashOf("eq-parent", slot), uint(slot%100000)+1, slot, vHashOf("eq-sr", tag), vHashOf("eq-er", tag),
		tag%2 == 0, nil, nil)
	if err != nil {
		panic(err)
	}
	return h
}

func vEqSigners() [3]types.AuthorityID {
	var s [3]types.AuthorityID
	for i := range s {
		h := vHashOf("signer", uint64(i))
		copy(s[i][:], h[:])
	}
	return s
}

func vHeaderEq(a, b *types.Header) bool {
	ea, err1 := scale.Marshal(*a)
	eb, err2 := scale.Marshal(*b)
	return err1 == nil && err2 == nil && bytes.Equal(ea, eb)
}

type vEqHist struct {
	slot   uint64
	signer int
}

// runEqSequence replays ops on a fresh SlotState and the model and compares every answer.
func runEqSequence(c *vcommon.Case, ops []vEqOp, sweep bool) {
	db, err := vNewDB()
	if err != nil {
		c.Inconclusive("cannot open in-memory db: " + err.Error())
		return
	}
	defer db.Close()
	ss := NewSlotState(db)
	m := newVEqModel()
	signers := vEqSigners()
	everFirst := map[vEqHist]common.Hash{} // first header ever submitted per (slot, signer), pruned or not
	var trace []string
	touched := map[uint64]bool{}
	nextTag := uint64(1 << 40)
	var reasons []byte // sequence of model outcomes = structural fingerprint of the history

	step := func(op vEqOp, phase string) bool {
		signer := signers[op.signer]
		wantFirst, reason := m.check(op.now, op.slot, op.hdr, signer)
		proof, err := ss.CheckEquivocation(op.now, op.slot, op.hdr, signer)
		trace = append(trace, fmt.Sprintf("%s now=%d slot=%d signer=%d hdr=%s -> model:%s impl:proof=%v err=%v",
			phase, op.now, op.slot, op.signer, op.hdr.Hash().Short(), reason, proof != nil, err))
		if len(trace) > 260 {
			trace = trace[len(trace)-260:]
		}
		c.Eval(1)
		c.Count("checks", 1)
		c.Count("model_"+reason, 1)
		reasons = append(reasons, reason[0])
		touched[op.slot] = true
		w := func() map[string]any {
			return map[string]any{"trace_tail": trace, "slot_now": op.now, "slot": op.slot, "signer": op.signer,
				"header": op.hdr.Hash().String(), "model": reason, "model_first_saved": m.first}
		}
		if op.wantProof >= 0 && (op.wantProof == 1) != (wantFirst != nil) {
			c.Inconclusive(fmt.Sprintf("model self-check failed: hand-written expectation proof=%d, model says %s", op.wantProof, reason))
			return false
		}
		if err != nil {
			c.Violation("error", fmt.Sprintf("CheckEquivocation returned error %v", err), w())
			return false
		}
		diff := vSatSub(op.now, op.slot)
		switch {
		case diff == vEqCapacity:
			c.Count("boundary_now_minus_1000", 1)
		case diff == vEqCapacity+1:
			c.Count("boundary_now_minus_1001", 1)
		}
		if op.slot > op.now {
			c.Count("future_slot", 1)
		}
		k := vEqHist{op.slot, op.signer}
		if prev, ok := everFirst[k]; ok && prev != op.hdr.Hash() && wantFirst == nil {
			// a conflicting header existed in the full history but is outside the retained window
			c.Count("conflict_outside_retained_window_"+reason, 1)
		}
		if _, ok := everFirst[k]; !ok {
			everFirst[k] = op.hdr.Hash()
		}
		if proof != nil && proof.FirstHeader.Hash() == proof.SecondHeader.Hash() {
			c.Violation("proof_for_identical_header", "proof whose two headers are identical", w())
			return false
		}
		if (proof != nil) != (wantFirst != nil) {
			cls := "missed_equivocation"
			if proof != nil {
				cls = "spurious_proof"
			}
			c.Violation(cls, fmt.Sprintf("model: %s, implementation returned proof=%v", reason, proof != nil), w())
			return false
		}
		if proof != nil {
			c.Count("proofs", 1)
			c.Eval(4)
			if proof.Slot != op.slot || proof.Offender != signer {
				c.Violation("proof_fields", fmt.Sprintf("proof slot=%d offender=%x, want slot=%d offender=%x",
					proof.Slot, proof.Offender[:4], op.slot, signer[:4]), w())
				return false
			}
			if proof.FirstHeader.Hash() != wantFirst.Hash() || !vHeaderEq(&proof.FirstHeader, wantFirst) {
				c.Violation("proof_first_header", fmt.Sprintf("first header %s, want the recorded %s",
					proof.FirstHeader.Hash().Short(), wantFirst.Hash().Short()), w())
				return false
			}
			if proof.SecondHeader.Hash() != op.hdr.Hash() || !vHeaderEq(&proof.SecondHeader, op.hdr) {
				c.Violation("proof_second_header", fmt.Sprintf("second header %s, want the checked %s",
					proof.SecondHeader.Hash().Short(), op.hdr.Hash().Short()), w())
				return false
			}
		}
		return true
	}

	maxNow := uint64(0)
	nonMono := 0
	prevNow := uint64(0)
	for i, op := range ops {
		if i > 0 && op.now < prevNow {
			nonMono++
		}
		prevNow = op.now
		if op.now > maxNow {
			maxNow = op.now
		}
		if !step(op, "op") {
			return
		}
	}
	c.Count("non_monotone_now_steps", nonMono)
	c.Count("model_prunes", m.prunes)

	if sweep && m.hasFirst {
		// Probe sweep: make what was retained / forgotten observable through proofs. For every slot
		// ever touched and every signer, submit a brand-new header at a slot_now that is inside the
		// window and not before the first saved slot.
		slots := make([]uint64, 0, len(touched))
		for s := range touched {
			slots = append(slots, s)
		}
		sortU64(slots)
		for _, s := range slots {
			now := s
			if m.first > now {
				now = m.first
			}
			if now-s > vEqCapacity {
				continue
			}
			for sg := 0; sg < 3; sg++ {
				nextTag++
				_, pruned := everFirst[vEqHist{s, sg}]
				has := false
				for _, e := range m.slots[s] {
					if e.signer == signers[sg] {
						has = true
					}
				}
				if pruned && !has {
					c.Count("sweep_forgotten_entry_probed", 1)
				}
				if has {
					c.Count("sweep_retained_entry_probed", 1)
				}
				if !step(vEqOp{now: now, slot: s, signer: sg, hdr: vEqHeader(s, nextTag), wantProof: -1}, "sweep") {
					return
				}
			}
		}
	}
	if m.prunes > 0 || nonMono > 0 {
		c.Distinct(string(reasons))
	}
	if len(trace) > 6 {
		c.Sample(map[string]any{"ops": len(ops), "prunes": m.prunes, "last_steps": trace[len(trace)-6:]})
	}
}

func sortU64(a []uint64) {
	for i := 1; i < len(a); i++ {
		for j := i; j > 0 && a[j] < a[j-1]; j-- {
			a[j], a[j-1] = a[j-1], a[j]
		}
	}
}

func eqFixedCorpus() [][]vEqOp {
	A, B, C := vEqHeader(5000, 1), vEqHeader(5000, 2), vEqHeader(5000, 3)
	op := func(now, slot uint64, signer int, h *types.Header, want int) vEqOp {
		return vEqOp{now: now, slot: slot, signer: signer, hdr: h, wantProof: want}
	}
	var out [][]vEqOp
	// 0: basic: record, duplicate, conflict, other signer same header, other signer conflict-free
	out = append(out, []vEqOp{
		op(5000, 5000, 0, A, 0), op(5000, 5000, 0, A, 0), op(5000, 5000, 0, B, 1), op(5001, 5000, 0, C, 1),
		op(5001, 5000, 1, A, 0), op(5001, 5000, 1, B, 1), op(5002, 5000, 2, B, 0), op(5002, 5000, 0, A, 0),
	})
	// 1: window boundary: now-slot == 1000 is still checked, 1001 is not (and is not recorded)
	out = append(out, []vEqOp{
		op(5000, 5000, 0, A, 0), op(6000, 5000, 0, B, 1), op(6001, 5000, 0, B, 0), op(6000, 5000, 0, A, 0),
	})
	// 2: header older than the window is NOT recorded: a later conflicting check inside the window finds nothing
	out = append(out, []vEqOp{
		op(7000, 7000, 1, vEqHeader(7000, 9), 0), // establishes first saved slot 7000
		op(8001, 7000, 0, A, 0),                  // too old: ignored
		op(8000, 7000, 0, B, 0),                  // first record for signer 0 at 7000
		op(8000, 7000, 0, A, 1),
	})
	// 3: pruning at exactly first+2000; non-monotone slot_now afterwards
	h10a, h10b := vEqHeader(10, 11), vEqHeader(10, 12)
	h500a, h500b := vEqHeader(500, 13), vEqHeader(500, 14)
	h1009a, h1009b := vEqHeader(1009, 15), vEqHeader(1009, 16)
	h1010a, h1010b := vEqHeader(1010, 17), vEqHeader(1010, 18)
	out = append(out, []vEqOp{
		op(10, 10, 0, h10a, 0), op(500, 500, 0, h500a, 0), op(1009, 1009, 0, h1009a, 0), op(1010, 1010, 0, h1010a, 0),
		op(2009, 1009, 0, h1009b, 1),              // 1999 after first: no pruning yet, still detected
		op(2009, 2009, 1, vEqHeader(2009, 19), 0), // no pruning (2009-10 = 1999)
		op(2010, 2010, 1, vEqHeader(2010, 20), 0), // prunes [10,1010), first := 1010
		op(1500, 500, 0, h500b, 0),                // forgotten
		op(1500, 1009, 0, h1009b, 0),              // forgotten (1009 < 1010); this records h1009b again
		op(1500, 1010, 0, h1010b, 1),              // retained
		op(1009, 10, 0, h10b, 0),                  // slot_now < first saved slot
		op(1010, 10, 0, h10b, 0),                  // forgotten, recorded anew below the start
		op(1010, 10, 0, h10a, 1),                  // conflicts with the new record
		op(2010, 1010, 0, h1010b, 1), op(2011, 1010, 0, h1010b, 0),
	})
	// 4: small slots: saturating subtraction near zero
	out = append(out, []vEqOp{
		op(0, 0, 0, vEqHeader(0, 30), 0), op(0, 0, 0, vEqHeader(0, 31), 1), op(3, 5, 0, vEqHeader(5, 32), 0),
		op(0, 5, 0, vEqHeader(5, 33), 1), op(1000, 0, 0, vEqHeader(0, 34), 1), op(1001, 0, 0, vEqHeader(0, 35), 0),
		op(1999, 999, 2, vEqHeader(999, 36), 0), op(2000, 1000, 2, vEqHeader(1000, 37), 0), // prune: first := 1000
		op(1000, 0, 0, vEqHeader(0, 38), 0), op(1000, 5, 0, vEqHeader(5, 39), 0),
	})
	// 5: slot_now before the first saved slot, future slots
	out = append(out, []vEqOp{
		op(9000, 9000, 0, vEqHeader(9000, 40), 0), op(8999, 8999, 0, vEqHeader(8999, 41), 0), op(9000, 8999, 0, vEqHeader(8999, 42), 0),
		op(9000, 8999, 0, vEqHeader(8999, 43), 1), op(9000, 9500, 1, vEqHeader(9500, 44), 0), op(9000, 9500, 1, vEqHeader(9500, 45), 1),
	})
	return out
}

func genEqSequence(c *vcommon.Case) []vEqOp {
	r := c.R
	n := r.Range(20, 200)
	var now uint64
	switch r.Intn(4) {
	case 0:
		now = uint64(r.Intn(40))
	case 1:
		now = uint64(r.Range(900, 2100))
	default:
		now = uint64(r.Range(3000, 2_000_000))
	}
	m := newVEqModel() // shadow model used only to aim the generator at the bounds (first saved slot)
	signers := vEqSigners()
	type key struct {
		slot   uint64
		signer int
	}
	used := map[key][]*types.Header{}
	bySlot := map[uint64][]*types.Header{}
	var usedSlots []uint64
	tag := uint64(c.Idx) << 20
	jumps := []uint64{999, 1000, 1001, 1999, 2000, 2001, 2500}
	backs := []uint64{1, 2, 7, 500, 999, 1000, 1001, 1500, 2000}
	ops := make([]vEqOp, 0, n)
	for i := 0; i < n; i++ {
		switch r.Intn(12) {
		case 0, 1, 2, 3, 4:
			now += uint64(r.Intn(3))
		case 5:
			now += vcommon.Pick(r, jumps)
		case 6, 7:
			now = vSatSub(now, vcommon.Pick(r, backs))
		case 8:
			now += uint64(r.Intn(300))
		case 9, 10:
			if m.hasFirst {
				now = m.first + vcommon.Pick(r, []uint64{0, 1, 999, 1000, 1001, 1998, 1999, 2000, 2001})
			}
		case 11:
			if m.hasFirst {
				now = vSatSub(m.first, uint64(r.Intn(3)))
			}
		}
		var slot uint64
		switch r.Intn(12) {
		case 0, 1:
			slot = now
		case 2:
			slot = vSatSub(now, uint64(r.Intn(4)))
		case 3:
			slot = vSatSub(now, 1000)
		case 4:
			slot = vSatSub(now, 1001)
		case 5:
			slot = vSatSub(now, 999)
		case 6, 7, 8:
			if len(usedSlots) > 0 {
				slot = vcommon.Pick(r, usedSlots)
			} else {
				slot = now
			}
		case 9:
			slot = now + uint64(r.Range(1, 40))
		case 10:
			if m.hasFirst {
				slot = vSatSub(m.first, uint64(r.Intn(2)))
			} else {
				slot = now
			}
		case 11:
			slot = vSatSub(now, uint64(r.Range(0, 1200)))
		}
		sg := r.Intn(3)
		k := key{slot, sg}
		var h *types.Header
		switch {
		case len(used[k]) > 0 && r.Chance(2, 5): // duplicate of something this signer already submitted
			h = vcommon.Pick(r, used[k])
		case len(bySlot[slot]) > 0 && r.Chance(1, 4): // a header another signer submitted for this slot
			h = vcommon.Pick(r, bySlot[slot])
		default:
			tag++
			h = vEqHeader(slot, tag)
		}
		if len(bySlot[slot]) == 0 {
			usedSlots = append(usedSlots, slot)
		}
		used[k] = append(used[k], h)
		bySlot[slot] = append(bySlot[slot], h)
		m.check(now, slot, h, signers[sg])
		ops = append(ops, vEqOp{now: now, slot: slot, signer: sg, hdr: h, wantProof: -1})
	}
	return ops
}

func TestVerifC27(t *testing.T) {
	r := vcommon.Start(t, "C27")
	defer r.Finish()
	r.Floor("proofs", 200)
	r.Floor("model_duplicate", 100)
	r.Floor("model_too_old", 50)
	r.Floor("model_now_before_first", 20)
	r.Floor("boundary_now_minus_1000", 30)
	r.Floor("boundary_now_minus_1001", 30)
	r.Floor("model_prunes", 30)
	r.Floor("non_monotone_now_steps", 100)
	r.Floor("sweep_forgotten_entry_probed", 20)
	r.Floor("sweep_retained_entry_probed", 100)

	corpus := eqFixedCorpus()
	r.Fixed("corpus", len(corpus), func(c *vcommon.Case) { runEqSequence(c, corpus[c.Idx], true) })
	r.Cases("seq", r.Scale(400), func(c *vcommon.Case) { runEqSequence(c, genEqSequence(c), true) })
}
