//go:build verif

package state

import (
	"fmt"
	"reflect"
	"testing"
	"time"

	"github.com/ChainSafe/gossamer/dot/types"
	"github.com/ChainSafe/gossamer/lib/common"
	"github.com/ChainSafe/gossamer/zz_verif/vcommon"
)

// ---------------------------------------------------------------------------
// C26: BABE epoch data / config data is taken from the block's own fork.
//
// Model (written from the property text, explicit parent links):
//   epochOf(b)   = 0 for #0 and #1, else (slot(b) - slot(the #1 block on b's own chain)) / epochLength
//   a block announcing NextEpochData / NextConfigData announces it for epoch epochOf(b)+1
//   epochData(e, H)  = the data announced for e by H or an ancestor of H; none => the lookup must fail
//   config(e, H)     = the config announced for the largest e' <= e by H or an ancestor of H; none => genesis config
// When several blocks of one chain announce for the same epoch (not produced by BABE, generated
// rarely on purpose) any of them is accepted and the case is counted as ambiguous.
// Termination is decided logically: findAncestor's loop is instrumented at build time (see
// zz_verif_hooks.go); a lookup may use at most vC26StepBudget iterations (trees are <= 14 deep).
// ---------------------------------------------------------------------------

const vC26StepBudget = 400

type c26BlockSpec struct {
	Parent  int    `json:"parent"` // index into the spec list; -1 = genesis
	Slot    uint64 `json:"slot"`
	ED      bool   `json:"epoch_data"`
	CD      bool   `json:"config_data"`
	Primary bool   `json:"primary"`
}

type c26Spec struct {
	L          uint64         `json:"epoch_length"`
	Blocks     []c26BlockSpec `json:"blocks"`
	Unimported []int          `json:"unimported_children_of"` // spec indexes (or -1) that get a never-imported child header
	Finalise   []int          `json:"finalise,omitempty"`     // group tree_finalised: spec indexes finalised in this order
	// groups *_seq: only the first ImportFirst blocks are imported before the first lookup sweep (0 = all); the rest is
	// imported afterwards (announcement imports = writers of the epoch-state locks after lookups have failed)
	ImportFirst int `json:"import_first,omitempty"`
}

type c26World struct {
	bs   *BlockState
	es   *EpochState
	tree *vTree // index 0 = genesis, spec block i = tree index i+1
	L    uint64
	gen  *types.BabeConfiguration
	// headers that were never imported: header + model parent index
	loose []*vBlock
}

func (w *c26World) epochOf(i int) uint64 {
	b := w.tree.blocks[i]
	if b.number <= 1 {
		return 0
	}
	ch := w.tree.chain(i)
	first := w.tree.blocks[ch[1]]
	return (b.slot - first.slot) / w.L
}

func c26EpochData(tag int) *types.NextEpochData {
	var rnd [32]byte
	rnd[0] = byte(tag)
	rnd[1] = byte(tag >> 8)
	rnd[31] = 0xED
	k := vHashOf("c26-auth", uint64(tag))
	return &types.NextEpochData{
		Authorities: []types.AuthorityRaw{{Key: k, Weight: uint64(tag) + 1}},
		Randomness:  rnd,
	}
}

func c26ConfigData(tag int) *types.NextConfigDataV1 {
	return &types.NextConfigDataV1{C1: uint64(tag) + 1, C2: uint64(tag) + 1000, SecondarySlots: byte(tag % 3)}
}

// newC26World creates the database, BlockState and EpochState of a case; the model tree holds only genesis.
func newC26World(spec *c26Spec) (w *c26World, closeFn func(), err error) {
	db, err := vNewDB()
	if err != nil {
		return nil, nil, err
	}
	closeFn = func() { _ = db.Close() }
	genesis := types.NewHeader(common.Hash{}, vHashOf("c26-genesis-root", 0), common.Hash{}, 0, types.NewDigest())
	bs, err := vNewBlockState(db, NewTries(), genesis)
	if err != nil {
		closeFn()
		return nil, nil, err
	}
	cfg := &types.BabeConfiguration{
		SlotDuration: 1000, EpochLength: spec.L, C1: 777, C2: 778, SecondarySlots: 1,
		GenesisAuthorities: []types.AuthorityRaw{{Key: vHashOf("c26-genesis-auth", 0), Weight: 1}},
		Randomness:         [32]byte{0x6e},
	}
	es, err := NewEpochStateFromGenesis(db, bs, cfg)
	if err != nil {
		closeFn()
		return nil, nil, err
	}
	w = &c26World{bs: bs, es: es, tree: newVTree(), L: spec.L, gen: cfg}
	w.tree.add(&vBlock{parent: -1, number: 0, header: genesis, hash: genesis.Hash(), added: true})
	return w, closeFn, nil
}

// importBlock imports spec block i (all earlier spec blocks must have been imported): AddBlock, then what block
// import does with the BABE consensus digests (dot/digest BlockImportHandler.handleConsensusDigest). ok=false: an
// operation never returned (verdict recorded by the guard).
func (w *c26World) importBlock(g *c26Guard, spec *c26Spec, i int) (ok bool, err error) {
	sb := spec.Blocks[i]
	p := w.tree.blocks[sb.Parent+1]
	var ed *types.NextEpochData
	var cd *types.NextConfigDataV1
	if sb.ED {
		ed = c26EpochData(i + 1)
	}
	if sb.CD {
		cd = c26ConfigData(i + 1)
	}
	h, cds, err := vHeader(p.hash, p.number+1, sb.Slot, vHashOf("c26-root", uint64(i)), vHashOf("c26-ext", uint64(i)), sb.Primary, ed, cd)
	if err != nil {
		return true, err
	}
	blk := &types.Block{Header: *h, Body: types.Body{}}
	if !g.do(fmt.Sprintf("AddBlock(b%d)", i+1), func() string {
		err = w.bs.AddBlockWithArrivalTime(blk, vBaseTime.Add(time.Duration(i+1)*time.Second))
		return c26Outcome(err)
	}) {
		return false, nil
	}
	if err != nil {
		return true, fmt.Errorf("AddBlock spec block %d: %w", i, err)
	}
	w.tree.add(&vBlock{parent: sb.Parent + 1, number: p.number + 1, slot: sb.Slot, header: h, hash: h.Hash(), added: true,
		epochData: ed, configData: cd})
	for k, d := range cds {
		kind := "NextEpochData"
		if _, isED := mustDigestValue(d).(types.NextEpochData); !isED {
			kind = "NextConfigData"
		}
		d := d
		if !g.do(fmt.Sprintf("HandleBABEDigest(b%d, %s)", i+1, kind), func() string {
			err = w.es.HandleBABEDigest(h, d)
			return c26Outcome(err)
		}) {
			return false, nil
		}
		if err != nil {
			return true, fmt.Errorf("HandleBABEDigest spec block %d digest %d: %w", i, k, err)
		}
		if g.failedLookups > 0 {
			g.writers++
			g.c.Count("announcement_imports_after_failed_lookup", 1)
		}
	}
	return true, nil
}

func mustDigestValue(d types.BabeConsensusDigest) any {
	v, err := d.Value()
	if err != nil {
		return nil
	}
	return v
}

// addLoose builds the never-imported child headers whose parent has been imported.
func (w *c26World) addLoose(spec *c26Spec) error {
	w.loose = nil
	for j, pi := range spec.Unimported {
		if pi+1 >= len(w.tree.blocks) {
			continue
		}
		p := w.tree.blocks[pi+1]
		h, _, err := vHeader(p.hash, p.number+1, p.slot+1+uint64(j), vHashOf("c26-loose-root", uint64(j)), vHashOf("c26-loose", uint64(j)), true, nil, nil)
		if err != nil {
			return err
		}
		w.loose = append(w.loose, &vBlock{idx: -1, parent: pi + 1, number: p.number + 1, slot: p.slot + 1 + uint64(j), header: h, hash: h.Hash()})
	}
	return nil
}

// buildC26World imports the first n spec blocks (n < 0: all). ok=false: an operation never returned.
func buildC26World(g *c26Guard, spec *c26Spec, n int) (w *c26World, closeFn func(), ok bool, err error) {
	w, closeFn, err = newC26World(spec)
	if err != nil {
		return nil, nil, true, err
	}
	if n < 0 || n > len(spec.Blocks) {
		n = len(spec.Blocks)
	}
	for i := 0; i < n; i++ {
		ok, err = w.importBlock(g, spec, i)
		if !ok || err != nil {
			closeFn()
			return nil, nil, ok, err
		}
	}
	if err = w.addLoose(spec); err != nil {
		closeFn()
		return nil, nil, true, err
	}
	return w, closeFn, true, nil
}

// announcers returns the model blocks on the ancestry (inclusive) of tree index `from`
// that announce for `epoch` (kind: true = epoch data, false = config data).
func (w *c26World) announcers(from int, epoch uint64, epochData bool) []int {
	var out []int
	for _, x := range w.tree.chain(from) {
		b := w.tree.blocks[x]
		if (epochData && b.epochData == nil) || (!epochData && b.configData == nil) {
			continue
		}
		if w.epochOf(x)+1 == epoch {
			out = append(out, x)
		}
	}
	return out
}

// anyAnnouncer reports whether any block of the tree (any fork) announces for epoch.
func (w *c26World) anyAnnouncer(epoch uint64, epochData bool) bool {
	for x, b := range w.tree.blocks {
		if (epochData && b.epochData == nil) || (!epochData && b.configData == nil) {
			continue
		}
		if w.epochOf(x)+1 == epoch {
			return true
		}
	}
	return false
}

func (w *c26World) whoAnnouncedED(d *types.EpochDataRaw) string {
	for x, b := range w.tree.blocks {
		if b.epochData != nil && reflect.DeepEqual(b.epochData.ToEpochDataRaw(), d) {
			return fmt.Sprintf("b%d", x)
		}
	}
	if reflect.DeepEqual(d, &types.EpochDataRaw{Authorities: w.gen.GenesisAuthorities, Randomness: w.gen.Randomness}) {
		return "genesis"
	}
	return "nobody"
}

func (w *c26World) whoAnnouncedCD(d *types.ConfigData) string {
	for x, b := range w.tree.blocks {
		if b.configData != nil && reflect.DeepEqual(b.configData.ToConfigData(), d) {
			return fmt.Sprintf("b%d", x)
		}
	}
	if d != nil && d.C1 == w.gen.C1 && d.C2 == w.gen.C2 && d.SecondarySlots == w.gen.SecondarySlots {
		return "genesis"
	}
	return "nobody"
}

// mode: 0 = only lookups in which every ancestry search the model predicts has a match ("ordinary"),
//
//	1 = only lookups in which some ancestry search finds nothing on the block's own ancestry ("miss"),
//	2 = both (groups *_seq).
func runC26(c *vcommon.Case, spec *c26Spec, mode int) {
	g := newC26Guard(c, spec)
	w, closeFn, ok, err := buildC26World(g, spec, -1)
	if err != nil {
		c.Inconclusive("cannot build world: " + err.Error())
		return
	}
	if !ok {
		return
	}
	defer closeFn()
	defer verifFindAncestorBudget.Store(0)

	wit := func(extra map[string]any) map[string]any {
		m := map[string]any{"spec": spec, "tree": w.tree.describe(), "mode": mode}
		for k, v := range extra {
			m[k] = v
		}
		return m
	}
	g.base = func() map[string]any { return wit(nil) }
	lookups, ok := w.sweep(c, g, mode, wit)
	if !ok {
		return
	}
	c.Count("lookups", lookups)
	if forks := w.forks(); forks > 0 && lookups > 0 {
		c.Count("trees_with_forks", 1)
		c.Distinct(w.tree.shape() + "|" + w.annPattern())
	}
	c.Sample(map[string]any{"tree": w.tree.describe(), "epoch_length": w.L, "lookups": lookups, "mode": mode})
}

func (w *c26World) forks() int {
	forks := 0
	for _, b := range w.tree.blocks {
		if len(b.children) > 1 {
			forks++
		}
	}
	return forks
}

func (w *c26World) annPattern() string {
	ann := ""
	for _, b := range w.tree.blocks {
		switch {
		case b.epochData != nil && b.configData != nil:
			ann += "B"
		case b.epochData != nil:
			ann += "E"
		case b.configData != nil:
			ann += "C"
		default:
			ann += "-"
		}
	}
	return ann
}

// sweep queries every imported block, every loose header and genesis for every epoch (no finalisation has happened
// yet). ok=false: the case must stop (violation recorded, or an operation never returned).
func (w *c26World) sweep(c *vcommon.Case, g *c26Guard, mode int, wit func(map[string]any) map[string]any) (n int, cont bool) {
	var maxE uint64
	for x := range w.tree.blocks {
		if e := w.epochOf(x); e > maxE {
			maxE = e
		}
	}
	if maxE > 5 {
		maxE = 5
	}

	// supporting oracle: the epoch a block belongs to is computed from its own chain's first block
	if mode != 1 {
		for x, b := range w.tree.blocks {
			var got uint64
			var err error
			if !g.do(fmt.Sprintf("GetEpochForBlock(b%d)", x), func() string {
				got, err = w.es.GetEpochForBlock(b.header)
				return c26Outcome(err)
			}) {
				return
			}
			c.Eval(1)
			if err != nil || got != w.epochOf(x) {
				c.Violation("epoch_for_block", fmt.Sprintf("GetEpochForBlock(b%d)=%d err=%v, own chain gives %d", x, got, err, w.epochOf(x)),
					wit(map[string]any{"block": x}))
				return
			}
		}
	}

	type target struct {
		name   string
		from   int // tree index whose ancestry (inclusive) is the header's ancestry (for loose headers: the parent)
		header *types.Header
		loose  bool
	}
	var targets []target
	for x, b := range w.tree.blocks {
		if x > 0 {
			targets = append(targets, target{name: fmt.Sprintf("b%d", x), from: x, header: b.header})
		}
	}
	for j, lb := range w.loose {
		targets = append(targets, target{name: fmt.Sprintf("loose%d(child of b%d)", j, lb.parent), from: lb.parent, header: lb.header, loose: true})
	}
	// the genesis header last: real blocks make the better witnesses
	targets = append(targets, target{name: "b0", from: 0, header: w.tree.blocks[0].header})

	lookups := 0
	for _, tg := range targets {
		for e := uint64(1); e <= maxE+2; e++ {
			// ---------------- epoch data ----------------
			S := w.announcers(tg.from, e, true)
			searched := w.anyAnnouncer(e, true) // findAncestor runs iff some fork announced for e
			miss := searched && len(S) == 0
			if mode == 2 || (mode == 1) == miss {
				lookups++
				verifFindAncestorSteps.Store(0)
				verifFindAncestorBudget.Store(vC26StepBudget)
				var got *types.EpochDataRaw
				var gerr error
				var exceeded bool
				var steps int64
				// fresh copy of the header: the lookup must not depend on a cached hash
				hd := *tg.header
				if !g.do(fmt.Sprintf("GetEpochDataRaw(%d, %s)", e, tg.name), func() string {
					exceeded, steps = vRecoverBudget(func() { got, gerr = w.es.GetEpochDataRaw(e, &hd) })
					return c26Outcome(gerr)
				}) {
					return
				}
				verifFindAncestorBudget.Store(0)
				g.lookedUp(gerr)
				if g.writers > 0 {
					c.Count("lookups_after_writer_after_failed_lookup", 1)
				}
				c.Eval(1)
				c.Count("epoch_data_lookups", 1)
				if tg.loose {
					c.Count("lookups_from_unimported_header", 1)
				}
				ex := map[string]any{"query": "GetEpochDataRaw", "epoch": e, "header": tg.name, "steps": verifFindAncestorSteps.Load()}
				switch {
				case exceeded:
					c.Violation("nontermination", fmt.Sprintf("GetEpochDataRaw(%d, %s): findAncestor made %d iterations on a tree of depth %d (budget %d)",
						e, tg.name, steps, w.tree.depth(), vC26StepBudget), wit(ex))
					return
				case len(S) > 0:
					if len(S) > 1 {
						c.Count("ambiguous_multiple_announcers_on_chain", 1)
					}
					c.Count("epoch_data_hit_expected", 1)
					ok := false
					for _, a := range S {
						if gerr == nil && reflect.DeepEqual(got, w.tree.blocks[a].epochData.ToEpochDataRaw()) {
							ok = true
						}
					}
					if !ok {
						ex["returned_announced_by"] = "error"
						cls := "own_fork_data_not_found"
						if gerr == nil {
							ex["returned_announced_by"] = w.whoAnnouncedED(got)
							cls = "foreign_fork_data"
						}
						ex["err"] = fmt.Sprint(gerr)
						ex["expected_announcers"] = S
						c.Violation(cls, fmt.Sprintf("GetEpochDataRaw(%d, %s): expected the data announced by b%v, got err=%v data-of=%v",
							e, tg.name, S, gerr, ex["returned_announced_by"]), wit(ex))
						return
					}
					if w.otherForkAnnounces(tg.from, e, true) {
						c.Count("epoch_data_hit_with_competing_fork_announcement", 1)
					}
				default:
					if miss {
						c.Count("epoch_data_miss_other_fork_announced", 1)
						if tg.from > 0 && w.tree.blocks[tg.from].parent > 0 || tg.loose && tg.from > 0 {
							c.Count("miss_with_non_genesis_parent", 1)
						}
					} else {
						c.Count("epoch_data_miss_nobody_announced", 1)
					}
					if gerr == nil {
						ex["returned_announced_by"] = w.whoAnnouncedED(got)
						c.Violation("foreign_fork_data", fmt.Sprintf("GetEpochDataRaw(%d, %s): nothing announced on this ancestry, yet data of %v returned",
							e, tg.name, ex["returned_announced_by"]), wit(ex))
						return
					}
				}
			}

			// ---------------- config data ----------------
			// walk e, e-1, ... 1: the first level at which some fork announced decides ordinary/miss
			var want []int
			cfgMiss := false
			for t := e; t >= 1; t-- {
				St := w.announcers(tg.from, t, false)
				if len(St) > 0 {
					want = St
					break
				}
				if w.anyAnnouncer(t, false) {
					cfgMiss = true // an ancestry search with no match happens before the answer is found
				}
			}
			if mode == 2 || (mode == 1) == cfgMiss {
				lookups++
				verifFindAncestorSteps.Store(0)
				verifFindAncestorBudget.Store(vC26StepBudget)
				var got *types.ConfigData
				var gerr error
				var exceeded bool
				var steps int64
				hd := *tg.header
				if !g.do(fmt.Sprintf("GetConfigData(%d, %s)", e, tg.name), func() string {
					exceeded, steps = vRecoverBudget(func() { got, gerr = w.es.GetConfigData(e, &hd) })
					return c26Outcome(gerr)
				}) {
					return
				}
				verifFindAncestorBudget.Store(0)
				c.Eval(1)
				c.Count("config_lookups", 1)
				ex := map[string]any{"query": "GetConfigData", "epoch": e, "header": tg.name, "steps": verifFindAncestorSteps.Load()}
				if exceeded {
					c.Violation("nontermination", fmt.Sprintf("GetConfigData(%d, %s): findAncestor made %d iterations on a tree of depth %d (budget %d)",
						e, tg.name, steps, w.tree.depth(), vC26StepBudget), wit(ex))
					return
				}
				ok := false
				if len(want) > 0 {
					c.Count("config_announced_on_ancestry", 1)
					if cfgMiss {
						c.Count("config_earlier_epoch_fallback_past_other_fork", 1)
					}
					for _, a := range want {
						if gerr == nil && reflect.DeepEqual(got, w.tree.blocks[a].configData.ToConfigData()) {
							ok = true
						}
					}
				} else {
					c.Count("config_genesis_expected", 1)
					if cfgMiss {
						c.Count("config_genesis_fallback_past_other_fork", 1)
					}
					ok = gerr == nil && got != nil && got.C1 == w.gen.C1 && got.C2 == w.gen.C2 && got.SecondarySlots == w.gen.SecondarySlots
				}
				if !ok {
					ex["err"] = fmt.Sprint(gerr)
					ex["expected_announcers"] = want
					cls := "config_lookup_failed"
					if gerr == nil {
						ex["returned_announced_by"] = w.whoAnnouncedCD(got)
						cls = "foreign_fork_config"
					}
					c.Violation(cls, fmt.Sprintf("GetConfigData(%d, %s): expected config of %v (empty = genesis), got err=%v config-of=%v",
						e, tg.name, want, gerr, ex["returned_announced_by"]), wit(ex))
					return
				}
			}
		}
	}
	return lookups, true
}

// runC26Finalised: lookups after finalisation. The tree is BABE-conformant (the first block of every epoch, and
// only it, announces the next epoch's data). Blocks are finalised the way the node does it (SetFinalisedHash,
// then FinalizeBABENextEpochData / FinalizeBABENextConfigData as dot/digest does on the finalisation
// notification), then every surviving block is queried. Announcements of the abandoned forks stay in the
// in-memory maps (config data always, epoch data for the epochs after the finalised one), so findAncestor meets
// announcers whose headers no longer exist; Go's map iteration decides which one it meets first, therefore every
// lookup that consults a map holding abandoned announcers is repeated vC26Repeats times.
// Asserted: termination; the lookup returns what the block's own ancestry announced (config: latest earlier
// announcement, else genesis) - an error is a violation whenever the ancestry announced (and always for config).
const vC26Repeats = 32

func runC26Finalised(c *vcommon.Case, spec *c26Spec, picks []int) {
	g := newC26Guard(c, spec)
	w, closeFn, ok, err := buildC26World(g, spec, -1)
	if err != nil {
		c.Inconclusive("cannot build world: " + err.Error())
		return
	}
	if !ok {
		return
	}
	defer closeFn()
	defer verifFindAncestorBudget.Store(0)
	if w.finaliseRounds(c, g, spec, picks) {
		c.Distinct("fin|" + w.tree.shape() + fmt.Sprint(picks, spec.Finalise))
	}
}

// finaliseRounds finalises blocks (spec.Finalise, else one block per pick) and queries every surviving block after
// each finalisation. cont=false: the case must stop (violation recorded, or an operation never returned).
func (w *c26World) finaliseRounds(c *vcommon.Case, g *c26Guard, spec *c26Spec, picks []int) (cont bool) {
	head := 0
	var finLog []string
	wit := func(extra map[string]any) map[string]any {
		m := map[string]any{"spec": spec, "tree": w.tree.describe(), "finalised": finLog}
		for k, v := range extra {
			m[k] = v
		}
		return m
	}
	g.base = func() map[string]any { return wit(nil) }
	// abandoned announcers still held by the in-memory maps for an epoch
	prunedIn := func(epochData bool, epoch uint64) int {
		n := 0
		count := func(h common.Hash) {
			if x, ok := w.tree.byHash[h]; ok && w.status(x, head) == "abandoned" {
				n++
			}
		}
		// TryRLock: the harness goroutine itself must never park on an epoch-state lock; when the lock cannot be
		// had (somebody left it write-locked / a writer is queued) the maximum repetition count is used and the
		// guarded lookup that follows decides.
		if epochData {
			if !w.es.nextEpochDataLock.TryRLock() {
				c.Count("harness_probe_found_epoch_lock_busy", 1)
				return 1
			}
			for h := range w.es.nextEpochData[epoch] {
				count(h)
			}
			w.es.nextEpochDataLock.RUnlock()
		} else {
			if !w.es.nextConfigDataLock.TryRLock() {
				c.Count("harness_probe_found_epoch_lock_busy", 1)
				return 1
			}
			for h := range w.es.nextConfigData[epoch] {
				count(h)
			}
			w.es.nextConfigDataLock.RUnlock()
		}
		return n
	}
	rounds := len(picks)
	if len(spec.Finalise) > 0 {
		rounds = len(spec.Finalise)
	}
	for round := 0; round < rounds; round++ {
		f := -1
		if len(spec.Finalise) > 0 {
			f = spec.Finalise[round] + 1
		} else {
			// choose a proper descendant of the current head
			var cands []int
			for x := range w.tree.blocks {
				if x != head && w.tree.isAncestorOrEq(head, x) {
					cands = append(cands, x)
				}
			}
			if len(cands) == 0 {
				break
			}
			f = cands[picks[round]%len(cands)]
		}
		fb := w.tree.blocks[f]
		var err, e1, e2 error
		if !g.do(fmt.Sprintf("SetFinalisedHash(b%d)", f), func() string {
			err = w.bs.SetFinalisedHash(fb.hash, uint64(round+1), 0)
			return c26Outcome(err)
		}) {
			return
		}
		if err != nil {
			c.Inconclusive(fmt.Sprintf("SetFinalisedHash(b%d) failed: %v", f, err))
			return
		}
		afterFailed := g.failedLookups > 0
		if !g.do(fmt.Sprintf("FinalizeBABENextEpochData(b%d)", f), func() string {
			e1 = w.es.FinalizeBABENextEpochData(fb.header)
			return c26Outcome(e1)
		}) {
			return
		}
		if !g.do(fmt.Sprintf("FinalizeBABENextConfigData(b%d)", f), func() string {
			e2 = w.es.FinalizeBABENextConfigData(fb.header)
			return c26Outcome(e2)
		}) {
			return
		}
		if afterFailed {
			g.writers++
			c.Count("finalisations_after_failed_lookup", 1)
		}
		finLog = append(finLog, fmt.Sprintf("finalised b%d (#%d, epoch %d): FinalizeBABENextEpochData err=%v FinalizeBABENextConfigData err=%v",
			f, fb.number, w.epochOf(f), e1, e2))
		c.Count("finalisations", 1)
		if e1 != nil {
			c.Count("finalize_next_epoch_data_errors", 1)
		}
		if w.epochOf(f) >= w.epochOf(head)+2 {
			c.Count("finalisation_jumped_over_an_epoch", 1)
		}
		head = f

		for x, b := range w.tree.blocks {
			if !w.tree.isAncestorOrEq(head, x) {
				continue // finalised ancestors and abandoned forks are not queried
			}
			var got uint64
			var err error
			if !g.do(fmt.Sprintf("GetEpochForBlock(b%d)", x), func() string {
				got, err = w.es.GetEpochForBlock(b.header)
				return c26Outcome(err)
			}) {
				return
			}
			c.Eval(1)
			if err != nil || got != w.epochOf(x) {
				c.Violation("epoch_for_block", fmt.Sprintf("after finalisation GetEpochForBlock(b%d)=%d err=%v, own chain gives %d", x, got, err, w.epochOf(x)),
					wit(map[string]any{"block": x}))
				return
			}
			for e := uint64(1); e <= w.epochOf(x)+2 && e <= 8; e++ {
				// ---------------- epoch data ----------------
				S := w.announcers(x, e, true)
				pruned := prunedIn(true, e)
				reps := 2
				if pruned > 0 {
					reps = vC26Repeats
				}
				for rep := 0; rep < reps; rep++ {
					verifFindAncestorSteps.Store(0)
					verifFindAncestorBudget.Store(vC26StepBudget)
					var gd *types.EpochDataRaw
					var gerr error
					var exceeded bool
					var steps int64
					hd := *b.header
					if !g.do(fmt.Sprintf("GetEpochDataRaw(%d, b%d)", e, x), func() string {
						exceeded, steps = vRecoverBudget(func() { gd, gerr = w.es.GetEpochDataRaw(e, &hd) })
						return c26Outcome(gerr)
					}) {
						return
					}
					verifFindAncestorBudget.Store(0)
					g.lookedUp(gerr)
					if g.writers > 0 {
						c.Count("lookups_after_writer_after_failed_lookup", 1)
					}
					c.Eval(1)
					c.Count("after_finalisation_epoch_data_lookups", 1)
					if pruned >= 2 {
						c.Count("lookups_with_2plus_abandoned_announcers_in_memory", 1)
					}
					ex := map[string]any{"query": "GetEpochDataRaw", "epoch": e, "header": fmt.Sprintf("b%d", x), "repetition": rep,
						"abandoned_announcers_in_memory": pruned}
					if exceeded {
						c.Violation("nontermination", fmt.Sprintf("after finalisation GetEpochDataRaw(%d, b%d): %d iterations", e, x, steps), wit(ex))
						return
					}
					if gerr != nil {
						if len(S) > 0 {
							ex["err"] = gerr.Error()
							ex["expected_announcers"] = S
							c.Violation("own_fork_data_not_found", fmt.Sprintf("after finalisation GetEpochDataRaw(%d, b%d) failed (%v) although b%v on its ancestry announced the data (%d abandoned announcers still in memory, repetition %d)",
								e, x, gerr, S, pruned, rep), wit(ex))
							return
						}
						continue
					}
					ok := false
					for _, a := range S {
						if reflect.DeepEqual(gd, w.tree.blocks[a].epochData.ToEpochDataRaw()) {
							ok = true
						}
					}
					if !ok {
						ex["returned_announced_by"] = w.whoAnnouncedED(gd)
						ex["expected_announcers"] = S
						c.Violation("foreign_fork_data", fmt.Sprintf("after finalisation GetEpochDataRaw(%d, b%d) returned the data of %v, ancestry announcers: %v",
							e, x, ex["returned_announced_by"], S), wit(ex))
						return
					}
					c.Count("after_finalisation_epoch_data_correct", 1)
					if w.status(S[0], head) == "finalised" {
						c.Count("after_finalisation_data_of_finalised_announcer", 1)
					}
					if pruned > 0 {
						c.Count("after_finalisation_epoch_data_correct_despite_abandoned_announcers", 1)
					}
				}

				// ---------------- config ----------------
				var want []int
				cpruned := 0
				for t := e; t >= 1; t-- {
					if n := prunedIn(false, t); n > cpruned {
						cpruned = n
					}
					if St := w.announcers(x, t, false); len(St) > 0 {
						want = St
						break
					}
				}
				reps = 2
				if cpruned > 0 {
					reps = vC26Repeats
				}
				for rep := 0; rep < reps; rep++ {
					verifFindAncestorSteps.Store(0)
					verifFindAncestorBudget.Store(vC26StepBudget)
					var gc *types.ConfigData
					var gerr error
					var exceeded bool
					var steps int64
					hd2 := *b.header
					if !g.do(fmt.Sprintf("GetConfigData(%d, b%d)", e, x), func() string {
						exceeded, steps = vRecoverBudget(func() { gc, gerr = w.es.GetConfigData(e, &hd2) })
						return c26Outcome(gerr)
					}) {
						return
					}
					verifFindAncestorBudget.Store(0)
					c.Eval(1)
					c.Count("after_finalisation_config_lookups", 1)
					if cpruned >= 2 {
						c.Count("lookups_with_2plus_abandoned_announcers_in_memory", 1)
					}
					ex := map[string]any{"query": "GetConfigData", "epoch": e, "header": fmt.Sprintf("b%d", x), "repetition": rep,
						"abandoned_announcers_in_memory": cpruned}
					if exceeded {
						c.Violation("nontermination", fmt.Sprintf("after finalisation GetConfigData(%d, b%d): %d iterations", e, x, steps), wit(ex))
						return
					}
					if gerr != nil {
						ex["err"] = gerr.Error()
						ex["expected_announcers"] = want
						c.Violation("config_lookup_failed", fmt.Sprintf("after finalisation GetConfigData(%d, b%d) failed (%v); expected the config of %v (empty = genesis); %d abandoned announcers still in memory, repetition %d",
							e, x, gerr, want, cpruned, rep), wit(ex))
						return
					}
					ok := false
					if len(want) == 0 {
						ok = gc != nil && gc.C1 == w.gen.C1 && gc.C2 == w.gen.C2 && gc.SecondarySlots == w.gen.SecondarySlots
					}
					for _, a := range want {
						if reflect.DeepEqual(gc, w.tree.blocks[a].configData.ToConfigData()) {
							ok = true
						}
					}
					if !ok {
						ex["returned_announced_by"] = w.whoAnnouncedCD(gc)
						ex["expected_announcers"] = want
						c.Violation("foreign_fork_config", fmt.Sprintf("after finalisation GetConfigData(%d, b%d) returned the config of %v, expected %v (empty = genesis)",
							e, x, ex["returned_announced_by"], want), wit(ex))
						return
					}
					c.Count("after_finalisation_config_correct", 1)
				}
			}
		}
	}
	return true
}

// runC26Seq (groups corpus_seq / tree_seq): lookups that FAIL, then writers of the epoch-state locks, then lookups again.
//
//	phase 1: the first spec.ImportFirst blocks are imported, every block is queried for every epoch (hits and misses);
//	         the misses are the failed lookups (epoch announced nowhere / only by blocks off the ancestry)
//	phase 2: the remaining blocks are imported (HandleBABEDigest -> storeBABENextEpochData / storeBABENextConfigData take
//	         the write locks), on the same fork and on other forks; full sweep again with the same oracle
//	phase 3: finalisation (SetFinalisedHash + FinalizeBABENextEpochData/ConfigData take the write locks) and the
//	         post-finalisation sweep (conformant trees only)
//
// Every operation runs under the hang monitor (zz_verif_c26_hang_test.go): an error path of a lookup that keeps a read
// lock makes the next writer, and then every lookup, park for ever => class deadlock.
func runC26Seq(c *vcommon.Case, spec *c26Spec, picks []int) {
	g := newC26Guard(c, spec)
	n1 := spec.ImportFirst
	if n1 <= 0 || n1 > len(spec.Blocks) {
		n1 = len(spec.Blocks)
	}
	w, closeFn, ok, err := buildC26World(g, spec, n1)
	if err != nil {
		c.Inconclusive("cannot build world: " + err.Error())
		return
	}
	if !ok {
		return
	}
	defer closeFn()
	defer verifFindAncestorBudget.Store(0)
	phase := "phase 1: before the late imports"
	wit := func(extra map[string]any) map[string]any {
		m := map[string]any{"spec": spec, "tree": w.tree.describe(), "mode": 2, "phase": phase, "finalise_picks": picks}
		for k, v := range extra {
			m[k] = v
		}
		return m
	}
	g.base = func() map[string]any { return wit(nil) }
	lookups, ok := w.sweep(c, g, 2, wit)
	if !ok {
		return
	}
	if g.failedLookups > 0 {
		c.Count("seq_cases_with_failed_lookup_in_phase_1", 1)
	}
	if n1 < len(spec.Blocks) {
		for i := n1; i < len(spec.Blocks); i++ {
			ok, err = w.importBlock(g, spec, i)
			if err != nil {
				c.Inconclusive("late import: " + err.Error())
				return
			}
			if !ok {
				return
			}
		}
		if err = w.addLoose(spec); err != nil {
			c.Inconclusive("loose headers: " + err.Error())
			return
		}
		phase = "phase 2: after the late imports"
		l2, ok := w.sweep(c, g, 2, wit)
		if !ok {
			return
		}
		lookups += l2
	}
	c.Count("lookups", lookups)
	if len(spec.Finalise) > 0 || len(picks) > 0 {
		if !w.finaliseRounds(c, g, spec, picks) {
			return
		}
	}
	c.Count("seq_cases_completed", 1)
	if w.forks() > 0 {
		c.Distinct(fmt.Sprint("seq|", w.tree.shape(), "|", w.annPattern(), "|", n1, picks, spec.Finalise))
	}
	c.Sample(map[string]any{"tree": w.tree.describe(), "epoch_length": w.L, "import_first": n1, "finalise": spec.Finalise, "finalise_picks": picks,
		"failed_lookups": g.failedLookups, "writers_after_failed_lookup": g.writers, "operations": g.nops})
}

// genC26SeqCase: conformant random tree + 1-2 finalisations / fan + finalisation of one fork / arbitrary tree without
// finalisation; a random prefix of the blocks is imported before the first sweep.
func genC26SeqCase(c *vcommon.Case) (spec *c26Spec, picks []int) {
	switch c.Idx % 3 {
	case 0:
		spec = genC26Spec(c, true)
		spec.Unimported = nil
		picks = []int{c.R.Intn(1000)}
		if c.R.Bool() {
			picks = append(picks, c.R.Intn(1000))
		}
	case 1:
		spec = genC26FanSpec(c)
	default:
		spec = genC26Spec(c, false)
	}
	n := len(spec.Blocks)
	switch {
	case c.R.Chance(1, 6):
		spec.ImportFirst = n // the only writers are the finalisations
	default:
		spec.ImportFirst = c.R.Range(1, n-1)
	}
	return spec, picks
}

func c26SeqCorpus() []*c26Spec {
	// 0: minimal witness of "failed lookup keeps the read lock" (seeded change, round 2): b1 - b2 imported; lookup (2, b1) fails
	// (epoch 2 is announced only by b2, a descendant); then c2 (sibling of b2, announces epoch 2) and b3 are imported,
	// everything is queried again, b2 is finalised, the survivors are queried.
	s0 := &c26Spec{L: 2, Blocks: []c26BlockSpec{{Parent: -1, Slot: 100, ED: true, Primary: true}, {Parent: 0, Slot: 102, ED: true, CD: true, Primary: true},
		{Parent: 0, Slot: 103, ED: true, Primary: true}, {Parent: 1, Slot: 103, Primary: true}}, ImportFirst: 2, Finalise: []int{1}}
	// 1: a single chain, everything imported first: lookups for an epoch announced nowhere fail; the writers are two
	// successive finalisations.
	s1 := &c26Spec{L: 2, Blocks: []c26BlockSpec{{Parent: -1, Slot: 100, ED: true, CD: true, Primary: true}, {Parent: 0, Slot: 102, ED: true, Primary: true},
		{Parent: 1, Slot: 104, ED: true, Primary: true}, {Parent: 2, Slot: 105, Primary: true}}, Finalise: []int{0, 1}}
	// 2: corpus tree 0 (only the fork c2 announces for epoch 1; lookups from b2/b3 fail: other fork only), then a third
	// fork d2 that announces epoch data + config for epoch 1 is imported; no finalisation.
	s2 := &c26Spec{L: 3, Blocks: []c26BlockSpec{{Parent: -1, Slot: 100, Primary: true}, {Parent: 0, Slot: 101, Primary: true},
		{Parent: 1, Slot: 102, Primary: true}, {Parent: 0, Slot: 101, ED: true, CD: true}, {Parent: 0, Slot: 102, ED: true, CD: true, Primary: true}},
		ImportFirst: 4, Unimported: []int{2}}
	// 3: fan of six forks; trunk + two forks are imported and queried, the four other forks arrive afterwards, fork 2 is finalised.
	s3 := &c26Spec{L: 2, Blocks: []c26BlockSpec{{Parent: -1, Slot: 200, ED: true, CD: true, Primary: true}}}
	for i := 0; i < 6; i++ {
		off := uint64(i % 2)
		s3.Blocks = append(s3.Blocks, c26BlockSpec{Parent: 0, Slot: 202 + off, ED: true, CD: true, Primary: true})
		s3.Blocks = append(s3.Blocks, c26BlockSpec{Parent: len(s3.Blocks) - 1, Slot: 204 + off, ED: true, CD: i%2 == 0, Primary: true})
	}
	s3.ImportFirst = 5
	s3.Finalise = []int{5}
	// 4: the writer is on the SAME fork: lookup (2, b1) fails (announced nowhere), b2 (announces epoch 2) is imported,
	// lookup (2, b2) must now succeed; b1 and b2 are finalised one after the other.
	s4 := &c26Spec{L: 2, Blocks: []c26BlockSpec{{Parent: -1, Slot: 50, ED: true, Primary: true}, {Parent: 0, Slot: 52, ED: true, CD: true, Primary: true},
		{Parent: 1, Slot: 53, Primary: true}}, ImportFirst: 1, Finalise: []int{0, 1}}
	return []*c26Spec{s0, s1, s2, s3, s4}
}

// genC26FanSpec: a trunk in epoch 0 and 4-8 competing forks that each open epoch 1 and epoch 2 (so each
// announces the data of epochs 2 and 3, often config data too); one fork is finalised step by step.
func genC26FanSpec(c *vcommon.Case) *c26Spec {
	r := c.R
	L := uint64(r.Range(2, 3))
	spec := &c26Spec{L: L}
	S := uint64(r.Range(50, 5000))
	add := func(parent int, slot uint64, ed, cd bool) int {
		spec.Blocks = append(spec.Blocks, c26BlockSpec{Parent: parent, Slot: slot, ED: ed, CD: cd, Primary: r.Chance(3, 4)})
		return len(spec.Blocks) - 1
	}
	tip := add(-1, S, true, r.Chance(1, 2)) // #1: first block of epoch 0
	if r.Bool() {
		tip = add(tip, S+1, false, false) // still epoch 0
	}
	k := r.Range(4, 8)
	survivor := r.Intn(k)
	var fin []int
	for i := 0; i < k; i++ {
		off := uint64(i) % L
		f1 := add(tip, S+L+off, true, r.Chance(3, 5))  // first block of epoch 1 on this fork
		f2 := add(f1, S+2*L+off, true, r.Chance(2, 5)) // first block of epoch 2
		f3 := -1
		if off+1 < L && r.Chance(2, 3) {
			f3 = add(f2, S+2*L+off+1, false, false) // second block of epoch 2
		}
		if i == survivor {
			fin = append(fin, f1)
			if r.Chance(1, 3) && f3 >= 0 {
				fin = append(fin, f2)
			}
		}
	}
	spec.Finalise = fin
	return spec
}

// status of tree block x relative to the finalised head (model).
func (w *c26World) status(x, head int) string {
	switch {
	case w.tree.isAncestorOrEq(x, head):
		return "finalised"
	case w.tree.isAncestorOrEq(head, x):
		return "live"
	}
	return "abandoned"
}

// otherForkAnnounces: some block NOT on the ancestry of `from` announces for epoch.
func (w *c26World) otherForkAnnounces(from int, epoch uint64, epochData bool) bool {
	for x, b := range w.tree.blocks {
		if (epochData && b.epochData == nil) || (!epochData && b.configData == nil) {
			continue
		}
		if w.epochOf(x)+1 == epoch && !w.tree.isAncestorOrEq(x, from) {
			return true
		}
	}
	return false
}

func genC26Spec(c *vcommon.Case, conformant bool) *c26Spec {
	r := c.R
	spec := &c26Spec{L: uint64(r.Range(2, 4))}
	n := r.Range(3, 11)
	type meta struct {
		number    uint
		slot      uint64
		firstSlot uint64
	}
	ms := []meta{}
	base := uint64(r.Range(50, 5000))
	usedFirst := map[uint64]bool{}
	for i := 0; i < n; i++ {
		parent := -1
		if i > 0 {
			switch {
			case r.Chance(11, 20):
				parent = i - 1
			case r.Chance(1, 6):
				parent = -1
			default:
				parent = r.Intn(i)
			}
		}
		var m meta
		var pEpoch uint64
		if parent == -1 {
			s := base + uint64(r.Intn(6))
			for usedFirst[s] {
				s++
			}
			usedFirst[s] = true
			m = meta{number: 1, slot: s, firstSlot: s}
		} else {
			p := ms[parent]
			maxDelta := int(spec.L) + 1
			if conformant {
				maxDelta = int(spec.L) // no epoch without blocks
			}
			m = meta{number: p.number + 1, slot: p.slot + uint64(r.Range(1, maxDelta)), firstSlot: p.firstSlot}
			if p.number > 1 {
				pEpoch = (p.slot - p.firstSlot) / spec.L
			}
		}
		var epoch uint64
		if m.number > 1 {
			epoch = (m.slot - m.firstSlot) / spec.L
		}
		firstOfEpoch := m.number == 1 || epoch != pEpoch
		bs := c26BlockSpec{Parent: parent, Slot: m.slot, Primary: r.Chance(3, 4)}
		if conformant {
			// what BABE produces: exactly the first block of every epoch announces the next epoch's data
			bs.ED = firstOfEpoch
			bs.CD = firstOfEpoch && r.Chance(2, 5)
		} else if firstOfEpoch {
			bs.ED = r.Chance(7, 10)
			bs.CD = r.Chance(2, 5)
		} else {
			bs.ED = r.Chance(1, 12)
			bs.CD = r.Chance(1, 20)
		}
		spec.Blocks = append(spec.Blocks, bs)
		ms = append(ms, m)
	}
	for k := r.Intn(3); k > 0; k-- {
		spec.Unimported = append(spec.Unimported, r.Range(-1, n-1))
	}
	return spec
}

func c26FixedCorpus() []*c26Spec {
	return []*c26Spec{
		// 0: minimal witness of the findAncestor defect: b1 - b2 - b3 announce nothing for epoch 1, the
		// competing fork b1 - c2 does. Lookup (epoch 1, b3): nothing on the ancestry, parent of b3 is not genesis.
		{L: 3, Blocks: []c26BlockSpec{{Parent: -1, Slot: 100, Primary: true}, {Parent: 0, Slot: 101, Primary: true},
			{Parent: 1, Slot: 102, Primary: true}, {Parent: 0, Slot: 101, ED: true, CD: true}}},
		// 1: two forks from genesis with different first slots, both announce for epoch 1 and 2
		{L: 2, Blocks: []c26BlockSpec{{Parent: -1, Slot: 10, ED: true, CD: true, Primary: true}, {Parent: -1, Slot: 13, ED: true, Primary: true},
			{Parent: 0, Slot: 12, ED: true, Primary: true}, {Parent: 1, Slot: 15, ED: true, CD: true}, {Parent: 2, Slot: 13, Primary: true},
			{Parent: 3, Slot: 16, Primary: true}}, Unimported: []int{4, 5, -1}},
		// 2: config announced for epoch 1 on the common prefix, for epoch 2 only on fork A: fork B must fall back to epoch 1's
		{L: 2, Blocks: []c26BlockSpec{{Parent: -1, Slot: 20, ED: true, CD: true, Primary: true}, {Parent: 0, Slot: 22, ED: true, CD: true, Primary: true},
			{Parent: 0, Slot: 22, ED: true}, {Parent: 2, Slot: 23, Primary: true}, {Parent: 1, Slot: 23, Primary: true}}, Unimported: []int{3}},
		// 3: nobody announces anything; long chain
		{L: 2, Blocks: []c26BlockSpec{{Parent: -1, Slot: 5, Primary: true}, {Parent: 0, Slot: 6, Primary: true}, {Parent: 1, Slot: 8, Primary: true},
			{Parent: 2, Slot: 9, Primary: true}, {Parent: 3, Slot: 12, Primary: true}}, Unimported: []int{4}},
		// 4: deep fork, announcement only below the fork point on one side, queried from the other side's tip
		{L: 4, Blocks: []c26BlockSpec{{Parent: -1, Slot: 1000, ED: true, Primary: true}, {Parent: 0, Slot: 1001, Primary: true},
			{Parent: 1, Slot: 1004, ED: true, CD: true, Primary: true}, {Parent: 2, Slot: 1005, Primary: true}, {Parent: 3, Slot: 1008, ED: true, Primary: true},
			{Parent: 1, Slot: 1003, Primary: true}, {Parent: 5, Slot: 1005}, {Parent: 6, Slot: 1006, Primary: true}, {Parent: 7, Slot: 1009, Primary: true}},
			Unimported: []int{8}},
	}
}

func c26FinalisedCorpus() []*c26Spec {
	// 0: b1 (epoch 0) - b2 (first of epoch 1) - b3 (epoch 1); finalising b2 as the FIRST finalisation persists epoch 2
	// and used to drop epoch 1's announcement without persisting it: lookup (1, b3) failed.
	c0 := &c26Spec{L: 2, Blocks: []c26BlockSpec{{Parent: -1, Slot: 100, ED: true, Primary: true}, {Parent: 0, Slot: 102, ED: true, CD: true, Primary: true},
		{Parent: 1, Slot: 103, Primary: true}}, Finalise: []int{1}}
	// 1: six competing forks from the trunk block, each opening epoch 1 and epoch 2 with epoch data + config data;
	// fork 2 is finalised: the five other forks' announcers stay in the in-memory maps without headers.
	c1 := &c26Spec{L: 2, Blocks: []c26BlockSpec{{Parent: -1, Slot: 200, ED: true, CD: true, Primary: true}}}
	for i := 0; i < 6; i++ {
		off := uint64(i % 2)
		c1.Blocks = append(c1.Blocks, c26BlockSpec{Parent: 0, Slot: 202 + off, ED: true, CD: true, Primary: true})
		c1.Blocks = append(c1.Blocks, c26BlockSpec{Parent: len(c1.Blocks) - 1, Slot: 204 + off, ED: true, CD: i%2 == 0, Primary: true})
	}
	c1.Finalise = []int{5}
	return []*c26Spec{c0, c1}
}

func TestVerifC26(t *testing.T) {
	r := vcommon.Start(t, "C26")
	defer r.Finish()
	r.Floor("epoch_data_hit_with_competing_fork_announcement", 100)
	r.Floor("epoch_data_miss_other_fork_announced", 100)
	r.Floor("miss_with_non_genesis_parent", 50)
	r.Floor("epoch_data_miss_nobody_announced", 100)
	r.Floor("config_earlier_epoch_fallback_past_other_fork", 10)
	r.Floor("config_genesis_fallback_past_other_fork", 20)
	r.Floor("lookups_from_unimported_header", 50)
	r.Floor("trees_with_forks", 50)
	r.Floor("after_finalisation_epoch_data_correct", 200)
	r.Floor("after_finalisation_data_of_finalised_announcer", 100)
	r.Floor("after_finalisation_config_correct", 500)
	r.Floor("lookups_with_2plus_abandoned_announcers_in_memory", 2000)
	r.Floor("after_finalisation_epoch_data_correct_despite_abandoned_announcers", 500)
	// writers of the epoch-state locks executed after a lookup of the same case had failed, and lookups after them
	r.Floor("announcement_imports_after_failed_lookup", 150)
	r.Floor("finalisations_after_failed_lookup", 100)
	r.Floor("lookups_after_writer_after_failed_lookup", 2000)
	r.Floor("failed_lookups_other_fork_only", 200)

	corpus := c26FixedCorpus()
	// ordinary lookups first: a real hang (uninstrumented build) kills the whole child, so the
	// "nothing announced on this ancestry" lookups run last, in their own groups.
	r.Fixed("corpus_ordinary", len(corpus), func(c *vcommon.Case) { runC26(c, corpus[c.Idx], 0) })
	r.Cases("tree_ordinary", r.Scale(300), func(c *vcommon.Case) { runC26(c, genC26Spec(c, false), 0) })
	r.Fixed("corpus_miss", len(corpus), func(c *vcommon.Case) { runC26(c, corpus[c.Idx], 1) })
	r.Cases("tree_miss", r.Scale(300), func(c *vcommon.Case) { runC26(c, genC26Spec(c, false), 1) })
	// lookups after finalisation (mixes hits and misses): last
	finCorpus := c26FinalisedCorpus()
	r.Fixed("corpus_finalised", len(finCorpus), func(c *vcommon.Case) { runC26Finalised(c, finCorpus[c.Idx], nil) })
	r.Cases("tree_finalised", r.Scale(200), func(c *vcommon.Case) {
		if c.Idx%2 == 1 {
			runC26Finalised(c, genC26FanSpec(c), nil)
			return
		}
		spec := genC26Spec(c, true)
		picks := []int{c.R.Intn(1000)}
		if c.R.Bool() {
			picks = append(picks, c.R.Intn(1000))
		}
		runC26Finalised(c, spec, picks)
	})
	// failed lookups, then writers (announcement imports on any fork, finalisations), then lookups again
	seqCorpus := c26SeqCorpus()
	r.Fixed("corpus_seq", len(seqCorpus), func(c *vcommon.Case) { runC26Seq(c, seqCorpus[c.Idx], nil) })
	r.Cases("tree_seq", r.Scale(150), func(c *vcommon.Case) {
		spec, picks := genC26SeqCase(c)
		runC26Seq(c, spec, picks)
	})
	// lookups on an EpochState reopened over the same database (zz_verif_c26_restart_test.go)
	registerC26Restart(r)
	// skipped epochs (zz_verif_c26_skipped_test.go): last, a process-fatal lock error would end the child
	registerC26Skipped(r)
}
