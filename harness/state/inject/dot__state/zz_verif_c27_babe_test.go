//go:build verif

// External test package of dot/state: unlike `package state` it may import lib/babe (which imports dot/state).
// It registers the lib/babe call-site driver used by TestVerifC27 (package state).
package state_test

import (
	"fmt"
	"time"

	"github.com/ChainSafe/gossamer/dot/state"
	"github.com/ChainSafe/gossamer/dot/telemetry"
	"github.com/ChainSafe/gossamer/dot/types"
	"github.com/ChainSafe/gossamer/internal/database"
	"github.com/ChainSafe/gossamer/lib/babe"
	"github.com/ChainSafe/gossamer/lib/common"
	"github.com/ChainSafe/gossamer/lib/crypto/sr25519"
	"github.com/ChainSafe/gossamer/lib/keystore"
	"github.com/ChainSafe/gossamer/lib/runtime"
	"github.com/ChainSafe/gossamer/pkg/scale"
)

func init() { state.VerifNewBabeChecker = newBabeChecker }

// fakeRuntime implements the two runtime calls of verifier.submitAndReportEquivocation and records the
// proof handed to the runtime. Every other method of the embedded (nil) interface would panic: none is used.
type fakeRuntime struct {
	runtime.Instance
	reported []types.BabeEquivocationProof
}

func (f *fakeRuntime) BabeGenerateKeyOwnershipProof(slot uint64, authorityID [32]byte) (types.OpaqueKeyOwnershipProof, error) {
	return types.OpaqueKeyOwnershipProof{1, 2, 3}, nil
}

func (f *fakeRuntime) BabeSubmitReportEquivocationUnsignedExtrinsic(proof types.BabeEquivocationProof,
	_ types.OpaqueKeyOwnershipProof) error {
	f.reported = append(f.reported, proof)
	return nil
}

func (f *fakeRuntime) Stop() {}

type babeChecker struct {
	db         database.Database
	bs         *state.BlockState
	ss         *state.SlotState
	rt         *fakeRuntime
	keys       []*sr25519.Keypair
	auths      []types.AuthorityRaw
	randomness babe.Randomness
}

func newBabeChecker() (state.VerifBabeChecker, error) {
	db, err := database.NewPebble("", true)
	if err != nil {
		return nil, err
	}
	genesis := types.NewHeader(common.Hash{}, common.Hash{0x27}, common.Hash{}, 0, types.NewDigest())
	bs, err := state.NewBlockStateFromGenesis(db, state.NewTries(), genesis, telemetry.NewNoopMailer())
	if err != nil {
		_ = db.Close()
		return nil, err
	}
	kr, err := keystore.NewSr25519Keyring()
	if err != nil {
		_ = db.Close()
		return nil, err
	}
	ck := &babeChecker{db: db, bs: bs, ss: state.NewSlotState(db), rt: &fakeRuntime{},
		keys: []*sr25519.Keypair{kr.KeyAlice, kr.KeyBob, kr.KeyCharlie}, randomness: babe.Randomness{0x27, 1}}
	for _, k := range ck.keys {
		ck.auths = append(ck.auths, types.AuthorityRaw{Key: k.Public().(*sr25519.PublicKey).AsBytes(), Weight: 1})
	}
	bs.StoreRuntime(bs.GenesisHash(), ck.rt)
	return ck, nil
}

func (ck *babeChecker) Close() { _ = ck.db.Close() }

func (ck *babeChecker) Signers() [3]types.AuthorityID {
	var s [3]types.AuthorityID
	for i := range s {
		s[i] = ck.auths[i].Key
	}
	return s
}

// durationFor picks the slot duration for which the verifier's wall-clock slot equals targetNow.
func durationFor(targetNow uint64) time.Duration {
	t := uint64(time.Now().UnixNano())
	if targetNow == 0 {
		return time.Duration(2 * t)
	}
	return time.Duration(t / targetNow)
}

func (ck *babeChecker) run(targetNow uint64, f func(v *babe.VerifVerifier) error) (now uint64, stable bool,
	proof *types.BabeEquivocationProof, err error) {
	d := durationFor(targetNow)
	v := babe.VerifNewVerifier(ck.bs, ck.ss, ck.auths, ck.randomness, d)
	before := babe.VerifCurrentSlot(d)
	n0 := len(ck.rt.reported)
	err = f(v)
	after := babe.VerifCurrentSlot(d)
	if len(ck.rt.reported) > n0+1 {
		return before, before == after, nil, fmt.Errorf("%d proofs reported for one header", len(ck.rt.reported)-n0)
	}
	if len(ck.rt.reported) == n0+1 {
		p := ck.rt.reported[n0]
		proof = &p
	}
	return before, before == after, proof, err
}

func (ck *babeChecker) CheckEquivocation(targetNow uint64, header *types.Header) (uint64, bool, bool,
	*types.BabeEquivocationProof, error) {
	var equivocated bool
	now, stable, proof, err := ck.run(targetNow, func(v *babe.VerifVerifier) (e error) {
		equivocated, e = v.VerifyBlockEquivocation(header)
		return e
	})
	return now, stable, equivocated, proof, err
}

func (ck *babeChecker) VerifyAuthorshipRight(targetNow uint64, header *types.Header) (uint64, bool,
	*types.BabeEquivocationProof, error) {
	return ck.run(targetNow, func(v *babe.VerifVerifier) error { return v.VerifyAuthorshipRight(header) })
}

// SealedHeader: secondary-plain claim by the authority that owns the slot, sealed with its sr25519 key
// over the hash of the header without the seal (what verifyAuthorshipRight verifies).
func (ck *babeChecker) SealedHeader(slot uint64, tag uint64) (*types.Header, int, error) {
	idx, err := babe.VerifSecondarySlotAuthor(slot, len(ck.auths), ck.randomness)
	if err != nil {
		return nil, 0, err
	}
	pre, err := types.NewBabeSecondaryPlainPreDigest(idx, slot).ToPreRuntimeDigest()
	if err != nil {
		return nil, 0, err
	}
	digest := types.NewDigest()
	if err = digest.Add(*pre); err != nil {
		return nil, 0, err
	}
	var ext common.Hash
	ext[0], ext[1], ext[2], ext[3], ext[31] = byte(tag), byte(tag>>8), byte(tag>>16), byte(tag>>24), 0x27
	unsealed := types.Header{ParentHash: common.Hash{0xaa, byte(slot)}, Number: uint(slot%100000) + 1,
		StateRoot: common.Hash{0xbb}, ExtrinsicsRoot: ext, Digest: digest}
	enc, err := scale.Marshal(unsealed)
	if err != nil {
		return nil, 0, err
	}
	h, err := common.Blake2bHash(enc)
	if err != nil {
		return nil, 0, err
	}
	sig, err := ck.keys[idx].Sign(h[:])
	if err != nil {
		return nil, 0, err
	}
	sealed := types.NewDigest()
	if err = sealed.Add(*pre, types.SealDigest{ConsensusEngineID: types.BabeEngineID, Data: sig}); err != nil {
		return nil, 0, err
	}
	return types.NewHeader(unsealed.ParentHash, unsealed.StateRoot, unsealed.ExtrinsicsRoot, unsealed.Number, sealed), int(idx), nil
}
