//go:build verif

package state

import "sync/atomic"

// Logical termination monitor for C26 (no wall clock): the driver inserts a call to
// verifFindAncestorStep() at the end of every iteration of findAncestor's outer loop
// (engine.json "instrument", anchor `currentHeader = parentHeader`). The harness arms a
// step budget before each lookup; when the loop makes more iterations than the budget the
// hook panics with verifStepBudgetExceeded, which the harness recovers and reports as a
// non-termination violation. Disarmed (budget 0) the hook only counts.
var (
	verifFindAncestorSteps  atomic.Int64
	verifFindAncestorBudget atomic.Int64
)

type verifStepBudgetExceeded struct{ steps int64 }

func verifFindAncestorStep() {
	n := verifFindAncestorSteps.Add(1)
	if b := verifFindAncestorBudget.Load(); b > 0 && n > b {
		panic(verifStepBudgetExceeded{steps: n})
	}
}
