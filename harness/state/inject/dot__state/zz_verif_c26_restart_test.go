//go:build verif

package state

import (
	"fmt"
	"reflect"

	"github.com/ChainSafe/gossamer/dot/types"
	"github.com/ChainSafe/gossamer/internal/database"
	"github.com/ChainSafe/gossamer/zz_verif/vcommon"
)

// ---------------------------------------------------------------------------
// C26, restart (groups restart_corpus / restart_tree): lookups on an EpochState REOPENED over the same database.
//
// state.Service.Start builds the epoch state with NewEpochState(db, blockState, genesisConfig): the in-memory
// announcement maps nextEpochData / nextConfigData are rebuilt from the database by restoreMapFromDisk (keys
// "nextepochdata<epoch>:<hash>" / "nextconfigdata<epoch>:<hash>").
//
// What is persisted when (read on the unchanged tree): HandleBABEDigest writes every announcement to the map AND to
// the database in the same call; FinalizeBABENextEpochData / FinalizeBABENextConfigData delete an epoch from the map
// and its keys from the database in the same loop iteration, after having stored the finalised definition under
// epochdata<epoch> / configdata<epoch>. Nothing is kept in memory only, so nothing is lost by design on a restart:
// the reopened instance must answer every own-fork lookup exactly like the model says (same oracle as the running
// instance). A lookup that fails on the reopened instance while the block's ancestry announced the data is reported
// as own_fork_data_not_found; data / config of a block that is not the model's answer is foreign_fork_data /
// foreign_fork_config (wrong_epoch_data when the returned data was announced on the block's own chain, but for
// another epoch). Whether the restored maps equal the live ones entry by entry is only counted.
//
// At random points of a scenario (after imports with announcements on competing forks, before and after every
// finalisation) a NEW EpochState is opened and the full own-fork sweep is repeated on it, every operation through the
// hang monitor (c26Guard.do) and with the findAncestor step budget armed.
// ---------------------------------------------------------------------------

const vC26RestartMaxEpoch = 14

type c26Restart struct {
	c     *vcommon.Case
	g     *c26Guard
	w     *c26World
	spec  *c26Spec
	db    database.Database
	head  int
	log   []string
	stage string
	nrs   int
}

func (x *c26Restart) wit(extra map[string]any) map[string]any {
	m := map[string]any{"spec": x.spec, "tree": x.w.tree.describe(), "steps": append([]string{}, x.log...), "stage": x.stage,
		"instance": "EpochState reopened with NewEpochState over the same database"}
	for k, v := range extra {
		m[k] = v
	}
	return m
}

// mapsEqual compares the restored maps with the live ones (harness goroutine, TryRLock: never parks).
func (x *c26Restart) mapsEqual(es2 *EpochState) (ed, cd, ok bool) {
	es := x.w.es
	if !es.nextEpochDataLock.TryRLock() {
		return false, false, false
	}
	defer es.nextEpochDataLock.RUnlock()
	if !es.nextConfigDataLock.TryRLock() {
		return false, false, false
	}
	defer es.nextConfigDataLock.RUnlock()
	edEq := len(es.nextEpochData) == len(es2.nextEpochData)
	for e, hs := range es.nextEpochData {
		if !reflect.DeepEqual(hs, es2.nextEpochData[e]) {
			edEq = false
		}
	}
	cdEq := len(es.nextConfigData) == len(es2.nextConfigData)
	for e, hs := range es.nextConfigData {
		if !reflect.DeepEqual(hs, es2.nextConfigData[e]) {
			cdEq = false
		}
	}
	return edEq, cdEq, true
}

// reopenSweep opens a new EpochState on the same database + block state and repeats the own-fork lookup sweep on it.
// cont=false: the case must stop.
func (x *c26Restart) reopenSweep(stage string) (cont bool) {
	c, g, w := x.c, x.g, x.w
	x.stage = stage
	x.nrs++
	var es2 *EpochState
	var err error
	if !g.do("NewEpochState(same database)", func() string {
		es2, err = NewEpochState(x.db, w.bs, w.gen)
		return c26Outcome(err)
	}) {
		return false
	}
	x.log = append(x.log, "REOPEN "+stage)
	c.Eval(1)
	if err != nil {
		c.Violation("reopen_failed", fmt.Sprintf("NewEpochState over the database of the running node failed (%s): %v", stage, err), x.wit(nil))
		return false
	}
	c.Count("restart_reopens", 1)
	if x.head > 0 {
		c.Count("restart_reopens_after_finalisation", 1)
	}
	if edEq, cdEq, ok := x.mapsEqual(es2); ok {
		if edEq && cdEq {
			c.Count("restart_restored_maps_equal_live_maps", 1)
		} else {
			c.Count("restart_restored_maps_differ_from_live_maps", 1)
		}
	}
	nED, nCD := 0, 0
	for _, hs := range es2.nextEpochData {
		nED += len(hs)
	}
	for _, hs := range es2.nextConfigData {
		nCD += len(hs)
	}
	c.Count("restart_restored_epoch_data_entries", nED)
	c.Count("restart_restored_config_entries", nCD)

	var maxE uint64
	for i := range w.tree.blocks {
		if e := w.epochOf(i); e > maxE {
			maxE = e
		}
	}
	type target struct {
		name   string
		from   int
		header *types.Header
		loose  bool
	}
	var targets []target
	for i, b := range w.tree.blocks {
		if i > 0 && w.tree.isAncestorOrEq(x.head, i) {
			targets = append(targets, target{name: fmt.Sprintf("b%d", i), from: i, header: b.header})
		}
	}
	for j, lb := range w.loose {
		if w.tree.isAncestorOrEq(x.head, lb.parent) {
			targets = append(targets, target{name: fmt.Sprintf("loose%d(child of b%d)", j, lb.parent), from: lb.parent, header: lb.header, loose: true})
		}
	}
	if x.head == 0 {
		targets = append(targets, target{name: "b0", from: 0, header: w.tree.blocks[0].header})
	}
	reps := 2
	if x.head > 0 {
		reps = 6 // abandoned announcers in the maps: Go's map order decides which one findAncestor meets first
	}
	onChain := func(from int, d *types.EpochDataRaw) bool {
		for _, a := range w.tree.chain(from) {
			if b := w.tree.blocks[a]; b.epochData != nil && reflect.DeepEqual(b.epochData.ToEpochDataRaw(), d) {
				return true
			}
		}
		return false
	}
	for _, tg := range targets {
		top := maxE + 2
		if x.head > 0 {
			top = w.epochOf(tg.from) + 2 // as in the post-finalisation sweep of the running instance
		}
		if top > vC26RestartMaxEpoch {
			top = vC26RestartMaxEpoch
		}
		for e := uint64(1); e <= top; e++ {
			S := w.announcers(tg.from, e, true)
			// reference: the running instance, once (establishes what a restart may lose: nothing)
			var liveErr error
			{
				hd := *tg.header
				verifFindAncestorSteps.Store(0)
				verifFindAncestorBudget.Store(vC26StepBudget)
				if !g.do(fmt.Sprintf("live.GetEpochDataRaw(%d, %s)", e, tg.name), func() string {
					vRecoverBudget(func() { _, liveErr = w.es.GetEpochDataRaw(e, &hd) })
					return c26Outcome(liveErr)
				}) {
					return false
				}
				verifFindAncestorBudget.Store(0)
			}
			for rep := 0; rep < reps; rep++ {
				var got *types.EpochDataRaw
				var gerr error
				var exceeded bool
				var steps int64
				hd := *tg.header
				verifFindAncestorSteps.Store(0)
				verifFindAncestorBudget.Store(vC26StepBudget)
				if !g.do(fmt.Sprintf("reopened.GetEpochDataRaw(%d, %s)", e, tg.name), func() string {
					exceeded, steps = vRecoverBudget(func() { got, gerr = es2.GetEpochDataRaw(e, &hd) })
					return c26Outcome(gerr)
				}) {
					return false
				}
				verifFindAncestorBudget.Store(0)
				c.Eval(1)
				c.Count("restart_epoch_data_lookups", 1)
				ex := map[string]any{"query": "GetEpochDataRaw", "epoch": e, "header": tg.name, "repetition": rep,
					"running_instance_err": fmt.Sprint(liveErr), "expected_announcers": S}
				switch {
				case exceeded:
					c.Violation("nontermination", fmt.Sprintf("reopened instance, GetEpochDataRaw(%d, %s): findAncestor made %d iterations (budget %d)",
						e, tg.name, steps, vC26StepBudget), x.wit(ex))
					return false
				case gerr != nil && len(S) > 0:
					ex["err"] = gerr.Error()
					if liveErr == nil {
						c.Count("restart_lookup_failed_where_running_instance_succeeds", 1)
					}
					c.Violation("own_fork_data_not_found", fmt.Sprintf("after a restart (%s) GetEpochDataRaw(%d, %s) fails (%v) although b%v on its ancestry announced the data; the running instance: err=%v",
						stage, e, tg.name, gerr, S, liveErr), x.wit(ex))
					return false
				case gerr != nil:
					c.Count("restart_epoch_data_miss", 1)
					if w.otherForkAnnounces(tg.from, e, true) {
						c.Count("restart_epoch_data_miss_other_fork_announced", 1)
					}
				default:
					ok := false
					for _, a := range S {
						if reflect.DeepEqual(got, w.tree.blocks[a].epochData.ToEpochDataRaw()) {
							ok = true
						}
					}
					if !ok {
						ex["returned_announced_by"] = w.whoAnnouncedED(got)
						cls := "foreign_fork_data"
						if onChain(tg.from, got) {
							cls = "wrong_epoch_data"
						}
						c.Violation(cls, fmt.Sprintf("after a restart (%s) GetEpochDataRaw(%d, %s) returned the data of %v, ancestry announcers for that epoch: %v",
							stage, e, tg.name, ex["returned_announced_by"], S), x.wit(ex))
						return false
					}
					c.Count("restart_epoch_data_correct", 1)
					if w.otherForkAnnounces(tg.from, e, true) {
						c.Count("restart_epoch_data_correct_with_competing_fork_announcement", 1)
					}
					if x.head > 0 {
						c.Count("restart_epoch_data_correct_after_finalisation", 1)
					}
					if tg.loose {
						c.Count("restart_lookups_from_unimported_header", 1)
					}
				}
			}

			// ---------------- config ----------------
			var want []int
			for t := e; t >= 1; t-- {
				if St := w.announcers(tg.from, t, false); len(St) > 0 {
					want = St
					break
				}
			}
			for rep := 0; rep < reps; rep++ {
				var got *types.ConfigData
				var gerr error
				var exceeded bool
				var steps int64
				hd := *tg.header
				verifFindAncestorSteps.Store(0)
				verifFindAncestorBudget.Store(vC26StepBudget)
				if !g.do(fmt.Sprintf("reopened.GetConfigData(%d, %s)", e, tg.name), func() string {
					exceeded, steps = vRecoverBudget(func() { got, gerr = es2.GetConfigData(e, &hd) })
					return c26Outcome(gerr)
				}) {
					return false
				}
				verifFindAncestorBudget.Store(0)
				c.Eval(1)
				c.Count("restart_config_lookups", 1)
				ex := map[string]any{"query": "GetConfigData", "epoch": e, "header": tg.name, "repetition": rep, "expected_announcers": want}
				if exceeded {
					c.Violation("nontermination", fmt.Sprintf("reopened instance, GetConfigData(%d, %s): findAncestor made %d iterations (budget %d)",
						e, tg.name, steps, vC26StepBudget), x.wit(ex))
					return false
				}
				if gerr != nil {
					ex["err"] = gerr.Error()
					c.Violation("config_lookup_failed", fmt.Sprintf("after a restart (%s) GetConfigData(%d, %s) failed (%v); expected the config of %v (empty = genesis)",
						stage, e, tg.name, gerr, want), x.wit(ex))
					return false
				}
				ok := false
				if len(want) == 0 {
					ok = got != nil && got.C1 == w.gen.C1 && got.C2 == w.gen.C2 && got.SecondarySlots == w.gen.SecondarySlots
				}
				for _, a := range want {
					if reflect.DeepEqual(got, w.tree.blocks[a].configData.ToConfigData()) {
						ok = true
					}
				}
				if !ok {
					ex["returned_announced_by"] = w.whoAnnouncedCD(got)
					c.Violation("foreign_fork_config", fmt.Sprintf("after a restart (%s) GetConfigData(%d, %s) returned the config of %v, expected %v (empty = genesis)",
						stage, e, tg.name, ex["returned_announced_by"], want), x.wit(ex))
					return false
				}
				c.Count("restart_config_correct", 1)
				if len(want) > 0 {
					c.Count("restart_config_of_own_chain_announcer", 1)
					if w.otherForkAnnounces(tg.from, e, false) {
						c.Count("restart_config_correct_with_competing_fork_announcement", 1)
					}
				}
			}
		}
	}
	return true
}

// runC26Restart: imports (reopen sweeps at random points), then finalisations (reopen sweep before and after each).
func runC26Restart(c *vcommon.Case, spec *c26Spec, picks []int, everyImport bool) {
	g := newC26Guard(c, spec)
	w, closeFn, err := newC26World(spec)
	if err != nil {
		c.Inconclusive("cannot build world: " + err.Error())
		return
	}
	defer closeFn()
	defer verifFindAncestorBudget.Store(0)
	db, isDB := w.es.baseState.db.(database.Database)
	if !isDB {
		c.Inconclusive("the epoch state's base database is not a database.Database")
		return
	}
	x := &c26Restart{c: c, g: g, w: w, spec: spec, db: db}
	g.base = func() map[string]any { return x.wit(nil) }
	r := c.R.Fork()
	for i := range spec.Blocks {
		ok, err := w.importBlock(g, spec, i)
		if err != nil {
			c.Inconclusive("import: " + err.Error())
			return
		}
		if !ok {
			return
		}
		sb := spec.Blocks[i]
		x.log = append(x.log, fmt.Sprintf("import b%d (parent b%d, slot %d, epoch %d, epoch data %v, config %v)", i+1, sb.Parent+1, sb.Slot, w.epochOf(i+1), sb.ED, sb.CD))
		last := i == len(spec.Blocks)-1
		if last {
			if err = w.addLoose(spec); err != nil {
				c.Inconclusive("loose headers: " + err.Error())
				return
			}
		}
		if last || everyImport || (sb.ED || sb.CD) && r.Chance(1, 3) {
			if !x.reopenSweep(fmt.Sprintf("after the import of b%d", i+1)) {
				return
			}
			if !last {
				c.Count("restart_reopens_between_imports", 1)
			}
		}
	}
	if w.forks() > 0 {
		c.Count("restart_trees_with_forks", 1)
	}

	rounds := len(picks)
	if len(spec.Finalise) > 0 {
		rounds = len(spec.Finalise)
	}
	for round := 0; round < rounds; round++ {
		f := -1
		if len(spec.Finalise) > 0 {
			f = spec.Finalise[round] + 1
		} else {
			var cands []int
			for i := range w.tree.blocks {
				if i != x.head && w.tree.isAncestorOrEq(x.head, i) {
					cands = append(cands, i)
				}
			}
			if len(cands) == 0 {
				break
			}
			f = cands[picks[round]%len(cands)]
		}
		fb := w.tree.blocks[f]
		var serr, e1, e2 error
		if !g.do(fmt.Sprintf("SetFinalisedHash(b%d)", f), func() string {
			serr = w.bs.SetFinalisedHash(fb.hash, uint64(round+1), 0)
			return c26Outcome(serr)
		}) {
			return
		}
		if serr != nil {
			c.Inconclusive(fmt.Sprintf("SetFinalisedHash(b%d) failed: %v", f, serr))
			return
		}
		if !g.do(fmt.Sprintf("FinalizeBABENextEpochData(b%d)", f), func() string {
			e1 = w.es.FinalizeBABENextEpochData(fb.header)
			return c26Outcome(e1)
		}) {
			return
		}
		if !g.do(fmt.Sprintf("FinalizeBABENextConfigData(b%d)", f), func() string {
			e2 = w.es.FinalizeBABENextConfigData(fb.header)
			return c26Outcome(e2)
		}) {
			return
		}
		x.log = append(x.log, fmt.Sprintf("finalise b%d (#%d, epoch %d): FinalizeBABENextEpochData err=%v FinalizeBABENextConfigData err=%v",
			f, fb.number, w.epochOf(f), e1, e2))
		c.Count("restart_finalisations", 1)
		if e1 != nil {
			c.Count("restart_finalize_next_epoch_data_errors", 1)
		}
		x.head = f
		if !x.reopenSweep(fmt.Sprintf("after the finalisation of b%d", f)) {
			return
		}
	}
	c.Count("restart_cases_completed", 1)
	if w.forks() > 0 {
		c.Distinct(fmt.Sprint("restart|", w.tree.shape(), "|", w.annPattern(), "|", picks, spec.Finalise, x.nrs))
	}
	c.Sample(map[string]any{"tree": w.tree.describe(), "epoch_length": w.L, "steps": x.log, "operations": g.nops})
}

func c26RestartCorpus() []*c26Spec {
	var out []*c26Spec
	out = append(out, c26FixedCorpus()...)
	out = append(out, c26FinalisedCorpus()...)
	for _, s := range c26SeqCorpus() {
		cp := *s
		cp.ImportFirst = 0
		out = append(out, &cp)
	}
	// two-digit epochs: a chain with one block per epoch up to epoch 11 (announcements for epochs 1..12 are
	// unfinalised at the same time, finality lags), then the first blocks are finalised. The database keys of the
	// announcements are "<prefix><epoch>:<hash>" in decimal: the keys of epoch 1 are a string prefix of those of
	// epochs 10..19.
	long := &c26Spec{L: 2}
	for i := 0; i < 12; i++ {
		long.Blocks = append(long.Blocks, c26BlockSpec{Parent: i - 1, Slot: 100 + 2*uint64(i), ED: true, CD: i%3 == 0, Primary: true})
	}
	long.Finalise = []int{0, 1}
	out = append(out, long)
	// the same trunk (epochs 0..8), then two forks: A = b10 (epoch 9), b11 (epoch 10); B = b12 (child of b9, epoch 9),
	// b13 (epoch 10); both forks announce epochs 10 and 11
	long2 := &c26Spec{L: 2}
	for i := 0; i < 11; i++ {
		long2.Blocks = append(long2.Blocks, c26BlockSpec{Parent: i - 1, Slot: 300 + 2*uint64(i), ED: true, CD: i == 9, Primary: true})
	}
	long2.Blocks = append(long2.Blocks, c26BlockSpec{Parent: 8, Slot: 300 + 2*9 + 1, ED: true, CD: true, Primary: true})
	long2.Blocks = append(long2.Blocks, c26BlockSpec{Parent: 11, Slot: 300 + 2*10 + 1, ED: true, Primary: true})
	long2.Finalise = []int{0}
	out = append(out, long2)
	return out
}

func registerC26Restart(r *vcommon.Run) {
	r.Floor("restart_reopens", 600)
	r.Floor("restart_reopens_between_imports", 150)
	r.Floor("restart_reopens_after_finalisation", 100)
	r.Floor("restart_epoch_data_correct", 8000)
	r.Floor("restart_epoch_data_correct_with_competing_fork_announcement", 2000)
	r.Floor("restart_epoch_data_correct_after_finalisation", 1000)
	r.Floor("restart_epoch_data_miss_other_fork_announced", 1000)
	r.Floor("restart_config_of_own_chain_announcer", 3000)
	r.Floor("restart_config_correct_with_competing_fork_announcement", 1000)
	r.Floor("restart_lookups_from_unimported_header", 100)
	r.Floor("restart_restored_epoch_data_entries", 2000)
	r.Floor("restart_restored_config_entries", 800)
	r.Floor("restart_trees_with_forks", 100)

	corpus := c26RestartCorpus()
	r.Fixed("restart_corpus", len(corpus), func(c *vcommon.Case) { runC26Restart(c, corpus[c.Idx], nil, true) })
	r.Cases("restart_tree", r.Scale(200), func(c *vcommon.Case) {
		switch c.Idx % 3 {
		case 0:
			spec := genC26Spec(c, true)
			picks := []int{c.R.Intn(1000)}
			if c.R.Bool() {
				picks = append(picks, c.R.Intn(1000))
			}
			runC26Restart(c, spec, picks, false)
		case 1:
			runC26Restart(c, genC26FanSpec(c), nil, false)
		default:
			runC26Restart(c, genC26Spec(c, false), nil, c.R.Chance(1, 4))
		}
	})
}
