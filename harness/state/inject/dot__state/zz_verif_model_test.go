//go:build verif

package state

import (
	"encoding/binary"
	"fmt"
	"sort"
	"strings"
	"time"

	"github.com/ChainSafe/gossamer/dot/telemetry"
	"github.com/ChainSafe/gossamer/dot/types"
	"github.com/ChainSafe/gossamer/internal/database"
	"github.com/ChainSafe/gossamer/lib/common"
	"github.com/ChainSafe/gossamer/pkg/scale"
	"github.com/ChainSafe/gossamer/zz_verif/vcommon"
)

// ---------------------------------------------------------------------------
// Reference "Tree" model: explicit parent links, nothing borrowed from lib/blocktree.
// ---------------------------------------------------------------------------

type vBlock struct {
	idx      int
	parent   int // -1 for genesis
	number   uint
	slot     uint64
	header   *types.Header
	hash     common.Hash
	root     common.Hash // state root (distinct per block)
	children []int
	added    bool // accepted by BlockState.AddBlock
	// C26 announcements carried by this block (nil = none)
	epochData  *types.NextEpochData
	configData *types.NextConfigDataV1
}

type vTree struct {
	blocks []*vBlock
	byHash map[common.Hash]int
}

func newVTree() *vTree { return &vTree{byHash: map[common.Hash]int{}} }

func (t *vTree) add(b *vBlock) int {
	b.idx = len(t.blocks)
	t.blocks = append(t.blocks, b)
	t.byHash[b.hash] = b.idx
	if b.parent >= 0 {
		p := t.blocks[b.parent]
		p.children = append(p.children, b.idx)
	}
	return b.idx
}

// isAncestorOrEq reports whether a is b or an ancestor of b (walks b's parent links).
func (t *vTree) isAncestorOrEq(a, b int) bool {
	for x := b; x >= 0; x = t.blocks[x].parent {
		if x == a {
			return true
		}
	}
	return false
}

// chain returns genesis..b following parent links.
func (t *vTree) chain(b int) []int {
	var rev []int
	for x := b; x >= 0; x = t.blocks[x].parent {
		rev = append(rev, x)
	}
	for i, j := 0, len(rev)-1; i < j; i, j = i+1, j-1 {
		rev[i], rev[j] = rev[j], rev[i]
	}
	return rev
}

func (t *vTree) depth() uint {
	var d uint
	for _, b := range t.blocks {
		if b.number > d {
			d = b.number
		}
	}
	return d
}

// shape is a structural fingerprint: parent index list.
func (t *vTree) shape() string {
	var sb strings.Builder
	for _, b := range t.blocks {
		fmt.Fprintf(&sb, "%d,", b.parent)
	}
	return sb.String()
}

func (t *vTree) describe() []string {
	out := make([]string, len(t.blocks))
	for i, b := range t.blocks {
		s := fmt.Sprintf("b%d parent=b%d #%d slot=%d %s", i, b.parent, b.number, b.slot, b.hash.Short())
		if b.epochData != nil {
			s += fmt.Sprintf(" announces-epoch-data(rand=%d)", b.epochData.Randomness[0])
		}
		if b.configData != nil {
			s += fmt.Sprintf(" announces-config(c1=%d)", b.configData.C1)
		}
		out[i] = s
	}
	return out
}

// ---------------------------------------------------------------------------
// construction helpers (real gossamer objects)
// ---------------------------------------------------------------------------

func vNewDB() (database.Database, error) {
	return database.NewPebble("", true)
}

var vBaseTime = time.Unix(1_700_000_000, 0)

func vHashOf(tag string, n uint64) common.Hash {
	buf := make([]byte, 8)
	binary.LittleEndian.PutUint64(buf, n)
	return common.Hash(vcommon.Blake256(append([]byte("verif:"+tag+":"), buf...)))
}

// vHeader builds a header with a valid BABE pre-runtime digest (slot) and optional
// BABE consensus digests carrying the announcements.
func vHeader(parent common.Hash, number uint, slot uint64, stateRoot, extRoot common.Hash, primary bool,
	ed *types.NextEpochData, cd *types.NextConfigDataV1) (*types.Header, []types.BabeConsensusDigest, error) {
	digest := types.NewDigest()
	var pre *types.PreRuntimeDigest
	var err error
	if primary {
		pre, err = types.NewBabePrimaryPreDigest(0, slot, [32]byte{}, [64]byte{}).ToPreRuntimeDigest()
	} else {
		pre, err = types.NewBabeSecondaryPlainPreDigest(0, slot).ToPreRuntimeDigest()
	}
	if err != nil {
		return nil, nil, err
	}
	if err = digest.Add(*pre); err != nil {
		return nil, nil, err
	}
	var cds []types.BabeConsensusDigest
	addCons := func(v any) error {
		d := types.NewBabeConsensusDigest()
		if err := d.SetValue(v); err != nil {
			return err
		}
		enc, err := scale.Marshal(d)
		if err != nil {
			return err
		}
		cds = append(cds, d)
		return digest.Add(types.ConsensusDigest{ConsensusEngineID: types.BabeEngineID, Data: enc})
	}
	if ed != nil {
		if err = addCons(*ed); err != nil {
			return nil, nil, err
		}
	}
	if cd != nil {
		v := types.NewVersionedNextConfigData()
		if err = v.SetValue(*cd); err != nil {
			return nil, nil, err
		}
		if err = addCons(v); err != nil {
			return nil, nil, err
		}
	}
	h := types.NewHeader(parent, stateRoot, extRoot, number, digest)
	return h, cds, nil
}

func vNewBlockState(db database.Database, tries *Tries, genesis *types.Header) (*BlockState, error) {
	return NewBlockStateFromGenesis(db, tries, genesis, telemetry.NewNoopMailer())
}

func vSortedHashes(hs []common.Hash) []string {
	out := make([]string, len(hs))
	for i, h := range hs {
		out[i] = h.String()
	}
	sort.Strings(out)
	return out
}

func vRecoverBudget(fn func()) (exceeded bool, steps int64) {
	defer func() {
		if p := recover(); p != nil {
			if e, ok := p.(verifStepBudgetExceeded); ok {
				exceeded, steps = true, e.steps
				return
			}
			panic(p)
		}
	}()
	fn()
	return false, 0
}

var _ = vcommon.Hex
