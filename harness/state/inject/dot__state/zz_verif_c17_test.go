//go:build verif

package state

import (
	"bytes"
	"encoding/binary"
	"fmt"
	"sort"
	"strings"
	"testing"
	"time"

	"github.com/ChainSafe/gossamer/dot/telemetry"
	"github.com/ChainSafe/gossamer/dot/types"
	"github.com/ChainSafe/gossamer/internal/database"
	"github.com/ChainSafe/gossamer/lib/common"
	inmemory_trie "github.com/ChainSafe/gossamer/pkg/trie/inmemory"
	"github.com/ChainSafe/gossamer/zz_verif/vcommon"
)

// ---------------------------------------------------------------------------
// C17: finality is monotone and fully discards abandoned forks.
//
// Model: vTree (explicit parent links) + a status per block:
//   finalised  on the finalised chain (genesis .. head)
//   live       proper descendant of the finalised head
//   abandoned  was live, then a finalisation chose a target it is neither an ancestor nor a descendant of
//   rejected   BlockState.AddBlock refused it (parent abandoned)
// Request SetFinalisedHash(target):
//   target live                 => must succeed; head := target; blocks on the path become finalised; every other
//                                  live block that does not descend from target becomes abandoned
//   target == head              => either outcome tolerated (head does not move); on error nothing may change
//   anything else (stale ancestor, abandoned block, unknown hash, never-added header)
//                               => must fail and a full snapshot of the observables must be unchanged
// After every success: each number 0..head.number resolves to the finalised-chain block through the database
// (raw key, GetHashByNumber, GetBlockByNumber, and a freshly constructed BlockState over the same database);
// no abandoned block is in unfinalisedBlocks / the block tree, none has its (distinct) state root in Tries.
// ---------------------------------------------------------------------------

const (
	stFinalised = iota
	stLive
	stAbandoned
	stRejected
)

type c17Op struct {
	Add    bool   `json:"add,omitempty"`
	Parent int    `json:"parent,omitempty"` // add: model index of the parent
	Fin    bool   `json:"fin,omitempty"`
	Target int    `json:"target,omitempty"` // fin: model index; -2 = hash unknown to everybody; -3 = header never added (child of head)
	Note   string `json:"note,omitempty"`
}

type c17World struct {
	db     database.Database
	bs     *BlockState
	tree   *vTree
	status []int
	head   int
	round  uint64
	setID  uint64
	salt   uint64
	log    []string
	// never-added headers created for requests
	ghosts int
	// last SetFinalisedHash request and its outcome (read by the notification monitor, zz_verif_c17_notify_test.go)
	lastErr              error
	lastHash             common.Hash
	lastRound, lastSetID uint64
}

func newC17World(salt uint64) (*c17World, error) {
	db, err := vNewDB()
	if err != nil {
		return nil, err
	}
	tries := NewTries()
	gtr := inmemory_trie.NewEmptyTrie()
	if err := gtr.Put([]byte("verif-genesis"), []byte{byte(salt), byte(salt >> 8), 1}); err != nil {
		return nil, err
	}
	groot := gtr.MustHash()
	genesis := types.NewHeader(common.Hash{}, groot, common.Hash{}, 0, types.NewDigest())
	bs, err := vNewBlockState(db, tries, genesis)
	if err != nil {
		_ = db.Close()
		return nil, err
	}
	tries.SetTrie(gtr)
	w := &c17World{db: db, bs: bs, tree: newVTree(), salt: salt}
	w.tree.add(&vBlock{parent: -1, number: 0, header: genesis, hash: genesis.Hash(), root: groot, added: true})
	w.status = []int{stFinalised}
	return w, nil
}

// makeBlock creates block + distinct state trie for a child of model block p (not yet added anywhere).
func (w *c17World) makeBlock(p int, tag uint64) (*types.Block, *inmemory_trie.InMemoryTrie, error) {
	pb := w.tree.blocks[p]
	tr := inmemory_trie.NewEmptyTrie()
	val := make([]byte, 16)
	binary.LittleEndian.PutUint64(val, tag)
	binary.LittleEndian.PutUint64(val[8:], w.salt)
	if err := tr.Put([]byte("verif-block"), val); err != nil {
		return nil, nil, err
	}
	root := tr.MustHash()
	slot := 1000 + uint64(pb.number)*3 + tag%3
	h, _, err := vHeader(pb.hash, pb.number+1, slot, root, vHashOf("c17-ext", tag), tag%4 != 0, nil, nil)
	if err != nil {
		return nil, nil, err
	}
	body := types.NewBody([]types.Extrinsic{[]byte{byte(tag), byte(tag >> 8), 0xEE}})
	return &types.Block{Header: *h, Body: *body}, tr, nil
}

func (w *c17World) logf(f string, a ...any) { w.log = append(w.log, fmt.Sprintf(f, a...)) }

func (w *c17World) witness(extra map[string]any) map[string]any {
	st := make([]string, len(w.tree.blocks))
	names := []string{"finalised", "live", "abandoned", "rejected"}
	for i, b := range w.tree.blocks {
		st[i] = fmt.Sprintf("b%d parent=b%d #%d %s %s root=%s", i, b.parent, b.number, names[w.status[i]], b.hash.Short(), b.root.Short())
	}
	m := map[string]any{"ops": w.log, "blocks": st, "head": fmt.Sprintf("b%d", w.head), "salt": w.salt}
	for k, v := range extra {
		m[k] = v
	}
	return m
}

// snapshot collects every observable the property talks about (and the whole database).
func (w *c17World) snapshot() map[string]string {
	s := map[string]string{}
	it, err := w.db.NewIterator()
	if err == nil {
		for it.First(); it.Valid(); it.Next() {
			s["db:"+vcommon.Hex(it.Key())] = vcommon.Hex(it.Value())
		}
		it.Release()
	} else {
		s["db-iterator-error"] = err.Error()
	}
	bs := w.bs
	bs.unfinalisedBlocks.mutex.RLock()
	var unf []common.Hash
	for h := range bs.unfinalisedBlocks.mapping {
		unf = append(unf, h)
	}
	bs.unfinalisedBlocks.mutex.RUnlock()
	s["unfinalisedBlocks"] = strings.Join(vSortedHashes(unf), ",")
	bs.tries.mapMutex.RLock()
	var roots []common.Hash
	for h := range bs.tries.rootToTrie {
		roots = append(roots, h)
	}
	bs.tries.mapMutex.RUnlock()
	s["tries"] = strings.Join(vSortedHashes(roots), ",")
	s["blocktree.blocks"] = strings.Join(vSortedHashes(bs.bt.GetAllBlocks()), ",")
	s["blocktree.leaves"] = strings.Join(vSortedHashes(bs.bt.Leaves()), ",")
	s["best"] = bs.BestBlockHash().String()
	s["lastFinalised"] = fmt.Sprintf("%s round=%d set=%d", bs.lastFinalised, bs.lastRound, bs.lastSetID)
	hh, err := bs.GetHighestFinalisedHash()
	s["GetHighestFinalisedHash"] = fmt.Sprintf("%s err=%v", hh, err)
	hr, hs, err := bs.GetHighestRoundAndSetID()
	s["GetHighestRoundAndSetID"] = fmt.Sprintf("%d/%d err=%v", hr, hs, err)
	for i, b := range w.tree.blocks {
		has, err := bs.HasHeader(b.hash)
		s[fmt.Sprintf("HasHeader(b%d)", i)] = fmt.Sprintf("%v err=%v", has, err != nil)
		_, err = bs.GetHeader(b.hash)
		s[fmt.Sprintf("GetHeader(b%d)", i)] = fmt.Sprintf("ok=%v", err == nil)
		_, err = bs.GetBlockByHash(b.hash)
		s[fmt.Sprintf("GetBlockByHash(b%d)", i)] = fmt.Sprintf("ok=%v", err == nil)
		s[fmt.Sprintf("tries.get(b%d)", i)] = fmt.Sprintf("%v", bs.tries.get(b.root) != nil)
	}
	for n := uint(0); n <= w.tree.depth()+1; n++ {
		h, err := bs.GetHashByNumber(n)
		s[fmt.Sprintf("GetHashByNumber(%d)", n)] = fmt.Sprintf("%s ok=%v", h, err == nil)
	}
	return s
}

func snapshotDiff(a, b map[string]string) []string {
	var d []string
	for k, v := range a {
		if bv, ok := b[k]; !ok {
			d = append(d, k+": removed (was "+trunc(v)+")")
		} else if bv != v {
			d = append(d, k+": "+trunc(v)+" -> "+trunc(bv))
		}
	}
	for k, v := range b {
		if _, ok := a[k]; !ok {
			d = append(d, k+": added "+trunc(v))
		}
	}
	sort.Strings(d)
	if len(d) > 12 {
		d = append(d[:12], fmt.Sprintf("... %d more", len(d)-12))
	}
	return d
}

func trunc(s string) string {
	if len(s) > 150 {
		return s[:150] + "..."
	}
	return s
}

// add performs one AddBlock op; returns false when the case must stop.
func (w *c17World) add(c *vcommon.Case, p int) bool {
	tag := uint64(len(w.tree.blocks))
	blk, tr, err := w.makeBlock(p, tag)
	if err != nil {
		c.Inconclusive("cannot build block: " + err.Error())
		return false
	}
	pst := w.status[p]
	err = w.bs.AddBlockWithArrivalTime(blk, vBaseTime.Add(time.Duration(tag)*time.Second))
	idx := w.tree.add(&vBlock{parent: p, number: w.tree.blocks[p].number + 1, header: &blk.Header, hash: blk.Header.Hash(),
		root: blk.Header.StateRoot})
	w.logf("add b%d on b%d -> err=%v", idx, p, err)
	switch pst {
	case stLive, stFinalised:
		if p != w.head && pst == stFinalised {
			// parent below the finalised head: not generated
			w.status = append(w.status, stRejected)
			return true
		}
		if err != nil {
			c.Inconclusive(fmt.Sprintf("AddBlock on a live parent failed: %v", err))
			return false
		}
		w.tree.blocks[idx].added = true
		w.status = append(w.status, stLive)
		w.bs.tries.SetTrie(tr) // what storage import does for the block's post-state
		c.Count("blocks_added", 1)
	case stAbandoned, stRejected:
		c.Eval(1)
		c.Count("add_on_abandoned_fork_attempts", 1)
		w.status = append(w.status, stRejected)
		if err == nil || w.bs.unfinalisedBlocks.getBlock(blk.Header.Hash()) != nil {
			c.Violation("block_added_on_abandoned_fork", fmt.Sprintf("AddBlock(b%d) on abandoned parent b%d: err=%v, block retrievable as unfinalised=%v",
				idx, p, err, w.bs.unfinalisedBlocks.getBlock(blk.Header.Hash()) != nil), w.witness(nil))
			return false
		}
	}
	return true
}

// finalise performs one SetFinalisedHash op and all checks; returns false when the case must stop.
func (w *c17World) finalise(c *vcommon.Case, target int, note string) bool {
	var hash common.Hash
	kind := ""
	switch {
	case target == -2:
		w.ghosts++
		hash = vHashOf("c17-unknown", w.salt<<8+uint64(w.ghosts))
		kind = "unknown"
	case target == -3:
		w.ghosts++
		blk, _, err := w.makeBlock(w.head, 1<<32+uint64(w.ghosts))
		if err != nil {
			c.Inconclusive(err.Error())
			return false
		}
		hash = blk.Header.Hash()
		kind = "never_added"
	default:
		hash = w.tree.blocks[target].hash
		switch w.status[target] {
		case stLive:
			kind = "descendant"
		case stFinalised:
			kind = "stale"
			if target == w.head {
				kind = "head_again"
			}
		case stAbandoned:
			kind = "abandoned"
		case stRejected:
			kind = "rejected_block"
		}
	}
	w.round++
	if c.R.Chance(1, 4) {
		w.setID++
	}
	round, setID := w.round, w.setID

	var before map[string]string
	if kind != "descendant" {
		before = w.snapshot()
	}
	oldHead := w.head
	err := w.bs.SetFinalisedHash(hash, round, setID)
	w.lastErr, w.lastHash, w.lastRound, w.lastSetID = err, hash, round, setID
	w.logf("finalise %s b%d (%s) round=%d set=%d -> err=%v %s", kind, target, hash.Short(), round, setID, err, note)
	c.Eval(1)
	c.Count("fin_"+kind, 1)

	if kind != "descendant" && (kind != "head_again" || err != nil) {
		// must fail and change nothing
		if err == nil {
			c.Violation("invalid_finalisation_accepted", fmt.Sprintf("SetFinalisedHash(%s target b%d) succeeded; head was b%d", kind, target, oldHead),
				w.witness(map[string]any{"kind": kind, "target": target}))
			return false
		}
		after := w.snapshot()
		c.Eval(len(after))
		if d := snapshotDiff(before, after); len(d) > 0 {
			c.Violation("failed_finalisation_changed_state", fmt.Sprintf("SetFinalisedHash(%s target b%d) returned %v but %d observables changed",
				kind, target, err, len(d)), w.witness(map[string]any{"kind": kind, "target": target, "changed": d}))
			return false
		}
		c.Count("rejected_unchanged_snapshots", 1)
		return true
	}
	if err != nil {
		c.Violation("valid_finalisation_rejected", fmt.Sprintf("SetFinalisedHash(descendant b%d of head b%d) failed: %v", target, oldHead, err),
			w.witness(map[string]any{"target": target}))
		return false
	}

	// ---- success: update the model
	if kind == "descendant" {
		if w.tree.blocks[target].number-w.tree.blocks[oldHead].number >= 2 {
			c.Count("fin_skipping_blocks", 1)
		}
		newlyAbandoned := map[int]bool{}
		for i := range w.tree.blocks {
			if w.status[i] != stLive {
				continue
			}
			switch {
			case w.tree.isAncestorOrEq(i, target):
				w.status[i] = stFinalised
			case w.tree.isAncestorOrEq(target, i):
				// stays live
			default:
				w.status[i] = stAbandoned
				newlyAbandoned[i] = true
			}
		}
		w.head = target
		// structural trigger of the sibling-skipping prune defect: a node with >= 2 abandoned children
		for _, b := range w.tree.blocks {
			n := 0
			for _, ch := range b.children {
				if newlyAbandoned[ch] {
					n++
				}
			}
			if n >= 2 {
				c.Count("nodes_with_2plus_abandoned_children", 1)
			}
		}
		c.Count("blocks_abandoned", len(newlyAbandoned))
	}
	return w.checkAfterSuccess(c, round, setID)
}

func (w *c17World) checkAfterSuccess(c *vcommon.Case, round, setID uint64) bool {
	bs := w.bs
	hb := w.tree.blocks[w.head]
	fail := func(class, msg string, extra map[string]any) bool {
		c.Violation(class, msg, w.witness(extra))
		return false
	}
	// head moved exactly to the target
	c.Eval(4)
	if h, err := bs.GetHighestFinalisedHash(); err != nil || h != hb.hash {
		return fail("head_not_target", fmt.Sprintf("GetHighestFinalisedHash=%s err=%v, want b%d %s", h.Short(), err, w.head, hb.hash.Short()), nil)
	}
	if hd, err := bs.GetHighestFinalisedHeader(); err != nil || hd.Hash() != hb.hash {
		return fail("head_not_target", fmt.Sprintf("GetHighestFinalisedHeader err=%v", err), nil)
	}
	if h, err := bs.GetFinalisedHash(round, setID); err != nil || h != hb.hash {
		return fail("head_not_target", fmt.Sprintf("GetFinalisedHash(%d,%d)=%s err=%v", round, setID, h.Short(), err), nil)
	}
	if bs.lastFinalised != hb.hash {
		return fail("head_not_target", "lastFinalised field differs from the target", nil)
	}

	// finalised chain readable by number from persistent storage
	chain := w.tree.chain(w.head)
	fresh, ferr := NewBlockState(w.db, NewTries(), telemetry.NewNoopMailer())
	if ferr != nil {
		return fail("finalised_chain_not_persisted", fmt.Sprintf("a new BlockState cannot be opened over the database: %v", ferr), nil)
	}
	c.Count("restart_checks", 1)
	for n, x := range chain {
		b := w.tree.blocks[x]
		c.Eval(5)
		c.Count("finalised_numbers_checked", 1)
		raw, err := bs.db.Get(headerHashKey(uint64(n)))
		if err != nil || !bytes.Equal(raw, b.hash[:]) {
			return fail("finalised_chain_not_persisted", fmt.Sprintf("database number->hash entry for #%d is %s err=%v, want b%d %s",
				n, vcommon.Hex(raw), err, x, b.hash.Short()), map[string]any{"number": n})
		}
		if h, err := bs.GetHashByNumber(uint(n)); err != nil || h != b.hash {
			return fail("finalised_chain_lookup", fmt.Sprintf("GetHashByNumber(%d)=%s err=%v, want b%d %s", n, h.Short(), err, x, b.hash.Short()),
				map[string]any{"number": n})
		}
		if blk, err := bs.GetBlockByNumber(uint(n)); err != nil || blk.Header.Hash() != b.hash {
			return fail("finalised_chain_lookup", fmt.Sprintf("GetBlockByNumber(%d) err=%v", n, err), map[string]any{"number": n})
		}
		if in, err := bs.HasHeaderInDatabase(b.hash); err != nil || !in {
			return fail("finalised_chain_not_persisted", fmt.Sprintf("header of finalised b%d (#%d) is not in the database (err=%v)", x, n, err),
				map[string]any{"number": n})
		}
		if h, err := fresh.GetHashByNumber(uint(n)); err != nil || h != b.hash {
			return fail("finalised_chain_not_persisted", fmt.Sprintf("after reopening the database GetHashByNumber(%d)=%s err=%v, want b%d %s",
				n, h.Short(), err, x, b.hash.Short()), map[string]any{"number": n})
		}
		if hd, err := fresh.GetHeader(b.hash); err != nil || hd.Hash() != b.hash {
			return fail("finalised_chain_not_persisted", fmt.Sprintf("after reopening the database GetHeader(b%d) err=%v", x, err), map[string]any{"number": n})
		}
	}

	// abandoned forks are gone
	btBlocks := map[common.Hash]bool{}
	for _, h := range bs.bt.GetAllBlocks() {
		btBlocks[h] = true
	}
	modelTries := 0
	liveMissing := 0
	for i, b := range w.tree.blocks {
		switch w.status[i] {
		case stAbandoned:
			c.Eval(3)
			c.Count("abandoned_blocks_checked", 1)
			inMap := bs.unfinalisedBlocks.getBlock(b.hash) != nil
			if inMap || btBlocks[b.hash] {
				_, gerr := bs.GetHeader(b.hash)
				return fail("abandoned_block_retrievable", fmt.Sprintf("abandoned b%d (#%d) is still an unfinalised block: in unfinalisedBlocks=%v in blocktree=%v GetHeader err=%v",
					i, b.number, inMap, btBlocks[b.hash], gerr), map[string]any{"block": i})
			}
			if bs.tries.get(b.root) != nil {
				return fail("abandoned_trie_kept", fmt.Sprintf("state trie %s of abandoned b%d (#%d) is still in Tries (len %d)",
					b.root.Short(), i, b.number, bs.tries.len()), map[string]any{"block": i})
			}
			if has, _ := bs.HasHeader(b.hash); has {
				c.Count("abandoned_block_in_database", 1) // not what the property forbids; reported, never expected
			}
		case stLive:
			modelTries++
			if bs.unfinalisedBlocks.getBlock(b.hash) == nil || bs.tries.get(b.root) == nil {
				liveMissing++
			}
		}
	}
	modelTries++ // the finalised head keeps its trie
	// Not asserted by the property (counters only): live blocks stay available, Tries holds exactly head + live
	c.Count("live_blocks_missing", liveMissing)
	if bs.tries.len() == modelTries {
		c.Count("tries_len_equals_head_plus_live", 1)
	} else {
		c.Count("tries_len_differs_from_head_plus_live", 1)
	}
	return true
}

func (w *c17World) indexesWith(st int) []int {
	var out []int
	for i, s := range w.status {
		if s == st {
			out = append(out, i)
		}
	}
	return out
}

// c17Hooks lets a second monitor ride on the same histories: setup runs on the fresh world, after runs after every
// operation that passed the C17 checks (fin = it was a SetFinalisedHash request); after returning false stops the case.
type c17Hooks struct {
	prefix string
	setup  func(w *c17World)
	after  func(w *c17World, fin bool) bool
}

func runC17Script(c *vcommon.Case, script []c17Op) { runC17ScriptHooked(c, script, nil) }

func runC17ScriptHooked(c *vcommon.Case, script []c17Op, hk *c17Hooks) {
	w, err := newC17World(uint64(c.Idx) + 1)
	if err != nil {
		c.Inconclusive("cannot build world: " + err.Error())
		return
	}
	defer w.db.Close()
	prefix := "script:"
	if hk != nil {
		prefix = hk.prefix + prefix
		hk.setup(w)
	}
	for _, op := range script {
		if op.Add {
			if !w.add(c, op.Parent) {
				return
			}
		} else if !w.finalise(c, op.Target, op.Note) {
			return
		}
		if hk != nil && !hk.after(w, !op.Add) {
			return
		}
	}
	c.Distinct(prefix + w.tree.shape())
}

func runC17Random(c *vcommon.Case) { runC17RandomHooked(c, nil) }

func runC17RandomHooked(c *vcommon.Case, hk *c17Hooks) {
	r := c.R
	w, err := newC17World(r.Uint64()>>16 + 1)
	if err != nil {
		c.Inconclusive("cannot build world: " + err.Error())
		return
	}
	defer w.db.Close()
	prefix := ""
	if hk != nil {
		prefix = hk.prefix
		hk.setup(w)
	}
	maxBlocks := r.Range(6, 25)
	nFin := r.Range(3, 9)
	burst := 0 // remaining adds before the next finalisation request
	fins := 0
	kinds := ""
	for steps := 0; steps < 80 && fins < nFin; steps++ {
		added := len(w.tree.blocks) - 1
		if burst == 0 && added < maxBlocks && r.Chance(2, 3) {
			burst = r.Range(1, 7)
		}
		if burst > 0 && added < maxBlocks {
			burst--
			live := append([]int{w.head}, w.indexesWith(stLive)...)
			aband := append(w.indexesWith(stAbandoned), w.indexesWith(stRejected)...)
			var p int
			switch {
			case len(aband) > 0 && r.Chance(1, 10):
				p = vcommon.Pick(r, aband)
			case r.Chance(1, 2):
				p = live[len(live)-1] // extend the most recently added live block (chains)
			default:
				p = vcommon.Pick(r, live)
			}
			if !w.add(c, p) {
				return
			}
			if hk != nil && !hk.after(w, false) {
				return
			}
			continue
		}
		burst = 0
		fins++
		live := w.indexesWith(stLive)
		var stale []int
		for _, x := range w.indexesWith(stFinalised) {
			if x != w.head {
				stale = append(stale, x)
			}
		}
		aband := w.indexesWith(stAbandoned)
		// weighted choice among the request kinds that are possible in the current state
		type opt struct{ w, kind int }
		opts := []opt{{8, 1}, {8, 4}, {6, 5}}
		if len(live) > 0 {
			opts = append(opts, opt{48, 0})
		}
		if len(stale) > 0 {
			opts = append(opts, opt{15, 2})
		}
		if len(aband) > 0 {
			opts = append(opts, opt{15, 3})
		}
		tot := 0
		for _, o := range opts {
			tot += o.w
		}
		k, kind := r.Intn(tot), 1
		for _, o := range opts {
			if k < o.w {
				kind = o.kind
				break
			}
			k -= o.w
		}
		target := -2
		switch kind {
		case 0:
			target = vcommon.Pick(r, live)
			if r.Chance(1, 3) { // prefer a block that has siblings: something gets abandoned
				for _, x := range r.Perm(len(live)) {
					if len(w.tree.blocks[w.tree.blocks[live[x]].parent].children) > 1 {
						target = live[x]
						break
					}
				}
			}
		case 1:
			target = w.head
		case 2:
			target = vcommon.Pick(r, stale)
		case 3:
			target = vcommon.Pick(r, aband)
		case 4:
			target = -2
		case 5:
			target = -3
		}
		kinds += fmt.Sprint(target, ";")
		if !w.finalise(c, target, "") {
			return
		}
		if hk != nil && !hk.after(w, true) {
			return
		}
	}
	if len(w.indexesWith(stAbandoned)) > 0 {
		c.Distinct(prefix + w.tree.shape() + "|" + kinds)
	}
	c.Sample(map[string]any{"blocks": len(w.tree.blocks), "head": w.head, "abandoned": len(w.indexesWith(stAbandoned)),
		"last_ops": w.log[max(0, len(w.log)-6):]})
}

func c17FixedCorpus() [][]c17Op {
	add := func(p int) c17Op { return c17Op{Add: true, Parent: p} }
	fin := func(t int, note string) c17Op { return c17Op{Fin: true, Target: t, Note: note} }
	return [][]c17Op{
		// 0: minimal witness of the prune defect (lib/blocktree node.prune skipped the sibling after each pruned
		// child): b1 has children b2, b3, b4 (in that order); finalising b4 must discard b2 AND b3.
		{add(0), add(1), add(1), add(1), fin(4, "siblings b2,b3 abandoned")},
		// 1: same one level down inside a pruned subtree: b2 (abandoned) has children b4,b5,b6
		{add(0), add(1), add(1), add(2), add(2), add(2), add(4), fin(3, "subtree of b2 abandoned")},
		// 2: stale ancestors, genesis, head again
		{add(0), add(1), add(2), fin(3, "skip two"), fin(1, "stale"), fin(0, "genesis is stale"), fin(3, "head again"), fin(2, "stale"), add(3), fin(4, "")},
		// 3: abandoned sibling as target, adding on an abandoned fork, then progress on the surviving fork
		{add(0), add(1), add(1), add(2), add(3), fin(2, ""), fin(3, "abandoned sibling"), fin(5, "abandoned deeper"), add(3), add(5), fin(4, ""),
			fin(3, "abandoned, again")},
		// 4: unknown hash and a header that was never added, before and after the first finalisation
		{add(0), fin(-2, ""), fin(-3, ""), add(1), fin(1, ""), fin(-2, ""), fin(-3, ""), fin(2, "")},
		// 5: forks at every level (two extra siblings each), finalise the tip in one request
		{add(0), add(0), add(0), add(1), add(1), add(1), add(4), add(4), add(4), add(7), add(7), add(7), add(10), fin(13, "deep, all forks abandoned"),
			fin(2, "abandoned"), fin(9, "abandoned")},
		// 6: step-wise finalisation with forks surviving one step and dying the next
		{add(0), add(1), add(1), add(2), add(2), add(3), fin(1, ""), fin(2, "b3,b6 abandoned"), fin(6, "abandoned"), fin(4, "b5 abandoned"), fin(5, "abandoned")},
	}
}

func TestVerifC17(t *testing.T) {
	r := vcommon.Start(t, "C17")
	defer r.Finish()
	r.Floor("fin_descendant", 300)
	r.Floor("fin_stale", 60)
	r.Floor("fin_abandoned", 60)
	r.Floor("fin_unknown", 40)
	r.Floor("fin_never_added", 20)
	r.Floor("fin_head_again", 30)
	r.Floor("fin_skipping_blocks", 60)
	r.Floor("abandoned_blocks_checked", 1000)
	r.Floor("nodes_with_2plus_abandoned_children", 60)
	r.Floor("finalised_numbers_checked", 1000)
	r.Floor("rejected_unchanged_snapshots", 200)

	corpus := c17FixedCorpus()
	r.Fixed("corpus", len(corpus), func(c *vcommon.Case) { runC17Script(c, corpus[c.Idx]) })
	r.Cases("tree", r.Scale(400), func(c *vcommon.Case) { runC17Random(c) })
	c17NotifyGroups(r, corpus)
}
