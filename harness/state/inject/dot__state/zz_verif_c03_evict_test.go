//go:build verif

package state

import (
	"bytes"
	"fmt"
	"testing"

	"github.com/ChainSafe/gossamer/internal/database"
	"github.com/ChainSafe/gossamer/lib/common"
	"github.com/ChainSafe/gossamer/lib/runtime/storage"
	gtrie "github.com/ChainSafe/gossamer/pkg/trie"
	"github.com/ChainSafe/gossamer/zz_verif/vcommon"
)

// ---------------------------------------------------------------------------
// C03 (extra run of the trie engine's check, in-package because Tries.delete is unexported):
// eviction of a SINGLE root from the in-memory Tries while its successors stay live.
//
// Finalisation pruning (block_finalisation.go) calls tries.delete(stateRoot) for pruned / finalised blocks; a later
// TrieState(&root) for that root re-loads the trie from the database (LoadFromDB) next to the in-memory tries of its
// successors, which still share nodes with the evicted object. Whatever is written to the re-loaded successor, the
// persisted states R1, R2, R3 ... and every other live successor must keep showing their own content and root.
//
// Oracle: one vcommon.OrdMap shadow per persisted state / live successor; after EVERY write every persisted state is
// observed through GetStorage (every alphabet key, present and absent), Entries, the cached trie object (when the
// root is cached) and a further TrieState(root) (must not panic, must hash to the root, must start from the shadow);
// every other live successor through TrieEntries + Hash. What a write does to its OWN successor is C02/C08 matter:
// counted and re-synchronised, not asserted.
// ---------------------------------------------------------------------------

type c03State struct {
	id     int
	root   common.Hash
	want   *vcommon.OrdMap
	parent int // id of the state it was forked from, -1 = genesis
}

type c03Fork struct {
	id     int
	from   *c03State
	ts     *storage.TrieState
	want   *vcommon.OrdMap
	hash   common.Hash
	ver    int
	reload bool // obtained by TrieState right after the root had been evicted (LoadFromDB path)
	alive  bool
}

type c03Env struct {
	c      *vcommon.Case
	db     database.Database
	tries  *Tries
	ss     *InmemoryStorageState
	states []*c03State
	forks  []*c03Fork
	keys   [][]byte
	log    []string
	nviol  int
}

func (e *c03Env) logf(f string, a ...any) { e.log = append(e.log, fmt.Sprintf(f, a...)) }

func (e *c03Env) witness(extra map[string]any) map[string]any {
	w := map[string]any{"actions": append([]string{}, e.log...)}
	for k, v := range extra {
		w[k] = v
	}
	return w
}

func (e *c03Env) violation(class, msg string, w map[string]any) {
	e.nviol++
	e.c.Violation(class, msg, w)
}

func c03Short(b []byte) string {
	s := vcommon.Hex(b)
	if len(s) > 22 {
		s = s[:22] + fmt.Sprintf("…[%dB]", len(b))
	}
	return s
}

func c03Diff(got map[string][]byte, m *vcommon.OrdMap) string {
	ks, vs := m.Entries()
	d := ""
	for i, k := range ks {
		v, ok := got[string(k)]
		if !ok {
			d += "missing " + vcommon.Hex(k) + "; "
		} else if !bytes.Equal(v, vs[i]) {
			d += fmt.Sprintf("value at %s = %s want %s; ", vcommon.Hex(k), c03Short(v), c03Short(vs[i]))
		}
	}
	for k := range got {
		if _, ok := m.Get([]byte(k)); !ok {
			d += "extra " + vcommon.Hex([]byte(k)) + "; "
		}
	}
	if len(d) > 500 {
		d = d[:500]
	}
	return d
}

func c03MapOf(got map[string][]byte) *vcommon.OrdMap {
	m := vcommon.NewOrdMap()
	for k, v := range got {
		m.Put([]byte(k), v)
	}
	return m
}

func c03Dump(m *vcommon.OrdMap) map[string]string {
	out := map[string]string{}
	ks, vs := m.Entries()
	for i, k := range ks {
		out[vcommon.Hex(k)] = c03Short(vs[i])
	}
	return out
}

// trieState calls ss.TrieState(root) and turns its panic ("trie does not have expected root") into an error.
func (e *c03Env) trieState(root common.Hash) (ts *storage.TrieState, err error) {
	defer func() {
		if p := recover(); p != nil {
			err = fmt.Errorf("panic: %v", p)
		}
	}()
	return e.ss.TrieState(&root)
}

// evict removes exactly one root from the in-memory Tries (what finalisation pruning does).
func (e *c03Env) evict(s *c03State) {
	was := e.tries.get(s.root) != nil
	e.tries.delete(s.root)
	e.logf("tries.delete(S%d)   (was cached: %v; %d tries stay cached)", s.id, was, e.tries.len())
	if !was {
		e.c.Count("c03evict_evictions_of_uncached_root", 1)
		return
	}
	e.c.Count("c03evict_single_root_evictions", 1)
	liveSucc, cachedChild, cachedParent := false, false, false
	for _, f := range e.forks {
		if f.alive && f.from == s {
			liveSucc = true
		}
	}
	for _, t := range e.states {
		if t.parent == s.id && e.tries.get(t.root) != nil {
			cachedChild = true
		}
		if t.id == s.parent && e.tries.get(t.root) != nil {
			cachedParent = true
		}
	}
	if liveSucc {
		e.c.Count("c03evict_root_evicted_with_live_unstored_successor", 1)
	}
	if cachedChild {
		e.c.Count("c03evict_root_evicted_with_cached_stored_successor", 1)
	}
	if cachedParent {
		e.c.Count("c03evict_successor_evicted_parent_cached", 1)
	}
}

func (e *c03Env) fork(s *c03State) *c03Fork {
	wasCached := e.tries.get(s.root) != nil
	ts, err := e.trieState(s.root)
	if err != nil {
		e.violation("evict-triestate", fmt.Sprintf("TrieState(S%d): %v", s.id, err), e.witness(nil))
		return nil
	}
	f := &c03Fork{id: len(e.forks), from: s, ts: ts, want: s.want.Clone(), hash: s.root, reload: !wasCached, alive: true}
	e.forks = append(e.forks, f)
	e.logf("F%d = ss.TrieState(S%d)   (%s)", f.id, s.id, map[bool]string{true: "root cached", false: "root EVICTED: LoadFromDB"}[wasCached])
	if wasCached {
		e.c.Count("c03evict_forks_cache_hit", 1)
	} else {
		e.c.Count("c03evict_forks_reloaded_after_eviction", 1)
	}
	// the successor must start from the persisted state
	e.c.Eval(1)
	if h, herr := ts.Trie().Hash(); herr != nil || h != s.root {
		e.violation("evict-fork-root", fmt.Sprintf("F%d = TrieState(S%d) has root %s err=%v, the state was stored under %s", f.id, s.id, h, herr, s.root), e.witness(nil))
		return nil
	}
	if d := c03Diff(ts.TrieEntries(), s.want); d != "" {
		e.violation("evict-fork-content", fmt.Sprintf("F%d = TrieState(S%d) starts from other contents: %s", f.id, s.id, d),
			e.witness(map[string]any{"expected": c03Dump(s.want)}))
		return nil
	}
	return f
}

// checkAll re-observes every persisted state and every other live successor.
func (e *c03Env) checkAll(op *c03Fork, what string) {
	c := e.c
	opid := -1
	if op != nil {
		opid = op.id
	}
	for _, s := range e.states {
		c.Eval(1)
		c.Count("c03evict_isolation_observations", 1)
		bad := ""
		// the cached object first (reading through GetStorage would re-load an evicted root)
		if t := e.tries.get(s.root); t != nil {
			if h, err := t.Hash(); err != nil || h != s.root {
				bad = fmt.Sprintf("the trie cached under the root of S%d hashes to %s err=%v", s.id, h, err)
			} else if d := c03Diff(t.Entries(), s.want); d != "" {
				bad = fmt.Sprintf("the trie cached under the root of S%d: %s", s.id, d)
			}
		} else {
			c.Count("c03evict_observations_of_evicted_root", 1)
		}
		if bad == "" {
			for _, k := range e.keys {
				got, err := e.ss.GetStorage(&s.root, k)
				want, ok := s.want.Get(k)
				if err != nil || (ok && !bytes.Equal(got, want)) || (!ok && got != nil) {
					bad = fmt.Sprintf("GetStorage(S%d, %s)=%s err=%v, persisted state has %s", s.id, vcommon.Hex(k), c03Short(got), err, c03Short(want))
					break
				}
			}
		}
		if bad == "" {
			ents, err := e.ss.Entries(&s.root)
			if err != nil {
				bad = fmt.Sprintf("Entries(S%d): %v", s.id, err)
			} else if d := c03Diff(ents, s.want); d != "" {
				bad = fmt.Sprintf("Entries(S%d): %s", s.id, d)
			}
		}
		if bad == "" {
			ts, err := e.trieState(s.root)
			switch {
			case err != nil:
				bad = fmt.Sprintf("a further TrieState(S%d): %v", s.id, err)
			default:
				if h, herr := ts.Trie().Hash(); herr != nil || h != s.root {
					bad = fmt.Sprintf("a further TrieState(S%d) has root %s err=%v, the state was stored under %s", s.id, h, herr, s.root)
				} else if d := c03Diff(ts.TrieEntries(), s.want); d != "" {
					bad = fmt.Sprintf("a further TrieState(S%d) starts from other contents: %s", s.id, d)
				}
			}
		}
		if bad != "" {
			rel := "another persisted state"
			switch {
			case op != nil && op.from == s:
				rel = "the persisted state the written successor was obtained from"
			case op != nil && op.from != nil && s.parent == op.from.id:
				rel = "a stored successor of the same state"
			}
			cls := "evict-isolation"
			if op != nil && op.reload {
				cls = "evict-isolation-reloaded"
			}
			e.violation(cls, fmt.Sprintf("%s on F%d changed S%d (%s): %s", what, opid, s.id, rel, bad),
				e.witness(map[string]any{"state": s.id, "expected": c03Dump(s.want)}))
			return
		}
	}
	for _, g := range e.forks {
		if !g.alive || g == op {
			continue
		}
		c.Eval(1)
		c.Count("c03evict_isolation_observations", 1)
		d := c03Diff(g.ts.TrieEntries(), g.want)
		if d == "" {
			if h, err := g.ts.Trie().Hash(); err != nil || h != g.hash {
				d = fmt.Sprintf("root %s -> %s err=%v", g.hash, h, err)
			}
		}
		if d != "" {
			rel := "successor of another state"
			if op != nil && op.from == g.from {
				rel = "sibling successor of the same state"
			}
			e.violation("evict-isolation-fork", fmt.Sprintf("%s on F%d changed F%d (%s): %s", what, opid, g.id, rel, d), e.witness(nil))
			return
		}
	}
}

func c03Value(r *vcommon.Rand) []byte {
	n := vcommon.Pick(r, []int{1, 2, 31, 32, 33, 34, 40, 70})
	v := r.Bytes(n)
	v[0] |= 1
	return v
}

func (e *c03Env) put(f *c03Fork, k, v []byte) {
	pred := f.want.Clone()
	pred.Put(k, v)
	what := fmt.Sprintf("Put(%s, %s)", vcommon.Hex(k), c03Short(v))
	e.logf("F%d: %s", f.id, what)
	if err := f.ts.Put(k, v); err != nil {
		e.violation("evict-write-error", fmt.Sprintf("F%d %s: %v", f.id, what, err), e.witness(nil))
		return
	}
	e.after(f, pred, what)
}

func (e *c03Env) del(f *c03Fork, k []byte) {
	pred := f.want.Clone()
	pred.Delete(k)
	what := "Delete(" + vcommon.Hex(k) + ")"
	e.logf("F%d: %s", f.id, what)
	if err := f.ts.Delete(k); err != nil {
		e.violation("evict-write-error", fmt.Sprintf("F%d %s: %v", f.id, what, err), e.witness(nil))
		return
	}
	e.after(f, pred, what)
}

func (e *c03Env) setV1(f *c03Fork) {
	f.ts.SetVersion(gtrie.V1)
	f.ver = 1
	e.logf("F%d: SetVersion(V1)", f.id)
	e.c.Count("c03evict_version_raised", 1)
	e.after(f, f.want.Clone(), "SetVersion(V1)")
}

func (e *c03Env) after(f *c03Fork, pred *vcommon.OrdMap, what string) {
	got := f.ts.TrieEntries()
	if d := c03Diff(got, pred); d != "" {
		// what a write does to its own TrieState is C02/C08 matter; continue from what it shows
		e.c.Count("note_c03evict_fork_content_differs_from_prediction", 1)
		e.logf("(F%d shows %s after %s; shadow resynchronised)", f.id, d, what)
		pred = c03MapOf(got)
	}
	f.want = pred
	if h, err := f.ts.Trie().Hash(); err == nil {
		f.hash = h
	}
	e.c.Count("c03evict_writes", 1)
	if f.reload {
		e.c.Count("c03evict_writes_to_reloaded_fork", 1)
	}
	e.checkAll(f, what)
}

func (e *c03Env) write(f *c03Fork, r *vcommon.Rand) {
	switch x := r.Intn(100); {
	case x < 8 && f.ver == 0:
		e.setV1(f)
	case x < 65:
		k := vcommon.Pick(r, e.keys)
		if old, ok := f.want.Get(k); ok && r.Chance(1, 3) {
			e.c.Count("c03evict_reput_equal_value", 1)
			e.put(f, k, append([]byte{}, old...))
			return
		}
		e.put(f, k, c03Value(r))
	default:
		k := vcommon.Pick(r, e.keys)
		if ks := f.want.Keys(); len(ks) > 0 && r.Chance(3, 4) {
			k = append([]byte{}, vcommon.Pick(r, ks)...)
		}
		e.del(f, k)
	}
}

func (e *c03Env) store(f *c03Fork) *c03State {
	root, err := f.ts.Trie().Hash()
	if err != nil {
		e.c.Inconclusive("Hash: " + err.Error())
		return nil
	}
	if err := e.ss.StoreTrie(f.ts, nil); err != nil {
		e.violation("evict-storetrie", fmt.Sprintf("StoreTrie(F%d): %v", f.id, err), e.witness(nil))
		return nil
	}
	f.alive = false
	for _, s := range e.states {
		if s.root == root {
			e.logf("StoreTrie(F%d): same root as S%d", f.id, s.id)
			return s
		}
	}
	parent := -1
	if f.from != nil {
		parent = f.from.id
	}
	s := &c03State{id: len(e.states), root: root, want: c03MapOf(f.ts.TrieEntries()), parent: parent}
	e.states = append(e.states, s)
	e.logf("S%d = StoreTrie(F%d)  root %s", s.id, f.id, root.Short())
	e.c.Count("c03evict_states_stored", 1)
	e.checkAll(nil, fmt.Sprintf("StoreTrie(F%d)", f.id))
	return s
}

func newC03Env(c *vcommon.Case, keys [][]byte) (*c03Env, func()) {
	db, err := vNewDB()
	if err != nil {
		c.Inconclusive("in-memory pebble: " + err.Error())
		return nil, nil
	}
	tries := NewTries()
	ss, err := NewStorageState(db, nil, tries)
	if err != nil {
		_ = db.Close()
		c.Inconclusive("NewStorageState: " + err.Error())
		return nil, nil
	}
	return &c03Env{c: c, db: db, tries: tries, ss: ss, keys: keys}, func() { _ = db.Close() }
}

// genesis builds S0 (R1 of the brief) from the empty root.
func (e *c03Env) genesis(r *vcommon.Rand, v1 bool, kv [][2][]byte) *c03State {
	ts, err := e.trieState(gtrie.EmptyHash)
	if err != nil {
		e.c.Inconclusive("TrieState(empty root): " + err.Error())
		return nil
	}
	g := &c03Fork{id: 0, ts: ts, want: vcommon.NewOrdMap(), hash: gtrie.EmptyHash, alive: true}
	e.forks = append(e.forks, g)
	e.logf("F0 = ss.TrieState(empty root)")
	if v1 {
		g.ts.SetVersion(gtrie.V1)
		g.ver = 1
		e.logf("F0: SetVersion(V1)")
	}
	for _, p := range kv {
		_ = g.ts.Put(p[0], p[1])
		e.logf("F0: Put(%s, %s)", vcommon.Hex(p[0]), c03Short(p[1]))
	}
	g.want = c03MapOf(g.ts.TrieEntries())
	return e.store(g)
}

// the scenario of the brief, then random steps
func runC03Evict(c *vcommon.Case, script int) {
	r := c.R
	keys := [][]byte{{0x01}, {0x01, 0x02}, {0x01, 0x03}, {0x02}, {0x09}, {0x12, 0x34}, {0x12, 0x35}, {0x12, 0x34, 0x56}, {0x77, 0x00, 0x11}}
	if script < 0 {
		// random alphabet: short dense keys sharing prefixes
		keys = nil
		seen := map[string]bool{}
		for nk := r.Range(4, 9); len(keys) < nk; {
			k := make([]byte, r.Range(1, 4))
			for i := range k {
				k[i] = vcommon.Pick(r, []byte{0x01, 0x02, 0x10, 0x12, 0x1f, 0xf0})
			}
			if !seen[string(k)] {
				seen[string(k)] = true
				keys = append(keys, k)
			}
		}
	}
	e, closeFn := newC03Env(c, keys)
	if e == nil {
		return
	}
	defer closeFn()

	var kv [][2][]byte
	if script >= 0 {
		kv = [][2][]byte{{{0x01}, bytes.Repeat([]byte{0xb1}, 33)}, {{0x01, 0x02}, bytes.Repeat([]byte{0xc1}, 40)}, {{0x01, 0x03}, {1}}, {{0x02}, {2}}}
	} else {
		for i, n := 0, r.Range(3, 8); i < n; i++ {
			kv = append(kv, [2][]byte{vcommon.Pick(r, keys), c03Value(r)})
		}
	}
	s1 := e.genesis(r, script < 0 && r.Chance(1, 3) || script == 2, kv)
	if s1 == nil || e.nviol > 0 {
		return
	}
	// R2 and R3: two stored successors of R1, plus one live (unstored) successor of R1 and one of R2
	mkStored := func(from *c03State, n int) *c03State {
		f := e.fork(from)
		if f == nil {
			return nil
		}
		for i := 0; i < n && e.nviol == 0; i++ {
			e.write(f, r)
		}
		if e.nviol > 0 {
			return nil
		}
		return e.store(f)
	}
	s2 := mkStored(s1, r.Range(1, 4))
	if s2 == nil || e.nviol > 0 {
		return
	}
	s3 := mkStored(s1, r.Range(1, 4))
	if s3 == nil || e.nviol > 0 {
		return
	}
	live1 := e.fork(s1)
	live2 := e.fork(s2)
	if live1 == nil || live2 == nil {
		return
	}
	e.write(live1, r)
	if e.nviol > 0 {
		return
	}

	// evict R1 only: its stored successors R2/R3 stay cached, live1/live2 stay live
	e.evict(s1)
	if e.tries.get(s1.root) != nil {
		c.Inconclusive("tries.delete did not remove the root")
		return
	}
	rl := e.fork(s1) // re-load from the database
	if rl == nil {
		return
	}
	if !rl.reload {
		c.Inconclusive("the root was cached again before the reload")
		return
	}
	switch script {
	case 0: // plain writes to the re-loaded successor
		e.put(rl, []byte{0x09}, []byte{9})
		e.put(rl, []byte{0x01, 0x03}, []byte{7})
		e.del(rl, []byte{0x02})
		e.put(rl, []byte{0x01}, []byte{1})
	case 1: // a second re-loaded sibling after another eviction, interleaved
		e.put(rl, []byte{0x09}, bytes.Repeat([]byte{0xd1}, 33))
		if e.nviol == 0 {
			e.evict(s1)
			if rl2 := e.fork(s1); rl2 != nil {
				e.put(rl2, []byte{0x02}, bytes.Repeat([]byte{0xc1}, 40))
				e.del(rl, []byte{0x01, 0x02})
				e.del(rl2, []byte{0x01})
			}
		}
	case 2: // version raised on the re-loaded successor, equal values re-put (hashed-value flag)
		e.setV1(rl)
		e.put(rl, []byte{0x01}, bytes.Repeat([]byte{0xb1}, 33))
		e.put(rl, []byte{0x01, 0x02}, bytes.Repeat([]byte{0xc1}, 40))
		e.del(rl, []byte{0x01, 0x03})
	default:
		for i, n := 0, r.Range(2, 6); i < n && e.nviol == 0; i++ {
			e.write(rl, r)
		}
	}
	if e.nviol > 0 {
		return
	}
	// evict a successor (R2) while its parent R1 is cached again and has live successors; re-load, write
	if e.tries.get(s1.root) != nil && e.tries.get(s2.root) != nil {
		e.evict(s2)
		if rl2 := e.fork(s2); rl2 != nil {
			for i, n := 0, r.Range(2, 5); i < n && e.nviol == 0; i++ {
				e.write(rl2, r)
			}
			if e.nviol == 0 && r.Bool() {
				e.store(rl2)
			}
		}
	}
	// the older live successors are written as well (they share nodes with the evicted in-memory objects)
	for _, f := range []*c03Fork{live2, live1} {
		if e.nviol == 0 && f.alive {
			e.write(f, r)
		}
	}

	// random continuation
	steps := 0
	if script < 0 {
		steps = r.Range(6, 24)
	}
	for i := 0; i < steps && e.nviol == 0; i++ {
		var live []*c03Fork
		for _, f := range e.forks {
			if f.alive {
				live = append(live, f)
			}
		}
		switch x := r.Intn(100); {
		case x < 20:
			s := vcommon.Pick(r, e.states)
			e.evict(s)
			if r.Chance(2, 3) {
				e.fork(s)
			}
		case x < 30 && len(live) < 6:
			e.fork(vcommon.Pick(r, e.states))
		case x < 40 && len(live) > 0:
			e.store(vcommon.Pick(r, live))
		case x < 44 && len(live) > 2:
			f := vcommon.Pick(r, live)
			f.alive = false
			e.logf("F%d dropped", f.id)
		case len(live) > 0:
			e.write(vcommon.Pick(r, live), r)
		}
	}
	if e.nviol == 0 {
		// final: every root evicted one by one, everything observed after each eviction
		for _, s := range e.states {
			e.evict(s)
			e.checkAll(nil, fmt.Sprintf("tries.delete(S%d)", s.id))
			if e.nviol > 0 {
				break
			}
		}
	}
	c.Count("c03evict_cases_completed", 1)
	c.Distinct(fmt.Sprintf("evict s%d f%d %d", len(e.states), len(e.forks), len(e.log)))
	first := e.log
	if len(first) > 24 {
		first = first[:24]
	}
	c.Sample(map[string]any{"path": "dot/state tries.delete", "script": script, "states": len(e.states), "successors": len(e.forks), "first_actions": first})
}

func TestVerifC03Evict(t *testing.T) {
	r := vcommon.Start(t, "C03")
	defer r.Finish()
	r.Floor("c03evict_single_root_evictions", 400)
	r.Floor("c03evict_forks_reloaded_after_eviction", 300)
	r.Floor("c03evict_writes_to_reloaded_fork", 600)
	r.Floor("c03evict_root_evicted_with_live_unstored_successor", 150)
	r.Floor("c03evict_root_evicted_with_cached_stored_successor", 150)
	r.Floor("c03evict_successor_evicted_parent_cached", 100)
	r.Floor("c03evict_observations_of_evicted_root", 300)
	r.Floor("c03evict_isolation_observations", 10000)
	r.Floor("c03evict_version_raised", 30)

	r.Fixed("evict-corpus", 3, func(c *vcommon.Case) { runC03Evict(c, c.Idx) })
	r.Cases("evict-forks", r.Scale(150), func(c *vcommon.Case) { runC03Evict(c, -1) })
}
