//go:build verif

package triep_test

import (
	"bytes"
	"fmt"
	"sort"
	"strings"
	"sync"

	"github.com/ChainSafe/gossamer/internal/database"
	"github.com/ChainSafe/gossamer/internal/log"
	"github.com/ChainSafe/gossamer/pkg/trie"
	"github.com/ChainSafe/gossamer/pkg/trie/inmemory"
	"github.com/ChainSafe/gossamer/pkg/trie/node"
	"github.com/ChainSafe/gossamer/zz_verif/vcommon"
)

func init() {
	// proof.loadProof logs every node at Info level
	log.Patch(log.SetLevel(log.Critical))
}

// ---------------------------------------------------------------------------
// database: one in-memory pebble per process, one key namespace per case
// (a node missing from THIS case's writes must not be served by another case)

var (
	pebbleOnce sync.Once
	pebbleDB   *database.PebbleDB
	pebbleErr  error
	tableSeq   int
)

func sharedPebble() (*database.PebbleDB, error) {
	pebbleOnce.Do(func() { pebbleDB, pebbleErr = database.NewPebble("/verif-triep-mem", true) })
	return pebbleDB, pebbleErr
}

// caseTable returns a fresh, empty key namespace of the shared pebble instance.
func caseTable(c *vcommon.Case, tag string) (database.Table, error) {
	db, err := sharedPebble()
	if err != nil {
		return nil, err
	}
	tableSeq++
	return database.NewTable(db, fmt.Sprintf("%s|%s|%d|", c.ID, tag, tableSeq)), nil
}

// tableDB lets a Table stand in for a whole database.Database
// (state.NewStorageState derives its "storage" table from it).
type tableDB struct{ database.Table }

func (tableDB) Close() error { return nil }

// ---------------------------------------------------------------------------
// generators

var valueLens = []int{0, 1, 2, 3, 8, 27, 28, 29, 30, 31, 32, 33, 34, 40, 64, 100}

// profile of value sizes of a case
const (
	profTiny      = iota // 0..2 bytes: inlined leaves and inlined branches
	profThreshold        // 27..34 bytes: around the V1 hashing threshold and the 32-byte node inlining threshold
	profLarge            // 33..100 bytes: hashed under V1
	profMixed
	nProfiles
)

func genValue(r *vcommon.Rand, prof int) []byte {
	var n int
	switch prof {
	case profTiny:
		n = r.Intn(3)
	case profThreshold:
		n = r.Range(27, 34)
	case profLarge:
		n = vcommon.Pick(r, []int{33, 34, 40, 64, 100})
	default:
		n = vcommon.Pick(r, valueLens)
	}
	if n == 0 {
		return []byte{}
	}
	b := r.Bytes(n)
	if r.Chance(1, 4) { // low-entropy value: equal values under different keys
		for i := range b {
			b[i] = byte(0xa0 + n%7)
		}
	}
	return b
}

// genKeyPool builds keys that share nibble prefixes: a 2-3 nibble alphabet,
// lengths 0..4 bytes, explicit prefixes / extensions of each other and
// (sometimes) a family of long keys that only differ in the last bytes.
func genKeyPool(r *vcommon.Rand, want int) [][]byte {
	nibs := []byte{byte(r.Intn(16)), byte(r.Intn(16)), 0}
	if r.Bool() {
		nibs = append(nibs, 0xf)
	}
	rb := func() byte { return vcommon.Pick(r, nibs)<<4 | vcommon.Pick(r, nibs) }
	seen := map[string]bool{}
	var pool [][]byte
	add := func(k []byte) {
		if !seen[string(k)] && len(pool) < want {
			seen[string(k)] = true
			pool = append(pool, append([]byte{}, k...))
		}
	}
	for tries := 0; len(pool) < want*2/3 && tries < 200; tries++ {
		n := vcommon.Pick(r, []int{0, 1, 1, 2, 2, 2, 3, 3, 4})
		k := make([]byte, n)
		for i := range k {
			k[i] = rb()
		}
		add(k)
	}
	if r.Chance(1, 3) {
		stem := r.Bytes(r.Range(30, 36))
		for i := 0; i < r.Range(2, 4); i++ {
			add(append(append([]byte{}, stem...), rb()))
		}
		add(stem)
	}
	for tries := 0; len(pool) < want && tries < 200; tries++ {
		k := vcommon.Pick(r, pool)
		switch r.Intn(3) {
		case 0:
			if len(k) > 0 {
				add(k[:len(k)-1])
			}
		case 1:
			add(append(append([]byte{}, k...), rb()))
		default:
			if len(k) > 0 {
				s := append([]byte{}, k...)
				s[len(s)-1] ^= byte(1 << r.Intn(8))
				add(s)
			}
		}
	}
	return pool
}

// absentProbes returns keys NOT in m that are structurally close to present
// ones: proper prefixes, extensions, siblings, keys that diverge in the middle
// (they "leave" a partial key), the empty key, nibble-level neighbours.
func absentProbes(r *vcommon.Rand, m *vcommon.OrdMap, limit int) [][]byte {
	seen := map[string]bool{}
	var out [][]byte
	add := func(k []byte) {
		if _, ok := m.Get(k); ok || seen[string(k)] {
			return
		}
		seen[string(k)] = true
		out = append(out, append([]byte{}, k...))
	}
	add([]byte{})
	keys := m.Keys()
	for _, k := range keys {
		for i := 0; i < len(k); i++ {
			add(k[:i])
		}
		add(append(append([]byte{}, k...), 0x00))
		add(append(append([]byte{}, k...), byte(r.Intn(256))))
		if len(k) > 0 {
			for _, bit := range []byte{0x01, 0x10, 0x80} {
				s := append([]byte{}, k...)
				s[len(s)-1] ^= bit
				add(s)
			}
			// diverge in the middle, keep the tail (a proof / path for k presented for k')
			s := append([]byte{}, k...)
			p := r.Intn(len(s))
			s[p] ^= vcommon.Pick(r, []byte{0x01, 0x10, 0x0f, 0xf0})
			add(s)
			// drop a middle byte (0x12345a -> 0x125a)
			if len(k) >= 2 {
				p := r.Intn(len(k) - 1)
				add(append(append([]byte{}, k[:p+1]...), k[p+2:]...))
				add(append(append([]byte{}, k[:p]...), k[p+1:]...))
			}
		}
	}
	if len(out) > limit {
		p := r.Perm(len(out))
		sel := make([][]byte, 0, limit)
		for _, i := range p[:limit] {
			sel = append(sel, out[i])
		}
		// always keep the empty key probe when it is absent
		if _, ok := m.Get([]byte{}); !ok {
			sel[0] = []byte{}
		}
		out = sel
	}
	return out
}

// ---------------------------------------------------------------------------
// small helpers

func layout(ver int) trie.TrieLayout {
	if ver == 1 {
		return trie.V1
	}
	return trie.V0
}

func hx(b []byte) string { return vcommon.Hex(b) }

func hxs(bs [][]byte) []string {
	out := make([]string, len(bs))
	for i, b := range bs {
		out[i] = hx(b)
	}
	return out
}

func short(b []byte) string {
	if len(b) <= 12 {
		return hx(b)
	}
	return fmt.Sprintf("%s..(%dB)", hx(b[:6]), len(b))
}

// modelDump renders a model for witnesses (full keys and values: witnesses must allow reproduction).
func modelDump(m *vcommon.OrdMap) []string {
	ks, vs := m.Entries()
	out := make([]string, len(ks))
	for i := range ks {
		out[i] = hx(ks[i]) + "=" + hx(vs[i])
	}
	return out
}

// diffEntries compares a trie Entries() map with the model; "" when equal.
func diffEntries(got map[string][]byte, m *vcommon.OrdMap) string {
	var d []string
	ks, vs := m.Entries()
	for i, k := range ks {
		v, ok := got[string(k)]
		switch {
		case !ok:
			d = append(d, fmt.Sprintf("missing %s", hx(k)))
		case v == nil:
			d = append(d, fmt.Sprintf("%s reads nil, want %s", hx(k), short(vs[i])))
		case !bytes.Equal(v, vs[i]):
			d = append(d, fmt.Sprintf("%s=%s want %s", hx(k), short(v), short(vs[i])))
		}
	}
	if len(got) != len(ks) || len(d) > 0 {
		var extra []string
		for k := range got {
			if _, ok := m.Get([]byte(k)); !ok {
				extra = append(extra, "extra "+hx([]byte(k)))
			}
		}
		sort.Strings(extra)
		d = append(d, extra...)
	}
	if len(d) > 6 {
		d = append(d[:6], fmt.Sprintf("(+%d more)", len(d)-6))
	}
	return strings.Join(d, "; ")
}

// shape describes the node structure of a (hashed) in-memory trie. It reads
// gossamer's own node fields and is used for COVERAGE counters and Distinct
// fingerprints only, never for a verdict.
type shape struct {
	nodes, branches, branchValues         int
	inlinedLeaves, inlinedBranches        int
	hashedValues, hashedBranchValues      int
	emptyValues, inlinedEmptyLeaves       int
	longPartial, val32, val33, maxDepth   int
	inlinedChildOfInlinedBranch, rootLeaf int
	enc31, enc32                          int // non-root nodes whose encoding is 31 / 32 bytes (inlining boundary)
	sig                                   strings.Builder
}

func (s *shape) walk(n *node.Node, depth int, inlinedParent bool) {
	if n == nil {
		return
	}
	s.nodes++
	if depth > s.maxDepth {
		s.maxDepth = depth
	}
	inl := depth > 0 && len(n.MerkleValue) < 32
	if depth > 0 {
		if inl && len(n.MerkleValue) == 31 {
			s.enc31++
		} else if !inl {
			var buf bytes.Buffer
			if n.Encode(&buf) == nil && buf.Len() == 32 {
				s.enc32++
			}
		}
	}
	if len(n.PartialKey) >= 63 {
		s.longPartial++
	}
	if n.StorageValue != nil {
		switch len(n.StorageValue) {
		case 0:
			s.emptyValues++
			if inl && n.Kind() == node.Leaf {
				s.inlinedEmptyLeaves++
			}
		case 32:
			s.val32++
		case 33:
			s.val33++
		}
		if n.MustBeHashed {
			s.hashedValues++
			if n.Kind() == node.Branch {
				s.hashedBranchValues++
			}
		}
	}
	if inl && inlinedParent {
		s.inlinedChildOfInlinedBranch++
	}
	if n.Kind() == node.Leaf {
		if inl {
			s.inlinedLeaves++
			s.sig.WriteString("l")
		} else {
			s.sig.WriteString("L")
		}
		if depth == 0 {
			s.rootLeaf++
		}
		return
	}
	s.branches++
	if n.StorageValue != nil {
		s.branchValues++
	}
	if inl {
		s.inlinedBranches++
		s.sig.WriteString("b(")
	} else {
		s.sig.WriteString("B(")
	}
	fmt.Fprintf(&s.sig, "%d", len(n.PartialKey))
	if n.StorageValue != nil {
		if n.MustBeHashed {
			s.sig.WriteString("H")
		} else {
			s.sig.WriteString("v")
		}
	}
	for i, ch := range n.Children {
		if ch != nil {
			fmt.Fprintf(&s.sig, "%x", i)
			s.walk(ch, depth+1, inl)
		}
	}
	s.sig.WriteString(")")
}

// shapeOf hashes the trie (so Merkle values are cached) and walks a copy of its root.
func shapeOf(t *inmemory.InMemoryTrie) *shape {
	s := &shape{}
	if _, err := t.Hash(); err != nil {
		return s
	}
	s.walk(t.RootNode(), 0, false)
	return s
}

func (s *shape) count(c *vcommon.Case, prefix string) {
	c.Count(prefix+"nodes", s.nodes)
	c.Count(prefix+"branch_with_value", s.branchValues)
	c.Count(prefix+"inlined_leaf", s.inlinedLeaves)
	c.Count(prefix+"inlined_branch", s.inlinedBranches)
	c.Count(prefix+"inlined_child_of_inlined_branch", s.inlinedChildOfInlinedBranch)
	c.Count(prefix+"hashed_value_v1", s.hashedValues)
	c.Count(prefix+"hashed_branch_value_v1", s.hashedBranchValues)
	c.Count(prefix+"empty_value", s.emptyValues)
	c.Count(prefix+"inlined_empty_leaf", s.inlinedEmptyLeaves)
	c.Count(prefix+"partial_key_ge_63_nibbles", s.longPartial)
	c.Count(prefix+"value_len_32", s.val32)
	c.Count(prefix+"value_len_33", s.val33)
	c.Count(prefix+"root_is_leaf", s.rootLeaf)
	c.Count(prefix+"node_encoding_31_bytes_inlined", s.enc31)
	c.Count(prefix+"node_encoding_32_bytes_hashed", s.enc32)
}
