//go:build verif

package triep_test

import (
	"bytes"
	"fmt"
	"testing"

	"github.com/ChainSafe/gossamer/dot/state"
	"github.com/ChainSafe/gossamer/dot/types"
	"github.com/ChainSafe/gossamer/internal/database"
	"github.com/ChainSafe/gossamer/lib/common"
	"github.com/ChainSafe/gossamer/pkg/trie"
	"github.com/ChainSafe/gossamer/pkg/trie/inmemory"
	"github.com/ChainSafe/gossamer/zz_verif/vcommon"
)

// C04 through the block-import call: core.Service.handleBlock persists every
// imported block's state with
//
//	InmemoryStorageState.StoreTrie(ts, &block.Header)
//
// and a non-nil header additionally runs TrieState.GetChangedNodeHashes ->
// InMemoryTrie.getInsertedNodeHashesAtNode over the DIRTY nodes (it computes
// and caches Merkle values on them before WriteDirty encodes them) and the
// pruner journal. The groups of c04_test.go pass a nil header; the groups here
// pass the header of the block (number, parent hash, state root) for chains of
// successive states including sibling blocks on the same parent.
//
// Oracle: everything the `statechain` group decides (every stored root is read
// back through the storing instance, a fresh instance and LoadFromDB: every key
// of the key pool, every present key, absent probes, Entries, every child trie
// and its entries, against the model of THAT root) and StoreTrie must not fail
// or panic on a state the in-memory operations produced. The journal contents
// themselves are not a C04 matter: what GetChangedNodeHashes reports is only
// observed (note_* counters).

type hdrBlock struct {
	hdr    *types.Header
	root   common.Hash
	main   *vcommon.OrdMap
	childs childModels
}

type hdrChain struct {
	c      *vcommon.Case
	db     tableDB
	tbl    database.Table // the "storage" table the storage state writes to
	ver    int
	prof   int
	pool   [][]byte
	cnames [][]byte
	hist   []string
	inst   *state.InmemoryStorageState
	blocks []hdrBlock // blocks[0] is the genesis state (empty)
	stored []storedRoot
	step   int
}

func (h *hdrChain) logf(f string, a ...any) { h.hist = append(h.hist, fmt.Sprintf(f, a...)) }

func (h *hdrChain) wit(extra map[string]any) map[string]any {
	w := map[string]any{"version": h.ver, "history": h.hist}
	for k, v := range extra {
		w[k] = v
	}
	return w
}

func (h *hdrChain) fresh() *state.InmemoryStorageState {
	s, err := state.NewStorageState(h.db, nil, state.NewTries())
	if err != nil {
		panic(err)
	}
	return s
}

func newHdrChain(c *vcommon.Case, ver, prof int, pool, cnames [][]byte) (*hdrChain, bool) {
	tbl, err := caseTable(c, "h")
	if err != nil {
		c.Inconclusive("cannot open the in-memory pebble database: " + err.Error())
		return nil, false
	}
	h := &hdrChain{c: c, db: tableDB{tbl}, ver: ver, prof: prof, pool: pool, cnames: cnames}
	h.tbl = database.NewTable(h.db, "storage")
	h.inst = h.fresh()
	gen := types.NewHeader(common.Hash{}, trie.EmptyHash, trie.EmptyHash, 0, types.NewDigest())
	h.blocks = []hdrBlock{{hdr: gen, root: trie.EmptyHash, main: vcommon.NewOrdMap(), childs: childModels{}}}
	return h, true
}

type hdrOp struct {
	kind  string // put | del | cput | cclear | cdel
	child []byte
	k, v  []byte
}

func (o hdrOp) String() string {
	switch o.kind {
	case "put":
		return fmt.Sprintf("put %s %s", hx(o.k), hx(o.v))
	case "del":
		return "delete " + hx(o.k)
	case "cput":
		return fmt.Sprintf("child %s put %s %s", hx(o.child), hx(o.k), hx(o.v))
	case "cclear":
		return fmt.Sprintf("child %s clear %s", hx(o.child), hx(o.k))
	}
	return fmt.Sprintf("child %s delete-child", hx(o.child))
}

// importBlock builds the successor of blocks[parent] with ops, stores it with
// its header and reads every stored root back. ok=false: stop the case.
func (h *hdrChain) importBlock(parent int, ops []hdrOp, freshInstance, probeJournal bool) (ok bool) {
	c := h.c
	pb := h.blocks[parent]
	main, childs := pb.main.Clone(), pb.childs.clone()
	if freshInstance {
		h.inst = h.fresh()
		h.logf("fresh instance (TrieState on a cache miss)")
		c.Count("hdr_cache_miss_successors", 1)
	}
	prev := pb.root
	ts, err := h.inst.TrieState(&prev)
	if err != nil {
		c.Violation("hdr-triestate-error", fmt.Sprintf("TrieState(%s): %v", prev, err), h.wit(nil))
		return false
	}
	ts.SetVersion(layout(h.ver))
	known := func(when string) bool {
		it, ok := ts.Trie().(*inmemory.InMemoryTrie)
		if !ok {
			return false
		}
		if dn, croot, bad := danglingChild(it, h.cnames); bad {
			c.Known("C04-K1", fmt.Sprintf("in-memory state is ill-formed %s: main trie stores child root %s for child %s but the child trie object is gone (child tries with equal content alias each other)", when, hx(croot), hx(dn)),
				h.wit(map[string]any{"child": hx(dn), "child_root": hx(croot)}))
			return true
		}
		return false
	}
	syncChild := func(name []byte) {
		ck := childStorageKey(name)
		if cr := ts.Get(ck); cr != nil {
			main.Put(ck, cr)
		} else {
			main.Delete(ck)
		}
	}
	for _, o := range ops {
		var err error
		switch o.kind {
		case "put":
			main.Put(o.k, o.v)
			err = ts.Put(o.k, o.v)
		case "del":
			if bytes.HasPrefix(o.k, inmemory.ChildStorageKeyPrefix) {
				continue
			}
			main.Delete(o.k)
			err = ts.Delete(o.k)
		case "cput":
			if known("before a child operation") {
				return false
			}
			err = ts.SetChildStorage(o.child, o.k, o.v)
			if childs[string(o.child)] == nil {
				childs[string(o.child)] = vcommon.NewOrdMap()
			}
			childs[string(o.child)].Put(o.k, o.v)
			syncChild(o.child)
		case "cclear":
			cm := childs[string(o.child)]
			if cm == nil {
				continue
			}
			if known("before a child operation") {
				return false
			}
			err = ts.ClearChildStorage(o.child, o.k)
			cm.Delete(o.k)
			if cm.Len() == 0 {
				delete(childs, string(o.child))
			}
			syncChild(o.child)
		case "cdel":
			if childs[string(o.child)] == nil {
				continue
			}
			if known("before a child operation") {
				return false
			}
			err = ts.DeleteChild(o.child)
			delete(childs, string(o.child))
			syncChild(o.child)
		}
		h.logf("%s", o)
		if err != nil {
			c.Inconclusive("TrieState operation failed (not a C04 matter): " + err.Error())
			return false
		}
	}
	if known("before StoreTrie") {
		return false
	}
	if d := diffEntries(ts.TrieEntries(), main); d != "" {
		// the in-memory state is the reference; drift is C02's business
		c.Count("note_model_resynced_to_inmemory_main", 1)
		h.logf("(model resynchronised to the TrieState: %s)", d)
		main = mapToModel(ts.TrieEntries())
	}
	it, isInMem := ts.Trie().(*inmemory.InMemoryTrie)
	if isInMem { // child models follow the in-memory state as well
		for _, name := range h.cnames {
			cm := childs[string(name)]
			var obs map[string][]byte
			if ts.Get(childStorageKey(name)) != nil {
				if ct, err := it.GetChild(name); err == nil && ct != nil {
					obs = ct.Entries()
				}
			}
			switch {
			case obs == nil && cm == nil:
			case obs == nil:
				c.Count("note_model_resynced_to_inmemory_child", 1)
				delete(childs, string(name))
			case cm == nil || diffEntries(obs, cm) != "":
				c.Count("note_model_resynced_to_inmemory_child", 1)
				childs[string(name)] = mapToModel(obs)
			}
		}
	}
	root, err := ts.Trie().Hash()
	if err != nil {
		c.Inconclusive(err.Error())
		return false
	}
	// what is about to be stored
	if isInMem {
		sh := shapeOf0(it, root)
		sh.count(c, "hdr_")
		if sh.rootLeaf > 0 {
			c.Count("hdr_states_whose_root_is_a_leaf", 1)
			if len(childs) > 0 {
				c.Count("hdr_states_root_leaf_with_child_trie", 1)
			}
		}
		if sh.inlinedLeaves+sh.inlinedBranches > 0 {
			c.Count("hdr_states_with_inlined_nodes", 1)
		}
		if sh.hashedValues > 0 {
			c.Count("hdr_states_with_hashed_values", 1)
		}
		if sh.nodes > 1 {
			c.Distinct(fmt.Sprintf("hdr|v%d|%s|c%d", h.ver, sh.sig.String(), len(childs)))
		}
	}
	if len(childs) > 0 {
		c.Count("hdr_storetrie_with_child_tries", 1)
	}
	if root == trie.EmptyHash {
		c.Count("hdr_storetrie_empty_state", 1)
	}
	if root == prev {
		c.Count("hdr_storetrie_unchanged_state", 1)
	}
	hdr := types.NewHeader(pb.hdr.Hash(), root, trie.EmptyHash, pb.hdr.Number+1, types.NewDigest())
	h.step++
	h.logf("storetrie #%d with header{number %d, parent %s} root %s (successor of %s)", h.step, hdr.Number, hdr.ParentHash, root, prev)

	// observation only: what the journal is going to be told (production calls this once, inside StoreTrie)
	var inserted map[common.Hash]struct{}
	if probeJournal {
		ins, del, err := ts.GetChangedNodeHashes()
		c.Count("hdr_changed_hashes_probed", 1)
		if err != nil {
			c.Count("note_getchangednodehashes_error", 1)
		} else {
			inserted = ins
			c.Count("hdr_inserted_hashes_reported", len(ins))
			c.Count("hdr_deleted_hashes_reported", len(del))
			if _, ok := ins[root]; !ok && root != prev && root != trie.EmptyHash {
				if _, err := h.tbl.Get(root[:]); err != nil {
					c.Count("note_new_root_not_reported_as_inserted", 1)
				}
			}
		}
	}

	c.Eval(1)
	c.Count("hdr_storetrie", 1)
	if h.ver == 1 {
		c.Count("hdr_storetrie_v1", 1)
	} else {
		c.Count("hdr_storetrie_v0", 1)
	}
	if err := h.inst.StoreTrie(ts, hdr); err != nil {
		c.Violation("hdr-storetrie-error", fmt.Sprintf("StoreTrie(state, header #%d) fails on a valid state: %v", hdr.Number, err), h.wit(map[string]any{"root": root.String(), "model_main": modelDump(main)}))
		return false
	}
	for ih := range inserted {
		if _, err := h.tbl.Get(ih[:]); err != nil {
			c.Count("note_inserted_hash_absent_from_database", 1)
		}
	}
	h.blocks = append(h.blocks, hdrBlock{hdr: hdr, root: root, main: main.Clone(), childs: childs.clone()})
	h.stored = append(h.stored, storedRoot{root: root, main: main.Clone(), childs: childs.clone(), step: h.step})

	// every root stored so far, through the storing instance, a fresh one and LoadFromDB
	reader := h.fresh()
	for _, sr := range h.stored {
		if sr.step < h.step {
			c.Count("hdr_earlier_roots_reread", 1)
		}
		rereadRoot(c, h.inst, "the instance that stored the block", sr, h.pool, h.wit)
		if c.Failed() {
			return false
		}
		rereadRoot(c, reader, "a fresh instance", sr, h.pool, h.wit)
		if c.Failed() {
			return false
		}
		c.Eval(1)
		lt, err := h.fresh().LoadFromDB(sr.root)
		if err != nil {
			c.Violation("hdr-loadfromdb-error", fmt.Sprintf("LoadFromDB(root of step %d): %v", sr.step, err), h.wit(map[string]any{"root": sr.root.String()}))
			return false
		}
		if hh, err := lt.Hash(); err != nil || hh != sr.root {
			c.Violation("hdr-loadfromdb-root", fmt.Sprintf("LoadFromDB(root of step %d).Hash()=%s err=%v want %s", sr.step, hh, err, sr.root), h.wit(map[string]any{"root": sr.root.String()}))
			return false
		}
		// single keys straight from the database by root hash
		ks, vs := sr.main.Entries()
		for i, k := range ks {
			c.Eval(1)
			c.Count("hdr_getfromdb", 1)
			got, err := inmemory.GetFromDB(h.tbl, sr.root, k)
			if err != nil || got == nil || !bytes.Equal(got, vs[i]) {
				c.Violation("hdr-getfromdb", fmt.Sprintf("GetFromDB(root of step %d, %s)=%s err=%v, that state has %s", sr.step, hx(k), short(got), err, short(vs[i])),
					h.wit(map[string]any{"root": sr.root.String(), "key": hx(k)}))
				return false
			}
		}
	}
	return true
}

func (h *hdrChain) genOps(r *vcommon.Rand, parent int, n int) []hdrOp {
	pb := h.blocks[parent]
	var ops []hdrOp
	for i := 0; i < n; i++ {
		k := vcommon.Pick(r, h.pool)
		switch x := r.Intn(20); {
		case x < 10 || (x >= 15 && len(h.cnames) == 0):
			ops = append(ops, hdrOp{kind: "put", k: k, v: genValue(r, h.prof)})
		case x < 15:
			if ks := pb.main.Keys(); len(ks) > 0 && r.Chance(3, 4) {
				k = vcommon.Pick(r, ks)
			}
			ops = append(ops, hdrOp{kind: "del", k: k})
		case x < 18:
			ops = append(ops, hdrOp{kind: "cput", child: vcommon.Pick(r, h.cnames), k: k, v: genValue(r, h.prof)})
		case x < 19:
			name := vcommon.Pick(r, h.cnames)
			if cm := pb.childs[string(name)]; cm != nil && cm.Len() > 0 && r.Chance(3, 4) {
				k = vcommon.Pick(r, cm.Keys())
			}
			ops = append(ops, hdrOp{kind: "cclear", child: name, k: k})
		default:
			ops = append(ops, hdrOp{kind: "cdel", child: vcommon.Pick(r, h.cnames)})
		}
	}
	return ops
}

func runHeaderChain(c *vcommon.Case) {
	r := c.R
	ver := r.Intn(2)
	prof := r.Intn(nProfiles)
	if r.Chance(1, 3) {
		prof = profTiny // inlined leaves and inlined branches
	}
	pool := genKeyPool(r, r.Range(3, 10))
	var cnames [][]byte
	if r.Chance(1, 2) {
		for i := 0; i < r.Range(1, 2); i++ {
			cnames = append(cnames, []byte(fmt.Sprintf("c%d", i)))
		}
	}
	h, ok := newHdrChain(c, ver, prof, pool, cnames)
	if !ok {
		return
	}
	// shapes the property names: a main trie that is a single leaf (one key, or nothing but one child-trie root)
	first := func() []hdrOp {
		switch x := r.Intn(10); {
		case x < 2 && len(cnames) > 0:
			return []hdrOp{{kind: "cput", child: cnames[0], k: vcommon.Pick(r, pool), v: genValue(r, prof)}}
		case x < 4:
			return []hdrOp{{kind: "put", k: vcommon.Pick(r, pool), v: genValue(r, prof)}}
		}
		return h.genOps(r, 0, r.Range(1, 6))
	}
	steps := r.Range(2, 5)
	forks := 0
	for s := 0; s < steps; s++ {
		parent := len(h.blocks) - 1
		if s > 1 && r.Chance(1, 4) { // a sibling: another block on an earlier parent
			parent = r.Intn(len(h.blocks) - 1)
			forks++
			c.Count("hdr_fork_siblings", 1)
			h.logf("fork: next block builds on block #%d", h.blocks[parent].hdr.Number)
		}
		ops := first()
		if s > 0 {
			ops = h.genOps(r, parent, r.Range(0, 6))
		}
		freshInst := s > 0 && r.Bool()
		if s > 0 && !freshInst {
			c.Count("hdr_cache_hit_successors", 1)
		}
		if !h.importBlock(parent, ops, freshInst, r.Chance(1, 3)) {
			return
		}
	}
	last := h.blocks[len(h.blocks)-1]
	c.Sample(map[string]any{"group": "hdrchain", "blocks": len(h.blocks) - 1, "forks": forks, "final_keys": last.main.Len(), "child_tries": len(last.childs), "version": ver})
}

// fixed: every shape of c04Corpus imported as two blocks with headers (first
// half of the writes, then the rest), plus shapes specific to the header path.
type hdrFixed struct {
	name   string
	ver    int
	blocks [][]hdrOp
}

func hdrCorpus() []hdrFixed {
	var out []hdrFixed
	for _, f := range c04Corpus {
		var ops []hdrOp
		for _, kv := range f.puts {
			ops = append(ops, hdrOp{kind: "put", k: kv[0], v: kv[1]})
		}
		for _, e := range f.child {
			ops = append(ops, hdrOp{kind: "cput", child: e[0], k: e[1], v: e[2]})
		}
		half := (len(ops) + 1) / 2
		out = append(out, hdrFixed{name: f.name, ver: f.ver, blocks: [][]hdrOp{ops[:half], ops[half:], nil}})
	}
	put := func(k []byte, v []byte) hdrOp { return hdrOp{kind: "put", k: k, v: v} }
	del := func(k []byte) hdrOp { return hdrOp{kind: "del", k: k} }
	cput := func(n string, k, v []byte) hdrOp { return hdrOp{kind: "cput", child: []byte(n), k: k, v: v} }
	for ver := 0; ver < 2; ver++ {
		out = append(out,
			hdrFixed{"main trie = one child-trie root leaf, then the child grows, then it is deleted", ver, [][]hdrOp{
				{cput("c0", []byte{1, 2}, rep(7, 40))}, {cput("c0", []byte{1, 3}, rep(8, 33))}, {{kind: "cdel", child: []byte("c0")}}}},
			hdrFixed{"root leaf shorter than 32 bytes, overwritten, deleted, re-created", ver, [][]hdrOp{
				{put([]byte{0xab}, []byte{1})}, {put([]byte{0xab}, []byte{2})}, {del([]byte{0xab})}, {put([]byte{0xab}, []byte{1})}}},
			hdrFixed{"root leaf with a value of 33 bytes, then a second key turns the root into a branch", ver, [][]hdrOp{
				{put([]byte{0xab}, rep(9, 33))}, {put([]byte{0xac}, rep(9, 33))}, {del([]byte{0xab})}}},
			hdrFixed{"inlined leaves under an inlined branch change block by block", ver, [][]hdrOp{
				{put([]byte{0x12, 0x00}, []byte{1}), put([]byte{0x12, 0x01}, []byte{2}), put([]byte{0x30}, rep(3, 40)), put([]byte{0x40}, rep(4, 40))},
				{put([]byte{0x12, 0x01}, []byte{3})}, {put([]byte{0x12, 0x10}, []byte{})}, {del([]byte{0x12, 0x00})}, {put([]byte{0x12, 0x00}, rep(5, 40))}}},
			hdrFixed{"a block that changes nothing, then one that empties the state", ver, [][]hdrOp{
				{put([]byte{0x01}, rep(1, 40)), put([]byte{0x02}, []byte{2})}, nil, {del([]byte{0x01}), del([]byte{0x02})}, {put([]byte{0x01}, rep(1, 40))}}},
			hdrFixed{"two child tries with different content beside hashed values", ver, [][]hdrOp{
				{put([]byte{0x01}, rep(1, 64)), cput("c0", []byte{1}, rep(2, 50)), cput("c1", []byte{1}, []byte{3})},
				{cput("c1", []byte{2}, rep(4, 33)), {kind: "cclear", child: []byte("c0"), k: []byte{1}}}, {put([]byte{0x01}, []byte{})}}},
		)
	}
	return out
}

func runHdrFixed(c *vcommon.Case, f hdrFixed) {
	pool := [][]byte{{}, {0x12}, {0xab}}
	seen := map[string]bool{}
	var cnames [][]byte
	for _, b := range f.blocks {
		for _, o := range b {
			pool = append(pool, o.k)
			if o.child != nil && !seen[string(o.child)] {
				seen[string(o.child)] = true
				cnames = append(cnames, o.child)
			}
		}
	}
	h, ok := newHdrChain(c, f.ver, profMixed, pool, cnames)
	if !ok {
		return
	}
	h.logf("corpus %s", f.name)
	for i, b := range f.blocks {
		if !h.importBlock(len(h.blocks)-1, b, i%2 == 1, true) {
			return
		}
	}
	// a sibling of the last block on the first block: same parent state, other content
	if len(h.blocks) > 2 {
		c.Count("hdr_fork_siblings", 1)
		h.logf("fork: next block builds on block #1")
		if !h.importBlock(1, []hdrOp{{kind: "put", k: []byte{0x12, 0x01}, v: rep(6, 34)}}, true, true) {
			return
		}
	}
	c.Sample(map[string]any{"group": "hdr-corpus", "corpus": f.name, "version": f.ver, "blocks": len(h.blocks) - 1})
}

// TestVerifC04Hdr decides the same property as TestVerifC04 (the engine's run
// pattern matches both; the driver merges counters and floors).
func TestVerifC04Hdr(t *testing.T) {
	r := vcommon.Start(t, "C04")
	defer r.Finish()
	r.Floor("hdr_storetrie", 1000)
	r.Floor("hdr_storetrie_v0", 300)
	r.Floor("hdr_storetrie_v1", 300)
	r.Floor("hdr_storetrie_with_child_tries", 200)
	r.Floor("hdr_states_whose_root_is_a_leaf", 100)
	r.Floor("hdr_states_root_leaf_with_child_trie", 10)
	r.Floor("hdr_states_with_inlined_nodes", 300)
	r.Floor("hdr_states_with_hashed_values", 150)
	r.Floor("hdr_inlined_branch", 50)
	r.Floor("hdr_inlined_child_of_inlined_branch", 5)
	r.Floor("hdr_hashed_branch_value_v1", 5)
	r.Floor("hdr_cache_miss_successors", 200)
	r.Floor("hdr_cache_hit_successors", 200)
	r.Floor("hdr_fork_siblings", 50)
	r.Floor("hdr_earlier_roots_reread", 1000)
	r.Floor("hdr_changed_hashes_probed", 200)
	r.Floor("hdr_inserted_hashes_reported", 500)
	r.Floor("hdr_getfromdb", 5000)

	corpus := hdrCorpus()
	r.Fixed("hdr-corpus", len(corpus), func(c *vcommon.Case) { runHdrFixed(c, corpus[c.Idx]) })
	r.Cases("hdrchain", r.Scale(400), runHeaderChain)
}
