//go:build verif

package triep_test

import (
	"bytes"
	"encoding/hex"
	"errors"
	"fmt"
	"sort"
	"testing"

	"github.com/ChainSafe/gossamer/dot/state"
	"github.com/ChainSafe/gossamer/internal/database"
	"github.com/ChainSafe/gossamer/lib/common"
	"github.com/ChainSafe/gossamer/pkg/trie/inmemory"
	"github.com/ChainSafe/gossamer/pkg/trie/inmemory/proof"
	"github.com/ChainSafe/gossamer/zz_verif/vcommon"
)

// C05  Storage read proofs are complete and sound.
//
// Oracle: OrdMap membership.
//   completeness  Generate(root, present keys) succeeds and Verify(proof, root, k, v)
//                 succeeds for every requested present (k, v) (and as a membership query);
//   soundness     for EVERY node set N and claim (k, v):  Verify(N, root, k, v) == nil
//                 implies  k is in the state with that root and (len(v) == 0 or state[k] == v).
// Convention honoured: Go-level proof.Verify with a nil / empty value is a
// membership query (comment in verify.go); Generate reports ErrKeyNotFound for
// an absent key (there is no non-membership proof in this API) - counted, not judged.

// ---------------------------------------------------------------------------

type pstate struct {
	ver   int
	model *vcommon.OrdMap
	tbl   database.Table
	db    database.Database // set when tbl is table "storage" of db
	root  common.Hash
	spec  vcommon.SpecNodes // every hashed node of the spec trie (nil when gossamer's root differs from the spec root)
	hist  []string
}

func (s *pstate) witness(extra map[string]any) map[string]any {
	w := map[string]any{"version": s.ver, "state": modelDump(s.model), "root": s.root.String()}
	for k, v := range extra {
		w[k] = v
	}
	return w
}

// buildState persists model m (state version ver) and returns its root.
func buildState(c *vcommon.Case, m *vcommon.OrdMap, ver int, tag string, viaStorageTable bool) (*pstate, *inmemory.InMemoryTrie, bool) {
	tbl, err := caseTable(c, tag)
	if err != nil {
		c.Inconclusive("cannot open the in-memory pebble database: " + err.Error())
		return nil, nil, false
	}
	var db database.Database
	if viaStorageTable {
		// the layout InmemoryStorageState uses: table "storage" of the node database
		db = tableDB{tbl}
		tbl = database.NewTable(db, "storage")
	}
	t := inmemory.NewTrie(nil, tbl)
	t.SetVersion(layout(ver))
	ks, vs := m.Entries()
	for _, i := range c.R.Perm(len(ks)) {
		if err := t.Put(ks[i], vs[i]); err != nil {
			c.Inconclusive("Put failed (not a C05 matter): " + err.Error())
			return nil, nil, false
		}
	}
	root, err := t.Hash()
	if err != nil {
		c.Inconclusive("Hash failed (not a C05 matter): " + err.Error())
		return nil, nil, false
	}
	if d := diffEntries(t.Entries(), m); d != "" {
		c.Inconclusive("in-memory trie differs from the model (not a C05 matter): " + d)
		return nil, nil, false
	}
	if err := t.WriteDirty(tbl); err != nil {
		c.Inconclusive("WriteDirty failed (C04's business): " + err.Error())
		return nil, nil, false
	}
	st := &pstate{ver: ver, model: m, tbl: tbl, db: db, root: root}
	sr, _, nodes := vcommon.SpecRootNodes(m, ver, true)
	if common.Hash(sr) == root {
		st.spec = nodes
	} else {
		c.Count("note_root_ne_spec_root", 1) // C01's business; spec-built node sets are skipped
	}
	return st, t, true
}

// viaStorageState generates through InmemoryStorageState.GenerateTrieProof,
// the call behind the state_getReadProof RPC, on an instance that does not cache the root.
func (s *pstate) viaStorageState(c *vcommon.Case) func(keys [][]byte) ([][]byte, error) {
	return func(keys [][]byte) ([][]byte, error) {
		ss, err := state.NewStorageState(s.db, nil, state.NewTries())
		if err != nil {
			return nil, err
		}
		return ss.GenerateTrieProof(s.root, keys)
	}
}

// specFullProof returns every hashed node of the spec trie plus the raw
// values referenced by hash: a complete, honest (non-minimal) proof that
// shares no code with proof.Generate.
func (s *pstate) specFullProof() [][]byte {
	if s.spec == nil {
		return nil
	}
	hs := make([]string, 0, len(s.spec))
	for h := range s.spec {
		hs = append(hs, h)
	}
	sort.Strings(hs)
	var out [][]byte
	for _, h := range hs {
		out = append(out, s.spec[h])
	}
	if s.ver == 1 {
		_, vs := s.model.Entries()
		seen := map[string]bool{}
		for _, v := range vs {
			if len(v) > 32 && !seen[string(v)] {
				seen[string(v)] = true
				out = append(out, v)
			}
		}
	}
	return out
}

// verify wraps proof.Verify; a panic on a hostile node set is not a
// confirmation: it is counted (decoder robustness is C07/C33's business).
func verifyQuiet(c *vcommon.Case, nodes [][]byte, root common.Hash, k, v []byte, hostile bool) (err error) {
	if hostile {
		defer func() {
			if p := recover(); p != nil {
				c.Count("note_verify_panic_on_hostile_nodes", 1)
				err = fmt.Errorf("panic: %v", p)
			}
		}()
	}
	return proof.Verify(nodes, root[:], k, v)
}

type claim struct {
	k, v []byte
	kind string
}

type nodeSet struct {
	nodes [][]byte
	kind  string
}

func cloneNodes(ns [][]byte) [][]byte {
	out := make([][]byte, len(ns))
	for i := range ns {
		out[i] = append([]byte{}, ns[i]...)
	}
	return out
}

// judge applies the soundness oracle to one (node set, claim) pair.
func judge(c *vcommon.Case, s *pstate, set nodeSet, cl claim) (accepted bool) {
	c.Eval(1)
	c.Count("soundness_decisions", 1)
	err := verifyQuiet(c, set.nodes, s.root, cl.k, cl.v, true)
	if err != nil {
		return false
	}
	have, ok := s.model.Get(cl.k)
	if ok && (len(cl.v) == 0 || bytes.Equal(have, cl.v)) {
		c.Count("true_claims_confirmed_on_perturbed_sets", 1)
		return true
	}
	what := "a value that is not the stored one"
	if !ok {
		what = "a key that is absent from the state"
	}
	c.Violation("soundness", fmt.Sprintf("Verify confirmed %s: key %s value %s (claim kind %q) on node set %q; state has %s",
		what, hx(cl.k), short(cl.v), cl.kind, set.kind, func() string {
			if ok {
				return short(have)
			}
			return "no such key"
		}()),
		s.witness(map[string]any{"key": hx(cl.k), "value": hx(cl.v), "claim_kind": cl.kind, "node_set_kind": set.kind, "nodes": hxs(set.nodes)}))
	return true
}

// falseClaims builds claims about s that are NOT true, close to true ones.
func falseClaims(c *vcommon.Case, s *pstate, foreign *vcommon.OrdMap, focus [][]byte) []claim {
	r := c.R
	var out []claim
	add := func(k, v []byte, kind string) {
		if have, ok := s.model.Get(k); ok && (len(v) == 0 || bytes.Equal(have, v)) {
			return // true claim
		}
		out = append(out, claim{append([]byte{}, k...), append([]byte{}, v...), kind})
	}
	ks, vs := s.model.Entries()
	anyVal := func() []byte {
		if len(vs) == 0 {
			return []byte{1}
		}
		return vcommon.Pick(r, vs)
	}
	for _, k := range focus {
		v, present := s.model.Get(k)
		if !present {
			add(k, nil, "absent-key-membership")
			add(k, anyVal(), "absent-key-with-a-stored-value")
			continue
		}
		// wrong values for a present key
		h := vcommon.Blake256(v)
		add(k, h[:], "hash-of-the-value")
		add(k, append(append([]byte{}, v...), 0), "value-extended")
		if len(v) > 1 {
			add(k, v[:len(v)-1], "value-truncated")
			w := append([]byte{}, v...)
			w[r.Intn(len(w))] ^= 1 << r.Intn(8)
			add(k, w, "value-bit-flipped")
		}
		add(k, anyVal(), "value-of-another-key")
		if foreign != nil {
			if fv, ok := foreign.Get(k); ok {
				add(k, fv, "value-in-the-foreign-state")
			}
		}
		// the proof path of k presented for a different key k'
		for i := 0; i < len(k); i++ {
			add(k[:i], v, "prefix-of-key")
			add(k[:i], nil, "prefix-of-key-membership")
		}
		add(append(append([]byte{}, k...), 0x00), v, "extension-of-key")
		add(append(append([]byte{}, k...), byte(r.Intn(256))), nil, "extension-of-key-membership")
		if len(k) > 0 {
			for _, bit := range []byte{0x01, 0x10} {
				sib := append([]byte{}, k...)
				sib[len(sib)-1] ^= bit
				add(sib, v, "sibling-key")
				add(sib, nil, "sibling-key-membership")
			}
			d := append([]byte{}, k...)
			d[r.Intn(len(d))] ^= vcommon.Pick(r, []byte{0x01, 0x10, 0x0f, 0xf0})
			add(d, v, "divergent-key")
			add(d, nil, "divergent-key-membership")
			if len(k) >= 2 {
				p := r.Intn(len(k) - 1)
				drop := append(append([]byte{}, k[:p+1]...), k[p+2:]...)
				add(drop, v, "key-with-a-byte-dropped")
				add(drop, nil, "key-with-a-byte-dropped-membership")
			}
		}
	}
	if foreign != nil {
		fks, fvs := foreign.Entries()
		for i, k := range fks {
			add(k, fvs[i], "pair-of-the-foreign-state")
			add(k, nil, "key-of-the-foreign-state-membership")
		}
	}
	_ = ks
	return out
}

// hostileSets derives adversarial node sets from an honest proof.
func hostileSets(c *vcommon.Case, honest [][]byte, foreignProof, specAll, foreignAll [][]byte) []nodeSet {
	r := c.R
	var sets []nodeSet
	add := func(kind string, ns [][]byte) {
		sets = append(sets, nodeSet{ns, kind})
		c.Count("sets_"+kind, 1)
	}
	add("honest", honest)
	if len(honest) > 1 {
		p := r.Perm(len(honest))
		ns := make([][]byte, len(honest))
		for i, j := range p {
			ns[i] = honest[j]
		}
		add("reordered", ns)
		rev := make([][]byte, len(honest))
		for i := range honest {
			rev[len(honest)-1-i] = honest[i]
		}
		add("reversed", rev)
	}
	if len(honest) > 0 {
		add("duplicated", append(cloneNodes(honest), honest[r.Intn(len(honest))]))
		add("all-duplicated", append(cloneNodes(honest), honest...))
		for i := range honest {
			if i >= 6 {
				break
			}
			add("one-node-omitted", append(cloneNodes(honest[:i]), honest[i+1:]...))
		}
		for n := 0; n < 8; n++ {
			ns := cloneNodes(honest)
			i := r.Intn(len(ns))
			if len(ns[i]) == 0 {
				continue
			}
			ns[i][r.Intn(len(ns[i]))] ^= 1 << r.Intn(8)
			add("bit-flipped", ns)
		}
		for n := 0; n < 3; n++ { // keep the original next to the altered copy
			ns := cloneNodes(honest)
			i := r.Intn(len(ns))
			if len(ns[i]) == 0 {
				continue
			}
			alt := append([]byte{}, ns[i]...)
			alt[r.Intn(len(alt))] ^= 1 << r.Intn(8)
			add("altered-copy-added", append(ns, alt))
		}
		{
			ns := cloneNodes(honest)
			i := r.Intn(len(ns))
			if len(ns[i]) > 1 {
				ns[i] = ns[i][:r.Range(1, len(ns[i])-1)]
				add("node-truncated", ns)
			}
		}
		{
			ns := cloneNodes(honest)
			i := r.Intn(len(ns))
			ns[i] = append(ns[i], r.Bytes(r.Range(1, 4))...)
			add("node-extended", ns)
		}
		add("junk-added", append(cloneNodes(honest), r.Bytes(r.Range(1, 80)), []byte{0}, []byte{}))
	}
	if len(foreignProof) > 0 {
		add("foreign-proof-only", foreignProof)
		add("honest-plus-foreign-proof", append(cloneNodes(honest), foreignProof...))
		add("foreign-proof-plus-honest", append(cloneNodes(foreignProof), honest...))
		if len(honest) > 1 { // honest root with the rest taken from the foreign state
			add("honest-root-foreign-rest", append([][]byte{honest[0]}, foreignProof...))
		}
	}
	if len(specAll) > 0 {
		add("all-nodes-of-the-state", specAll)
		if len(foreignAll) > 0 {
			add("all-nodes-of-both-states", append(cloneNodes(specAll), foreignAll...))
			add("all-nodes-of-foreign-state", foreignAll)
		}
	}
	add("empty", nil)
	return sets
}

// ---------------------------------------------------------------------------

// checkProofs runs completeness and soundness for one state, one requested
// key set (present keys) and some absent keys.
func checkProofs(c *vcommon.Case, st *pstate, foreign *pstate, req, absent [][]byte, gen func(keys [][]byte) ([][]byte, error)) {
	// ---- completeness
	c.Eval(1)
	c.Count("proofs_generated", 1)
	honest, err := gen(req)
	if err != nil {
		c.Violation("generate-error", fmt.Sprintf("Generate for present keys %v failed: %v", hxs(req), err),
			st.witness(map[string]any{"keys": hxs(req)}))
		return
	}
	for _, k := range req {
		v, _ := st.model.Get(k)
		c.Eval(2)
		c.Count("present_pairs_checked", 1)
		if st.ver == 1 && len(v) > 32 {
			c.Count("present_pairs_with_hashed_value", 1)
		}
		if len(v) == 0 {
			c.Count("present_pairs_with_empty_value", 1)
		}
		if err := proof.Verify(honest, st.root[:], k, v); err != nil {
			c.Violation("completeness", fmt.Sprintf("Verify(Generate(root,%v), root, %s, %s) failed: %v", hxs(req), hx(k), short(v), err),
				st.witness(map[string]any{"keys": hxs(req), "key": hx(k), "value": hx(v), "nodes": hxs(honest)}))
			continue
		}
		if err := proof.Verify(honest, st.root[:], k, nil); err != nil {
			c.Violation("completeness-membership", fmt.Sprintf("membership Verify(Generate(root,%v), root, %s, nil) failed: %v", hxs(req), hx(k), err),
				st.witness(map[string]any{"keys": hxs(req), "key": hx(k), "nodes": hxs(honest)}))
		}
	}
	if c.Failed() {
		return
	}
	// "The order of proofs is ignored" (verify.go): a reordered honest proof still verifies
	if len(honest) > 1 {
		rev := make([][]byte, len(honest))
		for i := range honest {
			rev[len(honest)-1-i] = honest[i]
		}
		for _, k := range req {
			v, _ := st.model.Get(k)
			c.Eval(1)
			if err := proof.Verify(rev, st.root[:], k, v); err != nil {
				c.Violation("completeness-reordered", fmt.Sprintf("reversed honest proof does not verify %s: %v", hx(k), err),
					st.witness(map[string]any{"keys": hxs(req), "key": hx(k), "nodes": hxs(rev)}))
			}
		}
	}
	// a complete node set built from the specification (independent of Generate) verifies every pair
	specAll := st.specFullProof()
	if specAll != nil {
		ks, vs := st.model.Entries()
		for i, k := range ks {
			c.Eval(1)
			c.Count("pairs_verified_on_spec_built_nodes", 1)
			if err := proof.Verify(specAll, st.root[:], k, vs[i]); err != nil {
				c.Violation("completeness-spec-nodes", fmt.Sprintf("the complete spec-built node set does not verify present pair %s=%s: %v", hx(k), short(vs[i]), err),
					st.witness(map[string]any{"key": hx(k), "value": hx(vs[i]), "nodes": hxs(specAll)}))
				break
			}
		}
	}
	// requested set containing absent keys: ErrKeyNotFound is the documented answer
	var withAbsent [][]byte
	if len(absent) > 0 {
		c.Eval(1)
		all := append(append([][]byte{}, req...), absent...)
		ga, err := gen(all)
		switch {
		case err == nil:
			c.Count("generate_succeeded_with_absent_key", 1)
			withAbsent = ga
		case errors.Is(err, proof.ErrKeyNotFound):
			c.Count("generate_refused_absent_key", 1)
		default:
			c.Violation("generate-error", fmt.Sprintf("Generate for keys %v failed with an undocumented error: %v", hxs(all), err),
				st.witness(map[string]any{"keys": hxs(all)}))
		}
	}
	if c.Failed() {
		return
	}

	// ---- soundness
	var foreignModel *vcommon.OrdMap
	var foreignProof, foreignAll [][]byte
	if foreign != nil {
		foreignModel = foreign.model
		var fkeys [][]byte
		for _, k := range append(append([][]byte{}, req...), absent...) {
			if _, ok := foreign.model.Get(k); ok {
				fkeys = append(fkeys, k)
			}
		}
		if len(fkeys) > 0 {
			if fp, err := proof.Generate(foreign.root[:], fkeys, foreign.tbl); err == nil {
				foreignProof = fp
			}
		}
		foreignAll = foreign.specFullProof()
	}
	focus := append(append([][]byte{}, req...), absent...)
	claims := falseClaims(c, st, foreignModel, focus)
	// true claims ride along: they may or may not be confirmed on a perturbed set, both are sound
	for _, k := range req {
		v, _ := st.model.Get(k)
		claims = append(claims, claim{k, v, "true-pair"}, claim{k, nil, "true-membership"})
	}
	sets := hostileSets(c, honest, foreignProof, specAll, foreignAll)
	if withAbsent != nil {
		sets = append(sets, nodeSet{withAbsent, "generated-for-a-set-with-absent-keys"})
	}
	for _, cl := range claims {
		c.Count("claims_"+cl.kind, 1)
	}
	c.Count("hostile_node_sets", len(sets))
	for _, set := range sets {
		for _, cl := range claims {
			judge(c, st, set, cl)
			if c.Failed() {
				return
			}
		}
	}
	// hashed values: the proof without the value node must not confirm anything false
	// (covered by "one-node-omitted"); count how many proofs carried value nodes.
	for _, n := range honest {
		h := vcommon.Blake256(n)
		if st.spec != nil {
			if _, isNode := st.spec[hex.EncodeToString(h[:])]; !isNode {
				c.Count("value_nodes_in_generated_proofs", 1)
			}
		}
	}
}

// ---------------------------------------------------------------------------
// fixed corpus

type c05Fixed struct {
	name   string
	ver    int
	puts   [][2][]byte
	req    [][]byte
	absent [][]byte
	extra  []claim // extra false claims judged on the honest proof and on all nodes
}

var c05Corpus = []c05Fixed{
	{name: "v1-hashed-leaf-value", ver: 1,
		puts: [][2][]byte{{{0x12, 0x34}, {1}}, {{0x12, 0x34, 0x5a}, rep(8, 40)}, {{0x77}, {1}}},
		req:  [][]byte{{0x12, 0x34, 0x5a}}},
	{name: "v1-hashed-branch-value", ver: 1,
		puts: [][2][]byte{{{0x12, 0x34}, rep(7, 40)}, {{0x12, 0x34, 0x5a}, {2}}, {{0x12, 0x34, 0x6a}, {3}}, {{0x77}, {1}}},
		req:  [][]byte{{0x12, 0x34}}},
	{name: "v1-hashed-root-leaf", ver: 1, puts: [][2][]byte{{{0xab}, rep(9, 33)}}, req: [][]byte{{0xab}}},
	{name: "v1-same-hashed-value-under-two-keys", ver: 1,
		puts: [][2][]byte{{{0x12, 0x34}, rep(7, 40)}, {{0x12, 0x34, 0x5a}, rep(7, 40)}, {{0x99}, rep(7, 40)}},
		req:  [][]byte{{0x12, 0x34}, {0x12, 0x34, 0x5a}, {0x99}}},
	{name: "inlined-leaf-with-empty-value", ver: 0,
		puts: [][2][]byte{{{0x12, 0x34}, rep(7, 40)}, {{0x12, 0x34, 0x6a}, {}}, {{0x77}, {1}}},
		req:  [][]byte{{0x12, 0x34, 0x6a}}},
	{name: "inlined-branch-with-empty-values", ver: 0,
		puts: [][2][]byte{{{0x12, 0x00}, {}}, {{0x12, 0x01}, {}}, {{0x12, 0x10}, {}}, {{0x30}, rep(3, 40)}, {{0x40}, rep(4, 40)}},
		req:  [][]byte{{0x12, 0x00}, {0x12, 0x10}}, absent: [][]byte{{0x12}, {0x12, 0x02}}},
	{name: "proof-for-0x12345a-presented-for-0x125a", ver: 0,
		puts:   [][2][]byte{{{0x12, 0x34, 0x5a}, rep(8, 40)}, {{0x12, 0x34, 0x6a}, rep(9, 40)}, {{0x77}, rep(1, 40)}},
		req:    [][]byte{{0x12, 0x34, 0x5a}},
		absent: [][]byte{{0x12, 0x5a}, {0x12, 0x34}, {0x12}, {}},
		extra:  []claim{{[]byte{0x12, 0x5a}, rep(8, 40), "key-with-a-byte-dropped"}, {[]byte{0x12, 0x5a}, nil, "key-with-a-byte-dropped-membership"}}},
	{name: "empty-key-vs-root-branch-value", ver: 0,
		puts:   [][2][]byte{{{0x12}, rep(1, 40)}, {{0x12, 0x34}, rep(2, 40)}, {{0x12, 0x35}, rep(3, 40)}},
		req:    [][]byte{{0x12}, {0x12, 0x34}},
		absent: [][]byte{{}},
		extra:  []claim{{[]byte{}, rep(1, 40), "prefix-of-key"}, {[]byte{}, nil, "prefix-of-key-membership"}}},
	{name: "empty-key-present", ver: 1, puts: [][2][]byte{{{}, rep(5, 50)}, {{0x01}, {1}}, {{0xf1}, {2}}}, req: [][]byte{{}, {0x01}}},
	{name: "value-exactly-32-bytes-v1", ver: 1, puts: [][2][]byte{{{0xab}, rep(9, 32)}, {{0xac}, rep(9, 33)}}, req: [][]byte{{0xab}, {0xac}}},
	{name: "63-nibble-partial-key", ver: 1,
		puts: [][2][]byte{{append([]byte{0x10}, rep(0xaa, 32)...), rep(1, 40)}, {append([]byte{0x20}, rep(0xbb, 31)...), rep(2, 2)}, {{0x30}, {}}},
		req:  [][]byte{append([]byte{0x10}, rep(0xaa, 32)...), {0x30}}},
}

func runC05Fixed(c *vcommon.Case, f c05Fixed) {
	m := vcommon.NewOrdMap()
	for _, kv := range f.puts {
		m.Put(kv[0], kv[1])
	}
	st, t, ok := buildState(c, m, f.ver, "p", false)
	if !ok {
		return
	}
	shapeOf(t).count(c, "")
	// foreign state: one value changed, one key added
	fm := m.Clone()
	if len(f.req) > 0 {
		fm.Put(f.req[0], append([]byte{0xee}, rep(0xee, 35)...))
	}
	fm.Put([]byte{0x12, 0x5a}, rep(8, 40))
	fs, _, ok := buildState(c, fm, f.ver, "f", false)
	if !ok {
		return
	}
	checkProofs(c, st, fs, f.req, f.absent, func(keys [][]byte) ([][]byte, error) { return proof.Generate(st.root[:], keys, st.tbl) })
	if c.Failed() || len(f.extra) == 0 {
		return
	}
	honest, err := proof.Generate(st.root[:], f.req, st.tbl)
	if err != nil {
		return
	}
	for _, set := range []nodeSet{{honest, "honest"}, {st.specFullProof(), "all-nodes-of-the-state"}} {
		for _, cl := range f.extra {
			judge(c, st, set, cl)
		}
	}
	c.Sample(map[string]any{"corpus": f.name, "root": st.root.String(), "proof_nodes": len(honest)})
}

// ---------------------------------------------------------------------------

func TestVerifC05(t *testing.T) {
	r := vcommon.Start(t, "C05")
	defer r.Finish()
	if err := vcommon.SpecSelfCheck(); err != nil {
		r.Cases("selfcheck", 1, func(c *vcommon.Case) { c.Inconclusive(err.Error()) })
		return
	}
	r.Floor("proofs_generated", 200)
	r.Floor("present_pairs_checked", 400)
	r.Floor("present_pairs_with_hashed_value", 60)
	r.Floor("present_pairs_with_empty_value", 20)
	r.Floor("value_nodes_in_generated_proofs", 40)
	r.Floor("soundness_decisions", 50000)
	r.Floor("true_claims_confirmed_on_perturbed_sets", 1000)
	r.Floor("states_v0", 50)
	r.Floor("states_v1", 50)
	r.Floor("generate_refused_absent_key", 30)
	r.Floor("sets_one-node-omitted", 100)
	r.Floor("sets_duplicated", 100)
	r.Floor("sets_reordered", 50)
	r.Floor("sets_bit-flipped", 300)
	r.Floor("sets_honest-plus-foreign-proof", 100)
	r.Floor("sets_all-nodes-of-both-states", 50)
	r.Floor("claims_prefix-of-key", 100)
	r.Floor("claims_extension-of-key", 100)
	r.Floor("claims_sibling-key", 100)
	r.Floor("claims_divergent-key", 100)
	r.Floor("claims_key-with-a-byte-dropped", 50)
	r.Floor("claims_hash-of-the-value", 100)
	r.Floor("claims_value-in-the-foreign-state", 50)
	r.Floor("claims_absent-key-membership", 100)
	r.Floor("inlined_branch", 20)
	r.Floor("node_encoding_31_bytes_inlined", 5)
	r.Floor("node_encoding_32_bytes_hashed", 5)
	r.Floor("inlined_empty_leaf", 10)
	r.Floor("hashed_branch_value_v1", 5)
	r.Floor("proofs_via_storage_state", 20)

	r.Fixed("corpus", len(c05Corpus), func(c *vcommon.Case) { runC05Fixed(c, c05Corpus[c.Idx]) })

	r.Cases("proof", r.Scale(400), func(c *vcommon.Case) {
		ver := c.R.Intn(2)
		prof := c.R.Intn(nProfiles)
		pool := genKeyPool(c.R, c.R.Range(3, 18))
		if c.R.Chance(1, 8) { // one- and two-key states: the root is a leaf / a tiny branch
			pool = pool[:c.R.Range(1, 2)]
		}
		m := vcommon.NewOrdMap()
		for _, k := range pool {
			if c.R.Chance(4, 5) {
				m.Put(k, genValue(c.R, prof))
			}
		}
		if m.Len() == 0 {
			m.Put(pool[0], genValue(c.R, prof))
		}
		via := c.R.Chance(1, 5)
		st, t, ok := buildState(c, m, ver, "p", via)
		if !ok {
			return
		}
		sh := shapeOf(t)
		sh.count(c, "")
		c.Count(fmt.Sprintf("states_v%d", ver), 1)

		// foreign state: same keys with one or two values changed, a key added, a key removed
		fm := m.Clone()
		ks := m.Keys()
		for i := 0; i < c.R.Range(1, 2); i++ {
			fm.Put(vcommon.Pick(c.R, ks), genValue(c.R, c.R.Intn(nProfiles)))
		}
		probes := absentProbes(c.R, m, 40)
		if len(probes) > 0 {
			fm.Put(vcommon.Pick(c.R, probes), genValue(c.R, prof))
		}
		if fm.Len() > 1 && c.R.Bool() {
			fm.Delete(vcommon.Pick(c.R, ks))
		}
		fs, _, ok := buildState(c, fm, ver, "f", false)
		if !ok {
			return
		}

		// requested keys: 1..4 present keys; 0..2 absent keys close to present ones
		var req [][]byte
		for _, i := range c.R.Perm(len(ks)) {
			if len(req) >= c.R.Range(1, 4) {
				break
			}
			req = append(req, ks[i])
		}
		var absent [][]byte
		for i := 0; i < c.R.Intn(3) && len(probes) > 0; i++ {
			absent = append(absent, vcommon.Pick(c.R, probes))
		}
		gen := func(keys [][]byte) ([][]byte, error) { return proof.Generate(st.root[:], keys, st.tbl) }
		if via {
			c.Count("proofs_via_storage_state", 1)
			gen = st.viaStorageState(c)
		}
		checkProofs(c, st, fs, req, absent, gen)
		if sh.nodes > 1 {
			c.Distinct(fmt.Sprintf("v%d|%s|req%d|abs%d", ver, sh.sig.String(), len(req), len(absent)))
		}
		c.Sample(map[string]any{"version": ver, "keys": m.Len(), "requested": hxs(req), "absent_requested": hxs(absent), "shape": sh.sig.String()})
	})
}
