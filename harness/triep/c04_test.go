//go:build verif

package triep_test

import (
	"bytes"
	"errors"
	"fmt"
	"strings"
	"testing"

	"github.com/ChainSafe/gossamer/dot/state"
	"github.com/ChainSafe/gossamer/internal/database"
	"github.com/ChainSafe/gossamer/lib/common"
	"github.com/ChainSafe/gossamer/pkg/trie"
	"github.com/ChainSafe/gossamer/pkg/trie/inmemory"
	"github.com/ChainSafe/gossamer/zz_verif/vcommon"
)

// C04  Persisted state reads back identically.
//
// Oracle: an OrdMap shadow of the main trie and of each child trie, kept in
// lock-step with the operations applied to the real InMemoryTrie. After every
// WriteDirty / StoreTrie the persisted root is (a) re-loaded with Load and
// compared (root, entries, child tries), (b) read key by key with GetFromDB
// (present keys must give the model value, absent keys nil), (c) mutated once
// more on the loaded copy and on an in-memory snapshot: both must reach the
// same root (the reloaded state behaves as the same state). All roots of a
// chain are re-checked at the end (older states stay readable after later
// incremental writes).

// ---------------------------------------------------------------------------
// state under test + model

type childModels map[string]*vcommon.OrdMap

func (cm childModels) clone() childModels {
	o := childModels{}
	for k, v := range cm {
		o[k] = v.Clone()
	}
	return o
}

type persisted struct {
	root   common.Hash
	main   *vcommon.OrdMap
	childs childModels
	step   int
}

type chain struct {
	c      *vcommon.Case
	tbl    database.Table
	ver    int // version of NEW writes
	mixed  bool
	prof   int
	pool   [][]byte
	ckeys  [][]byte // child trie names
	cur    *inmemory.InMemoryTrie
	main   *vcommon.OrdMap
	childs childModels
	hist   []string
	saved  []persisted
}

func childStorageKey(name []byte) []byte {
	return append(append([]byte{}, inmemory.ChildStorageKeyPrefix...), name...)
}

func (ch *chain) logf(f string, a ...any) { ch.hist = append(ch.hist, fmt.Sprintf(f, a...)) }

func (ch *chain) witness(extra map[string]any) map[string]any {
	w := map[string]any{"version_of_writes": ch.ver, "mixed_versions": ch.mixed, "history": ch.hist}
	for k, v := range extra {
		w[k] = v
	}
	return w
}

// syncChildRoot copies the child root stored by the in-memory trie into the
// main model (the in-memory state is the reference for that entry).
func (ch *chain) syncChildRoot(name []byte) {
	ck := childStorageKey(name)
	if v := ch.cur.Get(ck); v != nil {
		ch.main.Put(ck, v)
	} else {
		ch.main.Delete(ck)
	}
}

var errStopChain = errors.New("stop chain")

// applyOp applies one random operation to the trie and to the model.
func (ch *chain) applyOp() error {
	r := ch.c.R
	k := vcommon.Pick(r, ch.pool)
	switch x := r.Intn(100); {
	case x < 55: // put / overwrite / overwrite with the same value
		v := genValue(r, ch.prof)
		if old, ok := ch.main.Get(k); ok && r.Chance(1, 5) {
			v = old
		}
		ch.logf("put %s %s", hx(k), hx(v))
		ch.main.Put(k, v)
		return ch.cur.Put(k, v)
	case x < 72: // delete (present or absent)
		if ks := ch.main.Keys(); len(ks) > 0 && r.Chance(3, 4) {
			k = vcommon.Pick(r, ks)
		}
		if bytes.HasPrefix(k, inmemory.ChildStorageKeyPrefix) {
			return nil
		}
		ch.logf("delete %s", hx(k))
		ch.main.Delete(k)
		return ch.cur.Delete(k)
	case x < 76: // clear prefix (byte prefix not ending in a zero nibble: C02/C38 territory otherwise)
		if len(k) == 0 || k[len(k)-1]&0x0f == 0 {
			return nil
		}
		p := k[:r.Range(1, len(k))]
		if p[len(p)-1]&0x0f == 0 || bytes.HasPrefix(inmemory.ChildStorageKeyPrefix, p) {
			return nil
		}
		ch.logf("clearprefix %s", hx(p))
		ch.main.ClearPrefix(p)
		return ch.cur.ClearPrefix(p)
	default: // child tries
		if len(ch.ckeys) == 0 {
			return nil
		}
		name := vcommon.Pick(r, ch.ckeys)
		cm := ch.childs[string(name)]
		if dn, croot, bad := danglingChild(ch.cur, ch.ckeys); bad {
			// C04-K1 already struck inside this block: the next child operation would
			// dereference the missing child trie (PutIntoChild panics on it).
			ch.c.Known("C04-K1", fmt.Sprintf("in-memory state is ill-formed: main trie stores child root %s for child %s but the child trie object is gone (child tries with equal content alias each other)", hx(croot), hx(dn)),
				ch.witness(map[string]any{"child": hx(dn), "child_root": hx(croot)}))
			return errStopChain
		}
		switch y := r.Intn(10); {
		case y < 7:
			v := genValue(r, ch.prof)
			ch.logf("child %s put %s %s", hx(name), hx(k), hx(v))
			if err := ch.cur.PutIntoChild(name, k, v); err != nil {
				return err
			}
			if cm == nil {
				cm = vcommon.NewOrdMap()
				ch.childs[string(name)] = cm
			}
			cm.Put(k, v)
		case y < 9:
			if cm == nil {
				return nil
			}
			if ks := cm.Keys(); len(ks) > 0 && r.Chance(3, 4) {
				k = vcommon.Pick(r, ks)
			}
			ch.logf("child %s clear %s", hx(name), hx(k))
			if err := ch.cur.ClearFromChild(name, k); err != nil {
				return err
			}
			cm.Delete(k)
			if cm.Len() == 0 {
				delete(ch.childs, string(name))
			}
		default:
			if cm == nil {
				return nil
			}
			ch.logf("child %s delete-child", hx(name))
			if err := ch.cur.DeleteChild(name); err != nil {
				return err
			}
			delete(ch.childs, string(name))
		}
		ch.syncChildRoot(name)
	}
	return nil
}

// ---------------------------------------------------------------------------
// the monitor

// checkPersisted decides (a) Load, (b) GetFromDB, for one persisted root.
func (ch *chain) checkPersisted(p persisted, when string) (loaded *inmemory.InMemoryTrie) {
	c := ch.c
	wit := func(extra map[string]any) map[string]any {
		extra["root"] = p.root.String()
		extra["persisted_at_step"] = p.step
		extra["checked"] = when
		extra["model_main"] = modelDump(p.main)
		return ch.witness(extra)
	}

	// (a) Load by root hash
	l := inmemory.NewTrie(nil, ch.tbl)
	c.Eval(1)
	c.Count("loads", 1)
	if err := l.Load(ch.tbl, p.root); err != nil {
		cls := "load-error"
		if len(p.childs) > 0 && strings.Contains(err.Error(), "child trie") {
			cls = "load-child-error"
		}
		c.Violation(cls, fmt.Sprintf("Load(%s) after WriteDirty: %v", p.root, err), wit(map[string]any{}))
		l = nil
	} else {
		c.Eval(2)
		if h, err := l.Hash(); err != nil || h != p.root {
			c.Violation("load-root", fmt.Sprintf("loaded trie hashes to %s err=%v, persisted root %s", h, err, p.root), wit(map[string]any{}))
		}
		if d := diffEntries(l.Entries(), p.main); d != "" {
			c.Violation("load-entries", "entries of the loaded trie differ from the persisted state: "+d, wit(map[string]any{}))
		}
		// child tries
		for name, cm := range p.childs {
			c.Eval(1)
			c.Count("child_tries_reloaded", 1)
			ct, err := l.GetChild([]byte(name))
			if err != nil || ct == nil {
				c.Violation("load-child-missing", fmt.Sprintf("child trie %s missing after Load: err=%v", hx([]byte(name)), err),
					wit(map[string]any{"child": hx([]byte(name)), "model_child": modelDump(cm)}))
				continue
			}
			if d := diffEntries(ct.Entries(), cm); d != "" {
				c.Violation("load-child-entries", fmt.Sprintf("child trie %s differs after Load: %s", hx([]byte(name)), d),
					wit(map[string]any{"child": hx([]byte(name)), "model_child": modelDump(cm)}))
			}
			want, _ := p.main.Get(childStorageKey([]byte(name)))
			if h, err := ct.Hash(); err != nil || !bytes.Equal(h[:], want) {
				c.Violation("load-child-root", fmt.Sprintf("child trie %s root %s err=%v, main trie stores %s", hx([]byte(name)), h, err, hx(want)),
					wit(map[string]any{"child": hx([]byte(name))}))
			}
		}
		roots := map[string]bool{}
		for name := range p.childs {
			v, _ := p.main.Get(childStorageKey([]byte(name)))
			roots[string(v)] = true
		}
		if got := len(l.GetChildTries()); got != len(roots) {
			c.Violation("load-child-count", fmt.Sprintf("loaded trie has %d child tries, state has %d distinct child roots", got, len(roots)), wit(map[string]any{}))
		}
	}

	// (b) GetFromDB: every present key, and absent keys near present ones
	readAll := func(root common.Hash, m *vcommon.OrdMap, label string) {
		ks, vs := m.Entries()
		for i, k := range ks {
			c.Eval(1)
			c.Count("getfromdb_present", 1)
			got, err := inmemory.GetFromDB(ch.tbl, root, k)
			if err != nil || got == nil || !bytes.Equal(got, vs[i]) {
				cls := "getfromdb-present"
				if err != nil {
					cls = "getfromdb-error"
				}
				c.Violation(cls, fmt.Sprintf("%sGetFromDB(%s)=%s err=%v, state has %s", label, hx(k), short(got), err, short(vs[i])),
					wit(map[string]any{"key": hx(k), "got": hx(got), "want": hx(vs[i]), "trie": label}))
			}
		}
		for _, k := range absentProbes(c.R, m, 24) {
			c.Eval(1)
			c.Count("getfromdb_absent", 1)
			got, err := inmemory.GetFromDB(ch.tbl, root, k)
			if err != nil || got != nil {
				cls := "getfromdb-absent"
				if err != nil {
					cls = "getfromdb-error"
				}
				c.Violation(cls, fmt.Sprintf("%sGetFromDB(%s)=%s err=%v for a key that is absent from the state", label, hx(k), short(got), err),
					wit(map[string]any{"key": hx(k), "got": hx(got), "trie": label}))
			}
		}
	}
	readAll(p.root, p.main, "")
	for name, cm := range p.childs {
		v, _ := p.main.Get(childStorageKey([]byte(name)))
		if len(v) == 32 {
			c.Count("child_tries_read_by_key", 1)
			readAll(common.BytesToHash(v), cm, "child "+hx([]byte(name))+": ")
		}
	}
	return l
}

// danglingChild is the attribution predicate of known finding C04-K1. It
// decides from the in-memory state alone: the main trie stores a child root
// under a child storage key, but the trie has no child trie object for it.
// (InMemoryTrie.childTries is keyed by child ROOT HASH: two child tries with
// equal content share one entry, and PutIntoChild / ClearFromChild on one of
// them delete / mutate the entry the other key still refers to.) Such a
// state is ill-formed before any persistence happens; nothing else is excused.
func danglingChild(t *inmemory.InMemoryTrie, names [][]byte) (name, root []byte, found bool) {
	for _, n := range names {
		r := t.Get(childStorageKey(n))
		if r == nil {
			continue
		}
		if ct, err := t.GetChild(n); err == nil && ct == nil {
			return n, r, true
		}
	}
	return nil, nil, false
}

func mapToModel(e map[string][]byte) *vcommon.OrdMap {
	m := vcommon.NewOrdMap()
	for k, v := range e {
		m.Put([]byte(k), v)
	}
	return m
}

func (ch *chain) resync() {
	if d := diffEntries(ch.cur.Entries(), ch.main); d != "" {
		ch.c.Count("note_model_resynced_to_inmemory_main", 1)
		ch.logf("(model resynchronised to the in-memory main trie: %s)", d)
		ch.main = mapToModel(ch.cur.Entries())
	}
	for _, name := range ch.ckeys {
		cm := ch.childs[string(name)]
		var obs map[string][]byte
		if ch.cur.Get(childStorageKey(name)) != nil {
			if ct, err := ch.cur.GetChild(name); err == nil && ct != nil {
				obs = ct.Entries()
			}
		}
		switch {
		case obs == nil && cm == nil:
		case obs == nil:
			ch.c.Count("note_model_resynced_to_inmemory_child", 1)
			ch.logf("(model: child %s is gone in memory)", hx(name))
			delete(ch.childs, string(name))
		case cm == nil || diffEntries(obs, cm) != "":
			ch.c.Count("note_model_resynced_to_inmemory_child", 1)
			ch.logf("(model resynchronised to in-memory child %s)", hx(name))
			ch.childs[string(name)] = mapToModel(obs)
		}
	}
}

// persist writes the current trie and checks it.
func (ch *chain) persist(step int) (loaded *inmemory.InMemoryTrie, ok bool) {
	c := ch.c
	root, err := ch.cur.Hash()
	if err != nil {
		c.Violation("hash-error", err.Error(), ch.witness(nil))
		return nil, false
	}
	// precondition: the in-memory trie is the state the model describes. The
	// in-memory state is the reference of this property: when a defect of the
	// in-memory operations (C02's business, e.g. Delete("") removing a root
	// leaf) made it drift, the model is re-synchronised to what is observed.
	if name, croot, bad := danglingChild(ch.cur, ch.ckeys); bad {
		c.Known("C04-K1", fmt.Sprintf("in-memory state is ill-formed before persisting: main trie stores child root %s for child %s but the child trie object is gone (child tries with equal content alias each other)", hx(croot), hx(name)),
			ch.witness(map[string]any{"child": hx(name), "child_root": hx(croot)}))
		return nil, false
	}
	ch.resync()
	sh := shapeOf0(ch.cur, root)
	sh.count(c, "")
	if sh.nodes > 1 {
		c.Distinct(fmt.Sprintf("v%d|%s|c%d", ch.ver, sh.sig.String(), len(ch.childs)))
	}
	if ch.ver == 1 || ch.mixed {
		c.Count("persists_v1", 1)
	} else {
		c.Count("persists_v0", 1)
	}
	if len(ch.childs) > 0 {
		c.Count("persists_with_child_tries", 1)
	}
	if step > 0 {
		c.Count("incremental_persists", 1)
	}
	ch.logf("persist #%d root %s", step, root)
	if err := ch.cur.WriteDirty(ch.tbl); err != nil {
		c.Violation("writedirty-error", err.Error(), ch.witness(nil))
		return nil, false
	}
	p := persisted{root: root, main: ch.main.Clone(), childs: ch.childs.clone(), step: step}
	ch.saved = append(ch.saved, p)
	before := c.Failed()
	loaded = ch.checkPersisted(p, "right after persisting")
	if loaded == nil || (!before && c.Failed()) {
		return loaded, false
	}

	// (c) the reloaded state behaves as the same state: one more mutation on
	// the loaded copy and on an in-memory snapshot must reach the same root.
	if !ch.mixed && len(ch.pool) > 0 {
		k := vcommon.Pick(c.R, ch.pool)
		if ks := ch.main.Keys(); len(ks) > 0 && c.R.Bool() {
			k = vcommon.Pick(c.R, ks)
		}
		if bytes.HasPrefix(k, inmemory.ChildStorageKeyPrefix) {
			return loaded, true
		}
		mem := ch.cur.Snapshot()
		l2 := loaded.Snapshot()
		l2.SetVersion(layout(ch.ver))
		m2 := ch.main.Clone()
		var op string
		var e1, e2 error
		if _, present := m2.Get(k); present && c.R.Bool() {
			op = "delete " + hx(k)
			m2.Delete(k)
			e1, e2 = mem.Delete(k), l2.Delete(k)
		} else {
			v := genValue(c.R, ch.prof)
			op = "put " + hx(k) + " " + hx(v)
			m2.Put(k, v)
			e1, e2 = mem.Put(k, v), l2.Put(k, v)
		}
		c.Eval(1)
		c.Count("post_load_mutations", 1)
		h1, e3 := mem.Hash()
		h2, e4 := l2.Hash()
		if e1 != nil || e2 != nil || e3 != nil || e4 != nil || h1 != h2 {
			c.Violation("load-then-mutate", fmt.Sprintf("after %q the reloaded trie has root %s (errs %v %v), the in-memory one %s (errs %v %v)", op, h2, e2, e4, h1, e1, e3),
				ch.witness(map[string]any{"root": root.String(), "op": op, "model_main": modelDump(p.main)}))
		} else if spec := vcommon.SpecRoot(m2, ch.ver); common.Hash(spec) != h1 {
			c.Count("note_inmemory_root_ne_spec", 1) // C01's business, not decided here
		}
		// the shared nodes must not have been disturbed
		if h, _ := ch.cur.Hash(); h != root {
			c.Count("note_snapshot_mutation_changed_original_root", 1) // C03's business
		}
	}
	return loaded, true
}

// shapeOf0 tolerates the empty trie.
func shapeOf0(t *inmemory.InMemoryTrie, root common.Hash) *shape {
	if root == trie.EmptyHash {
		return &shape{}
	}
	return shapeOf(t)
}

func runChain(c *vcommon.Case, ch *chain, steps int, opsPerStep func() int) {
	for step := 0; step < steps; step++ {
		for i, n := 0, opsPerStep(); i < n; i++ {
			if err := ch.applyOp(); err == errStopChain {
				return
			} else if err != nil {
				c.Inconclusive("trie operation failed (not a C04 matter): " + err.Error())
				return
			}
		}
		loaded, ok := ch.persist(step)
		if !ok {
			return
		}
		if step == steps-1 {
			break
		}
		if ch.mixed && step == 0 {
			ch.ver = 1
			ch.logf("setversion 1")
		}
		// how the next block state is derived
		switch x := c.R.Intn(10); {
		case x < 5:
			ch.cur = ch.cur.Snapshot()
			ch.logf("snapshot")
		case x < 8 && loaded != nil:
			ch.cur = loaded.Snapshot() // "restart": continue from the reloaded state
			ch.logf("continue-from-reloaded")
			c.Count("chains_continued_from_reloaded_trie", 1)
		default:
			ch.logf("continue-same-trie")
		}
		ch.cur.SetVersion(layout(ch.ver))
	}
	// older roots stay readable after the later incremental writes
	for _, p := range ch.saved[:len(ch.saved)-1] {
		c.Count("older_roots_rechecked", 1)
		ch.checkPersisted(p, "at the end of the chain")
	}
	c.Sample(map[string]any{"persisted_roots": len(ch.saved), "final_keys": ch.main.Len(), "child_tries": len(ch.childs),
		"version": ch.ver, "mixed": ch.mixed, "ops": len(ch.hist)})
}

func newChain(c *vcommon.Case, ver, prof int, mixed bool, nChild int) (*chain, bool) {
	tbl, err := caseTable(c, "t")
	if err != nil {
		c.Inconclusive("cannot open the in-memory pebble database: " + err.Error())
		return nil, false
	}
	ch := &chain{c: c, tbl: tbl, ver: ver, mixed: mixed, prof: prof, main: vcommon.NewOrdMap(), childs: childModels{}}
	ch.pool = genKeyPool(c.R, c.R.Range(4, 20))
	for i := 0; i < nChild; i++ {
		ch.ckeys = append(ch.ckeys, []byte(fmt.Sprintf("c%d", i)))
	}
	ch.cur = inmemory.NewTrie(nil, tbl)
	ch.cur.SetVersion(layout(ver))
	return ch, true
}

// ---------------------------------------------------------------------------
// fixed corpus: minimal witnesses of every defect found (seed independent)

type c04Fixed struct {
	name  string
	ver   int
	puts  [][2][]byte
	child [][3][]byte // name, key, value
	reads [][]byte    // extra absent keys to read with GetFromDB
}

func rep(b byte, n int) []byte { return bytes.Repeat([]byte{b}, n) }

var c04Corpus = []c04Fixed{
	{name: "v1-hashed-leaf-and-branch-values", ver: 1, puts: [][2][]byte{
		{{0x12, 0x34}, rep(7, 40)}, {{0x12, 0x34, 0x5a}, rep(8, 40)}, {{0x12, 0x34, 0x6a}, {}}, {{0x77}, {1}}}},
	{name: "v1-hashed-root-leaf", ver: 1, puts: [][2][]byte{{{0xab}, rep(9, 33)}}},
	{name: "v1-value-32-not-hashed", ver: 1, puts: [][2][]byte{{{0xab}, rep(9, 32)}, {{0xac}, rep(9, 33)}}},
	{name: "inlined-branch-child", ver: 0, puts: [][2][]byte{
		{{0x12, 0x00}, {1}}, {{0x12, 0x01}, {2}}, {{0x30}, rep(3, 40)}, {{0x40}, rep(4, 40)}},
		reads: [][]byte{{0x12}, {0x12, 0x02}, {0x12, 0x00, 0x00}}},
	{name: "inlined-branch-in-inlined-branch", ver: 0, puts: [][2][]byte{
		{{0x12, 0x00}, {}}, {{0x12, 0x01}, {}}, {{0x12, 0x10}, {}}, {{0x30}, rep(3, 40)}, {{0x40}, rep(4, 40)}}},
	{name: "key-leaves-branch-partial-key", ver: 0, puts: [][2][]byte{
		{{0x12, 0x34}, rep(7, 40)}, {{0x12, 0x34, 0x5a}, rep(8, 40)}, {{0x12, 0x34, 0x6a}, {}}, {{0x77}, {1}}},
		reads: [][]byte{{0x12, 0x5a}, {0x12, 0x6a}, {0x12}, {}, {0x13, 0x34, 0x5a}, {0x12, 0x35}}},
	{name: "empty-key-vs-root-branch-with-partial-key", ver: 0, puts: [][2][]byte{
		{{0x12}, rep(1, 3)}, {{0x12, 0x34}, rep(2, 3)}, {{0x12, 0x35}, rep(2, 3)}}, reads: [][]byte{{}, {0x01}}},
	{name: "empty-key-present", ver: 1, puts: [][2][]byte{{{}, rep(5, 50)}, {{0x01}, {1}}, {{0xf1}, {2}}}},
	{name: "child-trie-under-single-leaf-main-trie", ver: 0, child: [][3][]byte{{[]byte("c0"), {1, 2}, rep(7, 40)}}},
	{name: "child-trie-v1-hashed", ver: 1, puts: [][2][]byte{{{0x01}, {1}}},
		child: [][3][]byte{{[]byte("c0"), {1, 2}, rep(7, 40)}, {[]byte("c0"), {1, 3}, rep(7, 33)}, {[]byte("c1"), {}, {1}}}},
	{name: "two-child-tries-same-content", ver: 0, puts: [][2][]byte{{{0x01}, {1}}},
		child: [][3][]byte{{[]byte("c0"), {1}, {2}}, {[]byte("c1"), {1}, {2}}}},
	{name: "63-nibble-partial-key", ver: 1, puts: [][2][]byte{
		{append([]byte{0x10}, rep(0xaa, 32)...), rep(1, 40)}, {append([]byte{0x20}, rep(0xbb, 31)...), rep(2, 2)}, {{0x30}, {}}}},
}

// runC04K1 is the minimal witness of known finding C04-K1.
func runC04K1(c *vcommon.Case) {
	ch, ok := newChain(c, 0, profMixed, false, 2)
	if !ok {
		return
	}
	ch.logf("corpus C04-K1 witness")
	ops := [][3][]byte{{[]byte("c0"), {0x01}, {0xaa}}, {[]byte("c1"), {0x01}, {0xaa}}, {[]byte("c0"), {0x02}, {0xbb}}}
	for _, e := range ops {
		ch.logf("child %s put %s %s", hx(e[0]), hx(e[1]), hx(e[2]))
		if err := ch.cur.PutIntoChild(e[0], e[1], e[2]); err != nil {
			c.Inconclusive(err.Error())
			return
		}
		if ch.childs[string(e[0])] == nil {
			ch.childs[string(e[0])] = vcommon.NewOrdMap()
		}
		ch.childs[string(e[0])].Put(e[1], e[2])
		ch.syncChildRoot(e[0])
	}
	c.Count("k1_witness_runs", 1)
	ch.persist(0) // records C04-K1 while the defect is present; checks the state normally once it is gone
}

func runC04Fixed(c *vcommon.Case, f c04Fixed) {
	ch, ok := newChain(c, f.ver, profMixed, false, 0)
	if !ok {
		return
	}
	ch.logf("corpus %s", f.name)
	ch.pool = nil
	for _, kv := range f.puts {
		ch.logf("put %s %s", hx(kv[0]), hx(kv[1]))
		ch.main.Put(kv[0], kv[1])
		ch.pool = append(ch.pool, kv[0])
		if err := ch.cur.Put(kv[0], kv[1]); err != nil {
			c.Inconclusive(err.Error())
			return
		}
	}
	for _, e := range f.child {
		ch.logf("child %s put %s %s", hx(e[0]), hx(e[1]), hx(e[2]))
		if err := ch.cur.PutIntoChild(e[0], e[1], e[2]); err != nil {
			c.Inconclusive(err.Error())
			return
		}
		if ch.childs[string(e[0])] == nil {
			ch.childs[string(e[0])] = vcommon.NewOrdMap()
		}
		ch.childs[string(e[0])].Put(e[1], e[2])
		ch.syncChildRoot(e[0])
	}
	if _, ok := ch.persist(0); !ok {
		return
	}
	root := ch.saved[0].root
	for _, k := range f.reads {
		c.Eval(1)
		c.Count("getfromdb_absent", 1)
		if got, err := inmemory.GetFromDB(ch.tbl, root, k); err != nil || got != nil {
			c.Violation("getfromdb-absent", fmt.Sprintf("GetFromDB(%s)=%s err=%v for a key that is absent from the state", hx(k), short(got), err),
				ch.witness(map[string]any{"key": hx(k), "got": hx(got), "root": root.String()}))
		}
	}
	c.Sample(map[string]any{"corpus": f.name, "root": root.String(), "keys": ch.main.Len()})
}

// ---------------------------------------------------------------------------
// dot/state path: InmemoryStorageState.StoreTrie / TrieState / GetStorage /
// LoadFromDB / Entries / GetStorageFromChild on a storage state whose trie
// cache does not hold the root (a fresh instance over the same database =
// restart / evicted root).

func runStateChain(c *vcommon.Case) {
	tbl, err := caseTable(c, "s")
	if err != nil {
		c.Inconclusive("cannot open the in-memory pebble database: " + err.Error())
		return
	}
	db := tableDB{tbl}
	ver := c.R.Intn(2)
	prof := c.R.Intn(nProfiles)
	pool := genKeyPool(c.R, c.R.Range(4, 16))
	var cnames [][]byte
	for i := 0; i < c.R.Intn(3); i++ {
		cnames = append(cnames, []byte(fmt.Sprintf("c%d", i)))
	}
	main := vcommon.NewOrdMap()
	childs := childModels{}
	var hist []string
	logf := func(f string, a ...any) { hist = append(hist, fmt.Sprintf(f, a...)) }
	wit := func(extra map[string]any) map[string]any {
		w := map[string]any{"version": ver, "history": hist, "model_main": modelDump(main)}
		for k, v := range extra {
			w[k] = v
		}
		return w
	}

	writer, err := state.NewStorageState(db, nil, state.NewTries())
	if err != nil {
		c.Inconclusive(err.Error())
		return
	}
	root := trie.EmptyHash
	steps := c.R.Range(1, 4)
	for step := 0; step < steps; step++ {
		ts, err := writer.TrieState(&root)
		if err != nil {
			c.Violation("state-triestate-error", fmt.Sprintf("TrieState(%s): %v", root, err), wit(nil))
			return
		}
		ts.SetVersion(layout(ver))
		for i, n := 0, c.R.Range(1, 10); i < n; i++ {
			k := vcommon.Pick(c.R, pool)
			switch x := c.R.Intn(10); {
			case x < 6:
				v := genValue(c.R, prof)
				logf("put %s %s", hx(k), hx(v))
				main.Put(k, v)
				err = ts.Put(k, v)
			case x < 8:
				ks := main.Keys()
				if len(ks) == 0 {
					continue
				}
				k = vcommon.Pick(c.R, ks)
				if bytes.HasPrefix(k, inmemory.ChildStorageKeyPrefix) {
					continue
				}
				logf("delete %s", hx(k))
				main.Delete(k)
				err = ts.Delete(k)
			default:
				if len(cnames) == 0 {
					continue
				}
				name := vcommon.Pick(c.R, cnames)
				v := genValue(c.R, prof)
				if it, ok := ts.Trie().(*inmemory.InMemoryTrie); ok {
					if dn, croot, bad := danglingChild(it, cnames); bad {
						c.Known("C04-K1", fmt.Sprintf("in-memory state is ill-formed: main trie stores child root %s for child %s but the child trie object is gone (child tries with equal content alias each other)", hx(croot), hx(dn)),
							wit(map[string]any{"child": hx(dn), "child_root": hx(croot)}))
						return
					}
				}
				logf("child %s put %s %s", hx(name), hx(k), hx(v))
				err = ts.SetChildStorage(name, k, v)
				if childs[string(name)] == nil {
					childs[string(name)] = vcommon.NewOrdMap()
				}
				childs[string(name)].Put(k, v)
				if cr := ts.Get(childStorageKey(name)); cr != nil {
					main.Put(childStorageKey(name), cr)
				}
			}
			if err != nil {
				c.Inconclusive("TrieState operation failed (not a C04 matter): " + err.Error())
				return
			}
		}
		if it, ok := ts.Trie().(*inmemory.InMemoryTrie); ok {
			if name, croot, bad := danglingChild(it, cnames); bad {
				c.Known("C04-K1", fmt.Sprintf("in-memory state is ill-formed before StoreTrie: main trie stores child root %s for child %s but the child trie object is gone (child tries with equal content alias each other)", hx(croot), hx(name)),
					wit(map[string]any{"child": hx(name), "child_root": hx(croot)}))
				return
			}
		}
		if d := diffEntries(ts.TrieEntries(), main); d != "" {
			// the in-memory state is the reference; drift is C02's business
			c.Count("note_model_resynced_to_inmemory_main", 1)
			logf("(model resynchronised to the TrieState: %s)", d)
			main = mapToModel(ts.TrieEntries())
		}
		root, err = ts.Trie().Hash() // (Root() is the runtime's end-of-block call and needs an open transaction)
		if err != nil {
			c.Inconclusive(err.Error())
			return
		}
		logf("storetrie #%d root %s", step, root)
		c.Count("state_storetrie", 1)
		if err := writer.StoreTrie(ts, nil); err != nil {
			c.Violation("state-storetrie-error", err.Error(), wit(nil))
			return
		}

		// a storage state that does not cache the root
		reader, err := state.NewStorageState(db, nil, state.NewTries())
		if err != nil {
			c.Inconclusive(err.Error())
			return
		}
		ks, vs := main.Entries()
		for i, k := range ks {
			c.Eval(1)
			c.Count("state_getstorage_present", 1)
			got, err := reader.GetStorage(&root, k)
			if err != nil || got == nil || !bytes.Equal(got, vs[i]) {
				c.Violation("state-getstorage", fmt.Sprintf("GetStorage(%s) on an uncached root =%s err=%v, state has %s", hx(k), short(got), err, short(vs[i])),
					wit(map[string]any{"key": hx(k), "got": hx(got), "root": root.String()}))
			}
			cached, err2 := writer.GetStorage(&root, k)
			if err2 != nil || !bytes.Equal(cached, got) || (cached == nil) != (got == nil) {
				c.Count("note_cached_vs_db_read_differ", 1)
			}
		}
		for _, k := range absentProbes(c.R, main, 16) {
			c.Eval(1)
			c.Count("state_getstorage_absent", 1)
			got, err := reader.GetStorage(&root, k)
			if err != nil || got != nil {
				c.Violation("state-getstorage-absent", fmt.Sprintf("GetStorage(%s) on an uncached root =%s err=%v for an absent key", hx(k), short(got), err),
					wit(map[string]any{"key": hx(k), "got": hx(got), "root": root.String()}))
			}
			if ex, err := reader.ExistsStorage(&root, k); err != nil || ex {
				c.Violation("state-exists-absent", fmt.Sprintf("ExistsStorage(%s)=%v err=%v for an absent key", hx(k), ex, err),
					wit(map[string]any{"key": hx(k), "root": root.String()}))
			}
		}
		// a second fresh instance: Entries / child reads go through LoadFromDB
		reader2, _ := state.NewStorageState(db, nil, state.NewTries())
		c.Eval(1)
		ents, err := reader2.Entries(&root)
		if err != nil {
			c.Violation("state-load-error", fmt.Sprintf("Entries(%s) on an uncached root: %v", root, err), wit(map[string]any{"root": root.String()}))
		} else if d := diffEntries(ents, main); d != "" {
			c.Violation("state-load-entries", "Entries on an uncached root differ: "+d, wit(map[string]any{"root": root.String()}))
		}
		for name, cm := range childs {
			cks, cvs := cm.Entries()
			for i, k := range cks {
				c.Eval(1)
				c.Count("state_child_reads", 1)
				got, err := reader2.GetStorageFromChild(&root, []byte(name), k)
				if err != nil || got == nil || !bytes.Equal(got, cvs[i]) {
					c.Violation("state-child-read", fmt.Sprintf("GetStorageFromChild(%s,%s)=%s err=%v, state has %s", name, hx(k), short(got), err, short(cvs[i])),
						wit(map[string]any{"child": name, "key": hx(k), "root": root.String(), "model_child": modelDump(cm)}))
					break
				}
			}
		}
		if c.Failed() {
			return
		}
		if c.R.Chance(1, 3) { // restart: go on with the instance that loaded from the database
			writer = reader2
			logf("restart")
			c.Count("state_restarts", 1)
		}
	}
	c.Distinct(fmt.Sprintf("state|v%d|%d|%d|%d", ver, main.Len(), len(childs), steps))
}

// ---------------------------------------------------------------------------
// dot/state path, production-style chains R1 -> R2 -> ...: every successor is
// obtained with TrieState(&Rprev) either on the instance that already caches
// Rprev (cache hit) or on a fresh instance whose first contact with Rprev is
// that very call (cache MISS: LoadFromDB inside TrieState), modified and
// stored; after EVERY step EVERY earlier root is read back by root hash through
// the same instance and through a fresh one and compared with its own model.

type storedRoot struct {
	root   common.Hash
	main   *vcommon.OrdMap
	childs childModels
	step   int
}

// rereadRoot compares everything the storage state serves for sr.root with sr's model.
func rereadRoot(c *vcommon.Case, inst *state.InmemoryStorageState, via string, sr storedRoot, pool [][]byte,
	wit func(map[string]any) map[string]any) {
	w := func(extra map[string]any) map[string]any {
		extra["root"] = sr.root.String()
		extra["root_stored_at_step"] = sr.step
		extra["read_through"] = via
		extra["model_of_that_root"] = modelDump(sr.main)
		return wit(extra)
	}
	root := sr.root
	keys := append([][]byte{}, pool...)
	keys = append(keys, sr.main.Keys()...)
	keys = append(keys, absentProbes(c.R, sr.main, 6)...)
	seen := map[string]bool{}
	for _, k := range keys {
		if seen[string(k)] {
			continue
		}
		seen[string(k)] = true
		c.Eval(1)
		c.Count("state_chain_getstorage", 1)
		want, present := sr.main.Get(k)
		got, err := inst.GetStorage(&root, k)
		switch {
		case err != nil:
			c.Violation("state-chain-getstorage-error", fmt.Sprintf("GetStorage(root of step %d, %s) through %s: %v", sr.step, hx(k), via, err), w(map[string]any{"key": hx(k)}))
			return
		case present && (got == nil || !bytes.Equal(got, want)):
			c.Violation("state-chain-getstorage", fmt.Sprintf("GetStorage(root of step %d, %s) through %s =%s, that state has %s", sr.step, hx(k), via, short(got), short(want)),
				w(map[string]any{"key": hx(k), "got": hx(got), "want": hx(want)}))
			return
		case !present && got != nil:
			c.Violation("state-chain-getstorage-absent", fmt.Sprintf("GetStorage(root of step %d, %s) through %s =%s, the key is absent from that state", sr.step, hx(k), via, short(got)),
				w(map[string]any{"key": hx(k), "got": hx(got)}))
			return
		}
	}
	c.Eval(1)
	ents, err := inst.Entries(&root)
	if err != nil {
		c.Violation("state-chain-entries-error", fmt.Sprintf("Entries(root of step %d) through %s: %v", sr.step, via, err), w(map[string]any{}))
		return
	} else if d := diffEntries(ents, sr.main); d != "" {
		c.Violation("state-chain-entries", fmt.Sprintf("Entries(root of step %d) through %s differ: %s", sr.step, via, d), w(map[string]any{}))
		return
	}
	for name, cm := range sr.childs {
		c.Eval(1)
		c.Count("state_chain_child_tries_read", 1)
		ct, err := inst.GetStorageChild(&root, []byte(name))
		if err != nil || ct == nil {
			c.Violation("state-chain-child-missing", fmt.Sprintf("GetStorageChild(root of step %d, %s) through %s: trie=%v err=%v", sr.step, name, via, ct != nil, err),
				w(map[string]any{"child": name, "model_child": modelDump(cm)}))
			return
		}
		if d := diffEntries(ct.Entries(), cm); d != "" {
			c.Violation("state-chain-child-entries", fmt.Sprintf("child %s of the root of step %d through %s differs: %s", name, sr.step, via, d),
				w(map[string]any{"child": name, "model_child": modelDump(cm)}))
			return
		}
		cks, cvs := cm.Entries()
		for i, k := range cks {
			c.Eval(1)
			got, err := inst.GetStorageFromChild(&root, []byte(name), k)
			if err != nil || got == nil || !bytes.Equal(got, cvs[i]) {
				c.Violation("state-chain-child-read", fmt.Sprintf("GetStorageFromChild(root of step %d, %s, %s) through %s =%s err=%v, that state has %s", sr.step, name, hx(k), via, short(got), err, short(cvs[i])),
					w(map[string]any{"child": name, "key": hx(k), "model_child": modelDump(cm)}))
				return
			}
		}
	}
}

func runStateSuccessors(c *vcommon.Case) {
	tbl, err := caseTable(c, "ss")
	if err != nil {
		c.Inconclusive("cannot open the in-memory pebble database: " + err.Error())
		return
	}
	db := tableDB{tbl}
	ver := c.R.Intn(2)
	prof := c.R.Intn(nProfiles)
	pool := genKeyPool(c.R, c.R.Range(3, 10))
	var cnames [][]byte
	if c.R.Chance(2, 5) {
		for i := 0; i < c.R.Range(1, 2); i++ {
			cnames = append(cnames, []byte(fmt.Sprintf("c%d", i)))
		}
	}
	main := vcommon.NewOrdMap()
	childs := childModels{}
	var hist []string
	logf := func(f string, a ...any) { hist = append(hist, fmt.Sprintf(f, a...)) }
	wit := func(extra map[string]any) map[string]any {
		w := map[string]any{"version": ver, "history": hist}
		for k, v := range extra {
			w[k] = v
		}
		return w
	}
	fresh := func() *state.InmemoryStorageState {
		s, err := state.NewStorageState(db, nil, state.NewTries())
		if err != nil {
			panic(err)
		}
		return s
	}
	inst := fresh()
	prev := trie.EmptyHash
	var stored []storedRoot
	steps := c.R.Range(2, 5)
	misses := 0
	for step := 0; step < steps; step++ {
		// cache hit: the instance that stored (and caches) Rprev; cache MISS: a fresh
		// instance whose TrieState call has to load Rprev from the database
		if step > 0 && c.R.Bool() {
			inst = fresh()
			misses++
			logf("fresh instance (TrieState on a cache miss)")
			c.Count("state_cache_miss_successors", 1)
		} else if step > 0 {
			c.Count("state_cache_hit_successors", 1)
		}
		ts, err := inst.TrieState(&prev)
		if err != nil {
			c.Violation("state-triestate-error", fmt.Sprintf("TrieState(%s): %v", prev, err), wit(nil))
			return
		}
		ts.SetVersion(layout(ver))
		for i, n := 0, c.R.Range(1, 6); i < n; i++ {
			k := vcommon.Pick(c.R, pool)
			var err error
			switch x := c.R.Intn(10); {
			case x < 6 || (x >= 8 && len(cnames) == 0):
				v := genValue(c.R, prof)
				logf("put %s %s", hx(k), hx(v))
				main.Put(k, v)
				err = ts.Put(k, v)
			case x < 8:
				ks := main.Keys()
				if len(ks) == 0 {
					continue
				}
				k = vcommon.Pick(c.R, ks)
				if bytes.HasPrefix(k, inmemory.ChildStorageKeyPrefix) {
					continue
				}
				logf("delete %s", hx(k))
				main.Delete(k)
				err = ts.Delete(k)
			default:
				name := vcommon.Pick(c.R, cnames)
				v := genValue(c.R, prof)
				if it, ok := ts.Trie().(*inmemory.InMemoryTrie); ok {
					if dn, croot, bad := danglingChild(it, cnames); bad {
						c.Known("C04-K1", fmt.Sprintf("in-memory state is ill-formed: main trie stores child root %s for child %s but the child trie object is gone (child tries with equal content alias each other)", hx(croot), hx(dn)),
							wit(map[string]any{"child": hx(dn), "child_root": hx(croot)}))
						return
					}
				}
				logf("child %s put %s %s", hx(name), hx(k), hx(v))
				err = ts.SetChildStorage(name, k, v)
				if childs[string(name)] == nil {
					childs[string(name)] = vcommon.NewOrdMap()
				}
				childs[string(name)].Put(k, v)
				if cr := ts.Get(childStorageKey(name)); cr != nil {
					main.Put(childStorageKey(name), cr)
				}
			}
			if err != nil {
				c.Inconclusive("TrieState operation failed (not a C04 matter): " + err.Error())
				return
			}
		}
		if it, ok := ts.Trie().(*inmemory.InMemoryTrie); ok {
			if name, croot, bad := danglingChild(it, cnames); bad {
				c.Known("C04-K1", fmt.Sprintf("in-memory state is ill-formed before StoreTrie: main trie stores child root %s for child %s but the child trie object is gone (child tries with equal content alias each other)", hx(croot), hx(name)),
					wit(map[string]any{"child": hx(name), "child_root": hx(croot)}))
				return
			}
		}
		if d := diffEntries(ts.TrieEntries(), main); d != "" {
			c.Count("note_model_resynced_to_inmemory_main", 1)
			logf("(model resynchronised to the TrieState: %s)", d)
			main = mapToModel(ts.TrieEntries())
		}
		root, err := ts.Trie().Hash()
		if err != nil {
			c.Inconclusive(err.Error())
			return
		}
		logf("storetrie #%d root %s (successor of %s)", step, root, prev)
		c.Count("state_chain_storetrie", 1)
		if err := inst.StoreTrie(ts, nil); err != nil {
			c.Violation("state-storetrie-error", err.Error(), wit(nil))
			return
		}
		stored = append(stored, storedRoot{root: root, main: main.Clone(), childs: childs.clone(), step: step})
		prev = root

		// every root stored so far, through the same instance and through a fresh one
		reader := fresh()
		for _, sr := range stored {
			if sr.step < step {
				c.Count("state_earlier_roots_reread", 1)
			}
			rereadRoot(c, inst, "the instance that stored the successor", sr, pool, wit)
			if c.Failed() {
				return
			}
			rereadRoot(c, reader, "a fresh instance", sr, pool, wit)
			if c.Failed() {
				return
			}
			c.Eval(1)
			lt, err := fresh().LoadFromDB(sr.root)
			if err != nil {
				c.Violation("state-chain-loadfromdb-error", fmt.Sprintf("LoadFromDB(root of step %d): %v", sr.step, err), wit(map[string]any{"root": sr.root.String()}))
				return
			}
			if h, err := lt.Hash(); err != nil || h != sr.root {
				c.Violation("state-chain-loadfromdb-root", fmt.Sprintf("LoadFromDB(root of step %d).Hash()=%s err=%v want %s", sr.step, h, err, sr.root), wit(map[string]any{"root": sr.root.String()}))
				return
			}
		}
	}
	c.Distinct(fmt.Sprintf("succ|v%d|%d|%d|%d|m%d", ver, main.Len(), len(childs), steps, misses))
	c.Sample(map[string]any{"group": "statechain", "roots": len(stored), "cache_miss_successors": misses, "final_keys": main.Len(), "child_tries": len(childs)})
}

// ---------------------------------------------------------------------------

func TestVerifC04(t *testing.T) {
	r := vcommon.Start(t, "C04")
	defer r.Finish()
	if err := vcommon.SpecSelfCheck(); err != nil {
		r.Cases("selfcheck", 1, func(c *vcommon.Case) { c.Inconclusive(err.Error()) })
		return
	}
	r.Floor("loads", 300)
	r.Floor("getfromdb_present", 2000)
	r.Floor("getfromdb_absent", 2000)
	r.Floor("persists_v0", 50)
	r.Floor("persists_v1", 50)
	r.Floor("incremental_persists", 100)
	r.Floor("older_roots_rechecked", 100)
	r.Floor("inlined_branch", 20)
	r.Floor("node_encoding_31_bytes_inlined", 5)
	r.Floor("node_encoding_32_bytes_hashed", 5)
	r.Floor("inlined_leaf", 100)
	r.Floor("hashed_value_v1", 100)
	r.Floor("hashed_branch_value_v1", 5)
	r.Floor("branch_with_value", 50)
	r.Floor("value_len_32", 10)
	r.Floor("value_len_33", 10)
	r.Floor("empty_value", 20)
	r.Floor("persists_with_child_tries", 30)
	r.Floor("child_tries_reloaded", 30)
	r.Floor("chains_continued_from_reloaded_trie", 20)
	r.Floor("post_load_mutations", 100)
	r.Floor("state_getstorage_present", 300)
	r.Floor("state_child_reads", 20)
	r.Floor("state_cache_miss_successors", 150)
	r.Floor("state_cache_hit_successors", 150)
	r.Floor("state_earlier_roots_reread", 600)
	r.Floor("state_chain_getstorage", 10000)
	r.Floor("state_chain_child_tries_read", 100)

	r.Fixed("corpus", len(c04Corpus), func(c *vcommon.Case) { runC04Fixed(c, c04Corpus[c.Idx]) })
	r.Fixed("corpus-k1", 1, runC04K1)

	r.Cases("chain", r.Scale(1500), func(c *vcommon.Case) {
		ver := c.R.Intn(2)
		mixed := c.R.Chance(1, 10)
		if mixed {
			ver = 0
		}
		nChild := 0
		if c.R.Chance(2, 5) {
			nChild = c.R.Range(1, 2)
		}
		ch, ok := newChain(c, ver, c.R.Intn(nProfiles), mixed, nChild)
		if !ok {
			return
		}
		steps := c.R.Range(1, 6)
		runChain(c, ch, steps, func() int { return c.R.Range(1, 12) })
	})

	r.Cases("state", r.Scale(400), runStateChain)
	r.Cases("statechain", r.Scale(300), runStateSuccessors)
}
