//go:build verif

package rtstorage

import (
	"bytes"
	"encoding/binary"
	"fmt"
	"os"
	"runtime/debug"
	"sort"
	"strings"

	"github.com/ChainSafe/gossamer/lib/runtime/storage"
	"github.com/ChainSafe/gossamer/pkg/trie"
	inmemory "github.com/ChainSafe/gossamer/pkg/trie/inmemory"
	"github.com/ChainSafe/gossamer/zz_verif/vcommon"
)

// ---- operations -----------------------------------------------------------

type OpKind int

const (
	OpPut OpKind = iota
	OpDel
	OpClr      // ClearPrefix
	OpClrLim   // ClearPrefixLimit
	OpCSet     // SetChildStorage
	OpCDel     // ClearChildStorage
	OpCClr     // ClearPrefixInChild
	OpCClrLim  // ClearPrefixInChildWithLimit
	OpCKill    // DeleteChild
	OpCKillLim // DeleteChildLimit (Lim < 0: nil limit)
	OpStart
	OpCommit
	OpRollback
)

var opNames = []string{"put", "del", "clr", "clrlim", "cset", "cdel", "cclr", "cclrlim", "ckill", "ckilllim", "start", "commit", "rollback"}

// Op is one concrete storage operation (fully determined; no PRNG at run time).
type Op struct {
	K   OpKind
	C   string // child storage key (bare)
	Key string // key or prefix
	Val string
	Lim int
}

func (o Op) String() string {
	switch o.K {
	case OpCommit:
		if o.Lim == 1 {
			return "commit(Root)"
		}
	case OpPut:
		return fmt.Sprintf("put %q=%q", o.Key, o.Val)
	case OpDel:
		return fmt.Sprintf("del %q", o.Key)
	case OpClr:
		return fmt.Sprintf("clr %q", o.Key)
	case OpClrLim:
		return fmt.Sprintf("clrlim %q %d", o.Key, o.Lim)
	case OpCSet:
		return fmt.Sprintf("cset %q/%q=%q", o.C, o.Key, o.Val)
	case OpCDel:
		return fmt.Sprintf("cdel %q/%q", o.C, o.Key)
	case OpCClr:
		return fmt.Sprintf("cclr %q/%q", o.C, o.Key)
	case OpCClrLim:
		return fmt.Sprintf("cclrlim %q/%q %d", o.C, o.Key, o.Lim)
	case OpCKill:
		return fmt.Sprintf("ckill %q", o.C)
	case OpCKillLim:
		return fmt.Sprintf("ckilllim %q %d", o.C, o.Lim)
	}
	return opNames[o.K]
}

func opsStrings(ops []Op) []string {
	out := make([]string, len(ops))
	for i, o := range ops {
		out[i] = o.String()
	}
	return out
}

// ---- alphabet (collisions by construction) ----------------------------------

var (
	MainKeys      = []string{"a", "ab", "abc", "abd", "b", "ba", "c"}
	ChildNames    = []string{"a", "ab", "c"}
	ChildKeys     = []string{"a", "ab", "abc", "b"}
	MainPrefixes  = []string{"a", "ab", "abc", "b", "c", "d"}
	ChildPrefixes = []string{"", "a", "ab", "abc", "b", "c"}
)

func mainGetProbe() []string {
	p := append([]string{}, MainKeys...)
	p = append(p, "d", "aa")
	for _, c := range ChildNames {
		p = append(p, ChildRootPrefix+c)
	}
	return p
}

func mainNextProbe() []string {
	p := append([]string{""}, MainKeys...)
	p = append(p, "aa", "abb", "d", ":", ChildRootPrefix, "zz")
	for _, c := range ChildNames {
		p = append(p, ChildRootPrefix+c)
	}
	return p
}

func childNextProbe() []string { return append([]string{"", "aa", "c"}, ChildKeys...) }

// ---- failures ---------------------------------------------------------------

// Failure is the first oracle refutation of a run.
type Failure struct {
	Class string
	Msg   string
	Step  int // index of the op after which it was observed (-1: initial)
}

// KnownHit is a refutation the predicate attributes to a known finding.
type KnownHit struct {
	ID   string
	Msg  string
	Step int
}

// Result of one run.
type Result struct {
	// AliasPossible: the same value was written under the same key into two different child
	// tries, so two child tries may have had identical content (precondition of C08-K3)
	AliasPossible bool
	Fail          *Failure
	Known         []KnownHit
	Counters      map[string]int
	Evals         int
	Shape         string
}

type runner struct {
	ts      *storage.TrieState
	m       *Model
	version int
	res     *Result
	step    int
	// observation fingerprints taken at each Start (model independent rollback check)
	fps []string
	// cached child roots of the backend
	roots      map[string][]byte
	rootsDirty bool
	openKnown  func(id string) bool
	shape      strings.Builder
}

func (r *runner) count(name string) { r.res.Counters[name]++ }

func (r *runner) fail(class, format string, a ...any) {
	if r.res.Fail == nil {
		r.res.Fail = &Failure{Class: class, Msg: fmt.Sprintf(format, a...), Step: r.step}
	}
}

func (r *runner) known(id, format string, a ...any) {
	r.res.Known = append(r.res.Known, KnownHit{ID: id, Msg: fmt.Sprintf(format, a...), Step: r.step})
}

func q(b []byte) string {
	if b == nil {
		return "<nil>"
	}
	return fmt.Sprintf("%q", b)
}

func limBytes(l int) *[]byte {
	if l < 0 {
		return nil
	}
	b := make([]byte, 4)
	binary.LittleEndian.PutUint32(b, uint32(l))
	return &b
}

var trace = os.Getenv("RTS_TRACE") != ""

// Run executes ops on a fresh TrieState over an empty in-memory trie and
// compares every observable with the model after every step.
func Run(ops []Op, version int, isOpen func(id string) bool) (res *Result) {
	res = &Result{Counters: map[string]int{}}
	tr := inmemory.NewEmptyTrie()
	ts := storage.NewTrieState(tr)
	if version == 1 {
		ts.SetVersion(trie.V1)
	}
	r := &runner{ts: ts, m: NewModel(), version: version, res: res, rootsDirty: true, openKnown: isOpen, step: -1}
	written := map[string]string{}
	for _, o := range ops {
		if o.K == OpCSet {
			if c, ok := written[o.Key+"\x00"+o.Val]; ok && c != o.C {
				res.AliasPossible = true
			}
			written[o.Key+"\x00"+o.Val] = o.C
		}
	}
	defer func() {
		if p := recover(); p != nil {
			st := string(debug.Stack())
			if i := strings.Index(st, "panic("); i > 0 {
				st = st[i:]
			}
			if len(st) > 3000 {
				st = st[:3000]
			}
			res.Fail = &Failure{Class: "panic", Msg: fmt.Sprintf("%v\n%s", p, st), Step: r.step}
			res.Shape = r.shape.String()
		}
	}()
	r.observe()
	for i, o := range ops {
		if res.Fail != nil {
			break
		}
		r.step = i
		if trace {
			fmt.Fprintf(os.Stderr, "step %d: %s\n", i, o)
		}
		r.apply(o)
		if res.Fail != nil {
			break
		}
		r.observe()
	}
	res.Shape = r.shape.String()
	return res
}

func (r *runner) mark(s string) {
	if r.shape.Len() < 400 {
		r.shape.WriteString(s)
	}
}

// ---- applying one op to both sides -------------------------------------------

func (r *runner) apply(o Op) {
	ts, m := r.ts, r.m
	depth := m.Depth()
	if depth == 0 {
		r.rootsDirty = true
	}
	inTx := "tx"
	if depth == 0 {
		inTx = "d0"
	}
	switch o.K {
	case OpStart:
		if depth >= 4 {
			return
		}
		r.fps = append(r.fps, r.fingerprint())
		ts.StartTransaction()
		m.Start()
		r.count("start")
		r.mark("S")
	case OpCommit:
		if depth == 0 {
			return
		}
		r.fps = r.fps[:len(r.fps)-1]
		var viaRoot []byte
		if depth == 1 && o.Lim == 1 {
			// ext_storage_root path: Root() commits the outermost transaction and hashes
			h, err := ts.Root()
			if err != nil {
				r.fail("root", "Root() error %v", err)
				return
			}
			viaRoot = h.ToBytes()
			r.count("commit_via_Root")
		} else {
			ts.CommitTransaction()
		}
		m.Commit()
		if m.Depth() == 0 {
			r.rootsDirty = true
			r.count("commit_outermost")
			r.mark("K")
			if viaRoot != nil {
				want := vcommon.SpecRoot(r.expectedMainFull(), r.version)
				r.res.Evals++
				if !bytes.Equal(viaRoot, want[:]) {
					r.fail("root", "Root()=%x want %x (contents %s)", viaRoot, want, dumpShort(r.expectedMainFull()))
				}
			}
		} else {
			r.count("commit_nested")
			r.mark("k")
		}
	case OpRollback:
		if depth == 0 {
			return
		}
		want := r.fps[len(r.fps)-1]
		r.fps = r.fps[:len(r.fps)-1]
		ts.RollbackTransaction()
		m.Rollback()
		r.count("rollback")
		if depth > 1 {
			r.count("rollback_nested")
		}
		r.mark("R")
		// model-independent: every observable equals what it was at the matching start
		got := r.fingerprint()
		r.res.Evals++
		if got != want {
			r.fail("rollback-inexact", "state after rollback differs from state at the matching start:\n at start: %s\n after   : %s", want, got)
		}
	case OpPut:
		if err := ts.Put([]byte(o.Key), []byte(o.Val)); err != nil {
			r.fail("op-error", "Put(%q) error: %v", o.Key, err)
		}
		m.Put(o.Key, o.Val)
		r.count("put_" + inTx)
		if _, isChild := m.top().child[o.Key]; isChild && m.ChildExists(o.Key) {
			r.count("main_put_on_live_child_name")
		}
		r.mark("p")
	case OpDel:
		if m.ChildExists(o.Key) && depth > 0 {
			r.count("main_delete_of_live_child_name_tx")
		}
		if err := ts.Delete([]byte(o.Key)); err != nil {
			r.fail("op-error", "Delete(%q) error: %v", o.Key, err)
		}
		m.Delete(o.Key)
		r.count("del_" + inTx)
		r.mark("d")
	case OpClr:
		if _, ok := m.top().main.Get([]byte(o.Key)); ok {
			r.count("clear_prefix_key_equals_prefix")
		}
		if err := ts.ClearPrefix([]byte(o.Key)); err != nil {
			r.fail("op-error", "ClearPrefix(%q) error: %v", o.Key, err)
		}
		m.ApplyMain(m.ClearMain(o.Key, -1, Substrate))
		r.count("clr_" + inTx)
		r.mark("c")
	case OpClrLim:
		r.limitedMain(o)
	case OpCSet:
		if _, ok := m.top().main.Get([]byte(o.C)); ok {
			r.count("child_write_while_main_key_of_same_name")
		}
		if depth > 0 && !m.ChildExists(o.C) && m.backendChild(o.C).Len() > 0 {
			r.count("child_recreated_after_kill_tx")
		}
		if err := ts.SetChildStorage([]byte(o.C), []byte(o.Key), []byte(o.Val)); err != nil {
			r.fail("op-error", "SetChildStorage(%q,%q) error: %v", o.C, o.Key, err)
		}
		m.SetChild(o.C, o.Key, o.Val)
		r.count("cset_" + inTx)
		r.mark("s")
	case OpCDel:
		err := ts.ClearChildStorage([]byte(o.C), []byte(o.Key))
		if err != nil {
			r.count("cdel_err")
		}
		m.ClearChild(o.C, o.Key)
		r.count("cdel_" + inTx)
		r.mark("e")
	case OpCClr:
		err := ts.ClearPrefixInChild([]byte(o.C), []byte(o.Key))
		if err != nil {
			r.count("cclr_err")
		}
		if _, ok := m.top().childMap(o.C).Get([]byte(o.Key)); ok {
			r.count("child_clear_prefix_key_equals_prefix")
		}
		m.ApplyChild(o.C, m.ClearChildNS(o.C, o.Key, -1, Substrate))
		r.count("cclr_" + inTx)
		r.mark("f")
	case OpCClrLim:
		r.limitedChild(o, false)
	case OpCKill:
		if m.ChildExists(o.C) {
			r.count("child_kill_live_" + inTx)
			if _, ok := m.top().main.Get([]byte(o.C)); ok {
				r.count("child_kill_while_main_key_of_same_name")
			}
		}
		err := ts.DeleteChild([]byte(o.C))
		if err != nil {
			r.count("ckill_err")
		}
		m.ApplyChild(o.C, m.ClearChildNS(o.C, "", -1, Substrate))
		r.mark("x")
	case OpCKillLim:
		r.limitedChild(o, true)
	}
}

// limited clears: contents strictly (Substrate reading), counts/flags as labelled classes.

func sameKeys(a, b *vcommon.OrdMap) bool {
	ka, va := a.Entries()
	kb, vb := b.Entries()
	if len(ka) != len(kb) {
		return false
	}
	for i := range ka {
		if !bytes.Equal(ka[i], kb[i]) || !bytes.Equal(va[i], vb[i]) {
			return false
		}
	}
	return true
}

// alternative charging readings that are NOT treated as violations (spec text ambiguous to a reader
// who has not seen Substrate's implementation): reported in the counter class limit_charging_*.
var altReadings = []Reading{{false, false}, {false, true}, {true, false}}

func (r *runner) limitedMain(o Op) {
	ts, m := r.ts, r.m
	depth := m.Depth()
	tag := "tx"
	if depth == 0 {
		tag = "d0"
	}
	r.count("clrlim_" + tag)
	r.mark(fmt.Sprintf("L%d", min(o.Lim, 5)))
	spec := m.ClearMain(o.Key, o.Lim, Substrate)
	var dev ClearResult
	var devFlag bool
	if depth > 0 {
		dev, devFlag, _ = m.DevMain(o.Key, o.Lim)
	}
	alts := make([]ClearResult, len(altReadings))
	for i, rd := range altReadings {
		alts[i] = m.ClearMain(o.Key, o.Lim, rd)
	}
	del, all, err := ts.ClearPrefixLimit([]byte(o.Key), uint32(o.Lim))
	if err != nil {
		r.fail("op-error", "ClearPrefixLimit(%q,%d) error: %v", o.Key, o.Lim, err)
		return
	}
	// what the namespace looks like now
	obs := vcommon.NewOrdMap()
	for k, v := range ts.TrieEntries() {
		if !strings.HasPrefix(k, ChildRootPrefix) {
			obs.Put([]byte(k), v)
		}
	}
	r.classifyLimited("main", o, depth, obs, spec, dev, devFlag, alts, int(del), all, func(res ClearResult) { m.ApplyMain(res) })
}

func (r *runner) limitedChild(o Op, kill bool) {
	ts, m := r.ts, r.m
	depth := m.Depth()
	tag := "tx"
	if depth == 0 {
		tag = "d0"
	}
	prefix := o.Key
	name := "cclrlim_"
	if kill {
		prefix = ""
		name = "ckilllim_"
	}
	r.count(name + tag)
	r.mark(fmt.Sprintf("M%d", min(o.Lim, 5)))
	existed := m.ChildExists(o.C)
	spec := m.ClearChildNS(o.C, prefix, o.Lim, Substrate)
	var dev ClearResult
	var devFlag bool
	if depth > 0 {
		dev, devFlag, _ = m.DevChild(o.C, prefix, o.Lim, kill)
	}
	alts := make([]ClearResult, len(altReadings))
	for i, rd := range altReadings {
		alts[i] = m.ClearChildNS(o.C, prefix, o.Lim, rd)
	}
	var del uint32
	var all bool
	var err error
	if kill {
		del, all, err = ts.DeleteChildLimit([]byte(o.C), limBytes(o.Lim))
	} else {
		del, all, err = ts.ClearPrefixInChildWithLimit([]byte(o.C), []byte(o.Key), uint32(o.Lim))
	}
	obs := r.readChild(o.C)
	if err != nil {
		// convention of the code: an error means "child trie does not exist"; legal only if nothing was to be done
		r.count(name + "err")
		if existed {
			r.count(name + "err_on_live_child")
		}
		if !sameKeys(obs, spec.After) {
			r.fail("limited-clear-error", "%s returned error %v but the model expects a change: observed %s want %s", o, err, dump(obs), dump(spec.After))
			return
		}
		m.ApplyChild(o.C, spec)
		return
	}
	if o.Lim < 0 {
		// unlimited kill: plain contents comparison happens in observe(); flag must be true
		r.res.Evals++
		if !all {
			r.count("flag_unlimited_kill_false")
		}
		m.ApplyChild(o.C, spec)
		return
	}
	r.classifyLimited("child:"+o.C, o, depth, obs, spec, dev, devFlag, alts, int(del), all, func(res ClearResult) { m.ApplyChild(o.C, res) })
}

// readChild reconstructs the visible contents of a child from the public API.
func (r *runner) readChild(c string) *vcommon.OrdMap {
	obs := vcommon.NewOrdMap()
	for _, k := range ChildKeys {
		v, err := r.ts.GetChildStorage([]byte(c), []byte(k))
		if err == nil && v != nil {
			obs.Put([]byte(k), v)
		}
	}
	return obs
}

func dump(m *vcommon.OrdMap) string {
	ks, vs := m.Entries()
	var sb strings.Builder
	sb.WriteString("{")
	for i := range ks {
		if i > 0 {
			sb.WriteString(" ")
		}
		fmt.Fprintf(&sb, "%s=%s", ks[i], vs[i])
	}
	sb.WriteString("}")
	return sb.String()
}

const (
	K3 = "C08-K3" // pkg/trie/inmemory keeps child tries in a map keyed by root hash: identical children alias
	K1 = "C08-K1" // limited clear in a transaction: one sorted pass, overlay upserts beyond the cut survive / are uncharged
	K2 = "C08-K2" // limited clear in a transaction: allDeleted compared against every overlay upsert of the namespace
)

func (r *runner) classifyLimited(ns string, o Op, depth int, obs *vcommon.OrdMap, spec, dev ClearResult, devFlag bool,
	alts []ClearResult, del int, all bool, install func(ClearResult)) {
	r.res.Evals++
	if len(spec.Deleted) > 0 && !spec.All {
		r.count("limited_clear_cut_short")
	}
	if spec.Overlay > 0 && spec.Backend > 0 {
		r.count("limited_clear_overlay_and_backend")
	}
	if o.Lim == 0 {
		r.count("limited_clear_limit0")
	}
	chosen := spec
	switch {
	case sameKeys(obs, spec.After):
		r.count("limited_contents_eq_substrate")
	default:
		matched := false
		for i, a := range alts {
			if sameKeys(obs, a.After) {
				r.count(fmt.Sprintf("limit_charging_ambiguous_reading_%d", i))
				chosen, matched = a, true
				break
			}
		}
		if !matched && depth > 0 && sameKeys(obs, dev.After) {
			matched = true
			chosen = dev
			r.known(K1, "%s on %s: observed %s, Substrate %s (overlay keys %d, backend charged %d)", o, ns, dump(obs), dump(spec.After), spec.Overlay, spec.Loops)
			r.count("known_K1")
		}
		if !matched {
			r.fail("limited-clear-contents", "%s on %s: observed %s, Substrate semantics give %s", o, ns, dump(obs), dump(spec.After))
			return
		}
	}
	install(chosen)
	// flag: certain only when the un-iterated backend keys are not all shadowed
	r.res.Evals++
	wantAll := spec.All
	switch {
	case all == wantAll:
		r.count("limited_flag_eq")
	case spec.ShadowedLeft:
		r.count("limited_flag_ambiguous_shadowed")
	case depth > 0 && all == devFlag:
		r.known(K2, "%s on %s: allDeleted=%v, Substrate says %v (contents after: %s)", o, ns, all, wantAll, dump(obs))
		r.count("known_K2")
	case depth == 0:
		r.count("limited_flag_differs_depth0")
	default:
		r.fail("limited-clear-flag", "%s on %s: allDeleted=%v want %v (not explained by C08-K2)", o, ns, all, wantAll)
	}
	// counts: labelled classes only (spec text ambiguous)
	switch del {
	case spec.Backend:
		r.count("limited_count_eq_backend_deleted")
	case spec.Loops:
		r.count("limited_count_eq_backend_loops")
	case spec.Overlay + spec.Backend:
		r.count("limited_count_eq_unique")
	default:
		r.count("limited_count_other")
	}
}

// ---- observing ---------------------------------------------------------------

func (r *runner) backendRoots() map[string][]byte {
	if r.rootsDirty {
		r.roots = map[string][]byte{}
		b := r.m.backend()
		for c, x := range b.child {
			if x.Len() > 0 {
				h := vcommon.SpecRoot(x, r.version)
				r.roots[c] = h[:]
			}
		}
		r.rootsDirty = false
	}
	return r.roots
}

// expected main view including the (backend) child roots
func (r *runner) expectedMainFull() *vcommon.OrdMap {
	full := r.m.top().main.Clone()
	for c, h := range r.backendRoots() {
		full.Put([]byte(ChildRootPrefix+c), h)
	}
	return full
}

func (r *runner) observe() {
	if r.res.Fail != nil {
		return
	}
	ts, m := r.ts, r.m
	top := m.top()
	full := r.expectedMainFull()
	ev := 0
	// main reads
	for _, k := range mainGetProbe() {
		got := ts.Get([]byte(k))
		want, ok := full.Get([]byte(k))
		ev++
		if ts.Has([]byte(k)) != (got != nil) {
			r.fail("main-get", "Has(%q) disagrees with Get=%s", k, q(got))
			return
		}
		if !ok {
			want = nil
		}
		if !bytes.Equal(got, want) || (got == nil) != (want == nil) {
			class := "main-get"
			if strings.HasPrefix(k, ChildRootPrefix) {
				class = "child-root-entry"
			}
			r.fail(class, "Get(%q)=%s want %s", k, q(got), q(want))
			return
		}
	}
	for _, k := range mainNextProbe() {
		got := ts.NextKey([]byte(k))
		want, ok := full.NextKey([]byte(k))
		ev++
		if !ok {
			want = nil
		}
		if !bytes.Equal(got, want) {
			r.fail("main-nextkey", "NextKey(%q)=%s want %s", k, q(got), q(want))
			return
		}
	}
	// TrieEntries
	ent := ts.TrieEntries()
	ev++
	if !full.EqualMap(ent) {
		var ks []string
		for k, v := range ent {
			ks = append(ks, fmt.Sprintf("%s=%s", k, shortVal(v)))
		}
		sort.Strings(ks)
		r.fail("main-entries", "TrieEntries()={%s} want %s", strings.Join(ks, " "), dumpShort(full))
		return
	}
	// children
	for _, c := range ChildNames {
		cm := top.child[c]
		if cm == nil {
			cm = vcommon.NewOrdMap()
		}
		for _, k := range ChildKeys {
			got, err := ts.GetChildStorage([]byte(c), []byte(k))
			want, ok := cm.Get([]byte(k))
			ev++
			if err != nil {
				r.count("child_get_err")
				got = nil
			}
			if !ok {
				want = nil
			}
			if !bytes.Equal(got, want) || (got == nil) != (want == nil) {
				r.fail("child-get", "GetChildStorage(%q,%q)=%s err=%v want %s", c, k, q(got), err, q(want))
				return
			}
		}
		for _, k := range childNextProbe() {
			got, err := ts.GetChildNextKey([]byte(c), []byte(k))
			want, ok := cm.NextKey([]byte(k))
			ev++
			if err != nil {
				r.count("child_next_err")
				got = nil
			}
			if !ok {
				want = nil
			}
			if !bytes.Equal(got, want) {
				r.fail("child-nextkey", "GetChildNextKey(%q,%q)=%s err=%v want %s", c, k, q(got), err, q(want))
				return
			}
		}
		for _, p := range ChildPrefixes {
			got, err := ts.GetKeysWithPrefixFromChild([]byte(c), []byte(p))
			ev++
			if err != nil {
				r.count("child_list_err")
				got = nil
			}
			want := cm.KeysWithPrefix([]byte(p))
			gs := make([]string, len(got))
			for i := range got {
				gs[i] = string(got[i])
			}
			sort.Strings(gs)
			ws := make([]string, len(want))
			for i := range want {
				ws[i] = string(want[i])
			}
			if strings.Join(gs, "\x00") != strings.Join(ws, "\x00") {
				r.fail("child-listing", "GetKeysWithPrefixFromChild(%q,%q)=%q err=%v want %q", c, p, gs, err, ws)
				return
			}
			if len(ws) > 0 && m.Depth() > 0 {
				r.count("child_listing_nonempty_tx")
			}
		}
	}
	// depth 0: root of the whole structure
	if m.Depth() == 0 {
		h, err := ts.Trie().Hash()
		want := vcommon.SpecRoot(full, r.version)
		ev++
		if err != nil {
			r.fail("root", "Trie().Hash() error %v", err)
			return
		}
		if !bytes.Equal(h.ToBytes(), want[:]) {
			r.fail("root", "root at depth 0 = %x want %x (contents %s)", h.ToBytes(), want, dumpShort(full))
			return
		}
		r.count("root_compared")
		for _, c := range ChildNames {
			ch, err := ts.GetChildRoot([]byte(c))
			want, exists := r.backendRoots()[c]
			ev++
			switch {
			case err != nil && exists:
				r.fail("child-root", "GetChildRoot(%q) error %v, want %x", c, err, want)
				return
			case err == nil && !exists:
				r.fail("child-root", "GetChildRoot(%q)=%x but the child trie has no key", c, ch.ToBytes())
				return
			case err == nil && !bytes.Equal(ch.ToBytes(), want):
				r.fail("child-root", "GetChildRoot(%q)=%x want %x", c, ch.ToBytes(), want)
				return
			}
		}
		if len(r.backendRoots()) > 0 {
			r.count("root_compared_with_children")
		}
	}
	r.res.Evals += ev
}

func shortVal(v []byte) string {
	if len(v) == 32 && !isPrintable(v) {
		return fmt.Sprintf("#%x", v[:4])
	}
	return string(v)
}

func isPrintable(v []byte) bool {
	for _, b := range v {
		if b < 0x20 || b > 0x7e {
			return false
		}
	}
	return true
}

func dumpShort(m *vcommon.OrdMap) string {
	ks, vs := m.Entries()
	var sb strings.Builder
	sb.WriteString("{")
	for i := range ks {
		if i > 0 {
			sb.WriteString(" ")
		}
		fmt.Fprintf(&sb, "%s=%s", ks[i], shortVal(vs[i]))
	}
	sb.WriteString("}")
	return sb.String()
}

// fingerprint renders every observable of the real TrieState (no model involved).
func (r *runner) fingerprint() string {
	ts := r.ts
	var sb strings.Builder
	for _, k := range mainGetProbe() {
		fmt.Fprintf(&sb, "G(%s)=%s;", k, shortVal(ts.Get([]byte(k))))
	}
	for _, k := range mainNextProbe() {
		fmt.Fprintf(&sb, "N(%s)=%s;", k, ts.NextKey([]byte(k)))
	}
	ent := ts.TrieEntries()
	ks := make([]string, 0, len(ent))
	for k, v := range ent {
		ks = append(ks, k+"="+shortVal(v))
	}
	sort.Strings(ks)
	fmt.Fprintf(&sb, "E=%s;", strings.Join(ks, ","))
	for _, c := range ChildNames {
		for _, k := range ChildKeys {
			v, err := ts.GetChildStorage([]byte(c), []byte(k))
			fmt.Fprintf(&sb, "CG(%s/%s)=%s,%v;", c, k, v, err != nil)
		}
		for _, k := range childNextProbe() {
			v, err := ts.GetChildNextKey([]byte(c), []byte(k))
			fmt.Fprintf(&sb, "CN(%s/%s)=%s,%v;", c, k, v, err != nil)
		}
		l, err := ts.GetKeysWithPrefixFromChild([]byte(c), nil)
		ls := make([]string, len(l))
		for i := range l {
			ls[i] = string(l[i])
		}
		sort.Strings(ls)
		fmt.Fprintf(&sb, "CL(%s)=%s,%v;", c, strings.Join(ls, ","), err != nil)
	}
	return sb.String()
}
