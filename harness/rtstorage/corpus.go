//go:build verif

package rtstorage

type corpusEntry struct {
	name    string
	version int
	ops     []Op
}

func put(k, v string) Op            { return Op{K: OpPut, Key: k, Val: v} }
func del(k string) Op               { return Op{K: OpDel, Key: k} }
func clr(p string) Op               { return Op{K: OpClr, Key: p} }
func clrlim(p string, l int) Op     { return Op{K: OpClrLim, Key: p, Lim: l} }
func cset(c, k, v string) Op        { return Op{K: OpCSet, C: c, Key: k, Val: v} }
func cdel(c, k string) Op           { return Op{K: OpCDel, C: c, Key: k} }
func cclr(c, p string) Op           { return Op{K: OpCClr, C: c, Key: p} }
func cclrlim(c, p string, l int) Op { return Op{K: OpCClrLim, C: c, Key: p, Lim: l} }
func ckill(c string) Op             { return Op{K: OpCKill, C: c} }
func ckilllim(c string, l int) Op   { return Op{K: OpCKillLim, C: c, Lim: l} }

var (
	start    = Op{K: OpStart}
	commit   = Op{K: OpCommit}
	rollback = Op{K: OpRollback}
)

// corpus: seed-independent regression histories: the minimal witness of every
// defect this engine found (fixed on branch fix-rtstorage, or known finding).
var corpus = []corpusEntry{
	{"smoke", 0, []Op{put("a", "1"), start, put("ab", "2"), cset("a", "a", "ca1"), commit}},
	// fixed a1de0986f: empty prefix inside a transaction never terminated
	{"hang-empty-prefix-child-limit", 0, []Op{cset("c", "b", "1"), start, cclrlim("c", "", 4)}},
	{"hang-empty-prefix-child", 0, []Op{cset("c", "b", "1"), start, cclr("c", "")}},
	// fixed c5756dd65: main / child namespace collision in storageDiff
	{"ns-main-delete-wipes-child-overlay", 0, []Op{start, cset("a", "b", "1"), del("a")}},
	{"ns-main-delete-hides-child-nextkey", 0, []Op{cset("ab", "b", "1"), start, del("ab")}},
	{"ns-child-kill-hides-main-key", 0, []Op{cset("ab", "abc", "1"), put("ab", "2"), start, ckill("ab")}},
	{"ns-child-kill-nolimit-hides-main-key", 0, []Op{cset("ab", "abc", "1"), put("ab", "2"), start, ckilllim("ab", -1)}},
	{"ns-child-write-undoes-main-delete", 0, []Op{put("ab", "1"), start, del("ab"), cset("ab", "abc", "2")}},
	{"ns-commit-main-delete-removes-child", 0, []Op{put("a", "1"), cset("a", "a", "2"), start, del("a"), commit}},
	{"ns-commit-child-kill-removes-main-key", 0, []Op{put("a", "1"), cset("a", "a", "2"), start, ckill("a"), put("a", "3"), commit}},
	{"child-killed-still-served-from-state", 0, []Op{cset("c", "a", "1"), start, ckill("c")}},
	{"child-recreated-after-kill", 0, []Op{cset("c", "a", "1"), start, ckill("c"), cset("c", "b", "2"), commit}},
	{"child-recreated-after-kill-rollback", 0, []Op{cset("c", "a", "1"), start, start, ckill("c"), cset("c", "b", "2"), rollback, commit}},
	// fixed b139a951b: key equal to the cleared prefix
	{"prefix-equals-key-main", 0, []Op{put("abc", "1"), start, clr("abc")}},
	{"prefix-equals-key-main-limit", 0, []Op{put("abc", "1"), start, clrlim("abc", 3)}},
	{"prefix-equals-key-child", 0, []Op{cset("a", "ab", "1"), start, cclr("a", "ab")}},
	// fixed 6aa2c70a1: child key listing ignores the overlay
	{"listing-ignores-overlay-delete", 0, []Op{cset("c", "b", "1"), start, cdel("c", "b")}},
	{"listing-ignores-overlay-upsert", 0, []Op{cset("ab", "ab", "1"), start, cset("ab", "abc", "2")}},
	// fixed 1c6d6c974: child key deleted then written in one transaction is lost on commit
	{"child-delete-then-write", 0, []Op{start, cdel("c", "ab"), cset("c", "ab", "1"), commit}},
	{"child-delete-then-write-on-state", 0, []Op{cset("c", "ab", "0"), cset("c", "a", "0"), start, cdel("c", "ab"), cset("c", "ab", "1"), commit}},
	// fixed a31a04fdd: child clears outside a transaction leave the child root entry stale
	{"depth0-child-clear-limit-stale-root", 0, []Op{cset("ab", "abc", "1"), cclrlim("ab", "abc", 4)}},
	{"depth0-child-clear-stale-root", 0, []Op{cset("ab", "abc", "1"), cset("ab", "b", "2"), cclr("ab", "a")}},
	{"depth0-child-kill-limit-stale-root", 0, []Op{cset("c", "a", "1"), cset("c", "ab", "2"), ckilllim("c", 1)}},
	{"depth0-child-kill-limit0-deletes-all", 0, []Op{cset("c", "a", "1"), cset("c", "ab", "2"), ckilllim("c", 0)}},
	// known finding C08-K1: limited clear inside a transaction
	{"K1-overlay-key-beyond-cut-survives", 0, []Op{put("a", "1"), start, put("ab", "2"), clrlim("a", 1)}},
	{"K1-limit0-deletes-no-overlay-key", 0, []Op{start, put("b", "1"), clrlim("b", 0)}},
	{"K1-child-kill-limit", 0, []Op{cset("c", "a", "1"), start, cset("c", "b", "2"), ckilllim("c", 1), commit}},
	{"K1-child-clear-limit", 0, []Op{cset("c", "a", "1"), start, cset("c", "ab", "2"), cclrlim("c", "a", 1), commit}},
	// known finding C08-K2: allDeleted flag
	{"K2-unrelated-overlay-key", 0, []Op{start, put("b", "1"), put("a", "2"), clrlim("a", 3)}},
	{"K2-child", 0, []Op{start, cset("c", "b", "1"), cset("c", "a", "2"), cclrlim("c", "a", 3)}},
	// two child tries with identical content (pkg/trie/inmemory keeps child tries in a map keyed by root hash)
	{"alias-identical-children-d0", 0, []Op{cset("a", "a", "x"), cset("c", "a", "x"), cset("a", "b", "y")}},
	{"alias-identical-children-tx", 0, []Op{start, cset("a", "a", "x"), cset("c", "a", "x"), commit, start, cset("a", "b", "y"), commit}},
	{"alias-identical-children-kill", 0, []Op{cset("a", "a", "x"), cset("c", "a", "x"), start, ckill("a"), commit}},
	// rollback exactness and V1 roots with long values
	{"rollback-nested", 1, []Op{put("a", "0123456789012345678901234567890123456789"), cset("a", "a", "x"), start, put("a", "1"), start, ckill("a"), del("a"), rollback, cset("a", "b", "y"), rollback, start, clr("a"), commit}},
}
