//go:build verif

package rtstorage

import (
	"fmt"
	"strings"
	"testing"

	"github.com/ChainSafe/gossamer/zz_verif/vcommon"
)

// ---- generator ---------------------------------------------------------------

type gen struct {
	r     *vcommon.Rand
	n     int
	long  bool
	depth int
	ops   []Op
}

func (g *gen) val(ns, k string) string {
	g.n++
	v := fmt.Sprintf("%s.%s.%d", ns, k, g.n)
	if g.long && g.r.Chance(1, 4) {
		v += strings.Repeat("~", 40-len(v)%8)
	}
	return v
}

func (g *gen) lim() int {
	switch g.r.Intn(8) {
	case 0:
		return 0
	case 1:
		return 100
	default:
		return g.r.Range(1, 4)
	}
}

func (g *gen) dataOp() Op {
	r := g.r
	c := vcommon.Pick(r, ChildNames)
	switch x := r.Intn(100); {
	case x < 22:
		k := vcommon.Pick(r, MainKeys)
		return Op{K: OpPut, Key: k, Val: g.val("m", k)}
	case x < 32:
		return Op{K: OpDel, Key: vcommon.Pick(r, MainKeys)}
	case x < 38:
		return Op{K: OpClr, Key: vcommon.Pick(r, MainPrefixes)}
	case x < 48:
		return Op{K: OpClrLim, Key: vcommon.Pick(r, MainPrefixes), Lim: g.lim()}
	case x < 68:
		k := vcommon.Pick(r, ChildKeys)
		return Op{K: OpCSet, C: c, Key: k, Val: g.val("c"+c, k)}
	case x < 75:
		return Op{K: OpCDel, C: c, Key: vcommon.Pick(r, ChildKeys)}
	case x < 80:
		return Op{K: OpCClr, C: c, Key: vcommon.Pick(r, ChildPrefixes)}
	case x < 87:
		return Op{K: OpCClrLim, C: c, Key: vcommon.Pick(r, ChildPrefixes), Lim: g.lim()}
	case x < 93:
		return Op{K: OpCKill, C: c}
	default:
		l := g.lim()
		if r.Chance(1, 3) {
			l = -1
		}
		return Op{K: OpCKillLim, C: c, Lim: l}
	}
}

// genOps: a populated backend (direct writes at depth 0, or a committed
// transaction), then a block-like history of nested transactions.
func genOps(r *vcommon.Rand, maxOps int) (ops []Op, long bool) {
	g := &gen{r: r, long: r.Chance(1, 3)}
	// backend population
	npop := r.Range(0, 10)
	viaTx := r.Bool()
	if viaTx && npop > 0 {
		g.ops = append(g.ops, Op{K: OpStart})
	}
	for i := 0; i < npop; i++ {
		if r.Chance(3, 5) {
			k := vcommon.Pick(r, MainKeys)
			g.ops = append(g.ops, Op{K: OpPut, Key: k, Val: g.val("m", k)})
		} else {
			c, k := vcommon.Pick(r, ChildNames), vcommon.Pick(r, ChildKeys)
			g.ops = append(g.ops, Op{K: OpCSet, C: c, Key: k, Val: g.val("c"+c, k)})
		}
	}
	if viaTx && npop > 0 {
		g.ops = append(g.ops, Op{K: OpCommit})
	}
	n := r.Range(4, maxOps)
	for len(g.ops) < n {
		x := r.Intn(100)
		switch {
		case g.depth == 0 && x < 70:
			g.ops = append(g.ops, Op{K: OpStart})
			g.depth++
		case g.depth > 0 && g.depth < 4 && x < 10:
			g.ops = append(g.ops, Op{K: OpStart})
			g.depth++
		case g.depth > 0 && x < 17:
			g.ops = append(g.ops, Op{K: OpCommit, Lim: r.Intn(2)})
			g.depth--
		case g.depth > 0 && x < 24:
			g.ops = append(g.ops, Op{K: OpRollback})
			g.depth--
		default:
			o := g.dataOp()
			if g.depth == 0 && o.K == OpClrLim {
				// outside a transaction TrieState.ClearPrefixLimit only delegates to pkg/trie
				// (which of the matching keys go first is that package's business: C02/C38)
				o.K = OpClr
			}
			g.ops = append(g.ops, o)
		}
	}
	// unwind: mostly commit so that the final root is compared
	for g.depth > 0 {
		if r.Chance(4, 5) {
			g.ops = append(g.ops, Op{K: OpCommit, Lim: r.Intn(2)})
		} else {
			g.ops = append(g.ops, Op{K: OpRollback})
		}
		g.depth--
	}
	return g.ops, g.long
}

// ---- shrinking (delta debugging on the concrete op list) -----------------------

func sameFailure(a *Result, class string) bool {
	return a.Fail != nil && a.Fail.Class == class
}

func shrink(ops []Op, version int, class string, isOpen func(string) bool) []Op {
	cur := append([]Op{}, ops...)
	budget := 1500
	for changed := true; changed && budget > 0; {
		changed = false
		for i := len(cur) - 1; i >= 0 && budget > 0; i-- {
			cand := append(append([]Op{}, cur[:i]...), cur[i+1:]...)
			budget--
			if sameFailure(Run(cand, version, isOpen), class) {
				cur = cand
				changed = true
			}
		}
	}
	// cut everything after the failing step
	if res := Run(cur, version, isOpen); res.Fail != nil && res.Fail.Step+1 < len(cur) {
		cur = cur[:res.Fail.Step+1]
	}
	return cur
}

var shrunk = map[string]int{} // shrink only the first few violations of a process (bounded work)

// ---- reporting one run into the recorder ----------------------------------------

func report(c *vcommon.Case, ops []Op, version int, shrinkIt bool) *Result {
	isOpen := c.Run.IsOpen
	res := Run(ops, version, isOpen)
	c.Eval(res.Evals)
	for k, n := range res.Counters {
		c.Count(k, n)
	}
	c.Count("ops", len(ops))
	c.Count(fmt.Sprintf("histories_v%d", version), 1)
	if len(ops) >= 8 {
		c.Distinct(res.Shape)
	}
	seen := map[string]bool{}
	for _, k := range res.Known {
		if seen[k.ID] {
			continue
		}
		seen[k.ID] = true
		c.Known(k.ID, k.Msg, map[string]any{"version": version, "step": k.Step, "ops": opsStrings(ops[:k.Step+1])})
	}
	if res.Fail != nil && res.AliasPossible {
		// only reachable in the dedicated alias group / corpus entries: the generated histories tag every child
		// value with the child name, so two child tries never have identical content there
		c.Count("known_K3", 1)
		c.Known(K3, res.Fail.Class+": "+res.Fail.Msg, map[string]any{"version": version, "step": res.Fail.Step, "ops": opsStrings(ops[:res.Fail.Step+1])})
		return res
	}
	if res.Fail != nil {
		w := map[string]any{"version": version, "step": res.Fail.Step, "ops": opsStrings(ops[:min(res.Fail.Step+1, len(ops))])}
		if shrinkIt && shrunk[res.Fail.Class] < 2 {
			shrunk[res.Fail.Class]++
			small := shrink(ops, version, res.Fail.Class, isOpen)
			w["minimal_ops"] = opsStrings(small)
			if r2 := Run(small, version, isOpen); r2.Fail != nil {
				w["minimal_msg"] = r2.Fail.Msg
			}
		}
		c.Violation(res.Fail.Class, res.Fail.Msg, w)
	}
	return res
}

func TestVerifC08(t *testing.T) {
	r := vcommon.Start(t, "C08")
	defer r.Finish()
	if err := vcommon.SpecSelfCheck(); err != nil {
		r.Cases("selfcheck", 1, func(c *vcommon.Case) { c.Inconclusive(err.Error()) })
		return
	}
	// corner cases the property names
	r.Floor("rollback", 300)
	r.Floor("rollback_nested", 50)
	r.Floor("commit_outermost", 300)
	r.Floor("commit_nested", 100)
	r.Floor("commit_via_Root", 100)
	r.Floor("root_compared_with_children", 300)
	r.Floor("main_delete_of_live_child_name_tx", 50)
	r.Floor("child_kill_while_main_key_of_same_name", 30)
	r.Floor("child_write_while_main_key_of_same_name", 100)
	r.Floor("clear_prefix_key_equals_prefix", 30)
	r.Floor("child_recreated_after_kill_tx", 30)
	r.Floor("limited_clear_cut_short", 50)
	r.Floor("limited_clear_overlay_and_backend", 30)
	r.Floor("limited_clear_limit0", 20)
	r.Floor("child_listing_nonempty_tx", 300)

	r.Fixed("corpus", len(corpus), func(c *vcommon.Case) {
		e := corpus[c.Idx]
		res := report(c, e.ops, e.version, false)
		c.Sample(map[string]any{"corpus": e.name, "ops": opsStrings(e.ops), "failed": res.Fail != nil, "known": len(res.Known)})
	})

	// identical child tries (untagged values): evidence for known finding C08-K3 only
	r.Cases("alias", r.Scale(100), func(c *vcommon.Case) {
		ops, _ := genOps(c.R, 40)
		for i := range ops {
			if ops[i].K == OpCSet {
				ops[i].Val = fmt.Sprintf("v%d", c.R.Intn(2))
			}
		}
		res := report(c, ops, 0, false)
		if res.AliasPossible {
			c.Count("alias_histories", 1)
		}
	})

	r.Cases("hist", r.Scale(3000), func(c *vcommon.Case) {
		ops, long := genOps(c.R, 80)
		version := 0
		if long {
			version = 1
		}
		res := report(c, ops, version, true)
		if c.Idx < 2 {
			c.Sample(map[string]any{"ops": opsStrings(ops), "version": version, "evals": res.Evals})
		}
	})
}
