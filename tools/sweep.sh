#!/bin/bash
# tools/sweep.sh <tier> <log> [props...] : run checks sequentially against /repo, one summary block per check
tier="$1"; log="$2"; shift 2
props="$@"
[ -z "$props" ] && props=$(python3 -c "import json;print(' '.join(c['property_id'] for c in json.load(open('/verif/MANIFEST.json'))['checks']))")
: > "$log"
for p in $props; do
  /verif/check $p --tier $tier 2>&1 | grep -E "^(OK|FAIL|INCONCLUSIVE|VIOLATION|KNOWN-FINDING|BUILD-ERROR|  class)" | cut -c1-260 >> "$log"
done
echo SWEEP-DONE >> "$log"
