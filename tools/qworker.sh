#!/bin/bash
# single background worker: executes lines appended to /tmp/seedq.txt one after the other; output to /tmp/seedq.log
touch /tmp/seedq.txt; n=0
while true; do
  total=$(wc -l < /tmp/seedq.txt)
  if [ "$n" -lt "$total" ]; then
    n=$((n+1)); cmd=$(sed -n "${n}p" /tmp/seedq.txt)
    echo "## $cmd" >> /tmp/seedq.log
    (cd /verif && eval "$cmd") >> /tmp/seedq.log 2>&1
  else sleep 10; fi
done
