#!/usr/bin/env python3
"""Rewrites the commit hashes in harness/*/known.json "fixed:" records (written by engine authors against their
scratch branches) to the hashes of the same-subject commits on /repo main."""
import glob, json, re, subprocess
def git(*a):
    return subprocess.run(['git', '-C', '/repo'] + list(a), capture_output=True, text=True).stdout
main = {}
for ln in git('log', 'main', '--format=%h\t%s').splitlines():
    h, s = ln.split('\t', 1)
    main.setdefault(s, h)
mainhashes = set(main.values())
bad = 0
for p in sorted(glob.glob('/verif/harness/*/known.json')):
    d = json.load(open(p))
    out = []
    for rec in d.get('fixed', []):
        m = re.match(r'(fixed: property=\S+ )(\S+)( .*)', rec)
        if not m:
            print('UNPARSEABLE', p, rec[:80]); bad += 1; out.append(rec); continue
        h = m.group(2)
        full = git('rev-parse', '--short=9', h).strip()
        if git('merge-base', '--is-ancestor', h, 'main') == '' and subprocess.run(['git','-C','/repo','merge-base','--is-ancestor',h,'main']).returncode == 0:
            out.append(rec); continue
        subj = git('show', '-s', '--format=%s', h).strip()
        if subj in main:
            out.append(m.group(1) + main[subj] + m.group(3))
        else:
            print('NO MAIN COMMIT FOR', p, h, subj[:80]); bad += 1; out.append(rec)
    d['fixed'] = out
    json.dump(d, open(p, 'w'), indent=1)
print('done, problems:', bad)
