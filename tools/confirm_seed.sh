#!/bin/bash
# tools/confirm_seed.sh <id> <pkgdir> <demo-run-regex> [extra test pkgs...]
# Independently confirms a seeded change delivered in /tmp/seedout/<id>/ : (1) the demonstration passes on clean HEAD,
# (2) with the patch the tree builds and the demonstration fails, (3) the existing tests of the touched package(s) that are
# stable in /root/.vp/BASELINE.json still pass. On success copies it to /verif/seeded/<id>/ with a confirmation record.
set -u
id="$1"; pkg="$2"; rx="$3"; shift 3; extra="$@"
export GOFLAGS=-mod=mod GOPROXY=off GOSUMDB=off GOTOOLCHAIN=local
src=/tmp/seedout/$id; wt=/tmp/cs-$id
git -C /repo worktree remove --force $wt >/dev/null 2>&1
git -C /repo worktree add -q --detach $wt HEAD || exit 3
trap 'git -C /repo worktree remove --force '$wt' >/dev/null 2>&1' EXIT
cd $wt
cp $src/demo_test.go $pkg/zz_seed_demo_test.go
go test -vet=off -count=1 ${SEED_TAGS:+-tags $SEED_TAGS} -run "$rx" ./$pkg/ > /tmp/cs-$id.clean.log 2>&1; rc_clean=$?
git apply $src/patch.diff || { echo "RESULT $id patch-does-not-apply"; exit 3; }
go build ./... > /tmp/cs-$id.build.log 2>&1; rc_build=$?
go test -vet=off -count=1 ${SEED_TAGS:+-tags $SEED_TAGS} -run "$rx" ./$pkg/ > /tmp/cs-$id.mut.log 2>&1; rc_mut=$?
rm -f $pkg/zz_seed_demo_test.go
go test -vet=off -count=1 -json -p 6 -timeout 20m ./$pkg/... $extra > /tmp/cs-$id.suite.json 2>/dev/null
broken=$(python3 - /tmp/cs-$id.suite.json <<'PY'
import json,sys,ast
b=json.load(open('/root/.vp/BASELINE.json')); st=b['stable_pass']
st=set(ast.literal_eval(st) if isinstance(st,str) else st)
failed=set()
for l in open(sys.argv[1],errors='replace'):
    if not l.startswith('{'): continue
    try: e=json.loads(l)
    except Exception: continue
    if e.get('Test') and e.get('Action')=='fail': failed.add(e['Package']+'::'+e['Test'])
print(' '.join(sorted(failed & st)))
PY
)
echo "RESULT $id demo_on_clean_rc=$rc_clean build_rc=$rc_build demo_with_patch_rc=$rc_mut stable_tests_broken=[${broken}]"
if [ $rc_clean = 0 ] && [ $rc_build = 0 ] && [ $rc_mut != 0 ] && [ -z "$broken" ]; then
  mkdir -p /verif/seeded/$id; cp $src/patch.diff $src/demo_test.go /verif/seeded/$id/; [ -f $src/DEMO.md ] && cp $src/DEMO.md /verif/seeded/$id/
  python3 - $id "$pkg" "$rx" "$extra" <<'PY'
import json,sys
id,pkg,rx,extra=sys.argv[1:5]
m=json.load(open(f'/tmp/seedout/{id}/meta.json'))
m['confirmed_by_coordinator']={'demo_on_clean_head':'pass','build_with_patch':'ok','demo_with_patch':'fail',
  'existing_tests':f'go test -vet=off -count=1 ./{pkg}/... {extra}: no test that is stable in BASELINE.json fails with the patch',
  'demo_cmd':f"cp demo_test.go {pkg}/zz_seed_demo_test.go && go test -vet=off -count=1 -run '{rx}' ./{pkg}/"}
m['breaks_property']=m.get('property')
json.dump(m,open(f'/verif/seeded/{id}/meta.json','w'),indent=1)
PY
  echo "CONFIRMED $id"
else
  echo "REJECTED $id"
fi
