#!/bin/bash
# tools/multiseed.sh <log> <seed...> : quick sweep of every registered check at each seed; prints only non-OK lines + totals.
# Evidence written by these runs is restored afterwards (the committed evidence comes from the default-seed sweep).
log="$1"; shift
: > "$log"
props=$(python3 -c "import json;print(' '.join(c['property_id'] for c in json.load(open('/verif/MANIFEST.json'))['checks']))")
cp -r /verif/evidence /tmp/evidence.keep.$$
for s in "$@"; do
  for p in $props; do
    out=$(VERIF_SEED=$s /verif/check $p --tier quick 2>&1 | grep -E "^(OK|FAIL|INCONCLUSIVE|VIOLATION|BUILD-ERROR|  class)" | cut -c1-240)
    echo "$out" | grep -E "^OK" >/dev/null && echo "seed=$s $p OK" >> "$log" || { echo "seed=$s $p NOT-OK" >> "$log"; echo "$out" >> "$log"; }
  done
done
rm -rf /verif/evidence; mv /tmp/evidence.keep.$$ /verif/evidence
echo MULTISEED-DONE >> "$log"
