#!/usr/bin/env python3
"""Regenerates the generated blocks of DESIGN.md:
  <!-- GEN:FIXES BEGIN/END -->     fix: commits on /repo main, with the property each repairs (from harness/*/known.json)
  <!-- GEN:FINDINGS BEGIN/END -->  open known findings (from known_findings.json)
  <!-- GEN:SEEDED BEGIN/END -->    seeded changes and the verdict of the checks on them (seeded/*/meta.json, seeded/results.jsonl)
"""
import glob, json, os, re, subprocess

V = '/verif'


def git(*a):
    return subprocess.run(['git', '-C', '/repo'] + list(a), capture_output=True, text=True).stdout


def fixes():
    prop_of = {}
    for p in glob.glob(V + '/harness/*/known.json'):
        for rec in json.load(open(p)).get('fixed', []):
            m = re.match(r'fixed: property=(\S+) (\S+) ', rec)
            if m:
                prop_of.setdefault(m.group(2)[:9], set()).add(m.group(1))
    rows = ['| commit | property | subject |', '|---|---|---|']
    n = 0
    for ln in git('log', '--reverse', '--format=%h\t%s', 'main').splitlines():
        h, s = ln.split('\t', 1)
        if not s.startswith('fix:'):
            continue
        n += 1
        props = ' '.join(sorted(prop_of.get(h[:9], []))) or '—'
        rows.append('| `%s` | %s | %s |' % (h, props, s[5:].replace('|', '\\|')))
    return '%d `fix:` commits on `/repo` main (each a separate unguarded commit; the pinned suite, guard off, passes with all of them: `tools/baseline.sh`).\n\n' % n + '\n'.join(rows)


def findings():
    d = json.load(open(V + '/known_findings.json'))
    rows = ['| id | call site | what fails (witness in known_findings.json) |', '|---|---|---|']
    for f in d['findings']:
        if f.get('status') != 'open':
            continue
        rows.append('| %s | `%s` | %s |' % (f['id'], str(f.get('call_site', '')).replace('|', '\\|')[:110],
                                           f['what'].replace('|', '\\|').replace('\n', ' ')))
    return '\n'.join(rows)


def seeded():
    res = {}
    p = V + '/seeded/results.jsonl'
    if os.path.exists(p):
        for ln in open(p):
            try:
                r = json.loads(ln)
            except ValueError:
                continue
            res.setdefault((r['id'], r['prop']), []).append(r)
    rows = ['| seeded id | property | files | what it needs to manifest | verdict of `./check <prop>` (quick) |', '|---|---|---|---|---|']
    caught = missed = 0
    for d in sorted(glob.glob(V + '/seeded/*/meta.json')):
        m = json.load(open(d))
        sid = os.path.basename(os.path.dirname(d))
        prop = m.get('property') or m.get('breaks_property')
        hist = res.get((sid, prop), [])
        others = {}
        for (i2, p2), h2 in res.items():
            if i2 == sid and p2 != prop and h2:
                others[p2] = h2[-1]
        if not hist:
            verdict = 'not run yet'
        else:
            last = hist[-1]
            first_missed = any(h['verdict'] == 'MISSED' for h in hist[:-1])
            if last['verdict'] == 'CAUGHT':
                caught += 1
                verdict = 'CAUGHT (%s)' % last.get('classes', '').strip(',')
                if first_missed:
                    verdict += ' — missed by the first version of the check, caught after strengthening'
            else:
                by = [p2 for p2, h2 in others.items() if h2['verdict'] == 'CAUGHT']
                if by:
                    caught += 1
                    verdict = 'not visible to %s\'s own monitor; CAUGHT by %s (%s) — the change manifests in that property\'s domain' % (
                        prop, ', '.join('`./check %s`' % b for b in sorted(by)), '; '.join(others[b].get('classes', '').strip(',') for b in sorted(by)))
                else:
                    missed += 1
                    verdict = 'MISSED'
        rows.append('| %s | %s | %s | %s | %s |' % (sid, prop, ', '.join('`%s`' % f for f in m.get('files', [])),
                                                   str(m.get('needs', '')).replace('|', '\\|').replace('\n', ' ')[:260], verdict))
    return '%d seeded changes kept (each confirmed by the coordinator: demonstration passes on clean HEAD, fails with the patch; tree builds; no baseline-stable test of the touched packages fails). Caught: %d, missed: %d.\n\n' % (caught + missed + sum(1 for r in rows if 'not run yet' in r), caught, missed) + '\n'.join(rows)


def main():
    s = open(V + '/DESIGN.md').read()
    for tag, fn in (('FIXES', fixes), ('FINDINGS', findings), ('SEEDED', seeded)):
        b, e = '<!-- GEN:%s BEGIN -->' % tag, '<!-- GEN:%s END -->' % tag
        if b in s and e in s:
            s = s[:s.index(b) + len(b)] + '\n' + fn() + '\n' + s[s.index(e):]
    open(V + '/DESIGN.md', 'w').write(s)


main()
