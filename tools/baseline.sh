#!/bin/bash
# tools/baseline.sh [out.json] : runs the repository's pinned test suite (guard OFF, no overlay) on /repo and compares
# with /root/.vp/BASELINE.json stable_pass. Exit 0 iff every stable test still passes.
export GOFLAGS=-mod=mod GOPROXY=off GOSUMDB=off GOTOOLCHAIN=local
out="${1:-/tmp/baseline-run.json}"
: > "$out"
for m in . ./devnet; do (cd /repo/$m && go test -mod=mod -json -vet=off -count=1 -timeout 25m ./... >> "$out" 2>/dev/null); done
python3 - "$out" <<'PY'
import json,sys,ast
b=json.load(open('/root/.vp/BASELINE.json'))
stable=b['stable_pass']
if isinstance(stable,str): stable=ast.literal_eval(stable)
passed,failed=set(),set()
for l in open(sys.argv[1],errors='replace'):
    l=l.strip()
    if not l.startswith('{'): continue
    try: e=json.loads(l)
    except Exception: continue
    if e.get('Test') is None: continue
    t=e['Package']+'::'+e['Test']
    if e.get('Action')=='pass': passed.add(t)
    elif e.get('Action')=='fail': failed.add(t)
passed-=failed
bad=[t for t in stable if t not in passed]
print("stable=%d passed_now=%d failed_now=%d stable_not_passing=%d"%(len(stable),len(passed),len(failed),len(bad)))
for t in bad[:60]: print("  NOT-PASSING",t,"(failed)" if t in failed else "(missing)")
sys.exit(1 if bad else 0)
PY
