#!/usr/bin/env python3
"""Prints the prompt given to an independent mutant-seeding sub-agent for property <ID>.
The prompt contains only the property text (never anything from /verif's checks)."""
import json, sys
pid = sys.argv[1]
suffix = sys.argv[2] if len(sys.argv) > 2 else ""
p = next(json.loads(l) for l in open('/verif/properties.jsonl') if json.loads(l)['id'] == pid)
import glob, os
prev = []
for d in sorted(glob.glob(f'/verif/seeded/{pid}*/meta.json')):
    m = json.load(open(d))
    prev.append('- ' + str(m.get('what', ''))[:400].replace('\n', ' ') + ' (files: ' + ', '.join(m.get('files', [])) + ')')
prevtxt = ''
if suffix and prev:
    prevtxt = ("\nEarlier seeders already delivered the following changes for this property. Yours must differ from all of them in kind AND location "
               "(different function / different mechanism / different entry point of the property; prefer parts of the property statement they did not touch):\n" + '\n'.join(prev) + '\n')
print(f"""You are testing a verification framework by seeding realistic defects ("mutants") into ChainSafe/gossamer (a Go implementation of the Polkadot host; repo at /repo). There is no network. Do NOT read anything under /verif or /root/.vp — your mutants must be independent of whatever checks exist.

Property {pid}: {p['title']}
Statement: {p['statement']}
Quantified over: {p['quantifier']['text']}
Anchored in files: {', '.join(p['anchors']['files'])}
{prevtxt}
Task: produce TWO different changes (mutant a and mutant b; make them different in kind and location). Each is a change to NON-test Go source of gossamer which
 (1) breaks the property above — a realistic regression a developer could introduce (wrong comparison at a boundary, dropped check, reordered writes, wrong variable, missing lock, stale cache, early return, off-by-one ...), not sabotage that makes everything fail;
 (2) still compiles (`go build ./...`) and passes the EXISTING tests of every package it touches and of the obvious dependents — run them (`go test -vet=off -count=1 ./path/...`) and compare any failure against the unmodified tree (a test failing both with and without the change is exempt; many runtime tests need network and always fail);
 (3) needs something SPECIFIC to manifest — a particular interleaving, a crash/fault at a particular point, a multi-step sequence of operations, an unusual input, or two cooperating sites that each look fine alone — NOT something ordinary use exposes at once;
 (4) comes with a demonstration: a Go test file (or small program) that FAILS with the change and PASSES without it. Verify both directions yourself.

Setup: `export GOFLAGS=-mod=mod GOPROXY=off GOSUMDB=off GOTOOLCHAIN=local` in EVERY shell call. `git -C /repo worktree add --detach /tmp/seed-{pid}{suffix} HEAD` and work only there. `git status` there shows 7 pre-existing modified fixture files: ignore them, never include them in a diff. The machine is shared: be frugal (`-run` filters, `-p 4`). NEVER use `git stash` (the stash is shared by all worktrees of /repo and other agents work in parallel): to set a change aside use `git diff > /tmp/x.diff; git checkout -- <files>; git apply /tmp/x.diff`.

Deliver, for each mutant x in {{a,b}}, a directory /tmp/seedout/{pid}{suffix}{{x}}/ containing:
 - patch.diff  — `git diff -- <the source files you changed>` (source change only; must apply with `git apply` on a clean checkout of HEAD; no test files inside);
 - demo_test.go (plus DEMO.md saying into which package directory to copy it and the exact `go test` command) — fails with the patch, passes without;
 - meta.json — {{"property": "{pid}", "what": "what the change does", "needs": "what is needed for it to manifest", "files": ["..."], "existing_tests_run": ["cmd ..."], "demo_cmd": "..."}}.
Reset the worktree between the two mutants (`git checkout -- <files>`, delete the demo file). When finished leave the worktree clean of your changes but do not remove it. Final report: at most 12 lines per mutant.""")
