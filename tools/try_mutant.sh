#!/bin/bash
# tools/try_mutant.sh <seeded-id> <PROP> [tier]
# Applies /verif/seeded/<seeded-id>/patch.diff to a fresh scratch worktree of /repo HEAD, runs the check for
# PROP against it (VERIF_REPO), prints the verdict, removes the worktree. /repo itself is never touched.
set -u
id="$1"; prop="$2"; tier="${3:-quick}"
export GOFLAGS=-mod=mod GOPROXY=off GOSUMDB=off GOTOOLCHAIN=local
wt="/tmp/mut-$id-$$"
git -C /repo worktree add -q --detach "$wt" HEAD || exit 3
trap 'git -C /repo worktree remove --force "$wt" >/dev/null 2>&1; rm -rf /verif/.build/$(python3 -c "import hashlib,sys;print(hashlib.sha1(sys.argv[1].encode()).hexdigest()[:10])" "$wt")' EXIT
if ! git -C "$wt" apply "/verif/seeded/$id/patch.diff" 2>/dev/null; then
  # /repo main moved since the change was seeded (later fix: commits): fall back to a 3-way apply
  if ! git -C "$wt" apply -3 "/verif/seeded/$id/patch.diff" >/dev/null 2>&1; then echo "RESULT $id $prop patch-does-not-apply"; exit 3; fi
fi
if ! (cd "$wt" && go build ./... >/dev/null 2>&1); then echo "RESULT $id $prop patched-tree-does-not-build"; exit 3; fi
VERIF_REPO="$wt" /verif/check "$prop" --tier "$tier" > "/tmp/mut-$id-$prop.log" 2>&1
rc=$?
grep -E "^(VIOLATION|KNOWN-FINDING|OK|FAIL|INCONCLUSIVE|BUILD-ERROR)" "/tmp/mut-$id-$prop.log" | head -8
verdict=$( [ $rc = 1 ] && echo CAUGHT || echo MISSED )
classes=$(grep -E "^  class=" "/tmp/mut-$id-$prop.log" | sed -E 's/^  class=([^ ]+).*/\1/' | sort -u | tr '\n' ',' )
echo "{\"id\":\"$id\",\"prop\":\"$prop\",\"tier\":\"$tier\",\"rc\":$rc,\"verdict\":\"$verdict\",\"classes\":\"$classes\",\"verif_commit\":\"$(git -C /verif rev-parse --short HEAD)\",\"repo_head\":\"$(git -C /repo rev-parse --short HEAD)\"}" >> /verif/seeded/results.jsonl
echo "RESULT $id $prop rc=$rc $verdict $classes"
exit 0
