#!/bin/bash
# tools/all_mutants.sh [log] : run the owning check on every kept seeded change (scratch worktree each); summary at the end
log="${1:-/tmp/all_mutants.log}"; : > "$log"
for d in /verif/seeded/*/; do
  id=$(basename $d); [ -f $d/meta.json ] || continue
  prop=$(python3 -c "import json;m=json.load(open('$d/meta.json'));print(m.get('property') or m.get('breaks_property'))")
  /verif/tools/try_mutant.sh $id $prop 2>&1 | grep -E "^RESULT" >> "$log"
done
echo "caught=$(grep -c CAUGHT $log) missed=$(grep -c MISSED $log) other=$(grep -vcE 'CAUGHT|MISSED' $log)" >> "$log"
