#!/bin/bash
# tools/all_mutants.sh [workers] : run the owning check on every kept seeded change (scratch worktree each), in parallel
# workers; verdicts are appended to seeded/results.jsonl by try_mutant.sh; summary in /tmp/all_mutants.log
w="${1:-3}"; log=/tmp/all_mutants.log; : > "$log"
ls -d /verif/seeded/*/ | while read d; do id=$(basename $d); [ -f $d/meta.json ] || continue
  prop=$(python3 -c "import json;m=json.load(open('$d/meta.json'));print(m.get('property') or m.get('breaks_property'))"); echo "$id $prop"; done > /tmp/all_mutants.list
split -n l/$w -d /tmp/all_mutants.list /tmp/all_mutants.part
for f in /tmp/all_mutants.part*; do
  ( while read id prop; do /verif/tools/try_mutant.sh $id $prop 2>&1 | grep -E "^RESULT" >> "$log"; done < $f ) &
done
wait
echo "caught=$(grep -c CAUGHT $log) missed=$(grep -c MISSED $log) other=$(grep -vcE 'CAUGHT|MISSED' $log)" >> "$log"
