#!/usr/bin/env python3
"""python3-vt tools/validate.py : validate MANIFEST.json and every evidence file against the schemas."""
import glob, json, sys
import jsonschema
ok = True
def v(path, schema):
    global ok
    try:
        jsonschema.validate(json.load(open(path)), json.load(open(schema)))
    except Exception as e:
        ok = False
        print("INVALID", path, str(e)[:300])
v('/verif/MANIFEST.json', '/root/.vp/MANIFEST.schema.json')
for p in sorted(glob.glob('/verif/evidence/*.json')):
    v(p, '/root/.vp/EVIDENCE.schema.json')
print("all valid" if ok else "FAILED")
sys.exit(0 if ok else 1)
