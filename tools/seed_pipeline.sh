#!/bin/bash
# tools/seed_pipeline.sh <id> <prop> <pkgdir> <demo-regex> [extra test pkgs...] : confirm a delivered seed, then run the check on it
id="$1"; prop="$2"; pkg="$3"; rx="$4"; shift 4
/verif/tools/confirm_seed.sh "$id" "$pkg" "$rx" "$@" 2>&1 | grep -E "RESULT|CONFIRMED|REJECTED"
if [ -d /verif/seeded/$id ]; then /verif/tools/try_mutant.sh "$id" "$prop" 2>&1 | grep -E "RESULT|VIOLATION|class" | head -6; fi
