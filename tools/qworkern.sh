#!/bin/bash
# single background worker: executes lines appended to /tmp/seedq$1.txt one after the other; output to /tmp/seedq$1.log
touch /tmp/seedq$1.txt; n=0
while true; do
  total=$(wc -l < /tmp/seedq$1.txt)
  if [ "$n" -lt "$total" ]; then
    n=$((n+1)); cmd=$(sed -n "${n}p" /tmp/seedq$1.txt)
    echo "## $cmd" >> /tmp/seedq$1.log
    (cd /verif && eval "$cmd") >> /tmp/seedq$1.log 2>&1
  else sleep 10; fi
done
